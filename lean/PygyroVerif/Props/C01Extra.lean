/-
C01 — Layout transposes preserve the global field: the **bridge** between the abstract argument of `Props/C01.lean`
and the executable model (`Model/Handler.lean`: `extractFromSource`, `alltoallAxis`, `rearrangeFromBuffer`,
`directStepT`, `followRoute`, `transposeWorld`, built on the numpy-view operations of `Model/NDView.lean`).
Property theorems only; helper lemmas are in `Lemmas/DirectStep*.lean`.

  1. vocabulary: `DS.LayoutOK / PairOK / CoordsOK / TopoOK` (decidable well-formedness), `DS.HoldsBlock / HoldsWorld`
     ("this flat buffer holds, in C order of the local shape, the block of the global field `G` that the layout assigns
     to this rank")
  2. the local case of one direct change of layout                                  (`directStep_local_correct`)
  3. pointwise meaning of every stage of the communicating case, for every compatible pair of layouts of arrays of any
     rank, any extents, any process grid, padded blocks included
     (`view_assignment_pointwise`, `extractFromSource_pointwise`, `alltoall_pointwise`, `rearrangeFromBuffer_pointwise`)
  4. one direct change of layout, executable, both cases                            (`directStep_correct`, `_cart`)
     and the step contract it satisfies                                             (`directStep_satisfies_contract`)
  5. `transpose` through any stored route, with and without spare buffer, and the same-layout copy
     (`followRoute_correct_nobuf`, `followRoute_correct_buf`, `transposeWorld_correct`, `transposeWorld_same_layout`)
  6. the constructor's `bufferSize` covers every connected pair (`bufferSize_suffices`), hence
     `transposeWorld_correct_bufferSize`: buffers of `bufferSize` cells are all `transpose` needs
Nothing here is evaluated on instances: every theorem is for all layouts / extents / process grids / buffers.
-/
import PygyroVerif.Lemmas.DirectStepRoute
import PygyroVerif.Lemmas.DirectStepBuffer
import PygyroVerif.Props.C01
import Mathlib.Tactic.IntervalCases

namespace PygyroVerif.C01
open PygyroVerif PygyroVerif.Handler PygyroVerif.Route PygyroVerif.DS PygyroVerif.CopyBox

variable {α : Type} [Inhabited α]

/-! ### 1. vocabulary: concrete instances -/

/-- the poloidal → flux-surface pair of the 4-D simulation on a 2 × 3 process grid is a well-formed pair, rank 5 of the
    Cartesian topology has valid coordinates, and the topology `getLayoutHandler` builds is well formed -/
example : PairOK [2, 3] [3, 2, 1, 0] [3, 0, 1, 2] [8, 6, 5, 7] ∧ CoordsOK [2, 3] (coordsOf [2, 3] 5) ∧
    TopoOK (cartTopo [2, 3]) [2, 3] :=
  ⟨by decide, by decide, cartTopo_ok [2, 3]⟩

/-- the source blocks of `f1World` (finding F1: shape (2,3), process grid (1,2), ordering [1,0]) hold the field
    `G(i0, i1) = i1` -/
theorem f1World_holds :
    HoldsWorld (cartTopo [1, 2]) (f1Handler.layoutAt 0) (fun g => (g.getD 1 0 : Int)) (f1World.getD 0 #[]) := by
  intro rank hr idx hidx
  have hr' : rank < 2 := hr
  interval_cases rank
  · have hs : (f1Handler.layoutAt 0).shape ((cartTopo [1, 2]).coords 0) = [3, 1] := by decide
    rw [hs] at hidx ⊢
    obtain ⟨i, j, rfl, hi, hj⟩ := inBox_two idx 3 1 hidx
    interval_cases i <;> interval_cases j <;> decide
  · have hs : (f1Handler.layoutAt 0).shape ((cartTopo [1, 2]).coords 1) = [3, 1] := by decide
    rw [hs] at hidx ⊢
    obtain ⟨i, j, rfl, hi, hj⟩ := inBox_two idx 3 1 hidx
    interval_cases i <;> interval_cases j <;> decide

/-! ### 2. the local case -/

/-- **Local case of one direct change of layout** (`swapAxes = []`: the two orderings differ only on undistributed
    axes; layout.py:639-649, 672-678).  For every well-formed pair of layouts of a handler and every topology with valid
    coordinates: if role `x` holds `G` in the source layout on every rank and the buffers of role `y` can take the
    destination blocks, the executable step succeeds, role `y` holds `G` in the destination layout, every role other than
    `y` (the spare role `z` included) is unchanged, and no buffer changes its length. -/
theorem directStep_local_correct (T : Topo) (h : Handler) (iS iD x y z : Nat) (w : World α) (G : List Nat → α)
    (hpair : PairOK h.nprocs (h.orders.getD iS []) (h.orders.getD iD []) h.ext)
    (hT : ∀ rank, rank < T.nRanks → CoordsOK h.nprocs (T.coords rank))
    (hax : swapAxes h.nprocs (h.layoutAt iS).ord (h.layoutAt iD).ord = [])
    (hxy : x ≠ y) (hy : y < w.size) (hyn : T.nRanks ≤ (w.getD y #[]).size)
    (hsz : ∀ rank, rank < T.nRanks → (h.layoutAt iD).size (T.coords rank) ≤ (World.get w y rank).size)
    (hsrc : HoldsWorld T (h.layoutAt iS) G (w.getD x #[])) :
    ∃ w', directStepT true T h iS iD x y z w = .ok w' ∧
      HoldsWorld T (h.layoutAt iD) G (w'.getD y #[]) ∧
      (∀ r, r ≠ y → w'.getD r #[] = w.getD r #[]) ∧
      w'.size = w.size ∧ (w'.getD y #[]).size = (w.getD y #[]).size ∧
      (∀ rank, (World.get w' y rank).size = (World.get w y rank).size) :=
  directStepT_local T h iS iD x y z w G hpair hT hax hxy hy hyn hsz hsrc

/-- a pair that differs only on undistributed axes: 3-D array, process grid (2), orderings [0,1,2] and [0,2,1] -/
example : PairOK [2] [0, 1, 2] [0, 2, 1] [4, 3, 5] ∧ swapAxes [2] [0, 1, 2] [0, 2, 1] = [] := by decide

/-! ### 3. the stages of the communicating case -/

/-- **Meaning of the numpy assignments of the transposition code**:
    `buf[offD : offD+prod].reshape(shD)[rngD] = np.transpose(src[offS : …].reshape(shS)[rngS], …)` where the axes of the
    two reshaped chunks are labelled by dimension ids (`labD`, `labS`, one a permutation of the other), the slices are
    not clamped and have equal extents.  numpy raises nothing (`assignView ≠ none`), every element `u` of the sliced box
    is copied from its source address to its destination address, and every other cell of the destination buffer is
    unchanged.  All six assignments of `_transpose`, `_extract_from_source`, `_rearrange_from_buffer` are instances. -/
theorem view_assignment_pointwise (dst src : Array α) (offD : Nat) (labD : List Nat) (shD : Nat → Nat)
    (rngD : Nat → Nat × Nat) (offS : Nat) (labS : List Nat) (shS : Nat → Nat) (rngS : Nat → Nat × Nat)
    (hndD : labD.Nodup) (hndS : labS.Nodup) (hperm : labD.Perm labS)
    (hrD : ∀ d ∈ labD, (rngD d).1 ≤ (rngD d).2 ∧ (rngD d).2 ≤ shD d)
    (hrS : ∀ d ∈ labD, (rngS d).1 ≤ (rngS d).2 ∧ (rngS d).2 ≤ shS d)
    (hlen : ∀ d ∈ labD, (rngS d).2 - (rngS d).1 = (rngD d).2 - (rngD d).1)
    (hfit : offD + (labD.map shD).prod ≤ dst.size) :
    ∃ out, assignView dst ((DView.chunkD offD labD shD).sliceD rngD).toView src
        ({ (DView.chunkD offS labS shS).sliceD rngS with lab := labD } : DView).toView = some out ∧
      out.size = dst.size ∧
      (∀ u : Nat → Nat, (∀ d ∈ labD, u d < (rngD d).2 - (rngD d).1) →
        out[offD + Addr.ravelD labD (fun d => (rngD d).1 + u d) shD]? =
          some (src.getD (offS + Addr.ravelD labS (fun d => (rngS d).1 + u d) shS) default)) ∧
      (∀ j, (∀ u : Nat → Nat, (∀ d ∈ labD, u d < (rngD d).2 - (rngD d).1) →
          offD + Addr.ravelD labD (fun d => (rngD d).1 + u d) shD ≠ j) → out[j]? = dst[j]?) :=
  assign_sliced_chunks dst src offD labD shD rngD offS labS shS rngS hndD hndS hperm hrD hrS hlen hfit

/-- a 2 × 3 destination chunk (axes labelled 7, 9), row `[0:1]`, assigned from row `[1:2]` of a 3 × 4 source chunk whose
    axes are stored in the other order (9, 7) -/
example :
    let labD : List Nat := [7, 9]
    let labS : List Nat := [9, 7]
    let shD : Nat → Nat := fun d => if d = 7 then 2 else 3
    let shS : Nat → Nat := fun d => if d = 7 then 4 else 3
    let rngD : Nat → Nat × Nat := fun d => if d = 7 then (0, 1) else (0, 3)
    let rngS : Nat → Nat × Nat := fun d => if d = 7 then (1, 2) else (0, 3)
    labD.Nodup ∧ labS.Nodup ∧ labD.Perm labS ∧
    (∀ d ∈ labD, (rngD d).1 ≤ (rngD d).2 ∧ (rngD d).2 ≤ shD d) ∧
    (∀ d ∈ labD, (rngS d).1 ≤ (rngS d).2 ∧ (rngS d).2 ≤ shS d) ∧
    (∀ d ∈ labD, (rngS d).2 - (rngS d).1 = (rngD d).2 - (rngD d).1) ∧
    0 + (labD.map shD).prod ≤ (Array.replicate 6 (0 : Int)).size := by
  decide

/-- **Stage 1, `_extract_from_source`** (layout.py:711-765 with the repaired `split_axis`), executable, one rank.
    `A = oS[a0]` is the dimension distributed on the swapped process axis `a0` in the source, `B = oD[a0]` the one
    distributed there in the destination, `p` the number of processes on that axis.  If the source buffer is as long as
    the source block and the send buffer can take `p` padded blocks, nothing is raised and, for every destination rank
    `j < p` and every multi-index `u` (by dimension) of the part of the source block whose `B`-indices belong to `j`,
    `out[j·size + addr of u in the padded block shape, distributed axis first] = src[addr of (u shifted by start_j along B)]`. -/
theorem extractFromSource_pointwise {np oS oD ext : List Nat} {a0 : Nat} (H : Comm np oS oD ext a0) (c : List Nat)
    (hc : CoordsOK np c) (src tobuf : Array α)
    (hsrc : ((Layout.make np oS ext).shape c).prod ≤ src.size)
    (hfit : np.getD a0 1 * packSize np oS oD ext a0 c ≤ tobuf.size) :
    ∃ out, extractFromSource true (Layout.make np oS ext) (Layout.make np oD ext) c (swapAxes np oS oD) src tobuf = .ok out ∧
      out.size = tobuf.size ∧
      ∀ j, j < np.getD a0 1 → ∀ u : Nat → Nat,
        (∀ d ∈ oS, u d < Function.update (lenD (Layout.make np oS ext) c) (oD.getD a0 0)
            (blockLen (ext.getD (oD.getD a0 0) 0) (np.getD a0 1) j) d) →
        out[j * packSize np oS oD ext a0 c + Addr.ravelD (swapL oS 0 a0) u (packBlk np oS oD ext a0 c)]? =
          some (src.getD (Addr.ravelD oS
            (Function.update u (oD.getD a0 0) (blockStart (ext.getD (oD.getD a0 0) 0) (np.getD a0 1) j + u (oD.getD a0 0)))
            (lenD (Layout.make np oS ext) c)) default) :=
  extractFromSource_spec H c hc src tobuf hsrc hfit

/-- the configuration of finding F1 is a communicating pair (swapped process axis 1) -/
example : Comm [1, 2] [1, 0] [0, 1] [2, 3] 1 := ⟨by decide, by decide⟩

/-- **Stage 2, `comm.Alltoall(sendBuf, rcvBuf)`** on the sub-communicators of the swapped process axis, executable, all
    ranks at once: only the receive role changes, and chunk `q` of a rank's receive buffer is chunk `me` (its own
    coordinate on the axis) of the send buffer of its partner `q`. -/
theorem alltoall_pointwise (T : Topo) (p a0 : Nat) (sizeOf : Nat → Nat) (w : World α) (y z : Nat) (hp : 0 < p)
    (hz : z < w.size) (hzn : T.nRanks ≤ (w.getD z #[]).size) (cs : Nat → Nat)
    (hsize : ∀ rank, rank < T.nRanks → sizeOf rank = p * cs rank)
    (hrcv : ∀ rank, rank < T.nRanks → p * cs rank ≤ (World.get w z rank).size) :
    ∃ w', alltoallAxis T p a0 sizeOf w y z = .ok w' ∧ w'.size = w.size ∧
      (∀ role, role ≠ z → w'.getD role #[] = w.getD role #[]) ∧
      (w'.getD z #[]).size = (w.getD z #[]).size ∧
      (∀ rank, (World.get w' z rank).size = (World.get w z rank).size) ∧
      (∀ rank, rank < T.nRanks → ∀ q, q < p → ∀ j, j < cs rank →
        (World.get w' z rank)[q * cs rank + j]? =
          some ((World.get w y (T.partner rank a0 q)).getD ((T.coords rank).getD a0 0 * cs rank + j) default)) :=
  alltoallAxis_spec T p a0 sizeOf w y z hp hz hzn cs hsize hrcv

example : (0 : Nat) < 2 ∧ (2 : Nat) < f1World.size ∧ (cartTopo [1, 2]).nRanks ≤ (f1World.getD 2 #[]).size := by decide

/-- **Stage 3, the unpacking part of `_rearrange_from_buffer`** (layout.py:794-842, repaired), executable, one rank,
    **both branches** (single assignment when both swapped extents divide evenly, per-block loop otherwise): if `data`
    can take the destination block and `buf` holds `p` padded blocks, nothing is raised and the real (unpadded) part of
    received block `q` lands on the slab `[start_q, start_q+len_q)` of dimension `A` of the destination block. -/
theorem rearrangeFromBuffer_pointwise {np oS oD ext : List Nat} {a0 : Nat} (H : Comm np oS oD ext a0) (c : List Nat)
    (hc : CoordsOK np c) (data buf : Array α)
    (hdata : ((Layout.make np oD ext).shape c).prod ≤ data.size)
    (hbuf : np.getD a0 1 * packSize np oS oD ext a0 c ≤ buf.size) :
    ∃ out, rearrangeFromBuffer true (Layout.make np oS ext) (Layout.make np oD ext) c (swapAxes np oS oD) (np.getD a0 1)
        data buf = .ok out ∧
      out.size = data.size ∧
      ∀ q, q < np.getD a0 1 → ∀ u : Nat → Nat,
        (∀ d ∈ oD, u d < Function.update (lenD (Layout.make np oD ext) c) (oS.getD a0 0)
            (blockLen (ext.getD (oS.getD a0 0) 0) (np.getD a0 1) q) d) →
        out[Addr.ravelD oD (Function.update u (oS.getD a0 0)
              (blockStart (ext.getD (oS.getD a0 0) 0) (np.getD a0 1) q + u (oS.getD a0 0)))
            (lenD (Layout.make np oD ext) c)]? =
          some (buf.getD (Addr.ravelD (swapL oS 0 a0)
            (Function.update u (oS.getD a0 0) (q * maxBlock (ext.getD (oS.getD a0 0) 0) (np.getD a0 1) + u (oS.getD a0 0)))
            (exchBlk np oS oD ext a0 c)) default) :=
  rearrangeFromBuffer_spec H c hc data buf hdata hbuf

/-- a communicating pair with padded blocks (extents 5 and 7 over 3 processes) in a 3-D array, swapped axis 0 -/
example : Comm [3] [0, 1, 2] [2, 1, 0] [5, 4, 7] 0 ∧ CoordsOK [3] [2] := ⟨⟨by decide, by decide⟩, by decide⟩

/-! ### 4. one direct change of layout -/

/-- **One direct change of layout, executable model** (`LayoutHandler._transpose` when `z = x`,
    `_transpose_source_intact` otherwise; layout.py:627-686 with the repaired stages): for *every* pair of layouts that
    `compatible` accepts (arrays of any rank and extents, any process grid, uneven blocks included) and every
    well-formed process topology: if role `x` holds the global field `G` in the source layout on every rank and the
    buffers of roles `y`, `z` have at least `needSize` cells, the step raises nothing, role `y` holds `G` in the
    destination layout on every rank, roles other than `y`, `z` are untouched and no buffer changes its length.
    This discharges, for the executable stages, the hypotheses `h1–h3` of the abstract `direct_step_correct`. -/
theorem directStep_correct (T : Topo) (h : Handler) (iS iD x y z : Nat) (w : World α) (G : List Nat → α)
    (hpair : PairOK h.nprocs (h.orders.getD iS []) (h.orders.getD iD []) h.ext)
    (hcompat : compatible h.nprocs (h.orders.getD iS []) (h.orders.getD iD []) = true)
    (hT : TopoOK T h.nprocs)
    (hyx : y ≠ x) (hyz : y ≠ z) (hy : y < w.size) (hz : z < w.size)
    (hyn : T.nRanks ≤ (w.getD y #[]).size) (hzn : T.nRanks ≤ (w.getD z #[]).size)
    (hszy : ∀ rank, rank < T.nRanks →
      needSize h.nprocs (h.orders.getD iS []) (h.orders.getD iD []) h.ext (T.coords rank) ≤ (World.get w y rank).size)
    (hszz : ∀ rank, rank < T.nRanks →
      needSize h.nprocs (h.orders.getD iS []) (h.orders.getD iD []) h.ext (T.coords rank) ≤ (World.get w z rank).size)
    (hsrc : HoldsWorld T (h.layoutAt iS) G (w.getD x #[])) :
    ∃ w', directStepT true T h iS iD x y z w = .ok w' ∧
      HoldsWorld T (h.layoutAt iD) G (w'.getD y #[]) ∧
      (∀ r, r ≠ y → r ≠ z → w'.getD r #[] = w.getD r #[]) ∧
      w'.size = w.size ∧ (∀ role, (w'.getD role #[]).size = (w.getD role #[]).size) ∧
      (∀ role rank, (World.get w' role rank).size = (World.get w role rank).size) :=
  directStepT_correct T h iS iD x y z w G hpair hcompat hT hyx hyz hy hz hyn hzn hszy hszz hsrc

/-- the same for a stand-alone handler (`getLayoutHandler`: Cartesian topology and its sub-communicators) -/
theorem directStep_correct_cart (h : Handler) (iS iD x y z : Nat) (w : World α) (G : List Nat → α)
    (hpair : PairOK h.nprocs (h.orders.getD iS []) (h.orders.getD iD []) h.ext)
    (hcompat : compatible h.nprocs (h.orders.getD iS []) (h.orders.getD iD []) = true)
    (hyx : y ≠ x) (hyz : y ≠ z) (hy : y < w.size) (hz : z < w.size)
    (hyn : prodL h.nprocs ≤ (w.getD y #[]).size) (hzn : prodL h.nprocs ≤ (w.getD z #[]).size)
    (hszy : ∀ rank, rank < prodL h.nprocs →
      needSize h.nprocs (h.orders.getD iS []) (h.orders.getD iD []) h.ext (coordsOf h.nprocs rank) ≤ (World.get w y rank).size)
    (hszz : ∀ rank, rank < prodL h.nprocs →
      needSize h.nprocs (h.orders.getD iS []) (h.orders.getD iD []) h.ext (coordsOf h.nprocs rank) ≤ (World.get w z rank).size)
    (hsrc : HoldsWorld (cartTopo h.nprocs) (h.layoutAt iS) G (w.getD x #[])) :
    ∃ w', directStep true h iS iD x y z w = .ok w' ∧
      HoldsWorld (cartTopo h.nprocs) (h.layoutAt iD) G (w'.getD y #[]) ∧
      (∀ r, r ≠ y → r ≠ z → w'.getD r #[] = w.getD r #[]) :=
  let ⟨w', h1, h2, h3, _⟩ := directStepT_correct (cartTopo h.nprocs) h iS iD x y z w G hpair hcompat (cartTopo_ok h.nprocs)
    hyx hyz hy hz hyn hzn hszy hszz hsrc
  ⟨w', h1, h2, h3⟩

/-- the instance of finding F1 satisfies every hypothesis of `directStep_correct_cart` (`x y z = 0 1 2`): well-formed
    compatible pair, three roles with two buffers of 8 ≥ 4 cells each, source holding `G(i0,i1) = i1` -/
example : PairOK f1Handler.nprocs (f1Handler.orders.getD 0 []) (f1Handler.orders.getD 1 []) f1Handler.ext ∧
    compatible f1Handler.nprocs (f1Handler.orders.getD 0 []) (f1Handler.orders.getD 1 []) = true ∧
    (1 : Nat) < f1World.size ∧ (2 : Nat) < f1World.size ∧
    prodL f1Handler.nprocs ≤ (f1World.getD 1 #[]).size ∧ prodL f1Handler.nprocs ≤ (f1World.getD 2 #[]).size ∧
    (∀ rank, rank < prodL f1Handler.nprocs →
      needSize f1Handler.nprocs (f1Handler.orders.getD 0 []) (f1Handler.orders.getD 1 []) f1Handler.ext
        (coordsOf f1Handler.nprocs rank) ≤ (World.get f1World 1 rank).size) ∧
    HoldsWorld (cartTopo f1Handler.nprocs) (f1Handler.layoutAt 0) (fun g => (g.getD 1 0 : Int)) (f1World.getD 0 #[]) :=
  ⟨by decide, by decide, by decide, by decide, by decide, by decide, by decide, f1World_holds⟩

/-- **The executable direct step satisfies the step contract** of `Lemmas/Route.lean`, restricted to the roles `< nr`
    that exist in the world (`StepOKR`; the unrestricted `StepOK` quantifies over role numbers the world does not have,
    for which no executable step can be correct), for `P i arrs := HoldsWorld T (layout i) G arrs`, connections
    `ConnB` = well-formed compatible pairs whose `needSize` the buffers cover, and the invariant `WorldOK`
    (`nr` roles × `nRanks` buffers of at least `B rank` cells, `dest` as long as `source`). -/
theorem directStep_satisfies_contract (nr : Nat) (T : Topo) (h : Handler) (hT : TopoOK T h.nprocs) (B : Nat → Nat)
    (G : List Nat → α) :
    StepOKR nr (directStepT true T h) (fun i arrs => HoldsWorld T (h.layoutAt i) G arrs) (ConnB h T B)
      (WorldOK nr T.nRanks B) :=
  directStepT_stepOK nr T h hT B G

example : ConnB f1Handler (cartTopo [1, 2]) (fun _ => 4) 0 1 ∧ WorldOK 3 2 (fun _ => 4) f1World := by
  refine ⟨⟨by decide, by decide, ?_⟩, by decide, ?_, by decide⟩
  · intro rank hr
    have : rank < 2 := hr
    interval_cases rank <;> decide
  · intro role hr
    refine ⟨by interval_cases role <;> decide, ?_⟩
    intro rank hrk
    interval_cases role <;> interval_cases rank <;> decide

/-! ### 5. `transpose` through a route -/

/-- **`transpose` without spare buffer through any path of direct connections, executable step**
    (`_transposeRedirect`, layout.py:553-582): odd and even route lengths, final `dest[:] = source` included. -/
theorem followRoute_correct_nobuf (T : Topo) (h : Handler) (hT : TopoOK T h.nprocs) (B : Nat → Nat) (G : List Nat → α)
    (steps : List Nat) (iS : Nat) (w : World α) (hw : WorldOK 2 T.nRanks B w)
    (hne : steps ≠ []) (hpath : IsPath (ConnB h T B) iS steps)
    (hsrc : HoldsWorld T (h.layoutAt iS) G (w.getD 0 #[])) :
    ∃ w', followRoute (directStepT true T h) T.nRanks steps iS false w = .ok w' ∧
      HoldsWorld T (h.layoutAt (lastOf iS steps)) G (w'.getD 1 #[]) :=
  route_nobuf_R 2 (Nat.le_refl _) (directStepT true T h) (fun i arrs => HoldsWorld T (h.layoutAt i) G arrs) (ConnB h T B)
    (WorldOK 2 T.nRanks B) T.nRanks
    (fun w hw => ⟨by have := hw.1; omega, (hw.2.1 0 (by decide)).1, hw.2.2⟩)
    (directStepT_stepOK 2 T h hT B G) steps iS w hw hne hpath hsrc

/-- **`transpose` with a spare buffer** (`_transposeRedirect_source_intact`, layout.py:584-625): the field arrives in
    `dest` and `source` is left untouched, whatever the length of the route. -/
theorem followRoute_correct_buf (T : Topo) (h : Handler) (hT : TopoOK T h.nprocs) (B : Nat → Nat) (G : List Nat → α)
    (steps : List Nat) (iS : Nat) (w : World α) (hw : WorldOK 3 T.nRanks B w)
    (hne : steps ≠ []) (hpath : IsPath (ConnB h T B) iS steps)
    (hsrc : HoldsWorld T (h.layoutAt iS) G (w.getD 0 #[])) :
    ∃ w', followRoute (directStepT true T h) T.nRanks steps iS true w = .ok w' ∧
      HoldsWorld T (h.layoutAt (lastOf iS steps)) G (w'.getD 1 #[]) ∧ w'.getD 0 #[] = w.getD 0 #[] :=
  route_buf_R 3 (Nat.le_refl _) (directStepT true T h) (fun i arrs => HoldsWorld T (h.layoutAt i) G arrs) (ConnB h T B)
    (WorldOK 3 T.nRanks B) (directStepT_stepOK 3 T h hT B G) T.nRanks steps iS w hw hne hpath hsrc

example : IsPath (ConnB f1Handler (cartTopo [1, 2]) (fun _ => 4)) 0 [1] ∧ lastOf 0 [1] = 1 := by
  refine ⟨⟨⟨by decide, by decide, ?_⟩, trivial⟩, rfl⟩
  intro rank hr
  have : rank < 2 := hr
  interval_cases rank <;> decide

/-- every stored direct connection of a handler with well-formed layouts is a `ConnB` connection, provided the buffers
    cover `needSize` of every connected pair -/
theorem adj_is_connB (h : Handler) (T : Topo) (B : Nat → Nat)
    (hlay : ∀ i, i < h.names.length → LayoutOK h.nprocs (h.orders.getD i []) h.ext)
    (hB : ∀ a b, a < h.names.length → b < h.names.length → RouteValid.Adj h.connections a b →
      ∀ rank, rank < T.nRanks → needSize h.nprocs (h.orders.getD a []) (h.orders.getD b []) h.ext (T.coords rank) ≤ B rank)
    (a b : Nat) (ha : a < h.names.length) (hab : RouteValid.Adj h.connections a b) :
    b < h.names.length ∧ ConnB h T B a b := by
  have hc : RouteValid.ConnOK h.connections h.names.length := by
    unfold Handler.connections Handler.nLayouts
    exact RouteValid.connectionsOf_ok _ _
  have hb : b < h.names.length := (hc.sym a b ha hab).1
  have hne : a ≠ b := fun e => hc.irr a (e ▸ hab)
  have hcomp := connection_is_compatible h a b ha hab
  refine ⟨hb, ⟨hlay a ha, hlay b hb, ?_⟩, ?_, hB a b ha hb hab⟩
  · rw [← (hlay a ha).2.1, ← (hlay b hb).2.1]
  · rcases Nat.lt_or_ge a b with hlt | hge
    · rw [Nat.max_eq_right (Nat.le_of_lt hlt), Nat.min_eq_left (Nat.le_of_lt hlt)] at hcomp
      rw [compatible_symm]; exact hcomp
    · rw [Nat.max_eq_left hge, Nat.min_eq_right hge] at hcomp
      exact hcomp

/-- **C01 for the executable model**: `LayoutHandler.transpose(source, dest, layout_source, layout_dest[, buf])`
    (`transposeWorld`, layout.py:485-625) of a stand-alone handler whose constructor accepted the layouts (all
    connected) and whose layouts are well formed, for every pair of *different* layouts, every tie-break order of the
    route construction, with and without spare buffer: if `source` holds `G` in the source layout on every rank of the
    Cartesian topology and every buffer has at least `B rank` cells, where `B` covers the constructor's `bufferSize`
    (the two asserts) and `needSize` of every connected pair, the call raises nothing, `dest` holds `G` in the
    destination layout on every rank, and with a spare buffer `source` is unchanged. -/
theorem transposeWorld_correct (h : Handler) (order : List Nat) (useBuf : Bool) (w : World α) (G : List Nat → α)
    (B : Nat → Nat) (iS iD : Nat) (hn : h.names.length ≠ 1) (hfull : (h.routes order).2 = true)
    (hlay : ∀ i, i < h.names.length → LayoutOK h.nprocs (h.orders.getD i []) h.ext)
    (hiS : iS < h.names.length) (hiD : iD < h.names.length) (hne : iS ≠ iD)
    (hB : ∀ a b, a < h.names.length → b < h.names.length → RouteValid.Adj h.connections a b →
      ∀ rank, rank < prodL h.nprocs →
        needSize h.nprocs (h.orders.getD a []) (h.orders.getD b []) h.ext (coordsOf h.nprocs rank) ≤ B rank)
    (hBs : ∀ rank, rank < prodL h.nprocs → h.bufferSize (coordsOf h.nprocs rank) ≤ B rank)
    (hw : WorldOK (if useBuf then 3 else 2) (prodL h.nprocs) B w)
    (hsrc : HoldsWorld (cartTopo h.nprocs) (h.layoutAt iS) G (w.getD 0 #[])) :
    ∃ w', transposeWorld true h (h.routes order).1 iS iD useBuf w = .ok w' ∧
      HoldsWorld (cartTopo h.nprocs) (h.layoutAt iD) G (w'.getD 1 #[]) ∧
      (useBuf = true → w'.getD 0 #[] = w.getD 0 #[]) := by
  obtain ⟨⟨hrne, hrpath, hrlast⟩, _⟩ := route_valid h order hn hfull iS iD hiS hiD hne
  have hpath : IsPath (ConnB h (cartTopo h.nprocs) B) iS ((h.routes order).1.r iS iD) :=
    isPath_of_bounded _ _ h.names.length (adj_is_connB h (cartTopo h.nprocs) B hlay hB) _ iS hiS hrpath
  have hnr : 2 ≤ (if useBuf then 3 else 2) := by split <;> omega
  have hassert : forIn (List.range (cartTopo h.nprocs).nRanks) PUnit.unit (fun rank (_ : PUnit) =>
      if (World.get w 0 rank).size < h.bufferSize ((cartTopo h.nprocs).coords rank) ∨
          (World.get w 1 rank).size < h.bufferSize ((cartTopo h.nprocs).coords rank) then
        (do throw "assert: buffer smaller than bufferSize"; pure (ForInStep.yield PUnit.unit) : Except String _)
      else pure (ForInStep.yield PUnit.unit)) = .ok PUnit.unit := by
    apply forIn_asserts_ok
    intro r hr
    have hr' : r < prodL h.nprocs := List.mem_range.mp hr
    have h0 := (hw.2.1 0 (by omega)).2 r hr'
    have h1 := (hw.2.1 1 (by omega)).2 r hr'
    have hb := hBs r hr'
    have : ¬ ((World.get w 0 r).size < h.bufferSize ((cartTopo h.nprocs).coords r) ∨
        (World.get w 1 r).size < h.bufferSize ((cartTopo h.nprocs).coords r)) := by
      show ¬ ((World.get w 0 r).size < h.bufferSize (coordsOf h.nprocs r) ∨
        (World.get w 1 r).size < h.bufferSize (coordsOf h.nprocs r))
      omega
    rw [if_neg this]
    rfl
  have hunf : transposeWorld true h (h.routes order).1 iS iD useBuf w =
      followRoute (directStepT true (cartTopo h.nprocs) h) (cartTopo h.nprocs).nRanks ((h.routes order).1.r iS iD) iS useBuf w := by
    unfold transposeWorld transposeWorldT
    simp only [and_self, if_true]
    rw [hassert]
    simp only [bind, Except.bind, hne, if_false]
  rw [hunf]
  cases useBuf with
  | false =>
    obtain ⟨w', h1, h2⟩ := followRoute_correct_nobuf (cartTopo h.nprocs) h (cartTopo_ok h.nprocs) B G _ iS w hw hrne hpath hsrc
    rw [hrlast] at h2
    exact ⟨w', h1, h2, fun hh => by cases hh⟩
  | true =>
    obtain ⟨w', h1, h2, h3⟩ := followRoute_correct_buf (cartTopo h.nprocs) h (cartTopo_ok h.nprocs) B G _ iS w hw hrne hpath hsrc
    rw [hrlast] at h2
    exact ⟨w', h1, h2, fun _ => h3⟩

/-- a handler the theorem applies to: the two layouts of finding F1 (accepted, all connected, well formed) -/
example : f1Handler.names.length ≠ 1 ∧ (f1Handler.routes [0, 1]).2 = true ∧
    (∀ i, i < f1Handler.names.length → LayoutOK f1Handler.nprocs (f1Handler.orders.getD i []) f1Handler.ext) ∧
    (f1Handler.routes [0, 1]).1.r 0 1 = [1] := by
  refine ⟨by decide, by decide, ?_, by decide⟩
  intro i hi
  have : i < 2 := hi
  interval_cases i <;> decide

/-- **`bufferSize` suffices** (layout.py:431-462): for every direct connection `a — b` of a handler with well-formed
    layouts and every rank with valid coordinates `c`, the buffer size the constructor computes covers what the executable
    step `a → b` needs in its send/destination and receive buffers: the destination block and the `p` padded blocks
    exchanged by the `Alltoall` (the constructor only looks at the pair in the order `max → min`; the other direction
    needs the same number of cells). -/
theorem bufferSize_suffices (h : Handler) (c : List Nat) (hc : CoordsOK h.nprocs c)
    (hlay : ∀ i, i < h.names.length → LayoutOK h.nprocs (h.orders.getD i []) h.ext)
    (a b : Nat) (ha : a < h.names.length) (hab : RouteValid.Adj h.connections a b) :
    needSize h.nprocs (h.orders.getD a []) (h.orders.getD b []) h.ext c ≤ h.bufferSize c := by
  have hcc : RouteValid.ConnOK h.connections h.names.length := by
    unfold Handler.connections Handler.nLayouts
    exact RouteValid.connectionsOf_ok _ _
  exact DS.bufferSize_suffices h c hc hlay a b ha (hcc.sym a b ha hab).1 (fun e => hcc.irr a (e ▸ hab))
    (connection_is_compatible h a b ha hab)

/-- in the handler of finding F1 the two layouts are connected and rank 1 has valid coordinates -/
example : RouteValid.Adj f1Handler.connections 0 1 ∧ CoordsOK f1Handler.nprocs (coordsOf f1Handler.nprocs 1) := by decide

/-- **C01 for the executable model with the constructor's buffer size**: as `transposeWorld_correct`, the only
    requirement on the memory being that every buffer (`source`, `dest`, and `buf` when given) has at least
    `bufferSize` cells on its rank — what `Grid.__init__` allocates and `transpose` asserts. -/
theorem transposeWorld_correct_bufferSize (h : Handler) (order : List Nat) (useBuf : Bool) (w : World α)
    (G : List Nat → α) (iS iD : Nat) (hn : h.names.length ≠ 1) (hfull : (h.routes order).2 = true)
    (hlay : ∀ i, i < h.names.length → LayoutOK h.nprocs (h.orders.getD i []) h.ext)
    (hiS : iS < h.names.length) (hiD : iD < h.names.length) (hne : iS ≠ iD)
    (hw : WorldOK (if useBuf then 3 else 2) (prodL h.nprocs) (fun rank => h.bufferSize (coordsOf h.nprocs rank)) w)
    (hsrc : HoldsWorld (cartTopo h.nprocs) (h.layoutAt iS) G (w.getD 0 #[])) :
    ∃ w', transposeWorld true h (h.routes order).1 iS iD useBuf w = .ok w' ∧
      HoldsWorld (cartTopo h.nprocs) (h.layoutAt iD) G (w'.getD 1 #[]) ∧
      (useBuf = true → w'.getD 0 #[] = w.getD 0 #[]) :=
  transposeWorld_correct h order useBuf w G (fun rank => h.bufferSize (coordsOf h.nprocs rank)) iS iD hn hfull hlay hiS hiD
    hne (fun a b ha _ hab rank hr => bufferSize_suffices h _ (coordsOf_ok h.nprocs rank hr) hlay a b ha hab)
    (fun _ _ => Nat.le_refl _) hw hsrc

/-- `f1World` (three roles, two ranks, 8 cells each) has buffers of at least `bufferSize = 4` cells -/
example : WorldOK 3 (prodL f1Handler.nprocs) (fun rank => f1Handler.bufferSize (coordsOf f1Handler.nprocs rank)) f1World := by
  refine ⟨by decide, ?_, by decide⟩
  intro role hr
  refine ⟨by interval_cases role <;> decide, ?_⟩
  intro rank hrk
  have : rank < 2 := hrk
  interval_cases role <;> interval_cases rank <;> decide

/-- non-vacuity: all hypotheses of `transposeWorld_correct_bufferSize` hold together for the instance of finding F1
    (with spare buffer), so the theorem yields the transposed field without evaluating the model -/
example : ∃ w', transposeWorld true f1Handler (f1Handler.routes [0, 1]).1 0 1 true f1World = .ok w' ∧
    HoldsWorld (cartTopo f1Handler.nprocs) (f1Handler.layoutAt 1) (fun g => (g.getD 1 0 : Int)) (w'.getD 1 #[]) ∧
    (true = true → w'.getD 0 #[] = f1World.getD 0 #[]) := by
  apply transposeWorld_correct_bufferSize f1Handler [0, 1] true f1World _ 0 1 (by decide) (by decide) _ (by decide)
    (by decide) (by decide) _ f1World_holds
  · intro i hi
    have : i < 2 := hi
    interval_cases i <;> decide
  · refine ⟨by decide, ?_, by decide⟩
    intro role hr
    have hr' : role < 3 := hr
    refine ⟨by interval_cases role <;> decide, ?_⟩
    intro rank hrk
    have : rank < 2 := hrk
    interval_cases role <;> interval_cases rank <;> decide

/-- **same-layout call** (`transpose` with `layout_source is layout_dest`, layout.py:526-532): `dest[:size] =
    source[:size]` on every rank leaves in `dest` what `source` holds. -/
theorem transposeWorld_same_layout (h : Handler) (rm : RouteMap) (useBuf : Bool) (w : World α) (G : List Nat → α)
    (B : Nat → Nat) (iS : Nat)
    (hBs : ∀ rank, rank < prodL h.nprocs → h.bufferSize (coordsOf h.nprocs rank) ≤ B rank)
    (hw : WorldOK 2 (prodL h.nprocs) B w)
    (hsrc : HoldsWorld (cartTopo h.nprocs) (h.layoutAt iS) G (w.getD 0 #[])) :
    ∃ w', transposeWorld true h rm iS iS useBuf w = .ok w' ∧
      HoldsWorld (cartTopo h.nprocs) (h.layoutAt iS) G (w'.getD 1 #[]) ∧ w'.getD 0 #[] = w.getD 0 #[] := by
  let out : Nat → Array α := fun rank =>
    copyPrefix (World.get w 1 rank) (World.get w 0 rank) ((h.layoutAt iS).size (coordsOf h.nprocs rank))
  have hy : 1 < w.size := by have := hw.1; omega
  have hyn : prodL h.nprocs ≤ (w.getD 1 #[]).size := by rw [(hw.2.1 1 (by omega)).1]
  have hassert : forIn (List.range (cartTopo h.nprocs).nRanks) PUnit.unit (fun rank (_ : PUnit) =>
      if (World.get w 0 rank).size < h.bufferSize ((cartTopo h.nprocs).coords rank) ∨
          (World.get w 1 rank).size < h.bufferSize ((cartTopo h.nprocs).coords rank) then
        (do throw "assert: buffer smaller than bufferSize"; pure (ForInStep.yield PUnit.unit) : Except String _)
      else pure (ForInStep.yield PUnit.unit)) = .ok PUnit.unit := by
    apply forIn_asserts_ok
    intro r hr
    have hr' : r < prodL h.nprocs := List.mem_range.mp hr
    have h0 := (hw.2.1 0 (by omega)).2 r hr'
    have h1 := (hw.2.1 1 (by omega)).2 r hr'
    have hb := hBs r hr'
    have : ¬ ((World.get w 0 r).size < h.bufferSize ((cartTopo h.nprocs).coords r) ∨
        (World.get w 1 r).size < h.bufferSize ((cartTopo h.nprocs).coords r)) := by
      show ¬ ((World.get w 0 r).size < h.bufferSize (coordsOf h.nprocs r) ∨
        (World.get w 1 r).size < h.bufferSize (coordsOf h.nprocs r))
      omega
    rw [if_neg this]
    rfl
  have hfold : (List.range (cartTopo h.nprocs).nRanks).foldl (fun (acc : World α) rank =>
      World.set acc 1 rank (copyPrefix (World.get acc 1 rank) (World.get acc 0 rank)
        ((h.layoutAt iS).size ((cartTopo h.nprocs).coords rank)))) w = setAll (prodL h.nprocs) 1 out w := by
    apply foldRanks_pure 1 _ w out hy (prodL h.nprocs) hyn
    intro acc rank _ hother hsame
    rw [hsame, World.get_of_getD_eq w acc 0 (hother 0 (by decide)) rank]
    rfl
  obtain ⟨_, s2, _, s4⟩ := setAll_spec 1 out w hy (prodL h.nprocs) hyn
  refine ⟨setAll (prodL h.nprocs) 1 out w, ?_, ?_, s2 0 (by decide)⟩
  · unfold transposeWorld transposeWorldT
    simp only [and_self, if_true]
    rw [hassert]
    simp only [bind, Except.bind]
    rw [hfold]
    rfl
  · intro rank hr
    have hr' : rank < prodL h.nprocs := hr
    show HoldsBlock _ _ G (World.get (setAll (prodL h.nprocs) 1 out w) 1 rank)
    rw [s4 rank, if_pos hr']
    exact holdsBlock_copyPrefix _ _ G _ _ (hsrc rank hr) (hw.2.2 rank hr')

example : WorldOK 2 (prodL f1Handler.nprocs) (fun _ => 4) f1World ∧
    (∀ rank, rank < prodL f1Handler.nprocs → f1Handler.bufferSize (coordsOf f1Handler.nprocs rank) ≤ 4) := by
  refine ⟨⟨by decide, ?_, by decide⟩, ?_⟩
  · intro role hr
    refine ⟨by interval_cases role <;> decide, ?_⟩
    intro rank hrk
    have : rank < 2 := hrk
    interval_cases role <;> interval_cases rank <;> decide
  · intro rank hr
    have : rank < 2 := hr
    interval_cases rank <;> decide

end PygyroVerif.C01
