/-
C18 — Checkpoints round-trip exactly and a restarted run continues the original one.
Property theorems only.  Model: Model/Checkpoint.lean; helper lemmas: Lemmas/Reductions.lean (section Ckpt), Lemmas/Blocks.lean.
The statements about the driver are about `Generated.driver`, the script that harness/translate_driver.py extracts from
fullSimulation.py on every run: they are re-checked against what the source says *now*.
-/
import PygyroVerif.Model.Checkpoint
import PygyroVerif.Lemmas.Reductions
import PygyroVerif.Generated.TimeLoop

namespace PygyroVerif.C18
open PygyroVerif PygyroVerif.Ckpt PygyroVerif.Generated List

/-! ### 1. the array store -/

/-- **writing the blocks of partition `P` at `starts:ends` and reading with partition `P'` yields the blocks of the
same global array**: any number of axes (any layout — the dataset is stored in the layout's axis order), any process
counts for writing and for reading, any arrival order of the hyperslab writes, any payload type, whatever the
dataset contained before. -/
theorem write_read_roundtrip {α : Type} (dimsW dimsR : List (Nat × Nat))
    (hext : dimsW.map (·.1) = dimsR.map (·.1))
    (hW : ∀ d ∈ dimsW, 0 < d.2) (hR : ∀ d ∈ dimsR, 0 < d.2)
    (G : List Nat → α) (order : List (List Nat)) (horder : order ~ coords (dimsW.map (·.2)))
    (st0 : Store α) (c' : List Nat) (hc' : c' ∈ coords (dimsR.map (·.2)))
    (i : List Nat) (hi : inShape (blockOf dimsR c') i = true) :
    readBlock (writeAll G dimsW order st0) (blockOf dimsR c') i = some (localOf G (blockOf dimsR c') i) := by
  unfold readBlock localOf
  rw [writeAll_get]
  have hbox := reader_in_box dimsR hR c' hc' i hi
  have hsame : dimsR.map (fun d => (0, d.1)) = dimsW.map (fun d => (0, d.1)) := by
    have e : ∀ (l : List (Nat × Nat)), l.map (fun d => ((0 : Nat), d.1)) = (l.map (·.1)).map (fun n => ((0 : Nat), n)) := by
      intro l; simp [List.map_map, Function.comp_def]
    rw [e dimsR, e dimsW, hext]
  rw [hsame] at hbox
  obtain ⟨c, hc, hin⟩ := cover dimsW hW _ hbox
  have : order.any (fun c => inB (blockOf dimsW c) (addIdx ((blockOf dimsR c').map (·.1)) i)) = true :=
    List.any_eq_true.2 ⟨c, horder.mem_iff.2 hc, hin⟩
  rw [if_pos this]

/-- non-vacuity: 7×5 array written by 3×2 processes (in reverse order), read by 2×1: reader (1,0) owns rows 3..6 -/
example : readBlock (writeAll (fun x => x) [(7, 3), (5, 2)] (coords [3, 2]).reverse (fun _ => none))
    (blockOf [(7, 2), (5, 1)] [1, 0]) [2, 4] = some [5, 4] := by decide

/-- the stored `Layout` attribute identifies the layout: in the table of `setupFromFile` every order names one layout,
and the table is the one `setupCylindricalGrid` distributes with -/
theorem layout_attribute_recovered :
    (∀ e ∈ layoutsFromFile, findLayout layoutsFromFile e.2 = some e.1) ∧ layoutsNew = layoutsFromFile := by
  decide

/-! ### 2. file names, latest checkpoint, restart time -/

/-- the three format strings of grid.py / setups.py pad the time to six digits (read from the source on every run) -/
theorem name_width_is_six : writeWidth = 6 ∧ loadWidth = 6 ∧ timepointWidth = 6 := by decide

/-- **for times below 10⁶ the lexicographic order of the `%06d` names is the numeric order** -/
theorem padded_lex_order (s t : Nat) (hs : s < 10 ^ 6) (ht : t < 10 ^ 6) : fmt06 s < fmt06 t ↔ s < t := by
  unfold fmt06
  rw [numWidth_le_six s hs, numWidth_le_six t ht, map_add_lt_iff, padDigits_lt_iff,
    Nat.mod_eq_of_lt hs, Nat.mod_eq_of_lt ht]

/-- … and it is *not* beyond six digits: `"1000000" < "999999"` as strings.  (Finding F10: this is why the plain
`max(list_of_files)` of the old code, `latestLex`, picked the wrong file beyond six digits — see
`latestLex_wrong_beyond_six_digits`; the repaired code compares parsed times, `latest_selected` needs no bound.) -/
theorem padded_lex_order_fails_beyond_six_digits :
    fmt06 1000000 < fmt06 999999 ∧ ¬ ((1000000 : Nat) < 999999) := by decide

/-- whole path names order like the times (same folder, same name convention), for times of at most six digits -/
theorem fileName_lt_iff (folder conv : List Nat) (s t : Nat) (hs : s < 10 ^ 6) (ht : t < 10 ^ 6) :
    fileName folder conv s < fileName folder conv t ↔ s < t := by
  unfold fileName
  have hl : (fmt06 s).length = (fmt06 t).length := by
    unfold fmt06; rw [numWidth_le_six s hs, numWidth_le_six t ht]; simp [padDigits_length]
  rw [append_right_lt_iff _ _ _ (by simp [hl]), append_left_lt_iff, padded_lex_order s t hs ht]

/-- **the time parsed back from the file name is the time written**: any folder name, any name convention, any
number of digits.  No side condition: `split('_')[-1]` takes what follows the *last* `'_'` of the whole path, and the
tail `"<digits>.h5"` written after the convention's `'_'` contains none, so `'_'`, `'.'` or `'/'` inside the folder or
the convention (`"run_1.5/x"`, `"my_grid"`) never reach the parser; `split('.')[0]` then stops at the `'.'` of `".h5"`. -/
theorem restart_time_parsed (folder conv : List Nat) (t : Nat) : parseTime (fileName folder conv t) = some t := by
  unfold parseTime fileName
  have h95 : (95 : Nat) ∉ fmt06 t ++ [46, 104, 53] := by
    intro h
    rcases List.mem_append.1 h with h | h
    · have := fmt06_mem t 95 h; omega
    · revert h; decide
  have h46 : (46 : Nat) ∉ fmt06 t := by
    intro h; have := fmt06_mem t 46 h; omega
  have e1 : folder ++ [47] ++ conv ++ [95] ++ fmt06 t ++ [46, 104, 53]
      = (folder ++ [47] ++ conv) ++ 95 :: (fmt06 t ++ [46, 104, 53]) := by simp
  rw [e1, lastField_append 95 _ _ h95]
  have e2 : fmt06 t ++ [46, 104, 53] = fmt06 t ++ 46 :: [104, 53] := rfl
  rw [e2, firstField_append 46 _ _ h46]
  unfold fmt06
  have hne : padDigits (max 6 (numWidth t)) t ≠ [] := by
    intro h
    have := padDigits_length (max 6 (numWidth t)) t
    rw [h] at this
    simp at this
    omega
  rw [parseNat_digits _ hne (padDigits_lt_ten _ _), foldl_padDigits, Nat.zero_mul, Nat.zero_add,
    Nat.mod_eq_of_lt (lt_pow_width t)]

/-- the name is a one-to-one function of the time (so equal times in a listing are the same file) -/
theorem fileName_injective (folder conv : List Nat) (s t : Nat) (h : fileName folder conv s = fileName folder conv t) :
    s = t := by
  have := congrArg parseTime h
  rw [restart_time_parsed, restart_time_parsed] at this
  exact Option.some.inj this

/-- **the repaired selection on arbitrary listings** (names need not come from `fileName`: `glob("grid_*")` also matches
`grid_5.h5` or `grid_000005.h5.bak`, whose times tie with `grid_000005.h5`): if every listed name has a parsable time,
the file chosen is the *first* one of maximal time — everything listed before it is strictly earlier, nothing listed
after it is later — and the run resumes at that time. -/
theorem latest_first_of_ties (files : List (List Nat)) (hne : files ≠ [])
    (hp : ∀ g ∈ files, ∃ s, parseTime g = some s) :
    ∃ pre f post T, files = pre ++ f :: post ∧ parseTime f = some T
      ∧ (∀ g ∈ pre, ∃ s, parseTime g = some s ∧ s < T) ∧ (∀ g ∈ post, ∃ s, parseTime g = some s ∧ s ≤ T)
      ∧ latestByTime files = some f ∧ restartChoice files = some (f, T) := by
  obtain ⟨f, T, h1, pre, post, hs, hf, hpre, hpost⟩ := latestWithTime_firstMax files hne hp
  have hl : latestByTime files = some f := by simp [latestByTime, h1]
  exact ⟨pre, f, post, T, hs, hf, hpre, hpost, hl, by simp [restartChoice, hl, hf]⟩

/-- the selection raises (`none`) exactly when nothing is listed or some listed name has no parsable time -/
theorem selection_fails_iff (files : List (List Nat)) :
    latestByTime files = none ↔ files = [] ∨ ∃ g ∈ files, parseTime g = none := by
  constructor
  · intro h
    by_cases hne : files = []
    · exact Or.inl hne
    · right
      by_contra hno
      have hp : ∀ g ∈ files, ∃ s, parseTime g = some s := by
        intro g hg
        cases e : parseTime g with
        | none => exact absurd ⟨g, hg, e⟩ hno
        | some s => exact ⟨s, rfl⟩
      obtain ⟨f, T, h1, -⟩ := latestWithTime_firstMax files hne hp
      simp [latestByTime, h1] at h
  · rintro (rfl | ⟨g, hg, hn⟩)
    · rfl
    · cases files with
      | nil => simp at hg
      | cons x xs =>
        show Option.map (·.1) (xs.foldl keyStep ((parseTime x).map (fun tx => (x, tx)))) = none
        rcases List.mem_cons.1 hg with rfl | hg
        · rw [hn]; simp [foldl_keyStep_none]
        · rw [foldl_keyStep_unparsable xs _ ⟨g, hg, hn⟩]; rfl

/-- **the checkpoint with the largest time is selected**, in whatever order `glob` lists the files, for times of any
number of digits (fix F10: `max(list_of_files, key=<parsed time>)`), any folder and any name convention.  Equal times
in `ts` are the same name (`fileName_injective`), so there are no ties to break here. -/
theorem latest_selected (folder conv : List Nat) (ts : List Nat) (hne : ts ≠ []) :
    ∃ T, T ∈ ts ∧ (∀ t ∈ ts, t ≤ T) ∧ latestByTime (ts.map (fileName folder conv)) = some (fileName folder conv T) := by
  have hp : ∀ g ∈ ts.map (fileName folder conv), ∃ s, parseTime g = some s := by
    intro g hg
    obtain ⟨t, _, rfl⟩ := List.mem_map.1 hg
    exact ⟨t, restart_time_parsed folder conv t⟩
  obtain ⟨pre, f, post, T, hs, hf, hpre, hpost, hl, -⟩ := latest_first_of_ties _ (by simpa using hne) hp
  have hfm : f ∈ ts.map (fileName folder conv) := by rw [hs]; simp
  obtain ⟨T', hT', rfl⟩ := List.mem_map.1 hfm
  rw [restart_time_parsed] at hf
  obtain rfl : T' = T := Option.some.inj hf
  refine ⟨T', hT', ?_, hl⟩
  intro t ht
  have hm : fileName folder conv t ∈ pre ++ fileName folder conv T' :: post := by
    rw [← hs]; exact List.mem_map_of_mem ht
  rcases List.mem_append.1 hm with h | h
  · obtain ⟨s, e, hlt⟩ := hpre _ h
    rw [restart_time_parsed] at e
    obtain rfl : t = s := Option.some.inj e
    exact Nat.le_of_lt hlt
  · rcases List.mem_cons.1 h with h | h
    · exact Nat.le_of_eq (fileName_injective folder conv _ _ h)
    · obtain ⟨s, e, hle⟩ := hpost _ h
      rw [restart_time_parsed] at e
      obtain rfl : t = s := Option.some.inj e
      exact hle

/-- `setupFromFile` without `timepoint`: the file with the largest time is opened and the run resumes at that time
(any number of digits, any folder, any name convention) -/
theorem restart_choice (folder conv : List Nat) (ts : List Nat) (hne : ts ≠ []) :
    ∃ T, T ∈ ts ∧ (∀ t ∈ ts, t ≤ T) ∧
      restartChoice (ts.map (fileName folder conv)) = some (fileName folder conv T, T) := by
  obtain ⟨T, hT, hmax, hl⟩ := latest_selected folder conv ts hne
  exact ⟨T, hT, hmax, by simp [restartChoice, hl, restart_time_parsed]⟩

/-- the same with the library's maximum: the selection is `ts.max?` mapped to its name (both `none` for no files) -/
theorem latest_selected_max (folder conv : List Nat) (ts : List Nat) :
    latestByTime (ts.map (fileName folder conv)) = ts.max?.map (fileName folder conv)
    ∧ restartChoice (ts.map (fileName folder conv)) = ts.max?.map (fun T => (fileName folder conv T, T)) := by
  by_cases hne : ts = []
  · subst hne; exact ⟨rfl, rfl⟩
  · obtain ⟨T, hT, hmax, hl⟩ := latest_selected folder conv ts hne
    have hm : ts.max? = some T := List.max?_eq_some_iff.2 ⟨hT, hmax⟩
    rw [hm, hl]
    exact ⟨rfl, by simp [restartChoice, hl, restart_time_parsed]⟩

/-! #### the behaviour before fix F10 (plain `max(list_of_files)`), kept as a description of the old code -/

/-- before the fix: `max(list_of_files)` was the checkpoint with the largest time *provided all times had at most six
digits* -/
theorem latestLex_selected (folder conv : List Nat) (ts : List Nat) (hne : ts ≠ []) (h6 : ∀ t ∈ ts, t < 10 ^ 6) :
    ∃ T, T ∈ ts ∧ (∀ t ∈ ts, t ≤ T) ∧ latestLex (ts.map (fileName folder conv)) = some (fileName folder conv T) := by
  cases ts with
  | nil => exact absurd rfl hne
  | cons m ts =>
    have hm : m < 10 ^ 6 := h6 m (by simp)
    have hts : ∀ t ∈ ts, t < 10 ^ 6 := fun t ht => h6 t (List.mem_cons_of_mem _ ht)
    obtain ⟨h1, -⟩ := foldl_latest (fileName folder conv) (· < 10 ^ 6)
      (fun s t hs ht => fileName_lt_iff folder conv s t hs ht) ts m hm hts
    obtain ⟨g1, g2, g3⟩ := foldl_max_ge ts m
    refine ⟨ts.foldl max m, ?_, ?_, ?_⟩
    · rcases g3 with g3 | g3
      · rw [g3]; simp
      · exact List.mem_cons_of_mem _ g3
    · intro t ht
      rcases List.mem_cons.1 ht with rfl | ht
      · exact g1
      · exact g2 t ht
    · simp only [List.map_cons, latestLex, h1]

/-- the fix changes nothing while all times have at most six digits -/
theorem fix_agrees_up_to_six_digits (folder conv : List Nat) (ts : List Nat) (h6 : ∀ t ∈ ts, t < 10 ^ 6) :
    latestByTime (ts.map (fileName folder conv)) = latestLex (ts.map (fileName folder conv)) := by
  by_cases hne : ts = []
  · subst hne; rfl
  · obtain ⟨T, hT, hmax, hl⟩ := latest_selected folder conv ts hne
    obtain ⟨T', hT', hmax', hl'⟩ := latestLex_selected folder conv ts hne h6
    have : T = T' := Nat.le_antisymm (hmax' T hT) (hmax T' hT')
    rw [hl, hl', this]

/-- **finding F10, the old behaviour beyond six digits**: with checkpoints at t = 999999 and t = 1000000 (any folder, any
name convention) the old `max(list_of_files)` returned the file of t = 999999, whichever way round they are listed;
the repaired selection returns the file of t = 1000000 -/
theorem latestLex_wrong_beyond_six_digits (folder conv : List Nat) :
    latestLex ([999999, 1000000].map (fileName folder conv)) = some (fileName folder conv 999999)
    ∧ latestLex ([1000000, 999999].map (fileName folder conv)) = some (fileName folder conv 999999)
    ∧ latestByTime ([999999, 1000000].map (fileName folder conv)) = some (fileName folder conv 1000000)
    ∧ latestByTime ([1000000, 999999].map (fileName folder conv)) = some (fileName folder conv 1000000) := by
  have hlt : fileName folder conv 1000000 < fileName folder conv 999999 := by
    unfold fileName
    simp only [List.append_assoc]
    rw [append_left_lt_iff, append_left_lt_iff, append_left_lt_iff, append_left_lt_iff]
    decide
  have hnlt : ¬ fileName folder conv 999999 < fileName folder conv 1000000 := fun h => List.lt_asymm hlt h
  have sel : ∀ ts : List Nat, ts ≠ [] → 1000000 ∈ ts → (∀ t ∈ ts, t ≤ 1000000) →
      latestByTime (ts.map (fileName folder conv)) = some (fileName folder conv 1000000) := by
    intro ts hne hm hle
    obtain ⟨T, hT, hmax, hl⟩ := latest_selected folder conv ts hne
    rw [hl, Nat.le_antisymm (hle T hT) (hmax _ hm)]
  refine ⟨?_, ?_, sel _ (by simp) (by simp) (by simp), sel _ (by simp) (by simp) (by simp)⟩
  · simp only [List.map_cons, List.map_nil, latestLex, List.foldl_cons, List.foldl_nil, if_neg hnlt]
  · simp only [List.map_cons, List.map_nil, latestLex, List.foldl_cons, List.foldl_nil, if_pos hlt]

example : uncodes (fileName (codes "sim_0.1") gridConv 42) = "sim_0.1/grid_000042.h5" := by decide

/-- a folder with `'_'` and `'.'` in two path components, a convention with `'_'`: the parser is not disturbed -/
example : uncodes (fileName (codes "run_1.5/x") (codes "my_grid") 1234567) = "run_1.5/x/my_grid_1234567.h5"
    ∧ parseTime (fileName (codes "run_1.5/x") (codes "my_grid") 1234567) = some 1234567 := by decide

/-- non-vacuity: three checkpoints with 1, 3 and 2 digit times listed in arbitrary order: the one of t = 100 is chosen -/
example : restartChoice ([5, 100, 99].map (fileName (codes "run_1") gridConv)) = some (fileName (codes "run_1") gridConv 100, 100) := by
  decide

/-- non-vacuity beyond six digits: the checkpoint of t = 1000000 is chosen (the old rule chose 999999) -/
example : restartChoice ([5, 999999, 1000000, 12].map (fileName (codes "run_1") gridConv))
      = some (fileName (codes "run_1") gridConv 1000000, 1000000)
    ∧ latestLex ([5, 999999, 1000000, 12].map (fileName (codes "run_1") gridConv))
      = some (fileName (codes "run_1") gridConv 999999) := by
  decide

/-- ties between different names of the same time: the first listed is kept; an unparsable name makes the selection fail -/
example : latestByTime [codes "d/grid_000005.h5", codes "d/grid_5.h5"] = some (codes "d/grid_000005.h5")
    ∧ latestByTime [codes "d/grid_5.h5", codes "d/grid_000005.h5"] = some (codes "d/grid_5.h5")
    ∧ latestByTime [codes "d/grid_000005.h5", codes "d/grid_old.h5"] = none := by decide

/-! ### 3. the driver's bookkeeping (on the generated script) -/

set_option linter.unusedSimpArgs false in
/-- everything before the loop, in closed form -/
theorem pre_counters (s : CState) : execStmtsC s driver.pre = preSpec s := by
  unfold preSpec
  cases h : s.loadable <;>
    simp [driver, execStmtsC, execStmtC, execSimplesC, execSimpleC, Cond.eval, Expr.eval, CState.get, CState.set,
      CState.emit, h]

set_option linter.unusedSimpArgs false in
/-- one pass through the loop body, in closed form: the time advances by `dt`, `ti` and `nLoops` by one, exactly the
passes with `ti % saveStep = saveStep - 1` write the two checkpoints and print the slots `[startPrint, min(saveStep, ti+1))`,
after which `startPrint` is reset -/
theorem body_counters (s : CState) : execStmtsC s driver.body = bodySpec s := by
  unfold bodySpec
  by_cases h : pyMod s.ti s.saveStep = s.saveStepCut
  all_goals
    simp [driver, execStmtsC, execStmtC, execSimplesC, execSimpleC, Cond.eval, Expr.eval, CState.get, CState.set,
      CState.emit, h]
  all_goals (try (cases s.crashed <;> by_cases hz : s.nLoops + 1 = 0 <;> simp [hz]))

set_option linter.unusedSimpArgs false in
/-- everything after the loop: a final checkpoint unless the last pass wrote one -/
theorem post_counters (s : CState) : execStmtsC s driver.post = postSpec s := by
  unfold postSpec
  by_cases h : pyMod s.ti s.saveStep = 0
  all_goals
    simp [driver, execStmtsC, execStmtC, execSimplesC, execSimpleC, Cond.eval, Expr.eval, CState.get, CState.set,
      CState.emit, h]

/-- the loop continues while steps remain and the wall-clock budget allows -/
theorem loop_cond (s : CState) : driver.cond.eval s = true ↔ (s.ti < s.tN ∧ s.timeForLoop = true) := by
  show (decide (s.ti < s.tN) && s.timeForLoop) = true ↔ _
  rw [Bool.and_eq_true]
  exact ⟨fun h => ⟨of_decide_eq_true h.1, h.2⟩, fun h => ⟨decide_eq_true h.1, h.2⟩⟩

/-- a run of the driver = set-up, some number `n` of passes, wrap-up; `n` is as many as the loop condition allowed -/
theorem run_is_n_passes (fuel : Nat) (s : CState) :
    ∃ n, n ≤ fuel ∧ runC driver fuel s = postSpec (iterSpec n (preSpec s))
      ∧ (∀ j, j < n → (iterSpec j (preSpec s)).ti < (iterSpec j (preSpec s)).tN ∧ (iterSpec j (preSpec s)).timeForLoop = true)
      ∧ (n < fuel → ¬ ((iterSpec n (preSpec s)).ti < (iterSpec n (preSpec s)).tN ∧ (iterSpec n (preSpec s)).timeForLoop = true)) := by
  obtain ⟨n, hn, he, hall, hstop⟩ := whileC_eq_iter driver.cond driver.body fuel (execStmtsC s driver.pre)
  refine ⟨n, hn, ?_, ?_, ?_⟩
  · unfold runC
    rw [he, post_counters, iterC_eq_iterSpec _ body_counters, pre_counters]
  · intro j hj
    have := hall j hj
    rw [iterC_eq_iterSpec _ body_counters, pre_counters] at this
    exact (loop_cond _).1 this
  · intro hlt
    have := hstop hlt
    rw [iterC_eq_iterSpec _ body_counters, pre_counters] at this
    intro h12
    rw [(loop_cond _).2 h12] at this
    exact Bool.noConfusion this

/-- the run `set-up; n passes; wrap-up` -/
def runN (n : Nat) (s : CState) : CState := postSpec (iterSpec n (preSpec s))

/-- the configuration of a run: save interval `S`, time step `dt`, and where it starts: from scratch (`k0 = 0`) or from the
checkpoint of step `k0` -/
structure Starts (s : CState) (S dt k0 : Int) : Prop where
  hS : s.saveStep = S
  hdt : s.dt = dt
  fresh : s.loadable = false → k0 = 0
  loaded : s.loadable = true → s.fileTime = k0 * dt
  noEvents : s.events = []
  notCrashed : s.crashed = false

/-- closed form of a whole run of `n` passes -/
theorem run_closed_form (S dt k0 : Int) (_hS : 1 ≤ S) (hdt : 1 ≤ dt) (n : Nat) (s : CState) (h : Starts s S dt k0) :
    (runN n s).t = (k0 + n) * dt ∧ (runN n s).ti = k0 + n ∧ (runN n s).nLoops = n ∧ (runN n s).crashed = false
    ∧ ckptTimes (runN n s).events
        = (if s.loadable then [] else [0]) ++ loopCkpts S dt n k0 (k0 * dt)
          ++ (if pyMod (k0 + n) S ≠ 0 then [(k0 + n) * dt] else [])
    ∧ phiTimes (runN n s).events = ckptTimes (runN n s).events := by
  have hdt0 : (0 : Int) < dt := by omega
  have ht0 : (if s.loadable then s.fileTime else 0) = k0 * dt := by
    cases hl : s.loadable
    · simp [h.fresh hl]
    · simp [h.loaded hl]
  have hp : (preSpec s).t = k0 * dt ∧ (preSpec s).ti = k0 ∧ (preSpec s).nLoops = 0
      ∧ (preSpec s).saveStep = S ∧ (preSpec s).saveStepCut = S - 1 ∧ (preSpec s).dt = dt
      ∧ (preSpec s).crashed = false := by
    refine ⟨ht0, ?_, rfl, h.hS, ?_, h.hdt, h.notCrashed⟩
    · show pyDiv (if s.loadable then s.fileTime else 0) s.dt = k0
      rw [ht0, h.hdt, pyDiv_mul _ _ hdt0]
    · show s.saveStep - 1 = S - 1
      rw [h.hS]
  obtain ⟨p1, p2, p3, p4, p5, p6, p7⟩ := hp
  have hc : (preSpec s).saveStepCut = (preSpec s).saveStep - 1 := by rw [p5, p4]
  obtain ⟨i1, i2, i3, i4, i5, i6, i7⟩ := iterSpec_closed n (preSpec s) hc
  have hpe : ckptTimes (preSpec s).events = (if s.loadable then [] else [0]) ∧
      phiTimes (preSpec s).events = (if s.loadable then [] else [0]) := by
    have hk : s.loadable = false → (if s.loadable then s.fileTime else 0) = 0 := by intro hl; simp [hl]
    cases hl : s.loadable
    · have := hk hl
      simp [preSpec, h.noEvents, hl, ckptTimes, phiTimes]
    · simp [preSpec, h.noEvents, hl, ckptTimes, phiTimes]
  set m := iterSpec n (preSpec s) with hm
  have ms : m.saveStep = S := by rw [i4.1, p4]
  have mt : m.t = (k0 + n) * dt := by rw [i1, p1, p6]; ring
  have mti : m.ti = k0 + n := by rw [i2, p2]
  unfold runN
  rw [← hm]
  unfold postSpec
  by_cases hz : pyMod m.ti m.saveStep ≠ 0
  · rw [if_pos hz]
    have hz' : pyMod (k0 + n) S ≠ 0 := by rw [← mti, ← ms]; exact hz
    refine ⟨mt, mti, by rw [i3, p3]; simp, by rw [i7 (by rw [p3]), p7], ?_, ?_⟩
    · show ckptTimes (m.events ++ _) = _
      rw [ckptTimes_append, i5, hpe.1, p4, p6, p2, p1, if_pos hz', mt]
      simp [ckptTimes]
    · show phiTimes (m.events ++ _) = ckptTimes (m.events ++ _)
      rw [ckptTimes_append, phiTimes_append, i5, i6, hpe.1, hpe.2]
      simp [ckptTimes, phiTimes]
  · rw [if_neg hz]
    have hz' : ¬ pyMod (k0 + n) S ≠ 0 := by rw [← mti, ← ms]; exact hz
    refine ⟨mt, mti, by rw [i3, p3]; simp, by rw [i7 (by rw [p3]), p7], ?_, ?_⟩
    · rw [i5, hpe.1, p4, p6, p2, p1, if_neg hz']; simp
    · rw [i5, i6, hpe.1, hpe.2]

/-- **no pass divides by zero** (the F6 defect, `average_output = …/nLoops`, cannot come back unnoticed): a run that
starts un-crashed ends un-crashed, for every save interval — in particular when the first pass saves -/
theorem no_zero_division (S dt k0 : Int) (hS : 1 ≤ S) (hdt : 1 ≤ dt) (n : Nat) (s : CState) (h : Starts s S dt k0) :
    (runN n s).crashed = false := (run_closed_form S dt k0 hS hdt n s h).2.2.2.1

/-- **the state at the end of a run is always on disk, and it is the newest checkpoint**: unless the run was a restart
that made no pass from a step that is a multiple of the save interval (then the checkpoint it started from is still the
newest one), a grid checkpoint carrying the final time exists, and no checkpoint carries a later time. -/
theorem final_state_checkpointed (S dt k0 : Int) (hS : 1 ≤ S) (hdt : 1 ≤ dt) (hk : 0 ≤ k0) (n : Nat) (s : CState)
    (h : Starts s S dt k0) :
    (∀ x ∈ ckptTimes (runN n s).events, x ≤ (runN n s).t)
    ∧ (¬ (s.loadable = true ∧ n = 0 ∧ pyMod k0 S = 0) → (runN n s).t ∈ ckptTimes (runN n s).events) := by
  obtain ⟨ht, _, _, _, hck, _⟩ := run_closed_form S dt k0 hS hdt n s h
  have hS0 : (0 : Int) < S := by omega
  rw [hck, ht]
  constructor
  · intro x hx
    simp only [List.mem_append] at hx
    rcases hx with (hx | hx) | hx
    · cases hl : s.loadable
      · simp [hl] at hx
        subst hx
        have : (0 : Int) ≤ k0 + n := by omega
        positivity
      · simp [hl] at hx
    · obtain ⟨j, hj, _, rfl⟩ := (mem_loopCkpts S dt n k0 (k0 * dt) x).1 hx
      have : ((j : Int) + 1) ≤ n := by exact_mod_cast hj
      nlinarith
    · by_cases hz : pyMod (k0 + n) S ≠ 0
      · simp [hz] at hx; omega
      · simp [hz] at hx
  · intro hnot
    simp only [List.mem_append]
    by_cases hz : pyMod (k0 + n) S ≠ 0
    · right; simp [hz]
    · have hz0 : pyMod (k0 + n) S = 0 := by simpa using hz
      cases n with
      | zero =>
        cases hl : s.loadable
        · left; left
          have := h.fresh hl
          simp [this]
        · exfalso; exact hnot ⟨hl, rfl, by simpa using hz0⟩
      | succ n =>
        left; right
        refine (mem_loopCkpts S dt (n + 1) k0 (k0 * dt) _).2 ⟨n, by omega, ?_, ?_⟩
        · have := prev_saves (k0 + (n + 1 : Nat)) S hS0 hz0
          rw [← this]; congr 1; push_cast; ring
        · push_cast; ring

/-- **`N` passes, stop, restart, `M` more passes = `N+M` passes**, for every save interval `S ≥ 1` and every starting
point: the restarted run resumes at the time and step index the first run ended with, ends at the time and step index
of the unsplit run, and between restart and end it writes its in-loop checkpoints at exactly the same steps; the two
runs together write the checkpoints of the unsplit run plus (possibly) the one at the split point.  Counters:
`ti` continues (`ti = t // dt` of the restart time), `nLoops` counts the passes of the current run only,
`startPrint` restarts at `ti % S`. -/
theorem loop_split (S dt k0 : Int) (hS : 1 ≤ S) (hdt : 1 ≤ dt) (N M : Nat) (s s' : CState)
    (h : Starts s S dt k0) (h' : Starts s' S dt (k0 + N)) (hl' : s'.loadable = true) :
    -- the restart reads the time the first run ended with
    s'.fileTime = (runN N s).t
    -- same end point as the unsplit run
    ∧ (runN M s').t = (runN (N + M) s).t ∧ (runN M s').ti = (runN (N + M) s).ti
    -- in-loop checkpoints of the unsplit run = those of the first part followed by those of the restarted run
    ∧ loopCkpts S dt (N + M) k0 (k0 * dt) = loopCkpts S dt N k0 (k0 * dt) ++ loopCkpts S dt M (k0 + N) ((k0 + N) * dt)
    -- counters of the restarted run
    ∧ (runN M s').nLoops = M ∧ (runN (N + M) s).nLoops = N + M
    ∧ (preSpec s').ti = k0 + N ∧ (preSpec s').startPrint = pyMod (k0 + N) S
    ∧ (runN M s').crashed = false := by
  obtain ⟨a1, a2, a3, _, _, _⟩ := run_closed_form S dt k0 hS hdt (N + M) s h
  obtain ⟨b1, _, _, _, _, _⟩ := run_closed_form S dt k0 hS hdt N s h
  obtain ⟨c1, c2, c3, c4, _, _⟩ := run_closed_form S dt (k0 + N) hS hdt M s' h'
  have hdt0 : (0 : Int) < dt := by omega
  have hS0 : (0 : Int) < S := by omega
  refine ⟨by rw [h'.loaded hl', b1], ?_, ?_, ?_, c3, by rw [a3]; push_cast; ring, ?_, ?_, c4⟩
  · rw [c1, a1]; push_cast; ring
  · rw [c2, a2]; push_cast; ring
  · rw [loopCkpts_add]; congr 2; ring
  · show pyDiv (if s'.loadable then s'.fileTime else 0) s'.dt = k0 + N
    rw [hl', if_pos rfl, h'.loaded hl', h'.hdt, pyDiv_mul _ _ hdt0]
  · show max 0 (pyMod (pyDiv (if s'.loadable then s'.fileTime else 0) s'.dt) s'.saveStep) = _
    rw [hl', if_pos rfl, h'.loaded hl', h'.hdt, pyDiv_mul _ _ hdt0, h'.hS, pyMod_eq _ _ hS0]
    exact max_eq_right (Int.emod_nonneg _ (ne_of_gt hS0))

/-- a fresh run with save interval 3, time step 2, end time 14 -/
def demoState : CState :=
  { t := 0, ti := 0, tN := 0, nLoops := 0, startPrint := 0, saveStep := 3, saveStepCut := 0, tEnd := 14, dt := 2,
    loadable := false, timeForLoop := true, clock := [], fileTime := 0, events := [], crashed := false }

/-- non-vacuity: it satisfies `Starts` -/
example : Starts demoState 3 2 0 := ⟨rfl, rfl, fun _ => rfl, fun h => by simp [demoState] at h, rfl, rfl⟩

/-- the generated script run on that state makes 7 passes and writes the grid at t = 0, 6, 12 and finally 14 -/
example : ckptTimes (runC driver 100 demoState).events = [0, 6, 12, 14] ∧ (runC driver 100 demoState).ti = 7 := by decide

/-! ### 4. the driver's data flow (on the generated script): the loop is an iteration on the distribution function -/

/-- the numerical state after the set-up part, started from a checkpoint holding `loaded` -/
def setupSim (junk : Nat → Term) (init : Sim) (loaded : SGrid) : Option Sim :=
  execStmtsS junk loaded (.sym 0) true true init driver.pre

/-- one pass through the loop body (`b`: is it a pass that saves) -/
def passSim (b : Bool) (s : Sim) : Option Sim :=
  execStmtsS (fun _ => .unit) ⟨.unit, .v_parallel⟩ .unit true b s driver.body

/-- potential / density / new distribution function / gradient table as the driver computes them from the distribution
function, read off the generated script -/
def phiOf (F : Term) : Term :=
  match setupSim (fun _ => .unit) (mkSim .unit .unit .unit .unit []) ⟨F, .v_parallel⟩ with
  | some s => s.phi.field
  | none => .unit
def rhoOf (F : Term) : Term :=
  match setupSim (fun _ => .unit) (mkSim .unit .unit .unit .unit []) ⟨F, .v_parallel⟩ with
  | some s => s.rho.field
  | none => .unit
def stepOf (F : Term) : Term :=
  match passSim false (mkSim F (phiOf F) (rhoOf F) .unit []) with
  | some s => s.f.field
  | none => .unit
def pgvOf (F : Term) : Term :=
  match passSim false (mkSim F (phiOf F) (rhoOf F) .unit []) with
  | some s => s.pgv
  | none => .unit

/-- **set-up from a checkpoint**: whatever the freshly allocated arrays contain, whatever the previous contents, in
whichever of the standard layouts the checkpoint was written, the loop is entered with `distribFunc` = the stored field
in `v_parallel`, and `phi`, `rho` = functions of that field alone; nothing raises. -/
theorem setup_state_is_function_of_f (junk : Nat → Term) (init : Sim) (F : Term) (lay : Lay)
    (hlay : layoutOk .distribFunc lay = true) :
    setupSim junk init ⟨F, lay⟩ = some (mkSim F (phiOf F) (rhoOf F) (junk 2) init.files) := by
  cases lay <;> first | rfl | (exact absurd hlay (by decide))

/-- a fresh start (`setupCylindricalGrid`) enters the loop in the same shape and writes the initial checkpoints -/
theorem fresh_setup (junk : Nat → Term) (init : Sim) (F0 : Term) :
    execStmtsS junk ⟨.unit, .v_parallel⟩ F0 false true init driver.pre
      = some (mkSim F0 (phiOf F0) (rhoOf F0) (junk 2)
          (init.files ++ [(false, ⟨F0, .v_parallel⟩)] ++ [(true, ⟨phiOf F0, .v_parallel_2d⟩)])) := by
  rfl

/-- **one pass is a function of the distribution function alone**: from the loop-head state built on `F` — with *any*
contents of the gradient table — no assertion fails, the pass ends in the loop-head state built on `stepOf F`, and a
saving pass appends exactly the end-of-pass `distribFunc` and `phi` to the checkpoints. -/
theorem pass_is_function_of_f (b : Bool) (F pgv : Term) (files : List (Bool × SGrid)) :
    passSim b (mkSim F (phiOf F) (rhoOf F) pgv files)
      = some (mkSim (stepOf F) (phiOf (stepOf F)) (rhoOf (stepOf F)) (pgvOf F)
          (if b then files ++ [(false, ⟨stepOf F, .v_parallel⟩)] ++ [(true, ⟨phiOf (stepOf F), .v_parallel_2d⟩)] else files)) := by
  cases b <;> rfl

/-- the wrap-up writes the current `distribFunc` and `phi` and changes nothing -/
theorem post_writes_current_state (F P R pgv : Term) (files : List (Bool × SGrid)) :
    execStmtsS (fun _ => .unit) ⟨.unit, .v_parallel⟩ .unit true true (mkSim F P R pgv files) driver.post
      = some (mkSim F P R pgv (files ++ [(false, ⟨F, .v_parallel⟩)] ++ [(true, ⟨P, .v_parallel_2d⟩)])) := by
  rfl

/-- branches on counters only write output: no statement inside them touches the numerical state -/
theorem saves_only : driver.body.all Stmt.savesOnly = true ∧ driver.post.all Stmt.savesOnly = true
    ∧ driver.pre.all Stmt.savesOnly = true := by decide

/-- **a restarted run continues the original one**: after `n` passes from any loop-head state, restarting from the
checkpoint of the current distribution function (whatever garbage the new process has in its fresh arrays, whichever
passes save) and making `m` more passes gives the same three grids as making the `m` passes without stopping. -/
theorem restart_equals_continue (n m : Nat) (F pgv : Term) (files : List (Bool × SGrid)) (junk : Nat → Term) (init : Sim)
    (b : Bool) :
    ∃ sN, iterS (passSim b) n (mkSim F (phiOf F) (rhoOf F) pgv files) = some sN
      ∧ sN.f.lay = .v_parallel
      ∧ ∃ r, setupSim junk init sN.f = some r
      ∧ r.live = sN.live
      ∧ ∃ a a', iterS (passSim b) m sN = some a ∧ iterS (passSim b) m r = some a' ∧ a'.live = a.live := by
  have hstep : ∀ F pgv files, ∃ files', passSim b (mkSim F (phiOf F) (rhoOf F) pgv files)
      = some (mkSim (stepOf F) (phiOf (stepOf F)) (rhoOf (stepOf F)) (pgvOf F) files') :=
    fun F pgv files => ⟨_, pass_is_function_of_f b F pgv files⟩
  obtain ⟨pgv', files', hN⟩ := iterS_closed (passSim b) stepOf phiOf rhoOf pgvOf hstep n F pgv files
  refine ⟨_, hN, rfl, _, setup_state_is_function_of_f junk init _ .v_parallel rfl, rfl, ?_⟩
  obtain ⟨p1, f1, h1⟩ := iterS_closed (passSim b) stepOf phiOf rhoOf pgvOf hstep m (stepOf^[n] F) pgv' files'
  obtain ⟨p2, f2, h2⟩ := iterS_closed (passSim b) stepOf phiOf rhoOf pgvOf hstep m (stepOf^[n] F) (junk 2) init.files
  exact ⟨_, _, h1, h2, rfl⟩

/-! ### 5. the parameter file -/

/-- full statement of order independence (not proved in full: see `constants_order_independent_partial`): for a file
whose expressions only read the constants they name, reading succeeds for one key order iff it succeeds for every other,
and the constants are the same -/
def constants_order_independent_statement : Prop :=
  ∀ (V : Type) (data1 data2 : List (String × PVal V)), data1 ~ data2 → (data1.map (·.1)).Nodup →
    (∀ kp ∈ data1, kp.2.Local) → ∀ fuel, data1.length < fuel →
      (getConstants fuel data1 (fun _ => none)).isSome = (getConstants fuel data2 (fun _ => none)).isSome
      ∧ ∀ env1 env2, getConstants fuel data1 (fun _ => none) = some env1 → getConstants fuel data2 (fun _ => none) = some env2 →
          ∀ k ∈ data1.map (·.1), env1 k = env2 k

/-- **the constants do not depend on the order of the keys** — the part proved: whenever the file has a solution `σ`
(an assignment that gives every key the value of its entry: for a well-founded file the one obtained by evaluating in
dependency order), *every* successful run of the dependency-ordered parser, on *every* ordering of the keys, returns
exactly `σ` on all keys of the file.  Not proved here: that success for one ordering implies success for all, and that a
successful run yields a solution. -/
theorem constants_order_independent_partial {V : Type} (data1 data2 : List (String × PVal V)) (hperm : data1 ~ data2)
    (hloc : ∀ kp ∈ data1, kp.2.Local) (σ : String → Option V) (hσ : Solution data1 σ)
    (fuel1 fuel2 : Nat) (env1 env2 : String → Option V)
    (h1 : getConstants fuel1 data1 (fun _ => none) = some env1)
    (h2 : getConstants fuel2 data2 (fun _ => none) = some env2) :
    ∀ k ∈ data1.map (·.1), env1 k = σ k ∧ env2 k = σ k ∧ env1 k = env2 k := by
  have ok1 : ∀ kp ∈ data1, EntryOk σ kp := fun kp h => ⟨hloc kp h, (hσ kp h).1, (hσ kp h).2⟩
  have ok2 : ∀ kp ∈ data2, EntryOk σ kp := fun kp h => ok1 kp (hperm.mem_iff.2 h)
  have hb : Below (fun _ => (none : Option V)) σ := fun k v h => by simp at h
  obtain ⟨b1, t1⟩ := getConstants_inv σ fuel1 data1 _ env1 ok1 hb h1
  obtain ⟨b2, t2⟩ := getConstants_inv σ fuel2 data2 _ env2 ok2 hb h2
  intro k hk
  have hk2 : k ∈ data2.map (·.1) := (hperm.map _).mem_iff.1 hk
  obtain ⟨v1, e1⟩ := Option.isSome_iff_exists.1 (t1 k (Or.inr hk))
  obtain ⟨v2, e2⟩ := Option.isSome_iff_exists.1 (t2 k (Or.inr hk2))
  have s1 := b1 k v1 e1
  have s2 := b2 k v2 e2
  exact ⟨by rw [e1, s1], by rw [e2, s2], by rw [e1, e2, ← s1, s2]⟩

/-- **parsing what `Constants.__str__` prints gives the same constants**: the printed file holds one literal per
attribute (distinct names); in whatever order the entries come, the parser succeeds in a single sweep and every name
gets its literal.  (That the printed text *is* such a list of literals — `"{}".format(val)` of ints, floats and lists
is valid JSON for the same value — is checked by the correspondence on the real printer.) -/
theorem constants_print_parse_roundtrip {V : Type} (data : List (String × PVal V))
    (hl : ∀ kp ∈ data, ∃ v, kp.2 = PVal.lit v) (hnd : (data.map (·.1)).Nodup) (fuel : Nat) :
    ∃ env, getConstants (fuel + 1) data (fun _ => none) = some env ∧ ∀ k v, (k, PVal.lit v) ∈ data → env k = some v := by
  cases data with
  | nil => exact ⟨_, rfl, fun _ _ h => by simp at h⟩
  | cons d ds =>
    have hl' : ∀ kp ∈ (d :: ds).reverse, ∃ v, kp.2 = PVal.lit v := fun kp h => hl kp (List.mem_reverse.1 h)
    have hnd' : ((d :: ds).reverse.map (·.1)).Nodup := by rw [List.map_reverse]; exact (List.reverse_perm _).nodup_iff.2 hnd
    obtain ⟨r1, r2⟩ := sweep_lits (d :: ds).reverse (fun _ => none) [] hl' hnd'
    refine ⟨(sweep (d :: ds).reverse (fun _ => none) []).1, ?_, fun k v h => r2 k v (List.mem_reverse.2 h)⟩
    simp only [getConstants, r1, List.length_nil, List.length_cons, Nat.zero_lt_succ, if_true]

/-- non-vacuity: `iota8.json`-like dependencies, two orders, same constants -/
example : (getConstants (V := Nat) 5 [("a", .lit 2), ("b", .expr ["a", "c"] (fun e => (e "a").getD 0 + (e "c").getD 0)),
      ("c", .expr ["a"] (fun e => 10 * (e "a").getD 0))] (fun _ => none)).map (fun e => (e "a", e "b", e "c"))
    = some (some 2, some 22, some 20)
    ∧ (getConstants (V := Nat) 5 [("c", .expr ["a"] (fun e => 10 * (e "a").getD 0)), ("a", .lit 2),
      ("b", .expr ["a", "c"] (fun e => (e "a").getD 0 + (e "c").getD 0))] (fun _ => none)).map (fun e => (e "a", e "b", e "c"))
    = some (some 2, some 22, some 20) := by decide

end PygyroVerif.C18
