/-
C07, tie by translation: `Generated/FindSpanGen.lean` is REGENERATED on every run of `./check C07` from the source of
`nu_find_span` (pygyro/splines/spline_eval_funcs.py; harness/translate_pure.py: the `while` becomes a fuel-recursive function over
the record of all locals, floats are exact rationals).  This file proves that whenever the hand-written model `BSpline.findSpan`
(instantiated at K = ℚ) returns a span, the generated function returns the same span for every sufficient fuel; together with
`C07.findSpan_some_correct` the SOURCE's span search terminates on sorted knots and returns the containing cell.  The binary
search is the one loop of the spline kernels whose termination is not structural.
-/
import PygyroVerif.Generated.FindSpanGen
import PygyroVerif.Props.C07

namespace PygyroVerif.C07Gen
open PygyroVerif PygyroVerif.BSpline
open PygyroVerif.Gen.FindSpan PygyroVerif.Gen.FindSpan.nu_find_span_

/-- the generated `while` loop follows the model's loop: the generated code carries `span = (low+high)//2` from the end of the
    previous iteration, the model recomputes it -/
theorem loop_eq (F' : ℕ) : ∀ (f F : ℕ) (σ : St) (s : ℕ), f ≤ F → σ.span = (σ.low + σ.high) / 2 →
    findSpanLoop σ.knots σ.x f σ.low σ.high = some s →
    ∃ σ', nu_find_span_loop1 F' F σ = .ok σ' ∧ σ'.span = s := by
  intro f
  induction f with
  | zero => intro F σ s _ _ h; simp [findSpanLoop] at h
  | succ f ih =>
    intro F σ s hF hsp h
    obtain ⟨F0, rfl⟩ : ∃ F0, F = F0 + 1 := ⟨F - 1, by omega⟩
    unfold findSpanLoop at h
    unfold nu_find_span_loop1
    simp only [← hsp] at h
    by_cases hc : σ.x < σ.knots σ.span ∨ σ.knots (σ.span + 1) ≤ σ.x
    · rw [if_pos hc] at h
      have hc' : σ.x < σ.knots σ.span ∨ σ.x ≥ σ.knots (σ.span + 1) := hc
      rw [if_pos hc']
      by_cases hl : σ.x < σ.knots σ.span
      · rw [if_pos hl] at h
        rw [if_pos hl]
        exact ih F0 { σ with high := σ.span, span := (σ.low + σ.span) / 2 } s (by omega) rfl h
      · rw [if_neg hl] at h
        rw [if_neg hl]
        exact ih F0 { σ with low := σ.span, span := (σ.span + σ.high) / 2 } s (by omega) rfl h
    · rw [if_neg hc] at h
      have hc' : ¬ (σ.x < σ.knots σ.span ∨ σ.x ≥ σ.knots (σ.span + 1)) := hc
      rw [if_neg hc']
      cases h
      exact ⟨σ, rfl, rfl⟩

/-- **the generated `nu_find_span` returns what the model returns**, for every fuel at least the model's own
    (`high - low + 1`) -/
theorem gen_find_span_eq (t : ℕ → ℚ) (nk degree : ℕ) (x : ℚ) (s F : ℕ)
    (h : findSpan t nk degree x = some s) (hF : (nk - 1 - degree) - degree + 1 ≤ F) :
    run F t nk degree x = .ret [s] := by
  unfold findSpan at h
  unfold run
  simp only
  by_cases h1 : x ≤ t degree
  · rw [if_pos h1] at h
    rw [if_pos h1]
    cases h; rfl
  · rw [if_neg h1] at h
    rw [if_neg h1]
    by_cases h2 : t (nk - 1 - degree) ≤ x
    · rw [if_pos h2] at h
      have h2' : x ≥ t (nk - 1 - degree) := h2
      rw [if_pos h2']
      cases h; rfl
    · rw [if_neg h2] at h
      have h2' : ¬ x ≥ t (nk - 1 - degree) := h2
      rw [if_neg h2']
      obtain ⟨σ', hl, hs⟩ := loop_eq F ((nk - 1 - degree) - degree + 1) F
        { knots := t, knots_len := nk, degree := degree, x := x, low := degree, high := nk - 1 - degree,
          returnVal := 0, span := (degree + (nk - 1 - degree)) / 2 } s hF rfl h
      simp only [hl, hs]

/-- **the span search of the SOURCE terminates and finds the containing cell**: for sorted knots and a non-degenerate domain the
    generated function returns (for every sufficient fuel) a span in `[degree, len(knots)-2-degree]`, the first / last cell for
    points on or beyond the ends, and otherwise the cell with `knots[span] ≤ x < knots[span+1]` -/
theorem gen_find_span_correct (t : ℕ → ℚ) (ht : Monotone t) (nk degree : ℕ) (x : ℚ)
    (hdom : t degree < t (nk - 1 - degree)) (F : ℕ) (hF : (nk - 1 - degree) - degree + 1 ≤ F) :
    ∃ span, run F t nk degree x = .ret [span] ∧ degree ≤ span ∧ span ≤ nk - 2 - degree ∧
      (x ≤ t degree → span = degree) ∧
      (t (nk - 1 - degree) ≤ x → span = nk - 2 - degree) ∧
      (t degree < x → x < t (nk - 1 - degree) → t span ≤ x ∧ x < t (span + 1)) := by
  obtain ⟨span, h, r⟩ := C07.findSpan_some_correct t ht nk degree x hdom
  exact ⟨span, gen_find_span_eq t nk degree x span F h hF, r⟩

example : run 20 (fun i => ([0, 0, 0, 0, 1, 2, 4, 4, 4, 4] : List ℚ).getD i 0) 10 3 (5 / 2) = .ret [5] := by decide +kernel

end PygyroVerif.C07Gen
