/-
C07, tie by translation, part 5: the 2-D SCALAR kernels `nu_eval_spline_2d_scalar` (pygyro/splines/spline_eval_funcs.py) and
`cu_eval_spline_2d_scalar` (pygyro/splines/cubic_uniform_spline_eval_funcs.py).  `Generated/Eval2DGen.lean` is REGENERATED on every run
of `./check C07` (harness/translate_pure.py, target `eval2d`).  New in the translation: the local 2-D scratch array
`theCoeffs = empty((n, m))` (row-major view of the arbitrary memory `U`), the whole-array assignment
`theCoeffs[:, :] = coeffs[span1-deg1:span1+1, span2-deg2:span2+1]` with numpy's shape check / broadcasting (ValueError otherwise), and the
contraction loops that overwrite column 0 of `theCoeffs` while reading the columns ≥ 1 (`setCol0`, `inner_loop_eq`, `outer_loop_eq`:
iteration `i` touches row `i` only, so the result is the double sum over the block as it was BEFORE the loops).

Proved here, for ALL knots / 4-arrays, coefficient arrays, points, `der1, der2 ∈ {0, 1}`, every content `U` of uninitialised memory:
  * `gen_eval_spline_2d_eq` / `_model` / `_total`: the generated `nu_eval_spline_2d_scalar` returns
    `Σ_i (Σ_j c[s1-d1+i, s2-d2+j]·B2_j(y))·B1_i(x)` = `BSpline.evalSpline2D` (guard `deg ≤ span`, which holds on sorted knots);
  * `gen_cu_eval_spline_2d_eq`: the generated `cu_eval_spline_2d_scalar` returns `CubicUniform.cuEvalSpline2D` with `trunc := pyInt`
    (guard `deg1 = deg2 = 3`); `gen_cu_eval_2d_eq_general_path`: on the closed domain that is `evalSpline2D` on the uniform knot vectors.
So the theorems of Props/C07.lean about the 2-D models (`entrypoints`, `evalSpline2D_eq_tensor`, `cubic_path_eq_general_path_2d`) hold of what
the source says now.  Not modelled (header of the generated file): clipping of slice bounds, negative slice bounds, index bounds.
-/
import PygyroVerif.Generated.Eval2DGen
import PygyroVerif.Props.C07Gen2
import PygyroVerif.Props.C07Gen3

namespace PygyroVerif.C07Gen5
open PygyroVerif PygyroVerif.BSpline

/-! ## the contraction over the local block, shared by both kernels -/

/-- `T[i, 0] = v` (the only kind of write the contraction loops make) -/
def setCol0 (T : ℕ → ℕ → ℚ) (i : ℕ) (v : ℚ) : ℕ → ℕ → ℚ := fun k l => if k = i ∧ l = 0 then v else T k l

theorem setCol0_self (T : ℕ → ℕ → ℚ) (i : ℕ) (v : ℚ) : setCol0 T i v i 0 = v := if_pos ⟨rfl, rfl⟩
theorem setCol0_col (T : ℕ → ℕ → ℚ) (i : ℕ) (v : ℚ) (k l : ℕ) (h : l ≠ 0) : setCol0 T i v k l = T k l :=
  if_neg (fun hh => h hh.2)
theorem setCol0_row (T : ℕ → ℕ → ℚ) (i : ℕ) (v : ℚ) (k l : ℕ) (h : k ≠ i) : setCol0 T i v k l = T k l :=
  if_neg (fun hh => h hh.1)
theorem setCol0_setCol0 (T : ℕ → ℕ → ℚ) (i : ℕ) (v w : ℚ) : setCol0 (setCol0 T i v) i w = setCol0 T i w := by
  funext k l
  unfold setCol0
  by_cases h : k = i ∧ l = 0
  · rw [if_pos h, if_pos h]
  · rw [if_neg h, if_neg h, if_neg h]

/-- `Σ_{m<n} T[i, j0+m]·b[j0+m]` -/
def prodSum (T : ℕ → ℕ → ℚ) (b : ℕ → ℚ) (i j0 n : ℕ) : ℚ := ((List.range n).map (fun m => T i (j0 + m) * b (j0 + m))).sum

/-- `Σ_{j<n} T[i, j]·b[j]`: row `i` of the block contracted with the second basis -/
def rowDot (T : ℕ → ℕ → ℚ) (b : ℕ → ℚ) (i n : ℕ) : ℚ := ((List.range n).map (fun j => T i j * b j)).sum

theorem rowDot_succ (T : ℕ → ℕ → ℚ) (b : ℕ → ℚ) (i d : ℕ) : T i 0 * b 0 + prodSum T b i 1 d = rowDot T b i (d + 1) := by
  unfold prodSum rowDot
  rw [List.range_succ_eq_map]
  simp only [List.map_cons, List.sum_cons, List.map_map]
  congr 3
  funext m
  simp only [Function.comp, Nat.succ_eq_add_one, Nat.add_comm 1 m]

theorem rowDot_congr (T T' : ℕ → ℕ → ℚ) (b : ℕ → ℚ) (i n : ℕ) (h : ∀ j, j < n → T i j = T' i j) : rowDot T b i n = rowDot T' b i n := by
  unfold rowDot
  congr 1
  apply List.map_congr_left
  intro j hj
  rw [h j (List.mem_range.mp hj)]

/-- the double sum both 2-D kernels return: `Σ_{i ≤ d1} (Σ_{j ≤ d2} c[r0+i, c0+j]·b2[j])·b1[i]` -/
def blockSum (c : ℕ → ℕ → ℚ) (r0 c0 d1 d2 : ℕ) (b1 b2 : ℕ → ℚ) : ℚ :=
  ((List.range (d1 + 1)).map (fun i => ((List.range (d2 + 1)).map (fun j => c (r0 + i) (c0 + j) * b2 j)).sum * b1 i)).sum

theorem blockSum_congr (c : ℕ → ℕ → ℚ) (r0 c0 d1 d2 : ℕ) (b1 b2 b1' b2' : ℕ → ℚ) (h1 : ∀ i, i ≤ d1 → b1 i = b1' i)
    (h2 : ∀ j, j ≤ d2 → b2 j = b2' j) : blockSum c r0 c0 d1 d2 b1 b2 = blockSum c r0 c0 d1 d2 b1' b2' := by
  unfold blockSum
  apply congrArg List.sum
  apply List.map_congr_left
  intro i hi
  rw [List.mem_range] at hi
  rw [h1 i (by omega)]
  congr 2
  apply List.map_congr_left
  intro j hj
  rw [List.mem_range] at hj
  rw [h2 j (by omega)]

/-! ## `nu_eval_spline_2d_scalar` -/
section Nu
open PygyroVerif.Gen.BasisFuns PygyroVerif.Gen.EvalSpline PygyroVerif.Gen.Eval2DNu
open PygyroVerif.Gen.Eval2DNu.nu_eval_spline_2d_scalar_

/-- `for j in range(1, deg2+1): theCoeffs[i, 0] += theCoeffs[i, j]*basis2[j]` started at `j0 ≥ 1` with `n` iterations left: only
    `theCoeffs[i, 0]` changes, by the sum of the products (the entries read are in the columns `≥ 1`, which are not written) -/
theorem inner_loop_eq (U : ℕ → ℚ) (F : ℕ) : ∀ (n j0 : ℕ) (σ : St), 1 ≤ j0 →
    ∃ J, nu_eval_spline_2d_scalar_loop2 U F n j0 σ =
      .ok { σ with j := J, theCoeffs := setCol0 σ.theCoeffs σ.i (σ.theCoeffs σ.i 0 + prodSum σ.theCoeffs σ.basis2 σ.i j0 n) } := by
  intro n
  induction n with
  | zero =>
    intro j0 σ _
    refine ⟨σ.j, ?_⟩
    have h : setCol0 σ.theCoeffs σ.i (σ.theCoeffs σ.i 0 + prodSum σ.theCoeffs σ.basis2 σ.i j0 0) = σ.theCoeffs := by
      funext k l
      unfold setCol0
      by_cases h : k = σ.i ∧ l = 0
      · rw [if_pos h, h.1, h.2]; simp [prodSum]
      · rw [if_neg h]
    rw [h]
    rfl
  | succ n ih =>
    intro j0 σ hj
    let σ1 : St := { σ with j := j0, theCoeffs := setCol0 σ.theCoeffs σ.i (σ.theCoeffs σ.i 0 + σ.theCoeffs σ.i j0 * σ.basis2 j0) }
    obtain ⟨J, hrun⟩ := ih (j0 + 1) σ1 (by omega)
    refine ⟨J, ?_⟩
    show nu_eval_spline_2d_scalar_loop2 U F n (j0 + 1) σ1 = _
    rw [hrun]
    congr 1
    show ({ σ with j := J, theCoeffs := setCol0 σ1.theCoeffs σ.i (σ1.theCoeffs σ.i 0 + prodSum σ1.theCoeffs σ.basis2 σ.i (j0 + 1) n) } : St) = _
    congr 1
    have h0 : σ1.theCoeffs σ.i 0 = σ.theCoeffs σ.i 0 + σ.theCoeffs σ.i j0 * σ.basis2 j0 := setCol0_self _ _ _
    have hrd : ∀ m, σ1.theCoeffs σ.i (j0 + 1 + m) = σ.theCoeffs σ.i (j0 + 1 + m) := fun m => setCol0_col _ _ _ _ _ (by omega)
    show setCol0 (setCol0 σ.theCoeffs σ.i _) σ.i _ = _
    unfold prodSum
    rw [setCol0_setCol0, h0, List.range_succ_eq_map]
    simp only [List.map_cons, List.sum_cons, List.map_map, Nat.add_zero, hrd]
    congr 1
    have : ((fun m => σ.theCoeffs σ.i (j0 + m) * σ.basis2 (j0 + m)) ∘ Nat.succ)
        = (fun m => σ.theCoeffs σ.i (j0 + 1 + m) * σ.basis2 (j0 + 1 + m)) := by
      funext m
      simp only [Function.comp, Nat.succ_eq_add_one]
      rw [show j0 + (m + 1) = j0 + 1 + m by omega]
    rw [this]
    ring

/-- `for i in range(deg1+1):` (first write to column 0, inner loop, `z += theCoeffs[i, 0]*basis1[i]`) started at `i0` with `n` iterations
    left: `z` grows by `Σ_m (Σ_{j ≤ deg2} theCoeffs[i0+m, j]·basis2[j])·basis1[i0+m]`, in terms of the block BEFORE the loop (iteration `i`
    overwrites `theCoeffs[i, 0]` only, and reads row `i` only) -/
theorem outer_loop_eq (U : ℕ → ℚ) (F : ℕ) : ∀ (n i0 : ℕ) (σ : St),
    ∃ σ', nu_eval_spline_2d_scalar_loop1 U F n i0 σ = .ok σ' ∧
      σ'.z = σ.z + ((List.range n).map (fun m => rowDot σ.theCoeffs σ.basis2 (i0 + m) (σ.deg2 + 1) * σ.basis1 (i0 + m))).sum := by
  intro n
  induction n with
  | zero => intro i0 σ; exact ⟨σ, rfl, by simp⟩
  | succ n ih =>
    intro i0 σ
    let σb : St := { σ with i := i0, theCoeffs := setCol0 σ.theCoeffs i0 (σ.theCoeffs i0 0 * σ.basis2 0) }
    obtain ⟨J, hin⟩ := inner_loop_eq U F (σ.deg2 + 1 - 1) 1 σb (le_refl 1)
    let T2 : ℕ → ℕ → ℚ := setCol0 σb.theCoeffs i0 (σb.theCoeffs i0 0 + prodSum σb.theCoeffs σ.basis2 i0 1 (σ.deg2 + 1 - 1))
    let σ2 : St := { σb with j := J, theCoeffs := T2, z := σ.z + T2 i0 0 * σ.basis1 i0 }
    obtain ⟨σ', hrun, hz⟩ := ih (i0 + 1) σ2
    refine ⟨σ', ?_, ?_⟩
    · show (match nu_eval_spline_2d_scalar_loop2 U F (σ.deg2 + 1 - 1) 1 σb with
        | .ok σ => nu_eval_spline_2d_scalar_loop1 U F n (i0 + 1) { σ with z := σ.z + σ.theCoeffs σ.i 0 * σ.basis1 σ.i }
        | .done o => .done o) = _
      rw [hin]
      exact hrun
    · rw [hz, List.range_succ_eq_map]
      simp only [List.map_cons, List.sum_cons, List.map_map, Nat.add_zero]
      have hT2 : T2 i0 0 = rowDot σ.theCoeffs σ.basis2 i0 (σ.deg2 + 1) := by
        show setCol0 _ i0 _ i0 0 = _
        rw [setCol0_self]
        have h0 : σb.theCoeffs i0 0 = σ.theCoeffs i0 0 * σ.basis2 0 := setCol0_self _ _ _
        have hps : prodSum σb.theCoeffs σ.basis2 i0 1 (σ.deg2 + 1 - 1) = prodSum σ.theCoeffs σ.basis2 i0 1 (σ.deg2 + 1 - 1) := by
          unfold prodSum
          congr 1
          apply List.map_congr_left
          intro m _
          rw [show σb.theCoeffs i0 (1 + m) = σ.theCoeffs i0 (1 + m) from setCol0_col _ _ _ _ _ (by omega)]
        rw [h0, hps, Nat.add_sub_cancel, rowDot_succ]
      have hrows : ∀ m, rowDot σ2.theCoeffs σ.basis2 (i0 + 1 + m) (σ.deg2 + 1) = rowDot σ.theCoeffs σ.basis2 (i0 + (m + 1)) (σ.deg2 + 1) := by
        intro m
        rw [show i0 + 1 + m = i0 + (m + 1) by omega]
        apply rowDot_congr
        intro j _
        show setCol0 (setCol0 σ.theCoeffs i0 _) i0 _ (i0 + (m + 1)) j = _
        rw [setCol0_row _ _ _ _ _ (by omega), setCol0_row _ _ _ _ _ (by omega)]
      show σ.z + T2 i0 0 * σ.basis1 i0 + ((List.range n).map (fun m => rowDot σ2.theCoeffs σ.basis2 (i0 + 1 + m) (σ.deg2 + 1) * σ.basis1 (i0 + 1 + m))).sum = _
      rw [hT2]
      have : ((fun m => rowDot σ.theCoeffs σ.basis2 (i0 + m) (σ.deg2 + 1) * σ.basis1 (i0 + m)) ∘ Nat.succ)
          = (fun m => rowDot σ2.theCoeffs σ.basis2 (i0 + 1 + m) (σ.deg2 + 1) * σ.basis1 (i0 + 1 + m)) := by
        funext m
        simp only [Function.comp, Nat.succ_eq_add_one]
        rw [hrows m, show i0 + 1 + m = i0 + (m + 1) by omega]
      rw [this]
      ring

/-- the statements of `nu_eval_spline_2d_scalar` after both basis arrays have been filled, as the generated `run` has them (copied from
    Generated/Eval2DGen.lean; `gen_eval_spline_2d_eq` checks by unfolding that this IS what `run` continues with): `theCoeffs = empty(…)`, the
    whole-array assignment from the slice of `coeffs` under numpy's shape check, `z = 0.0`, the contraction loops, `return z` -/
def tailNu (U : ℕ → ℚ) (F : ℕ) (σ : St) : Out St :=
  let σ : St := { σ with theCoeffs := fun k_ l_ => U (k_ * (σ.deg2 + (1 : Nat)) + l_), theCoeffs_len0 := (σ.deg1 + (1 : Nat)), theCoeffs_len1 := (σ.deg2 + (1 : Nat)) }
  if ((((σ.span1 + (1 : Nat)) - (σ.span1 - σ.deg1)) = σ.theCoeffs_len0 ∨ ((σ.span1 + (1 : Nat)) - (σ.span1 - σ.deg1)) = 1) ∧ (((σ.span2 + (1 : Nat)) - (σ.span2 - σ.deg2)) = σ.theCoeffs_len1 ∨ ((σ.span2 + (1 : Nat)) - (σ.span2 - σ.deg2)) = 1)) then
    let σ : St := { σ with theCoeffs := fun k_ l_ => if k_ < σ.theCoeffs_len0 ∧ l_ < σ.theCoeffs_len1 then σ.coeffs ((σ.span1 - σ.deg1) + (if ((σ.span1 + (1 : Nat)) - (σ.span1 - σ.deg1)) = 1 then 0 else k_)) ((σ.span2 - σ.deg2) + (if ((σ.span2 + (1 : Nat)) - (σ.span2 - σ.deg2)) = 1 then 0 else l_)) else σ.theCoeffs k_ l_ }
    let σ : St := { σ with z := (0 : Rat) }
    match nu_eval_spline_2d_scalar_loop1 U F ((σ.deg1 + (1 : Nat)) - (0 : Nat)) (0 : Nat) σ with
    | .ok σ => Out.ret { σ with ret_ := σ.z }
    | .done o => o
  else
    (Out.raised "ValueError" : Out St)
/-- for `deg ≤ span` the slice has the extents of `theCoeffs` (numpy's shape check passes) and the tail returns the double sum over the block -/
theorem contract_tail (U : ℕ → ℚ) (F : ℕ) (σ : St) (hs1 : σ.deg1 ≤ σ.span1) (hs2 : σ.deg2 ≤ σ.span2) :
    ∃ σ', tailNu U F σ = .ret σ' ∧
      σ'.ret_ = blockSum σ.coeffs (σ.span1 - σ.deg1) (σ.span2 - σ.deg2) σ.deg1 σ.deg2 σ.basis1 σ.basis2 := by
  have hn1 : (σ.span1 + 1) - (σ.span1 - σ.deg1) = σ.deg1 + 1 := by omega
  have hn2 : (σ.span2 + 1) - (σ.span2 - σ.deg2) = σ.deg2 + 1 := by omega
  let T : ℕ → ℕ → ℚ := fun k_ l_ => if k_ < σ.deg1 + 1 ∧ l_ < σ.deg2 + 1 then
    σ.coeffs ((σ.span1 - σ.deg1) + (if ((σ.span1 + 1) - (σ.span1 - σ.deg1)) = 1 then 0 else k_))
      ((σ.span2 - σ.deg2) + (if ((σ.span2 + 1) - (σ.span2 - σ.deg2)) = 1 then 0 else l_))
    else U (k_ * (σ.deg2 + 1) + l_)
  let σc : St := { σ with theCoeffs := T, theCoeffs_len0 := σ.deg1 + 1, theCoeffs_len1 := σ.deg2 + 1, z := 0 }
  obtain ⟨σ', hrun, hz⟩ := outer_loop_eq U F (σ.deg1 + 1 - 0) 0 σc
  refine ⟨{ σ' with ret_ := σ'.z }, ?_, ?_⟩
  · refine (if_pos ⟨Or.inl hn1, Or.inl hn2⟩).trans ?_
    show (match nu_eval_spline_2d_scalar_loop1 U F (σ.deg1 + 1 - 0) 0 σc with
      | .ok σ => Out.ret { σ with ret_ := σ.z }
      | .done o => o) = _
    rw [hrun]
  · show σ'.z = _
    rw [hz]
    show (0 : ℚ) + _ = _
    rw [zero_add, Nat.sub_zero]
    unfold blockSum
    congr 1
    apply List.map_congr_left
    intro i hi
    rw [List.mem_range] at hi
    have hi : i < σ.deg1 + 1 := hi
    simp only [Nat.zero_add]
    congr 1
    unfold rowDot
    congr 1
    apply List.map_congr_left
    intro j hj
    rw [List.mem_range] at hj
    have hj : j < σ.deg2 + 1 := hj
    show T i j * σ.basis2 j = _
    have hi' : (if σ.span1 + 1 - (σ.span1 - σ.deg1) = 1 then 0 else i) = i := by
      split
      · omega
      · rfl
    have hj' : (if σ.span2 + 1 - (σ.span2 - σ.deg2) = 1 then 0 else j) = j := by
      split
      · omega
      · rfl
    show (if i < σ.deg1 + 1 ∧ j < σ.deg2 + 1 then _ else _) * _ = _
    rw [if_pos ⟨hi, hj⟩, hi', hj']

/-- the locals of `nu_eval_spline_2d_scalar` once both basis arrays are filled -/
def stNu (x y : ℚ) (t1 : ℕ → ℚ) (nk1 deg1 : ℕ) (t2 : ℕ → ℚ) (nk2 deg2 : ℕ) (c : ℕ → ℕ → ℚ) (d1 d2 s1 s2 : ℕ) (B1 B2 : ℕ → ℚ) : St :=
  { x := x, y := y, kts1 := t1, kts1_len := nk1, deg1 := deg1, kts2 := t2, kts2_len := nk2, deg2 := deg2, coeffs := c, der1 := d1, der2 := d2,
    span1 := s1, span2 := s2, basis1 := B1, basis1_len := deg1 + 1, basis2 := B2, basis2_len := deg2 + 1 }

/-- **the generated `nu_eval_spline_2d_scalar` returns the model's double sum** `Σ_i (Σ_j c[s1-d1+i, s2-d2+j]·B2_j(y))·B1_i(x)` with `B` the
    model's basis values (`der` = 0) or first derivatives (`der` = 1) in each direction, all four combinations: whenever the model's two span
    searches return `s1`, `s2` with `deg ≤ span` (true on sorted knots, `gen_eval_spline_2d_total`; it makes the slice
    `coeffs[span1-deg1:span1+1, span2-deg2:span2+1]` a `(deg1+1)×(deg2+1)` block, so numpy's shape check passes), for every fuel at least the
    model's and every content `U` of the uninitialised `basis1` / `basis2` / `theCoeffs` (and of the callees' scratch arrays) -/
theorem gen_eval_spline_2d_eq (U : ℕ → ℚ) (F : ℕ) (t1 : ℕ → ℚ) (nk1 deg1 : ℕ) (t2 : ℕ → ℚ) (nk2 deg2 : ℕ) (c : ℕ → ℕ → ℚ) (x y : ℚ)
    (der1 der2 : Bool) (s1 s2 : ℕ) (h1 : findSpan t1 nk1 deg1 x = some s1) (h2 : findSpan t2 nk2 deg2 y = some s2)
    (hs1 : deg1 ≤ s1) (hs2 : deg2 ≤ s2) (hF1 : (nk1 - 1 - deg1) - deg1 + 1 ≤ F) (hF2 : (nk2 - 1 - deg2) - deg2 + 1 ≤ F) :
    ∃ σ', run U F x y t1 nk1 deg1 t2 nk2 deg2 c (if der1 then 1 else 0) (if der2 then 1 else 0) = .ret σ' ∧
      σ'.ret_ = blockSum c (s1 - deg1) (s2 - deg2) deg1 deg2 (fun i => (basisOrDer t1 deg1 x s1 der1).getD i 0)
        (fun j => (basisOrDer t2 deg2 y s2 der2).getD j 0) := by
  obtain ⟨τ1, hτ1, hr1⟩ := EvalSplineGen.fs_run_eq U t1 nk1 deg1 x s1 F h1 hF1
  obtain ⟨τ2, hτ2, hr2⟩ := EvalSplineGen.fs_run_eq U t2 nk2 deg2 y s2 F h2 hF2
  subst hr1 hr2
  have key : ∀ (d1 d2 : ℕ) (B1 B2 : ℕ → ℚ),
      (∀ k, k ≤ deg1 → B1 k = (basisOrDer t1 deg1 x τ1.ret_ der1).getD k 0) →
      (∀ k, k ≤ deg2 → B2 k = (basisOrDer t2 deg2 y τ2.ret_ der2).getD k 0) →
      ∃ σ', tailNu U F (stNu x y t1 nk1 deg1 t2 nk2 deg2 c d1 d2 τ1.ret_ τ2.ret_ B1 B2) = .ret σ' ∧
        σ'.ret_ = blockSum c (τ1.ret_ - deg1) (τ2.ret_ - deg2) deg1 deg2 (fun i => (basisOrDer t1 deg1 x τ1.ret_ der1).getD i 0)
          (fun j => (basisOrDer t2 deg2 y τ2.ret_ der2).getD j 0) := fun d1 d2 B1 B2 hB1 hB2 => by
    obtain ⟨σ', hrun, hret⟩ := contract_tail U F (stNu x y t1 nk1 deg1 t2 nk2 deg2 c d1 d2 τ1.ret_ τ2.ret_ B1 B2) hs1 hs2
    refine ⟨σ', hrun, ?_⟩
    rw [hret]
    unfold blockSum
    apply congrArg List.sum
    apply List.map_congr_left
    intro i hi
    rw [List.mem_range] at hi
    have hi : i < deg1 + 1 := hi
    show _ * B1 i = _
    rw [hB1 i (by omega)]
    congr 2
    apply List.map_congr_left
    intro j hj
    rw [List.mem_range] at hj
    have hj : j < deg2 + 1 := hj
    show _ * B2 j = _
    rw [hB2 j (by omega)]
    rfl
  cases der1 <;> cases der2
  · obtain ⟨β1, hβ1, hv1, -⟩ := BasisFunsGen.run_eq U F t1 nk1 deg1 x τ1.ret_ U (deg1 + 1)
    obtain ⟨β2, hβ2, hv2, -⟩ := BasisFunsGen.run_eq U F t2 nk2 deg2 y τ2.ret_ U (deg2 + 1)
    obtain ⟨σ', hrun, hret⟩ := key 0 0 β1.values β2.values hv1 hv2
    refine ⟨σ', ?_, hret⟩
    show run U F x y t1 nk1 deg1 t2 nk2 deg2 c 0 0 = _
    unfold run
    simp +decide only [hτ1, hτ2, hβ1, hβ2, ↓reduceIte]
    exact hrun
  · obtain ⟨β1, hβ1, hv1, -⟩ := BasisFunsGen.run_eq U F t1 nk1 deg1 x τ1.ret_ U (deg1 + 1)
    obtain ⟨β2, hβ2, hv2, -⟩ := EvalSplineGen.der_run_eq U F t2 nk2 deg2 y τ2.ret_ U (deg2 + 1)
    obtain ⟨σ', hrun, hret⟩ := key 0 1 β1.values β2.ders hv1 hv2
    refine ⟨σ', ?_, hret⟩
    show run U F x y t1 nk1 deg1 t2 nk2 deg2 c 0 1 = _
    unfold run
    simp +decide only [hτ1, hτ2, hβ1, hβ2, ↓reduceIte]
    exact hrun
  · obtain ⟨β1, hβ1, hv1, -⟩ := EvalSplineGen.der_run_eq U F t1 nk1 deg1 x τ1.ret_ U (deg1 + 1)
    obtain ⟨β2, hβ2, hv2, -⟩ := BasisFunsGen.run_eq U F t2 nk2 deg2 y τ2.ret_ U (deg2 + 1)
    obtain ⟨σ', hrun, hret⟩ := key 1 0 β1.ders β2.values hv1 hv2
    refine ⟨σ', ?_, hret⟩
    show run U F x y t1 nk1 deg1 t2 nk2 deg2 c 1 0 = _
    unfold run
    simp +decide only [hτ1, hτ2, hβ1, hβ2, ↓reduceIte]
    exact hrun
  · obtain ⟨β1, hβ1, hv1, -⟩ := EvalSplineGen.der_run_eq U F t1 nk1 deg1 x τ1.ret_ U (deg1 + 1)
    obtain ⟨β2, hβ2, hv2, -⟩ := EvalSplineGen.der_run_eq U F t2 nk2 deg2 y τ2.ret_ U (deg2 + 1)
    obtain ⟨σ', hrun, hret⟩ := key 1 1 β1.ders β2.ders hv1 hv2
    refine ⟨σ', ?_, hret⟩
    show run U F x y t1 nk1 deg1 t2 nk2 deg2 c 1 1 = _
    unfold run
    simp +decide only [hτ1, hτ2, hβ1, hβ2, ↓reduceIte]
    exact hrun

/-- the same, against `BSpline.evalSpline2D` (the 2-D model the theorems of Props/C07.lean are about: `entrypoints`,
    `evalSpline2D_eq_tensor`, `cubic_path_eq_general_path_2d`) -/
theorem gen_eval_spline_2d_model (U : ℕ → ℚ) (F : ℕ) (t1 : ℕ → ℚ) (nk1 deg1 : ℕ) (t2 : ℕ → ℚ) (nk2 deg2 : ℕ) (c : ℕ → ℕ → ℚ) (x y : ℚ)
    (der1 der2 : Bool) (s1 s2 : ℕ) (h1 : findSpan t1 nk1 deg1 x = some s1) (h2 : findSpan t2 nk2 deg2 y = some s2)
    (hs1 : deg1 ≤ s1) (hs2 : deg2 ≤ s2) (hF1 : (nk1 - 1 - deg1) - deg1 + 1 ≤ F) (hF2 : (nk2 - 1 - deg2) - deg2 + 1 ≤ F) :
    ∃ σ', run U F x y t1 nk1 deg1 t2 nk2 deg2 c (if der1 then 1 else 0) (if der2 then 1 else 0) = .ret σ' ∧
      evalSpline2D t1 nk1 deg1 t2 nk2 deg2 c x y der1 der2 = some σ'.ret_ := by
  obtain ⟨σ', hrun, hret⟩ := gen_eval_spline_2d_eq U F t1 nk1 deg1 t2 nk2 deg2 c x y der1 der2 s1 s2 h1 h2 hs1 hs2 hF1 hF2
  refine ⟨σ', hrun, ?_⟩
  rw [C07.entrypoints t1 nk1 deg1 t2 nk2 deg2 c x y der1 der2 s1 s2 h1 h2, hret]
  rfl

/-- **on sorted knots with non-degenerate domains the SOURCE's 2-D scalar evaluation terminates and returns the model's value**, for the
    value and the first derivative in each direction (the guards `deg ≤ span` and the fuel of the span searches are discharged by
    `C07.findSpan_some_correct`) -/
theorem gen_eval_spline_2d_total (U : ℕ → ℚ) (F : ℕ) (t1 : ℕ → ℚ) (ht1 : Monotone t1) (nk1 deg1 : ℕ) (t2 : ℕ → ℚ) (ht2 : Monotone t2)
    (nk2 deg2 : ℕ) (c : ℕ → ℕ → ℚ) (x y : ℚ) (der1 der2 : Bool) (hd1 : t1 deg1 < t1 (nk1 - 1 - deg1)) (hd2 : t2 deg2 < t2 (nk2 - 1 - deg2))
    (hF1 : (nk1 - 1 - deg1) - deg1 + 1 ≤ F) (hF2 : (nk2 - 1 - deg2) - deg2 + 1 ≤ F) :
    ∃ σ', run U F x y t1 nk1 deg1 t2 nk2 deg2 c (if der1 then 1 else 0) (if der2 then 1 else 0) = .ret σ' ∧
      evalSpline2D t1 nk1 deg1 t2 nk2 deg2 c x y der1 der2 = some σ'.ret_ := by
  obtain ⟨s1, h1, hs1, -⟩ := C07.findSpan_some_correct t1 ht1 nk1 deg1 x hd1
  obtain ⟨s2, h2, hs2, -⟩ := C07.findSpan_some_correct t2 ht2 nk2 deg2 y hd2
  exact gen_eval_spline_2d_model U F t1 nk1 deg1 t2 nk2 deg2 c x y der1 der2 s1 s2 h1 h2 hs1 hs2 hF1 hF2

/-! concrete instance: direction 1 = degree 3 on the clamped non-uniform knots `0,0,0,0,1,2,4,4,4,4` (`C07Gen2.cKnots`), `x = 5/2` (span 5);
    direction 2 = degree 2 on `0,0,0,1,3,3,3,…`, `y = 2` (span 3); a 6×4 coefficient array; uninitialised memory holds 7 -/
def kts2 : ℕ → ℚ := fun i => if i ≤ 2 then 0 else if i = 3 then 1 else 3
def cCoeffs2 : ℕ → ℕ → ℚ := fun i j =>
  (([[1, -2, 3, 5], [-1, 2, 4, 0], [2, 2, -3, 1], [0, 1, 1, -1], [3, -1, 2, 2], [1, 0, -2, 4]] : List (List ℚ)).getD i []).getD j 0

theorem kts2_mono : Monotone kts2 := fun a b h => by
  unfold kts2
  split_ifs <;> first | omega | norm_num

example (c : ℕ → ℕ → ℚ) (x y : ℚ) (der1 der2 : Bool) : ∃ σ', run (fun _ => 7) 5 x y C07Gen2.qKnots 10 3 kts2 7 2 c
      (if der1 then 1 else 0) (if der2 then 1 else 0) = .ret σ' ∧
    evalSpline2D C07Gen2.qKnots 10 3 kts2 7 2 c x y der1 der2 = some σ'.ret_ :=
  gen_eval_spline_2d_total (fun _ => 7) 5 C07Gen2.qKnots C07Gen2.qKnots_mono 10 3 kts2 kts2_mono 7 2 c x y der1 der2
    (by norm_num [C07Gen2.qKnots]) (by norm_num [kts2]) (by norm_num) (by norm_num)

/-- the generated code itself, evaluated on the instance for the four combinations (der1, der2), against the model evaluated there -/
example : ([(0, 0), (0, 1), (1, 0), (1, 1)].map fun d : ℕ × ℕ =>
      match run (fun _ => 7) 5 (5 / 2) 2 C07Gen2.cKnots 10 3 kts2 7 2 cCoeffs2 d.1 d.2 with
      | .ret σ => some σ.ret_ | _ => none) =
    [(false, false), (false, true), (true, false), (true, true)].map fun d : Bool × Bool =>
      evalSpline2D C07Gen2.cKnots 10 3 kts2 7 2 cCoeffs2 (5 / 2) 2 d.1 d.2 := by decide +kernel
/-- … and the numbers (floats of /repo: 0.58333…, -0.104166…, 0.875, 0.875) -/
example : ([(0, 0), (0, 1), (1, 0), (1, 1)].map fun d : ℕ × ℕ =>
      match run (fun _ => 7) 5 (5 / 2) 2 C07Gen2.cKnots 10 3 kts2 7 2 cCoeffs2 d.1 d.2 with
      | .ret σ => some σ.ret_ | _ => none) = [some (7 / 12), some (-5 / 48), some (7 / 8), some (7 / 8)] := by decide +kernel
/-- numpy's shape check: a span below the degree (here forced with the 5-knot array `0,1,2,3,4` and degree 2: span `high - 1` = 1)
    makes the slice shorter than `theCoeffs`: the generated function raises, as Python does -/
example : (match run (fun _ => 7) 5 5 2 (fun i => (i : ℚ)) 5 2 kts2 7 2 cCoeffs2 0 0 with
    | .raised e => e | _ => "") = "ValueError" := by decide +kernel

end Nu

/-! ## `cu_eval_spline_2d_scalar` -/
section Cu
open PygyroVerif.CubicUniform PygyroVerif.Gen.CubicUniform PygyroVerif.Gen.Eval2DCu
open PygyroVerif.Gen.Eval2DCu.cu_eval_spline_2d_scalar_

/-- `for j in range(1, 4): theCoeffs[i, 0] += theCoeffs[i, j]*basis2[j]` started at `j0 ≥ 1` with `n` iterations left: only
    `theCoeffs[i, 0]` changes, by the sum of the products (the entries read are in the columns `≥ 1`, which are not written) -/
theorem cu_inner_loop_eq (U : ℕ → ℚ) (F : ℕ) : ∀ (n j0 : ℕ) (σ : St), 1 ≤ j0 →
    ∃ J, cu_eval_spline_2d_scalar_loop2 U F n j0 σ =
      .ok { σ with j := J, theCoeffs := setCol0 σ.theCoeffs σ.i (σ.theCoeffs σ.i 0 + prodSum σ.theCoeffs σ.basis2 σ.i j0 n) } := by
  intro n
  induction n with
  | zero =>
    intro j0 σ _
    refine ⟨σ.j, ?_⟩
    have h : setCol0 σ.theCoeffs σ.i (σ.theCoeffs σ.i 0 + prodSum σ.theCoeffs σ.basis2 σ.i j0 0) = σ.theCoeffs := by
      funext k l
      unfold setCol0
      by_cases h : k = σ.i ∧ l = 0
      · rw [if_pos h, h.1, h.2]; simp [prodSum]
      · rw [if_neg h]
    rw [h]
    rfl
  | succ n ih =>
    intro j0 σ hj
    let σ1 : St := { σ with j := j0, theCoeffs := setCol0 σ.theCoeffs σ.i (σ.theCoeffs σ.i 0 + σ.theCoeffs σ.i j0 * σ.basis2 j0) }
    obtain ⟨J, hrun⟩ := ih (j0 + 1) σ1 (by omega)
    refine ⟨J, ?_⟩
    show cu_eval_spline_2d_scalar_loop2 U F n (j0 + 1) σ1 = _
    rw [hrun]
    congr 1
    show ({ σ with j := J, theCoeffs := setCol0 σ1.theCoeffs σ.i (σ1.theCoeffs σ.i 0 + prodSum σ1.theCoeffs σ.basis2 σ.i (j0 + 1) n) } : St) = _
    congr 1
    have h0 : σ1.theCoeffs σ.i 0 = σ.theCoeffs σ.i 0 + σ.theCoeffs σ.i j0 * σ.basis2 j0 := setCol0_self _ _ _
    have hrd : ∀ m, σ1.theCoeffs σ.i (j0 + 1 + m) = σ.theCoeffs σ.i (j0 + 1 + m) := fun m => setCol0_col _ _ _ _ _ (by omega)
    show setCol0 (setCol0 σ.theCoeffs σ.i _) σ.i _ = _
    unfold prodSum
    rw [setCol0_setCol0, h0, List.range_succ_eq_map]
    simp only [List.map_cons, List.sum_cons, List.map_map, Nat.add_zero, hrd]
    congr 1
    have : ((fun m => σ.theCoeffs σ.i (j0 + m) * σ.basis2 (j0 + m)) ∘ Nat.succ)
        = (fun m => σ.theCoeffs σ.i (j0 + 1 + m) * σ.basis2 (j0 + 1 + m)) := by
      funext m
      simp only [Function.comp, Nat.succ_eq_add_one]
      rw [show j0 + (m + 1) = j0 + 1 + m by omega]
    rw [this]
    ring

/-- `for i in range(4):` (first write to column 0, inner loop, `z += theCoeffs[i, 0]*basis1[i]`) started at `i0` with `n` iterations
    left: `z` grows by `Σ_m (Σ_{j < 4} theCoeffs[i0+m, j]·basis2[j])·basis1[i0+m]`, in terms of the block BEFORE the loop (iteration `i`
    overwrites `theCoeffs[i, 0]` only, and reads row `i` only) -/
theorem cu_outer_loop_eq (U : ℕ → ℚ) (F : ℕ) : ∀ (n i0 : ℕ) (σ : St),
    ∃ σ', cu_eval_spline_2d_scalar_loop1 U F n i0 σ = .ok σ' ∧
      σ'.z = σ.z + ((List.range n).map (fun m => rowDot σ.theCoeffs σ.basis2 (i0 + m) 4 * σ.basis1 (i0 + m))).sum := by
  intro n
  induction n with
  | zero => intro i0 σ; exact ⟨σ, rfl, by simp⟩
  | succ n ih =>
    intro i0 σ
    let σb : St := { σ with i := i0, theCoeffs := setCol0 σ.theCoeffs i0 (σ.theCoeffs i0 0 * σ.basis2 0) }
    obtain ⟨J, hin⟩ := cu_inner_loop_eq U F (4 - 1) 1 σb (le_refl 1)
    let T2 : ℕ → ℕ → ℚ := setCol0 σb.theCoeffs i0 (σb.theCoeffs i0 0 + prodSum σb.theCoeffs σ.basis2 i0 1 (4 - 1))
    let σ2 : St := { σb with j := J, theCoeffs := T2, z := σ.z + T2 i0 0 * σ.basis1 i0 }
    obtain ⟨σ', hrun, hz⟩ := ih (i0 + 1) σ2
    refine ⟨σ', ?_, ?_⟩
    · show (match cu_eval_spline_2d_scalar_loop2 U F (4 - 1) 1 σb with
        | .ok σ => cu_eval_spline_2d_scalar_loop1 U F n (i0 + 1) { σ with z := σ.z + σ.theCoeffs σ.i 0 * σ.basis1 σ.i }
        | .done o => .done o) = _
      rw [hin]
      exact hrun
    · rw [hz, List.range_succ_eq_map]
      simp only [List.map_cons, List.sum_cons, List.map_map, Nat.add_zero]
      have hT2 : T2 i0 0 = rowDot σ.theCoeffs σ.basis2 i0 4 := by
        show setCol0 _ i0 _ i0 0 = _
        rw [setCol0_self]
        have h0 : σb.theCoeffs i0 0 = σ.theCoeffs i0 0 * σ.basis2 0 := setCol0_self _ _ _
        have hps : prodSum σb.theCoeffs σ.basis2 i0 1 (4 - 1) = prodSum σ.theCoeffs σ.basis2 i0 1 (4 - 1) := by
          unfold prodSum
          congr 1
          apply List.map_congr_left
          intro m _
          rw [show σb.theCoeffs i0 (1 + m) = σ.theCoeffs i0 (1 + m) from setCol0_col _ _ _ _ _ (by omega)]
        rw [h0, hps]
        exact rowDot_succ _ _ _ 3
      have hrows : ∀ m, rowDot σ2.theCoeffs σ.basis2 (i0 + 1 + m) 4 = rowDot σ.theCoeffs σ.basis2 (i0 + (m + 1)) 4 := by
        intro m
        rw [show i0 + 1 + m = i0 + (m + 1) by omega]
        apply rowDot_congr
        intro j _
        show setCol0 (setCol0 σ.theCoeffs i0 _) i0 _ (i0 + (m + 1)) j = _
        rw [setCol0_row _ _ _ _ _ (by omega), setCol0_row _ _ _ _ _ (by omega)]
      show σ.z + T2 i0 0 * σ.basis1 i0 + ((List.range n).map (fun m => rowDot σ2.theCoeffs σ.basis2 (i0 + 1 + m) 4 * σ.basis1 (i0 + 1 + m))).sum = _
      rw [hT2]
      have : ((fun m => rowDot σ.theCoeffs σ.basis2 (i0 + m) 4 * σ.basis1 (i0 + m)) ∘ Nat.succ)
          = (fun m => rowDot σ2.theCoeffs σ.basis2 (i0 + 1 + m) 4 * σ.basis1 (i0 + 1 + m)) := by
        funext m
        simp only [Function.comp, Nat.succ_eq_add_one]
        rw [hrows m, show i0 + 1 + m = i0 + (m + 1) by omega]
      rw [this]
      ring

-- the loops are run by the lemmas above; from here on they are opaque to the elaborator (it would unfold the four iterations otherwise)
attribute [local irreducible] cu_eval_spline_2d_scalar_loop1 cu_eval_spline_2d_scalar_loop2

/-- the statements of `cu_eval_spline_2d_scalar` after both basis arrays have been filled, as the generated `run` has them (copied from
    Generated/Eval2DGen.lean; `gen_cu_eval_spline_2d_eq` checks by unfolding that this IS what `run` continues with) -/
def tailCu (U : ℕ → ℚ) (F : ℕ) (σ : St) : Out St :=
  let σ : St := { σ with theCoeffs := fun k_ l_ => U (k_ * (4 : Nat) + l_), theCoeffs_len0 := (4 : Nat), theCoeffs_len1 := (4 : Nat) }
  if (((Int.toNat ((σ.span1 + (1 : Int)) - (σ.span1 - σ.deg1))) = σ.theCoeffs_len0 ∨ (Int.toNat ((σ.span1 + (1 : Int)) - (σ.span1 - σ.deg1))) = 1) ∧ ((Int.toNat ((σ.span2 + (1 : Int)) - (σ.span2 - σ.deg2))) = σ.theCoeffs_len1 ∨ (Int.toNat ((σ.span2 + (1 : Int)) - (σ.span2 - σ.deg2))) = 1)) then
    let σ : St := { σ with theCoeffs := fun k_ l_ => if k_ < σ.theCoeffs_len0 ∧ l_ < σ.theCoeffs_len1 then σ.coeffs ((Int.toNat (σ.span1 - σ.deg1)) + (if (Int.toNat ((σ.span1 + (1 : Int)) - (σ.span1 - σ.deg1))) = 1 then 0 else k_)) ((Int.toNat (σ.span2 - σ.deg2)) + (if (Int.toNat ((σ.span2 + (1 : Int)) - (σ.span2 - σ.deg2))) = 1 then 0 else l_)) else σ.theCoeffs k_ l_ }
    let σ : St := { σ with z := (0 : Rat) }
    match cu_eval_spline_2d_scalar_loop1 U F ((4 : Nat) - (0 : Nat)) (0 : Nat) σ with
    | .ok σ =>
      Out.ret { σ with ret_ := σ.z }
    | .done o => o
  else
    (Out.raised "ValueError" : Out St)

/-- for `deg1 = deg2 = 3` the slice `coeffs[span1-deg1:span1+1, span2-deg2:span2+1]` has the extents 4×4 of `theCoeffs` (numpy's shape check
    passes; for any other degree the extents differ and the call raises or broadcasts): the tail returns the double sum over the block whose
    corner is `(span1-3, span2-3)` (as `Int.toNat`, in the translation and in the model alike) -/
theorem contract_tail_cu (U : ℕ → ℚ) (F : ℕ) (σ : St) (hd1 : σ.deg1 = 3) (hd2 : σ.deg2 = 3) :
    ∃ σ', tailCu U F σ = .ret σ' ∧
      σ'.ret_ = blockSum σ.coeffs (σ.span1 - 3).toNat (σ.span2 - 3).toNat 3 3 σ.basis1 σ.basis2 := by
  have hn1 : Int.toNat ((σ.span1 + 1) - (σ.span1 - σ.deg1)) = 4 := by omega
  have hn2 : Int.toNat ((σ.span2 + 1) - (σ.span2 - σ.deg2)) = 4 := by omega
  let T : ℕ → ℕ → ℚ := fun k_ l_ => if k_ < 4 ∧ l_ < 4 then
    σ.coeffs (Int.toNat (σ.span1 - σ.deg1) + (if Int.toNat ((σ.span1 + 1) - (σ.span1 - σ.deg1)) = 1 then 0 else k_))
      (Int.toNat (σ.span2 - σ.deg2) + (if Int.toNat ((σ.span2 + 1) - (σ.span2 - σ.deg2)) = 1 then 0 else l_))
    else U (k_ * 4 + l_)
  let σc : St := { σ with theCoeffs := T, theCoeffs_len0 := 4, theCoeffs_len1 := 4, z := 0 }
  obtain ⟨σ', hrun, hz⟩ := cu_outer_loop_eq U F (4 - 0) 0 σc
  refine ⟨{ σ' with ret_ := σ'.z }, ?_, ?_⟩
  · refine (if_pos ⟨Or.inl hn1, Or.inl hn2⟩).trans ?_
    show (match cu_eval_spline_2d_scalar_loop1 U F (4 - 0) 0 σc with
      | .ok σ => Out.ret { σ with ret_ := σ.z }
      | .done o => o) = _
    rw [hrun]
  · show σ'.z = _
    rw [hz]
    show (0 : ℚ) + _ = _
    rw [zero_add]
    unfold blockSum
    apply congrArg List.sum
    apply List.map_congr_left
    intro i hi
    rw [List.mem_range] at hi
    have hi : i < 4 := hi
    simp only [Nat.zero_add]
    congr 1
    unfold rowDot
    apply congrArg List.sum
    apply List.map_congr_left
    intro j hj
    rw [List.mem_range] at hj
    have hj : j < 4 := hj
    show T i j * σ.basis2 j = _
    show (if i < 4 ∧ j < 4 then _ else _) * _ = _
    rw [if_pos ⟨hi, hj⟩, if_neg (by omega), if_neg (by omega), hd1, hd2]

/-- the locals of `cu_eval_spline_2d_scalar` once both basis arrays are filled -/
def stCu (x y : ℚ) (kts1 : ℕ → ℚ) (klen1 : ℕ) (kts2 : ℕ → ℚ) (klen2 : ℕ) (c : ℕ → ℕ → ℚ) (d1 d2 : ℤ) (s1 : ℤ) (o1 : ℚ) (s2 : ℤ) (o2 : ℚ)
    (B1 B2 : ℕ → ℚ) : St :=
  { x := x, y := y, kts1 := kts1, kts1_len := klen1, deg1 := 3, kts2 := kts2, kts2_len := klen2, deg2 := 3, coeffs := c, der1 := d1, der2 := d2,
    xmin := kts1 0, xmax := kts1 1, dx := kts1 2, f_ncells_x := kts1 3, ncells_x := pyInt (kts1 3),
    ymin := kts2 0, ymax := kts2 1, dy := kts2 2, f_ncells_y := kts2 3, ncells_y := pyInt (kts2 3),
    span1 := s1, offset1 := o1, span2 := s2, offset2 := o2, basis1 := B1, basis1_len := 4, basis2 := B2, basis2_len := 4 }

/-- the model's 2-D uniform-cubic evaluation is the double sum over the 4×4 block -/
theorem cuEvalSpline2D_eq_blockSum (trunc : ℚ → ℤ) (xmin dx : ℚ) (ncx : ℤ) (ymin dy : ℚ) (ncy : ℤ) (c : ℕ → ℕ → ℚ) (x y : ℚ) (der1 der2 : Bool) :
    cuEvalSpline2D trunc xmin dx ncx ymin dy ncy c x y der1 der2 =
      blockSum c ((cuFindSpan trunc xmin dx x ncx).1 - 3).toNat ((cuFindSpan trunc ymin dy y ncy).1 - 3).toNat 3 3
        (fun i => (cuBasisOrDer (cuFindSpan trunc xmin dx x ncx).2 dx der1).getD i 0)
        (fun j => (cuBasisOrDer (cuFindSpan trunc ymin dy y ncy).2 dy der2).getD j 0) := by
  have hlen : ∀ (o d : ℚ) (der : Bool), (cuBasisOrDer o d der).length = 4 := fun o d der => by cases der <;> rfl
  unfold cuEvalSpline2D blockSum
  simp only
  have := foldl_zipIdx_eq_sum
    (fun i b => dotFrom (c (((cuFindSpan trunc xmin dx x ncx).1 - 3).toNat + i)) ((cuFindSpan trunc ymin dy y ncy).1 - 3).toNat
      (cuBasisOrDer (cuFindSpan trunc ymin dy y ncy).2 dy der2) * b)
    (cuBasisOrDer (cuFindSpan trunc xmin dx x ncx).2 dx der1) 0 0
  simp only [zero_add] at this
  rw [this, hlen]
  apply congrArg List.sum
  apply List.map_congr_left
  intro i _
  rw [dotFrom_eq_sum, hlen]

/-- **the generated `cu_eval_spline_2d_scalar` returns the model's value** `cuEvalSpline2D` (with `trunc := pyInt`: the double sum
    `Σ_i (Σ_j c[s1-3+i, s2-3+j]·B2_j)·B1_i` over the model's closed-form basis values / first derivatives, all four combinations of `der1`, `der2`),
    for every pair of 4-arrays `[xmin, xmax, dx, ncells]`, every coefficient array and every content `U` of the uninitialised arrays.
    Guard: `deg1 = deg2 = 3` (the source takes the extents of the slice from `deg1`, `deg2` but those of `theCoeffs` and of the loops from the
    literal 4: for any other degree numpy's shape check fails or broadcasts).  The corner of the block is `Int.toNat (span - 3)` in the
    translation and in the model alike, so the equality needs no guard on the span; it is what PYTHON computes for `3 ≤ span` in both
    directions (a point not left of the domain: `x ≥ xmin`, `y ≥ ymin`) — negative slice bounds are not modelled (header of the generated file) -/
theorem gen_cu_eval_spline_2d_eq (U : ℕ → ℚ) (F : ℕ) (x y : ℚ) (kts1 : ℕ → ℚ) (klen1 : ℕ) (kts2 : ℕ → ℚ) (klen2 : ℕ) (c : ℕ → ℕ → ℚ)
    (der1 der2 : Bool) :
    ∃ σ', run U F x y kts1 klen1 3 kts2 klen2 3 c (if der1 then 1 else 0) (if der2 then 1 else 0) = .ret σ' ∧
      σ'.ret_ = cuEvalSpline2D pyInt (kts1 0) (kts1 2) (pyInt (kts1 3)) (kts2 0) (kts2 2) (pyInt (kts2 3)) c x y der1 der2 := by
  obtain ⟨τ1, hτ1, hp1⟩ := C07Gen3.gen_cu_find_span_eq U F (kts1 0) (kts1 1) (kts1 2) x (pyInt (kts1 3))
  obtain ⟨τ2, hτ2, hp2⟩ := C07Gen3.gen_cu_find_span_eq U F (kts2 0) (kts2 1) (kts2 2) y (pyInt (kts2 3))
  have h10 : τ1.ret0_ = (cuFindSpan pyInt (kts1 0) (kts1 2) x (pyInt (kts1 3))).1 := congrArg Prod.fst hp1
  have h11 : τ1.ret1_ = (cuFindSpan pyInt (kts1 0) (kts1 2) x (pyInt (kts1 3))).2 := congrArg Prod.snd hp1
  have h20 : τ2.ret0_ = (cuFindSpan pyInt (kts2 0) (kts2 2) y (pyInt (kts2 3))).1 := congrArg Prod.fst hp2
  have h21 : τ2.ret1_ = (cuFindSpan pyInt (kts2 0) (kts2 2) y (pyInt (kts2 3))).2 := congrArg Prod.snd hp2
  rw [cuEvalSpline2D_eq_blockSum, ← h10, ← h11, ← h20, ← h21]
  have key : ∀ (d1 d2 : ℤ) (B1 B2 : ℕ → ℚ),
      (List.range 4).map B1 = cuBasisOrDer τ1.ret1_ (kts1 2) der1 → (List.range 4).map B2 = cuBasisOrDer τ2.ret1_ (kts2 2) der2 →
      ∃ σ', tailCu U F (stCu x y kts1 klen1 kts2 klen2 c d1 d2 τ1.ret0_ τ1.ret1_ τ2.ret0_ τ2.ret1_ B1 B2) = .ret σ' ∧
        σ'.ret_ = blockSum c (τ1.ret0_ - 3).toNat (τ2.ret0_ - 3).toNat 3 3 (fun i => (cuBasisOrDer τ1.ret1_ (kts1 2) der1).getD i 0)
          (fun j => (cuBasisOrDer τ2.ret1_ (kts2 2) der2).getD j 0) := fun d1 d2 B1 B2 hB1 hB2 => by
    obtain ⟨σ', hrun, hret⟩ := contract_tail_cu U F (stCu x y kts1 klen1 kts2 klen2 c d1 d2 τ1.ret0_ τ1.ret1_ τ2.ret0_ τ2.ret1_ B1 B2)
      rfl rfl
    refine ⟨σ', hrun, ?_⟩
    rw [hret]
    apply blockSum_congr
    · intro i hi
      show B1 i = _
      rw [← hB1, getD_map_range', if_pos (by omega)]
    · intro j hj
      show B2 j = _
      rw [← hB2, getD_map_range', if_pos (by omega)]
  cases der1 <;> cases der2
  · obtain ⟨β1, hβ1, hv1, -⟩ := C07Gen3.gen_cu_basis_funs_eq U F τ1.ret0_ τ1.ret1_ U 4
    obtain ⟨β2, hβ2, hv2, -⟩ := C07Gen3.gen_cu_basis_funs_eq U F τ2.ret0_ τ2.ret1_ U 4
    obtain ⟨σ', hrun, hret⟩ := key 0 0 β1.values β2.values hv1 hv2
    refine ⟨σ', ?_, hret⟩
    show run U F x y kts1 klen1 3 kts2 klen2 3 c 0 0 = _
    unfold run
    simp +decide only [hτ1, hτ2, hβ1, hβ2, ↓reduceIte]
    exact hrun
  · obtain ⟨β1, hβ1, hv1, -⟩ := C07Gen3.gen_cu_basis_funs_eq U F τ1.ret0_ τ1.ret1_ U 4
    obtain ⟨β2, hβ2, hv2, -⟩ := C07Gen3.gen_cu_basis_funs_1st_der_eq U F τ2.ret0_ τ2.ret1_ (kts2 2) U 4
    obtain ⟨σ', hrun, hret⟩ := key 0 1 β1.values β2.ders hv1 hv2
    refine ⟨σ', ?_, hret⟩
    show run U F x y kts1 klen1 3 kts2 klen2 3 c 0 1 = _
    unfold run
    simp +decide only [hτ1, hτ2, hβ1, hβ2, ↓reduceIte]
    exact hrun
  · obtain ⟨β1, hβ1, hv1, -⟩ := C07Gen3.gen_cu_basis_funs_1st_der_eq U F τ1.ret0_ τ1.ret1_ (kts1 2) U 4
    obtain ⟨β2, hβ2, hv2, -⟩ := C07Gen3.gen_cu_basis_funs_eq U F τ2.ret0_ τ2.ret1_ U 4
    obtain ⟨σ', hrun, hret⟩ := key 1 0 β1.ders β2.values hv1 hv2
    refine ⟨σ', ?_, hret⟩
    show run U F x y kts1 klen1 3 kts2 klen2 3 c 1 0 = _
    unfold run
    simp +decide only [hτ1, hτ2, hβ1, hβ2, ↓reduceIte]
    exact hrun
  · obtain ⟨β1, hβ1, hv1, -⟩ := C07Gen3.gen_cu_basis_funs_1st_der_eq U F τ1.ret0_ τ1.ret1_ (kts1 2) U 4
    obtain ⟨β2, hβ2, hv2, -⟩ := C07Gen3.gen_cu_basis_funs_1st_der_eq U F τ2.ret0_ τ2.ret1_ (kts2 2) U 4
    obtain ⟨σ', hrun, hret⟩ := key 1 1 β1.ders β2.ders hv1 hv2
    refine ⟨σ', ?_, hret⟩
    show run U F x y kts1 klen1 3 kts2 klen2 3 c 1 1 = _
    unfold run
    simp +decide only [hτ1, hτ2, hβ1, hβ2, ↓reduceIte]
    exact hrun

/-- **on the closed domain the SOURCE's 2-D uniform-cubic evaluation returns the value of the general path**: for 4-arrays
    `[xmin, xmax, dx, ncells]` with `dx, dy > 0`, at least one cell, and `(x, y)` in the closed rectangle (right end points included), the generated
    `cu_eval_spline_2d_scalar` returns `evalSpline2D` (the model `gen_eval_spline_2d_model` ties to `nu_eval_spline_2d_scalar`) on the uniform
    knot vectors `xmin + (i-3)·dx`, `ymin + (j-3)·dy`, for all four combinations of value / first derivative -/
theorem gen_cu_eval_2d_eq_general_path (U : ℕ → ℚ) (F : ℕ) (x y : ℚ) (kts1 : ℕ → ℚ) (klen1 : ℕ) (kts2 : ℕ → ℚ) (klen2 : ℕ) (c : ℕ → ℕ → ℚ)
    (der1 der2 : Bool) (ncx ncy : ℕ) (hkx : kts1 3 = (ncx : ℚ)) (hky : kts2 3 = (ncy : ℚ)) (hdx : 0 < kts1 2) (hdy : 0 < kts2 2)
    (hnx : 1 ≤ ncx) (hny : 1 ≤ ncy) (hx1 : kts1 0 ≤ x) (hx2 : x ≤ kts1 0 + (ncx : ℚ) * kts1 2)
    (hy1 : kts2 0 ≤ y) (hy2 : y ≤ kts2 0 + (ncy : ℚ) * kts2 2) :
    ∃ σ', run U F x y kts1 klen1 3 kts2 klen2 3 c (if der1 then 1 else 0) (if der2 then 1 else 0) = .ret σ' ∧
      evalSpline2D (uniformKnots (kts1 0) (kts1 2)) (ncx + 7) 3 (uniformKnots (kts2 0) (kts2 2)) (ncy + 7) 3 c x y der1 der2 = some σ'.ret_ := by
  obtain ⟨σ', hrun, hret⟩ := gen_cu_eval_spline_2d_eq U F x y kts1 klen1 kts2 klen2 c der1 der2
  refine ⟨σ', hrun, ?_⟩
  rw [hret, hkx, hky, C07Gen3.pyInt_natCast, C07Gen3.pyInt_natCast]
  exact C07.cubic_path_eq_general_path_2d pyInt C07Gen3.pyInt_spec (kts1 0) (kts1 2) x hdx ncx hnx hx1 hx2 (kts2 0) (kts2 2) y hdy ncy hny
    hy1 hy2 c der1 der2

/-! concrete instance: direction 1 = `[0, 2, 1/2, 4]` (`C07Gen3.cKnots`: four cells of width 1/2), `x = 5/4`; direction 2 = `[1, 7, 2, 3]` (three cells of
    width 2 on [1, 7]), `y = 7` (the right end point: `span == ncells` branch); a 7×6 coefficient array; uninitialised memory holds 7 -/
def cuKts2 : ℕ → ℚ := fun i => ([1, 7, 2, 3] : List ℚ).getD i 0
def cuCoeffs2 : ℕ → ℕ → ℚ := fun i j => (i : ℚ) * i - 2 * j + (i : ℚ) * j * j / 3

example (der1 der2 : Bool) : ∃ σ', run (fun _ => 7) 0 (5 / 4) 7 C07Gen3.cKnots 4 3 cuKts2 4 3 cuCoeffs2 (if der1 then 1 else 0) (if der2 then 1 else 0) = .ret σ' ∧
    σ'.ret_ = cuEvalSpline2D pyInt (C07Gen3.cKnots 0) (C07Gen3.cKnots 2) (pyInt (C07Gen3.cKnots 3)) (cuKts2 0) (cuKts2 2) (pyInt (cuKts2 3))
      cuCoeffs2 (5 / 4) 7 der1 der2 :=
  gen_cu_eval_spline_2d_eq (fun _ => 7) 0 (5 / 4) 7 C07Gen3.cKnots 4 cuKts2 4 cuCoeffs2 der1 der2
example (der1 der2 : Bool) (x y : ℚ) (hx1 : 0 ≤ x) (hx2 : x ≤ 2) (hy1 : 1 ≤ y) (hy2 : y ≤ 7) :
    ∃ σ', run (fun _ => 7) 0 x y C07Gen3.cKnots 4 3 cuKts2 4 3 cuCoeffs2 (if der1 then 1 else 0) (if der2 then 1 else 0) = .ret σ' ∧
      evalSpline2D (uniformKnots 0 (1 / 2)) (4 + 7) 3 (uniformKnots 1 2) (3 + 7) 3 cuCoeffs2 x y der1 der2 = some σ'.ret_ := by
  have h := gen_cu_eval_2d_eq_general_path (fun _ => 7) 0 x y C07Gen3.cKnots 4 cuKts2 4 cuCoeffs2 der1 der2 4 3 (by norm_num [C07Gen3.cKnots])
    (by norm_num [cuKts2]) (by norm_num [C07Gen3.cKnots]) (by norm_num [cuKts2]) (by norm_num) (by norm_num)
    (by simpa [C07Gen3.cKnots] using hx1) (by norm_num [C07Gen3.cKnots]; linarith) (by simpa [cuKts2] using hy1) (by norm_num [cuKts2]; linarith)
  simpa [C07Gen3.cKnots, cuKts2] using h
/-- the generated code itself, evaluated on the instance for the four combinations (der1, der2), against the model evaluated there -/
example : ([(0, 0), (0, 1), (1, 0), (1, 1)].map fun d : ℤ × ℤ =>
      match run (fun _ => 7) 0 (5 / 4) 7 C07Gen3.cKnots 4 3 cuKts2 4 3 cuCoeffs2 d.1 d.2 with
      | .ret σ => some σ.ret_ | _ => none) =
    [(false, false), (false, true), (true, false), (true, true)].map fun d : Bool × Bool =>
      some (cuEvalSpline2D pyInt 0 (1 / 2) 4 1 2 3 cuCoeffs2 (5 / 4) 7 d.1 d.2) := by decide +kernel
/-- … and the numbers (floats of /repo: 23.6388…, 3.6666…, 24.8888…, 2.6666…) -/
example : ([(0, 0), (0, 1), (1, 0), (1, 1)].map fun d : ℤ × ℤ =>
      match run (fun _ => 7) 0 (5 / 4) 7 C07Gen3.cKnots 4 3 cuKts2 4 3 cuCoeffs2 d.1 d.2 with
      | .ret σ => some σ.ret_ | _ => none) = [some (851 / 36), some (11 / 3), some (224 / 9), some (8 / 3)] := by decide +kernel
/-- numpy's shape check: with `deg1 = 2` the slice has 3 rows, `theCoeffs` has 4: the generated function raises, as Python does -/
example : (match run (fun _ => 7) 0 (5 / 4) 7 C07Gen3.cKnots 4 2 cuKts2 4 3 cuCoeffs2 0 0 with
    | .raised e => e | _ => "") = "ValueError" := by decide +kernel

end Cu

end PygyroVerif.C07Gen5
