/-
C12, tie by translation: the kernel `general_poloidal_advection_step_expl` (explicit second-order scheme of the poloidal advection).
`Generated/PolExplGen.lean` is REGENERATED on every run of `./check C12` from pygyro/advection/accelerated_advection_steps.py
(harness/translate_pure.py, target `polexpl`: six `for` loops = structurally recursive functions over the record of all locals; 2-D arrays
= functions `ℕ → ℕ → ℚ`; `a % b` on floats = `pyMod a b = a - b*⌊a/b⌋`; `pi` (from `from numpy import pi`) a parameter; the function
parameters `eval_spline_2d_scalar`, `eval_spline_2d_cross` and the imported `f_eq` UNINTERPRETED functions of their arguments — the
procedure `eval_spline_2d_cross` as "the output array := g(arguments)").

This file proves that the generated function computes what the hand-written model (Model/PolAdv.lean: `explFoot` — the foot by Heun's
predictor / corrector, about which `C12.pol_heun_formula` speaks — and `finalVal` — spline value or boundary value, `C12.pol_boundary_rule`)
prescribes, for every node: `gen_pol_expl_eq`.  Correspondence of the abstractions (stated in the theorem):
  * the model's record `Evals` is instantiated with the uninterpreted functions of the source: `drPhi q r` / `dqPhi q r` / `fhat q r` =
    `eval_spline_2d_scalar(q, r, kts1Phi, deg1Phi, kts2Phi, deg2Phi, coeffsPhi, 0, 1)` / `(…, 1, 0)` / `(…Pol…, 0, 0)` and
    `wrap x = pyMod x (2*pi)` (`evalsOf`); `pyMod x p` is the model's `pmod p x` (`pyMod_eq_pmod`);
  * the model takes the node values of the derivatives of phi from the same evaluator; the source takes them from the two tables
    `eval_spline_2d_cross` fills.  CONTRACT (hypothesis `hcross`, cf. C07 `entrypoints`): at every node `(i, j)` inside the box the table
    entry equals the scalar evaluation at `(qPts[i], rPts[j])`;
  * a value `Val.feq r v` of the model is read as the call `f_eq(r, v, CN0, kN0, deltaRN0, rp, CTi, kTi, deltaRTi)` (`interp`), `Val.num x` as `x`;
  * `Params` = `mkParams dt B0 v rPts len(rPts) nulBound` (`rMin = rPts[0]`, `rMax = rPts[len(rPts)-1]`).
No guard on the data is needed (division by zero is 0 on both sides; `pi` is arbitrary).  Entries of `f` outside the box
`len(qPts) × len(rPts)` are untouched; the previous contents of `f` and of the eight work arrays have no influence inside the box.
-/
import PygyroVerif.Generated.PolExplGen
import PygyroVerif.Props.C12
import Mathlib.Data.Rat.Floor

set_option linter.unusedSimpArgs false

namespace PygyroVerif.C12Gen
open PygyroVerif PygyroVerif.VParAdv PygyroVerif.PolAdv
open PygyroVerif.Gen.PolExpl PygyroVerif.Gen.PolExpl.general_poloidal_advection_step_expl_

/-! ## what the loops read and never write -/

/-- the quantities the six loops read and never write, with the uninterpreted functions applied to their constant arguments -/
structure Consts where
  /-- `eval_spline_2d_scalar(q, r, kts1Phi, deg1Phi, kts2Phi, deg2Phi, coeffsPhi, 0, 1)` -/
  drS : ℚ → ℚ → ℚ
  /-- `eval_spline_2d_scalar(q, r, kts1Phi, deg1Phi, kts2Phi, deg2Phi, coeffsPhi, 1, 0)` -/
  dqS : ℚ → ℚ → ℚ
  /-- `eval_spline_2d_scalar(q, r, kts1Pol, deg1Pol, kts2Pol, deg2Pol, coeffsPol, 0, 0)` -/
  fS : ℚ → ℚ → ℚ
  /-- `f_eq(r, v, CN0, kN0, deltaRN0, rp, CTi, kTi, deltaRTi)` -/
  feq : ℚ → ℚ → ℚ
  v : ℚ
  pi : ℚ
  mf : ℚ
  mfh : ℚ
  rMax : ℚ
  rPts : ℕ → ℚ
  qPts : ℕ → ℚ
  nr : ℕ
  nq : ℕ
  nul : Bool

def consts (σ : St) : Consts where
  drS := fun q r => σ.eval_spline_2d_scalar q r σ.kts1Phi σ.kts1Phi_len σ.deg1Phi σ.kts2Phi σ.kts2Phi_len σ.deg2Phi σ.coeffsPhi
    σ.coeffsPhi_len0 σ.coeffsPhi_len1 0 1
  dqS := fun q r => σ.eval_spline_2d_scalar q r σ.kts1Phi σ.kts1Phi_len σ.deg1Phi σ.kts2Phi σ.kts2Phi_len σ.deg2Phi σ.coeffsPhi
    σ.coeffsPhi_len0 σ.coeffsPhi_len1 1 0
  fS := fun q r => σ.eval_spline_2d_scalar q r σ.kts1Pol σ.kts1Pol_len σ.deg1Pol σ.kts2Pol σ.kts2Pol_len σ.deg2Pol σ.coeffsPol
    σ.coeffsPol_len0 σ.coeffsPol_len1 0 0
  feq := fun r v => σ.f_eq r v σ.CN0 σ.kN0 σ.deltaRN0 σ.rp σ.CTi σ.kTi σ.deltaRTi
  v := σ.v
  pi := σ.pi
  mf := σ.multFactor
  mfh := σ.multFactor_half
  rMax := σ.rMax
  rPts := σ.rPts
  qPts := σ.qPts
  nr := σ.nPts_r
  nq := σ.nPts_q
  nul := σ.nulBound

/-- `(endPts_k2_q, endPts_k2_r)` as the first double loop computes them at a node `(q, r)` whose entries of the tables `drPhi_0`,
    `dthetaPhi_0` are `d0`, `t0` (before the division by `r`) -/
def footGen (c : Consts) (d0 t0 q r : ℚ) : ℚ × ℚ :=
  (pyMod (q - (d0 / r + (if ¬ (r + t0 / r * c.mf < c.rPts 0 ∨ r + t0 / r * c.mf > c.rMax) then
      c.drS (pyMod (q - d0 / r * c.mf) (2 * c.pi)) (r + t0 / r * c.mf) / (r + t0 / r * c.mf) else 0)) * c.mfh) (2 * c.pi),
   r + (t0 / r + (if ¬ (r + t0 / r * c.mf < c.rPts 0 ∨ r + t0 / r * c.mf > c.rMax) then
      c.dqS (pyMod (q - d0 / r * c.mf) (2 * c.pi)) (r + t0 / r * c.mf) / (r + t0 / r * c.mf) else 0)) * c.mfh)

/-- the value the second double loop stores for the foot `(fq, fr)` -/
def finalGen (c : Consts) (fq fr : ℚ) : ℚ :=
  if fr < c.rPts 0 then (if c.nul = true then 0 else c.feq (c.rPts 0) c.v)
  else if fr > c.rMax then (if c.nul = true then 0 else c.feq fr c.v)
  else c.fS (pyMod fq (2 * c.pi)) fr

/-! ## one iteration of each inner loop (transcribed from the generated file; `…_succ` checks the transcription by unfolding) -/

/-- first part of one iteration of the inner loop of the first double loop (node `(σ.i, i)`): the six statements before the `if`
    (transcribed from the generated `…_loop2`) -/
def pre2 (σ : St) (i : ℕ) : St :=
  let σ : St := { σ with j := i }
  let σ : St := { σ with drPhi_0 := fun k_ l_ => if k_ = σ.i ∧ l_ = σ.j then ((σ.drPhi_0 σ.i σ.j) / (σ.rPts σ.j)) else σ.drPhi_0 k_ l_ }
  let σ : St := { σ with dthetaPhi_0 := fun k_ l_ => if k_ = σ.i ∧ l_ = σ.j then ((σ.dthetaPhi_0 σ.i σ.j) / (σ.rPts σ.j)) else σ.dthetaPhi_0 k_ l_ }
  let σ : St := { σ with endPts_k1_q := fun k_ l_ => if k_ = σ.i ∧ l_ = σ.j then ((σ.qPts σ.i) - ((σ.drPhi_0 σ.i σ.j) * σ.multFactor)) else σ.endPts_k1_q k_ l_ }
  let σ : St := { σ with endPts_k1_r := fun k_ l_ => if k_ = σ.i ∧ l_ = σ.j then ((σ.rPts σ.j) + ((σ.dthetaPhi_0 σ.i σ.j) * σ.multFactor)) else σ.endPts_k1_r k_ l_ }
  let σ : St := { σ with endPts_k1_q := fun k_ l_ => if k_ = σ.i ∧ l_ = σ.j then (pyMod (σ.endPts_k1_q σ.i σ.j) ((2 : Rat) * σ.pi)) else σ.endPts_k1_q k_ l_ }
  σ

/-- the branch "predictor inside the radial domain" and the two statements after the `if` -/
def then2 (σ : St) : St :=
  let σ : St := { σ with drPhi_k := fun k_ l_ => if k_ = σ.i ∧ l_ = σ.j then (σ.eval_spline_2d_scalar (σ.endPts_k1_q σ.i σ.j) (σ.endPts_k1_r σ.i σ.j) σ.kts1Phi σ.kts1Phi_len σ.deg1Phi σ.kts2Phi σ.kts2Phi_len σ.deg2Phi σ.coeffsPhi σ.coeffsPhi_len0 σ.coeffsPhi_len1 (0 : Nat) (1 : Nat)) else σ.drPhi_k k_ l_ }
  let σ : St := { σ with drPhi_k := fun k_ l_ => if k_ = σ.i ∧ l_ = σ.j then ((σ.drPhi_k σ.i σ.j) / (σ.endPts_k1_r σ.i σ.j)) else σ.drPhi_k k_ l_ }
  let σ : St := { σ with dthetaPhi_k := fun k_ l_ => if k_ = σ.i ∧ l_ = σ.j then (σ.eval_spline_2d_scalar (σ.endPts_k1_q σ.i σ.j) (σ.endPts_k1_r σ.i σ.j) σ.kts1Phi σ.kts1Phi_len σ.deg1Phi σ.kts2Phi σ.kts2Phi_len σ.deg2Phi σ.coeffsPhi σ.coeffsPhi_len0 σ.coeffsPhi_len1 (1 : Nat) (0 : Nat)) else σ.dthetaPhi_k k_ l_ }
  let σ : St := { σ with dthetaPhi_k := fun k_ l_ => if k_ = σ.i ∧ l_ = σ.j then ((σ.dthetaPhi_k σ.i σ.j) / (σ.endPts_k1_r σ.i σ.j)) else σ.dthetaPhi_k k_ l_ }
  let σ : St := { σ with endPts_k2_q := fun k_ l_ => if k_ = σ.i ∧ l_ = σ.j then (pyMod ((σ.qPts σ.i) - (((σ.drPhi_0 σ.i σ.j) + (σ.drPhi_k σ.i σ.j)) * σ.multFactor_half)) ((2 : Rat) * σ.pi)) else σ.endPts_k2_q k_ l_ }
  let σ : St := { σ with endPts_k2_r := fun k_ l_ => if k_ = σ.i ∧ l_ = σ.j then ((σ.rPts σ.j) + (((σ.dthetaPhi_0 σ.i σ.j) + (σ.dthetaPhi_k σ.i σ.j)) * σ.multFactor_half)) else σ.endPts_k2_r k_ l_ }
  σ

/-- the branch "predictor outside" and the two statements after the `if` -/
def else2 (σ : St) : St :=
  let σ : St := { σ with drPhi_k := fun k_ l_ => if k_ = σ.i ∧ l_ = σ.j then (0 : Rat) else σ.drPhi_k k_ l_ }
  let σ : St := { σ with dthetaPhi_k := fun k_ l_ => if k_ = σ.i ∧ l_ = σ.j then (0 : Rat) else σ.dthetaPhi_k k_ l_ }
  let σ : St := { σ with endPts_k2_q := fun k_ l_ => if k_ = σ.i ∧ l_ = σ.j then (pyMod ((σ.qPts σ.i) - (((σ.drPhi_0 σ.i σ.j) + (σ.drPhi_k σ.i σ.j)) * σ.multFactor_half)) ((2 : Rat) * σ.pi)) else σ.endPts_k2_q k_ l_ }
  let σ : St := { σ with endPts_k2_r := fun k_ l_ => if k_ = σ.i ∧ l_ = σ.j then ((σ.rPts σ.j) + (((σ.dthetaPhi_0 σ.i σ.j) + (σ.dthetaPhi_k σ.i σ.j)) * σ.multFactor_half)) else σ.endPts_k2_r k_ l_ }
  σ

/-- the condition of the `if`: the predictor `endPts_k1_r[i, j]` lies in `[rPts[0], rMax]` -/
def cond2 (σ : St) : Prop := (¬ (((σ.endPts_k1_r σ.i σ.j) < (σ.rPts (0 : Nat))) ∨ ((σ.endPts_k1_r σ.i σ.j) > σ.rMax)))

instance (σ : St) : Decidable (cond2 σ) := by unfold cond2; infer_instance

/-- one iteration of the inner loop of the first double loop -/
def body2 (σ : St) (i : ℕ) : St :=
  if cond2 (pre2 σ i) then then2 (pre2 σ i) else else2 (pre2 σ i)

/-- one iteration of the inner loop under `nulBound` (value at the foot of node `(σ.i, i)`): the statements of the generated `…_loop4`, the recursive call replaced by the state -/
def body4 (σ : St) (i : ℕ) : St :=
  let σ : St := { σ with j := i }
  if ((σ.endPts_k2_r σ.i σ.j) < (σ.rPts (0 : Nat))) then
    let σ : St := { σ with f := fun k_ l_ => if k_ = σ.i ∧ l_ = σ.j then (0 : Rat) else σ.f k_ l_ }
    σ
  else
    if ((σ.endPts_k2_r σ.i σ.j) > σ.rMax) then
      let σ : St := { σ with f := fun k_ l_ => if k_ = σ.i ∧ l_ = σ.j then (0 : Rat) else σ.f k_ l_ }
      σ
    else
      let σ : St := { σ with endPts_k2_q := fun k_ l_ => if k_ = σ.i ∧ l_ = σ.j then (pyMod (σ.endPts_k2_q σ.i σ.j) ((2 : Rat) * σ.pi)) else σ.endPts_k2_q k_ l_ }
      let σ : St := { σ with f := fun k_ l_ => if k_ = σ.i ∧ l_ = σ.j then (σ.eval_spline_2d_scalar (σ.endPts_k2_q σ.i σ.j) (σ.endPts_k2_r σ.i σ.j) σ.kts1Pol σ.kts1Pol_len σ.deg1Pol σ.kts2Pol σ.kts2Pol_len σ.deg2Pol σ.coeffsPol σ.coeffsPol_len0 σ.coeffsPol_len1 (0 : Nat) (0 : Nat)) else σ.f k_ l_ }
      σ

/-- one iteration of the inner loop under `not nulBound`: the statements of the generated `…_loop6`, the recursive call replaced by the state -/
def body6 (σ : St) (i : ℕ) : St :=
  let σ : St := { σ with j := i }
  if ((σ.endPts_k2_r σ.i σ.j) < (σ.rPts (0 : Nat))) then
    let σ : St := { σ with f := fun k_ l_ => if k_ = σ.i ∧ l_ = σ.j then (σ.f_eq (σ.rPts (0 : Nat)) σ.v σ.CN0 σ.kN0 σ.deltaRN0 σ.rp σ.CTi σ.kTi σ.deltaRTi) else σ.f k_ l_ }
    σ
  else
    if ((σ.endPts_k2_r σ.i σ.j) > σ.rMax) then
      let σ : St := { σ with f := fun k_ l_ => if k_ = σ.i ∧ l_ = σ.j then (σ.f_eq (σ.endPts_k2_r σ.i σ.j) σ.v σ.CN0 σ.kN0 σ.deltaRN0 σ.rp σ.CTi σ.kTi σ.deltaRTi) else σ.f k_ l_ }
      σ
    else
      let σ : St := { σ with endPts_k2_q := fun k_ l_ => if k_ = σ.i ∧ l_ = σ.j then (pyMod (σ.endPts_k2_q σ.i σ.j) ((2 : Rat) * σ.pi)) else σ.endPts_k2_q k_ l_ }
      let σ : St := { σ with f := fun k_ l_ => if k_ = σ.i ∧ l_ = σ.j then (σ.eval_spline_2d_scalar (σ.endPts_k2_q σ.i σ.j) (σ.endPts_k2_r σ.i σ.j) σ.kts1Pol σ.kts1Pol_len σ.deg1Pol σ.kts2Pol σ.kts2Pol_len σ.deg2Pol σ.coeffsPol σ.coeffsPol_len0 σ.coeffsPol_len1 (0 : Nat) (0 : Nat)) else σ.f k_ l_ }
      σ


theorem loop2_succ (U : ℕ → ℚ) (F n i : ℕ) (σ : St) :
    general_poloidal_advection_step_expl_loop2 U F (n + 1) i σ = general_poloidal_advection_step_expl_loop2 U F n (i + 1) (body2 σ i) := by
  rw [general_poloidal_advection_step_expl_loop2]
  unfold body2 cond2 then2 else2 pre2
  exact (apply_ite _ _ _ _).symm

theorem loop4_succ (U : ℕ → ℚ) (F n i : ℕ) (σ : St) :
    general_poloidal_advection_step_expl_loop4 U F (n + 1) i σ = general_poloidal_advection_step_expl_loop4 U F n (i + 1) (body4 σ i) := by
  rw [general_poloidal_advection_step_expl_loop4]
  unfold body4
  dsimp only
  split
  · rfl
  · split <;> rfl

theorem loop6_succ (U : ℕ → ℚ) (F n i : ℕ) (σ : St) :
    general_poloidal_advection_step_expl_loop6 U F (n + 1) i σ = general_poloidal_advection_step_expl_loop6 U F n (i + 1) (body6 σ i) := by
  rw [general_poloidal_advection_step_expl_loop6]
  unfold body6
  dsimp only
  split
  · rfl
  · split <;> rfl

/-! ### what one iteration does to the fields the proof follows -/

theorem pre2_consts (σ : St) (j : ℕ) : consts (pre2 σ j) = consts σ := rfl
theorem pre2_i (σ : St) (j : ℕ) : (pre2 σ j).i = σ.i := rfl
theorem pre2_j (σ : St) (j : ℕ) : (pre2 σ j).j = j := rfl
theorem pre2_f (σ : St) (j : ℕ) : (pre2 σ j).f = σ.f := rfl
theorem pre2_k2q (σ : St) (j : ℕ) : (pre2 σ j).endPts_k2_q = σ.endPts_k2_q := rfl
theorem pre2_k2r (σ : St) (j : ℕ) : (pre2 σ j).endPts_k2_r = σ.endPts_k2_r := rfl
theorem pre2_dr (σ : St) (j a b : ℕ) : (pre2 σ j).drPhi_0 a b = if a = σ.i ∧ b = j then σ.drPhi_0 σ.i j / σ.rPts j else σ.drPhi_0 a b := rfl
theorem pre2_dq (σ : St) (j a b : ℕ) : (pre2 σ j).dthetaPhi_0 a b = if a = σ.i ∧ b = j then σ.dthetaPhi_0 σ.i j / σ.rPts j else σ.dthetaPhi_0 a b := rfl
theorem pre2_k1r (σ : St) (j : ℕ) : (pre2 σ j).endPts_k1_r σ.i j = σ.rPts j + σ.dthetaPhi_0 σ.i j / σ.rPts j * σ.multFactor := by
  show (if σ.i = σ.i ∧ j = j then σ.rPts j + (if σ.i = σ.i ∧ j = j then σ.dthetaPhi_0 σ.i j / σ.rPts j else σ.dthetaPhi_0 σ.i j) * σ.multFactor
    else σ.endPts_k1_r σ.i j) = _
  rw [if_pos ⟨rfl, rfl⟩, if_pos ⟨rfl, rfl⟩]
theorem pre2_k1q (σ : St) (j : ℕ) : (pre2 σ j).endPts_k1_q σ.i j = pyMod (σ.qPts σ.i - σ.drPhi_0 σ.i j / σ.rPts j * σ.multFactor) (2 * σ.pi) := by
  show (if σ.i = σ.i ∧ j = j then pyMod (if σ.i = σ.i ∧ j = j then σ.qPts σ.i - (if σ.i = σ.i ∧ j = j then σ.drPhi_0 σ.i j / σ.rPts j else σ.drPhi_0 σ.i j) * σ.multFactor
    else σ.endPts_k1_q σ.i j) (2 * σ.pi) else _) = _
  rw [if_pos ⟨rfl, rfl⟩, if_pos ⟨rfl, rfl⟩, if_pos ⟨rfl, rfl⟩]

theorem then2_consts (τ : St) : consts (then2 τ) = consts τ := rfl
theorem then2_i (τ : St) : (then2 τ).i = τ.i := rfl
theorem then2_f (τ : St) : (then2 τ).f = τ.f := rfl
theorem then2_dr (τ : St) : (then2 τ).drPhi_0 = τ.drPhi_0 := rfl
theorem then2_dq (τ : St) : (then2 τ).dthetaPhi_0 = τ.dthetaPhi_0 := rfl
theorem else2_consts (τ : St) : consts (else2 τ) = consts τ := rfl
theorem else2_i (τ : St) : (else2 τ).i = τ.i := rfl
theorem else2_f (τ : St) : (else2 τ).f = τ.f := rfl
theorem else2_dr (τ : St) : (else2 τ).drPhi_0 = τ.drPhi_0 := rfl
theorem else2_dq (τ : St) : (else2 τ).dthetaPhi_0 = τ.dthetaPhi_0 := rfl

theorem then2_k2q (τ : St) (a b : ℕ) : (then2 τ).endPts_k2_q a b =
    if a = τ.i ∧ b = τ.j then pyMod ((consts τ).qPts τ.i - (τ.drPhi_0 τ.i τ.j
      + (consts τ).drS (τ.endPts_k1_q τ.i τ.j) (τ.endPts_k1_r τ.i τ.j) / τ.endPts_k1_r τ.i τ.j) * (consts τ).mfh) (2 * (consts τ).pi)
    else τ.endPts_k2_q a b := by
  unfold then2
  simp only [consts, eq_self, and_self, if_true]
theorem then2_k2r (τ : St) (a b : ℕ) : (then2 τ).endPts_k2_r a b =
    if a = τ.i ∧ b = τ.j then (consts τ).rPts τ.j + (τ.dthetaPhi_0 τ.i τ.j
      + (consts τ).dqS (τ.endPts_k1_q τ.i τ.j) (τ.endPts_k1_r τ.i τ.j) / τ.endPts_k1_r τ.i τ.j) * (consts τ).mfh
    else τ.endPts_k2_r a b := by
  unfold then2
  simp only [consts, eq_self, and_self, if_true]
theorem else2_k2q (τ : St) (a b : ℕ) : (else2 τ).endPts_k2_q a b =
    if a = τ.i ∧ b = τ.j then pyMod ((consts τ).qPts τ.i - (τ.drPhi_0 τ.i τ.j + 0) * (consts τ).mfh) (2 * (consts τ).pi)
    else τ.endPts_k2_q a b := by
  unfold else2
  simp only [consts, eq_self, and_self, if_true]
theorem else2_k2r (τ : St) (a b : ℕ) : (else2 τ).endPts_k2_r a b =
    if a = τ.i ∧ b = τ.j then (consts τ).rPts τ.j + (τ.dthetaPhi_0 τ.i τ.j + 0) * (consts τ).mfh
    else τ.endPts_k2_r a b := by
  unfold else2
  simp only [consts, eq_self, and_self, if_true]

theorem cond2_pre2 (σ : St) (j : ℕ) : cond2 (pre2 σ j) ↔
    ¬ (σ.rPts j + σ.dthetaPhi_0 σ.i j / σ.rPts j * σ.multFactor < σ.rPts 0
      ∨ σ.rPts j + σ.dthetaPhi_0 σ.i j / σ.rPts j * σ.multFactor > σ.rMax) := by
  show ¬ ((pre2 σ j).endPts_k1_r σ.i j < σ.rPts 0 ∨ (pre2 σ j).endPts_k1_r σ.i j > σ.rMax) ↔ _
  rw [pre2_k1r]

theorem body2_consts (σ : St) (j : ℕ) : consts (body2 σ j) = consts σ := by
  unfold body2; split
  · rw [then2_consts, pre2_consts]
  · rw [else2_consts, pre2_consts]
theorem body2_i (σ : St) (j : ℕ) : (body2 σ j).i = σ.i := by
  unfold body2; split
  · rw [then2_i, pre2_i]
  · rw [else2_i, pre2_i]
theorem body2_f (σ : St) (j : ℕ) : (body2 σ j).f = σ.f := by
  unfold body2; split
  · rw [then2_f, pre2_f]
  · rw [else2_f, pre2_f]
theorem body2_dr (σ : St) (j a b : ℕ) (h : ¬ (a = σ.i ∧ b = j)) : (body2 σ j).drPhi_0 a b = σ.drPhi_0 a b := by
  unfold body2; split
  · rw [then2_dr, pre2_dr, if_neg h]
  · rw [else2_dr, pre2_dr, if_neg h]
theorem body2_dq (σ : St) (j a b : ℕ) (h : ¬ (a = σ.i ∧ b = j)) : (body2 σ j).dthetaPhi_0 a b = σ.dthetaPhi_0 a b := by
  unfold body2; split
  · rw [then2_dq, pre2_dq, if_neg h]
  · rw [else2_dq, pre2_dq, if_neg h]
theorem body2_k2q (σ : St) (j a b : ℕ) : (body2 σ j).endPts_k2_q a b =
    if a = σ.i ∧ b = j then (footGen (consts σ) (σ.drPhi_0 σ.i j) (σ.dthetaPhi_0 σ.i j) (σ.qPts σ.i) (σ.rPts j)).1
    else σ.endPts_k2_q a b := by
  unfold body2
  by_cases hc : cond2 (pre2 σ j)
  · have hc' := (cond2_pre2 σ j).mp hc
    rw [if_pos hc, then2_k2q]
    simp only [pre2_consts, pre2_i, pre2_j, pre2_k1q, pre2_k1r, pre2_dr, pre2_k2q, eq_self, and_self, if_true]
    simp only [footGen, consts]
    simp only [hc', not_false_eq_true, if_true]
  · have hc' : ¬ ¬ (σ.rPts j + σ.dthetaPhi_0 σ.i j / σ.rPts j * σ.multFactor < σ.rPts 0
        ∨ σ.rPts j + σ.dthetaPhi_0 σ.i j / σ.rPts j * σ.multFactor > σ.rMax) := fun h => hc ((cond2_pre2 σ j).mpr h)
    rw [if_neg hc, else2_k2q]
    simp only [pre2_consts, pre2_i, pre2_j, pre2_dr, pre2_k2q, eq_self, and_self, if_true]
    simp only [footGen, consts]
    simp only [hc', if_false]
theorem body2_k2r (σ : St) (j a b : ℕ) : (body2 σ j).endPts_k2_r a b =
    if a = σ.i ∧ b = j then (footGen (consts σ) (σ.drPhi_0 σ.i j) (σ.dthetaPhi_0 σ.i j) (σ.qPts σ.i) (σ.rPts j)).2
    else σ.endPts_k2_r a b := by
  unfold body2
  by_cases hc : cond2 (pre2 σ j)
  · have hc' := (cond2_pre2 σ j).mp hc
    rw [if_pos hc, then2_k2r]
    simp only [pre2_consts, pre2_i, pre2_j, pre2_k1q, pre2_k1r, pre2_dq, pre2_k2r, eq_self, and_self, if_true]
    simp only [footGen, consts]
    simp only [hc', not_false_eq_true, if_true]
  · have hc' : ¬ ¬ (σ.rPts j + σ.dthetaPhi_0 σ.i j / σ.rPts j * σ.multFactor < σ.rPts 0
        ∨ σ.rPts j + σ.dthetaPhi_0 σ.i j / σ.rPts j * σ.multFactor > σ.rMax) := fun h => hc ((cond2_pre2 σ j).mpr h)
    rw [if_neg hc, else2_k2r]
    simp only [pre2_consts, pre2_i, pre2_j, pre2_dq, pre2_k2r, eq_self, and_self, if_true]
    simp only [footGen, consts]
    simp only [hc', if_false]

theorem ite_proj {α β : Type} (g : α → β) (c : Prop) [Decidable c] (A B : α) (v : β) (hA : c → g A = v) (hB : ¬ c → g B = v) :
    g (if c then A else B) = v := by
  split
  · exact hA ‹_›
  · exact hB ‹_›

theorem body4_consts (σ : St) (j : ℕ) : consts (body4 σ j) = consts σ := by
  unfold body4
  exact ite_proj consts _ _ _ _ (fun _ => rfl) (fun _ => ite_proj consts _ _ _ _ (fun _ => rfl) (fun _ => rfl))
theorem body4_i (σ : St) (j : ℕ) : (body4 σ j).i = σ.i := by
  unfold body4
  exact ite_proj St.i _ _ _ _ (fun _ => rfl) (fun _ => ite_proj St.i _ _ _ _ (fun _ => rfl) (fun _ => rfl))
theorem body4_k2r (σ : St) (j : ℕ) : (body4 σ j).endPts_k2_r = σ.endPts_k2_r := by
  unfold body4
  exact ite_proj St.endPts_k2_r _ _ _ _ (fun _ => rfl) (fun _ => ite_proj St.endPts_k2_r _ _ _ _ (fun _ => rfl) (fun _ => rfl))
theorem body4_k2q (σ : St) (j a b : ℕ) (h : ¬ (a = σ.i ∧ b = j)) : (body4 σ j).endPts_k2_q a b = σ.endPts_k2_q a b := by
  unfold body4
  exact ite_proj (fun s => St.endPts_k2_q s a b) _ _ _ _ (fun _ => rfl)
    (fun _ => ite_proj (fun s => St.endPts_k2_q s a b) _ _ _ _ (fun _ => rfl) (fun _ => if_neg h))
theorem body4_f (σ : St) (j a b : ℕ) (hn : (consts σ).nul = true) : (body4 σ j).f a b =
    if a = σ.i ∧ b = j then finalGen (consts σ) (σ.endPts_k2_q σ.i j) (σ.endPts_k2_r σ.i j) else σ.f a b := by
  have hn' : σ.nulBound = true := hn
  unfold body4 finalGen
  simp only [consts, hn']
  by_cases h1 : σ.endPts_k2_r σ.i j < σ.rPts 0
  · simp only [h1, if_true, Bool.false_eq_true, if_false]
  · by_cases h2 : σ.endPts_k2_r σ.i j > σ.rMax
    · simp only [h1, h2, if_true, if_false, Bool.false_eq_true]
    · simp only [h1, h2, if_false, eq_self, and_self, if_true]
theorem body6_consts (σ : St) (j : ℕ) : consts (body6 σ j) = consts σ := by
  unfold body6
  exact ite_proj consts _ _ _ _ (fun _ => rfl) (fun _ => ite_proj consts _ _ _ _ (fun _ => rfl) (fun _ => rfl))
theorem body6_i (σ : St) (j : ℕ) : (body6 σ j).i = σ.i := by
  unfold body6
  exact ite_proj St.i _ _ _ _ (fun _ => rfl) (fun _ => ite_proj St.i _ _ _ _ (fun _ => rfl) (fun _ => rfl))
theorem body6_k2r (σ : St) (j : ℕ) : (body6 σ j).endPts_k2_r = σ.endPts_k2_r := by
  unfold body6
  exact ite_proj St.endPts_k2_r _ _ _ _ (fun _ => rfl) (fun _ => ite_proj St.endPts_k2_r _ _ _ _ (fun _ => rfl) (fun _ => rfl))
theorem body6_k2q (σ : St) (j a b : ℕ) (h : ¬ (a = σ.i ∧ b = j)) : (body6 σ j).endPts_k2_q a b = σ.endPts_k2_q a b := by
  unfold body6
  exact ite_proj (fun s => St.endPts_k2_q s a b) _ _ _ _ (fun _ => rfl)
    (fun _ => ite_proj (fun s => St.endPts_k2_q s a b) _ _ _ _ (fun _ => rfl) (fun _ => if_neg h))
theorem body6_f (σ : St) (j a b : ℕ) (hn : (consts σ).nul = false) : (body6 σ j).f a b =
    if a = σ.i ∧ b = j then finalGen (consts σ) (σ.endPts_k2_q σ.i j) (σ.endPts_k2_r σ.i j) else σ.f a b := by
  have hn' : σ.nulBound = false := hn
  unfold body6 finalGen
  simp only [consts, hn']
  by_cases h1 : σ.endPts_k2_r σ.i j < σ.rPts 0
  · simp only [h1, if_true, Bool.false_eq_true, if_false]
  · by_cases h2 : σ.endPts_k2_r σ.i j > σ.rMax
    · simp only [h1, h2, if_true, if_false, Bool.false_eq_true]
    · simp only [h1, h2, if_false, eq_self, and_self, if_true]

/-! ## the loops -/

/-- the foot the first double loop computes at node `(a, b)` from the tables held in `σ` -/
def nodeFoot (σ : St) (a b : ℕ) : ℚ × ℚ :=
  footGen (consts σ) (σ.drPhi_0 a b) (σ.dthetaPhi_0 a b) ((consts σ).qPts a) ((consts σ).rPts b)

theorem nodeFoot_congr (σ τ : St) (a b : ℕ) (hc : consts τ = consts σ) (hd : τ.drPhi_0 a b = σ.drPhi_0 a b)
    (ht : τ.dthetaPhi_0 a b = σ.dthetaPhi_0 a b) : nodeFoot τ a b = nodeFoot σ a b := by
  unfold nodeFoot
  rw [hc, hd, ht]

/-- inner loop of the first double loop (`for j in range(nPts_r)` at fixed `i`), started at `j0` with `n` iterations left: the feet of the
    nodes `(σ.i, j0 .. j0+n)` are stored, computed from the table entries of those nodes; the table entries of all other nodes, `f` and the
    constants are untouched -/
theorem loop2_eq (U : ℕ → ℚ) (F : ℕ) : ∀ (n j0 : ℕ) (σ : St),
    ∃ σ', general_poloidal_advection_step_expl_loop2 U F n j0 σ = .ok σ' ∧ consts σ' = consts σ ∧ σ'.i = σ.i ∧ σ'.f = σ.f ∧
      (∀ a b, ¬ (a = σ.i ∧ j0 ≤ b ∧ b < j0 + n) → σ'.drPhi_0 a b = σ.drPhi_0 a b) ∧
      (∀ a b, ¬ (a = σ.i ∧ j0 ≤ b ∧ b < j0 + n) → σ'.dthetaPhi_0 a b = σ.dthetaPhi_0 a b) ∧
      (∀ a b, σ'.endPts_k2_q a b = if a = σ.i ∧ j0 ≤ b ∧ b < j0 + n then (nodeFoot σ a b).1 else σ.endPts_k2_q a b) ∧
      (∀ a b, σ'.endPts_k2_r a b = if a = σ.i ∧ j0 ≤ b ∧ b < j0 + n then (nodeFoot σ a b).2 else σ.endPts_k2_r a b) := by
  intro n
  induction n with
  | zero =>
    intro j0 σ
    exact ⟨σ, rfl, rfl, rfl, rfl, fun _ _ _ => rfl, fun _ _ _ => rfl, fun a b => by rw [if_neg (by omega)],
      fun a b => by rw [if_neg (by omega)]⟩
  | succ n ih =>
    intro j0 σ
    obtain ⟨σ', hrun, hc, hi, hf, hdr, hdq, hq, hr⟩ := ih (j0 + 1) (body2 σ j0)
    rw [body2_i] at hi
    simp only [body2_i] at hdr hdq hq hr
    have hnf : ∀ a b, ¬ (a = σ.i ∧ b = j0) → nodeFoot (body2 σ j0) a b = nodeFoot σ a b := fun a b h =>
      nodeFoot_congr σ (body2 σ j0) a b (body2_consts σ j0) (body2_dr σ j0 a b h) (body2_dq σ j0 a b h)
    refine ⟨σ', by rw [loop2_succ, hrun], hc.trans (body2_consts σ j0), hi, hf.trans (body2_f σ j0), ?_, ?_, ?_, ?_⟩
    · intro a b h
      rw [hdr a b (by omega), body2_dr σ j0 a b (by omega)]
    · intro a b h
      rw [hdq a b (by omega), body2_dq σ j0 a b (by omega)]
    · intro a b
      rw [hq a b]
      by_cases h1 : a = σ.i ∧ j0 + 1 ≤ b ∧ b < j0 + 1 + n
      · rw [if_pos h1, if_pos (by omega), hnf a b (by omega)]
      · rw [if_neg h1, body2_k2q]
        by_cases h2 : a = σ.i ∧ b = j0
        · rw [if_pos h2, if_pos (by omega), h2.1, h2.2]
          rfl
        · rw [if_neg h2, if_neg (by omega)]
    · intro a b
      rw [hr a b]
      by_cases h1 : a = σ.i ∧ j0 + 1 ≤ b ∧ b < j0 + 1 + n
      · rw [if_pos h1, if_pos (by omega), hnf a b (by omega)]
      · rw [if_neg h1, body2_k2r]
        by_cases h2 : a = σ.i ∧ b = j0
        · rw [if_pos h2, if_pos (by omega), h2.1, h2.2]
          rfl
        · rw [if_neg h2, if_neg (by omega)]

/-- the first double loop, started at row `i0` with `n` rows left: the feet of the nodes `(i0 .. i0+n, < nPts_r)` are stored -/
theorem loop1_eq (U : ℕ → ℚ) (F : ℕ) : ∀ (n i0 : ℕ) (σ : St),
    ∃ σ', general_poloidal_advection_step_expl_loop1 U F n i0 σ = .ok σ' ∧ consts σ' = consts σ ∧ σ'.f = σ.f ∧
      (∀ a b, ¬ ((i0 ≤ a ∧ a < i0 + n) ∧ b < (consts σ).nr) → σ'.drPhi_0 a b = σ.drPhi_0 a b) ∧
      (∀ a b, ¬ ((i0 ≤ a ∧ a < i0 + n) ∧ b < (consts σ).nr) → σ'.dthetaPhi_0 a b = σ.dthetaPhi_0 a b) ∧
      (∀ a b, σ'.endPts_k2_q a b = if (i0 ≤ a ∧ a < i0 + n) ∧ b < (consts σ).nr then (nodeFoot σ a b).1 else σ.endPts_k2_q a b) ∧
      (∀ a b, σ'.endPts_k2_r a b = if (i0 ≤ a ∧ a < i0 + n) ∧ b < (consts σ).nr then (nodeFoot σ a b).2 else σ.endPts_k2_r a b) := by
  intro n
  induction n with
  | zero =>
    intro i0 σ
    exact ⟨σ, rfl, rfl, rfl, fun _ _ _ => rfl, fun _ _ _ => rfl, fun a b => by rw [if_neg (by omega)],
      fun a b => by rw [if_neg (by omega)]⟩
  | succ n ih =>
    intro i0 σ
    obtain ⟨σ1, h2run, h2c, h2i, h2f, h2dr, h2dq, h2q, h2r⟩ := loop2_eq U F (σ.nPts_r - 0) 0 { σ with i := i0 }
    obtain ⟨σ', hrun, hc, hf, hdr, hdq, hq, hr⟩ := ih (i0 + 1) σ1
    have h2c' : consts σ1 = consts σ := h2c
    have hnr : (consts σ).nr = σ.nPts_r := rfl
    rw [h2c'] at hdr hdq hq hr
    have hstep : general_poloidal_advection_step_expl_loop1 U F (n + 1) i0 σ
        = general_poloidal_advection_step_expl_loop1 U F n (i0 + 1) σ1 := by
      show (match general_poloidal_advection_step_expl_loop2 U F (σ.nPts_r - 0) 0 { σ with i := i0 } with
        | .ok σ => general_poloidal_advection_step_expl_loop1 U F n (i0 + 1) σ
        | .done o => .done o) = _
      rw [h2run]
    have h2dr' : ∀ a b, ¬ (a = i0 ∧ 0 ≤ b ∧ b < 0 + (σ.nPts_r - 0)) → σ1.drPhi_0 a b = σ.drPhi_0 a b := h2dr
    have h2dq' : ∀ a b, ¬ (a = i0 ∧ 0 ≤ b ∧ b < 0 + (σ.nPts_r - 0)) → σ1.dthetaPhi_0 a b = σ.dthetaPhi_0 a b := h2dq
    have h2q' : ∀ a b, σ1.endPts_k2_q a b = if a = i0 ∧ 0 ≤ b ∧ b < 0 + (σ.nPts_r - 0) then (nodeFoot σ a b).1
        else σ.endPts_k2_q a b := h2q
    have h2r' : ∀ a b, σ1.endPts_k2_r a b = if a = i0 ∧ 0 ≤ b ∧ b < 0 + (σ.nPts_r - 0) then (nodeFoot σ a b).2
        else σ.endPts_k2_r a b := h2r
    have hnf : ∀ a b, a ≠ i0 → nodeFoot σ1 a b = nodeFoot σ a b := fun a b h =>
      nodeFoot_congr σ σ1 a b h2c' (h2dr' a b (by omega)) (h2dq' a b (by omega))
    refine ⟨σ', by rw [hstep, hrun], hc.trans h2c', hf.trans h2f, ?_, ?_, ?_, ?_⟩
    · intro a b h
      rw [hdr a b (by omega), h2dr' a b (by omega)]
    · intro a b h
      rw [hdq a b (by omega), h2dq' a b (by omega)]
    · intro a b
      rw [hq a b]
      by_cases h1 : (i0 + 1 ≤ a ∧ a < i0 + 1 + n) ∧ b < (consts σ).nr
      · rw [if_pos h1, if_pos (by omega), hnf a b (by omega)]
      · rw [if_neg h1, h2q' a b]
        by_cases h2 : a = i0 ∧ 0 ≤ b ∧ b < 0 + (σ.nPts_r - 0)
        · rw [if_pos h2, if_pos (by omega)]
        · rw [if_neg h2, if_neg (by omega)]
    · intro a b
      rw [hr a b]
      by_cases h1 : (i0 + 1 ≤ a ∧ a < i0 + 1 + n) ∧ b < (consts σ).nr
      · rw [if_pos h1, if_pos (by omega), hnf a b (by omega)]
      · rw [if_neg h1, h2r' a b]
        by_cases h2 : a = i0 ∧ 0 ≤ b ∧ b < 0 + (σ.nPts_r - 0)
        · rw [if_pos h2, if_pos (by omega)]
        · rw [if_neg h2, if_neg (by omega)]

/-- inner loop of the second double loop under `nulBound == true`, at fixed `i`, started at `j0` with `n` iterations left: `f[σ.i, j0 .. j0+n)`
    receive `finalGen` of the feet stored for those nodes; the other entries of `f`, the feet of all other nodes and the constants are untouched -/
theorem loop4_eq (U : ℕ → ℚ) (F : ℕ) : ∀ (n j0 : ℕ) (σ : St), (consts σ).nul = true →
    ∃ σ', general_poloidal_advection_step_expl_loop4 U F n j0 σ = .ok σ' ∧ consts σ' = consts σ ∧ σ'.i = σ.i ∧
      σ'.endPts_k2_r = σ.endPts_k2_r ∧
      (∀ a b, ¬ (a = σ.i ∧ j0 ≤ b ∧ b < j0 + n) → σ'.endPts_k2_q a b = σ.endPts_k2_q a b) ∧
      (∀ a b, σ'.f a b = if a = σ.i ∧ j0 ≤ b ∧ b < j0 + n then finalGen (consts σ) (σ.endPts_k2_q a b) (σ.endPts_k2_r a b)
        else σ.f a b) := by
  intro n
  induction n with
  | zero =>
    intro j0 σ _
    exact ⟨σ, rfl, rfl, rfl, rfl, fun _ _ _ => rfl, fun a b => by rw [if_neg (by omega)]⟩
  | succ n ih =>
    intro j0 σ hn
    obtain ⟨σ', hrun, hc, hi, hr, hq, hf⟩ := ih (j0 + 1) (body4 σ j0) (by rw [body4_consts]; exact hn)
    rw [body4_i] at hi
    simp only [body4_i] at hq hf
    rw [body4_consts, body4_k2r] at hf
    refine ⟨σ', by rw [loop4_succ, hrun], hc.trans (body4_consts σ j0), hi, hr.trans (body4_k2r σ j0), ?_, ?_⟩
    · intro a b h
      rw [hq a b (by omega), body4_k2q σ j0 a b (by omega)]
    · intro a b
      rw [hf a b]
      by_cases h1 : a = σ.i ∧ j0 + 1 ≤ b ∧ b < j0 + 1 + n
      · rw [if_pos h1, if_pos (by omega), body4_k2q σ j0 a b (by omega)]
      · rw [if_neg h1, body4_f σ j0 a b hn]
        by_cases h2 : a = σ.i ∧ b = j0
        · rw [if_pos h2, if_pos (by omega), h2.1, h2.2]
        · rw [if_neg h2, if_neg (by omega)]

/-- the second double loop under `nulBound == true`, started at row `i0` with `n` rows left -/
theorem loop3_eq (U : ℕ → ℚ) (F : ℕ) : ∀ (n i0 : ℕ) (σ : St), (consts σ).nul = true →
    ∃ σ', general_poloidal_advection_step_expl_loop3 U F n i0 σ = .ok σ' ∧ consts σ' = consts σ ∧
      σ'.endPts_k2_r = σ.endPts_k2_r ∧
      (∀ a b, ¬ ((i0 ≤ a ∧ a < i0 + n) ∧ b < (consts σ).nr) → σ'.endPts_k2_q a b = σ.endPts_k2_q a b) ∧
      (∀ a b, σ'.f a b = if (i0 ≤ a ∧ a < i0 + n) ∧ b < (consts σ).nr then
        finalGen (consts σ) (σ.endPts_k2_q a b) (σ.endPts_k2_r a b) else σ.f a b) := by
  intro n
  induction n with
  | zero =>
    intro i0 σ _
    exact ⟨σ, rfl, rfl, rfl, fun _ _ _ => rfl, fun a b => by rw [if_neg (by omega)]⟩
  | succ n ih =>
    intro i0 σ hn
    obtain ⟨σ1, h2run, h2c, h2i, h2r, h2q, h2f⟩ := loop4_eq U F (σ.nPts_r - 0) 0 { σ with i := i0 } hn
    have h2c' : consts σ1 = consts σ := h2c
    obtain ⟨σ', hrun, hc, hr, hq, hf⟩ := ih (i0 + 1) σ1 (by rw [h2c']; exact hn)
    have hnr : (consts σ).nr = σ.nPts_r := rfl
    have h2r' : σ1.endPts_k2_r = σ.endPts_k2_r := h2r
    rw [h2c', h2r'] at hf
    rw [h2c'] at hq
    have hstep : general_poloidal_advection_step_expl_loop3 U F (n + 1) i0 σ
        = general_poloidal_advection_step_expl_loop3 U F n (i0 + 1) σ1 := by
      show (match general_poloidal_advection_step_expl_loop4 U F (σ.nPts_r - 0) 0 { σ with i := i0 } with
        | .ok σ => general_poloidal_advection_step_expl_loop3 U F n (i0 + 1) σ
        | .done o => .done o) = _
      rw [h2run]
    have h2q' : ∀ a b, ¬ (a = i0 ∧ 0 ≤ b ∧ b < 0 + (σ.nPts_r - 0)) → σ1.endPts_k2_q a b = σ.endPts_k2_q a b := h2q
    have h2f' : ∀ a b, σ1.f a b = if a = i0 ∧ 0 ≤ b ∧ b < 0 + (σ.nPts_r - 0) then
        finalGen (consts σ) (σ.endPts_k2_q a b) (σ.endPts_k2_r a b) else σ.f a b := h2f
    refine ⟨σ', by rw [hstep, hrun], hc.trans h2c', hr.trans h2r', ?_, ?_⟩
    · intro a b h
      rw [hq a b (by omega), h2q' a b (by omega)]
    · intro a b
      rw [hf a b]
      by_cases h1 : (i0 + 1 ≤ a ∧ a < i0 + 1 + n) ∧ b < (consts σ).nr
      · rw [if_pos h1, if_pos (by omega), h2q' a b (by omega)]
      · rw [if_neg h1, h2f' a b]
        by_cases h2 : a = i0 ∧ 0 ≤ b ∧ b < 0 + (σ.nPts_r - 0)
        · rw [if_pos h2, if_pos (by omega)]
        · rw [if_neg h2, if_neg (by omega)]

/-- inner loop of the second double loop under `nulBound == false`, at fixed `i`, started at `j0` with `n` iterations left: `f[σ.i, j0 .. j0+n)`
    receive `finalGen` of the feet stored for those nodes; the other entries of `f`, the feet of all other nodes and the constants are untouched -/
theorem loop6_eq (U : ℕ → ℚ) (F : ℕ) : ∀ (n j0 : ℕ) (σ : St), (consts σ).nul = false →
    ∃ σ', general_poloidal_advection_step_expl_loop6 U F n j0 σ = .ok σ' ∧ consts σ' = consts σ ∧ σ'.i = σ.i ∧
      σ'.endPts_k2_r = σ.endPts_k2_r ∧
      (∀ a b, ¬ (a = σ.i ∧ j0 ≤ b ∧ b < j0 + n) → σ'.endPts_k2_q a b = σ.endPts_k2_q a b) ∧
      (∀ a b, σ'.f a b = if a = σ.i ∧ j0 ≤ b ∧ b < j0 + n then finalGen (consts σ) (σ.endPts_k2_q a b) (σ.endPts_k2_r a b)
        else σ.f a b) := by
  intro n
  induction n with
  | zero =>
    intro j0 σ _
    exact ⟨σ, rfl, rfl, rfl, rfl, fun _ _ _ => rfl, fun a b => by rw [if_neg (by omega)]⟩
  | succ n ih =>
    intro j0 σ hn
    obtain ⟨σ', hrun, hc, hi, hr, hq, hf⟩ := ih (j0 + 1) (body6 σ j0) (by rw [body6_consts]; exact hn)
    rw [body6_i] at hi
    simp only [body6_i] at hq hf
    rw [body6_consts, body6_k2r] at hf
    refine ⟨σ', by rw [loop6_succ, hrun], hc.trans (body6_consts σ j0), hi, hr.trans (body6_k2r σ j0), ?_, ?_⟩
    · intro a b h
      rw [hq a b (by omega), body6_k2q σ j0 a b (by omega)]
    · intro a b
      rw [hf a b]
      by_cases h1 : a = σ.i ∧ j0 + 1 ≤ b ∧ b < j0 + 1 + n
      · rw [if_pos h1, if_pos (by omega), body6_k2q σ j0 a b (by omega)]
      · rw [if_neg h1, body6_f σ j0 a b hn]
        by_cases h2 : a = σ.i ∧ b = j0
        · rw [if_pos h2, if_pos (by omega), h2.1, h2.2]
        · rw [if_neg h2, if_neg (by omega)]

/-- the second double loop under `nulBound == false`, started at row `i0` with `n` rows left -/
theorem loop5_eq (U : ℕ → ℚ) (F : ℕ) : ∀ (n i0 : ℕ) (σ : St), (consts σ).nul = false →
    ∃ σ', general_poloidal_advection_step_expl_loop5 U F n i0 σ = .ok σ' ∧ consts σ' = consts σ ∧
      σ'.endPts_k2_r = σ.endPts_k2_r ∧
      (∀ a b, ¬ ((i0 ≤ a ∧ a < i0 + n) ∧ b < (consts σ).nr) → σ'.endPts_k2_q a b = σ.endPts_k2_q a b) ∧
      (∀ a b, σ'.f a b = if (i0 ≤ a ∧ a < i0 + n) ∧ b < (consts σ).nr then
        finalGen (consts σ) (σ.endPts_k2_q a b) (σ.endPts_k2_r a b) else σ.f a b) := by
  intro n
  induction n with
  | zero =>
    intro i0 σ _
    exact ⟨σ, rfl, rfl, rfl, fun _ _ _ => rfl, fun a b => by rw [if_neg (by omega)]⟩
  | succ n ih =>
    intro i0 σ hn
    obtain ⟨σ1, h2run, h2c, h2i, h2r, h2q, h2f⟩ := loop6_eq U F (σ.nPts_r - 0) 0 { σ with i := i0 } hn
    have h2c' : consts σ1 = consts σ := h2c
    obtain ⟨σ', hrun, hc, hr, hq, hf⟩ := ih (i0 + 1) σ1 (by rw [h2c']; exact hn)
    have hnr : (consts σ).nr = σ.nPts_r := rfl
    have h2r' : σ1.endPts_k2_r = σ.endPts_k2_r := h2r
    rw [h2c', h2r'] at hf
    rw [h2c'] at hq
    have hstep : general_poloidal_advection_step_expl_loop5 U F (n + 1) i0 σ
        = general_poloidal_advection_step_expl_loop5 U F n (i0 + 1) σ1 := by
      show (match general_poloidal_advection_step_expl_loop6 U F (σ.nPts_r - 0) 0 { σ with i := i0 } with
        | .ok σ => general_poloidal_advection_step_expl_loop5 U F n (i0 + 1) σ
        | .done o => .done o) = _
      rw [h2run]
    have h2q' : ∀ a b, ¬ (a = i0 ∧ 0 ≤ b ∧ b < 0 + (σ.nPts_r - 0)) → σ1.endPts_k2_q a b = σ.endPts_k2_q a b := h2q
    have h2f' : ∀ a b, σ1.f a b = if a = i0 ∧ 0 ≤ b ∧ b < 0 + (σ.nPts_r - 0) then
        finalGen (consts σ) (σ.endPts_k2_q a b) (σ.endPts_k2_r a b) else σ.f a b := h2f
    refine ⟨σ', by rw [hstep, hrun], hc.trans h2c', hr.trans h2r', ?_, ?_⟩
    · intro a b h
      rw [hq a b (by omega), h2q' a b (by omega)]
    · intro a b
      rw [hf a b]
      by_cases h1 : (i0 + 1 ≤ a ∧ a < i0 + 1 + n) ∧ b < (consts σ).nr
      · rw [if_pos h1, if_pos (by omega), h2q' a b (by omega)]
      · rw [if_neg h1, h2f' a b]
        by_cases h2 : a = i0 ∧ 0 ≤ b ∧ b < 0 + (σ.nPts_r - 0)
        · rw [if_pos h2, if_pos (by omega)]
        · rw [if_neg h2, if_neg (by omega)]

/-! ## the model's abstractions, instantiated with what the source uses -/

/-- a value of the model read as a number: `Val.feq r v` is the call of the (uninterpreted) equilibrium function -/
def interp (feq : ℚ → ℚ → ℚ) : Val ℚ → ℚ
  | .num x => x
  | .feq r v => feq r v

/-- the model's `Evals` for the constants of a state -/
def evalsOf (c : Consts) : Evals ℚ := { drPhi := c.drS, dqPhi := c.dqS, fhat := c.fS, wrap := fun x => pyMod x (2 * c.pi) }

/-- the model's `Params` for the constants of a state (`dt`, `B0` enter through `multFactor = dt / B0`) -/
def paramsOf (dt B0 : ℚ) (c : Consts) : Params ℚ := { dt := dt, B0 := B0, v := c.v, rMin := c.rPts 0, rMax := c.rMax, nul := c.nul }

/-- the generated `%` is the model's `pmod` (Model/PolAdv.lean; the drivers of C12 use `pmod period` as `wrap`) -/
theorem pyMod_eq_pmod (x p : ℚ) : pyMod x p = PolAdv.pmod p x := rfl

/-- the first double loop computes the model's foot, when the table entries are the evaluator's values at the node -/
theorem footGen_eq_explFoot (c : Consts) (dt B0 : ℚ) (hmf : c.mf = dt / B0) (hmfh : c.mfh = 1 / 2 * c.mf) (q r : ℚ) :
    footGen c (c.drS q r) (c.dqS q r) q r = explFoot (evalsOf c) (paramsOf dt B0 c) q r := by
  unfold footGen explFoot predictor velAt multFactor evalsOf paramsOf
  simp only [hmfh, hmf]
  by_cases h : ¬ (r + c.dqS q r / r * (dt / B0) < c.rPts 0 ∨ r + c.dqS q r / r * (dt / B0) > c.rMax)
  · simp only [h, not_false_eq_true, if_true]
  · simp only [h, if_false, add_zero]

/-- the second double loop stores the model's `finalVal` -/
theorem finalGen_eq_finalVal (c : Consts) (dt B0 : ℚ) (foot : ℚ × ℚ) :
    finalGen c foot.1 foot.2 = interp c.feq (finalVal (evalsOf c) (paramsOf dt B0 c) foot) := by
  unfold finalGen finalVal evalsOf paramsOf
  dsimp only
  split_ifs <;> rfl

/-! ## the whole call -/

/-- `run` applied to the parameter fields of a record `p` (its fields for locals are not used): every call of the generated function is of this form -/
def runOn (U : ℕ → ℚ) (F : ℕ) (p : St) : Out St :=
  run U F p.pi p.f_eq p.f p.dt p.v p.rPts p.rPts_len p.qPts p.qPts_len p.drPhi_0 p.drPhi_0_len0 p.drPhi_0_len1 p.dthetaPhi_0 p.dthetaPhi_0_len0 p.dthetaPhi_0_len1 p.drPhi_k p.dthetaPhi_k p.endPts_k1_q p.endPts_k1_r p.endPts_k2_q p.endPts_k2_r p.kts1Phi p.kts1Phi_len p.kts2Phi p.kts2Phi_len p.coeffsPhi p.coeffsPhi_len0 p.coeffsPhi_len1 p.deg1Phi p.deg2Phi p.kts1Pol p.kts1Pol_len p.kts2Pol p.kts2Pol_len p.coeffsPol p.coeffsPol_len0 p.coeffsPol_len1 p.deg1Pol p.deg2Pol p.CN0 p.kN0 p.deltaRN0 p.rp p.CTi p.kTi p.deltaRTi p.B0 p.nulBound p.eval_spline_2d_cross p.eval_spline_2d_scalar

/-- the table `eval_spline_2d_cross(qPts, rPts, kts1Phi, deg1Phi, kts2Phi, deg2Phi, coeffsPhi, drPhi_0, 0, 1)` leaves in `drPhi_0` -/
def crossDr (p : St) : ℕ → ℕ → ℚ :=
  p.eval_spline_2d_cross p.qPts p.qPts_len p.rPts p.rPts_len p.kts1Phi p.kts1Phi_len p.deg1Phi p.kts2Phi p.kts2Phi_len p.deg2Phi
    p.coeffsPhi p.coeffsPhi_len0 p.coeffsPhi_len1 p.drPhi_0 p.drPhi_0_len0 p.drPhi_0_len1 0 1
/-- the table `eval_spline_2d_cross(…, dthetaPhi_0, 1, 0)` leaves in `dthetaPhi_0` -/
def crossDq (p : St) : ℕ → ℕ → ℚ :=
  p.eval_spline_2d_cross p.qPts p.qPts_len p.rPts p.rPts_len p.kts1Phi p.kts1Phi_len p.deg1Phi p.kts2Phi p.kts2Phi_len p.deg2Phi
    p.coeffsPhi p.coeffsPhi_len0 p.coeffsPhi_len1 p.dthetaPhi_0 p.dthetaPhi_0_len0 p.dthetaPhi_0_len1 1 0

/-- the state in which the first double loop starts -/
def initSt (p : St) : St :=
  { p with multFactor := p.dt / p.B0, multFactor_half := (1 : ℚ) / 2 * (p.dt / p.B0), drPhi_0 := crossDr p, dthetaPhi_0 := crossDq p,
           nPts_r := p.rPts_len, nPts_q := p.qPts_len, idx := p.rPts_len - 1, rMax := p.rPts (p.rPts_len - 1), i := 0, j := 0 }

/-- the model's evaluators for a call with the parameters `p`: the uninterpreted `eval_spline_2d_scalar` on the phi spline (`der` = (0,1), (1,0))
    and on the spline of `f` (`der` = (0,0)); `wrap x = x % (2*pi)` -/
def modelE (p : St) : Evals ℚ where
  drPhi := fun q r => p.eval_spline_2d_scalar q r p.kts1Phi p.kts1Phi_len p.deg1Phi p.kts2Phi p.kts2Phi_len p.deg2Phi p.coeffsPhi p.coeffsPhi_len0 p.coeffsPhi_len1 0 1
  dqPhi := fun q r => p.eval_spline_2d_scalar q r p.kts1Phi p.kts1Phi_len p.deg1Phi p.kts2Phi p.kts2Phi_len p.deg2Phi p.coeffsPhi p.coeffsPhi_len0 p.coeffsPhi_len1 1 0
  fhat := fun q r => p.eval_spline_2d_scalar q r p.kts1Pol p.kts1Pol_len p.deg1Pol p.kts2Pol p.kts2Pol_len p.deg2Pol p.coeffsPol p.coeffsPol_len0 p.coeffsPol_len1 0 0
  wrap := fun x => pyMod x (2 * p.pi)

/-- the model's parameters for a call with the parameters `p` (what `PoloidalAdvection.step` passes: `Model/PolAdv.mkParams`) -/
def modelP (p : St) : Params ℚ := mkParams p.dt p.B0 p.v p.rPts p.rPts_len p.nulBound

/-- `Val.feq r v` read as `f_eq(r, v, CN0, kN0, deltaRN0, rp, CTi, kTi, deltaRTi)` -/
def interpP (p : St) : Val ℚ → ℚ := interp (fun r v => p.f_eq r v p.CN0 p.kN0 p.deltaRN0 p.rp p.CTi p.kTi p.deltaRTi)

theorem runOn_eq (U : ℕ → ℚ) (F : ℕ) (p : St) : runOn U F p =
    (match general_poloidal_advection_step_expl_loop1 U F (p.qPts_len - 0) 0 (initSt p) with
      | .ok σ =>
        if σ.nulBound = true then
          (match general_poloidal_advection_step_expl_loop3 U F (σ.nPts_q - 0) 0 σ with
            | .ok σ => Out.ret σ
            | .done o => o)
        else
          (match general_poloidal_advection_step_expl_loop5 U F (σ.nPts_q - 0) 0 σ with
            | .ok σ => Out.ret σ
            | .done o => o)
      | .done o => o) := rfl

/-- the second double loop, both values of `nulBound` -/
theorem phase2_eq (U : ℕ → ℚ) (F : ℕ) (σ : St) :
    ∃ σ', (if σ.nulBound = true then
          (match general_poloidal_advection_step_expl_loop3 U F (σ.nPts_q - 0) 0 σ with
            | .ok σ => Out.ret σ
            | .done o => o)
        else
          (match general_poloidal_advection_step_expl_loop5 U F (σ.nPts_q - 0) 0 σ with
            | .ok σ => Out.ret σ
            | .done o => o)) = .ret σ' ∧
      ∀ a b, σ'.f a b = if a < (consts σ).nq ∧ b < (consts σ).nr then
        finalGen (consts σ) (σ.endPts_k2_q a b) (σ.endPts_k2_r a b) else σ.f a b := by
  have hnq : (consts σ).nq = σ.nPts_q := rfl
  cases hn : σ.nulBound with
  | true =>
    obtain ⟨σ', hrun, -, -, -, hf⟩ := loop3_eq U F (σ.nPts_q - 0) 0 σ hn
    refine ⟨σ', ?_, fun a b => ?_⟩
    · rw [if_pos rfl, hrun]
    · rw [hf a b]
      by_cases h : a < (consts σ).nq ∧ b < (consts σ).nr
      · rw [if_pos h, if_pos (by omega)]
      · rw [if_neg h, if_neg (by omega)]
  | false =>
    obtain ⟨σ', hrun, -, -, -, hf⟩ := loop5_eq U F (σ.nPts_q - 0) 0 σ hn
    refine ⟨σ', ?_, fun a b => ?_⟩
    · rw [if_neg (by decide), hrun]
    · rw [hf a b]
      by_cases h : a < (consts σ).nq ∧ b < (consts σ).nr
      · rw [if_pos h, if_pos (by omega)]
      · rw [if_neg h, if_neg (by omega)]

/-- **the generated `general_poloidal_advection_step_expl` computes what the model prescribes at every node**: for all parameters `p`
    (arrays of every extent, every `dt`, `v`, `B0`, `pi`, both values of `nulBound`, all uninterpreted functions, every previous content of
    `f` and of the eight work arrays), under the CONTRACT that the two tables `eval_spline_2d_cross` fills hold, at every node inside
    the box, the value of `eval_spline_2d_scalar` there: the call returns; for `i < len(qPts)`, `j < len(rPts)`, `f[i, j]` is the model's
    `finalVal` (spline value at the foot / boundary value) of the model's `explFoot` (the foot by Heun's predictor / corrector from the node
    `(qPts[i], rPts[j])`), read through `interpP`; every other entry of `f` is what it was -/
theorem gen_pol_expl_eq (U : ℕ → ℚ) (F : ℕ) (p : St)
    (hcross : ∀ i j, i < p.qPts_len → j < p.rPts_len →
      crossDr p i j = (modelE p).drPhi (p.qPts i) (p.rPts j) ∧ crossDq p i j = (modelE p).dqPhi (p.qPts i) (p.rPts j)) :
    ∃ σ', runOn U F p = .ret σ' ∧
      ∀ i j, σ'.f i j = if i < p.qPts_len ∧ j < p.rPts_len then
        interpP p (finalVal (modelE p) (modelP p) (explFoot (modelE p) (modelP p) (p.qPts i) (p.rPts j))) else p.f i j := by
  obtain ⟨σ1, h1run, h1c, h1f, -, -, h1q, h1r⟩ := loop1_eq U F (p.qPts_len - 0) 0 (initSt p)
  obtain ⟨σ', h2run, h2f⟩ := phase2_eq U F σ1
  refine ⟨σ', ?_, fun i j => ?_⟩
  · rw [runOn_eq, h1run]
    exact h2run
  · rw [h2f i j, h1c]
    have hnq : (consts (initSt p)).nq = p.qPts_len := rfl
    have hnr : (consts (initSt p)).nr = p.rPts_len := rfl
    have hE : evalsOf (consts (initSt p)) = modelE p := rfl
    have hP : paramsOf p.dt p.B0 (consts (initSt p)) = modelP p := rfl
    by_cases h : i < p.qPts_len ∧ j < p.rPts_len
    · rw [if_pos (by omega), if_pos h, h1q i j, h1r i j, if_pos (by omega), if_pos (by omega)]
      have hfoot : nodeFoot (initSt p) i j = explFoot (modelE p) (modelP p) (p.qPts i) (p.rPts j) := by
        have := footGen_eq_explFoot (consts (initSt p)) p.dt p.B0 rfl rfl (p.qPts i) (p.rPts j)
        rw [hE, hP] at this
        rw [← this]
        show footGen (consts (initSt p)) (crossDr p i j) (crossDq p i j) (p.qPts i) (p.rPts j) = _
        rw [(hcross i j h.1 h.2).1, (hcross i j h.1 h.2).2]
        rfl
      rw [hfoot, finalGen_eq_finalVal (consts (initSt p)) p.dt p.B0, hE, hP]
      rfl
    · rw [if_neg (by omega), if_neg h, h1f]
      rfl

/-- **Heun's formula and the interior rule hold of the SOURCE** (`C12.pol_heun_formula`, `C12.pol_boundary_rule` carried over by `gen_pol_expl_eq`):
    at a node whose predictor and whose foot lie in `[rPts[0], rPts[len(rPts)-1]]`, the generated function stores the interpolant of `f` at
    node + dt/2·(drift(node) + drift(predictor)), the angle reduced (twice, as the source does) -/
theorem gen_pol_expl_heun_inside (U : ℕ → ℚ) (F : ℕ) (p : St)
    (hcross : ∀ i j, i < p.qPts_len → j < p.rPts_len →
      crossDr p i j = (modelE p).drPhi (p.qPts i) (p.rPts j) ∧ crossDq p i j = (modelE p).dqPhi (p.qPts i) (p.rPts j))
    (i j : ℕ) (hi : i < p.qPts_len) (hj : j < p.rPts_len)
    (hp1 : (modelP p).rMin ≤ (predictor (modelE p) (modelP p) (p.qPts i) (p.rPts j)).2)
    (hp2 : (predictor (modelE p) (modelP p) (p.qPts i) (p.rPts j)).2 ≤ (modelP p).rMax)
    (hf1 : (modelP p).rMin ≤ (explFoot (modelE p) (modelP p) (p.qPts i) (p.rPts j)).2)
    (hf2 : (explFoot (modelE p) (modelP p) (p.qPts i) (p.rPts j)).2 ≤ (modelP p).rMax) :
    ∃ σ', runOn U F p = .ret σ' ∧
      σ'.f i j = (modelE p).fhat
        ((modelE p).wrap ((modelE p).wrap (p.qPts i + (modelP p).dt / 2 * ((Advection.drift (modelE p) (modelP p) (p.qPts i) (p.rPts j)).1 +
          (Advection.drift (modelE p) (modelP p) (predictor (modelE p) (modelP p) (p.qPts i) (p.rPts j)).1
            (predictor (modelE p) (modelP p) (p.qPts i) (p.rPts j)).2).1))))
        (p.rPts j + (modelP p).dt / 2 * ((Advection.drift (modelE p) (modelP p) (p.qPts i) (p.rPts j)).2 +
          (Advection.drift (modelE p) (modelP p) (predictor (modelE p) (modelP p) (p.qPts i) (p.rPts j)).1
            (predictor (modelE p) (modelP p) (p.qPts i) (p.rPts j)).2).2)) := by
  obtain ⟨σ', hrun, hf⟩ := gen_pol_expl_eq U F p hcross
  refine ⟨σ', hrun, ?_⟩
  rw [hf i j, if_pos ⟨hi, hj⟩, (C12.pol_boundary_rule (modelE p) (modelP p) _).2.2 hf1 hf2,
    (C12.pol_heun_formula (modelE p) (modelP p) (p.qPts i) (p.rPts j)).2.1 hp1 hp2]
  rfl

/-! ## concrete instance: 3 × 3 nodes `θ ∈ {0, 2, 4}`, `r ∈ {1, 2, 3}`, `pi = 3` (period 6), `dt = 1`, `B0 = 2`, `v = 1/2`; toy evaluators
    `∂_r φ = q/2 + r`, `∂_θ φ = 2r - q`, interpolant of `f`: `3q + 5r`; `f_eq(r, v, CN0, …) = 100 + r + v + CN0`, `CN0 = 7`; the table
    procedure fills `out[i, j]` with the scalar evaluator at `(qPts[i], rPts[j])`; `f` holds 9 and every work array 7 before the call.
    The nine nodes cover: predictor inside / above `rMax` / below `rMin`, foot inside / above / below, angle reduction of a negative angle. -/
def cSc (q r : ℚ) (d1 d2 : ℕ) : ℚ := if d1 = 0 ∧ d2 = 1 then q / 2 + r else if d1 = 1 ∧ d2 = 0 then 2 * r - q else 3 * q + 5 * r
def cQ : ℕ → ℚ := fun i => ([0, 2, 4, 1000] : List ℚ).getD i 0
def cR : ℕ → ℚ := fun i => ([1, 2, 3, 1000] : List ℚ).getD i 0
def cP (nul : Bool) : St :=
  { pi := 3, f_eq := fun r v CN0 _ _ _ _ _ _ => 100 + r + v + CN0, f := fun _ _ => 9, dt := 1, v := 1 / 2, rPts := cR, rPts_len := 3,
    qPts := cQ, qPts_len := 3, drPhi_0 := fun _ _ => 7, dthetaPhi_0 := fun _ _ => 7, drPhi_k := fun _ _ => 7, dthetaPhi_k := fun _ _ => 7,
    endPts_k1_q := fun _ _ => 7, endPts_k1_r := fun _ _ => 7, endPts_k2_q := fun _ _ => 7, endPts_k2_r := fun _ _ => 7,
    CN0 := 7, B0 := 2, nulBound := nul,
    eval_spline_2d_cross := fun q _ r _ _ _ _ _ _ _ _ _ _ _ _ _ d1 d2 => fun i j => cSc (q i) (r j) d1 d2,
    eval_spline_2d_scalar := fun q r _ _ _ _ _ _ _ _ _ d1 d2 => cSc q r d1 d2 }

example (nul : Bool) : ∃ σ', runOn (fun _ => 7) 0 (cP nul) = .ret σ' ∧
    ∀ i j, σ'.f i j = if i < 3 ∧ j < 3 then
      interpP (cP nul) (finalVal (modelE (cP nul)) (modelP (cP nul)) (explFoot (modelE (cP nul)) (modelP (cP nul)) (cQ i) (cR j))) else 9 :=
  gen_pol_expl_eq (fun _ => 7) 0 (cP nul) (fun _ _ _ _ => ⟨rfl, rfl⟩)
/-- the generated code itself, evaluated on rows / columns 0..3 (row 3 and column 3 are outside the loops), `nulBound` true and false;
    the same numbers (as floats) are what `general_poloidal_advection_step_expl` of /repo returns on these inputs with `numpy.pi` set to 3.0 -/
example : ([true, false].map fun nul => match runOn (fun _ => 7) 0 (cP nul) with
    | .ret σ => (List.range 4).map (fun i => (List.range 4).map (σ.f i)) | _ => []) =
    [[[705 / 32, 1369 / 48, 0, 9], [77 / 8, 273 / 16, 0, 9], [0, 317 / 16, 0, 9], [9, 9, 9, 9]],
     [[705 / 32, 1369 / 48, 111, 9], [77 / 8, 273 / 16, 665 / 6, 9], [217 / 2, 317 / 16, 332 / 3, 9], [9, 9, 9, 9]]] := by decide +kernel
/-- … and inside the box it is the model's `explStep`, entry by entry -/
example : ([true, false].map fun nul => match runOn (fun _ => 7) 0 (cP nul) with
    | .ret σ => (List.range 3).map (fun i => (List.range 3).map (σ.f i)) | _ => []) =
    ([true, false].map fun nul => (explStep (modelE (cP nul)) (modelP (cP nul)) cQ cR 3 3).map (List.map (interpP (cP nul)))) := by
  decide +kernel

end PygyroVerif.C12Gen
