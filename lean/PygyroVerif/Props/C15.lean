/-
C15 — Quasi-neutrality pipeline: exact FFT round trip, real potential, equilibrium.

Model: `PygyroVerif/Model/Poisson.lean` (mode numbers, boundary slices, `qnStiffness0`, `qnModeMatrix`) and
`PygyroVerif/Model/Density.lean`.  `scipy.fftpack.fft/ifft` are the discrete Fourier transform and its inverse:
`fft(x)[k] = Σ_j x[j] exp(-2πi jk/N)`, `ifft(y)[j] = (1/N) Σ_k y[k] exp(2πi jk/N)`; in Lean this is Mathlib's
`ZMod.dft` (`ZMod.dft_apply`, `ZMod.invDFT_apply`, `ZMod.stdAddChar_apply`, `ZMod.toCircle_apply`) — that FFTPACK
computes it is a recorded contract, measured by the correspondence check against a dense DFT matrix.
-/
import PygyroVerif.Model.Poisson
import PygyroVerif.Model.Density
import PygyroVerif.Lemmas.Poisson
import PygyroVerif.Props.C14
import PygyroVerif.Props.C16
import Mathlib.Analysis.Fourier.ZMod
import Mathlib.Algebra.Order.Field.Rat
import Mathlib.Tactic.Ring
import Mathlib.Tactic.Linarith

namespace PygyroVerif.C15

open Finset PygyroVerif.Poisson PygyroVerif.PoissonLemmas

/-! ### the transforms -/

open ZMod in
/-- `findPotential ∘ getModes` is the identity on every θ-line (and `getModes ∘ findPotential` as well):
    the inverse discrete Fourier transform inverts the discrete Fourier transform, for values in any complex
    vector space `E` (a single number, or a whole `(r,z)` block). -/
theorem dft_roundtrip {N : ℕ} [NeZero N] {E : Type*} [AddCommGroup E] [Module ℂ E] (Φ : ZMod N → E) :
    𝓕⁻ (𝓕 Φ) = Φ ∧ 𝓕 (𝓕⁻ Φ) = Φ :=
  ⟨LinearEquiv.symm_apply_apply _ _, LinearEquiv.apply_symm_apply _ _⟩

open ZMod in
/-- the transforms are the ones `fft`/`ifft` are documented to compute -/
theorem dft_formulas {N : ℕ} [NeZero N] (Φ : ZMod N → ℂ) (k : ZMod N) :
    𝓕 Φ k = ∑ j : ZMod N, stdAddChar (-(j * k)) * Φ j ∧
    𝓕⁻ Φ k = (N : ℂ)⁻¹ * ∑ j : ZMod N, stdAddChar (j * k) * Φ j ∧
    (stdAddChar k : ℂ) = Complex.exp (2 * Real.pi * Complex.I * k.val / N) := by
  refine ⟨by rw [dft_apply]; rfl, by rw [invDFT_apply]; rfl, ?_⟩
  rw [stdAddChar_apply, toCircle_apply]

example : (ZMod.dft.symm (ZMod.dft (fun j : ZMod 5 => (j.val : ℂ)))) = fun j : ZMod 5 => (j.val : ℂ) :=
  (dft_roundtrip (N := 5) _).1

/-! ### mode numbers -/

/-- `np.fft.fftfreq(N, 1/N)[k]` is the representative of `k` modulo `N` of smallest absolute value
    (`-N/2` for the Nyquist mode of an even `N`), for even and odd `N`. -/
theorem mvals_alias (N k : ℕ) (hk : k < N) :
    (∃ t : ℤ, mVal N k = k + t * N) ∧ (mVal N k = k ∨ mVal N k = (k : ℤ) - N) ∧
    -((N / 2 : ℕ) : ℤ) ≤ mVal N k ∧ mVal N k ≤ (((N - 1) / 2 : ℕ) : ℤ) ∧
    |mVal N k| ≤ ((N / 2 : ℕ) : ℤ) := by
  have key : (mVal N k = k ∧ k ≤ (N - 1) / 2) ∨ (mVal N k = (k : ℤ) - N ∧ (N - 1) / 2 < k) := by
    unfold mVal
    split_ifs with h
    · left; exact ⟨rfl, by omega⟩
    · right; constructor <;> omega
  refine ⟨?_, ?_, ?_, ?_, ?_⟩
  · rcases key with ⟨h, _⟩ | ⟨h, _⟩
    · exact ⟨0, by rw [h]; ring⟩
    · exact ⟨-1, by rw [h]; ring⟩
  · rcases key with ⟨h, _⟩ | ⟨h, _⟩
    · exact Or.inl h
    · exact Or.inr h
  · rcases key with ⟨h, h2⟩ | ⟨h, h2⟩ <;> (rw [h]; omega)
  · rcases key with ⟨h, h2⟩ | ⟨h, h2⟩ <;> (rw [h]; omega)
  · rw [abs_le]
    rcases key with ⟨h, h2⟩ | ⟨h, h2⟩ <;> rw [h] <;> constructor <;> omega

/-- only index 0 carries mode number 0; distinct indices carry distinct mode numbers -/
theorem mval_zero_iff (N k : ℕ) (hk : k < N) : mVal N k = 0 ↔ k = 0 := by
  unfold mVal
  split_ifs with h <;> constructor <;> intro h' <;> omega

theorem mval_injective (N k k' : ℕ) (hk : k < N) (hk' : k' < N) (h : mVal N k = mVal N k') : k = k' := by
  unfold mVal at h
  split_ifs at h <;> omega

/-- the operator depends on `m²` only, and index `N - k` carries `-m` (or the same Nyquist value): the squared
    mode numbers in FFT order are symmetric, `m²[(N-k) mod N] = m²[k]` -/
theorem m2_symmetric (N k : ℕ) (hk : k < N) : m2Int N ((N - k) % N) = m2Int N k := by
  have h : mVal N ((N - k) % N) = - mVal N k ∨ mVal N ((N - k) % N) = mVal N k := by
    by_cases h0 : k = 0
    · subst h0; right; simp [Nat.mod_self]
    · have hmod : (N - k) % N = N - k := Nat.mod_eq_of_lt (by omega)
      rw [hmod]
      unfold mVal
      split_ifs <;> first | (left; omega) | (right; omega)
  unfold m2Int
  rcases h with h | h
  · rw [h]; ring
  · rw [h]

example : (List.range 6).map (mVal 6) = [0, 1, 2, -3, -2, -1] ∧ (List.range 5).map (mVal 5) = [0, 1, 2, -2, -1] := by
  decide

/-! ### which operator is solved for which mode -/

variable {K : Type*} [Field K]

/-- `χ` selects the `m = 0` operator: `χ = 0` (or kinetic electrons) keeps the full radial operator
    `dPhidPsi + dPhiPsi + PhiPsi`; `χ = 1` drops the reaction term `PhiPsi` (the adiabatic response acts on
    `φ - ⟨φ⟩_θ`, which has no `m = 0` component); any other `χ` is refused. -/
theorem chi_selects_stiffness (A : Assembled K) (s : ℕ) :
    qnStiffness0 (.adiabatic 0) A s = some (stiffnessMatrix A s) ∧
    qnStiffness0 .kinetic A s = some (stiffnessMatrix A s) ∧
    qnStiffness0 (.adiabatic 1) A s = some (fun a b => stiffnessMatrix A s a b - sliceSq A.phiPsi s a b) ∧
    (∀ chi : ℤ, chi ≠ 0 → chi ≠ 1 → qnStiffness0 (.adiabatic chi) A s = none) ∧
    (∀ chi : ℤ, (qnStiffness0 (.adiabatic chi) A s).isSome ↔ (chi = 0 ∨ chi = 1)) := by
  refine ⟨by simp [qnStiffness0], rfl, ?_, ?_, ?_⟩
  · simp only [qnStiffness0, stiffnessMatrix]
    norm_num
  · intro chi h0 h1
    simp [qnStiffness0, h0, h1]
  · intro chi
    by_cases h0 : chi = 0
    · simp [qnStiffness0, h0]
    · by_cases h1 : chi = 1
      · simp [qnStiffness0, h1]
      · simp [qnStiffness0, h0, h1]

theorem qn_lNeumann (nb N I : ℕ) : lNeumann (qnConfig nb N) I = decide (mVal N I = 0) := by
  simp [lNeumann, qnConfig]

/-- Mode `I` of the quasi-neutrality solver (`lNeumannIdx=[0]`):
    * `I = 0` (`m = 0`): the matrix handed to the solver is the χ-selected `_stiffness0`, *unsliced* — which is
      consistent, because for this mode the boundary slice is the whole `[start_range:end_range]` block
      (Neumann at the inner, Dirichlet at the outer boundary: unknowns = coefficients `0 … nbasis-2`);
    * `I ≠ 0`: the matrix is `stiffness - m_I² · k2PhiPsi` restricted to the coefficients `1 … nbasis-2`
      (Dirichlet at both ends), with `m_I = fftfreq` mode number (so index `N-1` is solved with `m = -1`,
      i.e. `m² = 1`, not `(N-1)²`). -/
theorem mode_operator_formula (stiff0 : ℕ → ℕ → K) (A : Assembled K) (nb N I : ℕ) (hnb : 2 ≤ nb) (hI : I < N) :
    (I = 0 → qnModeMatrix stiff0 A (qnConfig nb N) I = stiff0 ∧
             stiffRange (qnConfig nb N) I = (0, nUnknowns (qnConfig nb N)) ∧
             coeffRange (qnConfig nb N) I = (0, nb - 1) ∧ modeSize (qnConfig nb N) I = nb - 1 ∧
             startRange (qnConfig nb N) = 0 ∧ nUnknowns (qnConfig nb N) = nb - 1) ∧
    (I ≠ 0 → qnModeMatrix stiff0 A (qnConfig nb N) I = modeMatrix A (qnConfig nb N) I ∧
             (∀ a b, modeMatrix A (qnConfig nb N) I a b =
                A.dPhidPsi (1 + a) (1 + b) + A.dPhiPsi (1 + a) (1 + b) + A.phiPsi (1 + a) (1 + b)
                  - ((mVal N I * mVal N I : ℤ) : K) * A.k2 (1 + a) (1 + b)) ∧
             stiffRange (qnConfig nb N) I = (1, nb - 1) ∧ coeffRange (qnConfig nb N) I = (1, nb - 1) ∧
             modeSize (qnConfig nb N) I = nb - 2) := by
  have hm0 := mval_zero_iff N I hI
  have hstart : startRange (qnConfig nb N) = 0 := by simp [startRange, qnConfig]
  have hex : exclEnd (qnConfig nb N) = 1 := by simp [exclEnd, qnConfig]
  have hnu : nUnknowns (qnConfig nb N) = nb - 1 := by simp [nUnknowns, endRange, startRange, qnConfig]
  have hu : uNeumann (qnConfig nb N) I = false := by simp [uNeumann, qnConfig]
  have hl : lNeumann (qnConfig nb N) I = decide (mVal N I = 0) := qn_lNeumann nb N I
  have hnbc : (qnConfig nb N).nb = nb := rfl
  have hN : (qnConfig nb N).N = N := rfl
  generalize qnConfig nb N = c at *
  constructor
  · intro h0
    have hmv : mVal N I = 0 := hm0.2 h0
    have hl' : lNeumann c I = true := by rw [hl, hmv]; rfl
    have hsr : stiffRange c I = (0, nb - 1) := by
      simp only [stiffRange, hl', hu, hnu, hex, if_true, Bool.false_eq_true, if_false]; simp
    refine ⟨?_, ?_, ?_, ?_, hstart, hnu⟩
    · simp [qnModeMatrix, m2Int, hN, hmv]
    · rw [hsr, hnu]
    · simp only [coeffRange, hl', hu, hnbc, if_true, Bool.false_eq_true, if_false]
    · simp only [modeSize, hsr]; omega
  · intro h0
    have hmv : mVal N I ≠ 0 := fun h => h0 (hm0.1 h)
    have hl' : lNeumann c I = false := by rw [hl]; simp [hmv]
    have hsr : stiffRange c I = (1, nb - 1) := by
      simp only [stiffRange, hl', hu, hnu, hstart, hex, Bool.false_eq_true, if_false]; simp
    refine ⟨?_, ?_, hsr, ?_, ?_⟩
    · have : m2Int N I ≠ 0 := by unfold m2Int; exact mul_ne_zero hmv hmv
      simp [qnModeMatrix, hN, this]
    · intro a b
      simp only [modeMatrix, hsr, hstart, sliceSq, stiffnessMatrix, m2, m2Int, hN, Nat.zero_add]
    · simp only [coeffRange, hl', hu, hnbc, Bool.false_eq_true, if_false]
    · simp only [modeSize, hsr]; omega

example : (2 : ℕ) ≤ 8 ∧ (4 : ℕ) < 5 := by decide

/-! ### equilibrium -/

open ZMod in
/-- The pipeline maps the unperturbed equilibrium to the zero potential:
    (1) the perturbed density of `f = f_eq` is zero on every rank (C16);
    (2) the transform of zero is zero, in both directions;
    (3) for a zero `rho` slice the interpolation coefficients are zero (collocation matrix injective), the
        right-hand side `Mass · 0` is zero, every solution of a well-posed (injective) mode system is zero, and the
        values written to `phi` are zero — for every mode, whatever the buffer contained before. -/
theorem pipeline_zero_for_equilibrium
    (q : ℕ → K) (nc : ℕ) (fEq : ℕ → ℕ → K) (F : ℕ → ℕ → ℕ → ℕ → K)
    (hF : ∀ r z t l, l < nc → F r z t l = fEq r l) :
    (∀ rs zs i j k, Density.getPerturbedRhoLocal q nc fEq F rs zs i j k = 0) ∧
    (∀ (N : ℕ) [NeZero N], 𝓕 (0 : ZMod N → ℂ) = 0 ∧ 𝓕⁻ (0 : ZMod N → ℂ) = 0) ∧
    (∀ (A : Assembled K) (c : BCConfig) (I n : ℕ) (M colloc V : ℕ → ℕ → K) (rhoC x buf : ℕ → K),
      2 ≤ c.nb → n = (coeffRange c I).2 - (coeffRange c I).1 →
      -- `compute_interpolant` returned coefficients of the zero slice, and the collocation matrix is injective
      (∀ i, i < c.nb → ∑ j ∈ range c.nb, colloc i j * rhoC j = 0) →
      ((∀ i, i < c.nb → ∑ j ∈ range c.nb, colloc i j * rhoC j = 0) → ∀ j, j < c.nb → rhoC j = 0) →
      -- the mode system is well-posed and `spsolve` returned a solution
      (∀ y, IsSol n M (fun _ => 0) y → ∀ a, a < n → y a = 0) →
      IsSol n M (modeRhs A c I rhoC) x →
      ∀ i, evalAt c.nb V (coeffsAfter buf c.nb (coeffRange c I) x) i = 0) := by
  refine ⟨fun rs zs i j k => C16.density_zero_for_equilibrium q nc fEq F hF rs zs i j k,
    fun N _ => ⟨map_zero _, map_zero _⟩, ?_⟩
  intro A c I n M colloc V rhoC x buf hnb hn hint hcinj hinj hx i
  have hrho : ∀ j, j < c.nb → rhoC j = 0 := hcinj hint
  have hrhs : ∀ a, modeRhs A c I rhoC a = 0 := by
    intro a
    simp only [modeRhs, list_range_map_sum]
    exact Finset.sum_eq_zero (fun j hj => by rw [hrho j (Finset.mem_range.mp hj), mul_zero])
  have hx0 : ∀ a, a < n → x a = 0 := by
    apply hinj
    intro a ha
    rw [hx a ha, hrhs a]
  rw [evalAt_eq_sum]
  refine Finset.sum_eq_zero (fun p hp => ?_)
  rw [C14.coeffs_buffer_history_free c I hnb buf x p (Finset.mem_range.mp hp)]
  split_ifs with h
  · rw [hx0 _ (by omega), zero_mul]
  · rw [zero_mul]

/-- instance of the well-posedness hypotheses: identity matrices -/
example : ∀ y : ℕ → ℚ, IsSol 3 (fun a b => if a = b then 1 else 0) (fun _ => 0) y → ∀ a, a < 3 → y a = 0 := by
  intro y h a ha
  have := h a ha
  rw [matVec_eq_sum] at this
  simpa [Finset.sum_ite_eq, ha] using this

/-! ### real potential for real density -/

open ZMod in
/-- the transform of real data is Hermitian: `conj (ρ̂ k) = ρ̂ (-k)` -/
theorem star_dft_of_real {N : ℕ} [NeZero N] {E : Type*} [AddCommGroup E] [Module ℂ E]
    [StarAddMonoid E] [StarModule ℂ E] (ρ : ZMod N → E) (hρ : ∀ j, star (ρ j) = ρ j) (k : ZMod N) :
    star (𝓕 ρ k) = 𝓕 ρ (-k) := by
  rw [dft_apply, dft_apply, star_sum]
  refine Finset.sum_congr rfl (fun j _ => ?_)
  rw [star_smul, hρ j]
  congr 1
  have := AddChar.map_neg_eq_conj (stdAddChar (N := N)) (-(j * k))
  rw [neg_neg] at this
  rw [mul_neg, neg_neg, this]
  rfl

open ZMod in
/-- the inverse transform of Hermitian data is real -/
theorem star_invDFT_of_herm {N : ℕ} [NeZero N] {E : Type*} [AddCommGroup E] [Module ℂ E]
    [StarAddMonoid E] [StarModule ℂ E] (Ψ : ZMod N → E) (hΨ : ∀ k, star (Ψ k) = Ψ (-k)) (j : ZMod N) :
    star (𝓕⁻ Ψ j) = 𝓕⁻ Ψ j := by
  rw [invDFT_apply, star_smul, star_sum]
  congr 1
  · simp
  · rw [← Equiv.sum_comp (Equiv.neg (ZMod N))]
    refine Finset.sum_congr rfl (fun k _ => ?_)
    rw [star_smul, Equiv.neg_apply, hΨ (-k), neg_neg]
    congr 1
    have := AddChar.map_neg_eq_conj (stdAddChar (N := N)) (-k * j)
    rw [neg_mul, neg_neg] at this
    rw [neg_mul, this]
    rfl

open ZMod in
/-- Real potential for real density.  `E` is the space of complex `(r)`-vectors (any star module), `L k` the
    solution operator of mode `k` (interpolate, solve, evaluate).  If every `L k` is a *real* operator (commutes with
    complex conjugation: real matrices, real and imaginary parts solved separately) and `L (-k) = L k` (the mode
    operator depends on `m²` only — `m2_symmetric` — and the boundary choice is the same for `±m`), then the potential
    `ifft (L (fft ρ))` of a real density is real. -/
theorem potential_real_for_real_density {N : ℕ} [NeZero N] {E : Type*} [AddCommGroup E] [Module ℂ E]
    [StarAddMonoid E] [StarModule ℂ E] (L : ZMod N → E → E)
    (hreal : ∀ k v, L k (star v) = star (L k v)) (hsym : ∀ k, L (-k) = L k)
    (ρ : ZMod N → E) (hρ : ∀ j, star (ρ j) = ρ j) (j : ZMod N) :
    star (𝓕⁻ (fun k => L k (𝓕 ρ k)) j) = 𝓕⁻ (fun k => L k (𝓕 ρ k)) j := by
  apply star_invDFT_of_herm
  intro k
  rw [← hreal, star_dft_of_real ρ hρ k, hsym]

example : ∀ j : ZMod 4, star ((fun j : ZMod 4 => ((j.val : ℝ) : ℂ)) j) = (fun j : ZMod 4 => ((j.val : ℝ) : ℂ)) j := by
  intro j; simp

end PygyroVerif.C15
