/-
C11, tie by translation: the kernel `general_v_parallel_advection_eval_step`.  `Generated/VParGen.lean` is REGENERATED on every run of
`./check C11` from pygyro/advection/accelerated_advection_steps.py (harness/translate_pure.py, target `vpar`: the three
`for i, v in enumerate(vPts)` loops are structurally recursive functions and the two `while` loops of the periodic mode fuel-recursive
ones over the record of all locals; `f[i] = …` is the functional update; the calls `f_eq(…)` (a `@pure` function of another module) and
`eval_spline_1d_scalar(v, kts, deg, coeffs, 0)` (the function parameter) are applications of UNINTERPRETED functions `feq`, `ev`).

This file proves that the generated function does what the hand-written model `VParAdv.evalNode` (Model/VParAdv.lean, about which
`C11.vpar_step_formula`, `vpar_boundary_rule`, `vpar_wrap_terminates`, … speak) prescribes: for ALL point arrays `vPts` of every
length `n`, all bounds `vMin`, `vMax`, all three boundary modes, all previous contents of `f`, and ALL functions `feq`, `ev`:
`f[k]` receives the model's value of node `k` for `k < n` (the tag `Val.feq r v` read as the call `feq r v CN0 …`, the interpolant
`S v := ev v kts deg coeffs 0`) and every other entry of `f` is untouched; a `bound` outside {0, 1, 2} writes nothing.
Fuel: the modes 'fEq' (0) and 'null' (1) need none.  In the periodic mode (2) the generated `while` loops called with fuel `N + 1` make
what the model's `wrapUp` / `wrapDown` make with fuel `N` (the model counts iterations, the translation loop tests), so the call
returns as soon as the model's `periodicImage` does; `N ≥ |v − vMin| / vDiff` for every point `v` suffices whenever
`vDiff = vMax − vMin > 0` (`gen_vpar_periodic_total`), such an `N` exists for every array (`gen_vpar_periodic_terminates`) and the
result does not depend on the fuel beyond it.
-/
import PygyroVerif.Generated.VParGen
import PygyroVerif.Props.C11

namespace PygyroVerif.C11Gen
open PygyroVerif PygyroVerif.VParAdv PygyroVerif.Advection
open PygyroVerif.Gen.VPar PygyroVerif.Gen.VPar.general_v_parallel_advection_eval_step_

/-- the uninterpreted `f_eq` of the source: nine floats to a float -/
abbrev FEq := ℚ → ℚ → ℚ → ℚ → ℚ → ℚ → ℚ → ℚ → ℚ → ℚ
/-- the uninterpreted function parameter `eval_spline_1d_scalar(x, knots, degree, coeffs, der)` (arrays as contents and length) -/
abbrev Ev := ℚ → (ℕ → ℚ) → ℕ → ℕ → (ℕ → ℚ) → ℕ → ℕ → ℚ

/-- the number a model value stands for: the tag `feq r v` is the source's call `f_eq(r, v, CN0, kN0, deltaRN0, rp, CTi, kTi, deltaRTi)` -/
def interp (feq : FEq) (CN0 kN0 deltaRN0 rp CTi kTi deltaRTi : ℚ) : Val ℚ → ℚ
  | .num x => x
  | .feq r v => feq r v CN0 kN0 deltaRN0 rp CTi kTi deltaRTi

/-- `bound` of the source for the three modes -/
def code : Edge → ℕ
  | .fEq => 0
  | .null => 1
  | .periodic => 2

/-- the interpolant the state's `eval_spline_1d_scalar`, `kts`, `deg`, `coeffs` define -/
def S (σ : St) : ℚ → ℚ := fun v => σ.eval_spline_1d_scalar v σ.kts σ.kts_len σ.deg σ.coeffs σ.coeffs_len 0

/-- what the model prescribes for node `k` (0 if the model runs out of fuel) -/
def written (σ : St) (edge : Edge) (N k : ℕ) : ℚ :=
  match evalNode (S σ) edge σ.vMin σ.vMax σ.rPos N (σ.vPts k) with
  | some val => interp σ.f_eq σ.CN0 σ.kN0 σ.deltaRN0 σ.rp σ.CTi σ.kTi σ.deltaRTi val
  | none => 0

/-- one more written position -/
theorem upd_step (g W : ℕ → ℚ) (i n : ℕ) :
    (fun k => if i + 1 ≤ k ∧ k < i + 1 + n then W k else (if k = i then W i else g k))
      = (fun k => if i ≤ k ∧ k < i + (n + 1) then W k else g k) := by
  funext k
  by_cases h1 : i + 1 ≤ k ∧ k < i + 1 + n
  · rw [if_pos h1, if_pos ⟨by omega, by omega⟩]
  · rw [if_neg h1]
    by_cases h2 : k = i
    · rw [if_pos h2, if_pos ⟨by omega, by omega⟩, h2]
    · rw [if_neg h2, if_neg (by omega)]

theorem upd_zero (g W : ℕ → ℚ) (i : ℕ) : (fun k => if i ≤ k ∧ k < i + 0 then W k else g k) = g := by
  funext k
  rw [if_neg (by omega)]

/-! ## the two `while` loops of the periodic mode -/

/-- `while (v < vMin): v += vDiff` with fuel `N + 1` is the model's `wrapUp` with fuel `N` -/
theorem loop4_eq (U : ℕ → ℚ) (F : ℕ) : ∀ (N : ℕ) (σ : St) (w : ℚ), wrapUp σ.vMin σ.vDiff N σ.v = some w →
    general_v_parallel_advection_eval_step_loop4 U F (N + 1) σ = .ok { σ with v := w } := by
  intro N
  induction N with
  | zero =>
    intro σ w h
    unfold wrapUp at h
    by_cases hc : σ.v < σ.vMin
    · rw [if_pos hc] at h; cases h
    · rw [if_neg hc] at h
      cases h
      show (if σ.v < σ.vMin then _ else Res.ok σ) = _
      rw [if_neg hc]
  | succ N ih =>
    intro σ w h
    unfold wrapUp at h
    by_cases hc : σ.v < σ.vMin
    · rw [if_pos hc] at h
      show (if σ.v < σ.vMin then general_v_parallel_advection_eval_step_loop4 U F (N + 1) { σ with v := σ.v + σ.vDiff } else Res.ok σ) = _
      rw [if_pos hc]
      exact ih { σ with v := σ.v + σ.vDiff } w h
    · rw [if_neg hc] at h
      cases h
      show (if σ.v < σ.vMin then _ else Res.ok σ) = _
      rw [if_neg hc]

/-- `while (v > vMax): v -= vDiff` with fuel `N + 1` is the model's `wrapDown` with fuel `N` -/
theorem loop5_eq (U : ℕ → ℚ) (F : ℕ) : ∀ (N : ℕ) (σ : St) (w : ℚ), wrapDown σ.vMax σ.vDiff N σ.v = some w →
    general_v_parallel_advection_eval_step_loop5 U F (N + 1) σ = .ok { σ with v := w } := by
  intro N
  induction N with
  | zero =>
    intro σ w h
    unfold wrapDown at h
    by_cases hc : σ.v > σ.vMax
    · rw [if_pos hc] at h; cases h
    · rw [if_neg hc] at h
      cases h
      show (if σ.v > σ.vMax then _ else Res.ok σ) = _
      rw [if_neg hc]
  | succ N ih =>
    intro σ w h
    unfold wrapDown at h
    by_cases hc : σ.v > σ.vMax
    · rw [if_pos hc] at h
      show (if σ.v > σ.vMax then general_v_parallel_advection_eval_step_loop5 U F (N + 1) { σ with v := σ.v - σ.vDiff } else Res.ok σ) = _
      rw [if_pos hc]
      exact ih { σ with v := σ.v - σ.vDiff } w h
    · rw [if_neg hc] at h
      cases h
      show (if σ.v > σ.vMax then _ else Res.ok σ) = _
      rw [if_neg hc]

/-- a model loop that needs more than its fuel: the generated loop with one more unit of fuel runs out of fuel too (so the fuel
    `N + 1` of the tie theorem is not only sufficient but exactly the model's) -/
theorem loop4_outOfFuel (U : ℕ → ℚ) (F : ℕ) : ∀ (N : ℕ) (σ : St), wrapUp σ.vMin σ.vDiff N σ.v = none →
    general_v_parallel_advection_eval_step_loop4 U F (N + 1) σ = .done .outOfFuel := by
  intro N
  induction N with
  | zero =>
    intro σ h
    unfold wrapUp at h
    by_cases hc : σ.v < σ.vMin
    · show (if σ.v < σ.vMin then general_v_parallel_advection_eval_step_loop4 U F 0 { σ with v := σ.v + σ.vDiff } else Res.ok σ) = _
      rw [if_pos hc]
      rfl
    · rw [if_neg hc] at h; cases h
  | succ N ih =>
    intro σ h
    unfold wrapUp at h
    by_cases hc : σ.v < σ.vMin
    · rw [if_pos hc] at h
      show (if σ.v < σ.vMin then general_v_parallel_advection_eval_step_loop4 U F (N + 1) { σ with v := σ.v + σ.vDiff } else Res.ok σ) = _
      rw [if_pos hc]
      exact ih { σ with v := σ.v + σ.vDiff } h
    · rw [if_neg hc] at h; cases h

/-! ## the three `for i, v in enumerate(vPts)` loops -/

/-- mode 'fEq' (`bound == 0`), started at `i` with `n` iterations left: `f[i .. i+n)` receive the model's values, for every fuel -/
theorem loop1_eq (U : ℕ → ℚ) (F N : ℕ) : ∀ (n i : ℕ) (σ : St),
    ∃ I V, general_v_parallel_advection_eval_step_loop1 U F n i σ = .ok { σ with i := I, v := V, f := (fun k =>
      if i ≤ k ∧ k < i + n then written σ .fEq N k else σ.f k) } := by
  intro n
  induction n with
  | zero =>
    intro i σ
    refine ⟨σ.i, σ.v, ?_⟩
    rw [upd_zero]
    rfl
  | succ n ih =>
    intro i σ
    have hW : written σ .fEq N i = if σ.vPts i < σ.vMin ∨ σ.vPts i > σ.vMax
        then σ.f_eq σ.rPos (σ.vPts i) σ.CN0 σ.kN0 σ.deltaRN0 σ.rp σ.CTi σ.kTi σ.deltaRTi else S σ (σ.vPts i) := by
      unfold written evalNode
      by_cases hc : σ.vPts i < σ.vMin ∨ σ.vPts i > σ.vMax
      · simp only [if_pos hc]; rfl
      · simp only [if_neg hc]; rfl
    let σ1 : St := { σ with i := i, v := σ.vPts i, f := fun k => if k = i then written σ .fEq N i else σ.f k }
    obtain ⟨I, V, hrun⟩ := ih (i + 1) σ1
    refine ⟨I, V, ?_⟩
    have hstep : general_v_parallel_advection_eval_step_loop1 U F (n + 1) i σ
        = general_v_parallel_advection_eval_step_loop1 U F n (i + 1) σ1 := by
      by_cases hc : σ.vPts i < σ.vMin ∨ σ.vPts i > σ.vMax
      · show (if σ.vPts i < σ.vMin ∨ σ.vPts i > σ.vMax then _ else _) = _
        rw [if_pos hc]
        show general_v_parallel_advection_eval_step_loop1 U F n (i + 1) _ = general_v_parallel_advection_eval_step_loop1 U F n (i + 1) _
        congr 1
        show ({ σ with i := i, v := σ.vPts i, f := _ } : St) = { σ with i := i, v := σ.vPts i, f := _ }
        rw [hW, if_pos hc]
      · show (if σ.vPts i < σ.vMin ∨ σ.vPts i > σ.vMax then _ else _) = _
        rw [if_neg hc]
        show general_v_parallel_advection_eval_step_loop1 U F n (i + 1) _ = general_v_parallel_advection_eval_step_loop1 U F n (i + 1) _
        congr 1
        show ({ σ with i := i, v := σ.vPts i, f := _ } : St) = { σ with i := i, v := σ.vPts i, f := _ }
        rw [hW, if_neg hc]
        rfl
    rw [hstep, hrun]
    congr 1
    show ({ σ with i := I, v := V, f := _ } : St) = { σ with i := I, v := V, f := _ }
    rw [← upd_step σ.f (written σ .fEq N) i n]
    rfl

/-- mode 'null' (`bound == 1`), started at `i` with `n` iterations left -/
theorem loop2_eq (U : ℕ → ℚ) (F N : ℕ) : ∀ (n i : ℕ) (σ : St),
    ∃ I V, general_v_parallel_advection_eval_step_loop2 U F n i σ = .ok { σ with i := I, v := V, f := (fun k =>
      if i ≤ k ∧ k < i + n then written σ .null N k else σ.f k) } := by
  intro n
  induction n with
  | zero =>
    intro i σ
    refine ⟨σ.i, σ.v, ?_⟩
    rw [upd_zero]
    rfl
  | succ n ih =>
    intro i σ
    have hW : written σ .null N i = if σ.vPts i < σ.vMin ∨ σ.vPts i > σ.vMax then 0 else S σ (σ.vPts i) := by
      unfold written evalNode
      by_cases hc : σ.vPts i < σ.vMin ∨ σ.vPts i > σ.vMax
      · simp only [if_pos hc]; rfl
      · simp only [if_neg hc]; rfl
    let σ1 : St := { σ with i := i, v := σ.vPts i, f := fun k => if k = i then written σ .null N i else σ.f k }
    obtain ⟨I, V, hrun⟩ := ih (i + 1) σ1
    refine ⟨I, V, ?_⟩
    have hstep : general_v_parallel_advection_eval_step_loop2 U F (n + 1) i σ
        = general_v_parallel_advection_eval_step_loop2 U F n (i + 1) σ1 := by
      by_cases hc : σ.vPts i < σ.vMin ∨ σ.vPts i > σ.vMax
      · show (if σ.vPts i < σ.vMin ∨ σ.vPts i > σ.vMax then _ else _) = _
        rw [if_pos hc]
        show general_v_parallel_advection_eval_step_loop2 U F n (i + 1) _ = general_v_parallel_advection_eval_step_loop2 U F n (i + 1) _
        congr 1
        show ({ σ with i := i, v := σ.vPts i, f := _ } : St) = { σ with i := i, v := σ.vPts i, f := _ }
        rw [hW, if_pos hc]
      · show (if σ.vPts i < σ.vMin ∨ σ.vPts i > σ.vMax then _ else _) = _
        rw [if_neg hc]
        show general_v_parallel_advection_eval_step_loop2 U F n (i + 1) _ = general_v_parallel_advection_eval_step_loop2 U F n (i + 1) _
        congr 1
        show ({ σ with i := i, v := σ.vPts i, f := _ } : St) = { σ with i := i, v := σ.vPts i, f := _ }
        rw [hW, if_neg hc]
        rfl
    rw [hstep, hrun]
    congr 1
    show ({ σ with i := I, v := V, f := _ } : St) = { σ with i := I, v := V, f := _ }
    rw [← upd_step σ.f (written σ .null N) i n]
    rfl

/-- mode 'periodic' (`bound == 2`), started at `i` with `n` iterations left, called with fuel `N + 1`: as soon as the model's
    `periodicImage` with fuel `N` returns for the points `i .. i+n`, the loop returns and `f[i .. i+n)` hold the model's values -/
theorem loop3_eq (U : ℕ → ℚ) (N : ℕ) : ∀ (n i : ℕ) (σ : St), σ.vDiff = σ.vMax - σ.vMin →
    (∀ k, i ≤ k → k < i + n → ∃ w, periodicImage σ.vMin σ.vMax N (σ.vPts k) = some w) →
    ∃ I V, general_v_parallel_advection_eval_step_loop3 U (N + 1) n i σ = .ok { σ with i := I, v := V, f := (fun k =>
      if i ≤ k ∧ k < i + n then written σ .periodic N k else σ.f k) } := by
  intro n
  induction n with
  | zero =>
    intro i σ _ _
    refine ⟨σ.i, σ.v, ?_⟩
    rw [upd_zero]
    rfl
  | succ n ih =>
    intro i σ hd hsome
    obtain ⟨w, hw⟩ := hsome i (le_refl i) (by omega)
    have hW : written σ .periodic N i = S σ w := by
      unfold written evalNode
      simp only [hw, Option.map_some]
      rfl
    unfold periodicImage at hw
    obtain ⟨u, hu, hdown⟩ := Option.bind_eq_some_iff.mp hw
    rw [← hd] at hu hdown
    let σa : St := { σ with i := i, v := σ.vPts i }
    have h4 := loop4_eq U (N + 1) N σa u hu
    have h5 := loop5_eq U (N + 1) N { σa with v := u } w hdown
    let σ1 : St := { σ with i := i, v := w, f := fun k => if k = i then written σ .periodic N i else σ.f k }
    obtain ⟨I, V, hrun⟩ := ih (i + 1) σ1 hd (fun k h1 h2 => hsome k (by omega) (by omega))
    refine ⟨I, V, ?_⟩
    have hstep : general_v_parallel_advection_eval_step_loop3 U (N + 1) (n + 1) i σ
        = general_v_parallel_advection_eval_step_loop3 U (N + 1) n (i + 1) σ1 := by
      show (match general_v_parallel_advection_eval_step_loop4 U (N + 1) (N + 1) σa with
        | .ok σ => (match general_v_parallel_advection_eval_step_loop5 U (N + 1) (N + 1) σ with
          | .ok σ => general_v_parallel_advection_eval_step_loop3 U (N + 1) n (i + 1)
              { σ with f := fun k_ => if k_ = σ.i then (σ.eval_spline_1d_scalar σ.v σ.kts σ.kts_len σ.deg σ.coeffs σ.coeffs_len 0) else σ.f k_ }
          | .done o => .done o)
        | .done o => .done o) = _
      rw [h4]
      show (match general_v_parallel_advection_eval_step_loop5 U (N + 1) (N + 1) { σa with v := u } with
          | .ok σ => general_v_parallel_advection_eval_step_loop3 U (N + 1) n (i + 1)
              { σ with f := fun k_ => if k_ = σ.i then (σ.eval_spline_1d_scalar σ.v σ.kts σ.kts_len σ.deg σ.coeffs σ.coeffs_len 0) else σ.f k_ }
          | .done o => .done o) = _
      rw [h5]
      show general_v_parallel_advection_eval_step_loop3 U (N + 1) n (i + 1) _ = general_v_parallel_advection_eval_step_loop3 U (N + 1) n (i + 1) _
      congr 1
      show ({ σ with i := i, v := w, f := _ } : St) = { σ with i := i, v := w, f := _ }
      rw [hW]
      rfl
    rw [hstep, hrun]
    congr 1
    show ({ σ with i := I, v := V, f := _ } : St) = { σ with i := I, v := V, f := _ }
    rw [← upd_step σ.f (written σ .periodic N) i n]
    rfl

/-! ## the whole function -/

section run
variable (U : ℕ → ℚ) (feq : FEq) (f0 : ℕ → ℚ) (flen : ℕ) (vPts : ℕ → ℚ) (n : ℕ) (rPos vMin vMax : ℚ) (kts : ℕ → ℚ) (klen deg : ℕ)
  (c : ℕ → ℚ) (clen : ℕ) (CN0 kN0 deltaRN0 rp CTi kTi deltaRTi : ℚ) (ev : Ev)

/-- **the generated `general_v_parallel_advection_eval_step` writes what the model's boundary rule prescribes, and nothing else**:
    for every array `vPts` of every length `n`, all `vMin`, `vMax`, every mode (`bound = code edge`), all functions `feq`, `ev`, every
    previous content `f0` of `f`: if the model's `evalNode` (interpolant `S v = ev v kts deg coeffs 0`, fuel `N`) returns for the `n`
    points — it always does in the modes 'fEq' and 'null' —, the generated function returns (in the periodic mode: called with fuel
    `N + 1`; in the other modes with any fuel `F`), `f[k]` is the model's value for `k < n`, and `f[k]` is untouched for `k ≥ n` -/
theorem gen_vpar_eq (edge : Edge) (F N : ℕ) (hF : edge = .periodic → F = N + 1)
    (hsome : ∀ k, k < n → ∃ val, evalNode (fun v => ev v kts klen deg c clen 0) edge vMin vMax rPos N (vPts k) = some val) :
    ∃ σ', run U F feq f0 flen vPts n rPos vMin vMax kts klen deg c clen CN0 kN0 deltaRN0 rp CTi kTi deltaRTi (code edge) ev = .ret σ' ∧
      (∀ k, k < n → ∃ val, evalNode (fun v => ev v kts klen deg c clen 0) edge vMin vMax rPos N (vPts k) = some val ∧
        σ'.f k = interp feq CN0 kN0 deltaRN0 rp CTi kTi deltaRTi val) ∧
      (∀ k, n ≤ k → σ'.f k = f0 k) := by
  let σ0 : St := {
    f_eq := feq, f := f0, f_len := flen, vPts := vPts, vPts_len := n, rPos := rPos, vMin := vMin, vMax := vMax, kts := kts,
    kts_len := klen, deg := deg, coeffs := c, coeffs_len := clen, CN0 := CN0, kN0 := kN0, deltaRN0 := deltaRN0, rp := rp, CTi := CTi,
    kTi := kTi, deltaRTi := deltaRTi, bound := code edge, eval_spline_1d_scalar := ev }
  -- in all three modes the final `f` is the same function of the model
  suffices h : ∃ σ', run U F feq f0 flen vPts n rPos vMin vMax kts klen deg c clen CN0 kN0 deltaRN0 rp CTi kTi deltaRTi (code edge) ev = .ret σ' ∧
      σ'.f = fun k => if 0 ≤ k ∧ k < 0 + n then written σ0 edge N k else f0 k by
    obtain ⟨σ', hrun, hf⟩ := h
    refine ⟨σ', hrun, fun k hk => ?_, fun k hk => ?_⟩
    · obtain ⟨val, hval⟩ := hsome k hk
      refine ⟨val, hval, ?_⟩
      rw [hf]
      show (if 0 ≤ k ∧ k < 0 + n then written σ0 edge N k else f0 k) = _
      rw [if_pos ⟨by omega, by omega⟩]
      unfold written
      show (match evalNode (fun v => ev v kts klen deg c clen 0) edge vMin vMax rPos N (vPts k) with
        | some val => interp feq CN0 kN0 deltaRN0 rp CTi kTi deltaRTi val
        | none => 0) = _
      rw [hval]
    · rw [hf]
      show (if 0 ≤ k ∧ k < 0 + n then written σ0 edge N k else f0 k) = _
      rw [if_neg (by omega)]
  cases edge with
  | fEq =>
    obtain ⟨I, V, h⟩ := loop1_eq U F N n 0 σ0
    refine ⟨{ σ0 with i := I, v := V, f := (fun k => if 0 ≤ k ∧ k < 0 + n then written σ0 .fEq N k else σ0.f k) }, ?_, rfl⟩
    show (match general_v_parallel_advection_eval_step_loop1 U F n 0 σ0 with
      | .ok σ => Out.ret σ
      | .done o => o) = _
    rw [h]
  | null =>
    obtain ⟨I, V, h⟩ := loop2_eq U F N n 0 σ0
    refine ⟨{ σ0 with i := I, v := V, f := (fun k => if 0 ≤ k ∧ k < 0 + n then written σ0 .null N k else σ0.f k) }, ?_, rfl⟩
    show (match general_v_parallel_advection_eval_step_loop2 U F n 0 σ0 with
      | .ok σ => Out.ret σ
      | .done o => o) = _
    rw [h]
  | periodic =>
    rw [hF rfl]
    let σd : St := { σ0 with vDiff := vMax - vMin }
    have hper : ∀ k, 0 ≤ k → k < 0 + n → ∃ w, periodicImage σd.vMin σd.vMax N (σd.vPts k) = some w := by
      intro k _ hk
      obtain ⟨val, hval⟩ := hsome k (by omega)
      unfold evalNode at hval
      simp only [Option.map_eq_some_iff] at hval
      obtain ⟨w, hw, -⟩ := hval
      exact ⟨w, hw⟩
    obtain ⟨I, V, h⟩ := loop3_eq U N n 0 σd rfl hper
    refine ⟨{ σd with i := I, v := V, f := (fun k => if 0 ≤ k ∧ k < 0 + n then written σd .periodic N k else σd.f k) }, ?_, rfl⟩
    show (match general_v_parallel_advection_eval_step_loop3 U (N + 1) n 0 σd with
      | .ok σ => Out.ret σ
      | .done o => o) = _
    rw [h]

/-- a `bound` outside {0, 1, 2} (no mode of the source): the call returns and `f` is untouched -/
theorem gen_vpar_other_bound (F bound : ℕ) (h0 : bound ≠ 0) (h1 : bound ≠ 1) (h2 : bound ≠ 2) :
    ∃ σ', run U F feq f0 flen vPts n rPos vMin vMax kts klen deg c clen CN0 kN0 deltaRN0 rp CTi kTi deltaRTi bound ev = .ret σ' ∧
      σ'.f = f0 := by
  let σ0 : St := {
    f_eq := feq, f := f0, f_len := flen, vPts := vPts, vPts_len := n, rPos := rPos, vMin := vMin, vMax := vMax, kts := kts,
    kts_len := klen, deg := deg, coeffs := c, coeffs_len := clen, CN0 := CN0, kN0 := kN0, deltaRN0 := deltaRN0, rp := rp, CTi := CTi,
    kTi := kTi, deltaRTi := deltaRTi, bound := bound, eval_spline_1d_scalar := ev }
  refine ⟨σ0, ?_, rfl⟩
  show (if bound = 0 then _ else if bound = 1 then _ else if bound = 2 then _ else Out.ret σ0) = _
  rw [if_neg h0, if_neg h1, if_neg h2]

/-- the modes 'fEq' and 'null' spelled out, for every fuel: outside `[vMin, vMax]` the node receives `f_eq(rPos, v, …)` / `0.0`, inside
    the interpolant at `v` -/
theorem gen_vpar_fEq_null (F : ℕ) :
    (∃ σ', run U F feq f0 flen vPts n rPos vMin vMax kts klen deg c clen CN0 kN0 deltaRN0 rp CTi kTi deltaRTi 0 ev = .ret σ' ∧
      ∀ k, σ'.f k = if k < n then (if vPts k < vMin ∨ vPts k > vMax then feq rPos (vPts k) CN0 kN0 deltaRN0 rp CTi kTi deltaRTi
        else ev (vPts k) kts klen deg c clen 0) else f0 k) ∧
    (∃ σ', run U F feq f0 flen vPts n rPos vMin vMax kts klen deg c clen CN0 kN0 deltaRN0 rp CTi kTi deltaRTi 1 ev = .ret σ' ∧
      ∀ k, σ'.f k = if k < n then (if vPts k < vMin ∨ vPts k > vMax then 0 else ev (vPts k) kts klen deg c clen 0) else f0 k) := by
  constructor
  · obtain ⟨σ', hrun, hin, hout⟩ := gen_vpar_eq U feq f0 flen vPts n rPos vMin vMax kts klen deg c clen CN0 kN0 deltaRN0 rp CTi kTi
      deltaRTi ev .fEq F 0 (fun h => by cases h) (fun k _ => ⟨_, rfl⟩)
    refine ⟨σ', hrun, fun k => ?_⟩
    by_cases hk : k < n
    · obtain ⟨val, hval, hf⟩ := hin k hk
      rw [if_pos hk, hf]
      unfold evalNode at hval
      cases hval
      by_cases hc : vPts k < vMin ∨ vPts k > vMax
      · rw [if_pos hc, if_pos hc]; rfl
      · rw [if_neg hc, if_neg hc]; rfl
    · rw [if_neg hk, hout k (by omega)]
  · obtain ⟨σ', hrun, hin, hout⟩ := gen_vpar_eq U feq f0 flen vPts n rPos vMin vMax kts klen deg c clen CN0 kN0 deltaRN0 rp CTi kTi
      deltaRTi ev .null F 0 (fun h => by cases h) (fun k _ => ⟨_, rfl⟩)
    refine ⟨σ', hrun, fun k => ?_⟩
    by_cases hk : k < n
    · obtain ⟨val, hval, hf⟩ := hin k hk
      rw [if_pos hk, hf]
      unfold evalNode at hval
      cases hval
      by_cases hc : vPts k < vMin ∨ vPts k > vMax
      · rw [if_pos hc, if_pos hc]; rfl
      · rw [if_neg hc, if_neg hc]; rfl
    · rw [if_neg hk, hout k (by omega)]

/-- **the periodic mode with the fuel it needs**: for `vDiff = vMax − vMin > 0` and `N ≥ |v − vMin| / vDiff` for every point `v` of
    `vPts`, the generated function called with fuel `N + 1` returns; `f[k]` is the interpolant at a point `w ∈ [vMin, vMax]` that
    differs from `vPts[k]` by an integer number of widths (and is `vPts[k]` itself if that lies inside); `f[k]` is untouched for `k ≥ n` -/
theorem gen_vpar_periodic_total (hw : vMin < vMax) (N : ℕ) (hN : ∀ k, k < n → |vPts k - vMin| / (vMax - vMin) ≤ N) :
    ∃ σ', run U (N + 1) feq f0 flen vPts n rPos vMin vMax kts klen deg c clen CN0 kN0 deltaRN0 rp CTi kTi deltaRTi 2 ev = .ret σ' ∧
      (∀ k, k < n → ∃ w, vMin ≤ w ∧ w ≤ vMax ∧ (∃ m : ℤ, w = vPts k + m * (vMax - vMin)) ∧
        (vMin ≤ vPts k → vPts k ≤ vMax → w = vPts k) ∧ σ'.f k = ev w kts klen deg c clen 0) ∧
      (∀ k, n ≤ k → σ'.f k = f0 k) := by
  have hd : 0 < vMax - vMin := sub_pos.mpr hw
  have hspec : ∀ k, k < n → ∃ w, periodicImage vMin vMax N (vPts k) = some w ∧ vMin ≤ w ∧ w ≤ vMax ∧
      (∃ m : ℤ, w = vPts k + m * (vMax - vMin)) ∧ (vMin ≤ vPts k → vPts k ≤ vMax → w = vPts k) := by
    intro k hk
    have h := hN k hk
    rw [div_le_iff₀ hd] at h
    have ha := abs_le.mp h
    exact periodicImage_spec hw N (vPts k) (by linarith [ha.1]) (by linarith [ha.2])
  obtain ⟨σ', hrun, hin, hout⟩ := gen_vpar_eq U feq f0 flen vPts n rPos vMin vMax kts klen deg c clen CN0 kN0 deltaRN0 rp CTi kTi
    deltaRTi ev .periodic (N + 1) N (fun _ => rfl) (fun k hk => by
      obtain ⟨w, hw', -⟩ := hspec k hk
      exact ⟨_, by unfold evalNode; rw [hw']; rfl⟩)
  refine ⟨σ', hrun, fun k hk => ?_, hout⟩
  obtain ⟨w, hw', lo, hi, hm, hid⟩ := hspec k hk
  obtain ⟨val, hval, hf⟩ := hin k hk
  refine ⟨w, lo, hi, hm, hid, ?_⟩
  unfold evalNode at hval
  rw [hw'] at hval
  cases hval
  exact hf

/-- a fuel that covers every point of a finite array exists -/
theorem exists_fuel (d : ℚ) (_hd : 0 < d) : ∀ m : ℕ, ∃ N : ℕ, ∀ k, k < m → |vPts k - vMin| / d ≤ N := by
  intro m
  induction m with
  | zero => exact ⟨0, fun k hk => by omega⟩
  | succ m ih =>
    obtain ⟨N, hN⟩ := ih
    obtain ⟨M, hM⟩ := exists_nat_ge (|vPts m - vMin| / d)
    refine ⟨max N M, fun k hk => ?_⟩
    by_cases hkm : k = m
    · subst hkm
      exact le_trans hM (by exact_mod_cast le_max_right N M)
    · exact le_trans (hN k (by omega)) (by exact_mod_cast le_max_left N M)

/-- **termination of the periodic mode**: for `vDiff = vMax − vMin > 0` there is a fuel beyond which the generated function always
    returns, and what it writes into `f` does not depend on the fuel -/
theorem gen_vpar_periodic_terminates (hw : vMin < vMax) :
    ∃ (N0 : ℕ) (g : ℕ → ℚ), ∀ F, N0 < F →
      ∃ σ', run U F feq f0 flen vPts n rPos vMin vMax kts klen deg c clen CN0 kN0 deltaRN0 rp CTi kTi deltaRTi 2 ev = .ret σ' ∧
        σ'.f = g := by
  have hd : 0 < vMax - vMin := sub_pos.mpr hw
  obtain ⟨N0, hN0⟩ := exists_fuel vPts vMin (vMax - vMin) hd n
  -- the values: the model's periodic image with fuel N0 (larger fuels give the same image)
  refine ⟨N0, fun k => if k < n then
      (match periodicImage vMin vMax N0 (vPts k) with | some w => ev w kts klen deg c clen 0 | none => 0) else f0 k, fun F hF => ?_⟩
  obtain ⟨N, rfl⟩ : ∃ N, F = N + 1 := ⟨F - 1, by omega⟩
  have hN : ∀ k, k < n → |vPts k - vMin| / (vMax - vMin) ≤ (N : ℚ) := fun k hk =>
    le_trans (hN0 k hk) (by exact_mod_cast (by omega : N0 ≤ N))
  have himg : ∀ k, k < n → ∃ w, periodicImage vMin vMax N0 (vPts k) = some w := by
    intro k hk
    have h := hN0 k hk
    rw [div_le_iff₀ hd] at h
    have ha := abs_le.mp h
    obtain ⟨w, hw', -⟩ := periodicImage_spec hw N0 (vPts k) (by linarith [ha.1]) (by linarith [ha.2])
    exact ⟨w, hw'⟩
  obtain ⟨σ', hrun, hin, hout⟩ := gen_vpar_eq U feq f0 flen vPts n rPos vMin vMax kts klen deg c clen CN0 kN0 deltaRN0 rp CTi kTi
    deltaRTi ev .periodic (N + 1) N (fun _ => rfl) (fun k hk => by
      obtain ⟨w, hw'⟩ := himg k hk
      exact ⟨_, by unfold evalNode; rw [periodicImage_fuel_le N0 (vPts k) w hw' N (by omega)]; rfl⟩)
  refine ⟨σ', hrun, ?_⟩
  funext k
  by_cases hk : k < n
  · obtain ⟨w, hw'⟩ := himg k hk
    obtain ⟨val, hval, hf⟩ := hin k hk
    rw [if_pos hk, hw', hf]
    unfold evalNode at hval
    rw [periodicImage_fuel_le N0 (vPts k) w hw' N (by omega)] at hval
    cases hval
    rfl
  · rw [if_neg hk, hout k (by omega)]

end run

/-! ## concrete instance: five points `-7, 1/2, 3, 10, 5/4` on `[vMin, vMax] = [0, 3]`, `feq r v … = 100 + r + v + CN0`, `ev x … = 2x + 1`;
    `f` holds 9 before the call (six entries are shown: the sixth must stay 9) -/
def cPts : ℕ → ℚ := fun i => ([-7, 1 / 2, 3, 10, 5 / 4] : List ℚ).getD i 0
def cFEq : FEq := fun r v CN0 _ _ _ _ _ _ => 100 + r + v + CN0
def cEv : Ev := fun x _ _ _ _ _ _ => 2 * x + 1

example : ∃ σ', run (fun _ => 7) 5 cFEq (fun _ => 9) 5 cPts 5 20 0 3 (fun _ => 0) 0 3 (fun _ => 0) 0 1 2 3 4 5 6 7 2 cEv = .ret σ' ∧
    (∀ k, k < 5 → ∃ w, (0 : ℚ) ≤ w ∧ w ≤ 3 ∧ (∃ m : ℤ, w = cPts k + m * (3 - 0)) ∧ (0 ≤ cPts k → cPts k ≤ 3 → w = cPts k) ∧
      σ'.f k = cEv w (fun _ => 0) 0 3 (fun _ => 0) 0 0) ∧ (∀ k, 5 ≤ k → σ'.f k = 9) :=
  gen_vpar_periodic_total (fun _ => 7) cFEq (fun _ => 9) 5 cPts 5 20 0 3 (fun _ => 0) 0 3 (fun _ => 0) 0 1 2 3 4 5 6 7 cEv (by norm_num) 4
    (fun k hk => by
      have : k = 0 ∨ k = 1 ∨ k = 2 ∨ k = 3 ∨ k = 4 := by omega
      rcases this with rfl | rfl | rfl | rfl | rfl <;> norm_num [cPts, abs_of_nonneg, abs_of_neg])
/-- the generated code itself in the three modes (fuel 4: the point 10 needs three subtractions, -7 three additions), with fuel 3 (one
    short: out of fuel), and with a `bound` that is no mode -/
example : ([0, 1, 2].map fun b => match run (fun _ => 7) 4 cFEq (fun _ => 9) 5 cPts 5 20 0 3 (fun _ => 0) 0 3 (fun _ => 0) 0 1 2 3 4 5 6 7 b cEv with
    | .ret σ => (List.range 6).map σ.f | _ => []) =
    [[114, 2, 7, 131, 7 / 2, 9], [0, 2, 7, 0, 7 / 2, 9], [5, 2, 7, 3, 7 / 2, 9]] := by decide +kernel
example : (match run (fun _ => 7) 3 cFEq (fun _ => 9) 5 cPts 5 20 0 3 (fun _ => 0) 0 3 (fun _ => 0) 0 1 2 3 4 5 6 7 2 cEv with
    | .outOfFuel => true | _ => false) = true := by decide +kernel
example : (match run (fun _ => 7) 4 cFEq (fun _ => 9) 5 cPts 5 20 0 3 (fun _ => 0) 0 3 (fun _ => 0) 0 1 2 3 4 5 6 7 3 cEv with
    | .ret σ => (List.range 6).map σ.f | _ => []) = [9, 9, 9, 9, 9, 9] := by decide +kernel

end PygyroVerif.C11Gen
