/-
C16, tie by translation: the kernels `get_rho` and `get_perturbed_rho`.  `Generated/DensityGen.lean` is REGENERATED on every run of
`./check C16` from pygyro/poisson/poisson_tools.py (harness/translate_pure.py, target `density`: the four nested `for` loops are
structurally recursive functions over the record of all locals, the 3-D array `rho` and the 4-D array `grid` are functions
`ℕ → ℕ → ℕ → ℚ` / `ℕ → ℕ → ℕ → ℕ → ℚ`, `rho[i, j, k] = 0.0` / `rho[i, j, k] += v` are functional updates at that one position,
`n, m, p = rho.shape` and `nc, = quad_coeffs.shape` read the extent parameters `rho_len0..2`, `quad_coeffs_len`).

The parameter `rho` is annotated with the type variable `T` (`complex128[:,:,:]` or `float[:,:,:]`): the generated file is the REAL
instance (floats = exact rationals).  The model (Model/Density.lean) is stated over every field `K`; it is used here at `K = ℚ`.

This file proves that the generated functions compute what the hand-written kernels `Density.getRhoKernel` /
`Density.getPerturbedRhoKernel` (about which the theorems of Props/C16.lean speak) compute: for ALL extents `n`, `m`, `p`, all
coefficient arrays of every length `nc`, all `grid`, `feq`, and every previous content of `rho`, the call returns, `rho[i, j, k]`
holds the model kernel for `i < n`, `j < m`, `k < p`, and every other entry of `rho` is untouched; in particular what `rho` held
before the call has no influence on the entries inside the box.
-/
import PygyroVerif.Generated.DensityGen
import PygyroVerif.Props.C16

namespace PygyroVerif.C16Gen
open PygyroVerif PygyroVerif.Density
open PygyroVerif.Gen.Density

/-- the accumulation `for l in range(i, i+n): acc += t l`, from an arbitrary start -/
def accFrom (t : ℕ → ℚ) (i n : ℕ) (acc : ℚ) : ℚ :=
  (List.range' i n).foldl (fun acc l => acc + t l) acc

theorem accFrom_succ (t : ℕ → ℚ) (i n : ℕ) (acc : ℚ) : accFrom t i (n + 1) acc = accFrom t (i + 1) n (acc + t i) := by
  simp only [accFrom, List.range'_succ, List.foldl_cons]

theorem rhoLoop_eq_accFrom (q g : ℕ → ℚ) (nc : ℕ) : rhoLoop q g nc = accFrom (fun l => q l * g l) 0 nc 0 := by
  simp only [rhoLoop, accFrom, List.range_eq_range']

theorem pertLoop_eq_accFrom (q g fe : ℕ → ℚ) (nc : ℕ) :
    pertLoop q g fe nc = accFrom (fun l => q l * (g l - fe l)) 0 nc 0 := by
  simp only [pertLoop, accFrom, List.range_eq_range']

/-! ## `get_rho` -/
section Rho
open PygyroVerif.Gen.Density.get_rho_

/-- innermost loop `for l in range(nc): rho[i, j, k] += quad_coeffs[l]*grid[i, j, k, l]`, started at `i` with `n` iterations left:
    only `rho[σ.i, σ.j, σ.k]` changes, to the accumulation of the model -/
theorem rho_loop4_eq (U : ℕ → ℚ) (F : ℕ) : ∀ (n i : ℕ) (σ : St),
    ∃ L, get_rho_loop4 U F n i σ = .ok { σ with l := L, rho := (fun a b c =>
      if a = σ.i ∧ b = σ.j ∧ c = σ.k then
        accFrom (fun l => σ.quad_coeffs l * σ.grid σ.i σ.j σ.k l) i n (σ.rho σ.i σ.j σ.k) else σ.rho a b c) } := by
  intro n
  induction n with
  | zero =>
    intro i σ
    refine ⟨σ.l, ?_⟩
    show Res.ok σ = _
    congr 1
    have : (fun a b c => if a = σ.i ∧ b = σ.j ∧ c = σ.k then
        accFrom (fun l => σ.quad_coeffs l * σ.grid σ.i σ.j σ.k l) i 0 (σ.rho σ.i σ.j σ.k) else σ.rho a b c) = σ.rho := by
      funext a b c
      by_cases h : a = σ.i ∧ b = σ.j ∧ c = σ.k
      · rw [if_pos h, h.1, h.2.1, h.2.2]; rfl
      · rw [if_neg h]
    rw [this]
  | succ n ih =>
    intro i σ
    let σ1 : St := { σ with l := i, rho := (fun a b c =>
      if a = σ.i ∧ b = σ.j ∧ c = σ.k then σ.rho σ.i σ.j σ.k + σ.quad_coeffs i * σ.grid σ.i σ.j σ.k i else σ.rho a b c) }
    obtain ⟨L, hrun⟩ := ih (i + 1) σ1
    refine ⟨L, ?_⟩
    show get_rho_loop4 U F n (i + 1) σ1 = _
    rw [hrun]
    congr 1
    show ({ σ1 with l := L, rho := _ } : St) = { σ with l := L, rho := _ }
    have : (fun a b c => if a = σ1.i ∧ b = σ1.j ∧ c = σ1.k then
          accFrom (fun l => σ1.quad_coeffs l * σ1.grid σ1.i σ1.j σ1.k l) (i + 1) n (σ1.rho σ1.i σ1.j σ1.k) else σ1.rho a b c)
        = (fun a b c => if a = σ.i ∧ b = σ.j ∧ c = σ.k then
          accFrom (fun l => σ.quad_coeffs l * σ.grid σ.i σ.j σ.k l) i (n + 1) (σ.rho σ.i σ.j σ.k) else σ.rho a b c) := by
      funext a b c
      show (if a = σ.i ∧ b = σ.j ∧ c = σ.k then accFrom (fun l => σ.quad_coeffs l * σ.grid σ.i σ.j σ.k l) (i + 1) n
          (if σ.i = σ.i ∧ σ.j = σ.j ∧ σ.k = σ.k then σ.rho σ.i σ.j σ.k + σ.quad_coeffs i * σ.grid σ.i σ.j σ.k i
            else σ.rho σ.i σ.j σ.k)
        else (if a = σ.i ∧ b = σ.j ∧ c = σ.k then σ.rho σ.i σ.j σ.k + σ.quad_coeffs i * σ.grid σ.i σ.j σ.k i
            else σ.rho a b c)) = _
      by_cases h : a = σ.i ∧ b = σ.j ∧ c = σ.k
      · rw [if_pos h, if_pos h, if_pos ⟨rfl, rfl, rfl⟩, accFrom_succ]
      · rw [if_neg h, if_neg h, if_neg h]
    rw [this]

/-- the model kernel at one position, as the accumulation from `0.0` -/
theorem getRhoKernel_eq_accFrom (q : ℕ → ℚ) (nc : ℕ) (grid : ℕ → ℕ → ℕ → ℕ → ℚ) (a b c : ℕ) :
    getRhoKernel q nc grid a b c = accFrom (fun l => q l * grid a b c l) 0 nc 0 :=
  rhoLoop_eq_accFrom q (grid a b c) nc

/-- loop `for k in range(p):` at fixed `i`, `j`, started at `i` with `n` iterations left: the entries `rho[σ.i, σ.j, i .. i+n)`
    receive the model's values, nothing else changes -/
theorem rho_loop3_eq (U : ℕ → ℚ) (F : ℕ) : ∀ (n i : ℕ) (σ : St),
    ∃ K L, get_rho_loop3 U F n i σ = .ok { σ with k := K, l := L, rho := (fun a b c =>
      if a = σ.i ∧ b = σ.j ∧ i ≤ c ∧ c < i + n then getRhoKernel σ.quad_coeffs σ.nc σ.grid a b c else σ.rho a b c) } := by
  intro n
  induction n with
  | zero =>
    intro i σ
    refine ⟨σ.k, σ.l, ?_⟩
    show Res.ok σ = _
    congr 1
    have : (fun a b c => if a = σ.i ∧ b = σ.j ∧ i ≤ c ∧ c < i + 0 then getRhoKernel σ.quad_coeffs σ.nc σ.grid a b c
        else σ.rho a b c) = σ.rho := by
      funext a b c
      rw [if_neg (by omega)]
    rw [this]
  | succ n ih =>
    intro i σ
    -- the state after `rho[i, j, k] = 0.0`
    let σ0 : St := { σ with k := i, rho := (fun a b c => if a = σ.i ∧ b = σ.j ∧ c = i then (0 : ℚ) else σ.rho a b c) }
    obtain ⟨L4, h4⟩ := rho_loop4_eq U F (σ0.nc - 0) 0 σ0
    -- the state after the innermost loop
    let σ1 : St := { σ0 with l := L4, rho := (fun a b c =>
      if a = σ0.i ∧ b = σ0.j ∧ c = σ0.k then
        accFrom (fun l => σ0.quad_coeffs l * σ0.grid σ0.i σ0.j σ0.k l) 0 (σ0.nc - 0) (σ0.rho σ0.i σ0.j σ0.k) else σ0.rho a b c) }
    obtain ⟨K, L, hrun⟩ := ih (i + 1) σ1
    refine ⟨K, L, ?_⟩
    have hstep : get_rho_loop3 U F (n + 1) i σ = get_rho_loop3 U F n (i + 1) σ1 := by
      show (match get_rho_loop4 U F (σ0.nc - 0) 0 σ0 with
        | .ok σ => get_rho_loop3 U F n (i + 1) σ
        | .done o => .done o) = _
      rw [h4]
    rw [hstep, hrun]
    congr 1
    show ({ σ1 with k := K, l := L, rho := _ } : St) = { σ with k := K, l := L, rho := _ }
    have : (fun a b c => if a = σ1.i ∧ b = σ1.j ∧ i + 1 ≤ c ∧ c < i + 1 + n then getRhoKernel σ1.quad_coeffs σ1.nc σ1.grid a b c
          else σ1.rho a b c)
        = (fun a b c => if a = σ.i ∧ b = σ.j ∧ i ≤ c ∧ c < i + (n + 1) then getRhoKernel σ.quad_coeffs σ.nc σ.grid a b c
          else σ.rho a b c) := by
      funext a b c
      show (if a = σ.i ∧ b = σ.j ∧ i + 1 ≤ c ∧ c < i + 1 + n then getRhoKernel σ.quad_coeffs σ.nc σ.grid a b c
        else (if a = σ.i ∧ b = σ.j ∧ c = i then
            accFrom (fun l => σ.quad_coeffs l * σ.grid σ.i σ.j i l) 0 (σ.nc - 0)
              (if σ.i = σ.i ∧ σ.j = σ.j ∧ i = i then (0 : ℚ) else σ.rho σ.i σ.j i)
          else (if a = σ.i ∧ b = σ.j ∧ c = i then (0 : ℚ) else σ.rho a b c))) = _
      by_cases h1 : a = σ.i ∧ b = σ.j ∧ i + 1 ≤ c ∧ c < i + 1 + n
      · rw [if_pos h1, if_pos ⟨h1.1, h1.2.1, by omega, by omega⟩]
      · rw [if_neg h1]
        by_cases h2 : a = σ.i ∧ b = σ.j ∧ c = i
        · rw [if_pos h2, if_pos ⟨rfl, rfl, rfl⟩, if_pos ⟨h2.1, h2.2.1, by omega, by omega⟩, getRhoKernel_eq_accFrom,
            h2.1, h2.2.1, h2.2.2, Nat.sub_zero]
        · rw [if_neg h2, if_neg h2, if_neg (by omega)]
    rw [this]

/-- loop `for j in range(m):` at fixed `i`: rows `rho[σ.i, i .. i+n, 0 .. p)` receive the model's values, nothing else changes -/
theorem rho_loop2_eq (U : ℕ → ℚ) (F : ℕ) : ∀ (n i : ℕ) (σ : St),
    ∃ J K L, get_rho_loop2 U F n i σ = .ok { σ with j := J, k := K, l := L, rho := (fun a b c =>
      if a = σ.i ∧ (i ≤ b ∧ b < i + n) ∧ c < σ.p then getRhoKernel σ.quad_coeffs σ.nc σ.grid a b c else σ.rho a b c) } := by
  intro n
  induction n with
  | zero =>
    intro i σ
    refine ⟨σ.j, σ.k, σ.l, ?_⟩
    show Res.ok σ = _
    congr 1
    have : (fun a b c => if a = σ.i ∧ (i ≤ b ∧ b < i + 0) ∧ c < σ.p then getRhoKernel σ.quad_coeffs σ.nc σ.grid a b c
        else σ.rho a b c) = σ.rho := by
      funext a b c
      rw [if_neg (by omega)]
    rw [this]
  | succ n ih =>
    intro i σ
    let σ0 : St := { σ with j := i }
    obtain ⟨K3, L3, h3⟩ := rho_loop3_eq U F (σ0.p - 0) 0 σ0
    let σ1 : St := { σ0 with k := K3, l := L3, rho := (fun a b c =>
      if a = σ0.i ∧ b = σ0.j ∧ 0 ≤ c ∧ c < 0 + (σ0.p - 0) then getRhoKernel σ0.quad_coeffs σ0.nc σ0.grid a b c else σ0.rho a b c) }
    obtain ⟨J, K, L, hrun⟩ := ih (i + 1) σ1
    refine ⟨J, K, L, ?_⟩
    have hstep : get_rho_loop2 U F (n + 1) i σ = get_rho_loop2 U F n (i + 1) σ1 := by
      show (match get_rho_loop3 U F (σ0.p - 0) 0 σ0 with
        | .ok σ => get_rho_loop2 U F n (i + 1) σ
        | .done o => .done o) = _
      rw [h3]
    rw [hstep, hrun]
    congr 1
    show ({ σ1 with j := J, k := K, l := L, rho := _ } : St) = { σ with j := J, k := K, l := L, rho := _ }
    have : (fun a b c => if a = σ1.i ∧ (i + 1 ≤ b ∧ b < i + 1 + n) ∧ c < σ1.p then getRhoKernel σ1.quad_coeffs σ1.nc σ1.grid a b c
          else σ1.rho a b c)
        = (fun a b c => if a = σ.i ∧ (i ≤ b ∧ b < i + (n + 1)) ∧ c < σ.p then getRhoKernel σ.quad_coeffs σ.nc σ.grid a b c
          else σ.rho a b c) := by
      funext a b c
      show (if a = σ.i ∧ (i + 1 ≤ b ∧ b < i + 1 + n) ∧ c < σ.p then getRhoKernel σ.quad_coeffs σ.nc σ.grid a b c
        else (if a = σ.i ∧ b = i ∧ 0 ≤ c ∧ c < 0 + (σ.p - 0) then getRhoKernel σ.quad_coeffs σ.nc σ.grid a b c
          else σ.rho a b c)) = _
      by_cases h1 : a = σ.i ∧ (i + 1 ≤ b ∧ b < i + 1 + n) ∧ c < σ.p
      · rw [if_pos h1, if_pos ⟨h1.1, ⟨by omega, by omega⟩, h1.2.2⟩]
      · rw [if_neg h1]
        by_cases h2 : a = σ.i ∧ b = i ∧ 0 ≤ c ∧ c < 0 + (σ.p - 0)
        · rw [if_pos h2, if_pos ⟨h2.1, ⟨by omega, by omega⟩, by omega⟩]
        · rw [if_neg h2, if_neg (by omega)]
    rw [this]

/-- outer loop `for i in range(n):` started at `i` with `n` iterations left: the slabs `i .. i+n` receive the model's values in the
    positions `(·, < m, < p)`, nothing else changes -/
theorem rho_loop1_eq (U : ℕ → ℚ) (F : ℕ) : ∀ (n i : ℕ) (σ : St),
    ∃ I J K L, get_rho_loop1 U F n i σ = .ok { σ with i := I, j := J, k := K, l := L, rho := (fun a b c =>
      if (i ≤ a ∧ a < i + n) ∧ b < σ.m ∧ c < σ.p then getRhoKernel σ.quad_coeffs σ.nc σ.grid a b c else σ.rho a b c) } := by
  intro n
  induction n with
  | zero =>
    intro i σ
    refine ⟨σ.i, σ.j, σ.k, σ.l, ?_⟩
    show Res.ok σ = _
    congr 1
    have : (fun a b c => if (i ≤ a ∧ a < i + 0) ∧ b < σ.m ∧ c < σ.p then getRhoKernel σ.quad_coeffs σ.nc σ.grid a b c
        else σ.rho a b c) = σ.rho := by
      funext a b c
      rw [if_neg (by omega)]
    rw [this]
  | succ n ih =>
    intro i σ
    let σ0 : St := { σ with i := i }
    obtain ⟨J2, K2, L2, h2⟩ := rho_loop2_eq U F (σ0.m - 0) 0 σ0
    let σ1 : St := { σ0 with j := J2, k := K2, l := L2, rho := (fun a b c =>
      if a = σ0.i ∧ (0 ≤ b ∧ b < 0 + (σ0.m - 0)) ∧ c < σ0.p then getRhoKernel σ0.quad_coeffs σ0.nc σ0.grid a b c
      else σ0.rho a b c) }
    obtain ⟨I, J, K, L, hrun⟩ := ih (i + 1) σ1
    refine ⟨I, J, K, L, ?_⟩
    have hstep : get_rho_loop1 U F (n + 1) i σ = get_rho_loop1 U F n (i + 1) σ1 := by
      show (match get_rho_loop2 U F (σ0.m - 0) 0 σ0 with
        | .ok σ => get_rho_loop1 U F n (i + 1) σ
        | .done o => .done o) = _
      rw [h2]
    rw [hstep, hrun]
    congr 1
    show ({ σ1 with i := I, j := J, k := K, l := L, rho := _ } : St) = { σ with i := I, j := J, k := K, l := L, rho := _ }
    have : (fun a b c => if (i + 1 ≤ a ∧ a < i + 1 + n) ∧ b < σ1.m ∧ c < σ1.p then getRhoKernel σ1.quad_coeffs σ1.nc σ1.grid a b c
          else σ1.rho a b c)
        = (fun a b c => if (i ≤ a ∧ a < i + (n + 1)) ∧ b < σ.m ∧ c < σ.p then getRhoKernel σ.quad_coeffs σ.nc σ.grid a b c
          else σ.rho a b c) := by
      funext a b c
      show (if (i + 1 ≤ a ∧ a < i + 1 + n) ∧ b < σ.m ∧ c < σ.p then getRhoKernel σ.quad_coeffs σ.nc σ.grid a b c
        else (if a = i ∧ (0 ≤ b ∧ b < 0 + (σ.m - 0)) ∧ c < σ.p then getRhoKernel σ.quad_coeffs σ.nc σ.grid a b c
          else σ.rho a b c)) = _
      by_cases h1 : (i + 1 ≤ a ∧ a < i + 1 + n) ∧ b < σ.m ∧ c < σ.p
      · rw [if_pos h1, if_pos ⟨⟨by omega, by omega⟩, h1.2.1, h1.2.2⟩]
      · rw [if_neg h1]
        by_cases h2 : a = i ∧ (0 ≤ b ∧ b < 0 + (σ.m - 0)) ∧ c < σ.p
        · rw [if_pos h2, if_pos ⟨⟨by omega, by omega⟩, by omega, h2.2.2⟩]
        · rw [if_neg h2, if_neg (by omega)]
    rw [this]

/-- **the generated `get_rho` computes the model's `getRhoKernel`**: for all extents `n, m, p` (`rho.shape`), coefficient arrays `q`
    of every length `nc` (`quad_coeffs.shape`), every `grid` and all previous contents `rho0` of `rho`, the call returns, `rho[i, j, k]`
    holds the model's value for every `i < n`, `j < m`, `k < p`, and every other entry of `rho` is what it was -/
theorem gen_get_rho_eq (U : ℕ → ℚ) (F : ℕ) (rho0 : ℕ → ℕ → ℕ → ℚ) (n m p : ℕ) (grid : ℕ → ℕ → ℕ → ℕ → ℚ) (q : ℕ → ℚ) (nc : ℕ) :
    ∃ σ', run U F rho0 n m p grid q nc = .ret σ' ∧
      ∀ i j k, σ'.rho i j k = if i < n ∧ j < m ∧ k < p then getRhoKernel q nc grid i j k else rho0 i j k := by
  let σ0 : St := { rho := rho0, rho_len0 := n, rho_len1 := m, rho_len2 := p, grid := grid, quad_coeffs := q, quad_coeffs_len := nc,
                   n := n, m := m, p := p, nc := nc }
  obtain ⟨I, J, K, L, h⟩ := rho_loop1_eq U F (n - 0) 0 σ0
  have hrun : run U F rho0 n m p grid q nc = .ret { σ0 with i := I, j := J, k := K, l := L, rho := (fun a b c =>
      if (0 ≤ a ∧ a < 0 + (n - 0)) ∧ b < σ0.m ∧ c < σ0.p then getRhoKernel σ0.quad_coeffs σ0.nc σ0.grid a b c
      else σ0.rho a b c) } := by
    show (match get_rho_loop1 U F (n - 0) 0 σ0 with
      | .ok σ => Out.ret σ
      | .done o => o) = _
    rw [h]
  refine ⟨_, hrun, fun i j k => ?_⟩
  show (if (0 ≤ i ∧ i < 0 + (n - 0)) ∧ j < m ∧ k < p then getRhoKernel q nc grid i j k else rho0 i j k) = _
  by_cases h1 : i < n ∧ j < m ∧ k < p
  · rw [if_pos h1, if_pos ⟨⟨by omega, by omega⟩, h1.2.1, h1.2.2⟩]
  · rw [if_neg h1, if_neg (by omega)]

/-- what `rho` held before the call has no influence inside the box: two calls on different previous contents agree there -/
theorem gen_get_rho_overwrites (U U' : ℕ → ℚ) (F F' : ℕ) (rho0 rho0' : ℕ → ℕ → ℕ → ℚ) (n m p : ℕ) (grid : ℕ → ℕ → ℕ → ℕ → ℚ)
    (q : ℕ → ℚ) (nc : ℕ) :
    ∃ σ' σ'', run U F rho0 n m p grid q nc = .ret σ' ∧ run U' F' rho0' n m p grid q nc = .ret σ'' ∧
      ∀ i j k, i < n → j < m → k < p → σ'.rho i j k = σ''.rho i j k := by
  obtain ⟨σ', h1, e1⟩ := gen_get_rho_eq U F rho0 n m p grid q nc
  obtain ⟨σ'', h2, e2⟩ := gen_get_rho_eq U' F' rho0' n m p grid q nc
  refine ⟨σ', σ'', h1, h2, fun i j k hi hj hk => ?_⟩
  rw [e1, e2, if_pos ⟨hi, hj, hk⟩, if_pos ⟨hi, hj, hk⟩]

end Rho

/-! ## `get_perturbed_rho` -/
section Pert
open PygyroVerif.Gen.Density.get_perturbed_rho_

/-- innermost loop `for l in range(nc): rho[i, j, k] += quad_coeffs[l]*(grid[i, j, k, l] - feq[i, l])`, started at `i` with `n` iterations left:
    only `rho[σ.i, σ.j, σ.k]` changes, to the accumulation of the model -/
theorem pert_loop4_eq (U : ℕ → ℚ) (F : ℕ) : ∀ (n i : ℕ) (σ : St),
    ∃ L, get_perturbed_rho_loop4 U F n i σ = .ok { σ with l := L, rho := (fun a b c =>
      if a = σ.i ∧ b = σ.j ∧ c = σ.k then
        accFrom (fun l => σ.quad_coeffs l * (σ.grid σ.i σ.j σ.k l - σ.feq σ.i l)) i n (σ.rho σ.i σ.j σ.k) else σ.rho a b c) } := by
  intro n
  induction n with
  | zero =>
    intro i σ
    refine ⟨σ.l, ?_⟩
    show Res.ok σ = _
    congr 1
    have : (fun a b c => if a = σ.i ∧ b = σ.j ∧ c = σ.k then
        accFrom (fun l => σ.quad_coeffs l * (σ.grid σ.i σ.j σ.k l - σ.feq σ.i l)) i 0 (σ.rho σ.i σ.j σ.k) else σ.rho a b c) = σ.rho := by
      funext a b c
      by_cases h : a = σ.i ∧ b = σ.j ∧ c = σ.k
      · rw [if_pos h, h.1, h.2.1, h.2.2]; rfl
      · rw [if_neg h]
    rw [this]
  | succ n ih =>
    intro i σ
    let σ1 : St := { σ with l := i, rho := (fun a b c =>
      if a = σ.i ∧ b = σ.j ∧ c = σ.k then σ.rho σ.i σ.j σ.k + σ.quad_coeffs i * (σ.grid σ.i σ.j σ.k i - σ.feq σ.i i) else σ.rho a b c) }
    obtain ⟨L, hrun⟩ := ih (i + 1) σ1
    refine ⟨L, ?_⟩
    show get_perturbed_rho_loop4 U F n (i + 1) σ1 = _
    rw [hrun]
    congr 1
    show ({ σ1 with l := L, rho := _ } : St) = { σ with l := L, rho := _ }
    have : (fun a b c => if a = σ1.i ∧ b = σ1.j ∧ c = σ1.k then
          accFrom (fun l => σ1.quad_coeffs l * (σ1.grid σ1.i σ1.j σ1.k l - σ1.feq σ1.i l)) (i + 1) n (σ1.rho σ1.i σ1.j σ1.k) else σ1.rho a b c)
        = (fun a b c => if a = σ.i ∧ b = σ.j ∧ c = σ.k then
          accFrom (fun l => σ.quad_coeffs l * (σ.grid σ.i σ.j σ.k l - σ.feq σ.i l)) i (n + 1) (σ.rho σ.i σ.j σ.k) else σ.rho a b c) := by
      funext a b c
      show (if a = σ.i ∧ b = σ.j ∧ c = σ.k then accFrom (fun l => σ.quad_coeffs l * (σ.grid σ.i σ.j σ.k l - σ.feq σ.i l)) (i + 1) n
          (if σ.i = σ.i ∧ σ.j = σ.j ∧ σ.k = σ.k then σ.rho σ.i σ.j σ.k + σ.quad_coeffs i * (σ.grid σ.i σ.j σ.k i - σ.feq σ.i i)
            else σ.rho σ.i σ.j σ.k)
        else (if a = σ.i ∧ b = σ.j ∧ c = σ.k then σ.rho σ.i σ.j σ.k + σ.quad_coeffs i * (σ.grid σ.i σ.j σ.k i - σ.feq σ.i i)
            else σ.rho a b c)) = _
      by_cases h : a = σ.i ∧ b = σ.j ∧ c = σ.k
      · rw [if_pos h, if_pos h, if_pos ⟨rfl, rfl, rfl⟩, accFrom_succ]
      · rw [if_neg h, if_neg h, if_neg h]
    rw [this]

/-- the model kernel at one position, as the accumulation from `0.0` -/
theorem getPerturbedRhoKernel_eq_accFrom (q : ℕ → ℚ) (nc : ℕ) (feq : ℕ → ℕ → ℚ) (grid : ℕ → ℕ → ℕ → ℕ → ℚ) (a b c : ℕ) :
    getPerturbedRhoKernel q nc feq grid a b c = accFrom (fun l => q l * (grid a b c l - feq a l)) 0 nc 0 :=
  pertLoop_eq_accFrom q (grid a b c) (feq a) nc

/-- loop `for k in range(p):` at fixed `i`, `j`, started at `i` with `n` iterations left: the entries `rho[σ.i, σ.j, i .. i+n)`
    receive the model's values, nothing else changes -/
theorem pert_loop3_eq (U : ℕ → ℚ) (F : ℕ) : ∀ (n i : ℕ) (σ : St),
    ∃ K L, get_perturbed_rho_loop3 U F n i σ = .ok { σ with k := K, l := L, rho := (fun a b c =>
      if a = σ.i ∧ b = σ.j ∧ i ≤ c ∧ c < i + n then getPerturbedRhoKernel σ.quad_coeffs σ.nc σ.feq σ.grid a b c else σ.rho a b c) } := by
  intro n
  induction n with
  | zero =>
    intro i σ
    refine ⟨σ.k, σ.l, ?_⟩
    show Res.ok σ = _
    congr 1
    have : (fun a b c => if a = σ.i ∧ b = σ.j ∧ i ≤ c ∧ c < i + 0 then getPerturbedRhoKernel σ.quad_coeffs σ.nc σ.feq σ.grid a b c
        else σ.rho a b c) = σ.rho := by
      funext a b c
      rw [if_neg (by omega)]
    rw [this]
  | succ n ih =>
    intro i σ
    -- the state after `rho[i, j, k] = 0.0`
    let σ0 : St := { σ with k := i, rho := (fun a b c => if a = σ.i ∧ b = σ.j ∧ c = i then (0 : ℚ) else σ.rho a b c) }
    obtain ⟨L4, h4⟩ := pert_loop4_eq U F (σ0.nc - 0) 0 σ0
    -- the state after the innermost loop
    let σ1 : St := { σ0 with l := L4, rho := (fun a b c =>
      if a = σ0.i ∧ b = σ0.j ∧ c = σ0.k then
        accFrom (fun l => σ0.quad_coeffs l * (σ0.grid σ0.i σ0.j σ0.k l - σ0.feq σ0.i l)) 0 (σ0.nc - 0) (σ0.rho σ0.i σ0.j σ0.k) else σ0.rho a b c) }
    obtain ⟨K, L, hrun⟩ := ih (i + 1) σ1
    refine ⟨K, L, ?_⟩
    have hstep : get_perturbed_rho_loop3 U F (n + 1) i σ = get_perturbed_rho_loop3 U F n (i + 1) σ1 := by
      show (match get_perturbed_rho_loop4 U F (σ0.nc - 0) 0 σ0 with
        | .ok σ => get_perturbed_rho_loop3 U F n (i + 1) σ
        | .done o => .done o) = _
      rw [h4]
    rw [hstep, hrun]
    congr 1
    show ({ σ1 with k := K, l := L, rho := _ } : St) = { σ with k := K, l := L, rho := _ }
    have : (fun a b c => if a = σ1.i ∧ b = σ1.j ∧ i + 1 ≤ c ∧ c < i + 1 + n then getPerturbedRhoKernel σ1.quad_coeffs σ1.nc σ1.feq σ1.grid a b c
          else σ1.rho a b c)
        = (fun a b c => if a = σ.i ∧ b = σ.j ∧ i ≤ c ∧ c < i + (n + 1) then getPerturbedRhoKernel σ.quad_coeffs σ.nc σ.feq σ.grid a b c
          else σ.rho a b c) := by
      funext a b c
      show (if a = σ.i ∧ b = σ.j ∧ i + 1 ≤ c ∧ c < i + 1 + n then getPerturbedRhoKernel σ.quad_coeffs σ.nc σ.feq σ.grid a b c
        else (if a = σ.i ∧ b = σ.j ∧ c = i then
            accFrom (fun l => σ.quad_coeffs l * (σ.grid σ.i σ.j i l - σ.feq σ.i l)) 0 (σ.nc - 0)
              (if σ.i = σ.i ∧ σ.j = σ.j ∧ i = i then (0 : ℚ) else σ.rho σ.i σ.j i)
          else (if a = σ.i ∧ b = σ.j ∧ c = i then (0 : ℚ) else σ.rho a b c))) = _
      by_cases h1 : a = σ.i ∧ b = σ.j ∧ i + 1 ≤ c ∧ c < i + 1 + n
      · rw [if_pos h1, if_pos ⟨h1.1, h1.2.1, by omega, by omega⟩]
      · rw [if_neg h1]
        by_cases h2 : a = σ.i ∧ b = σ.j ∧ c = i
        · rw [if_pos h2, if_pos ⟨rfl, rfl, rfl⟩, if_pos ⟨h2.1, h2.2.1, by omega, by omega⟩, getPerturbedRhoKernel_eq_accFrom,
            h2.1, h2.2.1, h2.2.2, Nat.sub_zero]
        · rw [if_neg h2, if_neg h2, if_neg (by omega)]
    rw [this]

/-- loop `for j in range(m):` at fixed `i`: rows `rho[σ.i, i .. i+n, 0 .. p)` receive the model's values, nothing else changes -/
theorem pert_loop2_eq (U : ℕ → ℚ) (F : ℕ) : ∀ (n i : ℕ) (σ : St),
    ∃ J K L, get_perturbed_rho_loop2 U F n i σ = .ok { σ with j := J, k := K, l := L, rho := (fun a b c =>
      if a = σ.i ∧ (i ≤ b ∧ b < i + n) ∧ c < σ.p then getPerturbedRhoKernel σ.quad_coeffs σ.nc σ.feq σ.grid a b c else σ.rho a b c) } := by
  intro n
  induction n with
  | zero =>
    intro i σ
    refine ⟨σ.j, σ.k, σ.l, ?_⟩
    show Res.ok σ = _
    congr 1
    have : (fun a b c => if a = σ.i ∧ (i ≤ b ∧ b < i + 0) ∧ c < σ.p then getPerturbedRhoKernel σ.quad_coeffs σ.nc σ.feq σ.grid a b c
        else σ.rho a b c) = σ.rho := by
      funext a b c
      rw [if_neg (by omega)]
    rw [this]
  | succ n ih =>
    intro i σ
    let σ0 : St := { σ with j := i }
    obtain ⟨K3, L3, h3⟩ := pert_loop3_eq U F (σ0.p - 0) 0 σ0
    let σ1 : St := { σ0 with k := K3, l := L3, rho := (fun a b c =>
      if a = σ0.i ∧ b = σ0.j ∧ 0 ≤ c ∧ c < 0 + (σ0.p - 0) then getPerturbedRhoKernel σ0.quad_coeffs σ0.nc σ0.feq σ0.grid a b c else σ0.rho a b c) }
    obtain ⟨J, K, L, hrun⟩ := ih (i + 1) σ1
    refine ⟨J, K, L, ?_⟩
    have hstep : get_perturbed_rho_loop2 U F (n + 1) i σ = get_perturbed_rho_loop2 U F n (i + 1) σ1 := by
      show (match get_perturbed_rho_loop3 U F (σ0.p - 0) 0 σ0 with
        | .ok σ => get_perturbed_rho_loop2 U F n (i + 1) σ
        | .done o => .done o) = _
      rw [h3]
    rw [hstep, hrun]
    congr 1
    show ({ σ1 with j := J, k := K, l := L, rho := _ } : St) = { σ with j := J, k := K, l := L, rho := _ }
    have : (fun a b c => if a = σ1.i ∧ (i + 1 ≤ b ∧ b < i + 1 + n) ∧ c < σ1.p then getPerturbedRhoKernel σ1.quad_coeffs σ1.nc σ1.feq σ1.grid a b c
          else σ1.rho a b c)
        = (fun a b c => if a = σ.i ∧ (i ≤ b ∧ b < i + (n + 1)) ∧ c < σ.p then getPerturbedRhoKernel σ.quad_coeffs σ.nc σ.feq σ.grid a b c
          else σ.rho a b c) := by
      funext a b c
      show (if a = σ.i ∧ (i + 1 ≤ b ∧ b < i + 1 + n) ∧ c < σ.p then getPerturbedRhoKernel σ.quad_coeffs σ.nc σ.feq σ.grid a b c
        else (if a = σ.i ∧ b = i ∧ 0 ≤ c ∧ c < 0 + (σ.p - 0) then getPerturbedRhoKernel σ.quad_coeffs σ.nc σ.feq σ.grid a b c
          else σ.rho a b c)) = _
      by_cases h1 : a = σ.i ∧ (i + 1 ≤ b ∧ b < i + 1 + n) ∧ c < σ.p
      · rw [if_pos h1, if_pos ⟨h1.1, ⟨by omega, by omega⟩, h1.2.2⟩]
      · rw [if_neg h1]
        by_cases h2 : a = σ.i ∧ b = i ∧ 0 ≤ c ∧ c < 0 + (σ.p - 0)
        · rw [if_pos h2, if_pos ⟨h2.1, ⟨by omega, by omega⟩, by omega⟩]
        · rw [if_neg h2, if_neg (by omega)]
    rw [this]

/-- outer loop `for i in range(n):` started at `i` with `n` iterations left: the slabs `i .. i+n` receive the model's values in the
    positions `(·, < m, < p)`, nothing else changes -/
theorem pert_loop1_eq (U : ℕ → ℚ) (F : ℕ) : ∀ (n i : ℕ) (σ : St),
    ∃ I J K L, get_perturbed_rho_loop1 U F n i σ = .ok { σ with i := I, j := J, k := K, l := L, rho := (fun a b c =>
      if (i ≤ a ∧ a < i + n) ∧ b < σ.m ∧ c < σ.p then getPerturbedRhoKernel σ.quad_coeffs σ.nc σ.feq σ.grid a b c else σ.rho a b c) } := by
  intro n
  induction n with
  | zero =>
    intro i σ
    refine ⟨σ.i, σ.j, σ.k, σ.l, ?_⟩
    show Res.ok σ = _
    congr 1
    have : (fun a b c => if (i ≤ a ∧ a < i + 0) ∧ b < σ.m ∧ c < σ.p then getPerturbedRhoKernel σ.quad_coeffs σ.nc σ.feq σ.grid a b c
        else σ.rho a b c) = σ.rho := by
      funext a b c
      rw [if_neg (by omega)]
    rw [this]
  | succ n ih =>
    intro i σ
    let σ0 : St := { σ with i := i }
    obtain ⟨J2, K2, L2, h2⟩ := pert_loop2_eq U F (σ0.m - 0) 0 σ0
    let σ1 : St := { σ0 with j := J2, k := K2, l := L2, rho := (fun a b c =>
      if a = σ0.i ∧ (0 ≤ b ∧ b < 0 + (σ0.m - 0)) ∧ c < σ0.p then getPerturbedRhoKernel σ0.quad_coeffs σ0.nc σ0.feq σ0.grid a b c
      else σ0.rho a b c) }
    obtain ⟨I, J, K, L, hrun⟩ := ih (i + 1) σ1
    refine ⟨I, J, K, L, ?_⟩
    have hstep : get_perturbed_rho_loop1 U F (n + 1) i σ = get_perturbed_rho_loop1 U F n (i + 1) σ1 := by
      show (match get_perturbed_rho_loop2 U F (σ0.m - 0) 0 σ0 with
        | .ok σ => get_perturbed_rho_loop1 U F n (i + 1) σ
        | .done o => .done o) = _
      rw [h2]
    rw [hstep, hrun]
    congr 1
    show ({ σ1 with i := I, j := J, k := K, l := L, rho := _ } : St) = { σ with i := I, j := J, k := K, l := L, rho := _ }
    have : (fun a b c => if (i + 1 ≤ a ∧ a < i + 1 + n) ∧ b < σ1.m ∧ c < σ1.p then getPerturbedRhoKernel σ1.quad_coeffs σ1.nc σ1.feq σ1.grid a b c
          else σ1.rho a b c)
        = (fun a b c => if (i ≤ a ∧ a < i + (n + 1)) ∧ b < σ.m ∧ c < σ.p then getPerturbedRhoKernel σ.quad_coeffs σ.nc σ.feq σ.grid a b c
          else σ.rho a b c) := by
      funext a b c
      show (if (i + 1 ≤ a ∧ a < i + 1 + n) ∧ b < σ.m ∧ c < σ.p then getPerturbedRhoKernel σ.quad_coeffs σ.nc σ.feq σ.grid a b c
        else (if a = i ∧ (0 ≤ b ∧ b < 0 + (σ.m - 0)) ∧ c < σ.p then getPerturbedRhoKernel σ.quad_coeffs σ.nc σ.feq σ.grid a b c
          else σ.rho a b c)) = _
      by_cases h1 : (i + 1 ≤ a ∧ a < i + 1 + n) ∧ b < σ.m ∧ c < σ.p
      · rw [if_pos h1, if_pos ⟨⟨by omega, by omega⟩, h1.2.1, h1.2.2⟩]
      · rw [if_neg h1]
        by_cases h2 : a = i ∧ (0 ≤ b ∧ b < 0 + (σ.m - 0)) ∧ c < σ.p
        · rw [if_pos h2, if_pos ⟨⟨by omega, by omega⟩, by omega, h2.2.2⟩]
        · rw [if_neg h2, if_neg (by omega)]
    rw [this]

/-- **the generated `get_perturbed_rho` computes the model's `getPerturbedRhoKernel`**: for all extents `n, m, p` (`rho.shape`), coefficient arrays `q`
    of every length `nc` (`quad_coeffs.shape`), every `feq`, `grid` and all previous contents `rho0` of `rho`, the call returns, `rho[i, j, k]`
    holds the model's value for every `i < n`, `j < m`, `k < p`, and every other entry of `rho` is what it was -/
theorem gen_get_perturbed_rho_eq (U : ℕ → ℚ) (F : ℕ) (rho0 : ℕ → ℕ → ℕ → ℚ) (n m p : ℕ) (feq : ℕ → ℕ → ℚ) (grid : ℕ → ℕ → ℕ → ℕ → ℚ) (q : ℕ → ℚ) (nc : ℕ) :
    ∃ σ', run U F rho0 n m p feq grid q nc = .ret σ' ∧
      ∀ i j k, σ'.rho i j k = if i < n ∧ j < m ∧ k < p then getPerturbedRhoKernel q nc feq grid i j k else rho0 i j k := by
  let σ0 : St := { rho := rho0, rho_len0 := n, rho_len1 := m, rho_len2 := p, feq := feq, grid := grid, quad_coeffs := q, quad_coeffs_len := nc,
                   n := n, m := m, p := p, nc := nc }
  obtain ⟨I, J, K, L, h⟩ := pert_loop1_eq U F (n - 0) 0 σ0
  have hrun : run U F rho0 n m p feq grid q nc = .ret { σ0 with i := I, j := J, k := K, l := L, rho := (fun a b c =>
      if (0 ≤ a ∧ a < 0 + (n - 0)) ∧ b < σ0.m ∧ c < σ0.p then getPerturbedRhoKernel σ0.quad_coeffs σ0.nc σ0.feq σ0.grid a b c
      else σ0.rho a b c) } := by
    show (match get_perturbed_rho_loop1 U F (n - 0) 0 σ0 with
      | .ok σ => Out.ret σ
      | .done o => o) = _
    rw [h]
  refine ⟨_, hrun, fun i j k => ?_⟩
  show (if (0 ≤ i ∧ i < 0 + (n - 0)) ∧ j < m ∧ k < p then getPerturbedRhoKernel q nc feq grid i j k else rho0 i j k) = _
  by_cases h1 : i < n ∧ j < m ∧ k < p
  · rw [if_pos h1, if_pos ⟨⟨by omega, by omega⟩, h1.2.1, h1.2.2⟩]
  · rw [if_neg h1, if_neg (by omega)]

/-- what `rho` held before the call has no influence inside the box: two calls on different previous contents agree there -/
theorem gen_get_perturbed_rho_overwrites (U U' : ℕ → ℚ) (F F' : ℕ) (rho0 rho0' : ℕ → ℕ → ℕ → ℚ) (n m p : ℕ) (feq : ℕ → ℕ → ℚ) (grid : ℕ → ℕ → ℕ → ℕ → ℚ)
    (q : ℕ → ℚ) (nc : ℕ) :
    ∃ σ' σ'', run U F rho0 n m p feq grid q nc = .ret σ' ∧ run U' F' rho0' n m p feq grid q nc = .ret σ'' ∧
      ∀ i j k, i < n → j < m → k < p → σ'.rho i j k = σ''.rho i j k := by
  obtain ⟨σ', h1, e1⟩ := gen_get_perturbed_rho_eq U F rho0 n m p feq grid q nc
  obtain ⟨σ'', h2, e2⟩ := gen_get_perturbed_rho_eq U' F' rho0' n m p feq grid q nc
  refine ⟨σ', σ'', h1, h2, fun i j k hi hj hk => ?_⟩
  rw [e1, e2, if_pos ⟨hi, hj, hk⟩, if_pos ⟨hi, hj, hk⟩]

end Pert

/-- **the quadrature formula of `C16.density_is_quadrature` holds of the SOURCE's kernels**, called the way `DensityFinder` calls them on
    the rank whose block starts at `(rStart, zStart)` (`grid` = that block of the global field, `feq` = the rows `rStart + i` of the
    global equilibrium table): inside the box of the local extents the generated functions store the quadrature sums of the
    global point `(rStart + i, zStart + j, k)` -/
theorem gen_density_is_quadrature (U : ℕ → ℚ) (F : ℕ) (rho0 : ℕ → ℕ → ℕ → ℚ) (n m p : ℕ) (q : ℕ → ℚ) (nc : ℕ) (fEq : ℕ → ℕ → ℚ)
    (G : ℕ → ℕ → ℕ → ℕ → ℚ) (rStart zStart : ℕ) :
    (∃ σ', get_perturbed_rho_.run U F rho0 n m p (feqRows fEq rStart) (localBlock G rStart zStart) q nc = .ret σ' ∧
      ∀ i j k, i < n → j < m → k < p → σ'.rho i j k = C16.pertSpec q nc fEq G (rStart + i) (zStart + j) k) ∧
    (∃ σ', get_rho_.run U F rho0 n m p (localBlock G rStart zStart) q nc = .ret σ' ∧
      ∀ i j k, i < n → j < m → k < p → σ'.rho i j k = C16.rhoSpec q nc G (rStart + i) (zStart + j) k) := by
  constructor
  · obtain ⟨σ', h, e⟩ := gen_get_perturbed_rho_eq U F rho0 n m p (feqRows fEq rStart) (localBlock G rStart zStart) q nc
    refine ⟨σ', h, fun i j k hi hj hk => ?_⟩
    rw [e, if_pos ⟨hi, hj, hk⟩]
    exact (C16.density_is_quadrature q nc fEq G rStart zStart i j k).1
  · obtain ⟨σ', h, e⟩ := gen_get_rho_eq U F rho0 n m p (localBlock G rStart zStart) q nc
    refine ⟨σ', h, fun i j k hi hj hk => ?_⟩
    rw [e, if_pos ⟨hi, hj, hk⟩]
    exact (C16.density_is_quadrature q nc fEq G rStart zStart i j k).2

/-! concrete instance: `rho.shape = (2, 2, 3)`, three quadrature coefficients `1/2, -1, 2` (and a fourth entry that must not be read),
    `grid[i, j, k, l] = i + 2j + 3k + l²`, `feq[i, l] = 2i - l/2`, `rho` holds 9 before the call -/
def cQ : ℕ → ℚ := fun l => ([1 / 2, -1, 2, 1000] : List ℚ).getD l 0
def cGrid : ℕ → ℕ → ℕ → ℕ → ℚ := fun i j k l => (i : ℚ) + 2 * j + 3 * k + (l : ℚ) * l
def cFeq : ℕ → ℕ → ℚ := fun i l => 2 * (i : ℚ) - (l : ℚ) / 2

example : ∃ σ', get_rho_.run (fun _ => 7) 0 (fun _ _ _ => 9) 2 2 3 cGrid cQ 3 = .ret σ' ∧
    ∀ i j k, σ'.rho i j k = if i < 2 ∧ j < 2 ∧ k < 3 then getRhoKernel cQ 3 cGrid i j k else 9 :=
  gen_get_rho_eq (fun _ => 7) 0 (fun _ _ _ => 9) 2 2 3 cGrid cQ 3
example : ∃ σ', get_perturbed_rho_.run (fun _ => 7) 0 (fun _ _ _ => 9) 2 2 3 cFeq cGrid cQ 3 = .ret σ' ∧
    ∀ i j k, σ'.rho i j k = if i < 2 ∧ j < 2 ∧ k < 3 then getPerturbedRhoKernel cQ 3 cFeq cGrid i j k else 9 :=
  gen_get_perturbed_rho_eq (fun _ => 7) 0 (fun _ _ _ => 9) 2 2 3 cFeq cGrid cQ 3
/-- the generated code itself, evaluated on `i < 3`, `j < 2`, `k < 4` (slab `i = 2` and column `k = 3` are outside the loops) -/
example : (match get_rho_.run (fun _ => 7) 0 (fun _ _ _ => 9) 2 2 3 cGrid cQ 3 with
    | .ret σ => (List.range 3).map (fun i => (List.range 2).map (fun j => (List.range 4).map (σ.rho i j))) | _ => []) =
    [[[7, 23 / 2, 16, 9], [10, 29 / 2, 19, 9]], [[17 / 2, 13, 35 / 2, 9], [23 / 2, 16, 41 / 2, 9]], [[9, 9, 9, 9], [9, 9, 9, 9]]] := by
  decide +kernel
example : (match get_perturbed_rho_.run (fun _ => 7) 0 (fun _ _ _ => 9) 2 2 3 cFeq cGrid cQ 3 with
    | .ret σ => (List.range 3).map (fun i => (List.range 2).map (fun j => (List.range 4).map (σ.rho i j))) | _ => []) =
    [[[17 / 2, 13, 35 / 2, 9], [23 / 2, 16, 41 / 2, 9]], [[7, 23 / 2, 16, 9], [10, 29 / 2, 19, 9]], [[9, 9, 9, 9], [9, 9, 9, 9]]] := by
  decide +kernel

end PygyroVerif.C16Gen
