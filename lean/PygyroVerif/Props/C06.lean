/-
C06 — All ranks issue matching collectives; no layout change can deadlock.  Property theorems only.
Model: Model/Collectives.lean (abstract machine).

If the per-rank programs of collectives are the projections of ONE global event list — which is what "every member
of a communicator issues the same sequence of collective operations" means once the control flow that decides the
sequence is rank-independent inside every communicator instance — then, whatever order the ranks arrive in:
  * from every state in which something remains to be done some event can complete   (`progress`, `no_deadlock`)
  * completing an event never disables another one                                    (`enabled_persist`)
  * every schedule therefore completes all events after exactly `E.length` completions (`schedule_terminates`)
The harness establishes the hypothesis per configuration: one complete run of the real code on the simulated MPI yields
the completion log `E`; the per-rank traces are checked to be its projections and to be identical under every other
scheduler policy (the programs do not depend on the schedule); counts, roots, datatypes are compared at every rendezvous.
-/
import PygyroVerif.Model.Collectives
import Mathlib.Tactic.ByContra
import Mathlib.Logic.Basic

namespace PygyroVerif.C06
open PygyroVerif.Coll

theorem find_range_least (n : Nat) (p : Nat → Bool) (i : Nat) (hi : i < n) (hp : p i = true)
    (hleast : ∀ j, j < i → p j = false) : (List.range n).find? p = some i := by
  induction n with
  | zero => omega
  | succ n ih =>
    rw [List.range_succ, List.find?_append]
    by_cases h : i < n
    · rw [ih h]; rfl
    · have e : i = n := by omega
      subst e
      have hnone : (List.range i).find? p = none := by
        rw [List.find?_eq_none]
        intro x hx
        have := hleast x (by simpa using hx)
        simp [this]
      rw [hnone]
      simp [hp]

/-- the least event that is not done is enabled -/
theorem least_undone_enabled (E : List Event) (done : Nat → Bool) (i : Nat) (hi : i < E.length)
    (hd : done i = false) (hleast : ∀ j, j < i → done j = true) : Enabled E done i := by
  refine ⟨hi, hd, ?_⟩
  intro r hr
  unfold head
  apply find_range_least _ _ i hi
  · simp [hr, hd]
  · intro j hj; simp [hleast j hj]

/-- **progress**: while something remains to be done, some event can complete — no deadlock, in any state,
    hence under any arrival order -/
theorem progress (E : List Event) (done : Nat → Bool) (h : ∃ i, i < E.length ∧ done i = false) :
    ∃ i, Enabled E done i := by
  -- least undone index by strong induction
  have key : ∀ n, (∃ i, i < n ∧ i < E.length ∧ done i = false) →
      ∃ i, i < E.length ∧ done i = false ∧ ∀ j, j < i → done j = true := by
    intro n
    induction n with
    | zero => rintro ⟨i, h0, _⟩; omega
    | succ n ih =>
      rintro ⟨i, hin, hil, hid⟩
      by_cases hex : ∃ j, j < n ∧ j < E.length ∧ done j = false
      · exact ih hex
      · refine ⟨i, hil, hid, ?_⟩
        intro j hj
        by_contra hc
        have hjf : done j = false := by simpa using hc
        exact hex ⟨j, by omega, by omega, hjf⟩
  obtain ⟨i, hi, hd⟩ := h
  obtain ⟨k, hk, hkd, hkl⟩ := key (i + 1) ⟨i, by omega, hi, hd⟩
  exact ⟨k, least_undone_enabled E done k hk hkd hkl⟩

/-- if nothing can complete, everything is done: a run can only stop when all ranks have finished -/
theorem no_deadlock (E : List Event) (done : Nat → Bool) (h : ¬ ∃ i, Enabled E done i) :
    ∀ i, i < E.length → done i = true := by
  intro i hi
  by_contra hc
  exact h (progress E done ⟨i, hi, by simpa using hc⟩)

/-- two different enabled events have no common member -/
theorem enabled_disjoint (E : List Event) (done : Nat → Bool) (i j : Nat) (hij : i ≠ j)
    (hi : Enabled E done i) (hj : Enabled E done j) (r : Nat) (hr : takesPart E r i = true) :
    takesPart E r j = false := by
  by_contra hc
  have h1 := hi.2.2 r hr
  have h2 := hj.2.2 r (by simpa using hc)
  rw [h1] at h2
  exact hij (Option.some.inj h2)

theorem find_congr (l : List Nat) (p q : Nat → Bool) (h : ∀ x ∈ l, p x = q x) : l.find? p = l.find? q := by
  induction l with
  | nil => rfl
  | cons a t ih =>
    simp only [List.find?_cons, h a (by simp)]
    rw [ih (fun x hx => h x (by simp [hx]))]

/-- **persistence (diamond)**: completing one enabled event does not disable another — the order in which the
    scheduler lets communicator instances complete is irrelevant -/
theorem enabled_persist (E : List Event) (done : Nat → Bool) (i j : Nat) (hij : i ≠ j)
    (hi : Enabled E done i) (hj : Enabled E done j) : Enabled E (fire done i) j := by
  refine ⟨hj.1, ?_, ?_⟩
  · simp [fire, hj.2.1, Ne.symm hij]
  · intro r hr
    have hri : takesPart E r i = false := by
      by_contra hc
      have := enabled_disjoint E done i j hij hi hj r (by simpa using hc)
      rw [hr] at this; exact absurd this (by simp)
    rw [← hj.2.2 r hr]
    unfold head
    apply find_congr
    intro x _
    by_cases hx : x = i
    · subst hx; simp [hri]
    · have hb : (x == i) = false := by simpa using hx
      simp [fire, hb]

/-- completing an enabled event reduces the number of remaining events by exactly one -/
theorem fire_remaining (E : List Event) (done : Nat → Bool) (i : Nat) (hi : i < E.length) (hd : done i = false) :
    remaining E (fire done i) + 1 = remaining E done := by
  unfold remaining
  have key : ∀ n, ((List.range n).filter (fun k => !fire done i k)).length + (if i < n then 1 else 0)
      = ((List.range n).filter (fun k => !done k)).length := by
    intro n
    induction n with
    | zero => simp
    | succ n ih =>
      rw [List.range_succ, List.filter_append, List.filter_append, List.length_append, List.length_append]
      by_cases hn : n = i
      · subst hn
        have : ¬ n < n := Nat.lt_irrefl n
        simp only [this, ↓reduceIte, Nat.add_zero] at ih
        have hnn : n < n + 1 := Nat.lt_succ_self n
        simp only [hnn, ↓reduceIte, List.filter_cons, List.filter_nil]
        have h1 : fire done n n = true := by simp [fire]
        simp only [h1, hd, ih]
        simp
      · by_cases hlt : i < n
        · have h1 : i < n + 1 := by omega
          simp only [hlt, h1, ↓reduceIte] at ih ⊢
          have : fire done i n = done n := by simp [fire, hn]
          simp only [List.filter_cons, List.filter_nil, this]
          omega
        · have h1 : ¬ i < n + 1 := by omega
          simp only [hlt, h1, ↓reduceIte, Nat.add_zero] at ih ⊢
          have : fire done i n = done n := by simp [fire, hn]
          simp only [List.filter_cons, List.filter_nil, this]
          omega
  have := key E.length
  simp only [hi, ↓reduceIte] at this
  exact this

/-- a schedule: a list of events completed one after the other, each enabled when it completes -/
def ValidSchedule (E : List Event) : (Nat → Bool) → List Nat → Prop
  | _, [] => True
  | done, i :: rest => Enabled E done i ∧ ValidSchedule E (fire done i) rest

def runSchedule : (Nat → Bool) → List Nat → (Nat → Bool)
  | done, [] => done
  | done, i :: rest => runSchedule (fire done i) rest

/-- **termination**: no schedule is longer than the number of events, and a schedule that cannot be extended has
    completed every event (all ranks have finished) -/
theorem schedule_terminates (E : List Event) (done : Nat → Bool) (s : List Nat) (hs : ValidSchedule E done s) :
    s.length + remaining E (runSchedule done s) = remaining E done ∧
    ((¬ ∃ i, Enabled E (runSchedule done s) i) → ∀ i, i < E.length → runSchedule done s i = true) := by
  constructor
  · induction s generalizing done with
    | nil => simp [runSchedule]
    | cons i rest ih =>
      obtain ⟨hen, hrest⟩ := hs
      have := ih (fire done i) hrest
      have h1 := fire_remaining E done i hen.1 hen.2.1
      simp only [runSchedule, List.length_cons]
      omega
  · exact no_deadlock E _

/-- non-vacuity: two sub-communicators {0,1}, {2,3} and the world, interleaved -/
example : program [⟨[0,1,2,3], 0⟩, ⟨[0,1], 1⟩, ⟨[2,3], 1⟩, ⟨[0,1,2,3], 2⟩] 2 = [0, 2, 3] ∧
    head [⟨[0,1,2,3], 0⟩, ⟨[0,1], 1⟩, ⟨[2,3], 1⟩, ⟨[0,1,2,3], 2⟩] (fun i => i == 0) 3 = some 2 := by
  decide

end PygyroVerif.C06
