/-
C13 — Parallel gradient is the field-aligned finite-difference derivative.

Model: Model/ParGrad.lean (`fdStart`, `fdShift`, `fwdSteps`, `bkwdSteps`, `regimeRow`, `loops`, `parallelGradient`).
Contracts (inputs): `S i x` = theta-spline of row `i` of the potential (real interpolator), `pts j q` = reduced
position `(theta_q + iota*dz*s_j/R0) % 2pi`, `c` = output of `numpy.linalg.solve` on the moment system
(`MomentSystem`), `bz` (a square root).  All theorems hold for every order (2–6 in the property; proved for all
orders ≥ 0 resp. ≥ 1), every `nz > order`, every field.

Convergence order (the last clause of the property) is analytic; what is proved is exactness on polynomials of degree
≤ order (`fd_exact_for_polynomials_partial`) and the resulting truncation bound given a Taylor remainder
(`fd_truncation_bound`); the theta-interpolation error is C08's subject.
-/
import PygyroVerif.Lemmas.FieldLine
import Mathlib.Algebra.Order.Field.Rat
import Mathlib.Algebra.Order.BigOperators.Ring.Finset
import Mathlib.Algebra.Order.BigOperators.Group.Finset
import Mathlib.Tactic.NormNum
import Mathlib.Tactic.IntervalCases
import Mathlib.Tactic.FieldSimp
import Mathlib.Analysis.Calculus.ContDiff.Defs
import Mathlib.Analysis.Calculus.Deriv.Basic

namespace PygyroVerif.C13
open PygyroVerif.FieldLine PygyroVerif.ParGrad

variable {K : Type*} [Field K]

/-- All three loops address output row `(i - s) mod nz`: the first and third by `% nz`, the middle one by a raw index
    `i - s` that lies in `[-1, nz)` (it is `-1` for odd orders, which numpy wraps to `nz - 1`; never an IndexError). -/
theorem pargrad_regimes_eq_mod {nz order : ℕ} (h : order < nz) (i : ℕ) {j : ℕ} (hj : j ≤ order) :
    regimeRow nz order i (fdShift order j) = some (pmod ((i : ℤ) - fdShift order j) nz) :=
  regimeRow_eq h hj

/-- the raw index of the middle loop really is negative for odd orders: `i = fwd`, last shift -/
example : rawRow 8 (fwdSteps 5) (fdShift 5 5) = some 7 ∧ (fwdSteps 5 : ℤ) - fdShift 5 5 = -1 := by decide

example : ∀ order ∈ [2, 3, 4, 5, 6], ∀ i < 9, ∀ j ≤ order,
    regimeRow 9 order i (fdShift order j) = some (pmod ((i : ℤ) - fdShift order j) 9) := by decide

/-- The three loops `range(fwd)`, `range(fwd, nz-bkwd)`, `range(nz-bkwd, nz)` together visit every row exactly once, in
    order, and do what a single loop with `% nz` does. -/
theorem pargrad_three_loops_eq_one {nz order : ℕ} (h : order < nz) (S : ℕ → K → K) (pts : ℕ → ℕ → K) (c : ℕ → K) :
    loops nz order S pts c =
      (List.range nz).foldl (loopBody (modRow nz) order S pts c) (some (fun _ _ => 0)) :=
  loops_eq_single h S pts c

example : loops 5 3 (fun i x => (i : ℚ) + x) (fun j q => (j : ℚ) + q) (fun j => (j : ℚ)) =
    (List.range 5).foldl (loopBody (modRow 5) 3 (fun i x => (i : ℚ) + x) (fun j q => (j : ℚ) + q) (fun j => (j : ℚ)))
      (some (fun _ _ => 0)) :=
  pargrad_three_loops_eq_one (by norm_num) _ _ _

/-- Closed form: the scatter-add of the three loops followed by `der *= bz*inv_dz` is
    `der[a, q] = bz · (1/dz) · Σ_j c_j · S_{(a + s_j) mod nz}(pts j q)` — the finite-difference combination of the
    theta-splines along the field line through node `(q, a)`, z wrapped periodically. -/
theorem pargrad_formula {nz order : ℕ} (h : order < nz) (S : ℕ → K → K) (pts : ℕ → ℕ → K) (c : ℕ → K) (bz dz : K) :
    ∃ d, parallelGradient nz order S pts c bz dz = some d ∧
      ∀ a q, a < nz → d a q =
        bz * (1 / dz) * sumRange (order + 1) (fun j => c j * S (pmod ((a : ℤ) + fdShift order j) nz) (pts j q)) := by
  obtain ⟨d, hd, hv⟩ := parallelGradient_eq h S pts c bz dz
  refine ⟨d, hd, fun a q ha => ?_⟩
  rw [hv a q ha, mul_comm]; rfl

example : ∃ d, parallelGradient 4 3 (fun i x => (i : ℚ) + x) (fun j q => (j : ℚ) + q) (fun j => (j : ℚ)) 2 (1/2) = some d ∧
    d 0 1 = 2 * (1 / (1/2)) * sumRange 4 (fun j => (j : ℚ) * (((pmod ((0 : ℤ) + fdShift 3 j) 4 : ℕ) : ℚ) + ((j : ℚ) + 1))) := by
  obtain ⟨d, hd, hv⟩ := pargrad_formula (K := ℚ) (nz := 4) (order := 3) (by norm_num) (fun i x => (i : ℚ) + x)
    (fun j q => (j : ℚ) + q) (fun j => (j : ℚ)) 2 (1/2)
  exact ⟨d, hd, by rw [hv 0 1 (by norm_num)]; push_cast; rfl⟩

/-- the constructor's `assert self._nz > order` -/
theorem pargrad_refused_iff (nz order : ℕ) (S : ℕ → K → K) (pts : ℕ → ℕ → K) (c : ℕ → K) (bz dz : K) :
    parallelGradient nz order S pts c bz dz = none ↔ ¬ order < nz := by
  constructor
  · intro hn h
    obtain ⟨d, hd, _⟩ := parallelGradient_eq h S pts c bz dz
    rw [hd] at hn; cases hn
  · intro h; unfold parallelGradient; rw [if_neg h]

example : parallelGradient 3 3 (fun _ x => x) (fun _ q => (q : ℚ)) (fun j => (j : ℚ)) 1 1 = none :=
  (pargrad_refused_iff 3 3 _ _ _ 1 1).mpr (by norm_num)

/-- Linearity in the potential (through its theta-splines). -/
theorem pargrad_linear {nz order : ℕ} (S1 S2 S3 : ℕ → K → K) (α β : K)
    (hS : ∀ i x, S3 i x = α * S1 i x + β * S2 i x) (pts : ℕ → ℕ → K) (c : ℕ → K) (bz dz : K)
    (d1 d2 d3 : ℕ → ℕ → K)
    (h1 : parallelGradient nz order S1 pts c bz dz = some d1)
    (h2 : parallelGradient nz order S2 pts c bz dz = some d2)
    (h3 : parallelGradient nz order S3 pts c bz dz = some d3) (a q : ℕ) (ha : a < nz) :
    d3 a q = α * d1 a q + β * d2 a q := by
  have h : order < nz := by
    by_contra hn
    rw [(pargrad_refused_iff nz order S1 pts c bz dz).mpr hn] at h1; cases h1
  obtain ⟨e1, he1, hv1⟩ := parallelGradient_eq h S1 pts c bz dz
  obtain ⟨e2, he2, hv2⟩ := parallelGradient_eq h S2 pts c bz dz
  obtain ⟨e3, he3, hv3⟩ := parallelGradient_eq h S3 pts c bz dz
  rw [h1] at he1; rw [h2] at he2; rw [h3] at he3
  cases he1; cases he2; cases he3
  rw [hv1 a q ha, hv2 a q ha, hv3 a q ha, fieldSum_linear nz (order + 1) S1 S2 S3 pts _ c α β hS a q]
  ring

example : ∀ d1 d2 d3 : ℕ → ℕ → ℚ,
    parallelGradient 5 2 (fun i x => (i : ℚ) + x) (fun _ q => q) (fun j => (j : ℚ)) 2 (1/4) = some d1 →
    parallelGradient 5 2 (fun i x => (i : ℚ) * x) (fun _ q => q) (fun j => (j : ℚ)) 2 (1/4) = some d2 →
    parallelGradient 5 2 (fun i x => 2 * ((i : ℚ) + x) + 3 * ((i : ℚ) * x)) (fun _ q => q) (fun j => (j : ℚ)) 2 (1/4) = some d3 →
    d3 4 1 = 2 * d1 4 1 + 3 * d2 4 1 :=
  fun d1 d2 d3 h1 h2 h3 => pargrad_linear (K := ℚ) _ _ _ 2 3 (fun _ _ => rfl) _ _ _ _ d1 d2 d3 h1 h2 h3 4 1 (by norm_num)

/-- the same with rows given by spline coefficient arrays (hypothesis discharged by the B-spline model) -/
theorem pargrad_linear_coeffs [LinearOrder K] {nz order : ℕ} (t : ℕ → K) (nk deg : ℕ) (c1 c2 c3 : ℕ → ℕ → K) (α β : K)
    (hc : ∀ i k, c3 i k = α * c1 i k + β * c2 i k) (pts : ℕ → ℕ → K) (c : ℕ → K) (bz dz : K)
    (d1 d2 d3 : ℕ → ℕ → K)
    (h1 : parallelGradient nz order (fun r => FluxAdv.splineFn t nk deg (c1 r)) pts c bz dz = some d1)
    (h2 : parallelGradient nz order (fun r => FluxAdv.splineFn t nk deg (c2 r)) pts c bz dz = some d2)
    (h3 : parallelGradient nz order (fun r => FluxAdv.splineFn t nk deg (c3 r)) pts c bz dz = some d3)
    (a q : ℕ) (ha : a < nz) :
    d3 a q = α * d1 a q + β * d2 a q :=
  pargrad_linear _ _ _ α β (fun r x => FluxAdv.splineFn_linear t nk deg (c1 r) (c2 r) (c3 r) α β (hc r) x)
    pts c bz dz d1 d2 d3 h1 h2 h3 a q ha

example := pargrad_linear_coeffs (K := ℚ) (nz := 5) (order := 2) (fun k => (k : ℚ)) 8 1
  (fun i k => (i : ℚ) + k) (fun i k => (i : ℚ) * k) (fun i k => 2 * ((i : ℚ) + k) + 3 * ((i : ℚ) * k)) 2 3
  (fun _ _ => rfl) (fun _ q => (q : ℚ)) (fun j => (j : ℚ)) 2 (1/4)

/-- the order-2 weights `(-1/2, 0, 1/2)` solve the moment system -/
theorem moment_order2 : MomentSystem (K := ℚ) 2 (fun j => if j = 0 then -1/2 else if j = 1 then 0 else 1/2) := by
  intro i hi
  have hsh : ∀ j, fdShift 2 j = (j : ℤ) - 1 := fun j => by unfold fdShift fdStart; omega
  simp only [sumRange, List.range_succ, List.range_zero, List.nil_append, List.cons_append, List.map_cons,
    List.map_nil, List.sum_cons, List.sum_nil, hsh]
  interval_cases i <;> norm_num

/-- the weights of a solution of the moment system sum to zero (row `i = 0`) -/
theorem weights_sum_zero {order : ℕ} (c : ℕ → K) (hm : MomentSystem order c) : sumRange (order + 1) c = 0 := by
  have := hm 0 (Nat.zero_le _)
  simpa using this

example : sumRange 3 (fun j => if j = 0 then (-1/2 : ℚ) else if j = 1 then 0 else 1/2) = 0 :=
  weights_sum_zero _ moment_order2

/-- The gradient vanishes on functions that are constant along the field line through `(q, a)` (in particular
    on constants, next theorem). -/
theorem pargrad_fieldline_constant_zero {nz order : ℕ} (S : ℕ → K → K) (pts : ℕ → ℕ → K) (c : ℕ → K)
    (hm : MomentSystem order c) (bz dz : K) (d : ℕ → ℕ → K)
    (hd : parallelGradient nz order S pts c bz dz = some d) (a q : ℕ) (ha : a < nz) (v : K)
    (hline : ∀ j, j < order + 1 → S (pmod ((a : ℤ) + fdShift order j) nz) (pts j q) = v) :
    d a q = 0 := by
  have h : order < nz := by
    by_contra hn
    rw [(pargrad_refused_iff nz order S pts c bz dz).mpr hn] at hd; cases hd
  obtain ⟨e, he, hv⟩ := parallelGradient_eq h S pts c bz dz
  rw [hd] at he; cases he
  rw [hv a q ha, fieldSum_const nz (order + 1) S pts _ c v a q hline, weights_sum_zero c hm]
  ring

/-- rows `i ↦ x - i` sampled at `pts j q = j`: constant (= -1) along the field line through `(q, a) = (0, 2)` -/
example : ∀ d, parallelGradient 5 2 (fun i x => x - (i : ℚ)) (fun j _ => (j : ℚ))
    (fun j => if j = 0 then -1/2 else if j = 1 then 0 else 1/2) 1 (1/4) = some d → d 2 0 = 0 :=
  fun d hd => pargrad_fieldline_constant_zero _ _ _ moment_order2 _ _ d hd 2 0 (by norm_num) (-1)
    (fun j hj => by
      have hsh : fdShift 2 j = (j : ℤ) - 1 := by unfold fdShift fdStart; omega
      rw [hsh]
      interval_cases j <;> simp [pmod] <;> norm_num)

/-- The gradient of a constant is zero (given that the theta-interpolant of a constant is that constant). -/
theorem pargrad_constants_zero {nz order : ℕ} (S : ℕ → K → K) (C : K) (hS : ∀ i x, S i x = C) (pts : ℕ → ℕ → K)
    (c : ℕ → K) (hm : MomentSystem order c) (bz dz : K) (d : ℕ → ℕ → K)
    (hd : parallelGradient nz order S pts c bz dz = some d) (a q : ℕ) (ha : a < nz) :
    d a q = 0 :=
  pargrad_fieldline_constant_zero S pts c hm bz dz d hd a q ha C (fun _ _ => hS _ _)

example : ∀ d, parallelGradient 5 2 (fun _ _ => (3 : ℚ)) (fun _ q => q)
    (fun j => if j = 0 then -1/2 else if j = 1 then 0 else 1/2) 1 (1/4) = some d → d 4 2 = 0 :=
  fun d hd => pargrad_constants_zero _ 3 (fun _ _ => rfl) _ _ moment_order2 _ _ d hd 4 2 (by norm_num)

/-- Commutation with cyclic shifts in z: rolling the input rows by `m` rolls the output rows by `m`. -/
theorem pargrad_commutes_z_shift {nz order : ℕ} (S S' : ℕ → K → K) (m : ℤ)
    (hS : ∀ i x, i < nz → S' i x = S (pmod ((i : ℤ) + m) nz) x) (pts : ℕ → ℕ → K) (c : ℕ → K) (bz dz : K)
    (d d' : ℕ → ℕ → K)
    (hd : parallelGradient nz order S pts c bz dz = some d)
    (hd' : parallelGradient nz order S' pts c bz dz = some d') (a q : ℕ) (ha : a < nz) :
    d' a q = d (pmod ((a : ℤ) + m) nz) q := by
  have h : order < nz := by
    by_contra hn
    rw [(pargrad_refused_iff nz order S pts c bz dz).mpr hn] at hd; cases hd
  have hnz : 0 < nz := by omega
  obtain ⟨e, he, hv⟩ := parallelGradient_eq h S pts c bz dz
  obtain ⟨e', he', hv'⟩ := parallelGradient_eq h S' pts c bz dz
  rw [hd] at he; rw [hd'] at he'; cases he; cases he'
  rw [hv' a q ha, hv _ q (pmod_lt _ hnz), fieldSum_shift hnz (order + 1) S S' pts _ c m hS a q]

example : ∀ d d', parallelGradient 5 2 (fun i x => (i : ℚ) * x) (fun _ q => q) (fun j => (j : ℚ)) 1 (1/4) = some d →
    parallelGradient 5 2 (fun i x => ((pmod ((i : ℤ) + 3) 5 : ℕ) : ℚ) * x) (fun _ q => q) (fun j => (j : ℚ)) 1 (1/4) = some d' →
    d' 4 2 = d (pmod ((4 : ℤ) + 3) 5) 2 :=
  fun d d' hd hd' => pargrad_commutes_z_shift (K := ℚ) (fun i x => (i : ℚ) * x) _ 3 (fun _ _ _ => rfl) _ _ _ _ d d' hd hd' 4 2
    (by norm_num)

/-- For an even order `2k` the stencil is centred: shifts `-k..k`, `k` forward and `k` backward rows. -/
theorem stencil_symmetric_even_order (k : ℕ) :
    (∀ j, fdShift (2 * k) j = (j : ℤ) - k) ∧ fwdSteps (2 * k) = k ∧ bkwdSteps (2 * k) = k ∧
    (∀ j, j ≤ 2 * k → fdShift (2 * k) (2 * k - j) = - fdShift (2 * k) j) := by
  unfold fwdSteps bkwdSteps fdShift fdStart
  refine ⟨fun j => by omega, by omega, by omega, fun j hj => by omega⟩

example : fdShift 6 0 = -3 ∧ fdShift 6 6 = 3 ∧ fwdSteps 6 = 3 ∧ bkwdSteps 6 = 3 := by decide

/-- for odd orders the stencil has one more point ahead: shifts `-k..k+1` -/
theorem stencil_odd_order (k : ℕ) :
    (∀ j, fdShift (2 * k + 1) j = (j : ℤ) - k) ∧ fwdSteps (2 * k + 1) = k ∧ bkwdSteps (2 * k + 1) = k + 1 := by
  unfold fwdSteps bkwdSteps fdShift fdStart
  refine ⟨fun j => by omega, by omega, by omega⟩

example : fdShift 5 0 = -2 ∧ fdShift 5 5 = 3 ∧ fwdSteps 5 = 2 ∧ bkwdSteps 5 = 3 := by decide

/-- Exactness: weights solving the moment system differentiate every polynomial of degree ≤ order exactly,
    `Σ_j c_j p(x + s_j h) = h · p'(x)` (so `bz/dz` times the combination with `h = dz` is `bz · p'`).
    This is the algebraic core of "converges with the stated order". -/
theorem fd_exact_for_polynomials_partial {order : ℕ} (ho : 1 ≤ order) (c : ℕ → K) (hm : MomentSystem order c)
    (p : Polynomial K) (hp : p.natDegree ≤ order) (x h : K) :
    sumRange (order + 1) (fun j => c j * p.eval (x + ((fdShift order j : ℤ) : K) * h)) =
      h * (Polynomial.derivative p).eval x :=
  fd_exact_polynomial ho c hm p hp x h

example : sumRange 3 (fun j => (if j = 0 then -1/2 else if j = 1 then 0 else 1/2 : ℚ) *
    (Polynomial.X ^ 2 : Polynomial ℚ).eval (5 + ((fdShift 2 j : ℤ) : ℚ) * (1/4))) =
    (1/4) * (Polynomial.derivative (Polynomial.X ^ 2 : Polynomial ℚ)).eval 5 :=
  fd_exact_for_polynomials_partial (by norm_num) _ moment_order2 _ (by simp) 5 (1/4)

/-- Truncation bound: if `f` is within `M·|y - x|^(order+1)` of a polynomial `p` of degree ≤ order (its Taylor
    polynomial at `x`), the finite-difference combination of `f` differs from `h·p'(x)` by at most
    `M · (Σ_j |c_j|·|s_j|^(order+1)) · |h|^(order+1)`, i.e. the derivative estimate (after dividing by `h`) is of
    order `order` in `h`. -/
theorem fd_truncation_bound [LinearOrder K] [IsStrictOrderedRing K] {order : ℕ} (ho : 1 ≤ order) (c : ℕ → K)
    (hm : MomentSystem order c) (p : Polynomial K) (hp : p.natDegree ≤ order) (f : K → K) (x h M : K)
    (hf : ∀ y, |f y - p.eval y| ≤ M * |y - x| ^ (order + 1)) :
    |sumRange (order + 1) (fun j => c j * f (x + ((fdShift order j : ℤ) : K) * h)) -
        h * (Polynomial.derivative p).eval x| ≤
      M * sumRange (order + 1) (fun j => |c j| * |((fdShift order j : ℤ) : K)| ^ (order + 1)) * |h| ^ (order + 1) := by
  rw [← fd_exact_for_polynomials_partial ho c hm p hp x h]
  simp only [sumRange_eq_finset]
  rw [← Finset.sum_sub_distrib, Finset.mul_sum, Finset.sum_mul]
  refine (Finset.abs_sum_le_sum_abs _ _).trans (Finset.sum_le_sum (fun j _ => ?_))
  rw [← mul_sub, abs_mul]
  have h1 := hf (x + ((fdShift order j : ℤ) : K) * h)
  rw [add_sub_cancel_left, abs_mul, mul_pow] at h1
  calc |c j| * |f (x + ((fdShift order j : ℤ) : K) * h) - p.eval (x + ((fdShift order j : ℤ) : K) * h)|
      ≤ |c j| * (M * (|((fdShift order j : ℤ) : K)| ^ (order + 1) * |h| ^ (order + 1))) :=
        mul_le_mul_of_nonneg_left h1 (abs_nonneg _)
    _ = M * (|c j| * |((fdShift order j : ℤ) : K)| ^ (order + 1)) * |h| ^ (order + 1) := by ring

example : |sumRange 3 (fun j => (if j = 0 then -1/2 else if j = 1 then 0 else 1/2 : ℚ) *
      (fun y : ℚ => y ^ 2) (5 + ((fdShift 2 j : ℤ) : ℚ) * (1/4))) -
      (1/4) * (Polynomial.derivative (Polynomial.X ^ 2 : Polynomial ℚ)).eval 5| ≤
    0 * sumRange 3 (fun j => |(if j = 0 then -1/2 else if j = 1 then 0 else 1/2 : ℚ)| * |((fdShift 2 j : ℤ) : ℚ)| ^ 3) *
      |(1/4 : ℚ)| ^ 3 :=
  fd_truncation_bound (by norm_num) _ moment_order2 (Polynomial.X ^ 2) (by simp) (fun y => y ^ 2) 5 (1/4) 0
    (fun y => by simp)

/-- The full analytic clause "converges with the stated order" (NOT proved here; it needs Taylor's theorem, which turns
    smoothness into the remainder hypothesis of `fd_truncation_bound`; the theta-interpolation error is C08's subject):
    for a `C^(order+1)` function the finite-difference estimate of the derivative is within `C·|h|^order` of it. -/
def fd_converges_with_order_statement : Prop :=
  ∀ (order : ℕ), 1 ≤ order → ∀ (c : ℕ → ℝ), MomentSystem order c → ∀ (f : ℝ → ℝ), ContDiff ℝ (order + 1) f → ∀ x : ℝ,
    ∃ C δ : ℝ, 0 < δ ∧ ∀ h : ℝ, 0 < |h| → |h| < δ →
      |sumRange (order + 1) (fun j => c j * f (x + ((fdShift order j : ℤ) : ℝ) * h)) / h - deriv f x| ≤ C * |h| ^ order

end PygyroVerif.C13
