/-
C18 (extra) — the parameter-file clause in full: a parameter file reproduces all constants, whatever the order of its keys.
Completes `constants_order_independent_partial` of Props/C18.lean (the statement `constants_order_independent_statement` is
proved exactly as written there).  Model: `getConstants` (Model/Checkpoint.lean), the transcription of `get_constants` in
pygyro/initialisation/constants.py: repeated sweeps over the dictionary of entries (`popitem()`: last key first), an entry whose
expression mentions a constant that is not yet known is postponed to the next sweep; the assertion `len(data) < n` fails (`none`)
when a sweep resolves nothing.  Helper lemmas: Lemmas/ConstantsOrder.lean.
-/
import PygyroVerif.Props.C18
import PygyroVerif.Lemmas.ConstantsOrder

namespace PygyroVerif.C18
open PygyroVerif PygyroVerif.Ckpt List

/-- **`get_constants` succeeds exactly when every key is resolvable** — `Res data k`: `k` is the key of an entry all of
whose referenced constants are resolvable (a literal is resolvable; a key that refers to itself, to a cycle of keys, or to a name that is
not a key of the file, is not).  The criterion is a property of the *set* of entries: the order in which `json.load`
delivers the keys plays no role.  Hypotheses: distinct keys (a JSON object read into a dict), every expression reads only the
constants it names, and the number of sweeps allowed is at least the number of entries (the Python loop has no bound: each sweep
that does not trip the assertion removes at least one entry, so `length` sweeps always suffice). -/
theorem constants_success_iff_resolvable {V : Type} (data : List (String × PVal V)) (hnd : (data.map (·.1)).Nodup)
    (hloc : ∀ kp ∈ data, kp.2.Local) (fuel : Nat) (hf : data.length ≤ fuel) :
    (getConstants fuel data (fun _ => none)).isSome = true ↔ ∀ kp ∈ data, Res data kp.1 :=
  getConstants_isSome_iff data hnd hloc fuel hf

/-- non-vacuity: `b` refers to `a` and `a` is a literal — both resolvable, the run succeeds; a file in which `a` and `b`
refer to each other trips the assertion -/
example : (∀ kp ∈ [("b", PVal.expr ["a"] (fun e => (e "a").getD 0 + 1)), ("a", PVal.lit (3 : Nat))],
      Res [("b", PVal.expr ["a"] (fun e => (e "a").getD 0 + 1)), ("a", PVal.lit (3 : Nat))] kp.1)
    ∧ (getConstants (V := Nat) 2 [("b", .expr ["a"] (fun e => (e "a").getD 0 + 1)), ("a", .lit 3)] (fun _ => none)).isSome = true
    ∧ (getConstants (V := Nat) 9 [("b", .expr ["a"] (fun e => (e "a").getD 0 + 1)),
        ("a", .expr ["b"] (fun e => (e "b").getD 0))] (fun _ => none)).isSome = false := by
  refine ⟨?_, by decide, by decide⟩
  have ha : Res [("b", PVal.expr ["a"] (fun e => (e "a").getD 0 + 1)), ("a", PVal.lit (3 : Nat))] "a" :=
    Res.mk "a" (PVal.lit 3) (by simp) (fun d hd => by simp [PVal.deps] at hd)
  intro kp hk
  simp only [List.mem_cons, List.not_mem_nil, or_false] at hk
  rcases hk with rfl | rfl
  · exact Res.mk "b" (PVal.expr ["a"] (fun e => (e "a").getD 0 + 1)) (by simp) (fun d hd => by
      simp only [PVal.deps, List.mem_singleton] at hd; subst hd; exact ha)
  · exact ha

/-- **a successful run returns a solution of the file**: in the constants it returns, every key of the file is set and has
the value its entry evaluates to *in the returned constants* (so the result is a fixed point of the file, not merely "some
value computed on the way") -/
theorem constants_run_is_solution {V : Type} (data : List (String × PVal V)) (hnd : (data.map (·.1)).Nodup)
    (hloc : ∀ kp ∈ data, kp.2.Local) (fuel : Nat) (env : String → Option V)
    (h : getConstants fuel data (fun _ => none) = some env) : Solution data env :=
  getConstants_Solution data hnd hloc fuel env h

/-- **the constants do not depend on the order of the keys** (the full statement of Props/C18.lean): for a file with
distinct keys whose expressions only read the constants they name, reading it with the keys in any other order
succeeds iff it succeeds in the given order — i.e. the assertion `len(data) < n` of `get_constants` trips for one order iff
it trips for all — and when it succeeds every key gets the same value. -/
theorem constants_order_independent : constants_order_independent_statement := by
  intro V data1 data2 hperm hnd hloc fuel hfuel
  have hnd2 : (data2.map (·.1)).Nodup := (hperm.map _).nodup_iff.1 hnd
  have hloc2 : ∀ kp ∈ data2, kp.2.Local := fun kp h => hloc kp (hperm.mem_iff.2 h)
  have hf2 : data2.length ≤ fuel := by rw [← hperm.length_eq]; omega
  have hiff : (getConstants fuel data1 (fun _ => none)).isSome = true
      ↔ (getConstants fuel data2 (fun _ => none)).isSome = true := by
    rw [getConstants_isSome_iff data1 hnd hloc fuel (by omega), getConstants_isSome_iff data2 hnd2 hloc2 fuel hf2]
    constructor
    · intro h kp hk; exact (Res.perm hperm kp.1).1 (h kp (hperm.mem_iff.2 hk))
    · intro h kp hk; exact (Res.perm hperm kp.1).2 (h kp (hperm.mem_iff.1 hk))
  refine ⟨Bool.eq_iff_iff.2 hiff, fun env1 env2 h1 h2 k hk => ?_⟩
  have hsol : Solution data1 env1 := getConstants_Solution data1 hnd hloc fuel env1 h1
  exact (constants_order_independent_partial data1 data2 hperm hloc env1 hsol fuel fuel env1 env2 h1 h2 k hk).2.2

/-- non-vacuity: a chain `d ← c ← b ← a` (`"b": "a+1"`, `"c": "2*b"`, `"d": "c+b"`) listed in the order that makes
`popitem()` (last key first) meet every expression before the constant it needs: the first sweep postpones `d`, `c`, `b` and
sets `a`, the second resolves `b`, `c`, `d`.  The same file with the keys in the order `c, a, d, b` needs four sweeps (1: `b`,
`d` postponed, `a` set, `c` postponed; 2: `c`, `d` postponed, `b` set; 3: `d` postponed, `c` set; 4: `d` set).  Both runs
return `a = 3, b = 4, c = 8, d = 12`. -/
example :
    let a : String × PVal Nat := ("a", .lit 3)
    let b : String × PVal Nat := ("b", .expr ["a"] (fun e => (e "a").getD 0 + 1))
    let c : String × PVal Nat := ("c", .expr ["b"] (fun e => 2 * (e "b").getD 0))
    let d : String × PVal Nat := ("d", .expr ["c", "b"] (fun e => (e "c").getD 0 + (e "b").getD 0))
    (getConstants 5 [a, b, c, d] (fun _ => none)).map (fun e => (e "a", e "b", e "c", e "d"))
        = some (some 3, some 4, some 8, some 12)
    ∧ (getConstants 5 [c, a, d, b] (fun _ => none)).map (fun e => (e "a", e "b", e "c", e "d"))
        = some (some 3, some 4, some 8, some 12)
    ∧ [a, b, c, d] ~ [c, a, d, b] := by
  intro a b c d
  refine ⟨by decide, by decide, ?_⟩
  exact (((Perm.swap c b [d]).cons a).trans (Perm.swap c a [b, d])).trans (((Perm.swap d b []).cons a).cons c)

/-- the hypotheses of `constants_order_independent` hold for that file: distinct keys, local expressions -/
example :
    let data : List (String × PVal Nat) := [("a", .lit 3), ("b", .expr ["a"] (fun e => (e "a").getD 0 + 1)),
      ("c", .expr ["b"] (fun e => 2 * (e "b").getD 0)), ("d", .expr ["c", "b"] (fun e => (e "c").getD 0 + (e "b").getD 0))]
    (data.map (·.1)).Nodup ∧ (∀ kp ∈ data, kp.2.Local) ∧ data.length < 5 := by
  refine ⟨by decide, ?_, by decide⟩
  intro kp hk
  simp only [List.mem_cons, List.not_mem_nil, or_false] at hk
  rcases hk with rfl | rfl | rfl | rfl
  · trivial
  · intro e1 e2 h; simp only; rw [h "a" (by simp)]
  · intro e1 e2 h; simp only; rw [h "b" (by simp)]
  · intro e1 e2 h; simp only; rw [h "c" (by simp), h "b" (by simp)]

end PygyroVerif.C18
