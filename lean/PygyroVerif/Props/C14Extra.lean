/-
C14 (continued) — the elliptic solver is EXACT for manufactured solutions in the spline space.

`Props/C14.lean` proves what the assembled matrices, the boundary slices and the coefficient buffer are; this file
proves the clause that was only tested so far: if the right-hand side handed to the solver is the one produced by a
function `u = Σ_j c*_j B_j` of the spline space that satisfies the boundary conditions of the mode, the solver
returns exactly `c*` and therefore `phi_h = u` at every evaluation point.

Four levels, each fully proved from the one before:

  (a) `manufactured_exact_algebraic` — the right-hand side is `b = K_m c*` with `K_m` the ASSEMBLED operator of the
      mode (any `Assembled` value; no property of splines or of the quadrature rule is used);
  (b) `manufactured_exact`, `manufactured_exact_discrete` — the analytic identity: `E rho = A u'' + B u' + C u - m² D u`
      at the evaluation points (`StrongFormAt`), the basis-function tables have local support (`LocalSupport`) and
      integration by parts holds under the quadrature sum (`QuadIBP`, a named hypothesis), for the function entry
      point (`solveEquationForFunction`, as repaired) and the discrete one (`solveEquation`: `rho` is the
      interpolating spline);
  (c) `manufactured_exact_splines`, `manufactured_exact_splines_discrete` — `QuadIBP` is *proved*: constant `A`,
      basis functions that are piecewise polynomials of degree ≤ d joined `C¹` and clamped (`SplinePieces`), a rule
      that integrates polynomials of degree ≤ N exactly on every cell with `2 d ≤ N + 1` (`QuadExact`), natural
      condition `u' = 0` (or radius 0) at a Neumann end (the boundary term the code drops);
  (d) `manufactured_exact_kernels`, `manufactured_exact_kernels_ext` — `SplinePieces` is *proved* for the tables that
      the assembly loops obtain from the evaluation kernels (`unitSplineVal`: `nu_find_span`, `nu_basis_funs`,
      `nu_basis_funs_1st_der` of Model/BSpline.lean) on a clamped knot vector, degree ≥ 2, evaluation points strictly
      inside the cells; `_ext`: kernels over an ordered field `F` (ℝ), data over a field `K ⊇ F` (ℂ).

In all of them the mode system is assumed uniquely solvable (`modeMatrix` has trivial kernel); with the contract of
`spsolve` (`IsSol`: *some* `x` with `M x = b`) this is exactly what determines the returned vector
(`PoissonManufactured.isSol_unique`; `unique_solvable_of_left_inverse` discharges it from an explicit inverse).

What remains a hypothesis in (d): exactness of the quadrature rule (`QuadExact`; reduced by
`PoissonManufactured.quadExact_of_reference_rule` to the contract of `leggauss(n)` on `[-1,1]`, `RefExact`, for
arbitrary breaks now that every cell is scaled with its own half-width (fix F17; `old_single_multFactor_not_exact`
and the witness at the end: the rule before the fix), the strong form at the evaluation
points, the natural condition at Neumann ends, unique solvability, and the contracts `IsSol` / `compute_interpolant`.
Every theorem is followed (at the end of the file, where the concrete data are defined) by an instance over `ℚ` in
which all hypotheses are discharged by computation.
-/
import PygyroVerif.Model.Poisson
import PygyroVerif.Lemmas.Poisson
import PygyroVerif.Lemmas.PoissonManufactured
import PygyroVerif.Props.C14
import Mathlib.Algebra.Order.Field.Rat
import Mathlib.Tactic.Ring
import Mathlib.Tactic.Linarith
import Mathlib.Tactic.NormNum
import Mathlib.Tactic.IntervalCases
import PygyroVerif.Lemmas.BSpline

namespace PygyroVerif.C14

open Finset Polynomial PygyroVerif.Poisson PygyroVerif.PoissonLemmas PygyroVerif.PoissonManufactured

variable {K : Type*} [Field K]

/-! ### (a) the algebraic statement -/

/-- **Exactness, algebraic form.**  Let `cstar` be coefficients of a function of the spline space that satisfies the
    boundary conditions of mode `I` (first coefficient 0 if the mode is Dirichlet at the lower boundary, last
    coefficient 0 if it is Dirichlet at the upper boundary).  If the right-hand side of the mode system is the
    assembled mode operator `dPhidPsi + dPhiPsi + PhiPsi - m² k2PhiPsi` applied to `cstar` (rows of the unknowns of
    the mode), and the mode matrix has trivial kernel, then **whatever** vector `x` with `M x = b` the sparse solver
    returns is `cstar` restricted to the unknowns; the coefficient buffer `self._coeffs` then holds exactly `cstar`
    (whatever it held before), and the values written to `phi` are those of `u = Σ cstar_j B_j` at every
    evaluation point (any table `V i j = B_j(r_i)`). -/
theorem manufactured_exact_algebraic (A : Assembled K) (c : BCConfig) (I : ℕ) (hnb : 2 ≤ c.nb)
    (cstar b x buf : ℕ → K) (V : ℕ → ℕ → K)
    (hlo : lNeumann c I = false → cstar 0 = 0) (hup : uNeumann c I = false → cstar (c.nb - 1) = 0)
    (hb : ∀ a, a < modeSize c I →
      b a = ∑ j ∈ range c.nb, opMatrix A c I ((coeffRange c I).1 + a) j * cstar j)
    (hker : ∀ z, IsSol (modeSize c I) (modeMatrix A c I) (fun _ => 0) z → ∀ a, a < modeSize c I → z a = 0)
    (hx : IsSol (modeSize c I) (modeMatrix A c I) b x) :
    (∀ a, a < modeSize c I → x a = cstar ((coeffRange c I).1 + a)) ∧
    (∀ p, p < c.nb → coeffsAfter buf c.nb (coeffRange c I) x p = cstar p) ∧
    (∀ i, evalAt c.nb V (coeffsAfter buf c.nb (coeffRange c I) x) i = evalAt c.nb V cstar i) := by
  have hbc : ∀ p, p < c.nb → ¬ ((coeffRange c I).1 ≤ p ∧ p < (coeffRange c I).2) → cstar p = 0 := by
    intro p hp hout
    rcases outside_slice c I hnb p hp hout with ⟨rfl, hL⟩ | ⟨rfl, hU⟩
    · exact hlo hL
    · exact hup hU
  have hstar := exact_is_solution A c I hnb cstar b hbc hb
  have hxa := isSol_unique _ _ b x _ hker hx hstar
  have hbuf := coeffsAfter_eq c I hnb buf x cstar hbc hxa
  refine ⟨hxa, hbuf, fun i => ?_⟩
  rw [evalAt_eq_sum, evalAt_eq_sum]
  exact Finset.sum_congr rfl (fun j hj => by rw [hbuf j (mem_range.mp hj)])

/-- the hypothesis `hker` from an explicit left inverse of the mode matrix -/
theorem unique_solvable_of_left_inverse (A : Assembled K) (c : BCConfig) (I : ℕ) (L : ℕ → ℕ → K)
    (hL : ∀ a j, a < modeSize c I → j < modeSize c I →
      ∑ k ∈ range (modeSize c I), L a k * modeMatrix A c I k j = if a = j then 1 else 0) :
    ∀ z, IsSol (modeSize c I) (modeMatrix A c I) (fun _ => 0) z → ∀ a, a < modeSize c I → z a = 0 :=
  trivial_kernel_of_left_inverse _ _ L hL

/-! ### (b) the analytic statement, with integration by parts under the quadrature sum as named hypothesis -/

/-- **Exactness, function right-hand side** (`solveEquationForFunction`, with the repaired `rhoVec`).
    `u = Σ cstar_j B_j` satisfies the boundary conditions of mode `I`; the values `rhoAt` of the right-hand side
    function at the evaluation points satisfy `E rho = A u'' + B u' + C u - m² D u` there (`StrongFormAt`; `A` … `E`
    arbitrary tables); the basis-function tables have local support; integration by parts holds under the
    quadrature sum for `u` against every test function of the mode (`QuadIBP`); the mode system is uniquely
    solvable.  Then the solve returns `cstar` and `phi = u` at every evaluation point. -/
theorem manufactured_exact (d : ℕ) (Q : Quad K) (co : Coefs K) (P dP ddP : ℕ → ℕ → ℕ → K)
    (c : BCConfig) (I : ℕ) (hnb : 2 ≤ c.nb) (hs : LocalSupport d c.nb Q P dP)
    (cstar x buf : ℕ → K) (rhoAt : ℕ → ℕ → K) (V : ℕ → ℕ → K)
    (hlo : lNeumann c I = false → cstar 0 = 0) (hup : uNeumann c I = false → cstar (c.nb - 1) = 0)
    (hstrong : StrongFormAt c.nb Q co P dP ddP c I cstar rhoAt)
    (hibp : ∀ r, (coeffRange c I).1 ≤ r → r < (coeffRange c I).2 →
      QuadIBP Q co P dP (splineAt c.nb cstar dP) (splineAt c.nb cstar ddP) r)
    (hker : ∀ z, IsSol (modeSize c I) (modeMatrix (assemble d c.nb Q co P dP) c I) (fun _ => 0) z →
      ∀ a, a < modeSize c I → z a = 0)
    (hx : IsSol (modeSize c I) (modeMatrix (assemble d c.nb Q co P dP) c I)
      (modeRhsFunc (rhoVec Q co P rhoAt) c I) x) :
    (∀ a, a < modeSize c I → x a = cstar ((coeffRange c I).1 + a)) ∧
    (∀ p, p < c.nb → coeffsAfter buf c.nb (coeffRange c I) x p = cstar p) ∧
    (∀ i, evalAt c.nb V (coeffsAfter buf c.nb (coeffRange c I) x) i = evalAt c.nb V cstar i) := by
  refine manufactured_exact_algebraic _ c I hnb cstar _ x buf V hlo hup (fun a ha => ?_) hker hx
  obtain ⟨hsz, hle⟩ := modeSize_eq c I hnb
  unfold modeRhsFunc
  exact rhoVec_eq_opRow d c.nb Q co P dP ddP hs c I cstar rhoAt hstrong _ (by omega)
    (hibp _ (by omega) (by omega))

/-- **Exactness, discrete right-hand side** (`solveEquation`): `rhoCoeffs` are the coefficients of the spline that
    `compute_interpolant` returned for the slice `rho[I, z, :]`; if that spline satisfies the strong form with `u`
    at the evaluation points (e.g. `rho` is the interpolant of node values of a function of the spline space, as in
    the manufactured-solution oracle), the conclusion of `manufactured_exact` holds. -/
theorem manufactured_exact_discrete (d : ℕ) (Q : Quad K) (co : Coefs K) (P dP ddP : ℕ → ℕ → ℕ → K)
    (c : BCConfig) (I : ℕ) (hnb : 2 ≤ c.nb) (hs : LocalSupport d c.nb Q P dP)
    (cstar rhoCoeffs x buf : ℕ → K) (V : ℕ → ℕ → K)
    (hlo : lNeumann c I = false → cstar 0 = 0) (hup : uNeumann c I = false → cstar (c.nb - 1) = 0)
    (hstrong : StrongFormAt c.nb Q co P dP ddP c I cstar (splineAt c.nb rhoCoeffs P))
    (hibp : ∀ r, (coeffRange c I).1 ≤ r → r < (coeffRange c I).2 →
      QuadIBP Q co P dP (splineAt c.nb cstar dP) (splineAt c.nb cstar ddP) r)
    (hker : ∀ z, IsSol (modeSize c I) (modeMatrix (assemble d c.nb Q co P dP) c I) (fun _ => 0) z →
      ∀ a, a < modeSize c I → z a = 0)
    (hx : IsSol (modeSize c I) (modeMatrix (assemble d c.nb Q co P dP) c I)
      (modeRhs (assemble d c.nb Q co P dP) c I rhoCoeffs) x) :
    (∀ a, a < modeSize c I → x a = cstar ((coeffRange c I).1 + a)) ∧
    (∀ p, p < c.nb → coeffsAfter buf c.nb (coeffRange c I) x p = cstar p) ∧
    (∀ i, evalAt c.nb V (coeffsAfter buf c.nb (coeffRange c I) x) i = evalAt c.nb V cstar i) := by
  refine manufactured_exact_algebraic _ c I hnb cstar _ x buf V hlo hup (fun a ha => ?_) hker hx
  obtain ⟨hsz, hle⟩ := modeSize_eq c I hnb
  rw [modeRhs_eq_massRow _ c I hnb, massRow_eq_rhoVec d c.nb Q co P dP hs rhoCoeffs _ (by omega)]
  exact rhoVec_eq_opRow d c.nb Q co P dP ddP hs c I cstar _ hstrong _ (by omega)
    (hibp _ (by omega) (by omega))

/-! ### (c) integration by parts proved: piecewise-polynomial basis functions and an exact rule -/

/-- **Exactness for splines, function right-hand side.**  The second-derivative coefficient is the constant `a` (the
    only use in the code); the basis functions are piecewise polynomials of degree ≤ `d`, `C¹` at the breaks,
    clamped, with local support, and the three tables are their values / first / second derivatives at the
    evaluation points (`SplinePieces`); the quadrature rule integrates polynomials of degree ≤ `N` exactly on every
    cell, `2 d ≤ N + 1` (`QuadExact`; from the reference rule by `quadExact_of_reference_rule`); `u = Σ cstar_j B_j`
    has zero boundary coefficient at a Dirichlet end and satisfies the natural condition `u' = 0` (or the radius is
    0) at a Neumann end; `E rho = a u'' + B u' + C u - m² D u` at the evaluation points (`B … E` arbitrary tables);
    the mode system is uniquely solvable.  Then the solver returns `cstar` and `phi = u` at every evaluation point —
    no hypothesis about integration by parts is left. -/
theorem manufactured_exact_splines (d : ℕ) (Q : Quad K) (co : Coefs K) (br : ℕ → K)
    (P dP ddP : ℕ → ℕ → ℕ → K) (pB : ℕ → ℕ → K[X]) (c : BCConfig) (I : ℕ) (hnb : 2 ≤ c.nb)
    (hp : SplinePieces d c.nb Q br P dP ddP pB)
    (a : K) (hA : ∀ e q, e < Q.ncells → q < Q.nq → co.A e q = a)
    (N : ℕ) (hq : QuadExact Q br N) (hN : 2 * d ≤ N + 1)
    (cstar x buf : ℕ → K) (rhoAt : ℕ → ℕ → K) (V : ℕ → ℕ → K)
    (hlo : lNeumann c I = false → cstar 0 = 0) (hup : uNeumann c I = false → cstar (c.nb - 1) = 0)
    (hnatLo : lNeumann c I = true → (pduOf c.nb cstar pB 0).eval (br 0) = 0 ∨ br 0 = 0)
    (hnatUp : uNeumann c I = true →
      (pduOf c.nb cstar pB (Q.ncells - 1)).eval (br (Q.ncells - 1 + 1)) = 0 ∨ br (Q.ncells - 1 + 1) = 0)
    (hstrong : StrongFormAt c.nb Q co P dP ddP c I cstar rhoAt)
    (hker : ∀ z, IsSol (modeSize c I) (modeMatrix (assemble d c.nb Q co P dP) c I) (fun _ => 0) z →
      ∀ a, a < modeSize c I → z a = 0)
    (hx : IsSol (modeSize c I) (modeMatrix (assemble d c.nb Q co P dP) c I)
      (modeRhsFunc (rhoVec Q co P rhoAt) c I) x) :
    (∀ a, a < modeSize c I → x a = cstar ((coeffRange c I).1 + a)) ∧
    (∀ p, p < c.nb → coeffsAfter buf c.nb (coeffRange c I) x p = cstar p) ∧
    (∀ i, evalAt c.nb V (coeffsAfter buf c.nb (coeffRange c I) x) i = evalAt c.nb V cstar i) :=
  manufactured_exact d Q co P dP ddP c I hnb (localSupport_of_pieces d c.nb Q br P dP ddP pB hp)
    cstar x buf rhoAt V hlo hup hstrong
    (quadIBP_for_mode d Q co br P dP ddP pB c I hnb hp a hA N hq hN cstar hnatLo hnatUp) hker hx

/-- **Exactness for splines, discrete right-hand side** (`solveEquation`): as `manufactured_exact_splines` with the
    right-hand side `massMat.dot(rhoCoeffs)` of the interpolating spline. -/
theorem manufactured_exact_splines_discrete (d : ℕ) (Q : Quad K) (co : Coefs K) (br : ℕ → K)
    (P dP ddP : ℕ → ℕ → ℕ → K) (pB : ℕ → ℕ → K[X]) (c : BCConfig) (I : ℕ) (hnb : 2 ≤ c.nb)
    (hp : SplinePieces d c.nb Q br P dP ddP pB)
    (a : K) (hA : ∀ e q, e < Q.ncells → q < Q.nq → co.A e q = a)
    (N : ℕ) (hq : QuadExact Q br N) (hN : 2 * d ≤ N + 1)
    (cstar rhoCoeffs x buf : ℕ → K) (V : ℕ → ℕ → K)
    (hlo : lNeumann c I = false → cstar 0 = 0) (hup : uNeumann c I = false → cstar (c.nb - 1) = 0)
    (hnatLo : lNeumann c I = true → (pduOf c.nb cstar pB 0).eval (br 0) = 0 ∨ br 0 = 0)
    (hnatUp : uNeumann c I = true →
      (pduOf c.nb cstar pB (Q.ncells - 1)).eval (br (Q.ncells - 1 + 1)) = 0 ∨ br (Q.ncells - 1 + 1) = 0)
    (hstrong : StrongFormAt c.nb Q co P dP ddP c I cstar (splineAt c.nb rhoCoeffs P))
    (hker : ∀ z, IsSol (modeSize c I) (modeMatrix (assemble d c.nb Q co P dP) c I) (fun _ => 0) z →
      ∀ a, a < modeSize c I → z a = 0)
    (hx : IsSol (modeSize c I) (modeMatrix (assemble d c.nb Q co P dP) c I)
      (modeRhs (assemble d c.nb Q co P dP) c I rhoCoeffs) x) :
    (∀ a, a < modeSize c I → x a = cstar ((coeffRange c I).1 + a)) ∧
    (∀ p, p < c.nb → coeffsAfter buf c.nb (coeffRange c I) x p = cstar p) ∧
    (∀ i, evalAt c.nb V (coeffsAfter buf c.nb (coeffRange c I) x) i = evalAt c.nb V cstar i) :=
  manufactured_exact_discrete d Q co P dP ddP c I hnb (localSupport_of_pieces d c.nb Q br P dP ddP pB hp)
    cstar rhoCoeffs x buf V hlo hup hstrong
    (quadIBP_for_mode d Q co br P dP ddP pB c I hnb hp a hA N hq hN cstar hnatLo hnatUp) hker hx

/-! ### (d) the tables are those of the evaluation kernels -/

section kernels
variable {F : Type*} [Field F] [LinearOrder F] [IsStrictOrderedRing F]

/-- **Exactness for the B-splines the code evaluates.**  Degree `d ≥ 2`, `nc ≥ 1` cells, clamped knot vector `t`
    (`2d + nc + 1` knots, breaks `t (d + e)` strictly increasing; `ClampedKnots`), `nbasis = nc + d`.  The tables
    are what the assembly loops compute: `P j e q = self._rspline[j].eval(evalPts[e][q])`,
    `dP j e q = self._rspline[j].eval(evalPts[e][q], 1)` through the model `unitSplineVal` of the evaluation kernel
    (`nu_find_span`, `nu_basis_funs`, `nu_basis_funs_1st_der`), the evaluation points lying strictly inside their
    cells (Gauss points do).  With constant `A`, a rule exact for degree `N ≥ 2d - 1`, boundary conditions / natural
    conditions for `u = Σ cstar_j B_j`, the strong form at the evaluation points (`u''` = second derivative of the
    kernel's cell polynomials) and unique solvability, the solver returns `cstar`.  No hypothesis about the spline
    tables or about integration by parts is left. -/
theorem manufactured_exact_kernels (d nc : ℕ) (t : ℕ → F) (Q : Quad F) (co : Coefs F) (P dP : ℕ → ℕ → ℕ → F)
    (c : BCConfig) (I : ℕ) (hnb : 2 ≤ c.nb) (hc : c.nb = nc + d) (hQ : Q.ncells = nc) (hnc : 1 ≤ nc) (hd : 2 ≤ d)
    (hk : ClampedKnots d nc t)
    (hin : ∀ e q, e < nc → q < Q.nq → t (e + d) < Q.x e q ∧ Q.x e q < t (e + d + 1))
    (hP : ∀ j e q, j < c.nb → e < nc → q < Q.nq →
      unitSplineVal t (nc + 2 * d + 1) d j (Q.x e q) false = some (P j e q))
    (hdP : ∀ j e q, j < c.nb → e < nc → q < Q.nq →
      unitSplineVal t (nc + 2 * d + 1) d j (Q.x e q) true = some (dP j e q))
    (a : F) (hA : ∀ e q, e < Q.ncells → q < Q.nq → co.A e q = a)
    (N : ℕ) (hq : QuadExact Q (fun e => t (d + e)) N) (hN : 2 * d ≤ N + 1)
    (cstar x buf : ℕ → F) (rhoAt : ℕ → ℕ → F) (V : ℕ → ℕ → F)
    (hlo : lNeumann c I = false → cstar 0 = 0) (hup : uNeumann c I = false → cstar (c.nb - 1) = 0)
    (hnatLo : lNeumann c I = true → (pduOf c.nb cstar (kernelPiece t d) 0).eval (t (d + 0)) = 0 ∨ t (d + 0) = 0)
    (hnatUp : uNeumann c I = true →
      (pduOf c.nb cstar (kernelPiece t d) (Q.ncells - 1)).eval (t (d + (Q.ncells - 1 + 1))) = 0
        ∨ t (d + (Q.ncells - 1 + 1)) = 0)
    (hstrong : StrongFormAt c.nb Q co P dP
      (fun j e q => (derivative (derivative (kernelPiece t d j e))).eval (Q.x e q)) c I cstar rhoAt)
    (hker : ∀ z, IsSol (modeSize c I) (modeMatrix (assemble d c.nb Q co P dP) c I) (fun _ => 0) z →
      ∀ a, a < modeSize c I → z a = 0)
    (hx : IsSol (modeSize c I) (modeMatrix (assemble d c.nb Q co P dP) c I)
      (modeRhsFunc (rhoVec Q co P rhoAt) c I) x) :
    (∀ a, a < modeSize c I → x a = cstar ((coeffRange c I).1 + a)) ∧
    (∀ p, p < c.nb → coeffsAfter buf c.nb (coeffRange c I) x p = cstar p) ∧
    (∀ i, evalAt c.nb V (coeffsAfter buf c.nb (coeffRange c I) x) i = evalAt c.nb V cstar i) := by
  have hp : SplinePieces d c.nb Q (fun e => t (d + e)) P dP
      (fun j e q => (derivative (derivative (kernelPiece t d j e))).eval (Q.x e q)) (kernelPiece t d) := by
    refine kernel_spline_pieces d nc c.nb t Q hQ hc hnc hd hk P dP (fun j e q hj he hq => ?_)
      (fun j e q hj he hq => ?_)
    · have h1 := (unitSplineVal_eq_piece d nc t hk j e he (Q.x e q) (hin e q he hq).1 (hin e q he hq).2).1
      rw [hP j e q hj he hq] at h1
      exact Option.some.inj h1
    · have h1 := (unitSplineVal_eq_piece d nc t hk j e he (Q.x e q) (hin e q he hq).1 (hin e q he hq).2).2
      rw [hdP j e q hj he hq] at h1
      exact Option.some.inj h1
  exact manufactured_exact_splines d Q co (fun e => t (d + e)) P dP _ (kernelPiece t d) c I hnb hp a hA N hq hN
    cstar x buf rhoAt V hlo hup hnatLo hnatUp hstrong hker hx

end kernels

/-- **Exactness for the B-splines the code evaluates, data in a larger field, both entry points.**  As
    `manufactured_exact_kernels`, but the kernels work in the ordered field `F` (the reals: knots `t`, evaluation
    points `xr`) while coefficients, right-hand sides and the solve live in a field `K` with `φ : F →+* K` (the
    complex numbers: `rho`, `phi` are `complex128`); the tables are the images under `φ` of what the evaluation
    kernel returns.  Conclusion for the function right-hand side (`solveEquationForFunction`) **and** for the
    discrete one (`solveEquation`, `rhoCoeffs` = coefficients of the interpolating spline). -/
theorem manufactured_exact_kernels_ext {F : Type*} [Field F] [LinearOrder F] [IsStrictOrderedRing F]
    (φ : F →+* K) (d nc : ℕ) (t : ℕ → F) (xr : ℕ → ℕ → F) (Q : Quad K) (co : Coefs K) (P dP : ℕ → ℕ → ℕ → K)
    (c : BCConfig) (I : ℕ) (hnb : 2 ≤ c.nb) (hc : c.nb = nc + d) (hQ : Q.ncells = nc) (hnc : 1 ≤ nc) (hd : 2 ≤ d)
    (hk : ClampedKnots d nc t)
    (hxr : ∀ e q, e < nc → q < Q.nq → Q.x e q = φ (xr e q))
    (hin : ∀ e q, e < nc → q < Q.nq → t (e + d) < xr e q ∧ xr e q < t (e + d + 1))
    (hP : ∀ j e q, j < c.nb → e < nc → q < Q.nq →
      ∃ v, unitSplineVal t (nc + 2 * d + 1) d j (xr e q) false = some v ∧ P j e q = φ v)
    (hdP : ∀ j e q, j < c.nb → e < nc → q < Q.nq →
      ∃ v, unitSplineVal t (nc + 2 * d + 1) d j (xr e q) true = some v ∧ dP j e q = φ v)
    (a : K) (hA : ∀ e q, e < Q.ncells → q < Q.nq → co.A e q = a)
    (N : ℕ) (hq : QuadExact Q (fun e => φ (t (d + e))) N) (hN : 2 * d ≤ N + 1)
    (cstar buf : ℕ → K) (V : ℕ → ℕ → K)
    (hlo : lNeumann c I = false → cstar 0 = 0) (hup : uNeumann c I = false → cstar (c.nb - 1) = 0)
    (hnatLo : lNeumann c I = true →
      (pduOf c.nb cstar (fun j e => (kernelPiece t d j e).map φ) 0).eval (φ (t (d + 0))) = 0 ∨ φ (t (d + 0)) = 0)
    (hnatUp : uNeumann c I = true →
      (pduOf c.nb cstar (fun j e => (kernelPiece t d j e).map φ) (Q.ncells - 1)).eval
          (φ (t (d + (Q.ncells - 1 + 1)))) = 0 ∨ φ (t (d + (Q.ncells - 1 + 1))) = 0)
    (hker : ∀ z, IsSol (modeSize c I) (modeMatrix (assemble d c.nb Q co P dP) c I) (fun _ => 0) z →
      ∀ a, a < modeSize c I → z a = 0) :
    (∀ (rhoAt : ℕ → ℕ → K) (x : ℕ → K),
      StrongFormAt c.nb Q co P dP
        (fun j e q => φ ((derivative (derivative (kernelPiece t d j e))).eval (xr e q))) c I cstar rhoAt →
      IsSol (modeSize c I) (modeMatrix (assemble d c.nb Q co P dP) c I) (modeRhsFunc (rhoVec Q co P rhoAt) c I) x →
      (∀ a, a < modeSize c I → x a = cstar ((coeffRange c I).1 + a)) ∧
      (∀ p, p < c.nb → coeffsAfter buf c.nb (coeffRange c I) x p = cstar p) ∧
      (∀ i, evalAt c.nb V (coeffsAfter buf c.nb (coeffRange c I) x) i = evalAt c.nb V cstar i)) ∧
    (∀ (rhoCoeffs x : ℕ → K),
      StrongFormAt c.nb Q co P dP
        (fun j e q => φ ((derivative (derivative (kernelPiece t d j e))).eval (xr e q))) c I cstar
        (splineAt c.nb rhoCoeffs P) →
      IsSol (modeSize c I) (modeMatrix (assemble d c.nb Q co P dP) c I)
        (modeRhs (assemble d c.nb Q co P dP) c I rhoCoeffs) x →
      (∀ a, a < modeSize c I → x a = cstar ((coeffRange c I).1 + a)) ∧
      (∀ p, p < c.nb → coeffsAfter buf c.nb (coeffRange c I) x p = cstar p) ∧
      (∀ i, evalAt c.nb V (coeffsAfter buf c.nb (coeffRange c I) x) i = evalAt c.nb V cstar i)) := by
  have hp := kernel_tables_are_spline_pieces d nc c.nb t φ xr Q P dP hc hQ hnc hd hk hxr hin hP hdP
  exact ⟨fun rhoAt x hstrong hx =>
      manufactured_exact_splines d Q co _ P dP _ _ c I hnb hp a hA N hq hN cstar x buf rhoAt V hlo hup
        hnatLo hnatUp hstrong hker hx,
    fun rhoCoeffs x hstrong hx =>
      manufactured_exact_splines_discrete d Q co _ P dP _ _ c I hnb hp a hA N hq hN cstar rhoCoeffs x buf V hlo hup
        hnatLo hnatUp hstrong hker hx⟩

/-! ### a concrete instance: quadratic clamped splines on the breaks 1, 2, 3, Simpson's rule, one Neumann mode

The Gauss–Legendre points with more than one point are irrational; over `ℚ` the instance uses Simpson's rule (three
points `-1, 0, 1`, weights `1/3, 4/3, 1/3`, exact for degree ≤ 3 = `2·degree - 1`), which is an admissible value of
the rule parameters of the model (`Quad`), mapped to the cells by the affine map of the code (`evalPt`). -/

/-- breaks `1, 2, 3` -/
def mBr (e : ℕ) : ℚ := 1 + e
/-- reference points `-1, 0, 1` -/
def mPts (q : ℕ) : ℚ := (q : ℚ) - 1
def mQuad : Quad ℚ :=
  { ncells := 2, nq := 3, w := fun q => if q = 1 then 4 / 3 else 1 / 3, mult := fun _ => 1 / 2,
    x := fun e q => evalPt mBr mPts e q }

/-- coefficients `(c0, c1, c2)` of the piece `c0 + c1 r + c2 r²` of the quadratic B-spline `j` (knots
    `1,1,1,2,3,3,3`) on cell `e` -/
def mPc (j e : ℕ) : ℚ × ℚ × ℚ :=
  match j, e with
  | 0, 0 => (4, -4, 1) | 1, 0 => (-7 / 2, 5, -3 / 2) | 2, 0 => (1 / 2, -1, 1 / 2)
  | 1, 1 => (9 / 2, -3, 1 / 2) | 2, 1 => (-15 / 2, 7, -3 / 2) | 3, 1 => (4, -4, 1)
  | _, _ => (0, 0, 0)
def mP (j e q : ℕ) : ℚ := (mPc j e).2.2 * mQuad.x e q ^ 2 + (mPc j e).2.1 * mQuad.x e q + (mPc j e).1
def mdP (j e q : ℕ) : ℚ := (mPc j e).2.2 * (2 * mQuad.x e q) + (mPc j e).2.1
def mddP (j e _q : ℕ) : ℚ := (mPc j e).2.2 * 2
noncomputable def mPB (j e : ℕ) : ℚ[X] := C (mPc j e).2.2 * X ^ 2 + C (mPc j e).2.1 * X + C (mPc j e).1

/-- `A = -1` (constant), `B = 1/3`, `C(r) = r`, `D = -2`, `E = 2` -/
def mCo : Coefs ℚ :=
  { A := fun _ _ => -1, B := fun _ _ => 1 / 3, C := fun e q => mQuad.x e q, D := fun _ _ => -2, E := fun _ _ => 2 }
/-- 4 basis functions, 3 modes (`m = 0, 1, -1`); mode 0 is Neumann at the lower boundary, everything else Dirichlet -/
def mCfg : BCConfig := { nb := 4, N := 3, lNeu := [0], uNeu := [] }
/-- manufactured coefficients for mode 0 (`u'(1) = 2 (c₁ - c₀) = 0`, `u(3) = c₃ = 0`); not a polynomial -/
def mCstar (p : ℕ) : ℚ := if p = 0 then 2 else if p = 1 then 2 else if p = 2 then -1 / 3 else 0
/-- the right-hand side values that `u` produces for mode `I` -/
def mRho (cs : ℕ → ℚ) (I e q : ℕ) : ℚ :=
  1 / 2 * (mCo.A e q * splineAt 4 cs mddP e q + mCo.B e q * splineAt 4 cs mdP e q
    + mCo.C e q * splineAt 4 cs mP e q - m2 mCfg.N I * (mCo.D e q * splineAt 4 cs mP e q))

/-- Simpson's rule is exact for cubics on `[-1, 1]` -/
theorem mRef : RefExact 3 mPts mQuad.w 3 := by
  have aux : ∀ a : ℕ → ℚ,
      ∑ q ∈ range 3, mQuad.w q * (derivative (∑ i ∈ range 5, monomial i (a i))).eval (mPts q) =
        (∑ i ∈ range 5, monomial i (a i)).eval 1 - (∑ i ∈ range 5, monomial i (a i)).eval (-1) := by
    intro a
    simp only [Finset.sum_range_succ, Finset.sum_range_zero, derivative_add, derivative_monomial, eval_add,
      eval_monomial, mPts, mQuad]
    norm_num
    ring
  intro G hG
  have h := aux G.coeff
  rw [← G.as_sum_range' 5 (by omega)] at h
  exact h

theorem mQuadExact : QuadExact mQuad mBr 3 := by
  refine quadExact_of_reference_rule mQuad mBr mPts 3 mRef (by norm_num) ?_ (fun _ _ _ _ => rfl)
  intro e _
  simp only [mQuad, mBr]
  push_cast
  ring

theorem mPieces : SplinePieces 2 4 mQuad mBr mP mdP mddP mPB where
  deg := fun j e _ _ => natDegree_quadratic_le
  val := fun j e q _ _ _ => by simp [mPB, mP]
  der := fun j e q _ _ _ => by simp [mPB, mdP]; norm_num
  der2 := fun j e q _ _ _ => by simp [mPB, mddP]; norm_num
  cont0 := fun j e hj he => by
    have he0 : e = 0 := by simp only [mQuad] at he; omega
    subst he0
    interval_cases j <;> simp [mPB, mPc, mBr] <;> norm_num
  cont1 := fun j e hj he => by
    have he0 : e = 0 := by simp only [mQuad] at he; omega
    subst he0
    interval_cases j <;> simp [mPB, mPc, mBr] <;> norm_num
  supp := fun j e hj he hout => by
    simp only [mQuad] at he
    interval_cases j <;> interval_cases e <;> first | omega | simp [mPB, mPc]
  clampLo := fun j hj h0 => by
    interval_cases j <;> simp [mPB, mPc, mBr] at h0 ⊢ <;> norm_num
  clampUp := fun j hj h0 => by
    interval_cases j <;> simp [mPB, mPc, mBr, mQuad] at h0 ⊢ <;> norm_num

/-- inverse of a 3 × 3 matrix by the adjugate (only used to *exhibit* unique solvability of the instance) -/
def inv3 (M : ℕ → ℕ → ℚ) : ℕ → ℕ → ℚ := fun a b =>
  (M ((b + 1) % 3) ((a + 1) % 3) * M ((b + 2) % 3) ((a + 2) % 3)
    - M ((b + 1) % 3) ((a + 2) % 3) * M ((b + 2) % 3) ((a + 1) % 3)) /
  (M 0 0 * (M 1 1 * M 2 2 - M 1 2 * M 2 1) - M 0 1 * (M 1 0 * M 2 2 - M 1 2 * M 2 0)
    + M 0 2 * (M 1 0 * M 2 1 - M 1 1 * M 2 0))

/-- the mode-0 system of the instance (3 unknowns: coefficients 0, 1, 2) is uniquely solvable -/
theorem mKer : ∀ z, IsSol (modeSize mCfg 0) (modeMatrix (assemble 2 4 mQuad mCo mP mdP) mCfg 0) (fun _ => 0) z →
    ∀ a, a < modeSize mCfg 0 → z a = 0 := by
  refine unique_solvable_of_left_inverse _ mCfg 0 (inv3 (modeMatrix (assemble 2 4 mQuad mCo mP mdP) mCfg 0)) ?_
  intro a j ha hj
  exact (by decide +kernel : ∀ a, a < 3 → ∀ j, j < 3 →
    ∑ k ∈ range 3, inv3 (modeMatrix (assemble 2 4 mQuad mCo mP mdP) mCfg 0) a k
      * modeMatrix (assemble 2 4 mQuad mCo mP mdP) mCfg 0 k j = if a = j then 1 else 0) a ha j hj

theorem mStrong (cs : ℕ → ℚ) (I : ℕ) : StrongFormAt 4 mQuad mCo mP mdP mddP mCfg I cs (mRho cs I) := by
  intro e q _ _
  unfold mRho
  simp only [mCo]
  ring

/-- the natural condition at the Neumann end: `u'(1) = 0` -/
theorem mNatural : (pduOf 4 mCstar mPB 0).eval (mBr 0) = 0 := by
  rw [pduOf_eval]
  simp [Finset.sum_range_succ, mPB, mPc, mCstar, mBr]
  norm_num

/-- **Instance of `manufactured_exact_splines`** (all hypotheses discharged): mode 0 of the configuration above is
    Neumann at `r = 1` and Dirichlet at `r = 3`; for the right-hand side produced by the (non-polynomial) spline
    `u = 2 B₀ + 2 B₁ - B₂/3`, every vector the sparse solver may return leaves exactly the coefficients
    `2, 2, -1/3, 0` in the buffer, whatever the buffer held before. -/
example (x buf : ℕ → ℚ)
    (hx : IsSol (modeSize mCfg 0) (modeMatrix (assemble 2 4 mQuad mCo mP mdP) mCfg 0)
      (modeRhsFunc (rhoVec mQuad mCo mP (mRho mCstar 0)) mCfg 0) x) :
    ∀ p, p < 4 → coeffsAfter buf 4 (coeffRange mCfg 0) x p = mCstar p :=
  (manufactured_exact_splines 2 mQuad mCo mBr mP mdP mddP mPB mCfg 0 (by decide) mPieces (-1)
    (fun _ _ _ _ => rfl) 3 mQuadExact (by decide) mCstar x buf (mRho mCstar 0) (fun _ _ => 0)
    (fun h => absurd h (by decide)) (fun _ => by decide)
    (fun _ => Or.inl mNatural)
    (fun h => absurd h (by decide)) (mStrong mCstar 0) mKer hx).2.1

/-- … and the hypothesis `hx` is satisfiable: the restriction of `mCstar` does solve the assembled system
    (checked by evaluating the model: assembly loops, slices, Simpson sums). -/
example : IsSol (modeSize mCfg 0) (modeMatrix (assemble 2 4 mQuad mCo mP mdP) mCfg 0)
    (modeRhsFunc (rhoVec mQuad mCo mP (mRho mCstar 0)) mCfg 0) (fun a => mCstar a) := by
  unfold IsSol
  decide +kernel

/-! #### the Dirichlet mode `m = 1` of the same configuration: instances of (a), (b) and the discrete entry point -/

def inv2 (M : ℕ → ℕ → ℚ) : ℕ → ℕ → ℚ := fun a b =>
  (if a = 0 then (if b = 0 then M 1 1 else -M 0 1) else (if b = 0 then -M 1 0 else M 0 0))
    / (M 0 0 * M 1 1 - M 0 1 * M 1 0)

/-- coefficients of a spline with `u(1) = u(3) = 0` (not a polynomial) -/
def mCstarD (p : ℕ) : ℚ := if p = 1 then 2 else if p = 2 then -1 / 3 else 0

theorem mKer1 (co : Coefs ℚ)
    (h : ∀ a, a < 2 → ∀ j, j < 2 →
      ∑ k ∈ range 2, inv2 (modeMatrix (assemble 2 4 mQuad co mP mdP) mCfg 1) a k
        * modeMatrix (assemble 2 4 mQuad co mP mdP) mCfg 1 k j = if a = j then 1 else 0) :
    ∀ z, IsSol (modeSize mCfg 1) (modeMatrix (assemble 2 4 mQuad co mP mdP) mCfg 1) (fun _ => 0) z →
      ∀ a, a < modeSize mCfg 1 → z a = 0 :=
  unique_solvable_of_left_inverse _ mCfg 1 (inv2 (modeMatrix (assemble 2 4 mQuad co mP mdP) mCfg 1))
    (fun a j ha hj => h a ha j hj)

/-- **Instance of `manufactured_exact_algebraic`**: the right-hand side is *defined* as the assembled operator of
    mode 1 applied to `mCstarD`; the solve returns `mCstarD`, and the potential at any evaluation points. -/
example (x buf : ℕ → ℚ) (V : ℕ → ℕ → ℚ)
    (hx : IsSol (modeSize mCfg 1) (modeMatrix (assemble 2 4 mQuad mCo mP mdP) mCfg 1)
      (fun a => ∑ j ∈ range 4, opMatrix (assemble 2 4 mQuad mCo mP mdP) mCfg 1 ((coeffRange mCfg 1).1 + a) j
        * mCstarD j) x) (i : ℕ) :
    evalAt 4 V (coeffsAfter buf 4 (coeffRange mCfg 1) x) i = evalAt 4 V mCstarD i :=
  (manufactured_exact_algebraic (assemble 2 4 mQuad mCo mP mdP) mCfg 1 (by decide) mCstarD _ x buf V
    (fun _ => by decide) (fun _ => by decide) (fun _ _ => rfl) (mKer1 mCo (by decide +kernel)) hx).2.2 i

/-- **Instance of `manufactured_exact`** (function right-hand side), the hypothesis `QuadIBP` discharged by
    evaluating the Simpson sums for the two test functions `B₁`, `B₂` of the mode. -/
example (x buf : ℕ → ℚ)
    (hx : IsSol (modeSize mCfg 1) (modeMatrix (assemble 2 4 mQuad mCo mP mdP) mCfg 1)
      (modeRhsFunc (rhoVec mQuad mCo mP (mRho mCstarD 1)) mCfg 1) x) :
    ∀ p, p < 4 → coeffsAfter buf 4 (coeffRange mCfg 1) x p = mCstarD p :=
  (manufactured_exact 2 mQuad mCo mP mdP mddP mCfg 1 (by decide)
    (localSupport_of_pieces 2 4 mQuad mBr mP mdP mddP mPB mPieces) mCstarD x buf (mRho mCstarD 1) (fun _ _ => 0)
    (fun _ => by decide) (fun _ => by decide)
    (mStrong mCstarD 1)
    (by
      intro r h1 h2
      have e : coeffRange mCfg 1 = (1, 3) := by decide
      rw [e] at h1 h2
      dsimp only at h1 h2
      interval_cases r <;> (unfold QuadIBP; decide +kernel))
    (mKer1 mCo (by decide +kernel)) hx).2.1

/-- constant coefficients: `A = -1, B = 1/3, C = 5/4, D = -2, E = 2` -/
def mCo2 : Coefs ℚ :=
  { A := fun _ _ => -1, B := fun _ _ => 1 / 3, C := fun _ _ => 5 / 4, D := fun _ _ => -2, E := fun _ _ => 2 }
/-- `u = (r - 1)(3 - r)` -/
def mCstarP (p : ℕ) : ℚ := if p = 1 then 1 else if p = 2 then 1 else 0
/-- spline coefficients of `rho = (A u'' + B u' + C u - D u)/E = -13/8 r² + 37/6 r - 77/24` (what
    `compute_interpolant` returns for the node values of this polynomial) -/
def mRhoCoeffs (p : ℕ) : ℚ := if p = 0 then 4 / 3 else if p = 1 then 67 / 24 else if p = 2 then 59 / 24 else 2 / 3

/-- **Instance of `manufactured_exact_discrete`** (`solveEquation`): polynomial manufactured solution with constant
    coefficients, as in the Python oracle; the strong form at the Simpson points holds by computation. -/
example (x buf : ℕ → ℚ)
    (hx : IsSol (modeSize mCfg 1) (modeMatrix (assemble 2 4 mQuad mCo2 mP mdP) mCfg 1)
      (modeRhs (assemble 2 4 mQuad mCo2 mP mdP) mCfg 1 mRhoCoeffs) x) :
    ∀ p, p < 4 → coeffsAfter buf 4 (coeffRange mCfg 1) x p = mCstarP p :=
  (manufactured_exact_splines_discrete 2 mQuad mCo2 mBr mP mdP mddP mPB mCfg 1 (by decide) mPieces (-1)
    (fun _ _ _ _ => rfl) 3 mQuadExact (by decide) mCstarP mRhoCoeffs x buf (fun _ _ => 0)
    (fun _ => by decide) (fun _ => by decide)
    (fun h => absurd h (by decide)) (fun h => absurd h (by decide))
    (by
      intro e q he hq
      have he' : e < 2 := he
      have hq' : q < 3 := hq
      interval_cases e <;> interval_cases q <;> decide +kernel)
    (mKer1 mCo2 (by decide +kernel)) hx).2.1

/-! #### instance of (d): the same splines evaluated by the kernel model, an open rule (interior points)

`manufactured_exact_kernels` needs evaluation points strictly inside the cells; the instance uses Milne's open rule
(points `-1/2, 0, 1/2`, weights `4/3, -2/3, 4/3`, exact for degree ≤ 3) instead of Simpson's.  The breaks `1, 2, 4` are
**non-uniform** (cells of length 1 and 2, each scaled with its own half-width as the code does after fix F17). -/

/-- knots `1, 1, 1, 2, 4, 4, 4` -/
def kT (i : ℕ) : ℚ := if i < 3 then 1 else if i = 3 then 2 else 4
def kPts (q : ℕ) : ℚ := ((q : ℚ) - 1) / 2
def kQuad : Quad ℚ :=
  { ncells := 2, nq := 3, w := fun q => if q = 1 then -2 / 3 else 4 / 3,
    mult := fun e => (kT (2 + (e + 1)) - kT (2 + e)) * (1 / 2),
    x := fun e q => evalPt (fun e => kT (2 + e)) kPts e q }
/-- the tables as the assembly loops obtain them: `self._rspline[j].eval(x)`, `.eval(x, 1)` -/
def kP (j e q : ℕ) : ℚ := (unitSplineVal kT 7 2 j (kQuad.x e q) false).getD 0
def kdP (j e q : ℕ) : ℚ := (unitSplineVal kT 7 2 j (kQuad.x e q) true).getD 0
/-- `A = -1` (constant), `B = 1/3`, `C(r) = r`, `D = -2`, `E = 2` at the points of `kQuad` -/
def kCo : Coefs ℚ :=
  { A := fun _ _ => -1, B := fun _ _ => 1 / 3, C := fun e q => kQuad.x e q, D := fun _ _ => -2, E := fun _ _ => 2 }
noncomputable def kddP (j e q : ℕ) : ℚ := (derivative (derivative (kernelPiece kT 2 j e))).eval (kQuad.x e q)
noncomputable def kRho (cs : ℕ → ℚ) (I e q : ℕ) : ℚ :=
  1 / 2 * (kCo.A e q * splineAt 4 cs kddP e q + kCo.B e q * splineAt 4 cs kdP e q
    + kCo.C e q * splineAt 4 cs kP e q - m2 mCfg.N I * (kCo.D e q * splineAt 4 cs kP e q))

theorem kKnots : ClampedKnots 2 2 kT where
  mono := monotone_nat_of_le_succ (fun n => by unfold kT; split_ifs <;> first | omega | norm_num)
  cells := fun e he => by interval_cases e <;> norm_num [kT]
  lo := fun i hi => by interval_cases i <;> rfl
  up := fun i _ => by unfold kT; split_ifs <;> first | omega | rfl

theorem kRef : RefExact 3 kPts kQuad.w 3 := by
  have aux : ∀ a : ℕ → ℚ,
      ∑ q ∈ range 3, kQuad.w q * (derivative (∑ i ∈ range 5, monomial i (a i))).eval (kPts q) =
        (∑ i ∈ range 5, monomial i (a i)).eval 1 - (∑ i ∈ range 5, monomial i (a i)).eval (-1) := by
    intro a
    simp only [Finset.sum_range_succ, Finset.sum_range_zero, derivative_add, derivative_monomial, eval_add,
      eval_monomial, kPts, kQuad]
    norm_num
    ring
  intro G hG
  have h := aux G.coeff
  rw [← G.as_sum_range' 5 (by omega)] at h
  exact h

theorem kQuadExact : QuadExact kQuad (fun e => kT (2 + e)) 3 :=
  quadExact_of_reference_rule kQuad (fun e => kT (2 + e)) kPts 3 kRef (by norm_num) (fun _ _ => rfl)
    (fun _ _ _ _ => rfl)

theorem kKer : ∀ z, IsSol (modeSize mCfg 0) (modeMatrix (assemble 2 4 kQuad kCo kP kdP) mCfg 0) (fun _ => 0) z →
    ∀ a, a < modeSize mCfg 0 → z a = 0 := by
  refine unique_solvable_of_left_inverse _ mCfg 0 (inv3 (modeMatrix (assemble 2 4 kQuad kCo kP kdP) mCfg 0)) ?_
  intro a j ha hj
  exact (by decide +kernel : ∀ a, a < 3 → ∀ j, j < 3 →
    ∑ k ∈ range 3, inv3 (modeMatrix (assemble 2 4 kQuad kCo kP kdP) mCfg 0) a k
      * modeMatrix (assemble 2 4 kQuad kCo kP kdP) mCfg 0 k j = if a = j then 1 else 0) a ha j hj

theorem kStrong (cs : ℕ → ℚ) (I : ℕ) : StrongFormAt 4 kQuad kCo kP kdP kddP mCfg I cs (kRho cs I) := by
  intro e q _ _
  unfold kRho
  simp only [kCo]
  ring

/-- natural condition at the Neumann end `r = 1`, through the kernel's derivative routine -/
theorem kNatural : (pduOf 4 mCstar (kernelPiece kT 2) 0).eval (kT (2 + 0)) = 0 := by
  rw [pduOf_eval]
  simp only [kernelPiece_derivative_eval kT kKnots.mono 2 _ 0 (kKnots.cell' 0 (by decide))]
  decide +kernel

/-- **Instance of `manufactured_exact_kernels`**, all hypotheses discharged: tables computed by the kernel model,
    Neumann mode 0, right-hand side produced by `u = 2 B₀ + 2 B₁ - B₂/3`. -/
example (x buf : ℕ → ℚ)
    (hx : IsSol (modeSize mCfg 0) (modeMatrix (assemble 2 4 kQuad kCo kP kdP) mCfg 0)
      (modeRhsFunc (rhoVec kQuad kCo kP (kRho mCstar 0)) mCfg 0) x) :
    ∀ p, p < 4 → coeffsAfter buf 4 (coeffRange mCfg 0) x p = mCstar p :=
  (manufactured_exact_kernels 2 2 kT kQuad kCo kP kdP mCfg 0 (by decide) rfl rfl (by decide) (by decide) kKnots
    (fun e q he hq => (by decide +kernel : ∀ e, e < 2 → ∀ q, q < 3 →
      kT (e + 2) < kQuad.x e q ∧ kQuad.x e q < kT (e + 2 + 1)) e he q hq)
    (fun j e q hj he hq => (by decide +kernel : ∀ j, j < 4 → ∀ e, e < 2 → ∀ q, q < 3 →
      unitSplineVal kT (2 + 2 * 2 + 1) 2 j (kQuad.x e q) false = some (kP j e q)) j hj e he q hq)
    (fun j e q hj he hq => (by decide +kernel : ∀ j, j < 4 → ∀ e, e < 2 → ∀ q, q < 3 →
      unitSplineVal kT (2 + 2 * 2 + 1) 2 j (kQuad.x e q) true = some (kdP j e q)) j hj e he q hq)
    (-1) (fun _ _ _ _ => rfl) 3 kQuadExact (by decide) mCstar x buf (kRho mCstar 0) (fun _ _ => 0)
    (fun h => absurd h (by decide)) (fun _ => by decide)
    (fun _ => Or.inl kNatural) (fun h => absurd h (by decide))
    (kStrong mCstar 0) kKer hx).2.1

/-- **Instance of `manufactured_exact_kernels_ext`** (hypotheses discharged with `F = K = ℚ`, `φ` the identity; the
    function-right-hand-side half of the conclusion). -/
example (x buf : ℕ → ℚ)
    (hx : IsSol (modeSize mCfg 0) (modeMatrix (assemble 2 4 kQuad kCo kP kdP) mCfg 0)
      (modeRhsFunc (rhoVec kQuad kCo kP (kRho mCstar 0)) mCfg 0) x) :
    ∀ p, p < 4 → coeffsAfter buf 4 (coeffRange mCfg 0) x p = mCstar p :=
  ((manufactured_exact_kernels_ext (RingHom.id ℚ) 2 2 kT kQuad.x kQuad kCo kP kdP mCfg 0 (by decide) rfl rfl
    (by decide) (by decide) kKnots (fun _ _ _ _ => rfl)
    (fun e q he hq => (by decide +kernel : ∀ e, e < 2 → ∀ q, q < 3 →
      kT (e + 2) < kQuad.x e q ∧ kQuad.x e q < kT (e + 2 + 1)) e he q hq)
    (fun j e q hj he hq => ⟨kP j e q, (by decide +kernel : ∀ j, j < 4 → ∀ e, e < 2 → ∀ q, q < 3 →
      unitSplineVal kT (2 + 2 * 2 + 1) 2 j (kQuad.x e q) false = some (kP j e q)) j hj e he q hq, rfl⟩)
    (fun j e q hj he hq => ⟨kdP j e q, (by decide +kernel : ∀ j, j < 4 → ∀ e, e < 2 → ∀ q, q < 3 →
      unitSplineVal kT (2 + 2 * 2 + 1) 2 j (kQuad.x e q) true = some (kdP j e q)) j hj e he q hq, rfl⟩)
    (-1) (fun _ _ _ _ => rfl) 3 kQuadExact (by decide) mCstar buf (fun _ _ => 0)
    (fun h => absurd h (by decide)) (fun _ => by decide)
    (fun _ => Or.inl (by simp only [Polynomial.map_id]; exact kNatural)) (fun h => absurd h (by decide))
    kKer).1 (kRho mCstar 0) x (kStrong mCstar 0) hx).2.1

/-! ### what is assumed about the quadrature rule; the rule before fix F17

`QuadExact` is obtained from exactness of the reference rule on `[-1, 1]` (`RefExact`, the contract of `leggauss(n)`
with `N = 2n - 1`, `n = degree//2 + 1` for the constructor argument `degree`: so `N ≥ degree`, and the theorems
apply when that argument is at least `2·(spline degree) - 1`, as in all upstream calls `DiffEqSolver(2*deg, …)`) by
`quadExact_of_reference_rule`, for arbitrary breaks: the code (after fix F17) scales cell `c` with its own
`multFactor[c] = (breaks[c+1]-breaks[c])/2`.  Before the fix every cell was scaled with the half-width of the first
one; on non-uniform breaks that rule is not exact even for constants (`old_single_multFactor_not_exact`, witness
below). -/

/-- the constructor computes `n = degree//2 + 1` Gauss points (exact for polynomials of degree ≤ `2n - 1`); the
    condition `2 d ≤ N + 1` of the theorems above holds as soon as the constructor argument `degree` (here `qdeg`)
    is at least `2 d - 1`, `d` the degree of the radial splines -/
theorem constructor_degree_suffices (qdeg d : ℕ) (h : 2 * d ≤ qdeg + 1) :
    2 * d ≤ (2 * (qdeg / 2 + 1) - 1) + 1 := by omega

/-- upstream's calls `DiffEqSolver(2*deg, …)` -/
example (d : ℕ) : 2 * d ≤ (2 * (2 * d / 2 + 1) - 1) + 1 := constructor_degree_suffices (2 * d) d (by omega)

/-- **Stated, not proved** (classical theorem of Gauss; it would reduce the contract `RefExact n pts w (2n-1)` of
    `leggauss(n)` to "the points are the roots of a polynomial of degree `n` that is orthogonal on `[-1,1]` to all
    polynomials of lower degree, and the weights are interpolatory").  Orthogonality and exactness are written with
    antiderivatives, as in `RefExact`.  Not attempted: the points returned by `numpy` are floating-point
    approximations anyway, so the exactness of the rule stays a contract of the third-party routine. -/
def gauss_rule_exact_statement : Prop :=
  ∀ (K : Type) [Field K] [CharZero K] (n : ℕ) (pts w : ℕ → K) (L : K[X]),
    L.natDegree = n → (∀ q, q < n → L.eval (pts q) = 0) →
    (∀ H G : K[X], G.natDegree < n → derivative H = L * G → H.eval 1 - H.eval (-1) = 0) →
    RefExact n pts w (n - 1) → RefExact n pts w (2 * n - 1)

/-- breaks `0, 1, 3` -/
def nuBr (e : ℕ) : ℚ := if e = 2 then 3 else e
/-- `leggauss(1)` (midpoint rule: point 0, weight 2) mapped as the code does after fix F17 -/
def nuQuad : Quad ℚ :=
  { ncells := 2, nq := 1, w := fun _ => 2, mult := fun e => (nuBr (e + 1) - nuBr e) * (1 / 2),
    x := evalPt nuBr (fun _ => 0) }

/-- the midpoint rule is exact for polynomials of degree ≤ 1 on `[-1, 1]` -/
theorem nuRef : RefExact 1 (fun _ => 0) nuQuad.w 1 := by
  have aux : ∀ a : ℕ → ℚ,
      ∑ q ∈ range 1, nuQuad.w q * (derivative (∑ i ∈ range 3, monomial i (a i))).eval 0 =
        (∑ i ∈ range 3, monomial i (a i)).eval 1 - (∑ i ∈ range 3, monomial i (a i)).eval (-1) := by
    intro a
    simp only [Finset.sum_range_succ, Finset.sum_range_zero, derivative_add, derivative_monomial, eval_add,
      eval_monomial, nuQuad]
    norm_num
    ring
  intro G hG
  have h := aux G.coeff
  rw [← G.as_sum_range' 3 (by omega)] at h
  exact h

/-- after the fix: exact on the non-uniform breaks `0, 1, 3` -/
example : QuadExact nuQuad nuBr 1 :=
  quadExact_of_reference_rule nuQuad nuBr (fun _ => 0) 1 nuRef (by norm_num) (fun _ _ => rfl) (fun _ _ _ _ => rfl)

/-- **behaviour before fix F17**, negative witness: with the single `multFactor` of the first cell the second cell
    `[1, 3]` gets the weight of the first one, the rule returns 1 for `∫ 1 dr = 2` — the assembled matrices were
    then not the weak-form integrals (finding F17). -/
theorem old_single_multFactor_not_exact_witness :
    ¬ QuadExact (nuQuad.withUniformMult nuBr (fun _ => 0)) nuBr 0 :=
  old_single_multFactor_not_exact nuQuad nuBr (fun _ => 0) 0 (by norm_num [nuQuad]) (by norm_num) 1 (by decide)
    (by norm_num [nuBr])

end PygyroVerif.C14
