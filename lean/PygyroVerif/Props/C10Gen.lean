/-
C10, tie by translation: the kernel `flux_advection`.  `Generated/FluxGen.lean` is REGENERATED on every run of `./check C10` from
pygyro/advection/accelerated_advection_steps.py (harness/translate_pure.py, target `flux`: the three nested `for` loops are
structurally recursive functions over the record of all locals, the 2-D array `f` and the 3-D array `vals` are functions
`ℕ → ℕ → ℚ` / `ℕ → ℕ → ℕ → ℚ`, `f[j, i] = v` is the functional update at that one position, `f[j, i] += v` is
`f[j, i] = f[j, i] + v`, `len(coeffs)` is the parameter `coeffs_len`).

This file proves that the generated function computes what the hand-written model `FluxAdv.fluxAdvection` (Model/FluxAdv.lean,
the second half of `fluxStep`, about which `C10.flux_step_formula` and the other theorems of Props/C10.lean speak) computes:
for ALL sizes `nq`, `nr`, all coefficient arrays of every length, all `vals` and every previous content of `f`, the call returns,
`f[j, i]` holds `fluxAdvection` for `j < nq`, `i < nr`, and every other entry of `f` is untouched.  With at least one coefficient
(`len(coeffs) ≥ 1`; Python raises IndexError on `coeffs[0]` otherwise) this is `Σ_{k < len(coeffs)} coeffs[k]·vals[i, j, k]`.
-/
import PygyroVerif.Generated.FluxGen
import PygyroVerif.Props.C10

namespace PygyroVerif.C10Gen
open PygyroVerif PygyroVerif.FieldLine PygyroVerif.FluxAdv
open PygyroVerif.Gen.Flux PygyroVerif.Gen.Flux.flux_advection_

/-- the accumulation `for k in range(i, i+n): acc += c[k]*vals[a, b, k]` of the model, from an arbitrary start -/
def accFrom (c : ℕ → ℚ) (vals : ℕ → ℕ → ℕ → ℚ) (b a : ℕ) (i n : ℕ) (acc : ℚ) : ℚ :=
  (List.range' i n).foldl (fun acc k => acc + c k * vals b a k) acc

/-- innermost loop `for k in range(1, len(coeffs)): f[j, i] += coeffs[k]*vals[i, j, k]`, started at `i` with `n` iterations left:
    only `f[σ.j, σ.i]` changes, to the model's accumulation -/
theorem loop3_eq (U : ℕ → ℚ) (F : ℕ) : ∀ (n i : ℕ) (σ : St),
    ∃ K, flux_advection_loop3 U F n i σ = .ok { σ with k := K, f := (fun a b =>
      if a = σ.j ∧ b = σ.i then accFrom σ.coeffs σ.vals σ.i σ.j i n (σ.f σ.j σ.i) else σ.f a b) } := by
  intro n
  induction n with
  | zero =>
    intro i σ
    refine ⟨σ.k, ?_⟩
    show Res.ok σ = _
    congr 1
    show σ = { σ with k := σ.k, f := _ }
    have : (fun a b => if a = σ.j ∧ b = σ.i then accFrom σ.coeffs σ.vals σ.i σ.j i 0 (σ.f σ.j σ.i) else σ.f a b) = σ.f := by
      funext a b
      by_cases h : a = σ.j ∧ b = σ.i
      · rw [if_pos h, h.1, h.2]; rfl
      · rw [if_neg h]
    rw [this]
  | succ n ih =>
    intro i σ
    let σ1 : St := { σ with k := i, f := (fun a b =>
      if a = σ.j ∧ b = σ.i then σ.f σ.j σ.i + σ.coeffs i * σ.vals σ.i σ.j i else σ.f a b) }
    obtain ⟨K, hrun⟩ := ih (i + 1) σ1
    refine ⟨K, ?_⟩
    show flux_advection_loop3 U F n (i + 1) σ1 = _
    rw [hrun]
    congr 1
    show ({ σ1 with k := K, f := _ } : St) = { σ with k := K, f := _ }
    have : (fun a b => if a = σ1.j ∧ b = σ1.i then accFrom σ1.coeffs σ1.vals σ1.i σ1.j (i + 1) n (σ1.f σ1.j σ1.i) else σ1.f a b)
        = (fun a b => if a = σ.j ∧ b = σ.i then accFrom σ.coeffs σ.vals σ.i σ.j i (n + 1) (σ.f σ.j σ.i) else σ.f a b) := by
      funext a b
      show (if a = σ.j ∧ b = σ.i then accFrom σ.coeffs σ.vals σ.i σ.j (i + 1) n
          (if σ.j = σ.j ∧ σ.i = σ.i then σ.f σ.j σ.i + σ.coeffs i * σ.vals σ.i σ.j i else σ.f σ.j σ.i)
        else (if a = σ.j ∧ b = σ.i then σ.f σ.j σ.i + σ.coeffs i * σ.vals σ.i σ.j i else σ.f a b)) = _
      by_cases h : a = σ.j ∧ b = σ.i
      · rw [if_pos h, if_pos h, if_pos ⟨rfl, rfl⟩]
        simp only [accFrom, List.range'_succ, List.foldl_cons]
      · rw [if_neg h, if_neg h, if_neg h]
    rw [this]

/-- the model's value at one position, as the accumulation from `coeffs[0]*vals[i, j, 0]` -/
theorem fluxAdvection_eq_accFrom (clen : ℕ) (c : ℕ → ℚ) (vals : ℕ → ℕ → ℕ → ℚ) (a b : ℕ) :
    fluxAdvection clen c vals a b = accFrom c vals b a 1 (clen - 1) (c 0 * vals b a 0) := rfl

/-- middle loop `for i in range(nr):` at fixed `j`, started at `i` with `n` iterations left: the entries `f[σ.j, i .. i+n)` receive
    the model's values, nothing else changes -/
theorem loop2_eq (U : ℕ → ℚ) (F : ℕ) : ∀ (n i : ℕ) (σ : St),
    ∃ I K, flux_advection_loop2 U F n i σ = .ok { σ with i := I, k := K, f := (fun a b =>
      if a = σ.j ∧ i ≤ b ∧ b < i + n then fluxAdvection σ.coeffs_len σ.coeffs σ.vals a b else σ.f a b) } := by
  intro n
  induction n with
  | zero =>
    intro i σ
    refine ⟨σ.i, σ.k, ?_⟩
    show Res.ok σ = _
    congr 1
    have : (fun a b => if a = σ.j ∧ i ≤ b ∧ b < i + 0 then fluxAdvection σ.coeffs_len σ.coeffs σ.vals a b else σ.f a b) = σ.f := by
      funext a b
      rw [if_neg (by omega)]
    rw [this]
  | succ n ih =>
    intro i σ
    -- the state after `f[j, i] = coeffs[0]*vals[i, j, 0]`
    let σ0 : St := { σ with i := i, f := (fun a b =>
      if a = σ.j ∧ b = i then σ.coeffs 0 * σ.vals i σ.j 0 else σ.f a b) }
    obtain ⟨K3, h3⟩ := loop3_eq U F (σ0.coeffs_len - 1) 1 σ0
    -- the state after the innermost loop
    let σ1 : St := { σ0 with k := K3, f := (fun a b =>
      if a = σ0.j ∧ b = σ0.i then accFrom σ0.coeffs σ0.vals σ0.i σ0.j 1 (σ0.coeffs_len - 1) (σ0.f σ0.j σ0.i) else σ0.f a b) }
    obtain ⟨I, K, hrun⟩ := ih (i + 1) σ1
    refine ⟨I, K, ?_⟩
    have hstep : flux_advection_loop2 U F (n + 1) i σ = flux_advection_loop2 U F n (i + 1) σ1 := by
      show (match flux_advection_loop3 U F (σ0.coeffs_len - 1) 1 σ0 with
        | .ok σ => flux_advection_loop2 U F n (i + 1) σ
        | .done o => .done o) = _
      rw [h3]
    rw [hstep, hrun]
    congr 1
    show ({ σ1 with i := I, k := K, f := _ } : St) = { σ with i := I, k := K, f := _ }
    have : (fun a b => if a = σ1.j ∧ i + 1 ≤ b ∧ b < i + 1 + n then fluxAdvection σ1.coeffs_len σ1.coeffs σ1.vals a b else σ1.f a b)
        = (fun a b => if a = σ.j ∧ i ≤ b ∧ b < i + (n + 1) then fluxAdvection σ.coeffs_len σ.coeffs σ.vals a b else σ.f a b) := by
      funext a b
      show (if a = σ.j ∧ i + 1 ≤ b ∧ b < i + 1 + n then fluxAdvection σ.coeffs_len σ.coeffs σ.vals a b
        else (if a = σ.j ∧ b = i then accFrom σ.coeffs σ.vals i σ.j 1 (σ.coeffs_len - 1)
            (if σ.j = σ.j ∧ i = i then σ.coeffs 0 * σ.vals i σ.j 0 else σ.f σ.j i)
          else (if a = σ.j ∧ b = i then σ.coeffs 0 * σ.vals i σ.j 0 else σ.f a b))) = _
      by_cases h1 : a = σ.j ∧ i + 1 ≤ b ∧ b < i + 1 + n
      · rw [if_pos h1, if_pos ⟨h1.1, by omega, by omega⟩]
      · rw [if_neg h1]
        by_cases h2 : a = σ.j ∧ b = i
        · rw [if_pos h2, if_pos ⟨rfl, rfl⟩, if_pos ⟨h2.1, by omega, by omega⟩, fluxAdvection_eq_accFrom, h2.1, h2.2]
        · rw [if_neg h2, if_neg h2, if_neg (by omega)]
    rw [this]

/-- outer loop `for j in range(nq):` started at `i` with `n` iterations left: the rows `i .. i+n` receive the model's values in the
    columns `< nr`, nothing else changes -/
theorem loop1_eq (U : ℕ → ℚ) (F : ℕ) : ∀ (n i : ℕ) (σ : St),
    ∃ J I K, flux_advection_loop1 U F n i σ = .ok { σ with j := J, i := I, k := K, f := (fun a b =>
      if (i ≤ a ∧ a < i + n) ∧ b < σ.nr then fluxAdvection σ.coeffs_len σ.coeffs σ.vals a b else σ.f a b) } := by
  intro n
  induction n with
  | zero =>
    intro i σ
    refine ⟨σ.j, σ.i, σ.k, ?_⟩
    show Res.ok σ = _
    congr 1
    have : (fun a b => if (i ≤ a ∧ a < i + 0) ∧ b < σ.nr then fluxAdvection σ.coeffs_len σ.coeffs σ.vals a b else σ.f a b) = σ.f := by
      funext a b
      rw [if_neg (by omega)]
    rw [this]
  | succ n ih =>
    intro i σ
    let σ0 : St := { σ with j := i }
    obtain ⟨I2, K2, h2⟩ := loop2_eq U F (σ0.nr - 0) 0 σ0
    let σ1 : St := { σ0 with i := I2, k := K2, f := (fun a b =>
      if a = σ0.j ∧ 0 ≤ b ∧ b < 0 + (σ0.nr - 0) then fluxAdvection σ0.coeffs_len σ0.coeffs σ0.vals a b else σ0.f a b) }
    obtain ⟨J, I, K, hrun⟩ := ih (i + 1) σ1
    refine ⟨J, I, K, ?_⟩
    have hstep : flux_advection_loop1 U F (n + 1) i σ = flux_advection_loop1 U F n (i + 1) σ1 := by
      show (match flux_advection_loop2 U F (σ0.nr - 0) 0 σ0 with
        | .ok σ => flux_advection_loop1 U F n (i + 1) σ
        | .done o => .done o) = _
      rw [h2]
    rw [hstep, hrun]
    congr 1
    show ({ σ1 with j := J, i := I, k := K, f := _ } : St) = { σ with j := J, i := I, k := K, f := _ }
    have : (fun a b => if (i + 1 ≤ a ∧ a < i + 1 + n) ∧ b < σ1.nr then fluxAdvection σ1.coeffs_len σ1.coeffs σ1.vals a b else σ1.f a b)
        = (fun a b => if (i ≤ a ∧ a < i + (n + 1)) ∧ b < σ.nr then fluxAdvection σ.coeffs_len σ.coeffs σ.vals a b else σ.f a b) := by
      funext a b
      show (if (i + 1 ≤ a ∧ a < i + 1 + n) ∧ b < σ.nr then fluxAdvection σ.coeffs_len σ.coeffs σ.vals a b
        else (if a = i ∧ 0 ≤ b ∧ b < 0 + (σ.nr - 0) then fluxAdvection σ.coeffs_len σ.coeffs σ.vals a b else σ.f a b)) = _
      by_cases h1 : (i + 1 ≤ a ∧ a < i + 1 + n) ∧ b < σ.nr
      · rw [if_pos h1, if_pos ⟨⟨by omega, by omega⟩, h1.2⟩]
      · rw [if_neg h1]
        by_cases h2 : a = i ∧ 0 ≤ b ∧ b < 0 + (σ.nr - 0)
        · rw [if_pos h2, if_pos ⟨⟨by omega, by omega⟩, by omega⟩]
        · rw [if_neg h2, if_neg (by omega)]
    rw [this]

/-- **the generated `flux_advection` computes the model's `fluxAdvection`**: for all sizes, coefficient arrays (of every length),
    `vals` and previous contents `f0` of `f`, the call returns, `f[j, i]` holds the model's value for every `j < nq`, `i < nr`, and
    every other entry of `f` is what it was -/
theorem gen_flux_advection_eq (U : ℕ → ℚ) (F : ℕ) (nq nr : ℕ) (f0 : ℕ → ℕ → ℚ) (c : ℕ → ℚ) (clen : ℕ) (vals : ℕ → ℕ → ℕ → ℚ) :
    ∃ σ', run U F nq nr f0 c clen vals = .ret σ' ∧
      ∀ j i, σ'.f j i = if j < nq ∧ i < nr then fluxAdvection clen c vals j i else f0 j i := by
  let σ0 : St := { nq := nq, nr := nr, f := f0, coeffs := c, coeffs_len := clen, vals := vals }
  obtain ⟨J, I, K, h⟩ := loop1_eq U F (nq - 0) 0 σ0
  have hrun : run U F nq nr f0 c clen vals = .ret { σ0 with j := J, i := I, k := K, f := (fun a b =>
      if (0 ≤ a ∧ a < 0 + (nq - 0)) ∧ b < σ0.nr then fluxAdvection σ0.coeffs_len σ0.coeffs σ0.vals a b else σ0.f a b) } := by
    show (match flux_advection_loop1 U F (nq - 0) 0 σ0 with
      | .ok σ => Out.ret σ
      | .done o => o) = _
    rw [h]
  refine ⟨_, hrun, fun j i => ?_⟩
  show (if (0 ≤ j ∧ j < 0 + (nq - 0)) ∧ i < nr then fluxAdvection clen c vals j i else f0 j i) = _
  by_cases h1 : j < nq ∧ i < nr
  · rw [if_pos h1, if_pos ⟨⟨by omega, by omega⟩, h1.2⟩]
  · rw [if_neg h1, if_neg (by omega)]

/-- **what the SOURCE's `flux_advection` writes**: with at least one coefficient, `f[j, i] = Σ_{k < len(coeffs)} coeffs[k]·vals[i, j, k]`
    for `j < nq`, `i < nr` (the sum in the order of the loop), every other entry untouched -/
theorem gen_flux_advection_sum (U : ℕ → ℚ) (F : ℕ) (nq nr : ℕ) (f0 : ℕ → ℕ → ℚ) (c : ℕ → ℚ) (clen : ℕ) (hL : 0 < clen)
    (vals : ℕ → ℕ → ℕ → ℚ) :
    ∃ σ', run U F nq nr f0 c clen vals = .ret σ' ∧
      (∀ j i, j < nq → i < nr → σ'.f j i = sumRange clen (fun k => c k * vals i j k)) ∧
      (∀ j i, ¬ (j < nq ∧ i < nr) → σ'.f j i = f0 j i) := by
  obtain ⟨σ', hrun, hf⟩ := gen_flux_advection_eq U F nq nr f0 c clen vals
  refine ⟨σ', hrun, ?_, ?_⟩
  · intro j i hj hi
    rw [hf, if_pos ⟨hj, hi⟩]
    unfold fluxAdvection
    rw [foldl_range'_add (fun k => c k * vals i j k), show clen - 1 + 1 = clen by omega]
  · intro j i h
    rw [hf, if_neg h]

/-- **the flux step of the model is what the generated kernel writes**, given the scratch array the first loop of `step` fills: the
    closed form of `C10.flux_step_formula` holds of the SOURCE's `flux_advection` applied to `allLagrangeVals` -/
theorem gen_flux_step_formula (U : ℕ → ℚ) (F : ℕ) {nz nL : ℕ} (hnz : 0 < nz) (hL : 0 < nL) (nq : ℕ) (S : ℕ → ℚ → ℚ) (pts : ℕ → ℕ → ℚ)
    (sh : ℕ → ℤ) (c : ℕ → ℚ) (vals0 : ℕ → ℕ → ℕ → ℚ) (f0 : ℕ → ℕ → ℚ) :
    ∃ σ', run U F nq nz f0 c nL (allLagrangeVals nz nL S pts sh vals0) = .ret σ' ∧
      ∀ q i, q < nq → i < nz → σ'.f q i = sumRange nL (fun k => c k * S (pmod ((i : ℤ) + sh k) nz) (pts k q)) := by
  obtain ⟨σ', hrun, hf⟩ := gen_flux_advection_eq U F nq nz f0 c nL (allLagrangeVals nz nL S pts sh vals0)
  refine ⟨σ', hrun, fun q i hq hi => ?_⟩
  rw [hf, if_pos ⟨hq, hi⟩]
  exact C10.flux_step_formula hnz hL S pts sh c vals0 q i hi

/-! concrete instance: `nq = 2`, `nr = 3`, four coefficients `1/2, -1, 2, 3` (and a fifth entry that must not be read),
    `vals[i, j, k] = i + 2j + k²`, `f` holds 9 before the call -/
def cC : ℕ → ℚ := fun k => ([1 / 2, -1, 2, 3, 1000] : List ℚ).getD k 0
def cVals : ℕ → ℕ → ℕ → ℚ := fun i j k => (i : ℚ) + 2 * j + (k : ℚ) * k

example : ∃ σ', run (fun _ => 7) 0 2 3 (fun _ _ => 9) cC 4 cVals = .ret σ' ∧
    ∀ j i, σ'.f j i = if j < 2 ∧ i < 3 then fluxAdvection 4 cC cVals j i else 9 :=
  gen_flux_advection_eq (fun _ => 7) 0 2 3 (fun _ _ => 9) cC 4 cVals
/-- the generated code itself, evaluated on rows 0..2 and columns 0..3 (row 2 and column 3 are outside the loops) -/
example : (match run (fun _ => 7) 0 2 3 (fun _ _ => 9) cC 4 cVals with
    | .ret σ => (List.range 3).map (fun j => (List.range 4).map (σ.f j)) | _ => []) =
    [[34, 77 / 2, 43, 9], [43, 95 / 2, 52, 9], [9, 9, 9, 9]] := by decide +kernel

end PygyroVerif.C10Gen
