/-
C07, tie by translation, part 7: the 2-D VECTOR entry points `nu_eval_spline_2d_vector` (pygyro/splines/spline_eval_funcs.py) and
`cu_eval_spline_2d_vector` (pygyro/splines/cubic_uniform_spline_eval_funcs.py) — `Spline2D.eval_vector`: one value per pair `(x[k], y[k])`.
`Generated/Vec2DGen.lean` is REGENERATED on every run of `./check C07` (harness/translate_pure.py, target `vec2d`).  As the cross functions they do not call
the scalar 2-D evaluation: each of their four `(der1, der2)` branches DUPLICATES its statements inside the loop over the points, re-using ONE set of work arrays.

Proved here (loop lemmas in Lemmas/Vec2DGen.lean, stated once and instantiated with each of the 2 × 12 generated loops by unfolding the generated definition),
for ALL arrays `x`, `y` (`len(x)` points; the length of `y` is not consulted, as in the source), knots, coefficient arrays, `der1, der2 ∈ {0, 1}`, every content `U`
of uninitialised memory and every previous content `z0` of `z`:
  * `gen_nu_vec_eq`: `z[k]` = the double sum `val2D` at `(x[k], y[k])` for `k < len(x)`, `z[k] = z0[k]` beyond (guard: the span searches return `deg ≤ span`);
  * `gen_nu_vec_eq_scalar`: … which is what the GENERATED `nu_eval_spline_2d_scalar` (Props/C07Gen5.lean) returns at `(x[k], y[k])`;
  * `gen_nu_vec_model` / `gen_nu_vec_total`: … = `BSpline.evalSpline2D`; on sorted knots with non-degenerate domains the call terminates;
  * `gen_cu_vec_eq` / `gen_cu_vec_eq_scalar` / `gen_cu_vec_general_path`: the same for the uniform-cubic path (`cuEvalSpline2D` with `trunc := pyInt`; guard `deg1 = deg2 = 3`);
  * `gen_nu_vec_other_der` / `gen_cu_vec_other_der`: for `(der1, der2) ∉ {0,1}²` nothing is written.
Not modelled (header of the generated file): index bounds of `y`, `z`, `coeffs`, negative indices (uniform-cubic path more than a cell left of the domain), slice clipping.
-/
import PygyroVerif.Lemmas.Vec2DGen
import PygyroVerif.Props.C07Gen6

namespace PygyroVerif.C07Gen7
open PygyroVerif PygyroVerif.BSpline PygyroVerif.C07Gen5 PygyroVerif.Cross2DGen PygyroVerif.Vec2DGen
open PygyroVerif.C07Gen6 (val2D)

theorem seg_of_loop {z Z z0 : ℕ → ℚ} {xlen : ℕ} (hz : ∀ a, z a = if 0 ≤ a ∧ a < 0 + (xlen - 0) then Z a else z0 a) :
    ∀ a, z a = if a < xlen then Z a else z0 a := fun a => by
  rw [hz a]
  by_cases h : a < xlen
  · rw [if_pos h, if_pos ⟨by omega, by omega⟩]
  · rw [if_neg h, if_neg (by omega)]

/-! ## `nu_eval_spline_2d_vector` -/
section Nu
open PygyroVerif.Gen.BasisFuns PygyroVerif.Gen.EvalSpline PygyroVerif.Gen.Vec2DNu
open PygyroVerif.Gen.Vec2DNu.nu_eval_spline_2d_vector_

variable (U : ℕ → ℚ) (F : ℕ)

/-- the four kernel calls of the source, as functions of the locals -/
def vV1 : St → Out nu_basis_funs_.St := fun σ => nu_basis_funs_.run U F σ.kts1 σ.kts1_len σ.deg1 (σ.x σ.i) σ.span1 σ.basis1 σ.basis1_len
def vD1 : St → Out nu_basis_funs_1st_der_.St := fun σ => nu_basis_funs_1st_der_.run U F σ.kts1 σ.kts1_len σ.deg1 (σ.x σ.i) σ.span1 σ.basis1 σ.basis1_len
def vV2 : St → Out nu_basis_funs_.St := fun σ => nu_basis_funs_.run U F σ.kts2 σ.kts2_len σ.deg2 (σ.y σ.i) σ.span2 σ.basis2 σ.basis2_len
def vD2 : St → Out nu_basis_funs_1st_der_.St := fun σ => nu_basis_funs_1st_der_.run U F σ.kts2 σ.kts2_len σ.deg2 (σ.y σ.i) σ.span2 σ.basis2 σ.basis2_len
def vgV : nu_basis_funs_.St → ℕ → ℚ := fun τ => τ.values
def vgD : nu_basis_funs_1st_der_.St → ℕ → ℚ := fun τ => τ.ders

theorem vV1_spec (σ' : St) : ∃ β, vV1 U F σ' = .ret β ∧ ∀ m, m ≤ σ'.deg1 → vgV β m = (basisOrDer σ'.kts1 σ'.deg1 (σ'.x σ'.i) σ'.span1 false).getD m 0 := by
  obtain ⟨β, hβ, hv, -⟩ := BasisFunsGen.run_eq U F σ'.kts1 σ'.kts1_len σ'.deg1 (σ'.x σ'.i) σ'.span1 σ'.basis1 σ'.basis1_len
  exact ⟨β, hβ, hv⟩
theorem vD1_spec (σ' : St) : ∃ β, vD1 U F σ' = .ret β ∧ ∀ m, m ≤ σ'.deg1 → vgD β m = (basisOrDer σ'.kts1 σ'.deg1 (σ'.x σ'.i) σ'.span1 true).getD m 0 := by
  obtain ⟨β, hβ, hv, -⟩ := EvalSplineGen.der_run_eq U F σ'.kts1 σ'.kts1_len σ'.deg1 (σ'.x σ'.i) σ'.span1 σ'.basis1 σ'.basis1_len
  exact ⟨β, hβ, hv⟩
theorem vV2_spec (σ' : St) : ∃ β, vV2 U F σ' = .ret β ∧ ∀ m, m ≤ σ'.deg2 → vgV β m = (basisOrDer σ'.kts2 σ'.deg2 (σ'.y σ'.i) σ'.span2 false).getD m 0 := by
  obtain ⟨β, hβ, hv, -⟩ := BasisFunsGen.run_eq U F σ'.kts2 σ'.kts2_len σ'.deg2 (σ'.y σ'.i) σ'.span2 σ'.basis2 σ'.basis2_len
  exact ⟨β, hβ, hv⟩
theorem vD2_spec (σ' : St) : ∃ β, vD2 U F σ' = .ret β ∧ ∀ m, m ≤ σ'.deg2 → vgD β m = (basisOrDer σ'.kts2 σ'.deg2 (σ'.y σ'.i) σ'.span2 true).getD m 0 := by
  obtain ⟨β, hβ, hv, -⟩ := EvalSplineGen.der_run_eq U F σ'.kts2 σ'.kts2_len σ'.deg2 (σ'.y σ'.i) σ'.span2 σ'.basis2 σ'.basis2_len
  exact ⟨β, hβ, hv⟩

/-- an instance of `IsPN`: unfold the generated loop once and follow the path on which the callees return -/
local macro "loop_inst" l:ident : tactic =>
  `(tactic| (refine ⟨fun _ _ => rfl, ?_⟩; intros; rw [$l:ident]; simp only [vV1, vD1, vV2, vD2, vgV, vgD] at *; simp only [*, and_self, ↓reduceIte]))

/-! the twelve generated loops satisfy the equations of Lemmas/Vec2DGen.lean -/
theorem isKN3 : IsKN (nu_eval_spline_2d_vector_loop3 U F) := ⟨fun _ _ => rfl, fun _ _ _ => rfl⟩
theorem isJN2 : IsJN (nu_eval_spline_2d_vector_loop2 U F) (nu_eval_spline_2d_vector_loop3 U F) := ⟨fun _ _ => rfl, fun _ _ _ => rfl⟩
theorem isPN1 : IsPN U F (vV1 U F) vgV (vV2 U F) vgV (nu_eval_spline_2d_vector_loop1 U F) (nu_eval_spline_2d_vector_loop2 U F) := by
  loop_inst nu_eval_spline_2d_vector_loop1
theorem isKN6 : IsKN (nu_eval_spline_2d_vector_loop6 U F) := ⟨fun _ _ => rfl, fun _ _ _ => rfl⟩
theorem isJN5 : IsJN (nu_eval_spline_2d_vector_loop5 U F) (nu_eval_spline_2d_vector_loop6 U F) := ⟨fun _ _ => rfl, fun _ _ _ => rfl⟩
theorem isPN4 : IsPN U F (vV1 U F) vgV (vD2 U F) vgD (nu_eval_spline_2d_vector_loop4 U F) (nu_eval_spline_2d_vector_loop5 U F) := by
  loop_inst nu_eval_spline_2d_vector_loop4
theorem isKN9 : IsKN (nu_eval_spline_2d_vector_loop9 U F) := ⟨fun _ _ => rfl, fun _ _ _ => rfl⟩
theorem isJN8 : IsJN (nu_eval_spline_2d_vector_loop8 U F) (nu_eval_spline_2d_vector_loop9 U F) := ⟨fun _ _ => rfl, fun _ _ _ => rfl⟩
theorem isPN7 : IsPN U F (vD1 U F) vgD (vV2 U F) vgV (nu_eval_spline_2d_vector_loop7 U F) (nu_eval_spline_2d_vector_loop8 U F) := by
  loop_inst nu_eval_spline_2d_vector_loop7
theorem isKN12 : IsKN (nu_eval_spline_2d_vector_loop12 U F) := ⟨fun _ _ => rfl, fun _ _ _ => rfl⟩
theorem isJN11 : IsJN (nu_eval_spline_2d_vector_loop11 U F) (nu_eval_spline_2d_vector_loop12 U F) := ⟨fun _ _ => rfl, fun _ _ _ => rfl⟩
theorem isPN10 : IsPN U F (vD1 U F) vgD (vD2 U F) vgD (nu_eval_spline_2d_vector_loop10 U F) (nu_eval_spline_2d_vector_loop11 U F) := by
  loop_inst nu_eval_spline_2d_vector_loop10

/-- the locals of `nu_eval_spline_2d_vector` when the loops start: the three work arrays hold whatever the memory holds -/
def st0 (x : ℕ → ℚ) (xlen : ℕ) (y : ℕ → ℚ) (ylen : ℕ) (t1 : ℕ → ℚ) (nk1 deg1 : ℕ) (t2 : ℕ → ℚ) (nk2 deg2 : ℕ) (c : ℕ → ℕ → ℚ) (z0 : ℕ → ℚ) (zlen : ℕ) (d1 d2 : ℕ) : St :=
  { x := x, x_len := xlen, y := y, y_len := ylen, kts1 := t1, kts1_len := nk1, deg1 := deg1, kts2 := t2, kts2_len := nk2, deg2 := deg2,
    coeffs := c, z := z0, z_len := zlen, der1 := d1, der2 := d2, basis1 := U, basis1_len := deg1 + 1, basis2 := U, basis2_len := deg2 + 1,
    theCoeffs := fun k_ l_ => U (k_ * (deg2 + 1) + l_), theCoeffs_len0 := deg1 + 1, theCoeffs_len1 := deg2 + 1 }

/-- **the generated `nu_eval_spline_2d_vector` writes the double sums**: for all arrays `x`, `y`, knots, degrees, coefficients, `der1, der2 ∈ {0, 1}`, whenever the
    model's span searches return `s1 k` at `x[k]` and `s2 k` at `y[k]` with `deg ≤ span` (true on sorted knots, `gen_nu_vec_total`), for every fuel at least the
    model's, every content `U` of the uninitialised work arrays and every previous content `z0` of `z`: the call returns, `z[k] = val2D … x[k] y[k]` for
    `k < len(x)`, and every other entry of `z` is what it was -/
theorem gen_nu_vec_eq (x : ℕ → ℚ) (xlen : ℕ) (y : ℕ → ℚ) (ylen : ℕ) (t1 : ℕ → ℚ) (nk1 deg1 : ℕ) (t2 : ℕ → ℚ) (nk2 deg2 : ℕ) (c : ℕ → ℕ → ℚ) (z0 : ℕ → ℚ) (zlen : ℕ)
    (der1 der2 : Bool) (s1 s2 : ℕ → ℕ)
    (h1 : ∀ k, k < xlen → findSpan t1 nk1 deg1 (x k) = some (s1 k) ∧ deg1 ≤ s1 k)
    (h2 : ∀ k, k < xlen → findSpan t2 nk2 deg2 (y k) = some (s2 k) ∧ deg2 ≤ s2 k)
    (hF1 : (nk1 - 1 - deg1) - deg1 + 1 ≤ F) (hF2 : (nk2 - 1 - deg2) - deg2 + 1 ≤ F) :
    ∃ σ', run U F x xlen y ylen t1 nk1 deg1 t2 nk2 deg2 c z0 zlen (if der1 then 1 else 0) (if der2 then 1 else 0) = .ret σ' ∧
      ∀ k, σ'.z k = if k < xlen then val2D t1 deg1 t2 deg2 c der1 der2 (x k) (y k) (s1 k) (s2 k) else z0 k := by
  have hfs1 : ∀ a, 0 ≤ a → a < 0 + (xlen - 0) → ∃ τ, nu_find_span_.run U F t1 nk1 deg1 (x a) = .ret τ ∧ τ.ret_ = s1 a ∧ deg1 ≤ s1 a := fun a _ ha => by
    obtain ⟨τ, hτ, hr⟩ := EvalSplineGen.fs_run_eq U t1 nk1 deg1 (x a) (s1 a) F (h1 a (by omega)).1 hF1
    exact ⟨τ, hτ, hr, (h1 a (by omega)).2⟩
  have hfs2 : ∀ a, 0 ≤ a → a < 0 + (xlen - 0) → ∃ τ, nu_find_span_.run U F t2 nk2 deg2 (y a) = .ret τ ∧ τ.ret_ = s2 a ∧ deg2 ≤ s2 a := fun a _ ha => by
    obtain ⟨τ, hτ, hr⟩ := EvalSplineGen.fs_run_eq U t2 nk2 deg2 (y a) (s2 a) F (h2 a (by omega)).1 hF2
    exact ⟨τ, hτ, hr, (h2 a (by omega)).2⟩
  cases der1 <;> cases der2
  · obtain ⟨σ', hrun, hz⟩ := p_loop_eq_nu U F (isPN1 U F) (isJN2 U F) (isKN3 U F) false false s1 s2 (vV1_spec U F) (vV2_spec U F) (xlen - 0) 0
      (st0 U x xlen y ylen t1 nk1 deg1 t2 nk2 deg2 c z0 zlen 0 0) rfl rfl hfs1 hfs2
    refine ⟨σ', ?_, seg_of_loop hz⟩
    show (match nu_eval_spline_2d_vector_loop1 U F (xlen - 0) 0 (st0 U x xlen y ylen t1 nk1 deg1 t2 nk2 deg2 c z0 zlen 0 0) with
      | .ok σ => Out.ret σ | .done o => o) = _
    rw [hrun]
  · obtain ⟨σ', hrun, hz⟩ := p_loop_eq_nu U F (isPN4 U F) (isJN5 U F) (isKN6 U F) false true s1 s2 (vV1_spec U F) (vD2_spec U F) (xlen - 0) 0
      (st0 U x xlen y ylen t1 nk1 deg1 t2 nk2 deg2 c z0 zlen 0 1) rfl rfl hfs1 hfs2
    refine ⟨σ', ?_, seg_of_loop hz⟩
    show (match nu_eval_spline_2d_vector_loop4 U F (xlen - 0) 0 (st0 U x xlen y ylen t1 nk1 deg1 t2 nk2 deg2 c z0 zlen 0 1) with
      | .ok σ => Out.ret σ | .done o => o) = _
    rw [hrun]
  · obtain ⟨σ', hrun, hz⟩ := p_loop_eq_nu U F (isPN7 U F) (isJN8 U F) (isKN9 U F) true false s1 s2 (vD1_spec U F) (vV2_spec U F) (xlen - 0) 0
      (st0 U x xlen y ylen t1 nk1 deg1 t2 nk2 deg2 c z0 zlen 1 0) rfl rfl hfs1 hfs2
    refine ⟨σ', ?_, seg_of_loop hz⟩
    show (match nu_eval_spline_2d_vector_loop7 U F (xlen - 0) 0 (st0 U x xlen y ylen t1 nk1 deg1 t2 nk2 deg2 c z0 zlen 1 0) with
      | .ok σ => Out.ret σ | .done o => o) = _
    rw [hrun]
  · obtain ⟨σ', hrun, hz⟩ := p_loop_eq_nu U F (isPN10 U F) (isJN11 U F) (isKN12 U F) true true s1 s2 (vD1_spec U F) (vD2_spec U F) (xlen - 0) 0
      (st0 U x xlen y ylen t1 nk1 deg1 t2 nk2 deg2 c z0 zlen 1 1) rfl rfl hfs1 hfs2
    refine ⟨σ', ?_, seg_of_loop hz⟩
    show (match nu_eval_spline_2d_vector_loop10 U F (xlen - 0) 0 (st0 U x xlen y ylen t1 nk1 deg1 t2 nk2 deg2 c z0 zlen 1 1) with
      | .ok σ => Out.ret σ | .done o => o) = _
    rw [hrun]

/-- **… which is, entry by entry, what the generated `nu_eval_spline_2d_scalar` returns at `(x[k], y[k])`**; nothing beyond `len(x)` is written -/
theorem gen_nu_vec_eq_scalar (x : ℕ → ℚ) (xlen : ℕ) (y : ℕ → ℚ) (ylen : ℕ) (t1 : ℕ → ℚ) (nk1 deg1 : ℕ) (t2 : ℕ → ℚ) (nk2 deg2 : ℕ) (c : ℕ → ℕ → ℚ) (z0 : ℕ → ℚ) (zlen : ℕ)
    (der1 der2 : Bool) (s1 s2 : ℕ → ℕ)
    (h1 : ∀ k, k < xlen → findSpan t1 nk1 deg1 (x k) = some (s1 k) ∧ deg1 ≤ s1 k)
    (h2 : ∀ k, k < xlen → findSpan t2 nk2 deg2 (y k) = some (s2 k) ∧ deg2 ≤ s2 k)
    (hF1 : (nk1 - 1 - deg1) - deg1 + 1 ≤ F) (hF2 : (nk2 - 1 - deg2) - deg2 + 1 ≤ F) :
    ∃ σ', run U F x xlen y ylen t1 nk1 deg1 t2 nk2 deg2 c z0 zlen (if der1 then 1 else 0) (if der2 then 1 else 0) = .ret σ' ∧
      (∀ k, k < xlen → ∃ σs, PygyroVerif.Gen.Eval2DNu.nu_eval_spline_2d_scalar_.run U F (x k) (y k) t1 nk1 deg1 t2 nk2 deg2 c
        (if der1 then 1 else 0) (if der2 then 1 else 0) = .ret σs ∧ σ'.z k = σs.ret_) ∧
      (∀ k, xlen ≤ k → σ'.z k = z0 k) := by
  obtain ⟨σ', hrun, hz⟩ := gen_nu_vec_eq U F x xlen y ylen t1 nk1 deg1 t2 nk2 deg2 c z0 zlen der1 der2 s1 s2 h1 h2 hF1 hF2
  refine ⟨σ', hrun, fun k hk => ?_, fun k hk => by rw [hz k, if_neg (by omega)]⟩
  obtain ⟨σs, hs, hret⟩ := gen_eval_spline_2d_eq U F t1 nk1 deg1 t2 nk2 deg2 c (x k) (y k) der1 der2 (s1 k) (s2 k) (h1 k hk).1 (h2 k hk).1
    (h1 k hk).2 (h2 k hk).2 hF1 hF2
  exact ⟨σs, hs, by rw [hz k, if_pos hk, hret]; rfl⟩

/-- the same, against `BSpline.evalSpline2D` -/
theorem gen_nu_vec_model (x : ℕ → ℚ) (xlen : ℕ) (y : ℕ → ℚ) (ylen : ℕ) (t1 : ℕ → ℚ) (nk1 deg1 : ℕ) (t2 : ℕ → ℚ) (nk2 deg2 : ℕ) (c : ℕ → ℕ → ℚ) (z0 : ℕ → ℚ) (zlen : ℕ)
    (der1 der2 : Bool) (s1 s2 : ℕ → ℕ)
    (h1 : ∀ k, k < xlen → findSpan t1 nk1 deg1 (x k) = some (s1 k) ∧ deg1 ≤ s1 k)
    (h2 : ∀ k, k < xlen → findSpan t2 nk2 deg2 (y k) = some (s2 k) ∧ deg2 ≤ s2 k)
    (hF1 : (nk1 - 1 - deg1) - deg1 + 1 ≤ F) (hF2 : (nk2 - 1 - deg2) - deg2 + 1 ≤ F) :
    ∃ σ', run U F x xlen y ylen t1 nk1 deg1 t2 nk2 deg2 c z0 zlen (if der1 then 1 else 0) (if der2 then 1 else 0) = .ret σ' ∧
      (∀ k, k < xlen → evalSpline2D t1 nk1 deg1 t2 nk2 deg2 c (x k) (y k) der1 der2 = some (σ'.z k)) ∧
      (∀ k, xlen ≤ k → σ'.z k = z0 k) := by
  obtain ⟨σ', hrun, hz⟩ := gen_nu_vec_eq U F x xlen y ylen t1 nk1 deg1 t2 nk2 deg2 c z0 zlen der1 der2 s1 s2 h1 h2 hF1 hF2
  refine ⟨σ', hrun, fun k hk => ?_, fun k hk => by rw [hz k, if_neg (by omega)]⟩
  rw [C07.entrypoints t1 nk1 deg1 t2 nk2 deg2 c (x k) (y k) der1 der2 (s1 k) (s2 k) (h1 k hk).1 (h2 k hk).1, hz k, if_pos hk]
  rfl

/-- **on sorted knots with non-degenerate domains the SOURCE's 2-D vector evaluation terminates and writes the model's values**:
    `z[k] = evalSpline2D … x[k] y[k]` for `k < len(x)`, value or first derivative in each direction; the rest of `z` is untouched -/
theorem gen_nu_vec_total (x : ℕ → ℚ) (xlen : ℕ) (y : ℕ → ℚ) (ylen : ℕ) (t1 : ℕ → ℚ) (ht1 : Monotone t1) (nk1 deg1 : ℕ) (t2 : ℕ → ℚ) (ht2 : Monotone t2)
    (nk2 deg2 : ℕ) (c : ℕ → ℕ → ℚ) (z0 : ℕ → ℚ) (zlen : ℕ) (der1 der2 : Bool) (hd1 : t1 deg1 < t1 (nk1 - 1 - deg1)) (hd2 : t2 deg2 < t2 (nk2 - 1 - deg2))
    (hF1 : (nk1 - 1 - deg1) - deg1 + 1 ≤ F) (hF2 : (nk2 - 1 - deg2) - deg2 + 1 ≤ F) :
    ∃ σ', run U F x xlen y ylen t1 nk1 deg1 t2 nk2 deg2 c z0 zlen (if der1 then 1 else 0) (if der2 then 1 else 0) = .ret σ' ∧
      (∀ k, k < xlen → evalSpline2D t1 nk1 deg1 t2 nk2 deg2 c (x k) (y k) der1 der2 = some (σ'.z k)) ∧
      (∀ k, xlen ≤ k → σ'.z k = z0 k) := by
  refine gen_nu_vec_model U F x xlen y ylen t1 nk1 deg1 t2 nk2 deg2 c z0 zlen der1 der2
    (fun a => (findSpan t1 nk1 deg1 (x a)).getD 0) (fun b => (findSpan t2 nk2 deg2 (y b)).getD 0) (fun a _ => ?_) (fun b _ => ?_) hF1 hF2
  · obtain ⟨s, hs, hd, -⟩ := C07.findSpan_some_correct t1 ht1 nk1 deg1 (x a) hd1
    rw [hs]; exact ⟨rfl, hd⟩
  · obtain ⟨s, hs, hd, -⟩ := C07.findSpan_some_correct t2 ht2 nk2 deg2 (y b) hd2
    rw [hs]; exact ⟨rfl, hd⟩

/-- for `(der1, der2)` outside `{0, 1}²` no branch of the source applies: the call returns and `z` is what it was -/
theorem gen_nu_vec_other_der (x : ℕ → ℚ) (xlen : ℕ) (y : ℕ → ℚ) (ylen : ℕ) (t1 : ℕ → ℚ) (nk1 deg1 : ℕ) (t2 : ℕ → ℚ) (nk2 deg2 : ℕ) (c : ℕ → ℕ → ℚ) (z0 : ℕ → ℚ) (zlen : ℕ)
    (der1 der2 : ℕ) (h : 2 ≤ der1 ∨ 2 ≤ der2) :
    ∃ σ', run U F x xlen y ylen t1 nk1 deg1 t2 nk2 deg2 c z0 zlen der1 der2 = .ret σ' ∧ σ'.z = z0 := by
  refine ⟨st0 U x xlen y ylen t1 nk1 deg1 t2 nk2 deg2 c z0 zlen der1 der2, ?_, rfl⟩
  unfold run
  simp only
  by_cases h0 : der1 = 0
  · rw [if_pos h0, if_neg (by omega), if_neg (by omega)]; rfl
  · rw [if_neg h0]
    by_cases h1 : der1 = 1
    · rw [if_pos h1, if_neg (by omega), if_neg (by omega)]; rfl
    · rw [if_neg h1]; rfl

/-! concrete instance (the data of Props/C07Gen5.lean / C07Gen6.lean): direction 1 = degree 3 on `0,0,0,0,1,2,4,4,4,4`, direction 2 = degree 2 on `0,0,0,1,3,3,3`, the three
    points `(5/2, 2)`, `(1/2, 1/4)`, `(4, 3)` (the last one is the upper right corner of the domain; fourth entries must not be read); uninitialised memory holds 7,
    `z` holds 10 before the call -/
def vX : ℕ → ℚ := fun k => ([5 / 2, 1 / 2, 4, 1000] : List ℚ).getD k 0
def vY : ℕ → ℚ := fun k => ([2, 1 / 4, 3, 1000] : List ℚ).getD k 0

example (c : ℕ → ℕ → ℚ) (z0 x y : ℕ → ℚ) (der1 der2 : Bool) : ∃ σ', run (fun _ => 7) 5 x 3 y 3 C07Gen2.qKnots 10 3 kts2 7 2 c z0 3
      (if der1 then 1 else 0) (if der2 then 1 else 0) = .ret σ' ∧
    (∀ k, k < 3 → evalSpline2D C07Gen2.qKnots 10 3 kts2 7 2 c (x k) (y k) der1 der2 = some (σ'.z k)) ∧ (∀ k, 3 ≤ k → σ'.z k = z0 k) :=
  gen_nu_vec_total (fun _ => 7) 5 x 3 y 3 C07Gen2.qKnots C07Gen2.qKnots_mono 10 3 kts2 kts2_mono 7 2 c z0 3 der1 der2
    (by norm_num [C07Gen2.qKnots]) (by norm_num [kts2]) (by norm_num) (by norm_num)
/-- the generated code itself, evaluated (entries 0..4; 3 and 4 are beyond `len(x)`) for the four (der1, der2); the same numbers (as floats) are what
    `nu_eval_spline_2d_vector` of /repo leaves in `z` on these inputs -/
example : ([(0, 0), (0, 1), (1, 0), (1, 1)].map fun d : ℕ × ℕ =>
      match run (fun _ => 7) 5 vX 3 vY 3 C07Gen2.cKnots 10 3 kts2 7 2 cCoeffs2 (fun _ => 10) 3 d.1 d.2 with
      | .ret σ => (List.range 5).map σ.z | _ => []) =
    [[7 / 12, 1067 / 1536, 4, 10, 10], [-5 / 48, 425 / 192, 6, 10, 10], [7 / 8, 443 / 256, 3, 10, 10], [7 / 8, 41 / 32, 9, 10, 10]] := by decide +kernel
/-- … and it is, entry by entry, what the generated SCALAR kernel returns at the three points -/
example : ([(0, 0), (0, 1), (1, 0), (1, 1)].map fun d : ℕ × ℕ =>
      match run (fun _ => 7) 5 vX 3 vY 3 C07Gen2.cKnots 10 3 kts2 7 2 cCoeffs2 (fun _ => 10) 3 d.1 d.2 with
      | .ret σ => (List.range 3).map σ.z | _ => []) =
    ([(0, 0), (0, 1), (1, 0), (1, 1)].map fun d : ℕ × ℕ => (List.range 3).map fun k =>
      match PygyroVerif.Gen.Eval2DNu.nu_eval_spline_2d_scalar_.run (fun _ => 7) 5 (vX k) (vY k) C07Gen2.cKnots 10 3 kts2 7 2 cCoeffs2 d.1 d.2 with
      | .ret τ => τ.ret_ | _ => 0) := by decide +kernel
/-- the guard `deg ≤ span` (numpy's shape check): the 5-knot array `0,1,2,3,4`, degree 2, `x = 5` gives span 1: ValueError, as the real function raises -/
example : (match run (fun _ => 7) 5 (fun _ => 5) 1 vY 1 (fun i => (i : ℚ)) 5 2 kts2 7 2 cCoeffs2 (fun _ => 10) 1 0 0 with
    | .raised e => e | _ => "") = "ValueError" := by decide +kernel

end Nu

/-! ## `cu_eval_spline_2d_vector` -/
section Cu
open PygyroVerif.CubicUniform PygyroVerif.Gen.CubicUniform PygyroVerif.Gen.Vec2DCu
open PygyroVerif.Gen.Vec2DCu.cu_eval_spline_2d_vector_

variable (U : ℕ → ℚ) (F : ℕ)

/-- the four kernel calls of the source, as functions of the locals -/
def wV1 : St → Out cu_basis_funs_.St := fun σ => cu_basis_funs_.run U F σ.span1 σ.offset1 σ.basis1 σ.basis1_len
def wD1 : St → Out cu_basis_funs_1st_der_.St := fun σ => cu_basis_funs_1st_der_.run U F σ.span1 σ.offset1 σ.dx σ.basis1 σ.basis1_len
def wV2 : St → Out cu_basis_funs_.St := fun σ => cu_basis_funs_.run U F σ.span2 σ.offset2 σ.basis2 σ.basis2_len
def wD2 : St → Out cu_basis_funs_1st_der_.St := fun σ => cu_basis_funs_1st_der_.run U F σ.span2 σ.offset2 σ.dy σ.basis2 σ.basis2_len
def wgV : cu_basis_funs_.St → ℕ → ℚ := fun τ => τ.values
def wgD : cu_basis_funs_1st_der_.St → ℕ → ℚ := fun τ => τ.ders

theorem wV1_spec (σ' : St) : ∃ β, wV1 U F σ' = .ret β ∧ (List.range 4).map (wgV β) = cuBasisOrDer σ'.offset1 σ'.dx false := by
  obtain ⟨β, hβ, hv, -⟩ := C07Gen3.gen_cu_basis_funs_eq U F σ'.span1 σ'.offset1 σ'.basis1 σ'.basis1_len
  exact ⟨β, hβ, hv⟩
theorem wD1_spec (σ' : St) : ∃ β, wD1 U F σ' = .ret β ∧ (List.range 4).map (wgD β) = cuBasisOrDer σ'.offset1 σ'.dx true := by
  obtain ⟨β, hβ, hv, -⟩ := C07Gen3.gen_cu_basis_funs_1st_der_eq U F σ'.span1 σ'.offset1 σ'.dx σ'.basis1 σ'.basis1_len
  exact ⟨β, hβ, hv⟩
theorem wV2_spec (σ' : St) : ∃ β, wV2 U F σ' = .ret β ∧ (List.range 4).map (wgV β) = cuBasisOrDer σ'.offset2 σ'.dy false := by
  obtain ⟨β, hβ, hv, -⟩ := C07Gen3.gen_cu_basis_funs_eq U F σ'.span2 σ'.offset2 σ'.basis2 σ'.basis2_len
  exact ⟨β, hβ, hv⟩
theorem wD2_spec (σ' : St) : ∃ β, wD2 U F σ' = .ret β ∧ (List.range 4).map (wgD β) = cuBasisOrDer σ'.offset2 σ'.dy true := by
  obtain ⟨β, hβ, hv, -⟩ := C07Gen3.gen_cu_basis_funs_1st_der_eq U F σ'.span2 σ'.offset2 σ'.dy σ'.basis2 σ'.basis2_len
  exact ⟨β, hβ, hv⟩

local macro "loop_inst_cu" l:ident : tactic =>
  `(tactic| (refine ⟨fun _ _ => rfl, ?_⟩; intros; rw [$l:ident]; simp only [wV1, wD1, wV2, wD2, wgV, wgD] at *; simp only [*, and_self, ↓reduceIte]))

/-! the twelve generated loops satisfy the equations of Lemmas/Vec2DGen.lean -/
theorem isKC3 : IsKC (cu_eval_spline_2d_vector_loop3 U F) := ⟨fun _ _ => rfl, fun _ _ _ => rfl⟩
theorem isJC2 : IsJC (cu_eval_spline_2d_vector_loop2 U F) (cu_eval_spline_2d_vector_loop3 U F) := ⟨fun _ _ => rfl, fun _ _ _ => rfl⟩
theorem isPC1 : IsPC U F (wV1 U F) wgV (wV2 U F) wgV (cu_eval_spline_2d_vector_loop1 U F) (cu_eval_spline_2d_vector_loop2 U F) := by
  loop_inst_cu cu_eval_spline_2d_vector_loop1
theorem isKC6 : IsKC (cu_eval_spline_2d_vector_loop6 U F) := ⟨fun _ _ => rfl, fun _ _ _ => rfl⟩
theorem isJC5 : IsJC (cu_eval_spline_2d_vector_loop5 U F) (cu_eval_spline_2d_vector_loop6 U F) := ⟨fun _ _ => rfl, fun _ _ _ => rfl⟩
theorem isPC4 : IsPC U F (wV1 U F) wgV (wD2 U F) wgD (cu_eval_spline_2d_vector_loop4 U F) (cu_eval_spline_2d_vector_loop5 U F) := by
  loop_inst_cu cu_eval_spline_2d_vector_loop4
theorem isKC9 : IsKC (cu_eval_spline_2d_vector_loop9 U F) := ⟨fun _ _ => rfl, fun _ _ _ => rfl⟩
theorem isJC8 : IsJC (cu_eval_spline_2d_vector_loop8 U F) (cu_eval_spline_2d_vector_loop9 U F) := ⟨fun _ _ => rfl, fun _ _ _ => rfl⟩
theorem isPC7 : IsPC U F (wD1 U F) wgD (wV2 U F) wgV (cu_eval_spline_2d_vector_loop7 U F) (cu_eval_spline_2d_vector_loop8 U F) := by
  loop_inst_cu cu_eval_spline_2d_vector_loop7
theorem isKC12 : IsKC (cu_eval_spline_2d_vector_loop12 U F) := ⟨fun _ _ => rfl, fun _ _ _ => rfl⟩
theorem isJC11 : IsJC (cu_eval_spline_2d_vector_loop11 U F) (cu_eval_spline_2d_vector_loop12 U F) := ⟨fun _ _ => rfl, fun _ _ _ => rfl⟩
theorem isPC10 : IsPC U F (wD1 U F) wgD (wD2 U F) wgD (cu_eval_spline_2d_vector_loop10 U F) (cu_eval_spline_2d_vector_loop11 U F) := by
  loop_inst_cu cu_eval_spline_2d_vector_loop10

/-- the locals of `cu_eval_spline_2d_vector` when the loops start (`deg1 = deg2 = 3`) -/
def st0C (x : ℕ → ℚ) (xlen : ℕ) (y : ℕ → ℚ) (ylen : ℕ) (kts1 : ℕ → ℚ) (klen1 : ℕ) (kts2 : ℕ → ℚ) (klen2 : ℕ) (c : ℕ → ℕ → ℚ) (z0 : ℕ → ℚ) (zlen : ℕ) (d1 d2 : ℤ) : St :=
  { x := x, x_len := xlen, y := y, y_len := ylen, kts1 := kts1, kts1_len := klen1, deg1 := 3, kts2 := kts2, kts2_len := klen2, deg2 := 3,
    coeffs := c, z := z0, z_len := zlen, der1 := d1, der2 := d2,
    xmin := kts1 0, xmax := kts1 1, dx := kts1 2, f_ncells_x := kts1 3, ncells_x := pyInt (kts1 3),
    ymin := kts2 0, ymax := kts2 1, dy := kts2 2, f_ncells_y := kts2 3, ncells_y := pyInt (kts2 3),
    basis1 := U, basis1_len := 4, basis2 := U, basis2_len := 4,
    theCoeffs := fun k_ l_ => U (k_ * 4 + l_), theCoeffs_len0 := 4, theCoeffs_len1 := 4 }

/-- **the generated `cu_eval_spline_2d_vector` writes the model's values** `cuEvalSpline2D` (with `trunc := pyInt`; all four combinations of `der1`, `der2`) at
    `(x[k], y[k])`, `k < len(x)`, for all arrays, every pair of 4-arrays `[xmin, xmax, dx, ncells]`, every coefficient array, every content `U` of the uninitialised
    work arrays and every previous content `z0` of `z`; nothing beyond `len(x)` is written.  Guard: `deg1 = deg2 = 3`.  The corner of the block is
    `Int.toNat (span - 3)` in the translation and in the model alike; it is what PYTHON computes for `3 ≤ span` — negative indices are not modelled -/
theorem gen_cu_vec_eq (x : ℕ → ℚ) (xlen : ℕ) (y : ℕ → ℚ) (ylen : ℕ) (kts1 : ℕ → ℚ) (klen1 : ℕ) (kts2 : ℕ → ℚ) (klen2 : ℕ) (c : ℕ → ℕ → ℚ) (z0 : ℕ → ℚ) (zlen : ℕ)
    (der1 der2 : Bool) :
    ∃ σ', run U F x xlen y ylen kts1 klen1 3 kts2 klen2 3 c z0 zlen (if der1 then 1 else 0) (if der2 then 1 else 0) = .ret σ' ∧
      ∀ k, σ'.z k = if k < xlen then
        cuEvalSpline2D pyInt (kts1 0) (kts1 2) (pyInt (kts1 3)) (kts2 0) (kts2 2) (pyInt (kts2 3)) c (x k) (y k) der1 der2 else z0 k := by
  have hm : ∀ (d1 d2 : ℤ) (a : ℕ), ptValC (st0C U x xlen y ylen kts1 klen1 kts2 klen2 c z0 zlen d1 d2) der1 der2 a =
      cuEvalSpline2D pyInt (kts1 0) (kts1 2) (pyInt (kts1 3)) (kts2 0) (kts2 2) (pyInt (kts2 3)) c (x a) (y a) der1 der2 := fun d1 d2 a => by
    rw [cuEvalSpline2D_eq_blockSum]
    rfl
  have key : ∀ (d1 d2 : ℤ) (σ' : St), (∀ a, σ'.z a = if 0 ≤ a ∧ a < 0 + xlen then
        ptValC (st0C U x xlen y ylen kts1 klen1 kts2 klen2 c z0 zlen d1 d2) der1 der2 a else z0 a) →
      ∀ a, σ'.z a = if a < xlen then
        cuEvalSpline2D pyInt (kts1 0) (kts1 2) (pyInt (kts1 3)) (kts2 0) (kts2 2) (pyInt (kts2 3)) c (x a) (y a) der1 der2 else z0 a :=
    fun d1 d2 σ' hz a => by
      rw [hz a, ← hm d1 d2 a]
      by_cases h : a < xlen
      · rw [if_pos h, if_pos ⟨by omega, by omega⟩]
      · rw [if_neg h, if_neg (by omega)]
  cases der1 <;> cases der2
  · obtain ⟨σ', hrun, hz⟩ := p_loop_eq_cu U F (isPC1 U F) (isJC2 U F) (isKC3 U F) false false (wV1_spec U F) (wV2_spec U F) xlen 0
      (st0C U x xlen y ylen kts1 klen1 kts2 klen2 c z0 zlen 0 0) rfl rfl rfl rfl
    refine ⟨σ', ?_, key _ _ σ' hz⟩
    show (match cu_eval_spline_2d_vector_loop1 U F xlen 0 (st0C U x xlen y ylen kts1 klen1 kts2 klen2 c z0 zlen 0 0) with
      | .ok σ => Out.ret σ | .done o => o) = _
    rw [hrun]
  · obtain ⟨σ', hrun, hz⟩ := p_loop_eq_cu U F (isPC4 U F) (isJC5 U F) (isKC6 U F) false true (wV1_spec U F) (wD2_spec U F) xlen 0
      (st0C U x xlen y ylen kts1 klen1 kts2 klen2 c z0 zlen 0 1) rfl rfl rfl rfl
    refine ⟨σ', ?_, key _ _ σ' hz⟩
    show (match cu_eval_spline_2d_vector_loop4 U F xlen 0 (st0C U x xlen y ylen kts1 klen1 kts2 klen2 c z0 zlen 0 1) with
      | .ok σ => Out.ret σ | .done o => o) = _
    rw [hrun]
  · obtain ⟨σ', hrun, hz⟩ := p_loop_eq_cu U F (isPC7 U F) (isJC8 U F) (isKC9 U F) true false (wD1_spec U F) (wV2_spec U F) xlen 0
      (st0C U x xlen y ylen kts1 klen1 kts2 klen2 c z0 zlen 1 0) rfl rfl rfl rfl
    refine ⟨σ', ?_, key _ _ σ' hz⟩
    show (match cu_eval_spline_2d_vector_loop7 U F xlen 0 (st0C U x xlen y ylen kts1 klen1 kts2 klen2 c z0 zlen 1 0) with
      | .ok σ => Out.ret σ | .done o => o) = _
    rw [hrun]
  · obtain ⟨σ', hrun, hz⟩ := p_loop_eq_cu U F (isPC10 U F) (isJC11 U F) (isKC12 U F) true true (wD1_spec U F) (wD2_spec U F) xlen 0
      (st0C U x xlen y ylen kts1 klen1 kts2 klen2 c z0 zlen 1 1) rfl rfl rfl rfl
    refine ⟨σ', ?_, key _ _ σ' hz⟩
    show (match cu_eval_spline_2d_vector_loop10 U F xlen 0 (st0C U x xlen y ylen kts1 klen1 kts2 klen2 c z0 zlen 1 1) with
      | .ok σ => Out.ret σ | .done o => o) = _
    rw [hrun]

/-- **… which is, entry by entry, what the generated `cu_eval_spline_2d_scalar` returns at `(x[k], y[k])`**; nothing beyond `len(x)` is written -/
theorem gen_cu_vec_eq_scalar (x : ℕ → ℚ) (xlen : ℕ) (y : ℕ → ℚ) (ylen : ℕ) (kts1 : ℕ → ℚ) (klen1 : ℕ) (kts2 : ℕ → ℚ) (klen2 : ℕ) (c : ℕ → ℕ → ℚ) (z0 : ℕ → ℚ) (zlen : ℕ)
    (der1 der2 : Bool) :
    ∃ σ', run U F x xlen y ylen kts1 klen1 3 kts2 klen2 3 c z0 zlen (if der1 then 1 else 0) (if der2 then 1 else 0) = .ret σ' ∧
      (∀ k, k < xlen → ∃ σs, PygyroVerif.Gen.Eval2DCu.cu_eval_spline_2d_scalar_.run U F (x k) (y k) kts1 klen1 3 kts2 klen2 3 c
        (if der1 then 1 else 0) (if der2 then 1 else 0) = .ret σs ∧ σ'.z k = σs.ret_) ∧
      (∀ k, xlen ≤ k → σ'.z k = z0 k) := by
  obtain ⟨σ', hrun, hz⟩ := gen_cu_vec_eq U F x xlen y ylen kts1 klen1 kts2 klen2 c z0 zlen der1 der2
  refine ⟨σ', hrun, fun k hk => ?_, fun k hk => by rw [hz k, if_neg (by omega)]⟩
  obtain ⟨σs, hs, hret⟩ := gen_cu_eval_spline_2d_eq U F (x k) (y k) kts1 klen1 kts2 klen2 c der1 der2
  exact ⟨σs, hs, by rw [hz k, if_pos hk, hret]⟩

/-- **on the closed domain the SOURCE's uniform-cubic 2-D vector evaluation writes the values of the general path** (`evalSpline2D` on the uniform knot vectors) -/
theorem gen_cu_vec_general_path (x : ℕ → ℚ) (xlen : ℕ) (y : ℕ → ℚ) (ylen : ℕ) (kts1 : ℕ → ℚ) (klen1 : ℕ) (kts2 : ℕ → ℚ) (klen2 : ℕ) (c : ℕ → ℕ → ℚ) (z0 : ℕ → ℚ) (zlen : ℕ)
    (der1 der2 : Bool) (ncx ncy : ℕ) (hkx : kts1 3 = (ncx : ℚ)) (hky : kts2 3 = (ncy : ℚ)) (hdx : 0 < kts1 2) (hdy : 0 < kts2 2)
    (hnx : 1 ≤ ncx) (hny : 1 ≤ ncy) (hX : ∀ k, k < xlen → kts1 0 ≤ x k ∧ x k ≤ kts1 0 + (ncx : ℚ) * kts1 2)
    (hY : ∀ k, k < xlen → kts2 0 ≤ y k ∧ y k ≤ kts2 0 + (ncy : ℚ) * kts2 2) :
    ∃ σ', run U F x xlen y ylen kts1 klen1 3 kts2 klen2 3 c z0 zlen (if der1 then 1 else 0) (if der2 then 1 else 0) = .ret σ' ∧
      (∀ k, k < xlen → evalSpline2D (uniformKnots (kts1 0) (kts1 2)) (ncx + 7) 3 (uniformKnots (kts2 0) (kts2 2)) (ncy + 7) 3 c
        (x k) (y k) der1 der2 = some (σ'.z k)) ∧
      (∀ k, xlen ≤ k → σ'.z k = z0 k) := by
  obtain ⟨σ', hrun, hz⟩ := gen_cu_vec_eq U F x xlen y ylen kts1 klen1 kts2 klen2 c z0 zlen der1 der2
  refine ⟨σ', hrun, fun k hk => ?_, fun k hk => by rw [hz k, if_neg (by omega)]⟩
  rw [hz k, if_pos hk, hkx, hky, C07Gen3.pyInt_natCast, C07Gen3.pyInt_natCast]
  exact C07.cubic_path_eq_general_path_2d pyInt C07Gen3.pyInt_spec (kts1 0) (kts1 2) (x k) hdx ncx hnx (hX k hk).1 (hX k hk).2 (kts2 0) (kts2 2) (y k) hdy
    ncy hny (hY k hk).1 (hY k hk).2 c der1 der2

/-- for `(der1, der2)` outside `{0, 1}²` no branch of the source applies: the call returns and `z` is what it was -/
theorem gen_cu_vec_other_der (x : ℕ → ℚ) (xlen : ℕ) (y : ℕ → ℚ) (ylen : ℕ) (kts1 : ℕ → ℚ) (klen1 : ℕ) (deg1 : ℤ) (kts2 : ℕ → ℚ) (klen2 : ℕ) (deg2 : ℤ)
    (c : ℕ → ℕ → ℚ) (z0 : ℕ → ℚ) (zlen : ℕ) (der1 der2 : ℤ) (h : ¬ ((der1 = 0 ∨ der1 = 1) ∧ (der2 = 0 ∨ der2 = 1))) :
    ∃ σ', run U F x xlen y ylen kts1 klen1 deg1 kts2 klen2 deg2 c z0 zlen der1 der2 = .ret σ' ∧ σ'.z = z0 := by
  refine ⟨{ st0C U x xlen y ylen kts1 klen1 kts2 klen2 c z0 zlen der1 der2 with deg1 := deg1, deg2 := deg2 }, ?_, rfl⟩
  unfold run
  simp only
  by_cases h0 : der1 = 0
  · rw [if_pos h0, if_neg (by omega), if_neg (by omega)]; rfl
  · rw [if_neg h0]
    by_cases h1 : der1 = 1
    · rw [if_pos h1, if_neg (by omega), if_neg (by omega)]; rfl
    · rw [if_neg h1]; rfl

/-! concrete instance: direction 1 = `[0, 2, 1/2, 4]`, direction 2 = `[1, 7, 2, 3]`, the points `(5/4, 7)`, `(0, 3/2)`, `(2, 1)` (end points in both directions), the 7×6
    coefficient array `cuCoeffs2`; uninitialised memory holds 7, `z` holds 10 before the call.  (The source reads `y[i]` for `i < len(x)` without looking at `len(y)`:
    with a shorter `y` the real function raises IndexError — index bounds are not modelled.) -/
def wX : ℕ → ℚ := fun k => ([5 / 4, 0, 2, 1000] : List ℚ).getD k 0
def wY : ℕ → ℚ := fun k => ([7, 3 / 2, 1, 1000] : List ℚ).getD k 0

example (der1 der2 : Bool) (x y z0 : ℕ → ℚ) (hX : ∀ k, k < 3 → 0 ≤ x k ∧ x k ≤ 2) (hY : ∀ k, k < 3 → 1 ≤ y k ∧ y k ≤ 7) :
    ∃ σ', run (fun _ => 7) 0 x 3 y 3 C07Gen3.cKnots 4 3 cuKts2 4 3 cuCoeffs2 z0 3 (if der1 then 1 else 0) (if der2 then 1 else 0) = .ret σ' ∧
      (∀ k, k < 3 → evalSpline2D (uniformKnots 0 (1 / 2)) (4 + 7) 3 (uniformKnots 1 2) (3 + 7) 3 cuCoeffs2 (x k) (y k) der1 der2 = some (σ'.z k)) ∧
      (∀ k, 3 ≤ k → σ'.z k = z0 k) := by
  have h := gen_cu_vec_general_path (fun _ => 7) 0 x 3 y 3 C07Gen3.cKnots 4 cuKts2 4 cuCoeffs2 z0 3 der1 der2 4 3 (by norm_num [C07Gen3.cKnots])
    (by norm_num [cuKts2]) (by norm_num [C07Gen3.cKnots]) (by norm_num [cuKts2]) (by norm_num) (by norm_num)
    (fun a ha => by have := hX a ha; norm_num [C07Gen3.cKnots]; exact this)
    (fun b hb => by have := hY b hb; norm_num [cuKts2]; constructor <;> linarith)
  simpa [C07Gen3.cKnots, cuKts2] using h
/-- the generated code itself, evaluated (entries 0..4; 3 and 4 are beyond `len(x)`) for the four (der1, der2); the same numbers (as floats) are what
    `cu_eval_spline_2d_vector` of /repo leaves in `z` on these inputs -/
example : ([(0, 0), (0, 1), (1, 0), (1, 1)].map fun d : ℤ × ℤ =>
      match run (fun _ => 7) 0 wX 3 wY 3 C07Gen3.cKnots 4 3 cuKts2 4 3 cuCoeffs2 (fun _ => 10) 3 d.1 d.2 with
      | .ret σ => (List.range 5).map σ.z | _ => []) =
    [[851 / 36, -77 / 144, 230 / 9, 10, 10], [11 / 3, -7 / 12, 2 / 3, 10, 10], [224 / 9, 379 / 72, 188 / 9, 10, 10], [8 / 3, 5 / 6, 2 / 3, 10, 10]] := by
  decide +kernel
/-- … and it is, entry by entry, the model `cuEvalSpline2D` at the three points -/
example : ([(0, 0), (0, 1), (1, 0), (1, 1)].map fun d : ℤ × ℤ =>
      match run (fun _ => 7) 0 wX 3 wY 3 C07Gen3.cKnots 4 3 cuKts2 4 3 cuCoeffs2 (fun _ => 10) 3 d.1 d.2 with
      | .ret σ => (List.range 3).map σ.z | _ => []) =
    [(false, false), (false, true), (true, false), (true, true)].map fun d : Bool × Bool => (List.range 3).map fun k =>
      cuEvalSpline2D pyInt 0 (1 / 2) 4 1 2 3 cuCoeffs2 (wX k) (wY k) d.1 d.2 := by decide +kernel
/-- the guard `deg1 = deg2 = 3` (numpy's shape check): with `deg1 = 2` the generated function raises ValueError, as the real one does -/
example : (match run (fun _ => 7) 0 wX 3 wY 3 C07Gen3.cKnots 4 2 cuKts2 4 3 cuCoeffs2 (fun _ => 10) 3 0 0 with
    | .raised e => e | _ => "") = "ValueError" := by decide +kernel

end Cu

end PygyroVerif.C07Gen7
