/-
C07, tie by translation, part 3: the uniform-cubic kernels.  `Generated/CubicUniformGen.lean` (`cu_find_span`, `cu_basis_funs`,
`cu_basis_funs_1st_der`, `cu_eval_spline_1d_scalar`) is REGENERATED on every run of `./check C07` from
pygyro/splines/cubic_uniform_spline_eval_funcs.py (harness/translate_pure.py, target `cueval`: every Python `int` of these kernels
is a Lean `Int` — the span is negative left of the domain —, `int(x)` of a float is `pyInt x` = truncation toward zero
(`Int.tdiv x.num x.den`), an `Int` used as an array index is `Int.toNat`, `a, b = e1, e2` is one simultaneous update, a tuple
return fills `ret0_`, `ret1_`).

This file proves that the generated functions compute what the hand-written model (Model/CubicUniform.lean at K = ℚ with
`trunc := pyInt`: `cuFindSpan`, `cuBasisFuns`, `cuBasisFunsDer`, `cuEvalSpline1D`) computes, for ALL arguments, all initial contents
of the output arrays and of uninitialised memory, every fuel.  `pyInt_spec` shows that truncation toward zero satisfies the
hypothesis `htr` under which Props/C07.lean proves `cuFindSpan_correct`, `cubic_path_eq_general_path`, …, so that those theorems
hold of what the source says now (`gen_cu_eval_eq_general_path`: on the closed domain the SOURCE's uniform-cubic evaluation
returns the value of the general path on the uniform knot vector).
Guard of the evaluation theorem: `3 ≤ span` (`x ≥ xmin`): left of the domain Python's `coeffs[span-3+j]` is a negative index, which
neither the translation (`Int.toNat`) nor the model represents.
-/
import PygyroVerif.Generated.CubicUniformGen
import PygyroVerif.Props.C07
import Mathlib.Data.Rat.Floor
import Mathlib.Tactic.Ring
import Mathlib.Tactic.NormNum

namespace PygyroVerif.C07Gen3
open PygyroVerif PygyroVerif.BSpline PygyroVerif.CubicUniform
open PygyroVerif.Gen.CubicUniform

/-! ## `int(x)`: truncation toward zero -/

/-- for a non-negative float `int(x)` is the floor -/
theorem pyInt_eq_floor (q : ℚ) (hq : 0 ≤ q) : pyInt q = ⌊q⌋ := by
  unfold pyInt
  rw [Int.tdiv_eq_ediv_of_nonneg (Rat.num_nonneg.mpr hq), Rat.floor_def']

/-- `int(-x) = -int(x)`: truncation is toward zero on both sides -/
theorem pyInt_neg (q : ℚ) : pyInt (-q) = -pyInt q := by
  unfold pyInt
  rw [Rat.neg_num, Rat.neg_den, Int.neg_tdiv]

/-- for a negative float `int(x)` is the ceiling -/
theorem pyInt_eq_ceil (q : ℚ) (hq : q ≤ 0) : pyInt q = ⌈q⌉ := by
  have h := pyInt_eq_floor (-q) (by linarith)
  rw [pyInt_neg, Int.floor_neg] at h
  omega

/-- **`int(·)` as the source uses it satisfies the truncation hypothesis `htr` of the uniform-cubic theorems of Props/C07.lean** -/
theorem pyInt_spec : ∀ q : ℚ, 0 ≤ q → ((pyInt q : ℤ) : ℚ) ≤ q ∧ q < ((pyInt q : ℤ) : ℚ) + 1 := by
  intro q hq
  rw [pyInt_eq_floor q hq]
  exact ⟨Int.floor_le q, Int.lt_floor_add_one q⟩

theorem pyInt_natCast (n : ℕ) : pyInt (n : ℚ) = (n : ℤ) := by
  rw [pyInt_eq_floor _ (Nat.cast_nonneg n), Int.floor_natCast]

example : [pyInt (7 / 2), pyInt (-7 / 2), pyInt 4, pyInt (-1 / 3), pyInt 0] = [3, -3, 4, 0, 0] := by decide +kernel

/-! ## the four kernels -/

/-- **the generated `cu_find_span` returns the model's pair** `(span, offset)`, for all arguments (`xmax` is not used by either) -/
theorem gen_cu_find_span_eq (U : ℕ → ℚ) (F : ℕ) (xmin xmax dx x : ℚ) (ncells : ℤ) :
    ∃ σ', cu_find_span_.run U F xmin xmax dx x ncells = .ret σ' ∧
      (σ'.ret0_, σ'.ret1_) = cuFindSpan pyInt xmin dx x ncells := by
  by_cases h : pyInt ((x - xmin) / dx) = ncells
  · refine ⟨_, if_pos h, ?_⟩
    unfold cuFindSpan
    simp only
    rw [if_pos h]
  · refine ⟨_, if_neg h, ?_⟩
    unfold cuFindSpan
    simp only
    rw [if_neg h]

/-- **the generated `cu_basis_funs` writes the model's four values** into `values[0..3]` and nothing else (the parameter `span` is
    not used by the source) -/
theorem gen_cu_basis_funs_eq (U : ℕ → ℚ) (F : ℕ) (span : ℤ) (offset : ℚ) (v0 : ℕ → ℚ) (vlen : ℕ) :
    ∃ σ', cu_basis_funs_.run U F span offset v0 vlen = .ret σ' ∧
      (List.range 4).map σ'.values = cuBasisFuns offset ∧ ∀ k, 3 < k → σ'.values k = v0 k := by
  refine ⟨_, rfl, ?_, ?_⟩
  · simp [List.range_succ, cuBasisFuns]
  · intro k hk
    have h0 : k ≠ 0 := by omega
    have h1 : k ≠ 1 := by omega
    have h2 : k ≠ 2 := by omega
    have h3 : k ≠ 3 := by omega
    simp [h0, h1, h2, h3]

/-- **the generated `cu_basis_funs_1st_der` writes the model's four derivative values** into `ders[0..3]` and nothing else -/
theorem gen_cu_basis_funs_1st_der_eq (U : ℕ → ℚ) (F : ℕ) (span : ℤ) (offset dx : ℚ) (d0 : ℕ → ℚ) (dlen : ℕ) :
    ∃ σ', cu_basis_funs_1st_der_.run U F span offset dx d0 dlen = .ret σ' ∧
      (List.range 4).map σ'.ders = cuBasisFunsDer offset dx ∧ ∀ k, 3 < k → σ'.ders k = d0 k := by
  refine ⟨_, rfl, ?_, ?_⟩
  · simp [List.range_succ, cuBasisFunsDer]
  · intro k hk
    have h0 : k ≠ 0 := by omega
    have h1 : k ≠ 1 := by omega
    have h2 : k ≠ 2 := by omega
    have h3 : k ≠ 3 := by omega
    simp [h0, h1, h2, h3]

section eval
open PygyroVerif.Gen.CubicUniform.cu_eval_spline_1d_scalar_

/-- the part of `cu_eval_spline_1d_scalar` after the basis array has been filled: `y = 0.0`, the four accumulation steps,
    `return y`; for `3 ≤ span` the indices `span-3+j` are the model's `(span-3).toNat + j` -/
theorem eval_tail (U : ℕ → ℚ) (F : ℕ) (σ : St) (B : List ℚ) (hs : 3 ≤ σ.span) (hB : (List.range 4).map σ.basis = B) :
    ∃ σ', (match cu_eval_spline_1d_scalar_loop1 U F (4 - 0) 0 { σ with y := 0 } with
        | .ok σ => Out.ret { σ with ret_ := σ.y }
        | .done o => o) = .ret σ' ∧
      σ'.ret_ = dotFrom σ.coeffs (σ.span - 3).toNat B := by
  refine ⟨_, rfl, ?_⟩
  subst hB
  have hidx : ∀ k : ℕ, Int.toNat (σ.span - 3 + (k : ℤ)) = (σ.span - 3).toNat + k := fun k => by omega
  show (0 : ℚ) + σ.coeffs (Int.toNat (σ.span - 3 + ((0 : ℕ) : ℤ))) * σ.basis 0
      + σ.coeffs (Int.toNat (σ.span - 3 + ((0 + 1 : ℕ) : ℤ))) * σ.basis (0 + 1)
      + σ.coeffs (Int.toNat (σ.span - 3 + ((0 + 1 + 1 : ℕ) : ℤ))) * σ.basis (0 + 1 + 1)
      + σ.coeffs (Int.toNat (σ.span - 3 + ((0 + 1 + 1 + 1 : ℕ) : ℤ))) * σ.basis (0 + 1 + 1 + 1) = _
  rw [hidx, hidx, hidx, hidx]
  simp [dotFrom, List.range_succ, List.zipIdx]

/-- **the generated `cu_eval_spline_1d_scalar` returns the model's value** (`der` = 0: the spline, `der` = 1: its first derivative) for
    every 4-array `knots = [xmin, xmax, dx, ncells]`, coefficient array, point with `3 ≤ span` (i.e. `x` not left of the domain), every
    content `U` of the uninitialised `basis` array and every fuel: span search with `int(·)`, basis or derivative kernel, accumulation -/
theorem gen_cu_eval_spline_1d_eq (U : ℕ → ℚ) (F : ℕ) (x : ℚ) (knots : ℕ → ℚ) (klen : ℕ) (degree : ℤ) (c : ℕ → ℚ) (clen : ℕ)
    (der : Bool) (hs : 3 ≤ (cuFindSpan pyInt (knots 0) (knots 2) x (pyInt (knots 3))).1) :
    ∃ σ', run U F x knots klen degree c clen (if der then 1 else 0) = .ret σ' ∧
      σ'.ret_ = cuEvalSpline1D pyInt (knots 0) (knots 2) (pyInt (knots 3)) c x der := by
  obtain ⟨τ, hτ, hpair⟩ := gen_cu_find_span_eq U F (knots 0) (knots 1) (knots 2) x (pyInt (knots 3))
  have h0 : τ.ret0_ = (cuFindSpan pyInt (knots 0) (knots 2) x (pyInt (knots 3))).1 := congrArg Prod.fst hpair
  have h1 : τ.ret1_ = (cuFindSpan pyInt (knots 0) (knots 2) x (pyInt (knots 3))).2 := congrArg Prod.snd hpair
  unfold cuEvalSpline1D
  simp only
  rw [← h0, ← h1]
  rw [← h0] at hs
  cases der with
  | false =>
    obtain ⟨β, hβ, hval, -⟩ := gen_cu_basis_funs_eq U F τ.ret0_ τ.ret1_ U 4
    obtain ⟨σ', hrun, hret⟩ := eval_tail U F
      { x := x, knots := knots, knots_len := klen, degree := degree, coeffs := c, coeffs_len := clen, der := 0,
        xmin := knots 0, xmax := knots 1, dx := knots 2, f_ncells_x := knots 3, ncells_x := pyInt (knots 3),
        span := τ.ret0_, offset := τ.ret1_, basis := β.values, basis_len := 4 } (cuBasisOrDer τ.ret1_ (knots 2) false) hs hval
    refine ⟨σ', ?_, hret⟩
    show run U F x knots klen degree c clen 0 = _
    unfold run
    simp only [hτ, hβ]
    exact hrun
  | true =>
    obtain ⟨β, hβ, hval, -⟩ := gen_cu_basis_funs_1st_der_eq U F τ.ret0_ τ.ret1_ (knots 2) U 4
    obtain ⟨σ', hrun, hret⟩ := eval_tail U F
      { x := x, knots := knots, knots_len := klen, degree := degree, coeffs := c, coeffs_len := clen, der := 1,
        xmin := knots 0, xmax := knots 1, dx := knots 2, f_ncells_x := knots 3, ncells_x := pyInt (knots 3),
        span := τ.ret0_, offset := τ.ret1_, basis := β.ders, basis_len := 4 } (cuBasisOrDer τ.ret1_ (knots 2) true) hs hval
    refine ⟨σ', ?_, hret⟩
    show run U F x knots klen degree c clen 1 = _
    unfold run
    simp only [hτ, hβ]
    exact hrun

/-- **on the closed domain the SOURCE's uniform-cubic evaluation returns the value of the general path**: for the 4-array
    `[xmin, xmax, dx, ncells]` with `dx > 0`, `ncells ≥ 1` and `xmin ≤ x ≤ xmin + ncells·dx` (right end point included), the generated
    `cu_eval_spline_1d_scalar` returns, and its value is `evalSpline1D` (the model `gen_eval_spline_1d_eq` ties to
    `nu_eval_spline_1d_scalar`) on the uniform knot vector `xmin + (i-3)·dx`, for the value and for the first derivative -/
theorem gen_cu_eval_eq_general_path (U : ℕ → ℚ) (F : ℕ) (x : ℚ) (knots : ℕ → ℚ) (klen : ℕ) (degree : ℤ) (c : ℕ → ℚ) (clen : ℕ)
    (der : Bool) (ncells : ℕ) (hk : knots 3 = (ncells : ℚ)) (hdx : 0 < knots 2) (hn : 1 ≤ ncells)
    (hx1 : knots 0 ≤ x) (hx2 : x ≤ knots 0 + (ncells : ℚ) * knots 2) :
    ∃ σ', run U F x knots klen degree c clen (if der then 1 else 0) = .ret σ' ∧
      evalSpline1D (uniformKnots (knots 0) (knots 2)) (ncells + 7) 3 c x der = some σ'.ret_ := by
  have hnc : pyInt (knots 3) = (ncells : ℤ) := by rw [hk, pyInt_natCast]
  obtain ⟨s, hs1, hs3, -⟩ := C07.cuFindSpan_correct pyInt pyInt_spec (knots 0) (knots 2) x hdx ncells hn hx1 hx2
  obtain ⟨σ', hrun, hret⟩ := gen_cu_eval_spline_1d_eq U F x knots klen degree c clen der (by rw [hnc, hs1]; exact_mod_cast hs3)
  refine ⟨σ', hrun, ?_⟩
  rw [hret, hnc]
  exact C07.cubic_path_eq_general_path pyInt pyInt_spec (knots 0) (knots 2) x hdx ncells hn hx1 hx2 c der

end eval

/-! ## concrete instances: `knots = [0, 2, 1/2, 4]` (four cells of width 1/2 on [0, 2]), coefficients `1,-2,3,5,-1,2,4`; uninitialised
    memory holds 7, the output arrays hold 9 before the call -/
def cKnots : ℕ → ℚ := fun i => ([0, 2, 1 / 2, 4] : List ℚ).getD i 0
def cCoeffs : ℕ → ℚ := fun i => ([1, -2, 3, 5, -1, 2, 4] : List ℚ).getD i 0

example : ∃ σ', cu_find_span_.run (fun _ => 7) 0 0 2 (1 / 2) (5 / 4) 4 = .ret σ' ∧
    (σ'.ret0_, σ'.ret1_) = cuFindSpan pyInt 0 (1 / 2) (5 / 4) 4 :=
  gen_cu_find_span_eq (fun _ => 7) 0 0 2 (1 / 2) (5 / 4) 4
/-- the generated span search itself: inside a cell, at the right end point (`span == ncells` branch), left of the domain -/
example : ([(5 / 4 : ℚ), 2, -3 / 4].map fun x => match cu_find_span_.run (fun _ => 7) 0 0 2 (1 / 2) x 4 with
    | .ret σ => (σ.ret0_, σ.ret1_) | _ => (0, 0)) = [(5, 1 / 2), (6, 1), (2, -1 / 2)] := by decide +kernel

example : ∃ σ', cu_basis_funs_.run (fun _ => 7) 0 5 (1 / 2) (fun _ => 9) 4 = .ret σ' ∧
    (List.range 4).map σ'.values = cuBasisFuns (1 / 2) ∧ ∀ k, 3 < k → σ'.values k = 9 :=
  gen_cu_basis_funs_eq (fun _ => 7) 0 5 (1 / 2) (fun _ => 9) 4
example : (match cu_basis_funs_.run (fun _ => 7) 0 5 (1 / 2) (fun _ => 9) 4, cu_basis_funs_1st_der_.run (fun _ => 7) 0 5 (1 / 2) (1 / 2) (fun _ => 9) 4 with
    | .ret σ, .ret σ' => [(List.range 5).map σ.values, (List.range 5).map σ'.ders] | _, _ => []) =
    [[1 / 48, 23 / 48, 23 / 48, 1 / 48, 9], [-1 / 4, -5 / 4, 5 / 4, 1 / 4, 9]] := by decide +kernel

/-- the hypothesis `3 ≤ span` of `gen_cu_eval_spline_1d_eq` on the instance, and the instance itself (value and derivative) -/
theorem cSpan : 3 ≤ (cuFindSpan pyInt (cKnots 0) (cKnots 2) (5 / 4) (pyInt (cKnots 3))).1 := by decide +kernel
example (der : Bool) : ∃ σ', cu_eval_spline_1d_scalar_.run (fun _ => 7) 0 (5 / 4) cKnots 4 3 cCoeffs 7 (if der then 1 else 0) = .ret σ' ∧
    σ'.ret_ = cuEvalSpline1D pyInt (cKnots 0) (cKnots 2) (pyInt (cKnots 3)) cCoeffs (5 / 4) der :=
  gen_cu_eval_spline_1d_eq (fun _ => 7) 0 (5 / 4) cKnots 4 3 cCoeffs 7 der cSpan
example (der : Bool) (x : ℚ) (h1 : 0 ≤ x) (h2 : x ≤ 2) :
    ∃ σ', cu_eval_spline_1d_scalar_.run (fun _ => 7) 0 x cKnots 4 3 cCoeffs 7 (if der then 1 else 0) = .ret σ' ∧
      evalSpline1D (uniformKnots 0 (1 / 2)) (4 + 7) 3 cCoeffs x der = some σ'.ret_ :=
  gen_cu_eval_eq_general_path (fun _ => 7) 0 x cKnots 4 3 cCoeffs 7 der 4 (by norm_num [cKnots]) (by norm_num [cKnots]) (by norm_num)
    (by simpa [cKnots] using h1) (by norm_num [cKnots]; linarith)
/-- the generated code itself, evaluated at `x = 5/4` (value, derivative) and at the right end point `x = 2` -/
example : (match cu_eval_spline_1d_scalar_.run (fun _ => 7) 0 (5 / 4) cKnots 4 3 cCoeffs 7 0,
      cu_eval_spline_1d_scalar_.run (fun _ => 7) 0 (5 / 4) cKnots 4 3 cCoeffs 7 1,
      cu_eval_spline_1d_scalar_.run (fun _ => 7) 0 2 cKnots 4 3 cCoeffs 7 0 with
    | .ret a, .ret b, .ret c => [a.ret_, b.ret_, c.ret_] | _, _, _ => []) = [97 / 48, -31 / 4, 11 / 6] := by decide +kernel

end PygyroVerif.C07Gen3
