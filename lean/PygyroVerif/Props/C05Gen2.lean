/-
C05, tie by translation of the GRID-LEVEL LOOPS (translator round 6b).  `Generated/GridOpsGen.lean` is REGENERATED on every run of `./check C05`
from the source of
    FluxSurfaceAdvection.gridStep, VParallelAdvection.gridStep / gridStepKeepGradient, PoloidalAdvection.gridStep / gridStep_SplinesUnchanged,
    DensityFinder.getPerturbedRho / getRho, DiffEqSolver.solveEquation, QuasiNeutralitySolver.solveEquation,
    initialise_flux_surface / initialise_poloidal / initialise_v_parallel
by harness/translate_gridops.py: for each method the list of kernel calls its loops make, every argument as the index expression the source
passes, over the `Grid` accessors of Model/GridApi.lean.  This file proves, for EVERY layout and EVERY process, that the generated call list,
read through the table conventions of Lemmas/GridOpsGen.lean, IS the call list of Model/Wiring.lean (`gen_*_eq`), hence that the theorems
`C05.wiring_*` — the parameters a slice is processed with are those of the slice's own global indices — hold of the loops the source contains
NOW (`gen_wiring_*`).  An `assert` of the source is a guard: when it fails the generated function is `none` (`gen_*_refuses`).

Guards that are NOT asserted by the source and appear as hypotheses (what the real code does there is said at each theorem):
  * `VParallelAdvection.gridStep*`, `initialise_*` do not check the layout at all: the theorems need "the grid is 4-D, the potential 3-D"
    (otherwise `get1DSlice` / `get2DSlice` raise AssertionError on the first slice; an axis beyond the layout raises IndexError);
  * `PoloidalAdvection.gridStep` asserts the dims_order of `phi.getLayout(grid.currentLayout)` — the layout `phi` HAS UNDER THE NAME of the
    grid's current layout — not of the layout `phi` is in; the tie needs `phi` itself to be 3-D (`gen_pol_eq`), which follows when the two
    grids are in layouts of the same name (`phi_ndims_of_same_name`).
Concrete instances on a 2 x 2 process grid with uneven blocks: Props/C05Gen2Examples.lean (recorded from the REAL methods, see there).
-/
import PygyroVerif.Generated.GridOpsGen
import PygyroVerif.Lemmas.GridOpsGen
import PygyroVerif.Props.C05
import PygyroVerif.Props.C05Gen2Examples

set_option linter.unusedSimpArgs false

namespace PygyroVerif.C05Gen2
open PygyroVerif PygyroVerif.Wiring PygyroVerif.GridApi PygyroVerif.Gen.GridOps

theorem ndims_of_ord {L : Layout} {l : List Nat} (h : L.ord = l) : L.ndims = l.length := by simp [Layout.ndims, h]

/-! ### flux-surface advection -/

/-- `FluxSurfaceAdvection.gridStep`: the generated loop = `fluxGridStep true` (the repaired index expressions) -/
theorem gen_flux_eq (grid : GridV) (h : grid.lay.ord = [0, 3, 1, 2]) :
    (FluxSurfaceAdvection_gridStep grid).map (List.map (fluxConv grid)) = some (fluxGridStep true grid.lay grid.crd) := by
  have hnd : grid.lay.ndims = 4 := ndims_of_ord h
  have h' : (grid.getLayout grid.currentLayout).ord = [0, 3, 1, 2] := h
  simp only [FluxSurfaceAdvection_gridStep, h', not_true_eq_false, if_false, Option.map_some, forEnum_getCoords,
    List.map_flatMap, fluxGridStep]
  simp [fluxConv, argOf, List.lookup, GridV.get2DSlice, hnd, globalFrom, ← List.map_eq_flatMap]

theorem gen_flux_refuses (grid : GridV) (h : grid.lay.ord ≠ [0, 3, 1, 2]) : FluxSurfaceAdvection_gridStep grid = none := by
  have h' : ¬ (grid.getLayout grid.currentLayout).ord = [0, 3, 1, 2] := h
  simp [FluxSurfaceAdvection_gridStep, h']

/-- whenever the method passes its assert, every slice is advected with the tables of its own radius and velocity (F3 cannot come back
    without breaking this proof) -/
theorem gen_wiring_flux (grid : GridV) (calls : List RawCall) (h : FluxSurfaceAdvection_gridStep grid = some calls) :
    ∀ rc ∈ calls, (fluxConv grid rc).params = (fluxConv grid rc).slice := by
  by_cases ho : grid.lay.ord = [0, 3, 1, 2]
  · have he := gen_flux_eq grid ho
    rw [h] at he
    simp only [Option.map_some, Option.some.injEq] at he
    intro rc hrc
    exact C05.wiring_flux _ _ _ (he ▸ List.mem_map_of_mem hrc)
  · rw [gen_flux_refuses grid ho] at h; cases h

/-! ### v-parallel advection -/

/-- `VParallelAdvection.gridStep` = `vparGridStep true false`; the source asserts nothing: for a grid that is not 4-D or a potential that is not
    3-D the real `get1DSlice` / `get2DSlice` raise on the first slice -/
theorem gen_vpar_eq (grid phi : GridV) (hg : grid.lay.ndims = 4) (hp : phi.lay.ndims = 3) :
    (VParallelAdvection_gridStep grid phi).map (List.map (vparConv grid phi)) =
      some (vparGridStep true false grid.lay grid.crd phi.lay phi.crd) := by
  have h1 : 1 < grid.lay.ndims := by omega
  simp only [VParallelAdvection_gridStep, Option.map_some, forEnum_getCoords, forEnum_enumerate_globalIdxVals _ _ h1,
    List.map_flatMap, List.map_append, vparGridStep]
  simp [vparConv, argOf, List.lookup, GridV.get2DSlice, GridV.get1DSlice, hg, hp, globalFrom, ← List.map_eq_flatMap]

/-- `VParallelAdvection.gridStepKeepGradient` = `vparGridStep true true`; `phi` = the potential whose radial slices filled `parGradVals` -/
theorem gen_vpar_keep_eq (grid phi : GridV) (hg : grid.lay.ndims = 4) :
    (VParallelAdvection_gridStepKeepGradient grid).map (List.map (vparConv grid phi)) =
      some (vparGridStep true true grid.lay grid.crd phi.lay phi.crd) := by
  have h1 : 1 < grid.lay.ndims := by omega
  simp only [VParallelAdvection_gridStepKeepGradient, Option.map_some, forEnum_getCoords, forEnum_enumerate_globalIdxVals _ _ h1,
    List.map_flatMap, List.map_append, vparGridStep]
  simp [vparConv, argOf, List.lookup, GridV.get1DSlice, hg, globalFrom, ← List.map_eq_flatMap]

/-- every line is advected with the gradient row of its own radius, the entry of its own GLOBAL axial index (F4) and poloidal index, and
    its own radius value — when the potential block starts at the same radius as the distribution block and θ is not distributed
    (the hypotheses of `C05.wiring_vpar`) -/
theorem gen_wiring_vpar (kg : Bool) (grid phi : GridV) (hg : grid.lay.ndims = 4) (hp : phi.lay.ndims = 3)
    (hphi : phi.lay.startAt phi.crd 0 = grid.lay.startAt grid.crd 0) (hth : grid.lay.startAt grid.crd 2 = 0)
    (calls : List RawCall)
    (h : (if kg then VParallelAdvection_gridStepKeepGradient grid else VParallelAdvection_gridStep grid phi) = some calls) :
    ∀ rc ∈ calls, (vparConv grid phi rc).op = "vpar.step" →
      (vparConv grid phi rc).params = (vparConv grid phi rc).slice ++ [(vparConv grid phi rc).slice.getD 0 0] := by
  have he : calls.map (vparConv grid phi) = vparGridStep true kg grid.lay grid.crd phi.lay phi.crd := by
    cases kg
    · have := gen_vpar_eq grid phi hg hp
      simp only [Bool.false_eq_true, if_false] at h
      rw [h] at this; simpa using this
    · have := gen_vpar_keep_eq grid phi hg
      simp only [if_true] at h
      rw [h] at this; simpa using this
  intro rc hrc hop
  exact C05.wiring_vpar kg _ _ _ _ hphi hth _ (he ▸ List.mem_map_of_mem hrc) hop

/-- the parallel gradient written to row `i` of the table is computed from the potential slice of that same radius -/
theorem gen_wiring_pargrad (grid phi : GridV) (hg : grid.lay.ndims = 4) (hp : phi.lay.ndims = 3) (calls : List RawCall)
    (h : VParallelAdvection_gridStep grid phi = some calls) :
    ∀ rc ∈ calls, (vparConv grid phi rc).op = "pargrad" → (vparConv grid phi rc).params = (vparConv grid phi rc).slice := by
  have he := gen_vpar_eq grid phi hg hp
  rw [h] at he
  simp only [Option.map_some, Option.some.injEq] at he
  intro rc hrc hop
  exact C05.wiring_pargrad _ _ _ _ _ (he ▸ List.mem_map_of_mem hrc) hop

/-! ### poloidal advection -/

/-- the `pol.step` calls of `polGridStep` (its second half) -/
def polSteps (L : Layout) (c : List Nat) (Lp : Layout) (cp : List Nat) : List Call :=
  (List.range (sh L c 0)).flatMap (fun i => (List.range (sh L c 1)).map (fun j =>
    { op := "pol.step", slice := [L.startAt c 0 + i, L.startAt c 1 + j],
      params := [L.startAt c 0 + i, Lp.startAt cp 0 + j] }))

theorem polSteps_sub (L : Layout) (c : List Nat) (Lp : Layout) (cp : List Nat) :
    ∀ call ∈ polSteps L c Lp cp, call ∈ polGridStep L c Lp cp := fun _ h => List.mem_append_right _ h

/-- the two grids are in layouts of the same name (as in the driver: both 'poloidal'): then the assert of the source is about the layout the
    potential is in, and the potential is 3-D -/
theorem phi_ndims_of_same_name (grid phi : GridV) (hname : phi.currentLayout = grid.currentLayout)
    (h1 : grid.lay.ord.drop 1 = (phi.getLayout grid.currentLayout).ord) (h2 : grid.lay.ord = [3, 2, 1, 0]) : phi.lay.ndims = 3 := by
  have : phi.lay = phi.getLayout grid.currentLayout := by
    unfold GridV.lay GridV.getLayout; rw [← hname]; rfl
  rw [this, Layout.ndims, ← h1, h2]; rfl

/-- `PoloidalAdvection.gridStep` = `polGridStep`.  `h1`, `h2` are the asserts of the source; `hp` is NOT asserted (see the file header) -/
theorem gen_pol_eq (grid phi : GridV) (h1 : grid.lay.ord.drop 1 = (phi.getLayout grid.currentLayout).ord)
    (h2 : grid.lay.ord = [3, 2, 1, 0]) (hp : phi.lay.ndims = 3) :
    (PoloidalAdvection_gridStep grid phi).map (List.map (polConv grid phi)) =
      some (polGridStep grid.lay grid.crd phi.lay phi.crd) := by
  have hg : grid.lay.ndims = 4 := ndims_of_ord h2
  have h2' : (grid.getLayout grid.currentLayout).ord = [3, 2, 1, 0] := h2
  have h1' : (phi.getLayout grid.currentLayout).ord = [2, 1, 0] := by rw [← h1, h2]; rfl
  simp only [PoloidalAdvection_gridStep, h1', h2', List.drop_succ_cons, List.drop_zero, not_true_eq_false, if_false, Option.map_some,
    forEnum_getCoords, List.map_flatMap, List.map_append, polGridStep]
  simp [polConv, argOf, List.lookup, GridV.get2DSlice, hg, hp, h2, globalFrom, ← List.map_eq_flatMap]

theorem gen_pol_refuses (grid phi : GridV)
    (h : grid.lay.ord.drop 1 ≠ (phi.getLayout grid.currentLayout).ord ∨ grid.lay.ord ≠ [3, 2, 1, 0]) :
    PoloidalAdvection_gridStep grid phi = none := by
  rcases h with h | h
  · have h' : ¬ ((grid.getLayout grid.currentLayout).ord.drop 1 = (phi.getLayout grid.currentLayout).ord) := h
    simp only [PoloidalAdvection_gridStep, h', not_false_eq_true, if_true]
  · have h' : ¬ ((grid.getLayout grid.currentLayout).ord = [3, 2, 1, 0]) := h
    simp only [PoloidalAdvection_gridStep, h', not_false_eq_true, if_true, ite_self]

/-- `PoloidalAdvection.gridStep_SplinesUnchanged` = the `pol.step` half of `polGridStep`; `phi` = the potential of the last `gridStep` -/
theorem gen_pol_unchanged_eq (grid phi : GridV) (h2 : grid.lay.ord = [3, 2, 1, 0]) :
    (PoloidalAdvection_gridStep_SplinesUnchanged grid).map (List.map (polConv grid phi)) =
      some (polSteps grid.lay grid.crd phi.lay phi.crd) := by
  have hg : grid.lay.ndims = 4 := ndims_of_ord h2
  have h2' : (grid.getLayout grid.currentLayout).ord = [3, 2, 1, 0] := h2
  simp only [PoloidalAdvection_gridStep_SplinesUnchanged, h2', not_true_eq_false, if_false, Option.map_some, forEnum_getCoords,
    List.map_flatMap, List.map_append, polSteps]
  simp [polConv, argOf, List.lookup, GridV.get2DSlice, hg, h2, globalFrom, ← List.map_eq_flatMap]

theorem gen_pol_unchanged_refuses (grid : GridV) (h : grid.lay.ord ≠ [3, 2, 1, 0]) :
    PoloidalAdvection_gridStep_SplinesUnchanged grid = none := by
  have hl : grid.getLayout grid.currentLayout = grid.lay := rfl
  simp [PoloidalAdvection_gridStep_SplinesUnchanged, hl, h]

/-- every poloidal plane is advected with the velocity of its own `v` index and the interpolant of the potential at its own axial position,
    and interpolant `j` is computed from the potential's plane `j` — when the potential block starts at the same axial index as the
    distribution block (hypothesis of `C05.wiring_poloidal`) -/
theorem gen_wiring_poloidal (grid phi : GridV) (hp : phi.lay.ndims = 3)
    (hphi : phi.lay.startAt phi.crd 0 = grid.lay.startAt grid.crd 1) (calls : List RawCall)
    (h : PoloidalAdvection_gridStep grid phi = some calls) :
    ∀ rc ∈ calls, (polConv grid phi rc).params = (polConv grid phi rc).slice := by
  by_cases ho : grid.lay.ord.drop 1 = (phi.getLayout grid.currentLayout).ord ∧ grid.lay.ord = [3, 2, 1, 0]
  · have he := gen_pol_eq grid phi ho.1 ho.2 hp
    rw [h] at he
    simp only [Option.map_some, Option.some.injEq] at he
    intro rc hrc
    exact C05.wiring_poloidal _ _ _ _ hphi _ (he ▸ List.mem_map_of_mem hrc)
  · rw [gen_pol_refuses grid phi (by
      by_cases h1 : grid.lay.ord.drop 1 = (phi.getLayout grid.currentLayout).ord
      · exact Or.inr (fun h2 => ho ⟨h1, h2⟩)
      · exact Or.inl h1)] at h
    cases h

theorem gen_wiring_poloidal_unchanged (grid phi : GridV)
    (hphi : phi.lay.startAt phi.crd 0 = grid.lay.startAt grid.crd 1) (calls : List RawCall)
    (h : PoloidalAdvection_gridStep_SplinesUnchanged grid = some calls) :
    ∀ rc ∈ calls, (polConv grid phi rc).params = (polConv grid phi rc).slice := by
  by_cases ho : grid.lay.ord = [3, 2, 1, 0]
  · have he := gen_pol_unchanged_eq grid phi ho
    rw [h] at he
    simp only [Option.map_some, Option.some.injEq] at he
    intro rc hrc
    exact C05.wiring_poloidal _ _ _ _ hphi _ (polSteps_sub _ _ _ _ _ (he ▸ List.mem_map_of_mem hrc))
  · rw [gen_pol_unchanged_refuses grid ho] at h; cases h

/-! ### density -/

/-- `DensityFinder.getPerturbedRho`: the rows of the equilibrium table handed to the kernel = `densityRows` -/
theorem gen_density_eq (grid rho : GridV) (h1 : grid.lay.ord = [0, 2, 1, 3]) (h2 : rho.lay.ord = [0, 2, 1]) :
    (DensityFinder_getPerturbedRho grid rho).map (List.flatMap (densityConv grid)) = some (densityRows grid.lay grid.crd) := by
  have h1' : (grid.getLayout grid.currentLayout).ord = [0, 2, 1, 3] := h1
  have h2' : (rho.getLayout rho.currentLayout).ord = [0, 2, 1] := h2
  simp only [DensityFinder_getPerturbedRho, h1', h2', not_true_eq_false, if_false, Option.map_some, densityRows]
  simp [densityConv, argOf, List.lookup, GridV.getAllData, GridV.getGlobalIdxVals]

theorem gen_density_refuses (grid rho : GridV) (h : grid.lay.ord ≠ [0, 2, 1, 3] ∨ rho.lay.ord ≠ [0, 2, 1]) :
    DensityFinder_getPerturbedRho grid rho = none ∧ DensityFinder_getRho grid rho = none := by
  have hl : grid.getLayout grid.currentLayout = grid.lay := rfl
  have hr : rho.getLayout rho.currentLayout = rho.lay := rfl
  rcases h with h | h <;> simp [DensityFinder_getPerturbedRho, DensityFinder_getRho, hl, hr, h]

/-- `getRho` makes one kernel call on the whole local blocks and selects no table row -/
theorem gen_getRho_eq (grid rho : GridV) (h1 : grid.lay.ord = [0, 2, 1, 3]) (h2 : rho.lay.ord = [0, 2, 1]) :
    DensityFinder_getRho grid rho =
      some [⟨"get_rho", [("rho", .view "rho" []), ("grid", .view "grid" []), ("quad_coeffs", .obj "self._quad_coeffs")]⟩] := by
  have h1' : (grid.getLayout grid.currentLayout).ord = [0, 2, 1, 3] := h1
  have h2' : (rho.getLayout rho.currentLayout).ord = [0, 2, 1] := h2
  simp only [DensityFinder_getRho, h1', h2', not_true_eq_false, if_false, GridV.getAllData]

/-- the equilibrium row subtracted at a local radius is the row of that radius' own global index -/
theorem gen_wiring_density (grid rho : GridV) (calls : List RawCall) (h : DensityFinder_getPerturbedRho grid rho = some calls) :
    ∀ call ∈ calls.flatMap (densityConv grid), call.params = call.slice := by
  by_cases ho : grid.lay.ord = [0, 2, 1, 3] ∧ rho.lay.ord = [0, 2, 1]
  · have he := gen_density_eq grid rho ho.1 ho.2
    rw [h] at he
    simp only [Option.map_some, Option.some.injEq] at he
    rw [he]
    exact C05.wiring_density _ _
  · rw [(gen_density_refuses grid rho (by
      by_cases h1 : grid.lay.ord = [0, 2, 1, 3]
      · exact Or.inr (fun h2 => ho ⟨h1, h2⟩)
      · exact Or.inl h1)).1] at h
    cases h

/-! ### elliptic solve -/

/-- `DiffEqSolver.solveEquation` = `solveModes`: local mode `i` is solved with `mVals[I]`, `stiffness_range[I]` (twice), `I` its global index -/
theorem gen_solve_eq (phi rho : GridV) (h : rho.lay.ord.getLast? = some 0) :
    (DiffEqSolver_solveEquation phi rho).map (List.map (solveConv rho)) = some (solveModes rho.lay rho.crd) := by
  have h' : (rho.getLayout rho.currentLayout).ord.getLast? = some 0 := h
  simp only [DiffEqSolver_solveEquation, h', not_true_eq_false, if_false, Option.map_some, forEnum_enumerate, List.map_flatMap, solveModes,
    GridV.getGlobalIdxVals]
  simp [solveConv, argOf, List.lookup, Arg.indices, ← List.map_eq_flatMap]

/-- `QuasiNeutralitySolver.solveEquation` = `solveModes`, whatever the table test `self._mVals[I] == 0` answers -/
theorem gen_qn_solve_eq (isZero : Nat → Bool) (phi rho : GridV) (h : rho.lay.ord.getLast? = some 0) :
    (QuasiNeutralitySolver_solveEquation isZero phi rho).map (List.map (solveConv rho)) = some (solveModes rho.lay rho.crd) := by
  have h' : (rho.getLayout rho.currentLayout).ord.getLast? = some 0 := h
  simp only [QuasiNeutralitySolver_solveEquation, h', not_true_eq_false, if_false, Option.map_some, forEnum_enumerate, List.map_flatMap,
    solveModes, GridV.getGlobalIdxVals]
  simp only [List.map_cons, List.map_nil, ← List.map_eq_flatMap, Option.some.injEq]
  apply List.map_congr_left
  intro p _
  cases isZero p.1 <;> simp [solveConv, argOf, List.lookup, Arg.indices]

theorem gen_solve_refuses (isZero : Nat → Bool) (phi rho : GridV) (h : rho.lay.ord.getLast? ≠ some 0) :
    DiffEqSolver_solveEquation phi rho = none ∧ QuasiNeutralitySolver_solveEquation isZero phi rho = none := by
  have hr : rho.getLayout rho.currentLayout = rho.lay := rfl
  simp [DiffEqSolver_solveEquation, QuasiNeutralitySolver_solveEquation, hr, h]

/-- every local mode is solved with the operator tables of its own global mode index (both solvers) -/
theorem gen_wiring_solve (isZero : Nat → Bool) (phi rho : GridV) (calls : List RawCall)
    (h : DiffEqSolver_solveEquation phi rho = some calls ∨ QuasiNeutralitySolver_solveEquation isZero phi rho = some calls) :
    ∀ rc ∈ calls, (solveConv rho rc).params = (solveConv rho rc).slice := by
  by_cases ho : rho.lay.ord.getLast? = some 0
  · have he : calls.map (solveConv rho) = solveModes rho.lay rho.crd := by
      rcases h with h | h
      · have := gen_solve_eq phi rho ho
        rw [h] at this; simpa using this
      · have := gen_qn_solve_eq isZero phi rho ho
        rw [h] at this; simpa using this
    intro rc hrc
    exact C05.wiring_solve _ _ _ (he ▸ List.mem_map_of_mem hrc)
  · have hn := gen_solve_refuses isZero phi rho ho
    rcases h with h | h
    · rw [hn.1] at h; cases h
    · rw [hn.2] at h; cases h

/-! ### initialisation -/

/-- the constants every initialisation kernel receives after the coordinates: parameter name of the kernel ↦ attribute of `constants` -/
def initConstants : List (String × Arg) :=
  [("m", .obj "constants.m"), ("n", .obj "constants.n"), ("eps", .obj "constants.eps"), ("CN0", .obj "constants.CN0"),
   ("kN0", .obj "constants.kN0"), ("deltaRN0", .obj "constants.deltaRN0"), ("rp", .obj "constants.rp"), ("Cti", .obj "constants.CTi"),
   ("kti", .obj "constants.kTi"), ("deltaRti", .obj "constants.deltaRTi"), ("deltaR", .obj "constants.deltaR"), ("R0", .obj "constants.R0")]

/-- `initialise_flux_surface` in closed form (no assert in the source; for a grid that is not 4-D the real `get2DSlice` raises) -/
theorem gen_init_flux_raw (grid : GridV) (hg : grid.lay.ndims = 4) :
    initialise_flux_surface grid = some ((List.range (sh grid.lay grid.crd 0)).flatMap (fun i =>
      (List.range (sh grid.lay grid.crd 1)).map (fun j =>
        ⟨"init_f_flux", [("surface", .view "grid" [i, j]), ("r", .coord (grid.lay.ord.getD 0 0) (grid.lay.startAt grid.crd 0 + i)),
          ("theta", .coordVals (grid.lay.ord.getD 2 0) (grid.lay.startAt grid.crd 2) (grid.lay.endAt grid.crd 2)),
          ("zVec", .coordVals (grid.lay.ord.getD 3 0) (grid.lay.startAt grid.crd 3) (grid.lay.endAt grid.crd 3)),
          ("vPar", .coord (grid.lay.ord.getD 1 0) (grid.lay.startAt grid.crd 1 + j))] ++ initConstants⟩))) := by
  simp only [initialise_flux_surface, forEnum_getCoords, getCoordVals_eq grid 2 (by omega), getCoordVals_eq grid 3 (by omega),
    GridV.get2DSlice, hg]
  simp [initConstants, ← List.map_eq_flatMap]

theorem gen_init_pol_raw (grid : GridV) (hg : grid.lay.ndims = 4) :
    initialise_poloidal grid = some ((List.range (sh grid.lay grid.crd 0)).flatMap (fun i =>
      (List.range (sh grid.lay grid.crd 1)).map (fun j =>
        ⟨"init_f_pol", [("surface", .view "grid" [i, j]),
          ("rVec", .coordVals (grid.lay.ord.getD 3 0) (grid.lay.startAt grid.crd 3) (grid.lay.endAt grid.crd 3)),
          ("theta", .coordVals (grid.lay.ord.getD 2 0) (grid.lay.startAt grid.crd 2) (grid.lay.endAt grid.crd 2)),
          ("z", .coord (grid.lay.ord.getD 1 0) (grid.lay.startAt grid.crd 1 + j)),
          ("vPar", .coord (grid.lay.ord.getD 0 0) (grid.lay.startAt grid.crd 0 + i))] ++ initConstants⟩))) := by
  simp only [initialise_poloidal, forEnum_getCoords, getCoordVals_eq grid 2 (by omega), getCoordVals_eq grid 3 (by omega),
    GridV.get2DSlice, hg]
  simp [initConstants, ← List.map_eq_flatMap]

theorem gen_init_vpar_raw (grid : GridV) (hg : grid.lay.ndims = 4) :
    initialise_v_parallel grid = some ((List.range (sh grid.lay grid.crd 0)).flatMap (fun i =>
      (List.range (sh grid.lay grid.crd 1)).map (fun j =>
        ⟨"init_f_vpar", [("surface", .view "grid" [i, j]), ("r", .coord (grid.lay.ord.getD 0 0) (grid.lay.startAt grid.crd 0 + i)),
          ("theta", .coordVals (grid.lay.ord.getD 2 0) (grid.lay.startAt grid.crd 2) (grid.lay.endAt grid.crd 2)),
          ("z", .coord (grid.lay.ord.getD 1 0) (grid.lay.startAt grid.crd 1 + j)),
          ("vPar", .coordVals (grid.lay.ord.getD 3 0) (grid.lay.startAt grid.crd 3) (grid.lay.endAt grid.crd 3))] ++ initConstants⟩))) := by
  simp only [initialise_v_parallel, forEnum_getCoords, getCoordVals_eq grid 2 (by omega), getCoordVals_eq grid 3 (by omega),
    GridV.get2DSlice, hg]
  simp [initConstants, ← List.map_eq_flatMap]

/-- in the layout each initialiser is written for, every coordinate parameter of the kernel receives a coordinate of ITS physical dimension
    (r = 0, θ = 1, z = 2, v = 3); the source does not check the layout: with another 4-D layout the kernel is called all the same, with the
    coordinates of whatever dimensions the first axes hold -/
theorem gen_init_dims (grid : GridV) (calls : List RawCall) (rc : RawCall) :
    (grid.lay.ord = [0, 3, 1, 2] → initialise_flux_surface grid = some calls → rc ∈ calls →
      (∃ g, argOf rc "r" = .coord 0 g) ∧ (∃ a b, argOf rc "theta" = .coordVals 1 a b) ∧ (∃ a b, argOf rc "zVec" = .coordVals 2 a b) ∧
      (∃ g, argOf rc "vPar" = .coord 3 g)) ∧
    (grid.lay.ord = [3, 2, 1, 0] → initialise_poloidal grid = some calls → rc ∈ calls →
      (∃ a b, argOf rc "rVec" = .coordVals 0 a b) ∧ (∃ a b, argOf rc "theta" = .coordVals 1 a b) ∧ (∃ g, argOf rc "z" = .coord 2 g) ∧
      (∃ g, argOf rc "vPar" = .coord 3 g)) ∧
    (grid.lay.ord = [0, 2, 1, 3] → initialise_v_parallel grid = some calls → rc ∈ calls →
      (∃ g, argOf rc "r" = .coord 0 g) ∧ (∃ a b, argOf rc "theta" = .coordVals 1 a b) ∧ (∃ g, argOf rc "z" = .coord 2 g) ∧
      (∃ a b, argOf rc "vPar" = .coordVals 3 a b)) := by
  refine ⟨fun ho h hrc => ?_, fun ho h hrc => ?_, fun ho h hrc => ?_⟩
  · rw [gen_init_flux_raw grid (ndims_of_ord ho)] at h
    simp only [Option.some.injEq] at h
    subst h
    simp only [List.mem_flatMap, List.mem_map, List.mem_range] at hrc
    obtain ⟨i, _, j, _, rfl⟩ := hrc
    simp [argOf, List.lookup, ho]
  · rw [gen_init_pol_raw grid (ndims_of_ord ho)] at h
    simp only [Option.some.injEq] at h
    subst h
    simp only [List.mem_flatMap, List.mem_map, List.mem_range] at hrc
    obtain ⟨i, _, j, _, rfl⟩ := hrc
    simp [argOf, List.lookup, ho]
  · rw [gen_init_vpar_raw grid (ndims_of_ord ho)] at h
    simp only [Option.some.injEq] at h
    subst h
    simp only [List.mem_flatMap, List.mem_map, List.mem_range] at hrc
    obtain ⟨i, _, j, _, rfl⟩ := hrc
    simp [argOf, List.lookup, ho]

/-- the three initialisers = `initialise`: the slice of local indices `(i, j)` is filled with the coordinates of ITS global indices -/
theorem gen_init_eq (grid : GridV) (hg : grid.lay.ndims = 4) :
    (initialise_flux_surface grid).map (List.map (initConv grid "init_f_flux" "r" "vPar")) = some (initialise grid.lay grid.crd) ∧
    (initialise_poloidal grid).map (List.map (initConv grid "init_f_pol" "vPar" "z")) = some (initialise grid.lay grid.crd) ∧
    (initialise_v_parallel grid).map (List.map (initConv grid "init_f_vpar" "r" "z")) = some (initialise grid.lay grid.crd) := by
  rw [gen_init_flux_raw grid hg, gen_init_pol_raw grid hg, gen_init_vpar_raw grid hg]
  simp [initialise, List.map_flatMap, Function.comp_def, initConv, argOf, List.lookup, globalFrom]

theorem gen_wiring_init (grid : GridV) (hg : grid.lay.ndims = 4) (calls : List RawCall) :
    (initialise_flux_surface grid = some calls →
      ∀ rc ∈ calls, (initConv grid "init_f_flux" "r" "vPar" rc).params = (initConv grid "init_f_flux" "r" "vPar" rc).slice) ∧
    (initialise_poloidal grid = some calls →
      ∀ rc ∈ calls, (initConv grid "init_f_pol" "vPar" "z" rc).params = (initConv grid "init_f_pol" "vPar" "z" rc).slice) ∧
    (initialise_v_parallel grid = some calls →
      ∀ rc ∈ calls, (initConv grid "init_f_vpar" "r" "z" rc).params = (initConv grid "init_f_vpar" "r" "z" rc).slice) := by
  obtain ⟨e1, e2, e3⟩ := gen_init_eq grid hg
  refine ⟨fun h rc hrc => ?_, fun h rc hrc => ?_, fun h rc hrc => ?_⟩
  · rw [h] at e1; simp only [Option.map_some, Option.some.injEq] at e1
    exact C05.wiring_init _ _ _ (e1 ▸ List.mem_map_of_mem hrc)
  · rw [h] at e2; simp only [Option.map_some, Option.some.injEq] at e2
    exact C05.wiring_init _ _ _ (e2 ▸ List.mem_map_of_mem hrc)
  · rw [h] at e3; simp only [Option.map_some, Option.some.injEq] at e3
    exact C05.wiring_init _ _ _ (e3 ▸ List.mem_map_of_mem hrc)

/-! ### the hypotheses are satisfiable: the driver's layouts on a 2 x 2 process grid (uneven blocks), process (1, 1) -/

example : (Ex.gridF [1, 1] 0).lay.ord = [0, 3, 1, 2] ∧ (Ex.gridF [1, 1] 1).lay.ndims = 4 ∧ (Ex.gridPhi [1, 1] 5).lay.ndims = 3 ∧
    (Ex.gridPhi [1, 1] 5).lay.startAt (Ex.gridPhi [1, 1] 5).crd 0 = (Ex.gridF [1, 1] 1).lay.startAt (Ex.gridF [1, 1] 1).crd 0 ∧
    (Ex.gridF [1, 1] 1).lay.startAt (Ex.gridF [1, 1] 1).crd 2 = 0 ∧
    (Ex.gridF [1, 1] 2).lay.ord = [3, 2, 1, 0] ∧
    (Ex.gridF [1, 1] 2).lay.ord.drop 1 = ((Ex.gridPhi [1, 1] 2).getLayout (Ex.gridF [1, 1] 2).currentLayout).ord ∧
    (Ex.gridPhi [1, 1] 2).lay.startAt (Ex.gridPhi [1, 1] 2).crd 0 = (Ex.gridF [1, 1] 2).lay.startAt (Ex.gridF [1, 1] 2).crd 1 ∧
    (Ex.gridRho [1, 1] 4).lay.ord.getLast? = some 0 := by decide

end PygyroVerif.C05Gen2
