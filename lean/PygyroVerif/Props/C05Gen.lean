/-
C05, tie by translation: the initial-distribution functions of pygyro/initialisation/initialiser_funcs.py — the scalar profiles `n0`, `Ti`, `Te`,
`perturbation`, `f_eq`, `n0deriv_normalised`, `init_f` and the array fillers `init_f_flux`, `init_f_pol`, `init_f_vpar`, `feq_vector` that the grid-level
initialisers call slice by slice.  `Generated/InitFuncsGen.lean` is REGENERATED on every run of `./check C05` (harness/translate_pure.py, target `initfuncs`).
`exp`, `tanh`, `cos`, `sqrt` and `pi` are UNINTERPRETED (the record `Np`: arbitrary functions ℚ → ℚ and an arbitrary rational), `real(x) = x` on floats:
every theorem below holds for every `np`.

Proved here:
  * the closed formulas, read off the source (`n0_formula` … `init_f_formula`; `f_eq_gaussian`: the same with the exponent written `-v²/(2·Ti)`):
      n0 r = CN0·exp(-kN0·δ·tanh((r-rp)/δ)),  Ti / Te alike,  perturbation = exp(-(r-rp)²/δR)·cos(m·θ + n·z/R0),
      f_eq r v = n0(r)·exp(-½·v·v/Ti(r)) / sqrt(2·π·Ti(r)),  n0deriv_normalised = -kN0·(1 - tanh((r-rp)/δ)²),  init_f = f_eq·(1 + ε·perturbation);
  * the per-slice clauses of C05 ("each operator applies to every local slice the physical parameters of that slice's OWN coordinates"), for all array lengths,
    all parameters, every previous content of `surface`:
      `gen_init_f_flux_eq`  surface[i, j] = init_f(r, theta[i], zVec[j], vPar, …)      i < len(theta), j < len(zVec)
      `gen_init_f_pol_eq`   surface[i, j] = init_f(rVec[j], theta[i], z, vPar, …)      i < len(theta), j < len(rVec)
      `gen_init_f_vpar_eq`  surface[i, j] = init_f(r, theta[i], z, vPar[j], …)         i < len(theta), j < len(vPar)
      `gen_feq_vector_eq`   surface[i, j] = f_eq(r_vec[i], vPar[j], …)                 i < len(r_vec), j < len(vPar)
    and every other entry of `surface` is what it was (nothing else is written).  The fillers do not call `init_f`: they repeat its expression; the theorems
    say the repetition is faithful.  No guard is needed (division by zero is 0 on both sides; index bounds of `surface` are not modelled).
Loop lemma: Lemmas/Fill2D.lean (one generic statement; the eight generated loops instantiate it by unfolding).
-/
import PygyroVerif.Generated.InitFuncsGen
import PygyroVerif.Lemmas.Fill2D
import Mathlib.Tactic.Ring
import Mathlib.Tactic.NormNum

namespace PygyroVerif.C05Gen
open PygyroVerif PygyroVerif.Gen.InitFuncs PygyroVerif.Fill2D

/-! ## the scalar functions: closed formulas over the uninterpreted `exp`, `tanh`, `cos`, `sqrt`, `pi` -/

theorem n0_formula (np : Np) (r CN0 kN0 deltaRN0 rp : ℚ) :
    n0 np r CN0 kN0 deltaRN0 rp = CN0 * np.exp (-kN0 * deltaRN0 * np.tanh ((r - rp) / deltaRN0)) := rfl

theorem Ti_formula (np : Np) (r Cti kti deltaRti rp : ℚ) :
    Ti np r Cti kti deltaRti rp = Cti * np.exp (-kti * deltaRti * np.tanh ((r - rp) / deltaRti)) := rfl

theorem Te_formula (np : Np) (r Cte kte deltaRte rp : ℚ) :
    Te np r Cte kte deltaRte rp = Cte * np.exp (-kte * deltaRte * np.tanh ((r - rp) / deltaRte)) := rfl

theorem perturbation_formula (np : Np) (r theta z : ℚ) (m n : ℤ) (rp deltaR R0 : ℚ) :
    perturbation np r theta z m n rp deltaR R0 = np.exp (-(r - rp) ^ 2 / deltaR) * np.cos ((m : ℚ) * theta + (n : ℚ) * z / R0) := rfl

/-- `f_eq` exactly as the source writes it: `n0(r) * exp(-0.5 * vPar * vPar / Ti(r)) / real(sqrt(2.0 * pi * Ti(r)))` -/
theorem f_eq_formula (np : Np) (r vPar CN0 kN0 deltaRN0 rp Cti kti deltaRti : ℚ) :
    f_eq np r vPar CN0 kN0 deltaRN0 rp Cti kti deltaRti =
      n0 np r CN0 kN0 deltaRN0 rp * np.exp (-(1 / 2) * vPar * vPar / Ti np r Cti kti deltaRti rp) / np.sqrt (2 * np.pi * Ti np r Cti kti deltaRti rp) := rfl

/-- … which is the Maxwellian `n0(r) · exp(-v² / (2·Ti(r))) / sqrt(2π·Ti(r))` -/
theorem f_eq_gaussian (np : Np) (r vPar CN0 kN0 deltaRN0 rp Cti kti deltaRti : ℚ) :
    f_eq np r vPar CN0 kN0 deltaRN0 rp Cti kti deltaRti =
      n0 np r CN0 kN0 deltaRN0 rp * np.exp (-vPar ^ 2 / (2 * Ti np r Cti kti deltaRti rp)) / np.sqrt (2 * np.pi * Ti np r Cti kti deltaRti rp) := by
  rw [f_eq_formula]
  congr 3
  ring

theorem n0deriv_normalised_formula (np : Np) (r kN0 rp deltaRN0 : ℚ) :
    n0deriv_normalised np r kN0 rp deltaRN0 = -kN0 * (1 - np.tanh ((r - rp) / deltaRN0) ^ 2) := rfl

theorem init_f_formula (np : Np) (r theta z vPar : ℚ) (m n : ℤ) (eps CN0 kN0 deltaRN0 rp Cti kti deltaRti deltaR R0 : ℚ) :
    init_f np r theta z vPar m n eps CN0 kN0 deltaRN0 rp Cti kti deltaRti deltaR R0 =
      f_eq np r vPar CN0 kN0 deltaRN0 rp Cti kti deltaRti * (1 + eps * perturbation np r theta z m n rp deltaR R0) := rfl

/-- `n0deriv_normalised` does not depend on `CN0`: it is `n0'(r)/n0(r)` only if `tanh' = 1 - tanh²` and `exp' = exp`, which the uninterpreted setting cannot say;
    what can be said: it is the factor `-kN0·(1 - tanh²)` of the chain rule, evaluated with the SAME argument `(r - rp)/deltaRN0` as `n0` -/
theorem n0deriv_same_argument (np : Np) (r CN0 kN0 rp deltaRN0 : ℚ) :
    n0 np r CN0 kN0 deltaRN0 rp = CN0 * np.exp (-kN0 * deltaRN0 * np.tanh ((r - rp) / deltaRN0)) ∧
    n0deriv_normalised np r kN0 rp deltaRN0 = -kN0 * (1 - np.tanh ((r - rp) / deltaRN0) ^ 2) := ⟨rfl, rfl⟩

/-! ## the array fillers -/

section Flux
open PygyroVerif.Gen.InitFuncs.init_f_flux_

/-- the generated loops of `init_f_flux` satisfy the equations of Lemmas/Fill2D.lean: row `i` ↔ `theta[i]`, column `j` ↔ `zVec[j]` -/
theorem flux_fill (U : ℕ → ℚ) (F : ℕ) : Fill2 (S := St) Res.ok (fun σ => σ.surface)
    (fun σ a b => σ.f_eq σ.r σ.vPar σ.CN0 σ.kN0 σ.deltaRN0 σ.rp σ.Cti σ.kti σ.deltaRti * (1 + σ.eps * σ.perturbation σ.r (σ.theta a) (σ.zVec b) σ.m σ.n σ.rp σ.deltaR σ.R0))
    (fun σ b => σ.f_eq σ.r σ.vPar σ.CN0 σ.kN0 σ.deltaRN0 σ.rp σ.Cti σ.kti σ.deltaRti * (1 + σ.eps * σ.perturbation σ.r σ.q (σ.zVec b) σ.m σ.n σ.rp σ.deltaR σ.R0))
    (fun σ => σ.i) (fun σ => σ.zVec_len) (init_f_flux_loop1 U F) (init_f_flux_loop2 U F)
    (fun σ i => { σ with i := i, q := σ.theta i })
    (fun σ j => { σ with j := j, z := σ.zVec j, surface := fun k_ l_ => if k_ = σ.i ∧ l_ = j then
      (σ.f_eq σ.r σ.vPar σ.CN0 σ.kN0 σ.deltaRN0 σ.rp σ.Cti σ.kti σ.deltaRti) * ((1 : ℚ) + (σ.eps * (σ.perturbation σ.r σ.q (σ.zVec j) σ.m σ.n σ.rp σ.deltaR σ.R0))) else σ.surface k_ l_ }) where
  L0 := fun _ _ => rfl
  Ls := fun _ _ _ => rfl
  O0 := fun _ _ => rfl
  Os := fun n i σ σ' h => by
    show (match init_f_flux_loop2 U F σ.zVec_len 0 { σ with i := i, q := σ.theta i } with
      | .ok σ => init_f_flux_loop1 U F n (i + 1) σ | .done o => .done o) = _
    rw [h]
  step_get := fun _ _ _ _ => rfl
  step_w := fun _ _ => rfl
  step_g := fun _ _ => rfl
  step_row := fun _ _ => rfl
  step_nc := fun _ _ => rfl
  pre_get := fun _ _ => rfl
  pre_w := fun _ _ _ => rfl
  pre_g := fun _ _ => rfl
  pre_row := fun _ _ => rfl
  pre_nc := fun _ _ => rfl

/-- **`init_f_flux` fills a flux surface with `init_f` at each node's OWN coordinates**: `surface[i, j] = init_f(r, theta[i], zVec[j], vPar, …)` for
    `i < len(theta)`, `j < len(zVec)`; every other entry of `surface` is what it was -/
theorem gen_init_f_flux_eq (np : Np) (U : ℕ → ℚ) (F : ℕ) (surface : ℕ → ℕ → ℚ) (r : ℚ) (theta : ℕ → ℚ) (thlen : ℕ) (zVec : ℕ → ℚ) (zlen : ℕ) (vPar : ℚ) (m n : ℤ)
    (eps CN0 kN0 deltaRN0 rp Cti kti deltaRti deltaR R0 : ℚ) :
    ∃ σ', init_f_flux np U F surface r theta thlen zVec zlen vPar m n eps CN0 kN0 deltaRN0 rp Cti kti deltaRti deltaR R0 = .ret σ' ∧
      ∀ i j, σ'.surface i j = if i < thlen ∧ j < zlen then
        init_f np r (theta i) (zVec j) vPar m n eps CN0 kN0 deltaRN0 rp Cti kti deltaRti deltaR R0 else surface i j := by
  let σ0 : St := { f_eq := f_eq np, perturbation := perturbation np, surface := surface, r := r, theta := theta, theta_len := thlen, zVec := zVec, zVec_len := zlen, vPar := vPar, m := m, n := n, eps := eps, CN0 := CN0, kN0 := kN0, deltaRN0 := deltaRN0, rp := rp, Cti := Cti, kti := kti, deltaRti := deltaRti, deltaR := deltaR, R0 := R0 }
  obtain ⟨σ', hrun, hget⟩ := fill2_outer (flux_fill U F) thlen 0 σ0
  refine ⟨σ', ?_, fun i j => ?_⟩
  · show (match init_f_flux_loop1 U F thlen 0 σ0 with | .ok σ => Out.ret σ | .done o => o) = _
    rw [hrun]
  · have := hget i j
    show σ'.surface i j = _
    rw [this]
    by_cases h : i < thlen ∧ j < zlen
    · rw [if_pos h, if_pos ⟨⟨by omega, by omega⟩, h.2⟩]; rfl
    · rw [if_neg h, if_neg (fun hh => h ⟨by omega, hh.2⟩)]

end Flux

section Pol
open PygyroVerif.Gen.InitFuncs.init_f_pol_

/-- the generated loops of `init_f_pol`: row `i` ↔ `theta[i]`, column `j` ↔ `rVec[j]` -/
theorem pol_fill (U : ℕ → ℚ) (F : ℕ) : Fill2 (S := St) Res.ok (fun σ => σ.surface)
    (fun σ a b => σ.f_eq (σ.rVec b) σ.vPar σ.CN0 σ.kN0 σ.deltaRN0 σ.rp σ.Cti σ.kti σ.deltaRti * (1 + σ.eps * σ.perturbation (σ.rVec b) (σ.theta a) σ.z σ.m σ.n σ.rp σ.deltaR σ.R0))
    (fun σ b => σ.f_eq (σ.rVec b) σ.vPar σ.CN0 σ.kN0 σ.deltaRN0 σ.rp σ.Cti σ.kti σ.deltaRti * (1 + σ.eps * σ.perturbation (σ.rVec b) σ.q σ.z σ.m σ.n σ.rp σ.deltaR σ.R0))
    (fun σ => σ.i) (fun σ => σ.rVec_len) (init_f_pol_loop1 U F) (init_f_pol_loop2 U F)
    (fun σ i => { σ with i := i, q := σ.theta i })
    (fun σ j => { σ with j := j, r := σ.rVec j, surface := fun k_ l_ => if k_ = σ.i ∧ l_ = j then
      (σ.f_eq (σ.rVec j) σ.vPar σ.CN0 σ.kN0 σ.deltaRN0 σ.rp σ.Cti σ.kti σ.deltaRti) * ((1 : ℚ) + (σ.eps * (σ.perturbation (σ.rVec j) σ.q σ.z σ.m σ.n σ.rp σ.deltaR σ.R0))) else σ.surface k_ l_ }) where
  L0 := fun _ _ => rfl
  Ls := fun _ _ _ => rfl
  O0 := fun _ _ => rfl
  Os := fun n i σ σ' h => by
    show (match init_f_pol_loop2 U F σ.rVec_len 0 { σ with i := i, q := σ.theta i } with
      | .ok σ => init_f_pol_loop1 U F n (i + 1) σ | .done o => .done o) = _
    rw [h]
  step_get := fun _ _ _ _ => rfl
  step_w := fun _ _ => rfl
  step_g := fun _ _ => rfl
  step_row := fun _ _ => rfl
  step_nc := fun _ _ => rfl
  pre_get := fun _ _ => rfl
  pre_w := fun _ _ _ => rfl
  pre_g := fun _ _ => rfl
  pre_row := fun _ _ => rfl
  pre_nc := fun _ _ => rfl

/-- **`init_f_pol` fills a poloidal plane with `init_f` at each node's OWN coordinates**: `surface[i, j] = init_f(rVec[j], theta[i], z, vPar, …)` for
    `i < len(theta)`, `j < len(rVec)` (first index = theta, second = r, as the poloidal layout stores it); every other entry is what it was -/
theorem gen_init_f_pol_eq (np : Np) (U : ℕ → ℚ) (F : ℕ) (surface : ℕ → ℕ → ℚ) (rVec : ℕ → ℚ) (rlen : ℕ) (theta : ℕ → ℚ) (thlen : ℕ) (z vPar : ℚ) (m n : ℤ)
    (eps CN0 kN0 deltaRN0 rp Cti kti deltaRti deltaR R0 : ℚ) :
    ∃ σ', init_f_pol np U F surface rVec rlen theta thlen z vPar m n eps CN0 kN0 deltaRN0 rp Cti kti deltaRti deltaR R0 = .ret σ' ∧
      ∀ i j, σ'.surface i j = if i < thlen ∧ j < rlen then
        init_f np (rVec j) (theta i) z vPar m n eps CN0 kN0 deltaRN0 rp Cti kti deltaRti deltaR R0 else surface i j := by
  let σ0 : St := { f_eq := f_eq np, perturbation := perturbation np, surface := surface, rVec := rVec, rVec_len := rlen, theta := theta, theta_len := thlen, z := z, vPar := vPar, m := m, n := n, eps := eps, CN0 := CN0, kN0 := kN0, deltaRN0 := deltaRN0, rp := rp, Cti := Cti, kti := kti, deltaRti := deltaRti, deltaR := deltaR, R0 := R0 }
  obtain ⟨σ', hrun, hget⟩ := fill2_outer (pol_fill U F) thlen 0 σ0
  refine ⟨σ', ?_, fun i j => ?_⟩
  · show (match init_f_pol_loop1 U F thlen 0 σ0 with | .ok σ => Out.ret σ | .done o => o) = _
    rw [hrun]
  · have := hget i j
    show σ'.surface i j = _
    rw [this]
    by_cases h : i < thlen ∧ j < rlen
    · rw [if_pos h, if_pos ⟨⟨by omega, by omega⟩, h.2⟩]; rfl
    · rw [if_neg h, if_neg (fun hh => h ⟨by omega, hh.2⟩)]

end Pol

section VPar
open PygyroVerif.Gen.InitFuncs.init_f_vpar_

/-- the generated loops of `init_f_vpar`: row `i` ↔ `theta[i]`, column `j` ↔ `vPar[j]` -/
theorem vpar_fill (U : ℕ → ℚ) (F : ℕ) : Fill2 (S := St) Res.ok (fun σ => σ.surface)
    (fun σ a b => σ.f_eq σ.r (σ.vPar b) σ.CN0 σ.kN0 σ.deltaRN0 σ.rp σ.Cti σ.kti σ.deltaRti * (1 + σ.eps * σ.perturbation σ.r (σ.theta a) σ.z σ.m σ.n σ.rp σ.deltaR σ.R0))
    (fun σ b => σ.f_eq σ.r (σ.vPar b) σ.CN0 σ.kN0 σ.deltaRN0 σ.rp σ.Cti σ.kti σ.deltaRti * (1 + σ.eps * σ.perturbation σ.r σ.q σ.z σ.m σ.n σ.rp σ.deltaR σ.R0))
    (fun σ => σ.i) (fun σ => σ.vPar_len) (init_f_vpar_loop1 U F) (init_f_vpar_loop2 U F)
    (fun σ i => { σ with i := i, q := σ.theta i })
    (fun σ j => { σ with j := j, v := σ.vPar j, surface := fun k_ l_ => if k_ = σ.i ∧ l_ = j then
      (σ.f_eq σ.r (σ.vPar j) σ.CN0 σ.kN0 σ.deltaRN0 σ.rp σ.Cti σ.kti σ.deltaRti) * ((1 : ℚ) + (σ.eps * (σ.perturbation σ.r σ.q σ.z σ.m σ.n σ.rp σ.deltaR σ.R0))) else σ.surface k_ l_ }) where
  L0 := fun _ _ => rfl
  Ls := fun _ _ _ => rfl
  O0 := fun _ _ => rfl
  Os := fun n i σ σ' h => by
    show (match init_f_vpar_loop2 U F σ.vPar_len 0 { σ with i := i, q := σ.theta i } with
      | .ok σ => init_f_vpar_loop1 U F n (i + 1) σ | .done o => .done o) = _
    rw [h]
  step_get := fun _ _ _ _ => rfl
  step_w := fun _ _ => rfl
  step_g := fun _ _ => rfl
  step_row := fun _ _ => rfl
  step_nc := fun _ _ => rfl
  pre_get := fun _ _ => rfl
  pre_w := fun _ _ _ => rfl
  pre_g := fun _ _ => rfl
  pre_row := fun _ _ => rfl
  pre_nc := fun _ _ => rfl

/-- **`init_f_vpar` fills a (theta, v) slice with `init_f` at each node's OWN coordinates**: `surface[i, j] = init_f(r, theta[i], z, vPar[j], …)` for
    `i < len(theta)`, `j < len(vPar)`; every other entry is what it was -/
theorem gen_init_f_vpar_eq (np : Np) (U : ℕ → ℚ) (F : ℕ) (surface : ℕ → ℕ → ℚ) (r : ℚ) (theta : ℕ → ℚ) (thlen : ℕ) (z : ℚ) (vPar : ℕ → ℚ) (vlen : ℕ) (m n : ℤ)
    (eps CN0 kN0 deltaRN0 rp Cti kti deltaRti deltaR R0 : ℚ) :
    ∃ σ', init_f_vpar np U F surface r theta thlen z vPar vlen m n eps CN0 kN0 deltaRN0 rp Cti kti deltaRti deltaR R0 = .ret σ' ∧
      ∀ i j, σ'.surface i j = if i < thlen ∧ j < vlen then
        init_f np r (theta i) z (vPar j) m n eps CN0 kN0 deltaRN0 rp Cti kti deltaRti deltaR R0 else surface i j := by
  let σ0 : St := { f_eq := f_eq np, perturbation := perturbation np, surface := surface, r := r, theta := theta, theta_len := thlen, z := z, vPar := vPar, vPar_len := vlen, m := m, n := n, eps := eps, CN0 := CN0, kN0 := kN0, deltaRN0 := deltaRN0, rp := rp, Cti := Cti, kti := kti, deltaRti := deltaRti, deltaR := deltaR, R0 := R0 }
  obtain ⟨σ', hrun, hget⟩ := fill2_outer (vpar_fill U F) thlen 0 σ0
  refine ⟨σ', ?_, fun i j => ?_⟩
  · show (match init_f_vpar_loop1 U F thlen 0 σ0 with | .ok σ => Out.ret σ | .done o => o) = _
    rw [hrun]
  · have := hget i j
    show σ'.surface i j = _
    rw [this]
    by_cases h : i < thlen ∧ j < vlen
    · rw [if_pos h, if_pos ⟨⟨by omega, by omega⟩, h.2⟩]; rfl
    · rw [if_neg h, if_neg (fun hh => h ⟨by omega, hh.2⟩)]

end VPar

section FeqVec
open PygyroVerif.Gen.InitFuncs.feq_vector_

/-- the generated loops of `feq_vector`: row `i` ↔ `r_vec[i]`, column `j` ↔ `vPar[j]` -/
theorem feq_fill (U : ℕ → ℚ) (F : ℕ) : Fill2 (S := St) Res.ok (fun σ => σ.surface)
    (fun σ a b => σ.f_eq (σ.r_vec a) (σ.vPar b) σ.CN0 σ.kN0 σ.deltaRN0 σ.rp σ.Cti σ.kti σ.deltaRti)
    (fun σ b => σ.f_eq σ.r (σ.vPar b) σ.CN0 σ.kN0 σ.deltaRN0 σ.rp σ.Cti σ.kti σ.deltaRti)
    (fun σ => σ.i) (fun σ => σ.vPar_len) (feq_vector_loop1 U F) (feq_vector_loop2 U F)
    (fun σ i => { σ with i := i, r := σ.r_vec i })
    (fun σ j => { σ with j := j, v := σ.vPar j, surface := fun k_ l_ => if k_ = σ.i ∧ l_ = j then
      (σ.f_eq σ.r (σ.vPar j) σ.CN0 σ.kN0 σ.deltaRN0 σ.rp σ.Cti σ.kti σ.deltaRti) else σ.surface k_ l_ }) where
  L0 := fun _ _ => rfl
  Ls := fun _ _ _ => rfl
  O0 := fun _ _ => rfl
  Os := fun n i σ σ' h => by
    show (match feq_vector_loop2 U F σ.vPar_len 0 { σ with i := i, r := σ.r_vec i } with
      | .ok σ => feq_vector_loop1 U F n (i + 1) σ | .done o => .done o) = _
    rw [h]
  step_get := fun _ _ _ _ => rfl
  step_w := fun _ _ => rfl
  step_g := fun _ _ => rfl
  step_row := fun _ _ => rfl
  step_nc := fun _ _ => rfl
  pre_get := fun _ _ => rfl
  pre_w := fun _ _ _ => rfl
  pre_g := fun _ _ => rfl
  pre_row := fun _ _ => rfl
  pre_nc := fun _ _ => rfl

/-- **`feq_vector` fills an (r, v) table with the equilibrium at each node's OWN coordinates**: `surface[i, j] = f_eq(r_vec[i], vPar[j], …)` for
    `i < len(r_vec)`, `j < len(vPar)`; every other entry is what it was -/
theorem gen_feq_vector_eq (np : Np) (U : ℕ → ℚ) (F : ℕ) (surface : ℕ → ℕ → ℚ) (r_vec : ℕ → ℚ) (rlen : ℕ) (vPar : ℕ → ℚ) (vlen : ℕ)
    (CN0 kN0 deltaRN0 rp Cti kti deltaRti : ℚ) :
    ∃ σ', feq_vector np U F surface r_vec rlen vPar vlen CN0 kN0 deltaRN0 rp Cti kti deltaRti = .ret σ' ∧
      ∀ i j, σ'.surface i j = if i < rlen ∧ j < vlen then f_eq np (r_vec i) (vPar j) CN0 kN0 deltaRN0 rp Cti kti deltaRti else surface i j := by
  let σ0 : St := { f_eq := f_eq np, surface := surface, r_vec := r_vec, r_vec_len := rlen, vPar := vPar, vPar_len := vlen, CN0 := CN0, kN0 := kN0, deltaRN0 := deltaRN0, rp := rp, Cti := Cti, kti := kti, deltaRti := deltaRti }
  obtain ⟨σ', hrun, hget⟩ := fill2_outer (feq_fill U F) rlen 0 σ0
  refine ⟨σ', ?_, fun i j => ?_⟩
  · show (match feq_vector_loop1 U F rlen 0 σ0 with | .ok σ => Out.ret σ | .done o => o) = _
    rw [hrun]
  · have := hget i j
    show σ'.surface i j = _
    rw [this]
    by_cases h : i < rlen ∧ j < vlen
    · rw [if_pos h, if_pos ⟨⟨by omega, by omega⟩, h.2⟩]
    · rw [if_neg h, if_neg (fun hh => h ⟨by omega, hh.2⟩)]

end FeqVec

/-! ## concrete instance
Toy elementary functions (any will do: the theorems hold for every `np`): `exp x = 1 + x/2`, `tanh x = x/4`, `cos x = 1 - x/8`, `sqrt x = (x+1)/2`, `pi = 3`;
`r = 3/2`, `rp = 1`, `CN0 = 2`, `kN0 = 1/4`, `deltaRN0 = 1/2`, `Cti = 3`, `kti = 1/2`, `deltaRti = 1/4`, `deltaR = 1/2`, `R0 = 4`, `m = 3`, `n = -2`, `eps = 1/8`, `vPar = -1`;
`theta = [0, 1/2]`, `zVec = [1, 2, 4]`, `rVec = [1/2, 3/2, 2]`, `vPar = [-1, 0, 3/2]` (further entries must not be read); `surface` holds 9 before the call.
The same numbers (as floats) are what the functions of /repo return on these inputs when `numpy.exp`, `tanh`, `cos`, `sqrt`, `pi` are replaced by the toy functions
(the module imports them from numpy at every call).  Where the translation and Python differ: a division by zero (`deltaRN0 = 0`) is 0 in the translation;
the real `n0` raises ZeroDivisionError on Python floats and returns nan on numpy floats — the theorems are about the exact-arithmetic reading only. -/
def toyNp : Np := { exp := fun x => 1 + x / 2, tanh := fun x => x / 4, cos := fun x => 1 - x / 8, sqrt := fun x => (x + 1) / 2, pi := 3 }
def cTheta : ℕ → ℚ := fun k => ([0, 1 / 2, 1000] : List ℚ).getD k 0
def cZ : ℕ → ℚ := fun k => ([1, 2, 4, 1000] : List ℚ).getD k 0
def cR : ℕ → ℚ := fun k => ([1 / 2, 3 / 2, 2, 1000] : List ℚ).getD k 0
def cV : ℕ → ℚ := fun k => ([-1, 0, 3 / 2, 1000] : List ℚ).getD k 0

/-- the seven scalar functions, evaluated -/
example : [n0 toyNp (3/2) 2 (1/4) (1/2) 1, Ti toyNp (3/2) 3 (1/2) (1/4) 1, Te toyNp (3/2) 5 (1/2) (1/4) 1, perturbation toyNp (3/2) (1/2) 2 3 (-2) 1 (1/2) 4,
    f_eq toyNp (3/2) (-1) 2 (1/4) (1/2) 1 3 (1/2) (1/4), n0deriv_normalised toyNp (3/2) (1/4) 1 (1/2),
    init_f toyNp (3/2) (1/2) 2 (-1) 3 (-2) (1/8) 2 (1/4) (1/2) 1 3 (1/2) (1/4) (1/2) 4] =
    [63 / 32, 93 / 32, 155 / 32, 45 / 64, 357 / 1829, -15 / 64, 198849 / 936448] := by decide +kernel
/-- `init_f_flux`: rows 0..2 / columns 0..3 (row 2 and column 3 are outside the loops) -/
example : (match init_f_flux toyNp (fun _ => 7) 0 (fun _ _ => 9) (3/2) cTheta 2 cZ 3 (-1) 3 (-2) (1/8) 2 (1/4) (1/2) 1 3 (1/2) (1/4) (1/2) 4 with
    | .ret σ => (List.range 3).map (fun i => (List.range 4).map (σ.surface i)) | _ => []) =
    [[200991 / 936448, 101031 / 468224, 51051 / 234112, 9], [98889 / 468224, 198849 / 936448, 200991 / 936448, 9], [9, 9, 9, 9]] := by decide +kernel
/-- `init_f_pol` (first index theta, second index r) -/
example : (match init_f_pol toyNp (fun _ => 7) 0 (fun _ _ => 9) cR 3 cTheta 2 2 (-1) 3 (-2) (1/8) 2 (1/4) (1/2) 1 3 (1/2) (1/4) (1/2) 4 with
    | .ret σ => (List.range 3).map (fun i => (List.range 4).map (σ.surface i)) | _ => []) =
    [[1673945 / 7932672, 101031 / 468224, 1271 / 6435, 9], [3294655 / 15865344, 198849 / 936448, 1271 / 6435, 9], [9, 9, 9, 9]] := by decide +kernel
/-- `init_f_vpar` -/
example : (match init_f_vpar toyNp (fun _ => 7) 0 (fun _ _ => 9) (3/2) cTheta 2 2 cV 3 3 (-2) (1/8) 2 (1/4) (1/2) 1 3 (1/2) (1/4) (1/2) 4 with
    | .ret σ => (List.range 3).map (fun i => (List.range 4).map (σ.surface i)) | _ => []) =
    [[101031 / 468224, 17829 / 75520, 89145 / 468224, 9], [198849 / 936448, 35091 / 151040, 175455 / 936448, 9], [9, 9, 9, 9]] := by decide +kernel
/-- `feq_vector` -/
example : (match feq_vector toyNp (fun _ => 7) 0 (fun _ _ => 9) cR 3 cV 3 2 (1/4) (1/2) 1 3 (1/2) (1/4) with
    | .ret σ => (List.range 4).map (fun i => (List.range 4).map (σ.surface i)) | _ => []) =
    [[5915 / 30987, 65 / 313, 585 / 3443, 9], [357 / 1829, 63 / 295, 315 / 1829, 9], [1271 / 6435, 31 / 143, 124 / 715, 9], [9, 9, 9, 9]] := by decide +kernel
/-- … and the entry of `init_f_pol` at (theta index 1, r index 0) is `init_f` at THAT node's coordinates `(rVec[0], theta[1])`, not at the transposed ones -/
example : init_f toyNp (cR 0) (cTheta 1) 2 (-1) 3 (-2) (1/8) 2 (1/4) (1/2) 1 3 (1/2) (1/4) (1/2) 4 = 3294655 / 15865344 ∧
    init_f toyNp (cR 1) (cTheta 0) 2 (-1) 3 (-2) (1/8) 2 (1/4) (1/2) 1 3 (1/2) (1/4) (1/2) 4 ≠ 3294655 / 15865344 := by decide +kernel

end PygyroVerif.C05Gen
