/-
C06 (traces) — the hypothesis of the deadlock-freedom theorems of Props/C06.lean, proved for ALL configurations of a
`LayoutHandler`: the per-rank sequences of collective calls that Model/Traces.lean predicts for
`LayoutHandler.transpose` (pygyro/model/layout.py:485-686; the predictions are compared with the recorded traces of the
real code on every run) are the projections of ONE global event list, and the members of every event issue the same
call.  Property theorems only; helper lemmas: Lemmas/TraceMatch.lean.

Setting.  `h : Handler` on the Cartesian process grid `h.nprocs` (any number of axes, any extents); world rank `r`
(`r < prodL h.nprocs`) has coordinates `(cartTopo h.nprocs).coords r = coordsOf h.nprocs r`
(`rank_coords_bijection`).  A direct step `iS → iD` that communicates (`stepComm`) uses the `Sub` communicator that
keeps process axis `stepAxis h iS iD` (= `axis[0]` of `_get_swap_axes`); two ranks are members of the same instance of
it iff their coordinates agree off that axis (`AgreeOff`).

Results.
  1. `directTrace_members_agree`      members of one instance predict the same `Alltoall`, send = recv = multiple of p
  2. `early_exit_consistent`          the early exit of the repaired code (F15) does not depend on the rank
     `early_exit_old_inconsistent`    the exit `self._buffer_size == 0` of the earlier code DID: a well-formed, accepted
                                      handler in which one member of a `Sub` instance returns and the other one calls
                                      `Alltoall` (`decide`); `early_exit_old_statement_false`
     `early_exit_old_consistent_of_one_axis`   it was consistent whenever ranks with empty blocks occur on one process
                                      axis at most (in particular without over-decomposition, where no rank exits)
  3. `handler_traces_projection`      the explicit global event list (per step of the route, one event per instance of
                                      the step's `Sub` communicator) projects on every rank to its predicted trace, for
                                      any sequence of transposes, any route map, no well-formedness needed
     `handler_events_are_instances`   its events are complete `Sub` instances whose members all predict the event's call
     `handler_traces_projection_old`  the same for the earlier code under the exact condition `StepUniform false`
  4. `handler_transposes_never_deadlock`   with Props/C06.lean: some event is always enabled, every schedule completes
                                      all programs after exactly `E.length` completions
  5. `swapper_early_exit_inconsistent`     observation (`decide`): the early exit of `LayoutSwapper.transpose` is rank
                                      dependent in the same way as the handler's was
-/
import PygyroVerif.Lemmas.TraceMatch
import PygyroVerif.Props.C06

namespace PygyroVerif.C06
open PygyroVerif PygyroVerif.Handler PygyroVerif.Traces PygyroVerif.TraceMatch PygyroVerif.Coll
open PygyroVerif.BufferSize (WellFormed)

/-! ### example handlers -/

/-- three layouts of a 5×7×4 array on a 2×3 process grid (uneven blocks, nobody empty): a–b exchange on process axis 1,
    a–c on process axis 0, b–c are not compatible (route b → a → c) -/
def trHandler : Handler :=
  { nprocs := [2, 3], ext := [5, 7, 4], names := ["a", "b", "c"], orders := [[0, 1, 2], [0, 2, 1], [2, 1, 0]] }

/-- pygyro's own three layouts (flux_surface, v_parallel, poloidal) of an (r, θ, z, v) = 1×2×1×4 grid on a 2×2 process
    grid: r (process axis 0 in flux_surface / v_parallel) and z (process axis 1 in v_parallel / poloidal) are both
    over-decomposed -/
def overHandler : Handler :=
  { nprocs := [2, 2], ext := [1, 2, 1, 4], names := ["flux_surface", "v_parallel", "poloidal"],
    orders := [[0, 3, 1, 2], [0, 2, 1, 3], [3, 2, 1, 0]] }

theorem trHandler_wellFormed : WellFormed trHandler := by
  refine ⟨?_, by decide, by decide⟩
  intro i hi
  have : i = 0 ∨ i = 1 ∨ i = 2 := by
    have : i < 3 := hi
    omega
  rcases this with rfl | rfl | rfl <;> decide

theorem overHandler_wellFormed : WellFormed overHandler := by
  refine ⟨?_, by decide, by decide⟩
  intro i hi
  have : i = 0 ∨ i = 1 ∨ i = 2 := by
    have : i < 3 := hi
    omega
  rcases this with rfl | rfl | rfl <;> decide

/-- `c` and `c'` given as explicit lists of the same length agree off axis `a` if they do entry by entry -/
theorem agreeOff_of_forall (a : Nat) (c c' : List Nat) (hl : c.length = c'.length)
    (hk : ∀ k, k < c.length → k ≠ a → c.getD k 0 = c'.getD k 0) : AgreeOff a c c' := by
  intro k hne
  by_cases hlt : k < c.length
  · exact hk k hlt hne
  · simp only [List.getD_eq_getElem?_getD]
    rw [List.getElem?_eq_none (by omega), List.getElem?_eq_none (by omega)]

/-! ### rank ↔ coordinates -/

/-- `Get_coords` / `Get_cart_rank` of `Create_cart(nprocs)`: world ranks `r < prod nprocs` and coordinate vectors inside
    the grid correspond one to one (row-major) -/
theorem rank_coords_bijection (dims : List Nat) :
    (∀ r, r < prodL dims → DS.CoordsOK dims ((cartTopo dims).coords r) ∧ rankOf dims ((cartTopo dims).coords r) = r) ∧
    (∀ c, DS.CoordsOK dims c → rankOf dims c < prodL dims ∧ (cartTopo dims).coords (rankOf dims c) = c) :=
  ⟨fun r hr => ⟨DS.coordsOf_ok dims r hr, rankOf_coordsOf dims r hr⟩, fun c hc => DS.coordsOf_rankOf dims c hc⟩

example : (cartTopo [2, 3]).coords 4 = [1, 1] ∧ rankOf [2, 3] [1, 1] = 4 ∧ DS.CoordsOK [2, 3] [1, 1] := by decide

/-! ### 1. members of one communicator instance issue the same call -/

/-- **members agree**: two ranks whose coordinates differ on the step's process axis only — two members of one instance
    of the `Sub` communicator on which `_rearrange_from_buffer` calls `Alltoall` — predict the SAME trace for the direct
    step `iS → iD` (same communicator, operation, counts).  The trace is empty (local transpose) or one `Alltoall` on the
    communicator of `stepAxis` whose send and receive counts are equal (`stepCount`, the padded block
    `max_block_shape[a0] * p` × …, which does not depend on the coordinate on axis `a0`) and — whenever the source
    layout has at least as many dimensions as there are process axes — a multiple of the communicator size `p`, so that
    every pair of members exchanges `stepCount / p` elements in both directions.  No well-formedness or
    no-empty-block hypothesis: it holds for over-decomposed dimensions too. -/
theorem directTrace_members_agree (h : Handler) (axisName : Nat → String) (iS iD : Nat) (c c' : List Nat)
    (hcc : AgreeOff (stepAxis h iS iD) c c') :
    directTrace h c axisName iS iD = directTrace h c' axisName iS iD ∧
    (∀ call ∈ directTrace h c axisName iS iD,
      stepComm h iS iD ∧ call.comm = axisName (stepAxis h iS iD) ∧ call.op = "Alltoall" ∧
      call.send = stepCount h c iS iD ∧ call.recv = stepCount h c iS iD ∧ stepCount h c iS iD = stepCount h c' iS iD ∧
      stepAxis h iS iD < h.nprocs.length ∧ 1 < h.nprocs.getD (stepAxis h iS iD) 1 ∧
      (h.nprocs.length ≤ (h.layoutAt iS).ndims → h.nprocs.getD (stepAxis h iS iD) 1 ∣ call.send)) := by
  refine ⟨directTrace_agree h axisName iS iD hcc, ?_⟩
  intro call hcall
  rw [directTrace_eq] at hcall
  by_cases hs : stepComm h iS iD
  · rw [if_pos hs, List.mem_singleton] at hcall
    subst hcall
    exact ⟨hs, rfl, rfl, rfl, rfl, stepCount_agree h iS iD hcc, stepAxis_lt h iS iD hs, stepAxis_procs h iS iD hs,
      fun hnd => stepCount_dvd h c iS iD hs hnd⟩
  · rw [if_neg hs] at hcall; cases hcall

/-- a → b of `trHandler` exchanges on process axis 1: the three ranks (1, ·) all pass 54 = 3 · 18 elements, the three
    ranks (0, ·) 36 = 3 · 12 -/
example : stepAxis trHandler 0 1 = 1 ∧ AgreeOff (stepAxis trHandler 0 1) [1, 0] [1, 2] ∧
    stepCount trHandler [1, 0] 0 1 = 54 ∧ stepCount trHandler [1, 2] 0 1 = 54 ∧ stepCount trHandler [0, 1] 0 1 = 36 := by
  refine ⟨by decide +kernel, ?_, by decide +kernel, by decide +kernel, by decide +kernel⟩
  have e : stepAxis trHandler 0 1 = 1 := by decide +kernel
  rw [e]
  exact agreeOff_of_forall 1 _ _ rfl (by decide)

/-! ### 2. the early exit -/

/-- **early exit, repaired code (F15)**: `transpose` returns immediately iff some coordinate grid of the handler is empty
    (`_has_data`), a test that does not look at the rank: either every rank exits — and then no rank issues any
    collective in any transpose, whatever the route map — or none does.  The exit can therefore never leave a partner
    waiting. -/
theorem early_exit_consistent (h : Handler) (c : List Nat) (hexit : earlyExit true h c = true) :
    ∀ (c' : List Nat), earlyExit true h c' = true ∧
      ∀ (rm : RouteMap) (axisName : Nat → String) (iS iD : Nat), handlerTrace h rm c' axisName iS iD = [] := by
  intro c'
  have he : earlyExit true h c' = true := by rw [earlyExit_fixed] at hexit ⊢; exact hexit
  refine ⟨he, fun rm axisName iS iD => ?_⟩
  unfold handlerTrace
  rw [handlerTraceF_eq, if_pos he]

/-- the plot-only handler (an empty θ grid): every rank exits; `overHandler` (over-decomposed, no empty grid): nobody -/
example : earlyExit true { overHandler with ext := [1, 0, 1, 4] } [0, 0] = true ∧
    earlyExit true overHandler [0, 0] = false := by decide +kernel

/-- the property the early exit `if self._buffer_size == 0: return` of the code before F15 would have needed: in a
    well-formed handler that the constructor accepts, a rank with an empty buffer shares the `Sub` communicator of a
    direct step only with ranks whose buffer is empty -/
def early_exit_old_statement : Prop :=
  ∀ (h : Handler) (order : List Nat), WellFormed h → h.orders.length = h.nLayouts → (h.routes order).2 = true →
    ∀ iS iD, StepConn h iS iD → stepComm h iS iD →
      ∀ c c', DS.CoordsOK h.nprocs c → DS.CoordsOK h.nprocs c' → AgreeOff (stepAxis h iS iD) c c' →
        h.bufferSize c = 0 → h.bufferSize c' = 0

/-- **the old early exit was NOT consistent** (defect F15).  `overHandler` — pygyro's three layouts, r and z both
    over-decomposed — is well formed and accepted; in `transpose(v_parallel → poloidal)` (one direct step, `Alltoall` on
    the `Sub` communicator of process axis 0) the ranks (0,0) and (1,0) are the two members of one instance;
    `_buffer_size` is 0 on (0,0) and 8 on (1,0): the earlier code returns at once on (0,0) and calls `Alltoall` (count 0)
    on (1,0), which then waits forever.  [On the 4×4 grid with ext = [3,2,3,8] the same happens between (0,0) and
    (1,0),(2,0),(3,0).] -/
theorem early_exit_old_inconsistent :
    WellFormed overHandler ∧ (overHandler.routes [0, 1, 2]).2 = true ∧
    StepConn overHandler 1 2 ∧ stepComm overHandler 1 2 ∧ stepAxis overHandler 1 2 = 0 ∧
    DS.CoordsOK overHandler.nprocs [0, 0] ∧ DS.CoordsOK overHandler.nprocs [1, 0] ∧ AgreeOff 0 [0, 0] [1, 0] ∧
    overHandler.bufferSize [0, 0] = 0 ∧ overHandler.bufferSize [1, 0] = 8 ∧
    ∀ axisName : Nat → String,
      handlerTraceOld overHandler (overHandler.routes [0, 1, 2]).1 [0, 0] axisName 1 2 = [] ∧
      handlerTraceOld overHandler (overHandler.routes [0, 1, 2]).1 [1, 0] axisName 1 2 =
        [{ comm := axisName 0, op := "Alltoall", send := 0, recv := 0 }] := by
  have hb0 : overHandler.bufferSize [0, 0] = 0 := by decide +kernel
  have hb1 : overHandler.bufferSize [1, 0] = 8 := by decide +kernel
  have hr : (overHandler.routes [0, 1, 2]).1.r 1 2 = [2] := by decide +kernel
  have hs : stepComm overHandler 1 2 := by decide +kernel
  have ha : stepAxis overHandler 1 2 = 0 := by decide +kernel
  have hn : stepCount overHandler [1, 0] 1 2 = 0 := by decide +kernel
  refine ⟨overHandler_wellFormed, by decide +kernel, by decide +kernel, hs, ha, by decide, by decide,
    agreeOff_of_forall 0 _ _ rfl (by decide), hb0, hb1, ?_⟩
  intro axisName
  constructor
  · unfold handlerTraceOld; rw [if_pos hb0]
  · unfold handlerTraceOld
    rw [if_neg (by rw [hb1]; decide), if_neg (by decide)]
    simp only []
    rw [foldl_trace_eq, hr]
    simp only [routeTrace, List.nil_append, List.append_nil]
    rw [directTrace_eq, if_pos hs]
    unfold directCall
    rw [ha, hn]

theorem early_exit_old_statement_false : ¬ early_exit_old_statement := by
  intro hst
  obtain ⟨hw, hacc, hconn, hs, ha, hc0, hc1, hcc, hb0, hb1, _⟩ := early_exit_old_inconsistent
  have := hst overHandler [0, 1, 2] hw rfl hacc 1 2 hconn hs [0, 0] [1, 0] hc0 hc1 (by rw [ha]; exact hcc) hb0
  rw [hb1] at this
  cases this

/-- **when the old early exit was consistent**: in a well-formed handler with no empty coordinate grid in which ranks
    with empty blocks occur on ONE process axis `aStar` at most (`OneAxisOver`; every other process axis splits every
    dimension it ever carries into non-empty blocks), a rank whose `_buffer_size` is 0 shares the `Sub` communicator of
    every direct step between compatible layouts only with ranks whose `_buffer_size` is 0 as well.  (`overHandler`
    violates the hypothesis: empty blocks on process axes 0 and 1.)  Without any over-decomposition
    (`aStar ≥ len(nprocs)`) no rank of the grid has an empty buffer at all. -/
theorem early_exit_old_consistent_of_one_axis (h : Handler) (hw : WellFormed h) (horders : h.orders.length = h.nLayouts)
    (aStar : Nat) (ho : OneAxisOver h aStar) :
    (∀ iS iD, StepConn h iS iD → stepComm h iS iD →
      ∀ c c', DS.CoordsOK h.nprocs c → AgreeOff (stepAxis h iS iD) c c' → h.bufferSize c = 0 →
        h.bufferSize c' = 0 ∧
        ∀ (rm : RouteMap) (axisName : Nat → String) (jS jD : Nat), handlerTraceOld h rm c' axisName jS jD = []) ∧
    (¬ aStar < h.nprocs.length → 0 < h.nLayouts → ∀ c, DS.CoordsOK h.nprocs c → 0 < h.bufferSize c) := by
  constructor
  · intro iS iD hconn hs c c' hc hcc hz
    have hz' := bufferSize_zero_along_step h hw horders aStar ho iS iD hconn.1 hconn.2.1 hconn.2.2 hs hc hcc hz
    refine ⟨hz', fun rm axisName jS jD => ?_⟩
    unfold handlerTraceOld; rw [if_pos hz']
  · intro hstar hn c hc
    exact bufferSize_pos h hw hn aStar ho hstar c hc

/-- `trHandler` has no empty block at all (any `aStar` will do; 2 = no process axis); a handler whose dimension 0 is
    over-decomposed on process axis 0 only satisfies the hypothesis with `aStar = 0` -/
example : OneAxisOver trHandler 2 ∧
    OneAxisOver { overHandler with ext := [1, 2, 3, 4] } 0 ∧ ¬ AxisNonEmpty overHandler 0 ∧ ¬ AxisNonEmpty overHandler 1 := by
  refine ⟨⟨?_, ?_⟩, ⟨?_, ?_⟩, by decide +kernel, by decide +kernel⟩
  · intro d hd
    have : d < 3 := hd
    have : d = 0 ∨ d = 1 ∨ d = 2 := by omega
    rcases this with rfl | rfl | rfl <;> decide
  · intro a ha _
    have : a < 2 := ha
    have : a = 0 ∨ a = 1 := by omega
    rcases this with rfl | rfl <;> decide +kernel
  · intro d hd
    have : d < 4 := hd
    have : d = 0 ∨ d = 1 ∨ d = 2 ∨ d = 3 := by omega
    rcases this with rfl | rfl | rfl | rfl <;> decide
  · intro a ha hne
    have : a < 2 := ha
    have : a = 1 := by omega
    subst this
    decide +kernel

/-! ### 3. the traces are the projections of one global event list -/

/-- **projection** (current code).  For any handler, any route map, any naming of the communicators and any sequence
    `seq` of calls `transpose(source = p.1, dest = p.2)`, let `G = seqEvents true h rm axisName seq` be the explicit
    global list: for each transpose in order, for each step of its route in order, one event per instance of the `Sub`
    communicator of the step's axis (members = the world ranks of the instance, call = their common `Alltoall`; no
    events at all if the handler has an empty grid).  Then for every world rank `r` of the grid the events of `G` that
    contain `r` carry, in order, exactly the calls that the model predicts for `r` — in the abstract machine of
    Model/Collectives.lean: the program of `r` (projection of `toEvents tagOf G` on `r`), read through the events'
    calls resp. their opaque tags (`tagOf` arbitrary, e.g. injective), IS the predicted trace. -/
theorem handler_traces_projection (h : Handler) (rm : RouteMap) (axisName : Nat → String) (seq : List (Nat × Nat))
    (tagOf : Call → Nat) (r : Nat) (hr : r < (cartTopo h.nprocs).nRanks) :
    let G := seqEvents true h rm axisName seq
    let E := toEvents tagOf G
    let trace := seq.flatMap (fun p => handlerTrace h rm ((cartTopo h.nprocs).coords r) axisName p.1 p.2)
    proj G r = trace ∧ (program E r).map (callAt G) = trace ∧
    (program E r).map (fun i => (E.getD i ⟨[], tagOf noCall⟩).tag) = trace.map tagOf := by
  intro G E trace
  have hp : proj G r = trace :=
    proj_seqEvents true h rm axisName seq (fun p _ _ => isPath_fixed h _ _) r hr
  refine ⟨hp, ?_, ?_⟩
  · rw [← hp]; exact program_toEvents tagOf G r
  · rw [← hp]; exact program_tags tagOf G r

/-- a single `transpose(iS → iD)` -/
theorem handler_trace_projection_single (h : Handler) (rm : RouteMap) (axisName : Nat → String) (iS iD : Nat)
    (tagOf : Call → Nat) (r : Nat) (hr : r < (cartTopo h.nprocs).nRanks) :
    (program (toEvents tagOf (handlerEvents true h rm axisName iS iD)) r).map
        (callAt (handlerEvents true h rm axisName iS iD)) =
      handlerTrace h rm ((cartTopo h.nprocs).coords r) axisName iS iD := by
  rw [program_toEvents]
  exact proj_handlerEvents true h rm axisName iS iD (fun _ => isPath_fixed h _ _) r hr

/-- b → c of `trHandler` goes via a: the global list has 2 events on sub 1 then 3 events on sub 0; rank 4 = (1,1) is in
    the second and the fourth; its predicted trace is the projection -/
example : let rm := (trHandler.routes [0, 1, 2]).1
    rm.r 1 2 = [0, 2] ∧
    (handlerEvents true trHandler rm (fun a => if a = 0 then "sub0" else "sub1") 1 2).map (·.1) =
      [[0, 1, 2], [3, 4, 5], [0, 3], [1, 4], [2, 5]] ∧
    program (toEvents (fun c => c.send) (handlerEvents true trHandler rm (fun a => if a = 0 then "sub0" else "sub1") 1 2)) 4
      = [1, 3] ∧
    (handlerTrace trHandler rm [1, 1] (fun a => if a = 0 then "sub0" else "sub1") 1 2).map (·.send) = [54, 24] := by
  decide +kernel

/-- **the events are communicator instances whose members agree** (any `fixed`): every event of a direct step is the
    complete instance of the step's `Sub` communicator through some rank `r0` of the grid that does not take the early
    exit (`instMembers`: the `p` ranks obtained from `r0` by varying the coordinate on the step's axis); each member is a
    rank of the grid and predicts for this step exactly the one call attached to the event. -/
theorem handler_events_are_instances (fixed : Bool) (h : Handler) (axisName : Nat → String) (iS iD : Nat) (g : GEvent)
    (hg : g ∈ stepEvents fixed h axisName iS iD) :
    stepComm h iS iD ∧ ∃ r0, r0 < prodL h.nprocs ∧ earlyExit fixed h (coordsOf h.nprocs r0) = false ∧
      g.1 = instMembers h.nprocs (stepAxis h iS iD) (coordsOf h.nprocs r0) ∧
      ∀ r ∈ g.1, r < prodL h.nprocs ∧ AgreeOff (stepAxis h iS iD) (coordsOf h.nprocs r0) (coordsOf h.nprocs r) ∧
        directTrace h (coordsOf h.nprocs r) axisName iS iD = [g.2] :=
  stepEvents_spec fixed h axisName iS iD g hg

example : (stepEvents true trHandler (fun _ => "") 0 2).map (·.1) = [[0, 3], [1, 4], [2, 5]] ∧
    instMembers trHandler.nprocs (stepAxis trHandler 0 2) (coordsOf trHandler.nprocs 1) = [1, 4] := by decide +kernel

/-- **projection, earlier code** (`handlerTraceOld`, exit iff `_buffer_size == 0` on the rank): the same global list
    construction (`seqEvents false`: no event for an instance whose members exit) projects to the predicted traces
    EXACTLY WHEN the exit is uniform on the instances used: here under the hypothesis that every step of every route used
    is `StepUniform false` (all members of an instance of the step's communicator exit or none).  This hypothesis follows
    from `OneAxisOver` for routes along direct connections (`handler_traces_projection_old_one_axis`) and fails for
    `overHandler` (`early_exit_old_inconsistent`). -/
theorem handler_traces_projection_old (h : Handler) (rm : RouteMap) (axisName : Nat → String) (seq : List (Nat × Nat))
    (hU : ∀ p ∈ seq, p.1 ≠ p.2 → Route.IsPath (StepUniform false h) p.1 (rm.r p.1 p.2))
    (tagOf : Call → Nat) (r : Nat) (hr : r < (cartTopo h.nprocs).nRanks) :
    let G := seqEvents false h rm axisName seq
    (program (toEvents tagOf G) r).map (callAt G) =
      seq.flatMap (fun p => handlerTraceOld h rm ((cartTopo h.nprocs).coords r) axisName p.1 p.2) := by
  intro G
  rw [program_toEvents]
  have := proj_seqEvents false h rm axisName seq hU r hr
  rw [this]
  apply List.flatMap_congr
  intro p _
  exact (handlerTraceOld_eq h rm _ axisName p.1 p.2).symm

theorem handler_traces_projection_old_one_axis (h : Handler) (hw : WellFormed h)
    (horders : h.orders.length = h.nLayouts) (aStar : Nat) (ho : OneAxisOver h aStar)
    (rm : RouteMap) (axisName : Nat → String) (seq : List (Nat × Nat))
    (hroute : ∀ p ∈ seq, p.1 ≠ p.2 → Route.IsPath (StepConn h) p.1 (rm.r p.1 p.2))
    (tagOf : Call → Nat) (r : Nat) (hr : r < (cartTopo h.nprocs).nRanks) :
    let G := seqEvents false h rm axisName seq
    (program (toEvents tagOf G) r).map (callAt G) =
      seq.flatMap (fun p => handlerTraceOld h rm ((cartTopo h.nprocs).coords r) axisName p.1 p.2) :=
  handler_traces_projection_old h rm axisName seq
    (fun p hp hne => isPath_mono (fun a b hc => stepUniform_old h hw horders aStar ho a b hc) _ _ (hroute p hp hne))
    tagOf r hr

/-- the hypothesis on the routes holds for the route map the constructor builds, whenever it accepts the layouts -/
theorem accepted_routes_follow_connections (h : Handler) (order : List Nat) (hfull : (h.routes order).2 = true)
    (iS iD : Nat) (hiS : iS < h.nLayouts) (hiD : iD < h.nLayouts) (hne : iS ≠ iD) :
    Route.IsPath (StepConn h) iS ((h.routes order).1.r iS iD) :=
  accepted_routes_stepConn h order hfull iS iD hiS hiD hne

example : (trHandler.routes [0, 1, 2]).2 = true ∧ (trHandler.routes [0, 1, 2]).1.r 1 2 = [0, 2] ∧
    StepConn trHandler 1 0 ∧ StepConn trHandler 0 2 ∧ ¬ StepConn trHandler 1 2 := by decide +kernel

/-! ### 4. no transpose can deadlock -/

theorem remaining_zero_of_done (E : List Event) (done : Nat → Bool) (hd : ∀ i, i < E.length → done i = true) :
    remaining E done = 0 := by
  unfold remaining
  rw [List.length_eq_zero_iff, List.filter_eq_nil_iff]
  intro i hi
  simp [hd i (List.mem_range.1 hi)]

/-- what Props/C06.lean gives for ANY event list, from the start state: some event can always complete while something
    remains; a schedule is never longer than the number of events; a schedule that cannot be extended has length
    `E.length` and has completed every event of every rank's program -/
theorem machine_never_deadlocks (E : List Event) :
    (∀ done, (∃ i, i < E.length ∧ done i = false) → ∃ i, Enabled E done i) ∧
    (∀ s, ValidSchedule E (fun _ => false) s → s.length ≤ E.length ∧
      ((¬ ∃ i, Enabled E (runSchedule (fun _ => false) s) i) →
        s.length = E.length ∧ ∀ r i, i ∈ program E r → runSchedule (fun _ => false) s i = true)) := by
  refine ⟨fun done hex => progress E done hex, ?_⟩
  intro s hs
  obtain ⟨hlen, hstop⟩ := schedule_terminates E (fun _ => false) s hs
  rw [remaining_init] at hlen
  refine ⟨by omega, fun hno => ?_⟩
  have hall := hstop hno
  have h0 := remaining_zero_of_done E _ hall
  refine ⟨by omega, fun r i hi => ?_⟩
  unfold program at hi
  exact hall i (List.mem_range.1 (List.mem_filter.1 hi).1)

/-- **no deadlock in `LayoutHandler.transpose`** (current code), for every handler, route map, process grid, extents
    (over-decomposed or not) and every sequence of transposes: the model programs of all ranks are the projections of
    the one event list `E` (3.), hence (Props/C06.lean) in every state in which some rank has not finished some
    collective can complete, whatever the arrival order of the ranks; every schedule has at most `E.length` steps, and
    when nothing more can complete every call of every rank's predicted trace has completed. -/
theorem handler_transposes_never_deadlock (h : Handler) (rm : RouteMap) (axisName : Nat → String)
    (seq : List (Nat × Nat)) (tagOf : Call → Nat) :
    let G := seqEvents true h rm axisName seq
    let E := toEvents tagOf G
    (∀ r, r < (cartTopo h.nprocs).nRanks →
      (program E r).map (callAt G) =
        seq.flatMap (fun p => handlerTrace h rm ((cartTopo h.nprocs).coords r) axisName p.1 p.2)) ∧
    (∀ done, (∃ i, i < E.length ∧ done i = false) → ∃ i, Enabled E done i) ∧
    (∀ s, ValidSchedule E (fun _ => false) s → s.length ≤ E.length ∧
      ((¬ ∃ i, Enabled E (runSchedule (fun _ => false) s) i) →
        s.length = E.length ∧ ∀ r i, i ∈ program E r → runSchedule (fun _ => false) s i = true)) := by
  intro G E
  exact ⟨fun r hr => (handler_traces_projection h rm axisName seq tagOf r hr).2.1,
    (machine_never_deadlocks E).1, (machine_never_deadlocks E).2⟩

/-- the earlier code: the same conclusion under the one-axis condition, for routes along direct connections -/
theorem handler_transposes_never_deadlock_old (h : Handler) (hw : WellFormed h)
    (horders : h.orders.length = h.nLayouts) (aStar : Nat) (ho : OneAxisOver h aStar)
    (rm : RouteMap) (axisName : Nat → String) (seq : List (Nat × Nat))
    (hroute : ∀ p ∈ seq, p.1 ≠ p.2 → Route.IsPath (StepConn h) p.1 (rm.r p.1 p.2)) (tagOf : Call → Nat) :
    let G := seqEvents false h rm axisName seq
    let E := toEvents tagOf G
    (∀ r, r < (cartTopo h.nprocs).nRanks →
      (program E r).map (callAt G) =
        seq.flatMap (fun p => handlerTraceOld h rm ((cartTopo h.nprocs).coords r) axisName p.1 p.2)) ∧
    (∀ done, (∃ i, i < E.length ∧ done i = false) → ∃ i, Enabled E done i) ∧
    (∀ s, ValidSchedule E (fun _ => false) s → s.length ≤ E.length ∧
      ((¬ ∃ i, Enabled E (runSchedule (fun _ => false) s) i) →
        s.length = E.length ∧ ∀ r i, i ∈ program E r → runSchedule (fun _ => false) s i = true)) := by
  intro G E
  exact ⟨fun r hr => handler_traces_projection_old_one_axis h hw horders aStar ho rm axisName seq hroute tagOf r hr,
    (machine_never_deadlocks E).1, (machine_never_deadlocks E).2⟩

/-- a → b, b → a, a → c, c → c on `trHandler`: 2 + 2 + 3 + 0 events; rank 4 = (1,1) takes part in events 1, 3, 5; at the
    start all three members of event 1 are blocked in it -/
example : let E := toEvents (fun c => c.send) (seqEvents true trHandler (trHandler.routes [0, 1, 2]).1 (fun _ => "") [(0, 1), (1, 0), (0, 2), (2, 2)]);
    E.length = 7 ∧ program E 4 = [1, 3, 5] ∧ (∀ r ∈ [3, 4, 5], head E (fun _ => false) r = some 1) := by
  decide +kernel

/-! ### 5. observation: `LayoutSwapper.transpose` has the same rank-dependent early exit -/

/-- the swapper of pygyro's driver (`setups.py`: handlers on the 2-D grid, on its first and on its second axis) for an
    (r, θ, z) = 1×2×1 grid on a 2×2 process grid -/
def overSwapper : Swapper :=
  { groups := [[("v_parallel_2d", [0, 2, 1]), ("mode_solve", [1, 2, 0])], [("v_parallel_1d", [0, 2, 1])],
      [("poloidal", [2, 1, 0])]],
    nprocsRaw := [[2, 2], [2], [2]], ext := [1, 2, 1] }

/-- **the swapper's early exit `if self._buffer_size == 0: return` (layout.py:1256) is rank dependent in the same way**
    (stated on the constructor's buffer size and on the direct step, which do not depend on how `swapperTrace` models
    the exit): `overSwapper` is accepted; world ranks 0 = (0,0) and 1 = (0,1) are the two members of one instance of the
    `Sub` communicator of world axis 1; `_buffer_size` is 0 on rank 0 and 4 on rank 1 (with the gather communicator chosen
    as in the repaired constructor, F16a; the code before that repair raised IndexError on rank 0 only); the direct step
    `v_parallel_2d → v_parallel_1d` (the stored route) issues on rank 1 an `Allgather` on that communicator.  With the
    exit as it was written before the repair F16b rank 0 returns and rank 1 waits forever (`swapperTrace` models the
    repaired exit, which tests whether the grids have points: the same on every rank). -/
theorem swapper_early_exit_inconsistent :
    (overSwapper.routes [0, 1, 2, 3]).2 = true ∧ (overSwapper.routes [0, 1, 2, 3]).1.r 0 2 = [2] ∧
    overSwapper.dims = [2, 2] ∧ coordsOf overSwapper.dims 0 = [0, 0] ∧ coordsOf overSwapper.dims 1 = [0, 1] ∧
    overSwapper.bufferSize 0 = 0 ∧ overSwapper.bufferSize 1 = 4 ∧
    crossTrace overSwapper 1 0 2 = [{ comm := "sub1", op := "Allgather", send := 0, recv := 0 }] := by
  decide +kernel

/-! ### checkpoints (finding F30) -/

/-- **every member creates the same dataset**: the collectives of `Grid.writeH5Dataset` and their arguments (file name, dataset
    name and SHAPE, attribute, close) depend on the numbers of points the grid was given and on the ordering of the current
    layout only — not on what the layout of this process knows (a plot-only process knows no points). -/
theorem checkpoint_trace_rank_independent (nGlobal ext1 ext2 ord : List Nat) (file : String) :
    checkpointTrace true nGlobal ext1 ord file = checkpointTrace true nGlobal ext2 ord file := rfl

/-- the dataset has the global shape in the stored ordering -/
theorem checkpoint_trace_shape (nGlobal ext ord : List Nat) (file : String) :
    (checkpointTrace true nGlobal ext ord file).map (·.shape) =
      [[], ord.map (fun d => nGlobal.getD d 0), [ord.length], []] := rfl

/-- **before F30 a plot-only process created another dataset** (`decide`): grid of 8⁴ points in the `v_parallel` ordering; a
    computing process gives `(8,8,8,8)`, the plot-only process — whose layout was built from empty coordinate lists — gives
    `(0,0,0,0)` to the same collective call; the repaired code gives the same shape on both. -/
theorem checkpoint_trace_old_plot_rank_differs :
    checkpointTrace false [8, 8, 8, 8] [8, 8, 8, 8] [0, 2, 1, 3] "grid_000000.h5" ≠
      checkpointTrace false [8, 8, 8, 8] [0, 0, 0, 0] [0, 2, 1, 3] "grid_000000.h5" ∧
    checkpointTrace true [8, 8, 8, 8] [8, 8, 8, 8] [0, 2, 1, 3] "grid_000000.h5" =
      checkpointTrace true [8, 8, 8, 8] [0, 0, 0, 0] [0, 2, 1, 3] "grid_000000.h5" := by
  decide

end PygyroVerif.C06
