/-
C01 — Layout transposes preserve the global field.   Property theorems only.

Structure of the argument (DESIGN.md §4/C01):
  1. address arithmetic of C-ordered blocks                      (`addresses_in_bounds`, `addresses_injective`,
                                                                  `block_concatenation`, `unravel_ravel_roundtrip`)
  2. one direct change of layout = pack / Alltoall / unpack      (`direct_step_correct`, abstract dimension-indexed form:
     the three stages given pointwise ⇒ every destination block holds the global field, for every rank of the
     array, every extents, every process count, padded (uneven) blocks included)
  3. `transpose` through any route of direct connections, with and without spare buffer, odd and even route
     lengths: the buffer-rotation logic of `_transposeRedirect(_source_intact)` is proved for the *model function*
     `Handler.followRoute` over an arbitrary direct step satisfying the contract of 2.
     (`route_transpose_correct_nobuf`, `route_transpose_correct_buf`)
  4. the defect repaired by fix: c48bf2a is a theorem about the *old* code (`transpose_defect_a1_zero`).
What ties 2 to the executable `Handler.directStep` is the correspondence check + the per-case evaluation of the
model (`holds` flag of Drivers/C01.lean); see DESIGN.md "bridge".
-/
import PygyroVerif.Model.Handler
import PygyroVerif.Lemmas.TransposeCore
import PygyroVerif.Lemmas.Route
import PygyroVerif.Lemmas.Buffers
import PygyroVerif.Lemmas.RouteValid
import PygyroVerif.Lemmas.CopyBox

namespace PygyroVerif.C01
open PygyroVerif PygyroVerif.Handler PygyroVerif.Route PygyroVerif.Addr

/-! ### 1. addresses -/

/-- every element of a block has an address below the block size (any rank of the array, any storage order) -/
theorem addresses_in_bounds (ord : List Nat) (u sh : Nat → Nat) (h : InBoxD ord u sh) :
    ravelD ord u sh < (ord.map sh).prod := ravelD_lt ord u sh h

/-- no two elements of a block share a cell -/
theorem addresses_injective (ord : List Nat) (u v sh : Nat → Nat) (hu : InBoxD ord u sh) (hv : InBoxD ord v sh)
    (h : ravelD ord u sh = ravelD ord v sh) : ∀ d ∈ ord, u d = v d := ravelD_inj ord u v sh hu hv h

/-- flat index ↔ multi-index round trip (numpy C order) -/
theorem unravel_ravel_roundtrip (idx shape : List Nat) (h : InBox idx shape) :
    unravel shape (ravel idx shape) = idx := unravel_ravel idx shape h

/-- "the concatenation is done automatically" (layout.py:832): with the split dimension stored first, the q-th
    padded block is the slab `[q·m,(q+1)·m)` of the array whose leading extent is `p·m` -/
theorem block_concatenation (A : Nat) (rest : List Nat) (hA : A ∉ rest) (u sh : Nat → Nat) (q m p : Nat)
    (hm : sh A = m) :
    q * ((A :: rest).map sh).prod + ravelD (A :: rest) u sh
      = ravelD (A :: rest) (Function.update u A (q * m + u A)) (Function.update sh A (p * m)) :=
  ravelD_block A rest hA u sh q m p hm

/-! ### 1b. numpy assignment between views -/

/-- **meaning of `dstView[...] = srcView`** as executed by the model (`assignView`/`copyBox`): for views of equal shape
    whose destination cells are in bounds and pairwise distinct, every destination cell receives its source cell and
    every other cell of the destination buffer is unchanged.  This is the lemma that turns each numpy statement of
    `_extract_from_source` / `_rearrange_from_buffer` into the pointwise hypotheses `h1`, `h3` of `direct_step_correct`. -/
theorem assign_pointwise {α : Type} [Inhabited α] (dst src : Array α) (dv sv : View)
    (hsh : dv.shape = sv.shape) (hd : dv.shape.length = dv.strides.length) (hs : sv.shape.length = sv.strides.length)
    (hb : ∀ i, CopyBox.InBox i dv.shape → dv.off + CopyBox.dot i dv.strides < dst.size)
    (hinj : ∀ i i', CopyBox.InBox i dv.shape → CopyBox.InBox i' dv.shape →
      CopyBox.dot i dv.strides = CopyBox.dot i' dv.strides → i = i') :
    ∃ out, assignView dst dv src sv = some out ∧ out.size = dst.size ∧
      (∀ idx, CopyBox.InBox idx dv.shape →
        out[dv.off + CopyBox.dot idx dv.strides]? = some (src.getD (sv.off + CopyBox.dot idx sv.strides) default)) ∧
      (∀ j, ¬ CopyBox.Reach dv.shape dv.strides dv.off j → out[j]? = dst[j]?) := by
  refine ⟨_, CopyBox.assignView_same_shape dst src dv sv hsh hs, CopyBox.copyBox_size _ _ _ _ _ _ _, ?_, ?_⟩
  · intro idx hidx
    exact CopyBox.copyBox_get dv.shape dv.strides sv.strides dv.off sv.off dst src idx hd (by rw [hsh]; exact hs) hb hinj hidx
  · intro j hj
    exact CopyBox.copyBox_frame dv.shape dv.strides sv.strides dv.off sv.off dst src j hd (by rw [hsh]; exact hs) hj

/-! ### 2. one direct change of layout -/

/-- One direct transpose, abstract form.  Dimension `A` is split `p` ways in the source and whole in the
destination, `B` the other way round, all other dimensions are distributed identically (this is what
`compatible` guarantees).  If every source block holds `G`, stage 1 packs (`h1`), the Alltoall exchanges chunks
(`h2`) and stage 3 unpacks (`h3`) as `_extract_from_source` / `Alltoall` / `_rearrange_from_buffer` do — with
blocks padded to the maximal block extents `maxA`, `maxB` — then every destination block holds `G`. -/
theorem direct_step_correct {α : Type} (nA nB p : Nat) (A B : Nat) (shO stO : Nat → Nat)
    (ordS ordD rest : List Nat) (hp : 0 < p) (hAB : A ≠ B)
    (maxA maxB : Nat) (hmaxA : ∀ q, q < p → lenA nA p q ≤ maxA) (hmaxB : ∀ r, r < p → lenB nB p r ≤ maxB)
    (hArest : A ∉ rest) (hAS : A ∈ ordS) (hBS : B ∈ ordS) (hAD : A ∈ ordD) (hBD : B ∈ ordD)
    (hperm1 : ∀ d, d ∈ ordS ↔ d ∈ ordD) (hperm2 : ∀ d, d ∈ ordS ↔ d ∈ A :: rest)
    (G : (Nat → Nat) → α) (hG : ∀ f g : Nat → Nat, (∀ d ∈ ordS, f d = g d) → G f = G g)
    (src pack rcv dst : Nat → Nat → α)
    (bs : Nat) (hbs : bs = ((A :: rest).map (blk A B shO maxA maxB)).prod)
    (hsrc : ∀ q, q < p → ∀ w, InBoxD ordS w (shS nA nB p A B shO q) →
        src q (ravelD ordS w (shS nA nB p A B shO q)) = G (globS nA p A B stO q w))
    (h1 : ∀ q r, q < p → r < p → ∀ u, InBoxD (A :: rest) u (box1 nA nB p A B shO q r) →
        pack q (r * bs + ravelD (A :: rest) u (blk A B shO maxA maxB))
          = src q (ravelD ordS (Function.update u B (blockStart nB p r + u B)) (shS nA nB p A B shO q)))
    (h2 : ∀ q r off, q < p → r < p → off < bs → rcv r (q * bs + off) = pack q (r * bs + off))
    (h3 : ∀ q r, q < p → r < p → ∀ u, InBoxD (A :: rest) u (box1 nA nB p A B shO q r) →
        dst r (ravelD ordD (Function.update u A (blockStart nA p q + u A)) (shD nA nB p A B shO r))
          = rcv r (ravelD (A :: rest) (Function.update u A (q * maxA + u A))
                    (Function.update (blk A B shO maxA maxB) A (p * maxA)))) :
    ∀ r, r < p → ∀ v, InBoxD ordD v (shD nA nB p A B shO r) →
      dst r (ravelD ordD v (shD nA nB p A B shO r)) = G (globD nB p A B stO r v) :=
  swap_step_correct nA nB p A B shO stO ordS ordD rest hp hAB maxA maxB hmaxA hmaxB hArest hAS hBS hAD hBD
    hperm1 hperm2 G hG src pack rcv dst bs hbs hsrc h1 h2 h3

/-! ### 3. any route, with and without spare buffer -/

section Routes
variable {α : Type} [Inhabited α]

/-- shape invariant of the three memory blocks of a grid: the roles exist, role 0 has one buffer per rank and the
    `dest` buffer of every rank is as long as its `source` buffer (`Grid.__init__` allocates all with `bufferSize`) -/
def Shape (n : Nat) (w : World α) : Prop :=
  1 < w.size ∧ (w.getD 0 #[]).size = n ∧ ∀ r, r < n → (w.get 1 r).size = (w.get 0 r).size

/-- Without a spare buffer: following any non-empty path of direct connections leaves the field of the last
    layout of the path in `dest` (role 1), for odd and even path lengths alike (the even case ends with
    `dest[:] = source`, whose meaning is `Buffers.copyWhole_spec`).  `P` only has to be a property of the blocks of
    one role; the steps have to preserve the buffer shapes. -/
theorem route_transpose_correct_nobuf (step : Step α) (P : Nat → Array (Array α) → Prop)
    (conn : Nat → Nat → Prop) (n : Nat) (hstep : StepOK step P conn (Shape n)) (steps : List Nat) (iS : Nat)
    (w : World α) (hw : Shape n w)
    (hne : steps ≠ []) (hpath : IsPath conn iS steps) (hP : P iS (w.getD 0 #[])) :
    ∃ w', followRoute step n steps iS false w = .ok w' ∧ P (lastOf iS steps) (w'.getD 1 #[]) := by
  match steps, hne, hpath with
  | [iD], _, hpath =>
    obtain ⟨w', h1, hP1, _⟩ := hstep iS iD 0 1 0 w hw hpath.1 (by decide) (by decide) hP
    exact ⟨w', by simp [followRoute, h1], hP1⟩
  | first :: second :: rest, _, hpath =>
    obtain ⟨w', a, b, hf, hPa, hI, hpar, _⟩ :=
      fold_steps step P conn (Shape n) hstep (first :: second :: rest) iS 0 1 w hw (by decide) hpath hP
    rcases hpar with ⟨hl, ha, _⟩ | ⟨hl, ha, _⟩
    · subst ha
      refine ⟨copyWhole n w' 0 1, ?_, ?_⟩
      · simp only [followRoute, Bool.not_false, ↓reduceIte, hf, hl]
        rfl
      · rw [(Buffers.copyWhole_spec n w' hI.1 hI.2.1 hI.2.2).1]; exact hPa
    · subst ha
      refine ⟨w', ?_, hPa⟩
      simp only [followRoute, Bool.not_false, ↓reduceIte, hf]
      have : ¬ ((first :: second :: rest).length % 2 = 0) := by omega
      simp only [this, ↓reduceIte]
      rfl

/-- With a spare buffer: the field arrives in `dest` (role 1) and `source` (role 0) is left untouched,
    whatever the length of the route. -/
theorem route_transpose_correct_buf (step : Step α) (P : Nat → Array (Array α) → Prop)
    (conn : Nat → Nat → Prop) (hstep : StepOK step P conn) (n : Nat) (steps : List Nat) (iS : Nat) (w : World α)
    (hne : steps ≠ []) (hpath : IsPath conn iS steps) (hP : P iS (w.getD 0 #[])) :
    ∃ w', followRoute step n steps iS true w = .ok w' ∧ P (lastOf iS steps) (w'.getD 1 #[]) ∧
      w'.getD 0 #[] = w.getD 0 #[] := by
  match steps, hne, hpath with
  | [iD], _, hpath =>
    obtain ⟨w', h1, hP1, _, hfr⟩ := hstep iS iD 0 1 2 w trivial hpath.1 (by decide) (by decide) hP
    exact ⟨w', by simp [followRoute, h1], hP1, hfr 0 (by decide) (by decide)⟩
  | first :: second :: rest, _, hpath =>
    obtain ⟨hc, hrest⟩ := hpath
    by_cases hev : (first :: second :: rest).length % 2 = 0
    · obtain ⟨w1, h1, hP1, _, hfr1⟩ := hstep iS first 0 2 1 w trivial hc (by decide) (by decide) hP
      obtain ⟨w', a, b, hf, hPa, _, hpar, hfr2⟩ :=
        fold_steps step P conn _ hstep (second :: rest) first 2 1 w1 trivial (by decide) hrest hP1
      have hlen : (second :: rest).length % 2 = 1 := by simp only [List.length_cons] at hev ⊢; omega
      rcases hpar with ⟨hl, _, _⟩ | ⟨_, ha, _⟩
      · omega
      · subst ha
        refine ⟨w', ?_, hPa, ?_⟩
        · simp only [followRoute, Bool.not_true, Bool.false_eq_true, ↓reduceIte, hev, h1, bind, Except.bind]
          simp only [pure, Except.pure, hf]
        · rw [hfr2 0 (by decide) (by decide), hfr1 0 (by decide) (by decide)]
    · obtain ⟨w1, h1, hP1, _, hfr1⟩ := hstep iS first 0 1 2 w trivial hc (by decide) (by decide) hP
      obtain ⟨w', a, b, hf, hPa, _, hpar, hfr2⟩ :=
        fold_steps step P conn _ hstep (second :: rest) first 1 2 w1 trivial (by decide) hrest hP1
      have hlen : (second :: rest).length % 2 = 0 := by simp only [List.length_cons] at hev ⊢; omega
      rcases hpar with ⟨_, ha, _⟩ | ⟨hl, _, _⟩
      · subst ha
        refine ⟨w', ?_, hPa, ?_⟩
        · simp only [followRoute, Bool.not_true, Bool.false_eq_true, ↓reduceIte, hev, h1, bind, Except.bind]
          simp only [pure, Except.pure, hf]
        · rw [hfr2 0 (by decide) (by decide), hfr1 0 (by decide) (by decide)]
      · omega

end Routes

/-! ### 3b. the stored routes -/

/-- **route_valid**: for every handler the constructor accepts (all layouts connected), for every pair of different
    layouts, and for every iteration order of Python's set of unvisited layout names (= every string-hash seed), the
    stored route is a non-empty path of direct (compatible) connections ending at the destination, of the stored
    length.  Together with `route_transpose_correct_*` this is the clause "directly or through intermediate layouts". -/
theorem route_valid (h : Handler) (order : List Nat) (hn : h.names.length ≠ 1)
    (hfull : (h.routes order).2 = true) :
    ∀ a b, a < h.names.length → b < h.names.length → a ≠ b →
      RouteValid.ValidPath h.connections a b ((h.routes order).1.r a b) ∧
      ((h.routes order).1.r a b).length = (h.routes order).1.d a b := by
  have hc : RouteValid.ConnOK h.connections h.names.length := by
    unfold Handler.connections Handler.nLayouts
    exact RouteValid.connectionsOf_ok _ _
  exact RouteValid.routes_valid_of_connected h.names h.connections order hc hn hfull

/-- a direct connection is a pair of layouts that `compatible` accepts -/
theorem connection_is_compatible (h : Handler) (a b : Nat) (ha : a < h.names.length)
    (hab : RouteValid.Adj h.connections a b) :
    compatible h.nprocs (h.orders.getD (max a b) []) (h.orders.getD (min a b) []) = true := by
  unfold RouteValid.Adj RouteValid.nbrs Handler.connections connectionsOf Handler.nLayouts at hab
  simp only [List.getD_eq_getElem?_getD, List.getElem?_map, List.getElem?_range ha, Option.map_some,
    Option.getD_some, List.mem_filter, List.mem_range, Bool.and_eq_true, decide_eq_true_eq] at hab
  exact hab.2.2

/-! ### 4. the defect repaired by fix: c48bf2a -/

/-- smallest instance of finding F1: 2-D array of shape (2,3) on the process grid (1,2), from ordering [1,0] to
    [0,1]: the swapped process axis is position 1 (≠ 0) and the dimension that becomes distributed sits at source
    position 0. -/
def f1Handler : Handler := { nprocs := [1, 2], ext := [2, 3], names := ["S", "D"], orders := [[1, 0], [0, 1]] }

def f1World : World Int :=
  #[#[#[0, 1, 2, 3, 4, 5, -1, -1], #[0, 1, 2, 3, 4, 5, -1, -1]], #[Array.replicate 8 (-2), Array.replicate 8 (-2)],
    #[Array.replicate 8 (-3), Array.replicate 8 (-3)]]

/-- the original code (`fixed := false`) refuses this transpose (numpy "could not broadcast") … -/
theorem transpose_defect_a1_zero :
    (directStep false f1Handler 0 1 0 1 2 f1World).toBool = false := by decide +kernel

/-- … the repaired code (`fixed := true`) performs it -/
theorem transpose_repaired_a1_zero :
    (directStep true f1Handler 0 1 0 1 2 f1World).toBool = true := by decide +kernel

/-- non-vacuity of the hypotheses of `direct_step_correct` is witnessed by every correspondence case (the model
    evaluates the three stages); a concrete instance of the route hypotheses: -/
example : IsPath (fun a b => a + 1 = b) 0 [1, 2, 3] ∧ lastOf 0 [1, 2, 3] = 3 := by
  simp [IsPath, lastOf]

end PygyroVerif.C01
