/-
C08 (extra) — polynomial reproduction: the part of C08 that `Props/C08.lean` only states.
Helper lemmas: Lemmas/SplineMarsden.lean (Marsden's identity for the A2.2 triangle).  Model: Model/BSpline.lean, Model/Interp.lean.

  * `marsden_identity`             `Σ_m values[m] · Π_{j=1..p}(Y − t_{span−p+m+j}) = (Y − x)^p` for what `nu_basis_funs` returns
  * `polynomial_in_spline_space`   every polynomial of degree `≤ p` is a spline of the space: explicit coefficient vector, the
                                   evaluation kernel returns the polynomial at every `x`
  * `greville_reproduces_identity` `Σ_j g_j B_j(x) = x` with the Greville abscissae `g_j` (the clamped interpolation points)
  * `constants_reproduced`         `Σ_j B_j(x) = 1`
  * `poly_reproduction`            proves `C08.poly_reproduction_statement` given unisolvence of the collocation matrix (explicit
                                   hypothesis: it is what the LU solve needs) on every admissible clamped space with sorted knots and
                                   non-degenerate cells

Unisolvence (Schoenberg–Whitney) itself is not proved.
-/
import PygyroVerif.Props.C08
import PygyroVerif.Lemmas.SplineMarsden

namespace PygyroVerif.C08
open PygyroVerif PygyroVerif.BSpline PygyroVerif.Interp PygyroVerif.SplineMarsden Finset Polynomial

set_option linter.unusedSectionVars false

variable {K : Type*} [Field K] [LinearOrder K] [IsStrictOrderedRing K]

/-- **marsden_identity.**  For sorted knots, a non-degenerate cell `span ≥ p` and *every* `x`, the `p+1` values `nu_basis_funs` returns
    satisfy `Σ_m values[m] · Ψ_{span−p+m}(Y) = (Y − x)^p` in `K[Y]`, with the dual polynomials `Ψ_i(Y) = Π_{j=1..p} (Y − t_{i+j})` -/
theorem marsden_identity (t : ℕ → K) (ht : Monotone t) (p span : ℕ) (hp : p ≤ span) (hcell : t span < t (span + 1)) (x : K) :
    ∑ m ∈ range (p + 1), C ((basisFuns t p x span).getD m 0) * (∏ j ∈ range p, (X - C (t (span - p + m + 1 + j))))
      = (X - C x) ^ p :=
  marsden_cell t ht p span hp hcell x

/-- integer knots, degree 2, cell 3, `x = 7/2` (values 1/8, 3/4, 1/8) -/
example : ∑ m ∈ range 3, C ((basisFuns C07.exKnots 2 (7/2) 3).getD m 0) * (∏ j ∈ range 2, (X - C (C07.exKnots (3 - 2 + m + 1 + j))))
    = (X - C (7/2 : ℚ)) ^ 2 :=
  marsden_identity C07.exKnots C07.exKnots_mono 2 3 (by decide) (by norm_num [C07.exKnots]) _

/-- **polynomial_in_spline_space.**  On every admissible space with sorted knots and non-degenerate cells in the domain, the
    polynomial `q(x) = Σ_{k ≤ p} a_k x^k` is the spline with the coefficient vector `polyCoeff S.t p a`
    (`γ_i = Σ_k a_k (−1)^k [Y^{p−k}]Ψ_i / C(p,k)`): `nu_eval_spline_1d_scalar` returns `q(x)` for **every** `x` (in the domain, at both
    ends, and beyond them where the span search clamps to the first / last cell).  Holds for clamped and periodic knot vectors
    alike (for periodic spaces the vector is in general not a *wrapped* coefficient array). -/
theorem polynomial_in_spline_space (S : Space K) (hadm : S.Admissible) (ht : Monotone S.t)
    (hcell : ∀ s, S.degree ≤ s → s + S.degree + 2 ≤ S.nk → S.t s < S.t (s + 1)) (a : ℕ → K) :
    ∃ γ : ℕ → K, ∀ x, evalSpline1D S.t S.nk S.degree γ x false = some (∑ k ∈ range (S.degree + 1), a k * x ^ k) :=
  ⟨polyCoeff S.t S.degree a, fun x => SplineMarsden.polynomial_in_spline_space S.t ht S.nk S.degree hadm.2.1 hcell a x⟩

/-- `Interp.Inst` (degree 2, knots −2..5): `3 − x + 2x²` is a spline of the space -/
example : ∃ γ : ℕ → ℚ, ∀ x, evalSpline1D Inst.S.t Inst.S.nk Inst.S.degree γ x false
    = some (∑ k ∈ range (Inst.S.degree + 1), (fun k => if k = 0 then (3 : ℚ) else if k = 1 then -1 else 2) k * x ^ k) :=
  polynomial_in_spline_space Inst.S Inst.hadm Inst.tmono Inst.hcell _

/-- **greville_reproduces_identity.**  `Σ_j g_j B_j(x) = x` where `g_j = (t_{j+1} + … + t_{j+p})/p` are the Greville abscissae, i.e.
    the interpolation points `BSplines.greville` computes for a clamped space (`grevilleRaw S.t p 1 j`); more generally the
    spline with coefficients `c₀ + c₁ g_j` is `c₀ + c₁ x` -/
theorem greville_reproduces_identity (S : Space K) (hadm : S.Admissible) (ht : Monotone S.t)
    (hcell : ∀ s, S.degree ≤ s → s + S.degree + 2 ≤ S.nk → S.t s < S.t (s + 1)) (c0 c1 x : K) :
    evalSpline1D S.t S.nk S.degree (fun j => c0 + c1 * grevilleRaw S.t S.degree 1 j) x false = some (c0 + c1 * x) := by
  have h := SplineMarsden.polynomial_in_spline_space S.t ht S.nk S.degree hadm.2.1 hcell
    (fun k => if k = 0 then c0 else if k = 1 then c1 else 0) x
  have hcoef : polyCoeff S.t S.degree (fun k => if k = 0 then c0 else if k = 1 then c1 else 0)
      = fun j => c0 + c1 * grevilleRaw S.t S.degree 1 j := by
    funext j
    rw [polyCoeff_linear S.t S.degree hadm.1]
    unfold grevilleRaw
    congr 3
    apply sum_congr rfl
    intro k _
    congr 1
    omega
  rw [hcoef] at h
  rw [h]
  congr 1
  obtain ⟨q, hq⟩ : ∃ q, S.degree = q + 1 := ⟨S.degree - 1, by have := hadm.1; omega⟩
  rw [hq, sum_range_succ', sum_range_succ']
  have : ∑ k ∈ range q, (if k + 1 + 1 = 0 then c0 else if k + 1 + 1 = 1 then c1 else 0) * x ^ (k + 1 + 1) = 0 :=
    sum_eq_zero (fun k _ => by simp)
  rw [this]
  simp
  ring

/-- the clamped instance `Interp.Inst2` (degree 1, knots 0,0,1,2,2) has sorted knots and non-degenerate cells -/
theorem inst2_mono : Monotone Inst2.S.t := by
  intro a b hab
  simp only [Inst2.S]
  split_ifs <;> (try norm_num) <;> omega

theorem inst2_cell : ∀ s, Inst2.S.degree ≤ s → s + Inst2.S.degree + 2 ≤ Inst2.S.nk → Inst2.S.t s < Inst2.S.t (s + 1) := by
  intro s h1 h2
  simp only [Inst2.S] at h1 h2 ⊢
  have : s = 1 ∨ s = 2 := by omega
  rcases this with rfl | rfl <;> norm_num

/-- clamped instance `Interp.Inst2` (degree 1, knots 0,0,1,2,2; Greville points 0,1,2): `Σ_j g_j B_j(1/2) = 1/2` -/
example : evalSpline1D Inst2.S.t Inst2.S.nk Inst2.S.degree (fun j => 0 + 1 * grevilleRaw Inst2.S.t Inst2.S.degree 1 j) (1/2) false
    = some (0 + 1 * (1/2 : ℚ)) :=
  greville_reproduces_identity Inst2.S Inst2.hadm inst2_mono inst2_cell 0 1 (1/2)

/-- **constants_reproduced.**  The spline with all coefficients equal to `c` is the constant `c` (partition of unity) -/
theorem constants_reproduced (S : Space K) (hadm : S.Admissible) (ht : Monotone S.t)
    (hcell : ∀ s, S.degree ≤ s → s + S.degree + 2 ≤ S.nk → S.t s < S.t (s + 1)) (c x : K) :
    evalSpline1D S.t S.nk S.degree (fun _ => c) x false = some c := by
  have := greville_reproduces_identity S hadm ht hcell c 0 x
  simpa using this

example : evalSpline1D Inst.S.t Inst.S.nk Inst.S.degree (fun _ => (7 : ℚ)) (5/3) false = some 7 :=
  constants_reproduced Inst.S Inst.hadm Inst.tmono Inst.hcell 7 (5/3)

/-- **poly_reproduction.**  `C08.poly_reproduction_statement` holds on every admissible clamped space with sorted knots and
    non-degenerate cells whose collocation matrix is injective (unisolvent interpolation points — explicit hypothesis `hinj`; it is
    exactly what the LU solve of `compute_interpolant` needs): the spline `compute_interpolant` builds from the values of a polynomial
    `q` of degree `≤ p` at the interpolation points is `q`, on the whole domain (in fact `nu_eval_spline_1d_scalar` returns `q(x)` for
    every `x`). -/
theorem poly_reproduction (S : Space K) (hadm : S.Admissible) (ht : Monotone S.t)
    (hcell : ∀ s, S.degree ≤ s → s + S.degree + 2 ≤ S.nk → S.t s < S.t (s + 1))
    (xs : ℕ → K) (M : ℕ → ℕ → K)
    (hinj : ∀ v : ℕ → K, (∀ i, i < S.nbasis → matVec M S.nbasis v i = 0) → ∀ j, j < S.nbasis → v j = 0)
    (q : K → K) : poly_reproduction_statement S xs M q := by
  intro hper hM ⟨a, ha⟩ sol c0 hsol x _ _
  have hγ : ∀ y, True → evalSpline1D S.t S.nk S.degree (polyCoeff S.t S.degree a) y false = some (q y) := by
    intro y _
    rw [ha y]
    exact SplineMarsden.polynomial_in_spline_space S.t ht S.nk S.degree hadm.2.1 hcell a y
  exact poly_reproduction_partial S hadm hper xs M hM hinj q (polyCoeff S.t S.degree a) (fun _ => True) hγ
    (fun _ _ => trivial) sol c0 hsol x trivial

/-- clamped instance `Interp.Inst2` (degree 1, knots 0,0,1,2,2, points 0,1,2, identity collocation matrix): the interpolant of the data
    `q(0), q(1), q(2)` of `q(x) = 2x+1` returns `q(3/2) = 4` at `3/2` -/
example : evalSpline1D Inst2.S.t Inst2.S.nk Inst2.S.degree
    (computeInterpolant1D false Inst2.S.nbasis Inst2.S.degree Inst2.γ (fun _ => 0)) (3/2) false = some (Inst2.q (3/2)) := by
  refine poly_reproduction Inst2.S Inst2.hadm inst2_mono inst2_cell Inst2.xs Inst2.M
    (fun v hv j hj => by
      rw [Inst2.hnb] at hv hj
      have := hv j hj
      rwa [Inst2.hmv v j hj] at this)
    Inst2.q rfl Inst2.hM ⟨fun k => if k = 0 then 1 else 2, fun x => by simp [Inst2.q, Inst2.S, sum_range_succ]; ring⟩
    Inst2.γ (fun _ => 0)
    (fun i hi => by
      rw [Inst2.hnb] at hi ⊢
      rw [Inst2.hmv _ i hi]
      simp [Inst2.γ, Inst2.q, Inst2.xs])
    (3/2) (by norm_num [Space.xmin, Inst2.S]) (by norm_num [Space.xmax, Inst2.S])

end PygyroVerif.C08
