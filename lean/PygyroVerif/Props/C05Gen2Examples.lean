/-
WRITTEN by harness/gridops_examples.py --write — do not edit.  Concrete instances of the generated grid-level loops (Generated/GridOpsGen.lean):
the call lists below were RECORDED from the real methods of /repo, run on the 4 ranks of a 2 x 2 process grid of the simulated MPI (npts (3, 4, 5, 7):
uneven blocks) with recording stand-ins for the kernels; `by decide` checks that the function generated from the source evaluates to exactly
the recorded list (`none` = the real method raised AssertionError).  `./check C05` records again on every run and compares with this text.
Layout names: flux_surface = 0, v_parallel = 1, poloidal = 2, v_parallel_2d = 3, mode_solve = 4, v_parallel_1d = 5.
-/
import PygyroVerif.Generated.GridOpsGen

namespace PygyroVerif.C05Gen2.Ex
open PygyroVerif PygyroVerif.GridApi

/-- the distribution function: one layout handler, process grid [2, 2]; `c` = coordinates of the process, `cur` = name of the current layout -/
def gridF (c : List Nat) (cur : Nat) : GridV :=
  { layouts := fun n => if n = 0 then Layout.make [2, 2] [0, 3, 1, 2] [3, 4, 5, 7] else if n = 1 then Layout.make [2, 2] [0, 2, 1, 3] [3, 4, 5, 7] else Layout.make [2, 2] [3, 2, 1, 0] [3, 4, 5, 7],
    coords := fun _ => c, state := GridSM.init true cur 0 }

/-- the potential: a layout swapper; 'v_parallel_1d' is distributed over the first process axis only, 'poloidal' over the second -/
def gridPhi (c : List Nat) (cur : Nat) : GridV :=
  { layouts := fun n => if n = 5 then Layout.make [2] [0, 2, 1] [3, 4, 5] else if n = 2 then Layout.make [2] [2, 1, 0] [3, 4, 5] else if n = 3 then Layout.make [2, 2] [0, 2, 1] [3, 4, 5] else Layout.make [2, 2] [1, 2, 0] [3, 4, 5],
    coords := fun n => if n = 5 then [c.getD 0 0] else if n = 2 then [c.getD 1 0] else c, state := GridSM.init false cur 0 }

/-- the charge density: one layout handler -/
def gridRho (c : List Nat) (cur : Nat) : GridV :=
  { layouts := fun n => if n = 3 then Layout.make [2, 2] [0, 2, 1] [3, 4, 5] else Layout.make [2, 2] [1, 2, 0] [3, 4, 5],
    coords := fun _ => c, state := GridSM.init false cur 0 }

end PygyroVerif.C05Gen2.Ex

namespace PygyroVerif.C05Gen2
open PygyroVerif PygyroVerif.GridApi PygyroVerif.Gen.GridOps

/-! process [0, 0] -/
example : FluxSurfaceAdvection_gridStep (Ex.gridF [0, 0] 0) = some [
    ⟨"self.step", [("f", .view "grid" [0, 0]), ("cIdx", .idx 0), ("rIdx", .idx 0)]⟩,
    ⟨"self.step", [("f", .view "grid" [0, 1]), ("cIdx", .idx 1), ("rIdx", .idx 0)]⟩,
    ⟨"self.step", [("f", .view "grid" [0, 2]), ("cIdx", .idx 2), ("rIdx", .idx 0)]⟩] := by decide
example : initialise_flux_surface (Ex.gridF [0, 0] 0) = some [
    ⟨"init_f_flux", [("surface", .view "grid" [0, 0]), ("r", .coord 0 0), ("theta", .coordVals 1 0 4), ("zVec", .coordVals 2 0 5), ("vPar", .coord 3 0), ("m", .obj "constants.m"), ("n", .obj "constants.n"), ("eps", .obj "constants.eps"), ("CN0", .obj "constants.CN0"), ("kN0", .obj "constants.kN0"), ("deltaRN0", .obj "constants.deltaRN0"), ("rp", .obj "constants.rp"), ("Cti", .obj "constants.CTi"), ("kti", .obj "constants.kTi"), ("deltaRti", .obj "constants.deltaRTi"), ("deltaR", .obj "constants.deltaR"), ("R0", .obj "constants.R0")]⟩,
    ⟨"init_f_flux", [("surface", .view "grid" [0, 1]), ("r", .coord 0 0), ("theta", .coordVals 1 0 4), ("zVec", .coordVals 2 0 5), ("vPar", .coord 3 1), ("m", .obj "constants.m"), ("n", .obj "constants.n"), ("eps", .obj "constants.eps"), ("CN0", .obj "constants.CN0"), ("kN0", .obj "constants.kN0"), ("deltaRN0", .obj "constants.deltaRN0"), ("rp", .obj "constants.rp"), ("Cti", .obj "constants.CTi"), ("kti", .obj "constants.kTi"), ("deltaRti", .obj "constants.deltaRTi"), ("deltaR", .obj "constants.deltaR"), ("R0", .obj "constants.R0")]⟩,
    ⟨"init_f_flux", [("surface", .view "grid" [0, 2]), ("r", .coord 0 0), ("theta", .coordVals 1 0 4), ("zVec", .coordVals 2 0 5), ("vPar", .coord 3 2), ("m", .obj "constants.m"), ("n", .obj "constants.n"), ("eps", .obj "constants.eps"), ("CN0", .obj "constants.CN0"), ("kN0", .obj "constants.kN0"), ("deltaRN0", .obj "constants.deltaRN0"), ("rp", .obj "constants.rp"), ("Cti", .obj "constants.CTi"), ("kti", .obj "constants.kTi"), ("deltaRti", .obj "constants.deltaRTi"), ("deltaR", .obj "constants.deltaR"), ("R0", .obj "constants.R0")]⟩] := by decide
example : FluxSurfaceAdvection_gridStep (Ex.gridF [0, 0] 1) = none := by decide
example : VParallelAdvection_gridStep (Ex.gridF [0, 0] 1) (Ex.gridPhi [0, 0] 5) = some [
    ⟨"parGrad.parallel_gradient", [("phi_r", .un "np.real" (.view "phi" [0])), ("i", .idx 0), ("der", .sub1 (.obj "parGradVals") (.idx 0))]⟩,
    ⟨"self.step", [("f", .view "grid" [0, 0, 0]), ("dt", .obj "dt"), ("c", .sub3 (.obj "parGradVals") (.idx 0) (.idx 0) (.idx 0)), ("r", .coord 0 0)]⟩,
    ⟨"self.step", [("f", .view "grid" [0, 0, 1]), ("dt", .obj "dt"), ("c", .sub3 (.obj "parGradVals") (.idx 0) (.idx 0) (.idx 1)), ("r", .coord 0 0)]⟩,
    ⟨"self.step", [("f", .view "grid" [0, 0, 2]), ("dt", .obj "dt"), ("c", .sub3 (.obj "parGradVals") (.idx 0) (.idx 0) (.idx 2)), ("r", .coord 0 0)]⟩,
    ⟨"self.step", [("f", .view "grid" [0, 0, 3]), ("dt", .obj "dt"), ("c", .sub3 (.obj "parGradVals") (.idx 0) (.idx 0) (.idx 3)), ("r", .coord 0 0)]⟩,
    ⟨"self.step", [("f", .view "grid" [0, 1, 0]), ("dt", .obj "dt"), ("c", .sub3 (.obj "parGradVals") (.idx 0) (.idx 1) (.idx 0)), ("r", .coord 0 0)]⟩,
    ⟨"self.step", [("f", .view "grid" [0, 1, 1]), ("dt", .obj "dt"), ("c", .sub3 (.obj "parGradVals") (.idx 0) (.idx 1) (.idx 1)), ("r", .coord 0 0)]⟩,
    ⟨"self.step", [("f", .view "grid" [0, 1, 2]), ("dt", .obj "dt"), ("c", .sub3 (.obj "parGradVals") (.idx 0) (.idx 1) (.idx 2)), ("r", .coord 0 0)]⟩,
    ⟨"self.step", [("f", .view "grid" [0, 1, 3]), ("dt", .obj "dt"), ("c", .sub3 (.obj "parGradVals") (.idx 0) (.idx 1) (.idx 3)), ("r", .coord 0 0)]⟩] := by decide
example : VParallelAdvection_gridStepKeepGradient (Ex.gridF [0, 0] 1) = some [
    ⟨"self.step", [("f", .view "grid" [0, 0, 0]), ("dt", .obj "dt"), ("c", .sub3 (.obj "parGradVals") (.idx 0) (.idx 0) (.idx 0)), ("r", .coord 0 0)]⟩,
    ⟨"self.step", [("f", .view "grid" [0, 0, 1]), ("dt", .obj "dt"), ("c", .sub3 (.obj "parGradVals") (.idx 0) (.idx 0) (.idx 1)), ("r", .coord 0 0)]⟩,
    ⟨"self.step", [("f", .view "grid" [0, 0, 2]), ("dt", .obj "dt"), ("c", .sub3 (.obj "parGradVals") (.idx 0) (.idx 0) (.idx 2)), ("r", .coord 0 0)]⟩,
    ⟨"self.step", [("f", .view "grid" [0, 0, 3]), ("dt", .obj "dt"), ("c", .sub3 (.obj "parGradVals") (.idx 0) (.idx 0) (.idx 3)), ("r", .coord 0 0)]⟩,
    ⟨"self.step", [("f", .view "grid" [0, 1, 0]), ("dt", .obj "dt"), ("c", .sub3 (.obj "parGradVals") (.idx 0) (.idx 1) (.idx 0)), ("r", .coord 0 0)]⟩,
    ⟨"self.step", [("f", .view "grid" [0, 1, 1]), ("dt", .obj "dt"), ("c", .sub3 (.obj "parGradVals") (.idx 0) (.idx 1) (.idx 1)), ("r", .coord 0 0)]⟩,
    ⟨"self.step", [("f", .view "grid" [0, 1, 2]), ("dt", .obj "dt"), ("c", .sub3 (.obj "parGradVals") (.idx 0) (.idx 1) (.idx 2)), ("r", .coord 0 0)]⟩,
    ⟨"self.step", [("f", .view "grid" [0, 1, 3]), ("dt", .obj "dt"), ("c", .sub3 (.obj "parGradVals") (.idx 0) (.idx 1) (.idx 3)), ("r", .coord 0 0)]⟩] := by decide
example : initialise_v_parallel (Ex.gridF [0, 0] 1) = some [
    ⟨"init_f_vpar", [("surface", .view "grid" [0, 0]), ("r", .coord 0 0), ("theta", .coordVals 1 0 4), ("z", .coord 2 0), ("vPar", .coordVals 3 0 7), ("m", .obj "constants.m"), ("n", .obj "constants.n"), ("eps", .obj "constants.eps"), ("CN0", .obj "constants.CN0"), ("kN0", .obj "constants.kN0"), ("deltaRN0", .obj "constants.deltaRN0"), ("rp", .obj "constants.rp"), ("Cti", .obj "constants.CTi"), ("kti", .obj "constants.kTi"), ("deltaRti", .obj "constants.deltaRTi"), ("deltaR", .obj "constants.deltaR"), ("R0", .obj "constants.R0")]⟩,
    ⟨"init_f_vpar", [("surface", .view "grid" [0, 1]), ("r", .coord 0 0), ("theta", .coordVals 1 0 4), ("z", .coord 2 1), ("vPar", .coordVals 3 0 7), ("m", .obj "constants.m"), ("n", .obj "constants.n"), ("eps", .obj "constants.eps"), ("CN0", .obj "constants.CN0"), ("kN0", .obj "constants.kN0"), ("deltaRN0", .obj "constants.deltaRN0"), ("rp", .obj "constants.rp"), ("Cti", .obj "constants.CTi"), ("kti", .obj "constants.kTi"), ("deltaRti", .obj "constants.deltaRTi"), ("deltaR", .obj "constants.deltaR"), ("R0", .obj "constants.R0")]⟩] := by decide
example : DensityFinder_getPerturbedRho (Ex.gridF [0, 0] 1) (Ex.gridRho [0, 0] 3) = some [
    ⟨"get_perturbed_rho", [("rho", .view "rho" []), ("feq", .sub1 (.obj "self._fEq") (.idxs [0])), ("grid", .view "grid" []), ("quad_coeffs", .obj "self._quad_coeffs")]⟩] := by decide
example : DensityFinder_getRho (Ex.gridF [0, 0] 1) (Ex.gridRho [0, 0] 3) = some [
    ⟨"get_rho", [("rho", .view "rho" []), ("grid", .view "grid" []), ("quad_coeffs", .obj "self._quad_coeffs")]⟩] := by decide
example : DensityFinder_getPerturbedRho (Ex.gridF [0, 0] 1) (Ex.gridRho [0, 0] 4) = none := by decide
example : DiffEqSolver_solveEquation (Ex.gridPhi [0, 0] 4) (Ex.gridRho [0, 0] 4) = some [
    ⟨"self._solveMode", [("phi", .obj "phi"), ("rho", .obj "rho"), ("stiffnessMatrix", .sub2 (.bin "-" (.obj "self._stiffnessMatrix") (.bin "*" (.sub1 (.obj "self._mVals") (.idx 0)) (.obj "self._k2PhiPsi"))) (.sub1 (.obj "self._stiffness_range") (.idx 0)) (.sub1 (.obj "self._stiffness_range") (.idx 0))), ("i", .idx 0), ("I", .idx 0)]⟩,
    ⟨"self._solveMode", [("phi", .obj "phi"), ("rho", .obj "rho"), ("stiffnessMatrix", .sub2 (.bin "-" (.obj "self._stiffnessMatrix") (.bin "*" (.sub1 (.obj "self._mVals") (.idx 1)) (.obj "self._k2PhiPsi"))) (.sub1 (.obj "self._stiffness_range") (.idx 1)) (.sub1 (.obj "self._stiffness_range") (.idx 1))), ("i", .idx 1), ("I", .idx 1)]⟩] := by decide
example : QuasiNeutralitySolver_solveEquation (fun I => I == 2) (Ex.gridPhi [0, 0] 4) (Ex.gridRho [0, 0] 4) = some [
    ⟨"self._solveMode", [("phi", .obj "phi"), ("rho", .obj "rho"), ("stiffnessMatrix", .sub2 (.bin "-" (.obj "self._stiffnessMatrix") (.bin "*" (.sub1 (.obj "self._mVals") (.idx 0)) (.obj "self._k2PhiPsi"))) (.sub1 (.obj "self._stiffness_range") (.idx 0)) (.sub1 (.obj "self._stiffness_range") (.idx 0))), ("i", .idx 0), ("I", .idx 0)]⟩,
    ⟨"self._solveMode", [("phi", .obj "phi"), ("rho", .obj "rho"), ("stiffnessMatrix", .sub2 (.bin "-" (.obj "self._stiffnessMatrix") (.bin "*" (.sub1 (.obj "self._mVals") (.idx 1)) (.obj "self._k2PhiPsi"))) (.sub1 (.obj "self._stiffness_range") (.idx 1)) (.sub1 (.obj "self._stiffness_range") (.idx 1))), ("i", .idx 1), ("I", .idx 1)]⟩] := by decide
example : DiffEqSolver_solveEquation (Ex.gridPhi [0, 0] 4) (Ex.gridRho [0, 0] 3) = none := by decide
example : PoloidalAdvection_gridStep (Ex.gridF [0, 0] 2) (Ex.gridPhi [0, 0] 2) = some [
    ⟨"self._interpolator.compute_interpolant", [("arg0", .un "np.real" (.view "phi" [0])), ("arg1", .sub1 (.obj "self._phiSplines") (.idx 0))]⟩,
    ⟨"self._interpolator.compute_interpolant", [("arg0", .un "np.real" (.view "phi" [1])), ("arg1", .sub1 (.obj "self._phiSplines") (.idx 1))]⟩,
    ⟨"self.step", [("f", .view "grid" [0, 0]), ("dt", .obj "dt"), ("phi", .sub1 (.obj "self._phiSplines") (.idx 0)), ("v", .coord 3 0)]⟩,
    ⟨"self.step", [("f", .view "grid" [0, 1]), ("dt", .obj "dt"), ("phi", .sub1 (.obj "self._phiSplines") (.idx 1)), ("v", .coord 3 0)]⟩,
    ⟨"self.step", [("f", .view "grid" [1, 0]), ("dt", .obj "dt"), ("phi", .sub1 (.obj "self._phiSplines") (.idx 0)), ("v", .coord 3 1)]⟩,
    ⟨"self.step", [("f", .view "grid" [1, 1]), ("dt", .obj "dt"), ("phi", .sub1 (.obj "self._phiSplines") (.idx 1)), ("v", .coord 3 1)]⟩,
    ⟨"self.step", [("f", .view "grid" [2, 0]), ("dt", .obj "dt"), ("phi", .sub1 (.obj "self._phiSplines") (.idx 0)), ("v", .coord 3 2)]⟩,
    ⟨"self.step", [("f", .view "grid" [2, 1]), ("dt", .obj "dt"), ("phi", .sub1 (.obj "self._phiSplines") (.idx 1)), ("v", .coord 3 2)]⟩] := by decide
example : PoloidalAdvection_gridStep_SplinesUnchanged (Ex.gridF [0, 0] 2) = some [
    ⟨"self.step", [("f", .view "grid" [0, 0]), ("dt", .obj "dt"), ("phi", .sub1 (.obj "self._phiSplines") (.idx 0)), ("v", .coord 3 0)]⟩,
    ⟨"self.step", [("f", .view "grid" [0, 1]), ("dt", .obj "dt"), ("phi", .sub1 (.obj "self._phiSplines") (.idx 1)), ("v", .coord 3 0)]⟩,
    ⟨"self.step", [("f", .view "grid" [1, 0]), ("dt", .obj "dt"), ("phi", .sub1 (.obj "self._phiSplines") (.idx 0)), ("v", .coord 3 1)]⟩,
    ⟨"self.step", [("f", .view "grid" [1, 1]), ("dt", .obj "dt"), ("phi", .sub1 (.obj "self._phiSplines") (.idx 1)), ("v", .coord 3 1)]⟩,
    ⟨"self.step", [("f", .view "grid" [2, 0]), ("dt", .obj "dt"), ("phi", .sub1 (.obj "self._phiSplines") (.idx 0)), ("v", .coord 3 2)]⟩,
    ⟨"self.step", [("f", .view "grid" [2, 1]), ("dt", .obj "dt"), ("phi", .sub1 (.obj "self._phiSplines") (.idx 1)), ("v", .coord 3 2)]⟩] := by decide
example : initialise_poloidal (Ex.gridF [0, 0] 2) = some [
    ⟨"init_f_pol", [("surface", .view "grid" [0, 0]), ("rVec", .coordVals 0 0 3), ("theta", .coordVals 1 0 4), ("z", .coord 2 0), ("vPar", .coord 3 0), ("m", .obj "constants.m"), ("n", .obj "constants.n"), ("eps", .obj "constants.eps"), ("CN0", .obj "constants.CN0"), ("kN0", .obj "constants.kN0"), ("deltaRN0", .obj "constants.deltaRN0"), ("rp", .obj "constants.rp"), ("Cti", .obj "constants.CTi"), ("kti", .obj "constants.kTi"), ("deltaRti", .obj "constants.deltaRTi"), ("deltaR", .obj "constants.deltaR"), ("R0", .obj "constants.R0")]⟩,
    ⟨"init_f_pol", [("surface", .view "grid" [0, 1]), ("rVec", .coordVals 0 0 3), ("theta", .coordVals 1 0 4), ("z", .coord 2 1), ("vPar", .coord 3 0), ("m", .obj "constants.m"), ("n", .obj "constants.n"), ("eps", .obj "constants.eps"), ("CN0", .obj "constants.CN0"), ("kN0", .obj "constants.kN0"), ("deltaRN0", .obj "constants.deltaRN0"), ("rp", .obj "constants.rp"), ("Cti", .obj "constants.CTi"), ("kti", .obj "constants.kTi"), ("deltaRti", .obj "constants.deltaRTi"), ("deltaR", .obj "constants.deltaR"), ("R0", .obj "constants.R0")]⟩,
    ⟨"init_f_pol", [("surface", .view "grid" [1, 0]), ("rVec", .coordVals 0 0 3), ("theta", .coordVals 1 0 4), ("z", .coord 2 0), ("vPar", .coord 3 1), ("m", .obj "constants.m"), ("n", .obj "constants.n"), ("eps", .obj "constants.eps"), ("CN0", .obj "constants.CN0"), ("kN0", .obj "constants.kN0"), ("deltaRN0", .obj "constants.deltaRN0"), ("rp", .obj "constants.rp"), ("Cti", .obj "constants.CTi"), ("kti", .obj "constants.kTi"), ("deltaRti", .obj "constants.deltaRTi"), ("deltaR", .obj "constants.deltaR"), ("R0", .obj "constants.R0")]⟩,
    ⟨"init_f_pol", [("surface", .view "grid" [1, 1]), ("rVec", .coordVals 0 0 3), ("theta", .coordVals 1 0 4), ("z", .coord 2 1), ("vPar", .coord 3 1), ("m", .obj "constants.m"), ("n", .obj "constants.n"), ("eps", .obj "constants.eps"), ("CN0", .obj "constants.CN0"), ("kN0", .obj "constants.kN0"), ("deltaRN0", .obj "constants.deltaRN0"), ("rp", .obj "constants.rp"), ("Cti", .obj "constants.CTi"), ("kti", .obj "constants.kTi"), ("deltaRti", .obj "constants.deltaRTi"), ("deltaR", .obj "constants.deltaR"), ("R0", .obj "constants.R0")]⟩,
    ⟨"init_f_pol", [("surface", .view "grid" [2, 0]), ("rVec", .coordVals 0 0 3), ("theta", .coordVals 1 0 4), ("z", .coord 2 0), ("vPar", .coord 3 2), ("m", .obj "constants.m"), ("n", .obj "constants.n"), ("eps", .obj "constants.eps"), ("CN0", .obj "constants.CN0"), ("kN0", .obj "constants.kN0"), ("deltaRN0", .obj "constants.deltaRN0"), ("rp", .obj "constants.rp"), ("Cti", .obj "constants.CTi"), ("kti", .obj "constants.kTi"), ("deltaRti", .obj "constants.deltaRTi"), ("deltaR", .obj "constants.deltaR"), ("R0", .obj "constants.R0")]⟩,
    ⟨"init_f_pol", [("surface", .view "grid" [2, 1]), ("rVec", .coordVals 0 0 3), ("theta", .coordVals 1 0 4), ("z", .coord 2 1), ("vPar", .coord 3 2), ("m", .obj "constants.m"), ("n", .obj "constants.n"), ("eps", .obj "constants.eps"), ("CN0", .obj "constants.CN0"), ("kN0", .obj "constants.kN0"), ("deltaRN0", .obj "constants.deltaRN0"), ("rp", .obj "constants.rp"), ("Cti", .obj "constants.CTi"), ("kti", .obj "constants.kTi"), ("deltaRti", .obj "constants.deltaRTi"), ("deltaR", .obj "constants.deltaR"), ("R0", .obj "constants.R0")]⟩] := by decide
example : PoloidalAdvection_gridStep_SplinesUnchanged (Ex.gridF [0, 0] 1) = none := by decide

/-! process [0, 1] -/
example : FluxSurfaceAdvection_gridStep (Ex.gridF [0, 1] 0) = some [
    ⟨"self.step", [("f", .view "grid" [0, 0]), ("cIdx", .idx 0), ("rIdx", .idx 0)]⟩,
    ⟨"self.step", [("f", .view "grid" [0, 1]), ("cIdx", .idx 1), ("rIdx", .idx 0)]⟩,
    ⟨"self.step", [("f", .view "grid" [0, 2]), ("cIdx", .idx 2), ("rIdx", .idx 0)]⟩,
    ⟨"self.step", [("f", .view "grid" [0, 3]), ("cIdx", .idx 3), ("rIdx", .idx 0)]⟩] := by decide
example : initialise_flux_surface (Ex.gridF [0, 1] 0) = some [
    ⟨"init_f_flux", [("surface", .view "grid" [0, 0]), ("r", .coord 0 0), ("theta", .coordVals 1 0 4), ("zVec", .coordVals 2 0 5), ("vPar", .coord 3 3), ("m", .obj "constants.m"), ("n", .obj "constants.n"), ("eps", .obj "constants.eps"), ("CN0", .obj "constants.CN0"), ("kN0", .obj "constants.kN0"), ("deltaRN0", .obj "constants.deltaRN0"), ("rp", .obj "constants.rp"), ("Cti", .obj "constants.CTi"), ("kti", .obj "constants.kTi"), ("deltaRti", .obj "constants.deltaRTi"), ("deltaR", .obj "constants.deltaR"), ("R0", .obj "constants.R0")]⟩,
    ⟨"init_f_flux", [("surface", .view "grid" [0, 1]), ("r", .coord 0 0), ("theta", .coordVals 1 0 4), ("zVec", .coordVals 2 0 5), ("vPar", .coord 3 4), ("m", .obj "constants.m"), ("n", .obj "constants.n"), ("eps", .obj "constants.eps"), ("CN0", .obj "constants.CN0"), ("kN0", .obj "constants.kN0"), ("deltaRN0", .obj "constants.deltaRN0"), ("rp", .obj "constants.rp"), ("Cti", .obj "constants.CTi"), ("kti", .obj "constants.kTi"), ("deltaRti", .obj "constants.deltaRTi"), ("deltaR", .obj "constants.deltaR"), ("R0", .obj "constants.R0")]⟩,
    ⟨"init_f_flux", [("surface", .view "grid" [0, 2]), ("r", .coord 0 0), ("theta", .coordVals 1 0 4), ("zVec", .coordVals 2 0 5), ("vPar", .coord 3 5), ("m", .obj "constants.m"), ("n", .obj "constants.n"), ("eps", .obj "constants.eps"), ("CN0", .obj "constants.CN0"), ("kN0", .obj "constants.kN0"), ("deltaRN0", .obj "constants.deltaRN0"), ("rp", .obj "constants.rp"), ("Cti", .obj "constants.CTi"), ("kti", .obj "constants.kTi"), ("deltaRti", .obj "constants.deltaRTi"), ("deltaR", .obj "constants.deltaR"), ("R0", .obj "constants.R0")]⟩,
    ⟨"init_f_flux", [("surface", .view "grid" [0, 3]), ("r", .coord 0 0), ("theta", .coordVals 1 0 4), ("zVec", .coordVals 2 0 5), ("vPar", .coord 3 6), ("m", .obj "constants.m"), ("n", .obj "constants.n"), ("eps", .obj "constants.eps"), ("CN0", .obj "constants.CN0"), ("kN0", .obj "constants.kN0"), ("deltaRN0", .obj "constants.deltaRN0"), ("rp", .obj "constants.rp"), ("Cti", .obj "constants.CTi"), ("kti", .obj "constants.kTi"), ("deltaRti", .obj "constants.deltaRTi"), ("deltaR", .obj "constants.deltaR"), ("R0", .obj "constants.R0")]⟩] := by decide
example : FluxSurfaceAdvection_gridStep (Ex.gridF [0, 1] 1) = none := by decide
example : VParallelAdvection_gridStep (Ex.gridF [0, 1] 1) (Ex.gridPhi [0, 1] 5) = some [
    ⟨"parGrad.parallel_gradient", [("phi_r", .un "np.real" (.view "phi" [0])), ("i", .idx 0), ("der", .sub1 (.obj "parGradVals") (.idx 0))]⟩,
    ⟨"self.step", [("f", .view "grid" [0, 0, 0]), ("dt", .obj "dt"), ("c", .sub3 (.obj "parGradVals") (.idx 0) (.idx 2) (.idx 0)), ("r", .coord 0 0)]⟩,
    ⟨"self.step", [("f", .view "grid" [0, 0, 1]), ("dt", .obj "dt"), ("c", .sub3 (.obj "parGradVals") (.idx 0) (.idx 2) (.idx 1)), ("r", .coord 0 0)]⟩,
    ⟨"self.step", [("f", .view "grid" [0, 0, 2]), ("dt", .obj "dt"), ("c", .sub3 (.obj "parGradVals") (.idx 0) (.idx 2) (.idx 2)), ("r", .coord 0 0)]⟩,
    ⟨"self.step", [("f", .view "grid" [0, 0, 3]), ("dt", .obj "dt"), ("c", .sub3 (.obj "parGradVals") (.idx 0) (.idx 2) (.idx 3)), ("r", .coord 0 0)]⟩,
    ⟨"self.step", [("f", .view "grid" [0, 1, 0]), ("dt", .obj "dt"), ("c", .sub3 (.obj "parGradVals") (.idx 0) (.idx 3) (.idx 0)), ("r", .coord 0 0)]⟩,
    ⟨"self.step", [("f", .view "grid" [0, 1, 1]), ("dt", .obj "dt"), ("c", .sub3 (.obj "parGradVals") (.idx 0) (.idx 3) (.idx 1)), ("r", .coord 0 0)]⟩,
    ⟨"self.step", [("f", .view "grid" [0, 1, 2]), ("dt", .obj "dt"), ("c", .sub3 (.obj "parGradVals") (.idx 0) (.idx 3) (.idx 2)), ("r", .coord 0 0)]⟩,
    ⟨"self.step", [("f", .view "grid" [0, 1, 3]), ("dt", .obj "dt"), ("c", .sub3 (.obj "parGradVals") (.idx 0) (.idx 3) (.idx 3)), ("r", .coord 0 0)]⟩,
    ⟨"self.step", [("f", .view "grid" [0, 2, 0]), ("dt", .obj "dt"), ("c", .sub3 (.obj "parGradVals") (.idx 0) (.idx 4) (.idx 0)), ("r", .coord 0 0)]⟩,
    ⟨"self.step", [("f", .view "grid" [0, 2, 1]), ("dt", .obj "dt"), ("c", .sub3 (.obj "parGradVals") (.idx 0) (.idx 4) (.idx 1)), ("r", .coord 0 0)]⟩,
    ⟨"self.step", [("f", .view "grid" [0, 2, 2]), ("dt", .obj "dt"), ("c", .sub3 (.obj "parGradVals") (.idx 0) (.idx 4) (.idx 2)), ("r", .coord 0 0)]⟩,
    ⟨"self.step", [("f", .view "grid" [0, 2, 3]), ("dt", .obj "dt"), ("c", .sub3 (.obj "parGradVals") (.idx 0) (.idx 4) (.idx 3)), ("r", .coord 0 0)]⟩] := by decide
example : VParallelAdvection_gridStepKeepGradient (Ex.gridF [0, 1] 1) = some [
    ⟨"self.step", [("f", .view "grid" [0, 0, 0]), ("dt", .obj "dt"), ("c", .sub3 (.obj "parGradVals") (.idx 0) (.idx 2) (.idx 0)), ("r", .coord 0 0)]⟩,
    ⟨"self.step", [("f", .view "grid" [0, 0, 1]), ("dt", .obj "dt"), ("c", .sub3 (.obj "parGradVals") (.idx 0) (.idx 2) (.idx 1)), ("r", .coord 0 0)]⟩,
    ⟨"self.step", [("f", .view "grid" [0, 0, 2]), ("dt", .obj "dt"), ("c", .sub3 (.obj "parGradVals") (.idx 0) (.idx 2) (.idx 2)), ("r", .coord 0 0)]⟩,
    ⟨"self.step", [("f", .view "grid" [0, 0, 3]), ("dt", .obj "dt"), ("c", .sub3 (.obj "parGradVals") (.idx 0) (.idx 2) (.idx 3)), ("r", .coord 0 0)]⟩,
    ⟨"self.step", [("f", .view "grid" [0, 1, 0]), ("dt", .obj "dt"), ("c", .sub3 (.obj "parGradVals") (.idx 0) (.idx 3) (.idx 0)), ("r", .coord 0 0)]⟩,
    ⟨"self.step", [("f", .view "grid" [0, 1, 1]), ("dt", .obj "dt"), ("c", .sub3 (.obj "parGradVals") (.idx 0) (.idx 3) (.idx 1)), ("r", .coord 0 0)]⟩,
    ⟨"self.step", [("f", .view "grid" [0, 1, 2]), ("dt", .obj "dt"), ("c", .sub3 (.obj "parGradVals") (.idx 0) (.idx 3) (.idx 2)), ("r", .coord 0 0)]⟩,
    ⟨"self.step", [("f", .view "grid" [0, 1, 3]), ("dt", .obj "dt"), ("c", .sub3 (.obj "parGradVals") (.idx 0) (.idx 3) (.idx 3)), ("r", .coord 0 0)]⟩,
    ⟨"self.step", [("f", .view "grid" [0, 2, 0]), ("dt", .obj "dt"), ("c", .sub3 (.obj "parGradVals") (.idx 0) (.idx 4) (.idx 0)), ("r", .coord 0 0)]⟩,
    ⟨"self.step", [("f", .view "grid" [0, 2, 1]), ("dt", .obj "dt"), ("c", .sub3 (.obj "parGradVals") (.idx 0) (.idx 4) (.idx 1)), ("r", .coord 0 0)]⟩,
    ⟨"self.step", [("f", .view "grid" [0, 2, 2]), ("dt", .obj "dt"), ("c", .sub3 (.obj "parGradVals") (.idx 0) (.idx 4) (.idx 2)), ("r", .coord 0 0)]⟩,
    ⟨"self.step", [("f", .view "grid" [0, 2, 3]), ("dt", .obj "dt"), ("c", .sub3 (.obj "parGradVals") (.idx 0) (.idx 4) (.idx 3)), ("r", .coord 0 0)]⟩] := by decide
example : initialise_v_parallel (Ex.gridF [0, 1] 1) = some [
    ⟨"init_f_vpar", [("surface", .view "grid" [0, 0]), ("r", .coord 0 0), ("theta", .coordVals 1 0 4), ("z", .coord 2 2), ("vPar", .coordVals 3 0 7), ("m", .obj "constants.m"), ("n", .obj "constants.n"), ("eps", .obj "constants.eps"), ("CN0", .obj "constants.CN0"), ("kN0", .obj "constants.kN0"), ("deltaRN0", .obj "constants.deltaRN0"), ("rp", .obj "constants.rp"), ("Cti", .obj "constants.CTi"), ("kti", .obj "constants.kTi"), ("deltaRti", .obj "constants.deltaRTi"), ("deltaR", .obj "constants.deltaR"), ("R0", .obj "constants.R0")]⟩,
    ⟨"init_f_vpar", [("surface", .view "grid" [0, 1]), ("r", .coord 0 0), ("theta", .coordVals 1 0 4), ("z", .coord 2 3), ("vPar", .coordVals 3 0 7), ("m", .obj "constants.m"), ("n", .obj "constants.n"), ("eps", .obj "constants.eps"), ("CN0", .obj "constants.CN0"), ("kN0", .obj "constants.kN0"), ("deltaRN0", .obj "constants.deltaRN0"), ("rp", .obj "constants.rp"), ("Cti", .obj "constants.CTi"), ("kti", .obj "constants.kTi"), ("deltaRti", .obj "constants.deltaRTi"), ("deltaR", .obj "constants.deltaR"), ("R0", .obj "constants.R0")]⟩,
    ⟨"init_f_vpar", [("surface", .view "grid" [0, 2]), ("r", .coord 0 0), ("theta", .coordVals 1 0 4), ("z", .coord 2 4), ("vPar", .coordVals 3 0 7), ("m", .obj "constants.m"), ("n", .obj "constants.n"), ("eps", .obj "constants.eps"), ("CN0", .obj "constants.CN0"), ("kN0", .obj "constants.kN0"), ("deltaRN0", .obj "constants.deltaRN0"), ("rp", .obj "constants.rp"), ("Cti", .obj "constants.CTi"), ("kti", .obj "constants.kTi"), ("deltaRti", .obj "constants.deltaRTi"), ("deltaR", .obj "constants.deltaR"), ("R0", .obj "constants.R0")]⟩] := by decide
example : DensityFinder_getPerturbedRho (Ex.gridF [0, 1] 1) (Ex.gridRho [0, 1] 3) = some [
    ⟨"get_perturbed_rho", [("rho", .view "rho" []), ("feq", .sub1 (.obj "self._fEq") (.idxs [0])), ("grid", .view "grid" []), ("quad_coeffs", .obj "self._quad_coeffs")]⟩] := by decide
example : DensityFinder_getRho (Ex.gridF [0, 1] 1) (Ex.gridRho [0, 1] 3) = some [
    ⟨"get_rho", [("rho", .view "rho" []), ("grid", .view "grid" []), ("quad_coeffs", .obj "self._quad_coeffs")]⟩] := by decide
example : DensityFinder_getPerturbedRho (Ex.gridF [0, 1] 1) (Ex.gridRho [0, 1] 4) = none := by decide
example : DiffEqSolver_solveEquation (Ex.gridPhi [0, 1] 4) (Ex.gridRho [0, 1] 4) = some [
    ⟨"self._solveMode", [("phi", .obj "phi"), ("rho", .obj "rho"), ("stiffnessMatrix", .sub2 (.bin "-" (.obj "self._stiffnessMatrix") (.bin "*" (.sub1 (.obj "self._mVals") (.idx 0)) (.obj "self._k2PhiPsi"))) (.sub1 (.obj "self._stiffness_range") (.idx 0)) (.sub1 (.obj "self._stiffness_range") (.idx 0))), ("i", .idx 0), ("I", .idx 0)]⟩,
    ⟨"self._solveMode", [("phi", .obj "phi"), ("rho", .obj "rho"), ("stiffnessMatrix", .sub2 (.bin "-" (.obj "self._stiffnessMatrix") (.bin "*" (.sub1 (.obj "self._mVals") (.idx 1)) (.obj "self._k2PhiPsi"))) (.sub1 (.obj "self._stiffness_range") (.idx 1)) (.sub1 (.obj "self._stiffness_range") (.idx 1))), ("i", .idx 1), ("I", .idx 1)]⟩] := by decide
example : QuasiNeutralitySolver_solveEquation (fun I => I == 2) (Ex.gridPhi [0, 1] 4) (Ex.gridRho [0, 1] 4) = some [
    ⟨"self._solveMode", [("phi", .obj "phi"), ("rho", .obj "rho"), ("stiffnessMatrix", .sub2 (.bin "-" (.obj "self._stiffnessMatrix") (.bin "*" (.sub1 (.obj "self._mVals") (.idx 0)) (.obj "self._k2PhiPsi"))) (.sub1 (.obj "self._stiffness_range") (.idx 0)) (.sub1 (.obj "self._stiffness_range") (.idx 0))), ("i", .idx 0), ("I", .idx 0)]⟩,
    ⟨"self._solveMode", [("phi", .obj "phi"), ("rho", .obj "rho"), ("stiffnessMatrix", .sub2 (.bin "-" (.obj "self._stiffnessMatrix") (.bin "*" (.sub1 (.obj "self._mVals") (.idx 1)) (.obj "self._k2PhiPsi"))) (.sub1 (.obj "self._stiffness_range") (.idx 1)) (.sub1 (.obj "self._stiffness_range") (.idx 1))), ("i", .idx 1), ("I", .idx 1)]⟩] := by decide
example : DiffEqSolver_solveEquation (Ex.gridPhi [0, 1] 4) (Ex.gridRho [0, 1] 3) = none := by decide
example : PoloidalAdvection_gridStep (Ex.gridF [0, 1] 2) (Ex.gridPhi [0, 1] 2) = some [
    ⟨"self._interpolator.compute_interpolant", [("arg0", .un "np.real" (.view "phi" [0])), ("arg1", .sub1 (.obj "self._phiSplines") (.idx 0))]⟩,
    ⟨"self._interpolator.compute_interpolant", [("arg0", .un "np.real" (.view "phi" [1])), ("arg1", .sub1 (.obj "self._phiSplines") (.idx 1))]⟩,
    ⟨"self._interpolator.compute_interpolant", [("arg0", .un "np.real" (.view "phi" [2])), ("arg1", .sub1 (.obj "self._phiSplines") (.idx 2))]⟩,
    ⟨"self.step", [("f", .view "grid" [0, 0]), ("dt", .obj "dt"), ("phi", .sub1 (.obj "self._phiSplines") (.idx 0)), ("v", .coord 3 0)]⟩,
    ⟨"self.step", [("f", .view "grid" [0, 1]), ("dt", .obj "dt"), ("phi", .sub1 (.obj "self._phiSplines") (.idx 1)), ("v", .coord 3 0)]⟩,
    ⟨"self.step", [("f", .view "grid" [0, 2]), ("dt", .obj "dt"), ("phi", .sub1 (.obj "self._phiSplines") (.idx 2)), ("v", .coord 3 0)]⟩,
    ⟨"self.step", [("f", .view "grid" [1, 0]), ("dt", .obj "dt"), ("phi", .sub1 (.obj "self._phiSplines") (.idx 0)), ("v", .coord 3 1)]⟩,
    ⟨"self.step", [("f", .view "grid" [1, 1]), ("dt", .obj "dt"), ("phi", .sub1 (.obj "self._phiSplines") (.idx 1)), ("v", .coord 3 1)]⟩,
    ⟨"self.step", [("f", .view "grid" [1, 2]), ("dt", .obj "dt"), ("phi", .sub1 (.obj "self._phiSplines") (.idx 2)), ("v", .coord 3 1)]⟩,
    ⟨"self.step", [("f", .view "grid" [2, 0]), ("dt", .obj "dt"), ("phi", .sub1 (.obj "self._phiSplines") (.idx 0)), ("v", .coord 3 2)]⟩,
    ⟨"self.step", [("f", .view "grid" [2, 1]), ("dt", .obj "dt"), ("phi", .sub1 (.obj "self._phiSplines") (.idx 1)), ("v", .coord 3 2)]⟩,
    ⟨"self.step", [("f", .view "grid" [2, 2]), ("dt", .obj "dt"), ("phi", .sub1 (.obj "self._phiSplines") (.idx 2)), ("v", .coord 3 2)]⟩] := by decide
example : PoloidalAdvection_gridStep_SplinesUnchanged (Ex.gridF [0, 1] 2) = some [
    ⟨"self.step", [("f", .view "grid" [0, 0]), ("dt", .obj "dt"), ("phi", .sub1 (.obj "self._phiSplines") (.idx 0)), ("v", .coord 3 0)]⟩,
    ⟨"self.step", [("f", .view "grid" [0, 1]), ("dt", .obj "dt"), ("phi", .sub1 (.obj "self._phiSplines") (.idx 1)), ("v", .coord 3 0)]⟩,
    ⟨"self.step", [("f", .view "grid" [0, 2]), ("dt", .obj "dt"), ("phi", .sub1 (.obj "self._phiSplines") (.idx 2)), ("v", .coord 3 0)]⟩,
    ⟨"self.step", [("f", .view "grid" [1, 0]), ("dt", .obj "dt"), ("phi", .sub1 (.obj "self._phiSplines") (.idx 0)), ("v", .coord 3 1)]⟩,
    ⟨"self.step", [("f", .view "grid" [1, 1]), ("dt", .obj "dt"), ("phi", .sub1 (.obj "self._phiSplines") (.idx 1)), ("v", .coord 3 1)]⟩,
    ⟨"self.step", [("f", .view "grid" [1, 2]), ("dt", .obj "dt"), ("phi", .sub1 (.obj "self._phiSplines") (.idx 2)), ("v", .coord 3 1)]⟩,
    ⟨"self.step", [("f", .view "grid" [2, 0]), ("dt", .obj "dt"), ("phi", .sub1 (.obj "self._phiSplines") (.idx 0)), ("v", .coord 3 2)]⟩,
    ⟨"self.step", [("f", .view "grid" [2, 1]), ("dt", .obj "dt"), ("phi", .sub1 (.obj "self._phiSplines") (.idx 1)), ("v", .coord 3 2)]⟩,
    ⟨"self.step", [("f", .view "grid" [2, 2]), ("dt", .obj "dt"), ("phi", .sub1 (.obj "self._phiSplines") (.idx 2)), ("v", .coord 3 2)]⟩] := by decide
example : initialise_poloidal (Ex.gridF [0, 1] 2) = some [
    ⟨"init_f_pol", [("surface", .view "grid" [0, 0]), ("rVec", .coordVals 0 0 3), ("theta", .coordVals 1 0 4), ("z", .coord 2 2), ("vPar", .coord 3 0), ("m", .obj "constants.m"), ("n", .obj "constants.n"), ("eps", .obj "constants.eps"), ("CN0", .obj "constants.CN0"), ("kN0", .obj "constants.kN0"), ("deltaRN0", .obj "constants.deltaRN0"), ("rp", .obj "constants.rp"), ("Cti", .obj "constants.CTi"), ("kti", .obj "constants.kTi"), ("deltaRti", .obj "constants.deltaRTi"), ("deltaR", .obj "constants.deltaR"), ("R0", .obj "constants.R0")]⟩,
    ⟨"init_f_pol", [("surface", .view "grid" [0, 1]), ("rVec", .coordVals 0 0 3), ("theta", .coordVals 1 0 4), ("z", .coord 2 3), ("vPar", .coord 3 0), ("m", .obj "constants.m"), ("n", .obj "constants.n"), ("eps", .obj "constants.eps"), ("CN0", .obj "constants.CN0"), ("kN0", .obj "constants.kN0"), ("deltaRN0", .obj "constants.deltaRN0"), ("rp", .obj "constants.rp"), ("Cti", .obj "constants.CTi"), ("kti", .obj "constants.kTi"), ("deltaRti", .obj "constants.deltaRTi"), ("deltaR", .obj "constants.deltaR"), ("R0", .obj "constants.R0")]⟩,
    ⟨"init_f_pol", [("surface", .view "grid" [0, 2]), ("rVec", .coordVals 0 0 3), ("theta", .coordVals 1 0 4), ("z", .coord 2 4), ("vPar", .coord 3 0), ("m", .obj "constants.m"), ("n", .obj "constants.n"), ("eps", .obj "constants.eps"), ("CN0", .obj "constants.CN0"), ("kN0", .obj "constants.kN0"), ("deltaRN0", .obj "constants.deltaRN0"), ("rp", .obj "constants.rp"), ("Cti", .obj "constants.CTi"), ("kti", .obj "constants.kTi"), ("deltaRti", .obj "constants.deltaRTi"), ("deltaR", .obj "constants.deltaR"), ("R0", .obj "constants.R0")]⟩,
    ⟨"init_f_pol", [("surface", .view "grid" [1, 0]), ("rVec", .coordVals 0 0 3), ("theta", .coordVals 1 0 4), ("z", .coord 2 2), ("vPar", .coord 3 1), ("m", .obj "constants.m"), ("n", .obj "constants.n"), ("eps", .obj "constants.eps"), ("CN0", .obj "constants.CN0"), ("kN0", .obj "constants.kN0"), ("deltaRN0", .obj "constants.deltaRN0"), ("rp", .obj "constants.rp"), ("Cti", .obj "constants.CTi"), ("kti", .obj "constants.kTi"), ("deltaRti", .obj "constants.deltaRTi"), ("deltaR", .obj "constants.deltaR"), ("R0", .obj "constants.R0")]⟩,
    ⟨"init_f_pol", [("surface", .view "grid" [1, 1]), ("rVec", .coordVals 0 0 3), ("theta", .coordVals 1 0 4), ("z", .coord 2 3), ("vPar", .coord 3 1), ("m", .obj "constants.m"), ("n", .obj "constants.n"), ("eps", .obj "constants.eps"), ("CN0", .obj "constants.CN0"), ("kN0", .obj "constants.kN0"), ("deltaRN0", .obj "constants.deltaRN0"), ("rp", .obj "constants.rp"), ("Cti", .obj "constants.CTi"), ("kti", .obj "constants.kTi"), ("deltaRti", .obj "constants.deltaRTi"), ("deltaR", .obj "constants.deltaR"), ("R0", .obj "constants.R0")]⟩,
    ⟨"init_f_pol", [("surface", .view "grid" [1, 2]), ("rVec", .coordVals 0 0 3), ("theta", .coordVals 1 0 4), ("z", .coord 2 4), ("vPar", .coord 3 1), ("m", .obj "constants.m"), ("n", .obj "constants.n"), ("eps", .obj "constants.eps"), ("CN0", .obj "constants.CN0"), ("kN0", .obj "constants.kN0"), ("deltaRN0", .obj "constants.deltaRN0"), ("rp", .obj "constants.rp"), ("Cti", .obj "constants.CTi"), ("kti", .obj "constants.kTi"), ("deltaRti", .obj "constants.deltaRTi"), ("deltaR", .obj "constants.deltaR"), ("R0", .obj "constants.R0")]⟩,
    ⟨"init_f_pol", [("surface", .view "grid" [2, 0]), ("rVec", .coordVals 0 0 3), ("theta", .coordVals 1 0 4), ("z", .coord 2 2), ("vPar", .coord 3 2), ("m", .obj "constants.m"), ("n", .obj "constants.n"), ("eps", .obj "constants.eps"), ("CN0", .obj "constants.CN0"), ("kN0", .obj "constants.kN0"), ("deltaRN0", .obj "constants.deltaRN0"), ("rp", .obj "constants.rp"), ("Cti", .obj "constants.CTi"), ("kti", .obj "constants.kTi"), ("deltaRti", .obj "constants.deltaRTi"), ("deltaR", .obj "constants.deltaR"), ("R0", .obj "constants.R0")]⟩,
    ⟨"init_f_pol", [("surface", .view "grid" [2, 1]), ("rVec", .coordVals 0 0 3), ("theta", .coordVals 1 0 4), ("z", .coord 2 3), ("vPar", .coord 3 2), ("m", .obj "constants.m"), ("n", .obj "constants.n"), ("eps", .obj "constants.eps"), ("CN0", .obj "constants.CN0"), ("kN0", .obj "constants.kN0"), ("deltaRN0", .obj "constants.deltaRN0"), ("rp", .obj "constants.rp"), ("Cti", .obj "constants.CTi"), ("kti", .obj "constants.kTi"), ("deltaRti", .obj "constants.deltaRTi"), ("deltaR", .obj "constants.deltaR"), ("R0", .obj "constants.R0")]⟩,
    ⟨"init_f_pol", [("surface", .view "grid" [2, 2]), ("rVec", .coordVals 0 0 3), ("theta", .coordVals 1 0 4), ("z", .coord 2 4), ("vPar", .coord 3 2), ("m", .obj "constants.m"), ("n", .obj "constants.n"), ("eps", .obj "constants.eps"), ("CN0", .obj "constants.CN0"), ("kN0", .obj "constants.kN0"), ("deltaRN0", .obj "constants.deltaRN0"), ("rp", .obj "constants.rp"), ("Cti", .obj "constants.CTi"), ("kti", .obj "constants.kTi"), ("deltaRti", .obj "constants.deltaRTi"), ("deltaR", .obj "constants.deltaR"), ("R0", .obj "constants.R0")]⟩] := by decide
example : PoloidalAdvection_gridStep_SplinesUnchanged (Ex.gridF [0, 1] 1) = none := by decide

/-! process [1, 0] -/
example : FluxSurfaceAdvection_gridStep (Ex.gridF [1, 0] 0) = some [
    ⟨"self.step", [("f", .view "grid" [0, 0]), ("cIdx", .idx 0), ("rIdx", .idx 0)]⟩,
    ⟨"self.step", [("f", .view "grid" [0, 1]), ("cIdx", .idx 1), ("rIdx", .idx 0)]⟩,
    ⟨"self.step", [("f", .view "grid" [0, 2]), ("cIdx", .idx 2), ("rIdx", .idx 0)]⟩,
    ⟨"self.step", [("f", .view "grid" [1, 0]), ("cIdx", .idx 0), ("rIdx", .idx 1)]⟩,
    ⟨"self.step", [("f", .view "grid" [1, 1]), ("cIdx", .idx 1), ("rIdx", .idx 1)]⟩,
    ⟨"self.step", [("f", .view "grid" [1, 2]), ("cIdx", .idx 2), ("rIdx", .idx 1)]⟩] := by decide
example : initialise_flux_surface (Ex.gridF [1, 0] 0) = some [
    ⟨"init_f_flux", [("surface", .view "grid" [0, 0]), ("r", .coord 0 1), ("theta", .coordVals 1 0 4), ("zVec", .coordVals 2 0 5), ("vPar", .coord 3 0), ("m", .obj "constants.m"), ("n", .obj "constants.n"), ("eps", .obj "constants.eps"), ("CN0", .obj "constants.CN0"), ("kN0", .obj "constants.kN0"), ("deltaRN0", .obj "constants.deltaRN0"), ("rp", .obj "constants.rp"), ("Cti", .obj "constants.CTi"), ("kti", .obj "constants.kTi"), ("deltaRti", .obj "constants.deltaRTi"), ("deltaR", .obj "constants.deltaR"), ("R0", .obj "constants.R0")]⟩,
    ⟨"init_f_flux", [("surface", .view "grid" [0, 1]), ("r", .coord 0 1), ("theta", .coordVals 1 0 4), ("zVec", .coordVals 2 0 5), ("vPar", .coord 3 1), ("m", .obj "constants.m"), ("n", .obj "constants.n"), ("eps", .obj "constants.eps"), ("CN0", .obj "constants.CN0"), ("kN0", .obj "constants.kN0"), ("deltaRN0", .obj "constants.deltaRN0"), ("rp", .obj "constants.rp"), ("Cti", .obj "constants.CTi"), ("kti", .obj "constants.kTi"), ("deltaRti", .obj "constants.deltaRTi"), ("deltaR", .obj "constants.deltaR"), ("R0", .obj "constants.R0")]⟩,
    ⟨"init_f_flux", [("surface", .view "grid" [0, 2]), ("r", .coord 0 1), ("theta", .coordVals 1 0 4), ("zVec", .coordVals 2 0 5), ("vPar", .coord 3 2), ("m", .obj "constants.m"), ("n", .obj "constants.n"), ("eps", .obj "constants.eps"), ("CN0", .obj "constants.CN0"), ("kN0", .obj "constants.kN0"), ("deltaRN0", .obj "constants.deltaRN0"), ("rp", .obj "constants.rp"), ("Cti", .obj "constants.CTi"), ("kti", .obj "constants.kTi"), ("deltaRti", .obj "constants.deltaRTi"), ("deltaR", .obj "constants.deltaR"), ("R0", .obj "constants.R0")]⟩,
    ⟨"init_f_flux", [("surface", .view "grid" [1, 0]), ("r", .coord 0 2), ("theta", .coordVals 1 0 4), ("zVec", .coordVals 2 0 5), ("vPar", .coord 3 0), ("m", .obj "constants.m"), ("n", .obj "constants.n"), ("eps", .obj "constants.eps"), ("CN0", .obj "constants.CN0"), ("kN0", .obj "constants.kN0"), ("deltaRN0", .obj "constants.deltaRN0"), ("rp", .obj "constants.rp"), ("Cti", .obj "constants.CTi"), ("kti", .obj "constants.kTi"), ("deltaRti", .obj "constants.deltaRTi"), ("deltaR", .obj "constants.deltaR"), ("R0", .obj "constants.R0")]⟩,
    ⟨"init_f_flux", [("surface", .view "grid" [1, 1]), ("r", .coord 0 2), ("theta", .coordVals 1 0 4), ("zVec", .coordVals 2 0 5), ("vPar", .coord 3 1), ("m", .obj "constants.m"), ("n", .obj "constants.n"), ("eps", .obj "constants.eps"), ("CN0", .obj "constants.CN0"), ("kN0", .obj "constants.kN0"), ("deltaRN0", .obj "constants.deltaRN0"), ("rp", .obj "constants.rp"), ("Cti", .obj "constants.CTi"), ("kti", .obj "constants.kTi"), ("deltaRti", .obj "constants.deltaRTi"), ("deltaR", .obj "constants.deltaR"), ("R0", .obj "constants.R0")]⟩,
    ⟨"init_f_flux", [("surface", .view "grid" [1, 2]), ("r", .coord 0 2), ("theta", .coordVals 1 0 4), ("zVec", .coordVals 2 0 5), ("vPar", .coord 3 2), ("m", .obj "constants.m"), ("n", .obj "constants.n"), ("eps", .obj "constants.eps"), ("CN0", .obj "constants.CN0"), ("kN0", .obj "constants.kN0"), ("deltaRN0", .obj "constants.deltaRN0"), ("rp", .obj "constants.rp"), ("Cti", .obj "constants.CTi"), ("kti", .obj "constants.kTi"), ("deltaRti", .obj "constants.deltaRTi"), ("deltaR", .obj "constants.deltaR"), ("R0", .obj "constants.R0")]⟩] := by decide
example : FluxSurfaceAdvection_gridStep (Ex.gridF [1, 0] 1) = none := by decide
example : VParallelAdvection_gridStep (Ex.gridF [1, 0] 1) (Ex.gridPhi [1, 0] 5) = some [
    ⟨"parGrad.parallel_gradient", [("phi_r", .un "np.real" (.view "phi" [0])), ("i", .idx 0), ("der", .sub1 (.obj "parGradVals") (.idx 0))]⟩,
    ⟨"self.step", [("f", .view "grid" [0, 0, 0]), ("dt", .obj "dt"), ("c", .sub3 (.obj "parGradVals") (.idx 0) (.idx 0) (.idx 0)), ("r", .coord 0 1)]⟩,
    ⟨"self.step", [("f", .view "grid" [0, 0, 1]), ("dt", .obj "dt"), ("c", .sub3 (.obj "parGradVals") (.idx 0) (.idx 0) (.idx 1)), ("r", .coord 0 1)]⟩,
    ⟨"self.step", [("f", .view "grid" [0, 0, 2]), ("dt", .obj "dt"), ("c", .sub3 (.obj "parGradVals") (.idx 0) (.idx 0) (.idx 2)), ("r", .coord 0 1)]⟩,
    ⟨"self.step", [("f", .view "grid" [0, 0, 3]), ("dt", .obj "dt"), ("c", .sub3 (.obj "parGradVals") (.idx 0) (.idx 0) (.idx 3)), ("r", .coord 0 1)]⟩,
    ⟨"self.step", [("f", .view "grid" [0, 1, 0]), ("dt", .obj "dt"), ("c", .sub3 (.obj "parGradVals") (.idx 0) (.idx 1) (.idx 0)), ("r", .coord 0 1)]⟩,
    ⟨"self.step", [("f", .view "grid" [0, 1, 1]), ("dt", .obj "dt"), ("c", .sub3 (.obj "parGradVals") (.idx 0) (.idx 1) (.idx 1)), ("r", .coord 0 1)]⟩,
    ⟨"self.step", [("f", .view "grid" [0, 1, 2]), ("dt", .obj "dt"), ("c", .sub3 (.obj "parGradVals") (.idx 0) (.idx 1) (.idx 2)), ("r", .coord 0 1)]⟩,
    ⟨"self.step", [("f", .view "grid" [0, 1, 3]), ("dt", .obj "dt"), ("c", .sub3 (.obj "parGradVals") (.idx 0) (.idx 1) (.idx 3)), ("r", .coord 0 1)]⟩,
    ⟨"parGrad.parallel_gradient", [("phi_r", .un "np.real" (.view "phi" [1])), ("i", .idx 1), ("der", .sub1 (.obj "parGradVals") (.idx 1))]⟩,
    ⟨"self.step", [("f", .view "grid" [1, 0, 0]), ("dt", .obj "dt"), ("c", .sub3 (.obj "parGradVals") (.idx 1) (.idx 0) (.idx 0)), ("r", .coord 0 2)]⟩,
    ⟨"self.step", [("f", .view "grid" [1, 0, 1]), ("dt", .obj "dt"), ("c", .sub3 (.obj "parGradVals") (.idx 1) (.idx 0) (.idx 1)), ("r", .coord 0 2)]⟩,
    ⟨"self.step", [("f", .view "grid" [1, 0, 2]), ("dt", .obj "dt"), ("c", .sub3 (.obj "parGradVals") (.idx 1) (.idx 0) (.idx 2)), ("r", .coord 0 2)]⟩,
    ⟨"self.step", [("f", .view "grid" [1, 0, 3]), ("dt", .obj "dt"), ("c", .sub3 (.obj "parGradVals") (.idx 1) (.idx 0) (.idx 3)), ("r", .coord 0 2)]⟩,
    ⟨"self.step", [("f", .view "grid" [1, 1, 0]), ("dt", .obj "dt"), ("c", .sub3 (.obj "parGradVals") (.idx 1) (.idx 1) (.idx 0)), ("r", .coord 0 2)]⟩,
    ⟨"self.step", [("f", .view "grid" [1, 1, 1]), ("dt", .obj "dt"), ("c", .sub3 (.obj "parGradVals") (.idx 1) (.idx 1) (.idx 1)), ("r", .coord 0 2)]⟩,
    ⟨"self.step", [("f", .view "grid" [1, 1, 2]), ("dt", .obj "dt"), ("c", .sub3 (.obj "parGradVals") (.idx 1) (.idx 1) (.idx 2)), ("r", .coord 0 2)]⟩,
    ⟨"self.step", [("f", .view "grid" [1, 1, 3]), ("dt", .obj "dt"), ("c", .sub3 (.obj "parGradVals") (.idx 1) (.idx 1) (.idx 3)), ("r", .coord 0 2)]⟩] := by decide
example : VParallelAdvection_gridStepKeepGradient (Ex.gridF [1, 0] 1) = some [
    ⟨"self.step", [("f", .view "grid" [0, 0, 0]), ("dt", .obj "dt"), ("c", .sub3 (.obj "parGradVals") (.idx 0) (.idx 0) (.idx 0)), ("r", .coord 0 1)]⟩,
    ⟨"self.step", [("f", .view "grid" [0, 0, 1]), ("dt", .obj "dt"), ("c", .sub3 (.obj "parGradVals") (.idx 0) (.idx 0) (.idx 1)), ("r", .coord 0 1)]⟩,
    ⟨"self.step", [("f", .view "grid" [0, 0, 2]), ("dt", .obj "dt"), ("c", .sub3 (.obj "parGradVals") (.idx 0) (.idx 0) (.idx 2)), ("r", .coord 0 1)]⟩,
    ⟨"self.step", [("f", .view "grid" [0, 0, 3]), ("dt", .obj "dt"), ("c", .sub3 (.obj "parGradVals") (.idx 0) (.idx 0) (.idx 3)), ("r", .coord 0 1)]⟩,
    ⟨"self.step", [("f", .view "grid" [0, 1, 0]), ("dt", .obj "dt"), ("c", .sub3 (.obj "parGradVals") (.idx 0) (.idx 1) (.idx 0)), ("r", .coord 0 1)]⟩,
    ⟨"self.step", [("f", .view "grid" [0, 1, 1]), ("dt", .obj "dt"), ("c", .sub3 (.obj "parGradVals") (.idx 0) (.idx 1) (.idx 1)), ("r", .coord 0 1)]⟩,
    ⟨"self.step", [("f", .view "grid" [0, 1, 2]), ("dt", .obj "dt"), ("c", .sub3 (.obj "parGradVals") (.idx 0) (.idx 1) (.idx 2)), ("r", .coord 0 1)]⟩,
    ⟨"self.step", [("f", .view "grid" [0, 1, 3]), ("dt", .obj "dt"), ("c", .sub3 (.obj "parGradVals") (.idx 0) (.idx 1) (.idx 3)), ("r", .coord 0 1)]⟩,
    ⟨"self.step", [("f", .view "grid" [1, 0, 0]), ("dt", .obj "dt"), ("c", .sub3 (.obj "parGradVals") (.idx 1) (.idx 0) (.idx 0)), ("r", .coord 0 2)]⟩,
    ⟨"self.step", [("f", .view "grid" [1, 0, 1]), ("dt", .obj "dt"), ("c", .sub3 (.obj "parGradVals") (.idx 1) (.idx 0) (.idx 1)), ("r", .coord 0 2)]⟩,
    ⟨"self.step", [("f", .view "grid" [1, 0, 2]), ("dt", .obj "dt"), ("c", .sub3 (.obj "parGradVals") (.idx 1) (.idx 0) (.idx 2)), ("r", .coord 0 2)]⟩,
    ⟨"self.step", [("f", .view "grid" [1, 0, 3]), ("dt", .obj "dt"), ("c", .sub3 (.obj "parGradVals") (.idx 1) (.idx 0) (.idx 3)), ("r", .coord 0 2)]⟩,
    ⟨"self.step", [("f", .view "grid" [1, 1, 0]), ("dt", .obj "dt"), ("c", .sub3 (.obj "parGradVals") (.idx 1) (.idx 1) (.idx 0)), ("r", .coord 0 2)]⟩,
    ⟨"self.step", [("f", .view "grid" [1, 1, 1]), ("dt", .obj "dt"), ("c", .sub3 (.obj "parGradVals") (.idx 1) (.idx 1) (.idx 1)), ("r", .coord 0 2)]⟩,
    ⟨"self.step", [("f", .view "grid" [1, 1, 2]), ("dt", .obj "dt"), ("c", .sub3 (.obj "parGradVals") (.idx 1) (.idx 1) (.idx 2)), ("r", .coord 0 2)]⟩,
    ⟨"self.step", [("f", .view "grid" [1, 1, 3]), ("dt", .obj "dt"), ("c", .sub3 (.obj "parGradVals") (.idx 1) (.idx 1) (.idx 3)), ("r", .coord 0 2)]⟩] := by decide
example : initialise_v_parallel (Ex.gridF [1, 0] 1) = some [
    ⟨"init_f_vpar", [("surface", .view "grid" [0, 0]), ("r", .coord 0 1), ("theta", .coordVals 1 0 4), ("z", .coord 2 0), ("vPar", .coordVals 3 0 7), ("m", .obj "constants.m"), ("n", .obj "constants.n"), ("eps", .obj "constants.eps"), ("CN0", .obj "constants.CN0"), ("kN0", .obj "constants.kN0"), ("deltaRN0", .obj "constants.deltaRN0"), ("rp", .obj "constants.rp"), ("Cti", .obj "constants.CTi"), ("kti", .obj "constants.kTi"), ("deltaRti", .obj "constants.deltaRTi"), ("deltaR", .obj "constants.deltaR"), ("R0", .obj "constants.R0")]⟩,
    ⟨"init_f_vpar", [("surface", .view "grid" [0, 1]), ("r", .coord 0 1), ("theta", .coordVals 1 0 4), ("z", .coord 2 1), ("vPar", .coordVals 3 0 7), ("m", .obj "constants.m"), ("n", .obj "constants.n"), ("eps", .obj "constants.eps"), ("CN0", .obj "constants.CN0"), ("kN0", .obj "constants.kN0"), ("deltaRN0", .obj "constants.deltaRN0"), ("rp", .obj "constants.rp"), ("Cti", .obj "constants.CTi"), ("kti", .obj "constants.kTi"), ("deltaRti", .obj "constants.deltaRTi"), ("deltaR", .obj "constants.deltaR"), ("R0", .obj "constants.R0")]⟩,
    ⟨"init_f_vpar", [("surface", .view "grid" [1, 0]), ("r", .coord 0 2), ("theta", .coordVals 1 0 4), ("z", .coord 2 0), ("vPar", .coordVals 3 0 7), ("m", .obj "constants.m"), ("n", .obj "constants.n"), ("eps", .obj "constants.eps"), ("CN0", .obj "constants.CN0"), ("kN0", .obj "constants.kN0"), ("deltaRN0", .obj "constants.deltaRN0"), ("rp", .obj "constants.rp"), ("Cti", .obj "constants.CTi"), ("kti", .obj "constants.kTi"), ("deltaRti", .obj "constants.deltaRTi"), ("deltaR", .obj "constants.deltaR"), ("R0", .obj "constants.R0")]⟩,
    ⟨"init_f_vpar", [("surface", .view "grid" [1, 1]), ("r", .coord 0 2), ("theta", .coordVals 1 0 4), ("z", .coord 2 1), ("vPar", .coordVals 3 0 7), ("m", .obj "constants.m"), ("n", .obj "constants.n"), ("eps", .obj "constants.eps"), ("CN0", .obj "constants.CN0"), ("kN0", .obj "constants.kN0"), ("deltaRN0", .obj "constants.deltaRN0"), ("rp", .obj "constants.rp"), ("Cti", .obj "constants.CTi"), ("kti", .obj "constants.kTi"), ("deltaRti", .obj "constants.deltaRTi"), ("deltaR", .obj "constants.deltaR"), ("R0", .obj "constants.R0")]⟩] := by decide
example : DensityFinder_getPerturbedRho (Ex.gridF [1, 0] 1) (Ex.gridRho [1, 0] 3) = some [
    ⟨"get_perturbed_rho", [("rho", .view "rho" []), ("feq", .sub1 (.obj "self._fEq") (.idxs [1, 2])), ("grid", .view "grid" []), ("quad_coeffs", .obj "self._quad_coeffs")]⟩] := by decide
example : DensityFinder_getRho (Ex.gridF [1, 0] 1) (Ex.gridRho [1, 0] 3) = some [
    ⟨"get_rho", [("rho", .view "rho" []), ("grid", .view "grid" []), ("quad_coeffs", .obj "self._quad_coeffs")]⟩] := by decide
example : DensityFinder_getPerturbedRho (Ex.gridF [1, 0] 1) (Ex.gridRho [1, 0] 4) = none := by decide
example : DiffEqSolver_solveEquation (Ex.gridPhi [1, 0] 4) (Ex.gridRho [1, 0] 4) = some [
    ⟨"self._solveMode", [("phi", .obj "phi"), ("rho", .obj "rho"), ("stiffnessMatrix", .sub2 (.bin "-" (.obj "self._stiffnessMatrix") (.bin "*" (.sub1 (.obj "self._mVals") (.idx 2)) (.obj "self._k2PhiPsi"))) (.sub1 (.obj "self._stiffness_range") (.idx 2)) (.sub1 (.obj "self._stiffness_range") (.idx 2))), ("i", .idx 0), ("I", .idx 2)]⟩,
    ⟨"self._solveMode", [("phi", .obj "phi"), ("rho", .obj "rho"), ("stiffnessMatrix", .sub2 (.bin "-" (.obj "self._stiffnessMatrix") (.bin "*" (.sub1 (.obj "self._mVals") (.idx 3)) (.obj "self._k2PhiPsi"))) (.sub1 (.obj "self._stiffness_range") (.idx 3)) (.sub1 (.obj "self._stiffness_range") (.idx 3))), ("i", .idx 1), ("I", .idx 3)]⟩] := by decide
example : QuasiNeutralitySolver_solveEquation (fun I => I == 2) (Ex.gridPhi [1, 0] 4) (Ex.gridRho [1, 0] 4) = some [
    ⟨"self._solveMode", [("phi", .obj "phi"), ("rho", .obj "rho"), ("stiffnessMatrix", .obj "self._stiffness0"), ("i", .idx 0), ("I", .idx 2)]⟩,
    ⟨"self._solveMode", [("phi", .obj "phi"), ("rho", .obj "rho"), ("stiffnessMatrix", .sub2 (.bin "-" (.obj "self._stiffnessMatrix") (.bin "*" (.sub1 (.obj "self._mVals") (.idx 3)) (.obj "self._k2PhiPsi"))) (.sub1 (.obj "self._stiffness_range") (.idx 3)) (.sub1 (.obj "self._stiffness_range") (.idx 3))), ("i", .idx 1), ("I", .idx 3)]⟩] := by decide
example : DiffEqSolver_solveEquation (Ex.gridPhi [1, 0] 4) (Ex.gridRho [1, 0] 3) = none := by decide
example : PoloidalAdvection_gridStep (Ex.gridF [1, 0] 2) (Ex.gridPhi [1, 0] 2) = some [
    ⟨"self._interpolator.compute_interpolant", [("arg0", .un "np.real" (.view "phi" [0])), ("arg1", .sub1 (.obj "self._phiSplines") (.idx 0))]⟩,
    ⟨"self._interpolator.compute_interpolant", [("arg0", .un "np.real" (.view "phi" [1])), ("arg1", .sub1 (.obj "self._phiSplines") (.idx 1))]⟩,
    ⟨"self.step", [("f", .view "grid" [0, 0]), ("dt", .obj "dt"), ("phi", .sub1 (.obj "self._phiSplines") (.idx 0)), ("v", .coord 3 3)]⟩,
    ⟨"self.step", [("f", .view "grid" [0, 1]), ("dt", .obj "dt"), ("phi", .sub1 (.obj "self._phiSplines") (.idx 1)), ("v", .coord 3 3)]⟩,
    ⟨"self.step", [("f", .view "grid" [1, 0]), ("dt", .obj "dt"), ("phi", .sub1 (.obj "self._phiSplines") (.idx 0)), ("v", .coord 3 4)]⟩,
    ⟨"self.step", [("f", .view "grid" [1, 1]), ("dt", .obj "dt"), ("phi", .sub1 (.obj "self._phiSplines") (.idx 1)), ("v", .coord 3 4)]⟩,
    ⟨"self.step", [("f", .view "grid" [2, 0]), ("dt", .obj "dt"), ("phi", .sub1 (.obj "self._phiSplines") (.idx 0)), ("v", .coord 3 5)]⟩,
    ⟨"self.step", [("f", .view "grid" [2, 1]), ("dt", .obj "dt"), ("phi", .sub1 (.obj "self._phiSplines") (.idx 1)), ("v", .coord 3 5)]⟩,
    ⟨"self.step", [("f", .view "grid" [3, 0]), ("dt", .obj "dt"), ("phi", .sub1 (.obj "self._phiSplines") (.idx 0)), ("v", .coord 3 6)]⟩,
    ⟨"self.step", [("f", .view "grid" [3, 1]), ("dt", .obj "dt"), ("phi", .sub1 (.obj "self._phiSplines") (.idx 1)), ("v", .coord 3 6)]⟩] := by decide
example : PoloidalAdvection_gridStep_SplinesUnchanged (Ex.gridF [1, 0] 2) = some [
    ⟨"self.step", [("f", .view "grid" [0, 0]), ("dt", .obj "dt"), ("phi", .sub1 (.obj "self._phiSplines") (.idx 0)), ("v", .coord 3 3)]⟩,
    ⟨"self.step", [("f", .view "grid" [0, 1]), ("dt", .obj "dt"), ("phi", .sub1 (.obj "self._phiSplines") (.idx 1)), ("v", .coord 3 3)]⟩,
    ⟨"self.step", [("f", .view "grid" [1, 0]), ("dt", .obj "dt"), ("phi", .sub1 (.obj "self._phiSplines") (.idx 0)), ("v", .coord 3 4)]⟩,
    ⟨"self.step", [("f", .view "grid" [1, 1]), ("dt", .obj "dt"), ("phi", .sub1 (.obj "self._phiSplines") (.idx 1)), ("v", .coord 3 4)]⟩,
    ⟨"self.step", [("f", .view "grid" [2, 0]), ("dt", .obj "dt"), ("phi", .sub1 (.obj "self._phiSplines") (.idx 0)), ("v", .coord 3 5)]⟩,
    ⟨"self.step", [("f", .view "grid" [2, 1]), ("dt", .obj "dt"), ("phi", .sub1 (.obj "self._phiSplines") (.idx 1)), ("v", .coord 3 5)]⟩,
    ⟨"self.step", [("f", .view "grid" [3, 0]), ("dt", .obj "dt"), ("phi", .sub1 (.obj "self._phiSplines") (.idx 0)), ("v", .coord 3 6)]⟩,
    ⟨"self.step", [("f", .view "grid" [3, 1]), ("dt", .obj "dt"), ("phi", .sub1 (.obj "self._phiSplines") (.idx 1)), ("v", .coord 3 6)]⟩] := by decide
example : initialise_poloidal (Ex.gridF [1, 0] 2) = some [
    ⟨"init_f_pol", [("surface", .view "grid" [0, 0]), ("rVec", .coordVals 0 0 3), ("theta", .coordVals 1 0 4), ("z", .coord 2 0), ("vPar", .coord 3 3), ("m", .obj "constants.m"), ("n", .obj "constants.n"), ("eps", .obj "constants.eps"), ("CN0", .obj "constants.CN0"), ("kN0", .obj "constants.kN0"), ("deltaRN0", .obj "constants.deltaRN0"), ("rp", .obj "constants.rp"), ("Cti", .obj "constants.CTi"), ("kti", .obj "constants.kTi"), ("deltaRti", .obj "constants.deltaRTi"), ("deltaR", .obj "constants.deltaR"), ("R0", .obj "constants.R0")]⟩,
    ⟨"init_f_pol", [("surface", .view "grid" [0, 1]), ("rVec", .coordVals 0 0 3), ("theta", .coordVals 1 0 4), ("z", .coord 2 1), ("vPar", .coord 3 3), ("m", .obj "constants.m"), ("n", .obj "constants.n"), ("eps", .obj "constants.eps"), ("CN0", .obj "constants.CN0"), ("kN0", .obj "constants.kN0"), ("deltaRN0", .obj "constants.deltaRN0"), ("rp", .obj "constants.rp"), ("Cti", .obj "constants.CTi"), ("kti", .obj "constants.kTi"), ("deltaRti", .obj "constants.deltaRTi"), ("deltaR", .obj "constants.deltaR"), ("R0", .obj "constants.R0")]⟩,
    ⟨"init_f_pol", [("surface", .view "grid" [1, 0]), ("rVec", .coordVals 0 0 3), ("theta", .coordVals 1 0 4), ("z", .coord 2 0), ("vPar", .coord 3 4), ("m", .obj "constants.m"), ("n", .obj "constants.n"), ("eps", .obj "constants.eps"), ("CN0", .obj "constants.CN0"), ("kN0", .obj "constants.kN0"), ("deltaRN0", .obj "constants.deltaRN0"), ("rp", .obj "constants.rp"), ("Cti", .obj "constants.CTi"), ("kti", .obj "constants.kTi"), ("deltaRti", .obj "constants.deltaRTi"), ("deltaR", .obj "constants.deltaR"), ("R0", .obj "constants.R0")]⟩,
    ⟨"init_f_pol", [("surface", .view "grid" [1, 1]), ("rVec", .coordVals 0 0 3), ("theta", .coordVals 1 0 4), ("z", .coord 2 1), ("vPar", .coord 3 4), ("m", .obj "constants.m"), ("n", .obj "constants.n"), ("eps", .obj "constants.eps"), ("CN0", .obj "constants.CN0"), ("kN0", .obj "constants.kN0"), ("deltaRN0", .obj "constants.deltaRN0"), ("rp", .obj "constants.rp"), ("Cti", .obj "constants.CTi"), ("kti", .obj "constants.kTi"), ("deltaRti", .obj "constants.deltaRTi"), ("deltaR", .obj "constants.deltaR"), ("R0", .obj "constants.R0")]⟩,
    ⟨"init_f_pol", [("surface", .view "grid" [2, 0]), ("rVec", .coordVals 0 0 3), ("theta", .coordVals 1 0 4), ("z", .coord 2 0), ("vPar", .coord 3 5), ("m", .obj "constants.m"), ("n", .obj "constants.n"), ("eps", .obj "constants.eps"), ("CN0", .obj "constants.CN0"), ("kN0", .obj "constants.kN0"), ("deltaRN0", .obj "constants.deltaRN0"), ("rp", .obj "constants.rp"), ("Cti", .obj "constants.CTi"), ("kti", .obj "constants.kTi"), ("deltaRti", .obj "constants.deltaRTi"), ("deltaR", .obj "constants.deltaR"), ("R0", .obj "constants.R0")]⟩,
    ⟨"init_f_pol", [("surface", .view "grid" [2, 1]), ("rVec", .coordVals 0 0 3), ("theta", .coordVals 1 0 4), ("z", .coord 2 1), ("vPar", .coord 3 5), ("m", .obj "constants.m"), ("n", .obj "constants.n"), ("eps", .obj "constants.eps"), ("CN0", .obj "constants.CN0"), ("kN0", .obj "constants.kN0"), ("deltaRN0", .obj "constants.deltaRN0"), ("rp", .obj "constants.rp"), ("Cti", .obj "constants.CTi"), ("kti", .obj "constants.kTi"), ("deltaRti", .obj "constants.deltaRTi"), ("deltaR", .obj "constants.deltaR"), ("R0", .obj "constants.R0")]⟩,
    ⟨"init_f_pol", [("surface", .view "grid" [3, 0]), ("rVec", .coordVals 0 0 3), ("theta", .coordVals 1 0 4), ("z", .coord 2 0), ("vPar", .coord 3 6), ("m", .obj "constants.m"), ("n", .obj "constants.n"), ("eps", .obj "constants.eps"), ("CN0", .obj "constants.CN0"), ("kN0", .obj "constants.kN0"), ("deltaRN0", .obj "constants.deltaRN0"), ("rp", .obj "constants.rp"), ("Cti", .obj "constants.CTi"), ("kti", .obj "constants.kTi"), ("deltaRti", .obj "constants.deltaRTi"), ("deltaR", .obj "constants.deltaR"), ("R0", .obj "constants.R0")]⟩,
    ⟨"init_f_pol", [("surface", .view "grid" [3, 1]), ("rVec", .coordVals 0 0 3), ("theta", .coordVals 1 0 4), ("z", .coord 2 1), ("vPar", .coord 3 6), ("m", .obj "constants.m"), ("n", .obj "constants.n"), ("eps", .obj "constants.eps"), ("CN0", .obj "constants.CN0"), ("kN0", .obj "constants.kN0"), ("deltaRN0", .obj "constants.deltaRN0"), ("rp", .obj "constants.rp"), ("Cti", .obj "constants.CTi"), ("kti", .obj "constants.kTi"), ("deltaRti", .obj "constants.deltaRTi"), ("deltaR", .obj "constants.deltaR"), ("R0", .obj "constants.R0")]⟩] := by decide
example : PoloidalAdvection_gridStep_SplinesUnchanged (Ex.gridF [1, 0] 1) = none := by decide
example : PoloidalAdvection_gridStep (Ex.gridF [1, 0] 2) (Ex.gridPhi [1, 0] 5) = some [
    ⟨"self._interpolator.compute_interpolant", [("arg0", .un "np.real" (.view "phi" [0])), ("arg1", .sub1 (.obj "self._phiSplines") (.idx 0))]⟩,
    ⟨"self._interpolator.compute_interpolant", [("arg0", .un "np.real" (.view "phi" [1])), ("arg1", .sub1 (.obj "self._phiSplines") (.idx 1))]⟩,
    ⟨"self.step", [("f", .view "grid" [0, 0]), ("dt", .obj "dt"), ("phi", .sub1 (.obj "self._phiSplines") (.idx 0)), ("v", .coord 3 3)]⟩,
    ⟨"self.step", [("f", .view "grid" [0, 1]), ("dt", .obj "dt"), ("phi", .sub1 (.obj "self._phiSplines") (.idx 1)), ("v", .coord 3 3)]⟩,
    ⟨"self.step", [("f", .view "grid" [1, 0]), ("dt", .obj "dt"), ("phi", .sub1 (.obj "self._phiSplines") (.idx 0)), ("v", .coord 3 4)]⟩,
    ⟨"self.step", [("f", .view "grid" [1, 1]), ("dt", .obj "dt"), ("phi", .sub1 (.obj "self._phiSplines") (.idx 1)), ("v", .coord 3 4)]⟩,
    ⟨"self.step", [("f", .view "grid" [2, 0]), ("dt", .obj "dt"), ("phi", .sub1 (.obj "self._phiSplines") (.idx 0)), ("v", .coord 3 5)]⟩,
    ⟨"self.step", [("f", .view "grid" [2, 1]), ("dt", .obj "dt"), ("phi", .sub1 (.obj "self._phiSplines") (.idx 1)), ("v", .coord 3 5)]⟩,
    ⟨"self.step", [("f", .view "grid" [3, 0]), ("dt", .obj "dt"), ("phi", .sub1 (.obj "self._phiSplines") (.idx 0)), ("v", .coord 3 6)]⟩,
    ⟨"self.step", [("f", .view "grid" [3, 1]), ("dt", .obj "dt"), ("phi", .sub1 (.obj "self._phiSplines") (.idx 1)), ("v", .coord 3 6)]⟩] := by decide

/-! process [1, 1] -/
example : FluxSurfaceAdvection_gridStep (Ex.gridF [1, 1] 0) = some [
    ⟨"self.step", [("f", .view "grid" [0, 0]), ("cIdx", .idx 0), ("rIdx", .idx 0)]⟩,
    ⟨"self.step", [("f", .view "grid" [0, 1]), ("cIdx", .idx 1), ("rIdx", .idx 0)]⟩,
    ⟨"self.step", [("f", .view "grid" [0, 2]), ("cIdx", .idx 2), ("rIdx", .idx 0)]⟩,
    ⟨"self.step", [("f", .view "grid" [0, 3]), ("cIdx", .idx 3), ("rIdx", .idx 0)]⟩,
    ⟨"self.step", [("f", .view "grid" [1, 0]), ("cIdx", .idx 0), ("rIdx", .idx 1)]⟩,
    ⟨"self.step", [("f", .view "grid" [1, 1]), ("cIdx", .idx 1), ("rIdx", .idx 1)]⟩,
    ⟨"self.step", [("f", .view "grid" [1, 2]), ("cIdx", .idx 2), ("rIdx", .idx 1)]⟩,
    ⟨"self.step", [("f", .view "grid" [1, 3]), ("cIdx", .idx 3), ("rIdx", .idx 1)]⟩] := by decide
example : initialise_flux_surface (Ex.gridF [1, 1] 0) = some [
    ⟨"init_f_flux", [("surface", .view "grid" [0, 0]), ("r", .coord 0 1), ("theta", .coordVals 1 0 4), ("zVec", .coordVals 2 0 5), ("vPar", .coord 3 3), ("m", .obj "constants.m"), ("n", .obj "constants.n"), ("eps", .obj "constants.eps"), ("CN0", .obj "constants.CN0"), ("kN0", .obj "constants.kN0"), ("deltaRN0", .obj "constants.deltaRN0"), ("rp", .obj "constants.rp"), ("Cti", .obj "constants.CTi"), ("kti", .obj "constants.kTi"), ("deltaRti", .obj "constants.deltaRTi"), ("deltaR", .obj "constants.deltaR"), ("R0", .obj "constants.R0")]⟩,
    ⟨"init_f_flux", [("surface", .view "grid" [0, 1]), ("r", .coord 0 1), ("theta", .coordVals 1 0 4), ("zVec", .coordVals 2 0 5), ("vPar", .coord 3 4), ("m", .obj "constants.m"), ("n", .obj "constants.n"), ("eps", .obj "constants.eps"), ("CN0", .obj "constants.CN0"), ("kN0", .obj "constants.kN0"), ("deltaRN0", .obj "constants.deltaRN0"), ("rp", .obj "constants.rp"), ("Cti", .obj "constants.CTi"), ("kti", .obj "constants.kTi"), ("deltaRti", .obj "constants.deltaRTi"), ("deltaR", .obj "constants.deltaR"), ("R0", .obj "constants.R0")]⟩,
    ⟨"init_f_flux", [("surface", .view "grid" [0, 2]), ("r", .coord 0 1), ("theta", .coordVals 1 0 4), ("zVec", .coordVals 2 0 5), ("vPar", .coord 3 5), ("m", .obj "constants.m"), ("n", .obj "constants.n"), ("eps", .obj "constants.eps"), ("CN0", .obj "constants.CN0"), ("kN0", .obj "constants.kN0"), ("deltaRN0", .obj "constants.deltaRN0"), ("rp", .obj "constants.rp"), ("Cti", .obj "constants.CTi"), ("kti", .obj "constants.kTi"), ("deltaRti", .obj "constants.deltaRTi"), ("deltaR", .obj "constants.deltaR"), ("R0", .obj "constants.R0")]⟩,
    ⟨"init_f_flux", [("surface", .view "grid" [0, 3]), ("r", .coord 0 1), ("theta", .coordVals 1 0 4), ("zVec", .coordVals 2 0 5), ("vPar", .coord 3 6), ("m", .obj "constants.m"), ("n", .obj "constants.n"), ("eps", .obj "constants.eps"), ("CN0", .obj "constants.CN0"), ("kN0", .obj "constants.kN0"), ("deltaRN0", .obj "constants.deltaRN0"), ("rp", .obj "constants.rp"), ("Cti", .obj "constants.CTi"), ("kti", .obj "constants.kTi"), ("deltaRti", .obj "constants.deltaRTi"), ("deltaR", .obj "constants.deltaR"), ("R0", .obj "constants.R0")]⟩,
    ⟨"init_f_flux", [("surface", .view "grid" [1, 0]), ("r", .coord 0 2), ("theta", .coordVals 1 0 4), ("zVec", .coordVals 2 0 5), ("vPar", .coord 3 3), ("m", .obj "constants.m"), ("n", .obj "constants.n"), ("eps", .obj "constants.eps"), ("CN0", .obj "constants.CN0"), ("kN0", .obj "constants.kN0"), ("deltaRN0", .obj "constants.deltaRN0"), ("rp", .obj "constants.rp"), ("Cti", .obj "constants.CTi"), ("kti", .obj "constants.kTi"), ("deltaRti", .obj "constants.deltaRTi"), ("deltaR", .obj "constants.deltaR"), ("R0", .obj "constants.R0")]⟩,
    ⟨"init_f_flux", [("surface", .view "grid" [1, 1]), ("r", .coord 0 2), ("theta", .coordVals 1 0 4), ("zVec", .coordVals 2 0 5), ("vPar", .coord 3 4), ("m", .obj "constants.m"), ("n", .obj "constants.n"), ("eps", .obj "constants.eps"), ("CN0", .obj "constants.CN0"), ("kN0", .obj "constants.kN0"), ("deltaRN0", .obj "constants.deltaRN0"), ("rp", .obj "constants.rp"), ("Cti", .obj "constants.CTi"), ("kti", .obj "constants.kTi"), ("deltaRti", .obj "constants.deltaRTi"), ("deltaR", .obj "constants.deltaR"), ("R0", .obj "constants.R0")]⟩,
    ⟨"init_f_flux", [("surface", .view "grid" [1, 2]), ("r", .coord 0 2), ("theta", .coordVals 1 0 4), ("zVec", .coordVals 2 0 5), ("vPar", .coord 3 5), ("m", .obj "constants.m"), ("n", .obj "constants.n"), ("eps", .obj "constants.eps"), ("CN0", .obj "constants.CN0"), ("kN0", .obj "constants.kN0"), ("deltaRN0", .obj "constants.deltaRN0"), ("rp", .obj "constants.rp"), ("Cti", .obj "constants.CTi"), ("kti", .obj "constants.kTi"), ("deltaRti", .obj "constants.deltaRTi"), ("deltaR", .obj "constants.deltaR"), ("R0", .obj "constants.R0")]⟩,
    ⟨"init_f_flux", [("surface", .view "grid" [1, 3]), ("r", .coord 0 2), ("theta", .coordVals 1 0 4), ("zVec", .coordVals 2 0 5), ("vPar", .coord 3 6), ("m", .obj "constants.m"), ("n", .obj "constants.n"), ("eps", .obj "constants.eps"), ("CN0", .obj "constants.CN0"), ("kN0", .obj "constants.kN0"), ("deltaRN0", .obj "constants.deltaRN0"), ("rp", .obj "constants.rp"), ("Cti", .obj "constants.CTi"), ("kti", .obj "constants.kTi"), ("deltaRti", .obj "constants.deltaRTi"), ("deltaR", .obj "constants.deltaR"), ("R0", .obj "constants.R0")]⟩] := by decide
example : FluxSurfaceAdvection_gridStep (Ex.gridF [1, 1] 1) = none := by decide
example : VParallelAdvection_gridStep (Ex.gridF [1, 1] 1) (Ex.gridPhi [1, 1] 5) = some [
    ⟨"parGrad.parallel_gradient", [("phi_r", .un "np.real" (.view "phi" [0])), ("i", .idx 0), ("der", .sub1 (.obj "parGradVals") (.idx 0))]⟩,
    ⟨"self.step", [("f", .view "grid" [0, 0, 0]), ("dt", .obj "dt"), ("c", .sub3 (.obj "parGradVals") (.idx 0) (.idx 2) (.idx 0)), ("r", .coord 0 1)]⟩,
    ⟨"self.step", [("f", .view "grid" [0, 0, 1]), ("dt", .obj "dt"), ("c", .sub3 (.obj "parGradVals") (.idx 0) (.idx 2) (.idx 1)), ("r", .coord 0 1)]⟩,
    ⟨"self.step", [("f", .view "grid" [0, 0, 2]), ("dt", .obj "dt"), ("c", .sub3 (.obj "parGradVals") (.idx 0) (.idx 2) (.idx 2)), ("r", .coord 0 1)]⟩,
    ⟨"self.step", [("f", .view "grid" [0, 0, 3]), ("dt", .obj "dt"), ("c", .sub3 (.obj "parGradVals") (.idx 0) (.idx 2) (.idx 3)), ("r", .coord 0 1)]⟩,
    ⟨"self.step", [("f", .view "grid" [0, 1, 0]), ("dt", .obj "dt"), ("c", .sub3 (.obj "parGradVals") (.idx 0) (.idx 3) (.idx 0)), ("r", .coord 0 1)]⟩,
    ⟨"self.step", [("f", .view "grid" [0, 1, 1]), ("dt", .obj "dt"), ("c", .sub3 (.obj "parGradVals") (.idx 0) (.idx 3) (.idx 1)), ("r", .coord 0 1)]⟩,
    ⟨"self.step", [("f", .view "grid" [0, 1, 2]), ("dt", .obj "dt"), ("c", .sub3 (.obj "parGradVals") (.idx 0) (.idx 3) (.idx 2)), ("r", .coord 0 1)]⟩,
    ⟨"self.step", [("f", .view "grid" [0, 1, 3]), ("dt", .obj "dt"), ("c", .sub3 (.obj "parGradVals") (.idx 0) (.idx 3) (.idx 3)), ("r", .coord 0 1)]⟩,
    ⟨"self.step", [("f", .view "grid" [0, 2, 0]), ("dt", .obj "dt"), ("c", .sub3 (.obj "parGradVals") (.idx 0) (.idx 4) (.idx 0)), ("r", .coord 0 1)]⟩,
    ⟨"self.step", [("f", .view "grid" [0, 2, 1]), ("dt", .obj "dt"), ("c", .sub3 (.obj "parGradVals") (.idx 0) (.idx 4) (.idx 1)), ("r", .coord 0 1)]⟩,
    ⟨"self.step", [("f", .view "grid" [0, 2, 2]), ("dt", .obj "dt"), ("c", .sub3 (.obj "parGradVals") (.idx 0) (.idx 4) (.idx 2)), ("r", .coord 0 1)]⟩,
    ⟨"self.step", [("f", .view "grid" [0, 2, 3]), ("dt", .obj "dt"), ("c", .sub3 (.obj "parGradVals") (.idx 0) (.idx 4) (.idx 3)), ("r", .coord 0 1)]⟩,
    ⟨"parGrad.parallel_gradient", [("phi_r", .un "np.real" (.view "phi" [1])), ("i", .idx 1), ("der", .sub1 (.obj "parGradVals") (.idx 1))]⟩,
    ⟨"self.step", [("f", .view "grid" [1, 0, 0]), ("dt", .obj "dt"), ("c", .sub3 (.obj "parGradVals") (.idx 1) (.idx 2) (.idx 0)), ("r", .coord 0 2)]⟩,
    ⟨"self.step", [("f", .view "grid" [1, 0, 1]), ("dt", .obj "dt"), ("c", .sub3 (.obj "parGradVals") (.idx 1) (.idx 2) (.idx 1)), ("r", .coord 0 2)]⟩,
    ⟨"self.step", [("f", .view "grid" [1, 0, 2]), ("dt", .obj "dt"), ("c", .sub3 (.obj "parGradVals") (.idx 1) (.idx 2) (.idx 2)), ("r", .coord 0 2)]⟩,
    ⟨"self.step", [("f", .view "grid" [1, 0, 3]), ("dt", .obj "dt"), ("c", .sub3 (.obj "parGradVals") (.idx 1) (.idx 2) (.idx 3)), ("r", .coord 0 2)]⟩,
    ⟨"self.step", [("f", .view "grid" [1, 1, 0]), ("dt", .obj "dt"), ("c", .sub3 (.obj "parGradVals") (.idx 1) (.idx 3) (.idx 0)), ("r", .coord 0 2)]⟩,
    ⟨"self.step", [("f", .view "grid" [1, 1, 1]), ("dt", .obj "dt"), ("c", .sub3 (.obj "parGradVals") (.idx 1) (.idx 3) (.idx 1)), ("r", .coord 0 2)]⟩,
    ⟨"self.step", [("f", .view "grid" [1, 1, 2]), ("dt", .obj "dt"), ("c", .sub3 (.obj "parGradVals") (.idx 1) (.idx 3) (.idx 2)), ("r", .coord 0 2)]⟩,
    ⟨"self.step", [("f", .view "grid" [1, 1, 3]), ("dt", .obj "dt"), ("c", .sub3 (.obj "parGradVals") (.idx 1) (.idx 3) (.idx 3)), ("r", .coord 0 2)]⟩,
    ⟨"self.step", [("f", .view "grid" [1, 2, 0]), ("dt", .obj "dt"), ("c", .sub3 (.obj "parGradVals") (.idx 1) (.idx 4) (.idx 0)), ("r", .coord 0 2)]⟩,
    ⟨"self.step", [("f", .view "grid" [1, 2, 1]), ("dt", .obj "dt"), ("c", .sub3 (.obj "parGradVals") (.idx 1) (.idx 4) (.idx 1)), ("r", .coord 0 2)]⟩,
    ⟨"self.step", [("f", .view "grid" [1, 2, 2]), ("dt", .obj "dt"), ("c", .sub3 (.obj "parGradVals") (.idx 1) (.idx 4) (.idx 2)), ("r", .coord 0 2)]⟩,
    ⟨"self.step", [("f", .view "grid" [1, 2, 3]), ("dt", .obj "dt"), ("c", .sub3 (.obj "parGradVals") (.idx 1) (.idx 4) (.idx 3)), ("r", .coord 0 2)]⟩] := by decide
example : VParallelAdvection_gridStepKeepGradient (Ex.gridF [1, 1] 1) = some [
    ⟨"self.step", [("f", .view "grid" [0, 0, 0]), ("dt", .obj "dt"), ("c", .sub3 (.obj "parGradVals") (.idx 0) (.idx 2) (.idx 0)), ("r", .coord 0 1)]⟩,
    ⟨"self.step", [("f", .view "grid" [0, 0, 1]), ("dt", .obj "dt"), ("c", .sub3 (.obj "parGradVals") (.idx 0) (.idx 2) (.idx 1)), ("r", .coord 0 1)]⟩,
    ⟨"self.step", [("f", .view "grid" [0, 0, 2]), ("dt", .obj "dt"), ("c", .sub3 (.obj "parGradVals") (.idx 0) (.idx 2) (.idx 2)), ("r", .coord 0 1)]⟩,
    ⟨"self.step", [("f", .view "grid" [0, 0, 3]), ("dt", .obj "dt"), ("c", .sub3 (.obj "parGradVals") (.idx 0) (.idx 2) (.idx 3)), ("r", .coord 0 1)]⟩,
    ⟨"self.step", [("f", .view "grid" [0, 1, 0]), ("dt", .obj "dt"), ("c", .sub3 (.obj "parGradVals") (.idx 0) (.idx 3) (.idx 0)), ("r", .coord 0 1)]⟩,
    ⟨"self.step", [("f", .view "grid" [0, 1, 1]), ("dt", .obj "dt"), ("c", .sub3 (.obj "parGradVals") (.idx 0) (.idx 3) (.idx 1)), ("r", .coord 0 1)]⟩,
    ⟨"self.step", [("f", .view "grid" [0, 1, 2]), ("dt", .obj "dt"), ("c", .sub3 (.obj "parGradVals") (.idx 0) (.idx 3) (.idx 2)), ("r", .coord 0 1)]⟩,
    ⟨"self.step", [("f", .view "grid" [0, 1, 3]), ("dt", .obj "dt"), ("c", .sub3 (.obj "parGradVals") (.idx 0) (.idx 3) (.idx 3)), ("r", .coord 0 1)]⟩,
    ⟨"self.step", [("f", .view "grid" [0, 2, 0]), ("dt", .obj "dt"), ("c", .sub3 (.obj "parGradVals") (.idx 0) (.idx 4) (.idx 0)), ("r", .coord 0 1)]⟩,
    ⟨"self.step", [("f", .view "grid" [0, 2, 1]), ("dt", .obj "dt"), ("c", .sub3 (.obj "parGradVals") (.idx 0) (.idx 4) (.idx 1)), ("r", .coord 0 1)]⟩,
    ⟨"self.step", [("f", .view "grid" [0, 2, 2]), ("dt", .obj "dt"), ("c", .sub3 (.obj "parGradVals") (.idx 0) (.idx 4) (.idx 2)), ("r", .coord 0 1)]⟩,
    ⟨"self.step", [("f", .view "grid" [0, 2, 3]), ("dt", .obj "dt"), ("c", .sub3 (.obj "parGradVals") (.idx 0) (.idx 4) (.idx 3)), ("r", .coord 0 1)]⟩,
    ⟨"self.step", [("f", .view "grid" [1, 0, 0]), ("dt", .obj "dt"), ("c", .sub3 (.obj "parGradVals") (.idx 1) (.idx 2) (.idx 0)), ("r", .coord 0 2)]⟩,
    ⟨"self.step", [("f", .view "grid" [1, 0, 1]), ("dt", .obj "dt"), ("c", .sub3 (.obj "parGradVals") (.idx 1) (.idx 2) (.idx 1)), ("r", .coord 0 2)]⟩,
    ⟨"self.step", [("f", .view "grid" [1, 0, 2]), ("dt", .obj "dt"), ("c", .sub3 (.obj "parGradVals") (.idx 1) (.idx 2) (.idx 2)), ("r", .coord 0 2)]⟩,
    ⟨"self.step", [("f", .view "grid" [1, 0, 3]), ("dt", .obj "dt"), ("c", .sub3 (.obj "parGradVals") (.idx 1) (.idx 2) (.idx 3)), ("r", .coord 0 2)]⟩,
    ⟨"self.step", [("f", .view "grid" [1, 1, 0]), ("dt", .obj "dt"), ("c", .sub3 (.obj "parGradVals") (.idx 1) (.idx 3) (.idx 0)), ("r", .coord 0 2)]⟩,
    ⟨"self.step", [("f", .view "grid" [1, 1, 1]), ("dt", .obj "dt"), ("c", .sub3 (.obj "parGradVals") (.idx 1) (.idx 3) (.idx 1)), ("r", .coord 0 2)]⟩,
    ⟨"self.step", [("f", .view "grid" [1, 1, 2]), ("dt", .obj "dt"), ("c", .sub3 (.obj "parGradVals") (.idx 1) (.idx 3) (.idx 2)), ("r", .coord 0 2)]⟩,
    ⟨"self.step", [("f", .view "grid" [1, 1, 3]), ("dt", .obj "dt"), ("c", .sub3 (.obj "parGradVals") (.idx 1) (.idx 3) (.idx 3)), ("r", .coord 0 2)]⟩,
    ⟨"self.step", [("f", .view "grid" [1, 2, 0]), ("dt", .obj "dt"), ("c", .sub3 (.obj "parGradVals") (.idx 1) (.idx 4) (.idx 0)), ("r", .coord 0 2)]⟩,
    ⟨"self.step", [("f", .view "grid" [1, 2, 1]), ("dt", .obj "dt"), ("c", .sub3 (.obj "parGradVals") (.idx 1) (.idx 4) (.idx 1)), ("r", .coord 0 2)]⟩,
    ⟨"self.step", [("f", .view "grid" [1, 2, 2]), ("dt", .obj "dt"), ("c", .sub3 (.obj "parGradVals") (.idx 1) (.idx 4) (.idx 2)), ("r", .coord 0 2)]⟩,
    ⟨"self.step", [("f", .view "grid" [1, 2, 3]), ("dt", .obj "dt"), ("c", .sub3 (.obj "parGradVals") (.idx 1) (.idx 4) (.idx 3)), ("r", .coord 0 2)]⟩] := by decide
example : initialise_v_parallel (Ex.gridF [1, 1] 1) = some [
    ⟨"init_f_vpar", [("surface", .view "grid" [0, 0]), ("r", .coord 0 1), ("theta", .coordVals 1 0 4), ("z", .coord 2 2), ("vPar", .coordVals 3 0 7), ("m", .obj "constants.m"), ("n", .obj "constants.n"), ("eps", .obj "constants.eps"), ("CN0", .obj "constants.CN0"), ("kN0", .obj "constants.kN0"), ("deltaRN0", .obj "constants.deltaRN0"), ("rp", .obj "constants.rp"), ("Cti", .obj "constants.CTi"), ("kti", .obj "constants.kTi"), ("deltaRti", .obj "constants.deltaRTi"), ("deltaR", .obj "constants.deltaR"), ("R0", .obj "constants.R0")]⟩,
    ⟨"init_f_vpar", [("surface", .view "grid" [0, 1]), ("r", .coord 0 1), ("theta", .coordVals 1 0 4), ("z", .coord 2 3), ("vPar", .coordVals 3 0 7), ("m", .obj "constants.m"), ("n", .obj "constants.n"), ("eps", .obj "constants.eps"), ("CN0", .obj "constants.CN0"), ("kN0", .obj "constants.kN0"), ("deltaRN0", .obj "constants.deltaRN0"), ("rp", .obj "constants.rp"), ("Cti", .obj "constants.CTi"), ("kti", .obj "constants.kTi"), ("deltaRti", .obj "constants.deltaRTi"), ("deltaR", .obj "constants.deltaR"), ("R0", .obj "constants.R0")]⟩,
    ⟨"init_f_vpar", [("surface", .view "grid" [0, 2]), ("r", .coord 0 1), ("theta", .coordVals 1 0 4), ("z", .coord 2 4), ("vPar", .coordVals 3 0 7), ("m", .obj "constants.m"), ("n", .obj "constants.n"), ("eps", .obj "constants.eps"), ("CN0", .obj "constants.CN0"), ("kN0", .obj "constants.kN0"), ("deltaRN0", .obj "constants.deltaRN0"), ("rp", .obj "constants.rp"), ("Cti", .obj "constants.CTi"), ("kti", .obj "constants.kTi"), ("deltaRti", .obj "constants.deltaRTi"), ("deltaR", .obj "constants.deltaR"), ("R0", .obj "constants.R0")]⟩,
    ⟨"init_f_vpar", [("surface", .view "grid" [1, 0]), ("r", .coord 0 2), ("theta", .coordVals 1 0 4), ("z", .coord 2 2), ("vPar", .coordVals 3 0 7), ("m", .obj "constants.m"), ("n", .obj "constants.n"), ("eps", .obj "constants.eps"), ("CN0", .obj "constants.CN0"), ("kN0", .obj "constants.kN0"), ("deltaRN0", .obj "constants.deltaRN0"), ("rp", .obj "constants.rp"), ("Cti", .obj "constants.CTi"), ("kti", .obj "constants.kTi"), ("deltaRti", .obj "constants.deltaRTi"), ("deltaR", .obj "constants.deltaR"), ("R0", .obj "constants.R0")]⟩,
    ⟨"init_f_vpar", [("surface", .view "grid" [1, 1]), ("r", .coord 0 2), ("theta", .coordVals 1 0 4), ("z", .coord 2 3), ("vPar", .coordVals 3 0 7), ("m", .obj "constants.m"), ("n", .obj "constants.n"), ("eps", .obj "constants.eps"), ("CN0", .obj "constants.CN0"), ("kN0", .obj "constants.kN0"), ("deltaRN0", .obj "constants.deltaRN0"), ("rp", .obj "constants.rp"), ("Cti", .obj "constants.CTi"), ("kti", .obj "constants.kTi"), ("deltaRti", .obj "constants.deltaRTi"), ("deltaR", .obj "constants.deltaR"), ("R0", .obj "constants.R0")]⟩,
    ⟨"init_f_vpar", [("surface", .view "grid" [1, 2]), ("r", .coord 0 2), ("theta", .coordVals 1 0 4), ("z", .coord 2 4), ("vPar", .coordVals 3 0 7), ("m", .obj "constants.m"), ("n", .obj "constants.n"), ("eps", .obj "constants.eps"), ("CN0", .obj "constants.CN0"), ("kN0", .obj "constants.kN0"), ("deltaRN0", .obj "constants.deltaRN0"), ("rp", .obj "constants.rp"), ("Cti", .obj "constants.CTi"), ("kti", .obj "constants.kTi"), ("deltaRti", .obj "constants.deltaRTi"), ("deltaR", .obj "constants.deltaR"), ("R0", .obj "constants.R0")]⟩] := by decide
example : DensityFinder_getPerturbedRho (Ex.gridF [1, 1] 1) (Ex.gridRho [1, 1] 3) = some [
    ⟨"get_perturbed_rho", [("rho", .view "rho" []), ("feq", .sub1 (.obj "self._fEq") (.idxs [1, 2])), ("grid", .view "grid" []), ("quad_coeffs", .obj "self._quad_coeffs")]⟩] := by decide
example : DensityFinder_getRho (Ex.gridF [1, 1] 1) (Ex.gridRho [1, 1] 3) = some [
    ⟨"get_rho", [("rho", .view "rho" []), ("grid", .view "grid" []), ("quad_coeffs", .obj "self._quad_coeffs")]⟩] := by decide
example : DensityFinder_getPerturbedRho (Ex.gridF [1, 1] 1) (Ex.gridRho [1, 1] 4) = none := by decide
example : DiffEqSolver_solveEquation (Ex.gridPhi [1, 1] 4) (Ex.gridRho [1, 1] 4) = some [
    ⟨"self._solveMode", [("phi", .obj "phi"), ("rho", .obj "rho"), ("stiffnessMatrix", .sub2 (.bin "-" (.obj "self._stiffnessMatrix") (.bin "*" (.sub1 (.obj "self._mVals") (.idx 2)) (.obj "self._k2PhiPsi"))) (.sub1 (.obj "self._stiffness_range") (.idx 2)) (.sub1 (.obj "self._stiffness_range") (.idx 2))), ("i", .idx 0), ("I", .idx 2)]⟩,
    ⟨"self._solveMode", [("phi", .obj "phi"), ("rho", .obj "rho"), ("stiffnessMatrix", .sub2 (.bin "-" (.obj "self._stiffnessMatrix") (.bin "*" (.sub1 (.obj "self._mVals") (.idx 3)) (.obj "self._k2PhiPsi"))) (.sub1 (.obj "self._stiffness_range") (.idx 3)) (.sub1 (.obj "self._stiffness_range") (.idx 3))), ("i", .idx 1), ("I", .idx 3)]⟩] := by decide
example : QuasiNeutralitySolver_solveEquation (fun I => I == 2) (Ex.gridPhi [1, 1] 4) (Ex.gridRho [1, 1] 4) = some [
    ⟨"self._solveMode", [("phi", .obj "phi"), ("rho", .obj "rho"), ("stiffnessMatrix", .obj "self._stiffness0"), ("i", .idx 0), ("I", .idx 2)]⟩,
    ⟨"self._solveMode", [("phi", .obj "phi"), ("rho", .obj "rho"), ("stiffnessMatrix", .sub2 (.bin "-" (.obj "self._stiffnessMatrix") (.bin "*" (.sub1 (.obj "self._mVals") (.idx 3)) (.obj "self._k2PhiPsi"))) (.sub1 (.obj "self._stiffness_range") (.idx 3)) (.sub1 (.obj "self._stiffness_range") (.idx 3))), ("i", .idx 1), ("I", .idx 3)]⟩] := by decide
example : DiffEqSolver_solveEquation (Ex.gridPhi [1, 1] 4) (Ex.gridRho [1, 1] 3) = none := by decide
example : PoloidalAdvection_gridStep (Ex.gridF [1, 1] 2) (Ex.gridPhi [1, 1] 2) = some [
    ⟨"self._interpolator.compute_interpolant", [("arg0", .un "np.real" (.view "phi" [0])), ("arg1", .sub1 (.obj "self._phiSplines") (.idx 0))]⟩,
    ⟨"self._interpolator.compute_interpolant", [("arg0", .un "np.real" (.view "phi" [1])), ("arg1", .sub1 (.obj "self._phiSplines") (.idx 1))]⟩,
    ⟨"self._interpolator.compute_interpolant", [("arg0", .un "np.real" (.view "phi" [2])), ("arg1", .sub1 (.obj "self._phiSplines") (.idx 2))]⟩,
    ⟨"self.step", [("f", .view "grid" [0, 0]), ("dt", .obj "dt"), ("phi", .sub1 (.obj "self._phiSplines") (.idx 0)), ("v", .coord 3 3)]⟩,
    ⟨"self.step", [("f", .view "grid" [0, 1]), ("dt", .obj "dt"), ("phi", .sub1 (.obj "self._phiSplines") (.idx 1)), ("v", .coord 3 3)]⟩,
    ⟨"self.step", [("f", .view "grid" [0, 2]), ("dt", .obj "dt"), ("phi", .sub1 (.obj "self._phiSplines") (.idx 2)), ("v", .coord 3 3)]⟩,
    ⟨"self.step", [("f", .view "grid" [1, 0]), ("dt", .obj "dt"), ("phi", .sub1 (.obj "self._phiSplines") (.idx 0)), ("v", .coord 3 4)]⟩,
    ⟨"self.step", [("f", .view "grid" [1, 1]), ("dt", .obj "dt"), ("phi", .sub1 (.obj "self._phiSplines") (.idx 1)), ("v", .coord 3 4)]⟩,
    ⟨"self.step", [("f", .view "grid" [1, 2]), ("dt", .obj "dt"), ("phi", .sub1 (.obj "self._phiSplines") (.idx 2)), ("v", .coord 3 4)]⟩,
    ⟨"self.step", [("f", .view "grid" [2, 0]), ("dt", .obj "dt"), ("phi", .sub1 (.obj "self._phiSplines") (.idx 0)), ("v", .coord 3 5)]⟩,
    ⟨"self.step", [("f", .view "grid" [2, 1]), ("dt", .obj "dt"), ("phi", .sub1 (.obj "self._phiSplines") (.idx 1)), ("v", .coord 3 5)]⟩,
    ⟨"self.step", [("f", .view "grid" [2, 2]), ("dt", .obj "dt"), ("phi", .sub1 (.obj "self._phiSplines") (.idx 2)), ("v", .coord 3 5)]⟩,
    ⟨"self.step", [("f", .view "grid" [3, 0]), ("dt", .obj "dt"), ("phi", .sub1 (.obj "self._phiSplines") (.idx 0)), ("v", .coord 3 6)]⟩,
    ⟨"self.step", [("f", .view "grid" [3, 1]), ("dt", .obj "dt"), ("phi", .sub1 (.obj "self._phiSplines") (.idx 1)), ("v", .coord 3 6)]⟩,
    ⟨"self.step", [("f", .view "grid" [3, 2]), ("dt", .obj "dt"), ("phi", .sub1 (.obj "self._phiSplines") (.idx 2)), ("v", .coord 3 6)]⟩] := by decide
example : PoloidalAdvection_gridStep_SplinesUnchanged (Ex.gridF [1, 1] 2) = some [
    ⟨"self.step", [("f", .view "grid" [0, 0]), ("dt", .obj "dt"), ("phi", .sub1 (.obj "self._phiSplines") (.idx 0)), ("v", .coord 3 3)]⟩,
    ⟨"self.step", [("f", .view "grid" [0, 1]), ("dt", .obj "dt"), ("phi", .sub1 (.obj "self._phiSplines") (.idx 1)), ("v", .coord 3 3)]⟩,
    ⟨"self.step", [("f", .view "grid" [0, 2]), ("dt", .obj "dt"), ("phi", .sub1 (.obj "self._phiSplines") (.idx 2)), ("v", .coord 3 3)]⟩,
    ⟨"self.step", [("f", .view "grid" [1, 0]), ("dt", .obj "dt"), ("phi", .sub1 (.obj "self._phiSplines") (.idx 0)), ("v", .coord 3 4)]⟩,
    ⟨"self.step", [("f", .view "grid" [1, 1]), ("dt", .obj "dt"), ("phi", .sub1 (.obj "self._phiSplines") (.idx 1)), ("v", .coord 3 4)]⟩,
    ⟨"self.step", [("f", .view "grid" [1, 2]), ("dt", .obj "dt"), ("phi", .sub1 (.obj "self._phiSplines") (.idx 2)), ("v", .coord 3 4)]⟩,
    ⟨"self.step", [("f", .view "grid" [2, 0]), ("dt", .obj "dt"), ("phi", .sub1 (.obj "self._phiSplines") (.idx 0)), ("v", .coord 3 5)]⟩,
    ⟨"self.step", [("f", .view "grid" [2, 1]), ("dt", .obj "dt"), ("phi", .sub1 (.obj "self._phiSplines") (.idx 1)), ("v", .coord 3 5)]⟩,
    ⟨"self.step", [("f", .view "grid" [2, 2]), ("dt", .obj "dt"), ("phi", .sub1 (.obj "self._phiSplines") (.idx 2)), ("v", .coord 3 5)]⟩,
    ⟨"self.step", [("f", .view "grid" [3, 0]), ("dt", .obj "dt"), ("phi", .sub1 (.obj "self._phiSplines") (.idx 0)), ("v", .coord 3 6)]⟩,
    ⟨"self.step", [("f", .view "grid" [3, 1]), ("dt", .obj "dt"), ("phi", .sub1 (.obj "self._phiSplines") (.idx 1)), ("v", .coord 3 6)]⟩,
    ⟨"self.step", [("f", .view "grid" [3, 2]), ("dt", .obj "dt"), ("phi", .sub1 (.obj "self._phiSplines") (.idx 2)), ("v", .coord 3 6)]⟩] := by decide
example : initialise_poloidal (Ex.gridF [1, 1] 2) = some [
    ⟨"init_f_pol", [("surface", .view "grid" [0, 0]), ("rVec", .coordVals 0 0 3), ("theta", .coordVals 1 0 4), ("z", .coord 2 2), ("vPar", .coord 3 3), ("m", .obj "constants.m"), ("n", .obj "constants.n"), ("eps", .obj "constants.eps"), ("CN0", .obj "constants.CN0"), ("kN0", .obj "constants.kN0"), ("deltaRN0", .obj "constants.deltaRN0"), ("rp", .obj "constants.rp"), ("Cti", .obj "constants.CTi"), ("kti", .obj "constants.kTi"), ("deltaRti", .obj "constants.deltaRTi"), ("deltaR", .obj "constants.deltaR"), ("R0", .obj "constants.R0")]⟩,
    ⟨"init_f_pol", [("surface", .view "grid" [0, 1]), ("rVec", .coordVals 0 0 3), ("theta", .coordVals 1 0 4), ("z", .coord 2 3), ("vPar", .coord 3 3), ("m", .obj "constants.m"), ("n", .obj "constants.n"), ("eps", .obj "constants.eps"), ("CN0", .obj "constants.CN0"), ("kN0", .obj "constants.kN0"), ("deltaRN0", .obj "constants.deltaRN0"), ("rp", .obj "constants.rp"), ("Cti", .obj "constants.CTi"), ("kti", .obj "constants.kTi"), ("deltaRti", .obj "constants.deltaRTi"), ("deltaR", .obj "constants.deltaR"), ("R0", .obj "constants.R0")]⟩,
    ⟨"init_f_pol", [("surface", .view "grid" [0, 2]), ("rVec", .coordVals 0 0 3), ("theta", .coordVals 1 0 4), ("z", .coord 2 4), ("vPar", .coord 3 3), ("m", .obj "constants.m"), ("n", .obj "constants.n"), ("eps", .obj "constants.eps"), ("CN0", .obj "constants.CN0"), ("kN0", .obj "constants.kN0"), ("deltaRN0", .obj "constants.deltaRN0"), ("rp", .obj "constants.rp"), ("Cti", .obj "constants.CTi"), ("kti", .obj "constants.kTi"), ("deltaRti", .obj "constants.deltaRTi"), ("deltaR", .obj "constants.deltaR"), ("R0", .obj "constants.R0")]⟩,
    ⟨"init_f_pol", [("surface", .view "grid" [1, 0]), ("rVec", .coordVals 0 0 3), ("theta", .coordVals 1 0 4), ("z", .coord 2 2), ("vPar", .coord 3 4), ("m", .obj "constants.m"), ("n", .obj "constants.n"), ("eps", .obj "constants.eps"), ("CN0", .obj "constants.CN0"), ("kN0", .obj "constants.kN0"), ("deltaRN0", .obj "constants.deltaRN0"), ("rp", .obj "constants.rp"), ("Cti", .obj "constants.CTi"), ("kti", .obj "constants.kTi"), ("deltaRti", .obj "constants.deltaRTi"), ("deltaR", .obj "constants.deltaR"), ("R0", .obj "constants.R0")]⟩,
    ⟨"init_f_pol", [("surface", .view "grid" [1, 1]), ("rVec", .coordVals 0 0 3), ("theta", .coordVals 1 0 4), ("z", .coord 2 3), ("vPar", .coord 3 4), ("m", .obj "constants.m"), ("n", .obj "constants.n"), ("eps", .obj "constants.eps"), ("CN0", .obj "constants.CN0"), ("kN0", .obj "constants.kN0"), ("deltaRN0", .obj "constants.deltaRN0"), ("rp", .obj "constants.rp"), ("Cti", .obj "constants.CTi"), ("kti", .obj "constants.kTi"), ("deltaRti", .obj "constants.deltaRTi"), ("deltaR", .obj "constants.deltaR"), ("R0", .obj "constants.R0")]⟩,
    ⟨"init_f_pol", [("surface", .view "grid" [1, 2]), ("rVec", .coordVals 0 0 3), ("theta", .coordVals 1 0 4), ("z", .coord 2 4), ("vPar", .coord 3 4), ("m", .obj "constants.m"), ("n", .obj "constants.n"), ("eps", .obj "constants.eps"), ("CN0", .obj "constants.CN0"), ("kN0", .obj "constants.kN0"), ("deltaRN0", .obj "constants.deltaRN0"), ("rp", .obj "constants.rp"), ("Cti", .obj "constants.CTi"), ("kti", .obj "constants.kTi"), ("deltaRti", .obj "constants.deltaRTi"), ("deltaR", .obj "constants.deltaR"), ("R0", .obj "constants.R0")]⟩,
    ⟨"init_f_pol", [("surface", .view "grid" [2, 0]), ("rVec", .coordVals 0 0 3), ("theta", .coordVals 1 0 4), ("z", .coord 2 2), ("vPar", .coord 3 5), ("m", .obj "constants.m"), ("n", .obj "constants.n"), ("eps", .obj "constants.eps"), ("CN0", .obj "constants.CN0"), ("kN0", .obj "constants.kN0"), ("deltaRN0", .obj "constants.deltaRN0"), ("rp", .obj "constants.rp"), ("Cti", .obj "constants.CTi"), ("kti", .obj "constants.kTi"), ("deltaRti", .obj "constants.deltaRTi"), ("deltaR", .obj "constants.deltaR"), ("R0", .obj "constants.R0")]⟩,
    ⟨"init_f_pol", [("surface", .view "grid" [2, 1]), ("rVec", .coordVals 0 0 3), ("theta", .coordVals 1 0 4), ("z", .coord 2 3), ("vPar", .coord 3 5), ("m", .obj "constants.m"), ("n", .obj "constants.n"), ("eps", .obj "constants.eps"), ("CN0", .obj "constants.CN0"), ("kN0", .obj "constants.kN0"), ("deltaRN0", .obj "constants.deltaRN0"), ("rp", .obj "constants.rp"), ("Cti", .obj "constants.CTi"), ("kti", .obj "constants.kTi"), ("deltaRti", .obj "constants.deltaRTi"), ("deltaR", .obj "constants.deltaR"), ("R0", .obj "constants.R0")]⟩,
    ⟨"init_f_pol", [("surface", .view "grid" [2, 2]), ("rVec", .coordVals 0 0 3), ("theta", .coordVals 1 0 4), ("z", .coord 2 4), ("vPar", .coord 3 5), ("m", .obj "constants.m"), ("n", .obj "constants.n"), ("eps", .obj "constants.eps"), ("CN0", .obj "constants.CN0"), ("kN0", .obj "constants.kN0"), ("deltaRN0", .obj "constants.deltaRN0"), ("rp", .obj "constants.rp"), ("Cti", .obj "constants.CTi"), ("kti", .obj "constants.kTi"), ("deltaRti", .obj "constants.deltaRTi"), ("deltaR", .obj "constants.deltaR"), ("R0", .obj "constants.R0")]⟩,
    ⟨"init_f_pol", [("surface", .view "grid" [3, 0]), ("rVec", .coordVals 0 0 3), ("theta", .coordVals 1 0 4), ("z", .coord 2 2), ("vPar", .coord 3 6), ("m", .obj "constants.m"), ("n", .obj "constants.n"), ("eps", .obj "constants.eps"), ("CN0", .obj "constants.CN0"), ("kN0", .obj "constants.kN0"), ("deltaRN0", .obj "constants.deltaRN0"), ("rp", .obj "constants.rp"), ("Cti", .obj "constants.CTi"), ("kti", .obj "constants.kTi"), ("deltaRti", .obj "constants.deltaRTi"), ("deltaR", .obj "constants.deltaR"), ("R0", .obj "constants.R0")]⟩,
    ⟨"init_f_pol", [("surface", .view "grid" [3, 1]), ("rVec", .coordVals 0 0 3), ("theta", .coordVals 1 0 4), ("z", .coord 2 3), ("vPar", .coord 3 6), ("m", .obj "constants.m"), ("n", .obj "constants.n"), ("eps", .obj "constants.eps"), ("CN0", .obj "constants.CN0"), ("kN0", .obj "constants.kN0"), ("deltaRN0", .obj "constants.deltaRN0"), ("rp", .obj "constants.rp"), ("Cti", .obj "constants.CTi"), ("kti", .obj "constants.kTi"), ("deltaRti", .obj "constants.deltaRTi"), ("deltaR", .obj "constants.deltaR"), ("R0", .obj "constants.R0")]⟩,
    ⟨"init_f_pol", [("surface", .view "grid" [3, 2]), ("rVec", .coordVals 0 0 3), ("theta", .coordVals 1 0 4), ("z", .coord 2 4), ("vPar", .coord 3 6), ("m", .obj "constants.m"), ("n", .obj "constants.n"), ("eps", .obj "constants.eps"), ("CN0", .obj "constants.CN0"), ("kN0", .obj "constants.kN0"), ("deltaRN0", .obj "constants.deltaRN0"), ("rp", .obj "constants.rp"), ("Cti", .obj "constants.CTi"), ("kti", .obj "constants.kTi"), ("deltaRti", .obj "constants.deltaRTi"), ("deltaR", .obj "constants.deltaR"), ("R0", .obj "constants.R0")]⟩] := by decide
example : PoloidalAdvection_gridStep_SplinesUnchanged (Ex.gridF [1, 1] 1) = none := by decide

end PygyroVerif.C05Gen2
