/-
C04, tie by translation: `Generated/GridGen.lean` is REGENERATED on every run of `./check C04` from pygyro/model/grid.py
(harness/translate_pure.py: the statements of setLayout / saveGridValues / freeGridSave / restoreGridValues in source order,
over a state that also records which layout object `self._layout` is and what the view `self._f` shows).  This file proves that
on every state reachable from `Grid.__init__` the generated step function is the hand-written state machine `GridSM.step` the
refinement theorem `C04.grid_refines_spec` is about, and that `self._layout` and the view `self._f` always follow the current
layout and the data block; hence every history of the SOURCE's methods behaves like a single global array.
-/
import PygyroVerif.Generated.GridGen
import PygyroVerif.Props.C04

namespace PygyroVerif.C04Gen
open PygyroVerif PygyroVerif.GridSM PygyroVerif.Gen.Grid PygyroVerif.C04

/-- `self._layout` is the current layout and `self._f` views the data block in that layout -/
structure View (s : St) : Prop where
  layout : s.layoutName = s.g.current
  buf : s.fBuf = s.g.dataIdx
  shape : s.fLayout = s.g.current

theorem init_view (hasSave : Bool) (layout f : Nat) : View (Gen.Grid.init hasSave layout f) :=
  ⟨rfl, rfl, rfl⟩

/-- one method call of the source = one step of the model, and the view invariant is kept -/
theorem gen_step_eq (s : St) (t : Spec) (op : Op) (hrel : Rel s.g t) (hv : View s) :
    (Gen.Grid.step s op).map (·.g) = GridSM.step s.g op ∧ ∀ s', Gen.Grid.step s op = some s' → View s' := by
  obtain ⟨hl, hb, hsh⟩ := hv
  cases op with
  | setLayout l =>
    by_cases hc : (s.g.hasSave && s.g.notSaved) = true
    · refine ⟨by simp [Gen.Grid.step, Gen.Grid.setLayout, GridSM.step, hc], fun s' h => ?_⟩
      simp only [Gen.Grid.step, Gen.Grid.setLayout, hc, if_true, Option.some.injEq] at h
      subst h; exact ⟨rfl, rfl, rfl⟩
    · refine ⟨by simp [Gen.Grid.step, Gen.Grid.setLayout, GridSM.step, hc], fun s' h => ?_⟩
      simp only [Gen.Grid.step, Gen.Grid.setLayout, hc, Option.some.injEq] at h
      subst h; exact ⟨rfl, rfl, rfl⟩
  | write v =>
    refine ⟨by simp [Gen.Grid.step, Gen.Grid.write, GridSM.step, hb, hsh], fun s' h => ?_⟩
    simp only [Gen.Grid.step, Gen.Grid.write, Option.some.injEq] at h
    subst h; exact ⟨hl, hb, hsh⟩
  | save =>
    have hd := hrel.data
    have hcur := hrel.layout
    have hvc : viewCell s = cellAt s.g s.g.dataIdx := by
      unfold viewCell
      rw [hb]
      unfold cellAt at hd ⊢
      rw [hd, hsh, hcur]
      simp
    have hfl : s.fLayout = s.layoutName := by rw [hsh, hl]
    cases hh : s.g.hasSave <;> cases hn : s.g.notSaved
    all_goals
      refine ⟨by simp [Gen.Grid.step, Gen.Grid.saveGridValues, GridSM.step, hh, hn, hfl, hvc], fun s' h => ?_⟩
      simp only [Gen.Grid.step, Gen.Grid.saveGridValues, hh, hn, Bool.not_true, Bool.not_false, if_true, if_false,
        Bool.false_eq_true, reduceCtorEq, Option.some.injEq] at h <;>
        (subst h; exact ⟨hl, hb, hsh⟩)
  | free =>
    cases hh : s.g.hasSave <;> cases hn : s.g.notSaved
    all_goals
      refine ⟨by simp [Gen.Grid.step, Gen.Grid.freeGridSave, GridSM.step, hh, hn], fun s' h => ?_⟩
      simp only [Gen.Grid.step, Gen.Grid.freeGridSave, hh, hn, Bool.not_true, Bool.not_false, if_true, if_false,
        Bool.false_eq_true, reduceCtorEq, Option.some.injEq] at h <;>
        (subst h; exact ⟨hl, hb, hsh⟩)
  | restore =>
    cases hh : s.g.hasSave <;> cases hn : s.g.notSaved
    all_goals
      refine ⟨by simp [Gen.Grid.step, Gen.Grid.restoreGridValues, GridSM.step, hh, hn], fun s' h => ?_⟩
      simp only [Gen.Grid.step, Gen.Grid.restoreGridValues, hh, hn, Bool.not_true, Bool.not_false, if_true, if_false,
        Bool.false_eq_true, reduceCtorEq, Option.some.injEq] at h <;>
        (subst h; exact ⟨rfl, rfl, rfl⟩)

/-- run a history on the generated state machine; refused calls leave the state unchanged -/
def run (s : St) : List Op → St × List Bool
  | [] => (s, [])
  | op :: ops =>
    match Gen.Grid.step s op with
    | some s' => let (f, l) := run s' ops; (f, true :: l)
    | none => let (f, l) := run s ops; (f, false :: l)

/-- **every history of the source's methods is a history of the model** (same refusals, same index / flag / block state) -/
theorem gen_run_eq (ops : List Op) (s : St) (t : Spec) (hrel : Rel s.g t) (hv : View s) :
    ((run s ops).1.g, (run s ops).2) = GridSM.run s.g ops ∧ View (run s ops).1 := by
  induction ops generalizing s t with
  | nil => exact ⟨rfl, hv⟩
  | cons op ops ih =>
    obtain ⟨he, hview⟩ := gen_step_eq s t op hrel hv
    have href := step_refines s.g t op hrel
    unfold run GridSM.run
    cases hs : Gen.Grid.step s op with
    | none =>
      rw [hs] at he
      have hm : GridSM.step s.g op = none := by simpa using he.symm
      obtain ⟨h1, h2⟩ := ih s t hrel hv
      simp only [hm]
      rw [← h1]
      exact ⟨rfl, h2⟩
    | some s' =>
      rw [hs] at he
      have hm : GridSM.step s.g op = some s'.g := by simpa using he.symm
      rw [hm] at href
      cases ht : t.step op with
      | none => rw [ht] at href; exact absurd href (by simp)
      | some t' =>
        rw [ht] at href
        obtain ⟨h1, h2⟩ := ih s' t' href (hview s' hs)
        simp only [hm]
        rw [← h1]
        exact ⟨rfl, h2⟩

/-- **any history of set-layout / write / save / restore / free calls of the SOURCE behaves like a single global array**:
    refused exactly when the global array with one optional saved copy refuses, the block seen through `self._f` holds the
    spec's field in the spec's layout, and `self._layout` is that layout -/
theorem source_history_behaves_like_global_array (hasSave : Bool) (layout f : Nat) (ops : List Op) :
    let s := run (Gen.Grid.init hasSave layout f) ops
    let t := Spec.run { field := f, layout := layout, saved := none, hasSave := hasSave } ops
    s.2 = t.2 ∧ viewCell s.1 = .holds t.1.field t.1.layout ∧ s.1.layoutName = t.1.layout ∧ s.1.g.current = t.1.layout := by
  intro s t
  have hrel0 := init_related hasSave layout f
  obtain ⟨he, hv⟩ := gen_run_eq ops (Gen.Grid.init hasSave layout f) _ hrel0 (init_view hasSave layout f)
  obtain ⟨h1, h2⟩ := grid_refines_spec ops (GridSM.init hasSave layout f) _ hrel0
  have hg : s.1.g = (GridSM.run (GridSM.init hasSave layout f) ops).1 := congrArg Prod.fst he
  have hl : s.2 = (GridSM.run (GridSM.init hasSave layout f) ops).2 := congrArg Prod.snd he
  refine ⟨by rw [hl]; exact h1, ?_, ?_, ?_⟩
  · have hd := h2.data
    rw [← hg] at hd
    unfold viewCell
    rw [hv.buf]
    unfold cellAt at hd
    have hcur : s.1.g.current = t.1.layout := by rw [hg]; exact h2.layout
    rw [hd, hv.shape, hcur]
    show (if t.1.layout = t.1.layout then Cell.holds t.1.field t.1.layout else Cell.garbage) = _
    rw [if_pos rfl]
  · rw [hv.layout, hg]; exact h2.layout
  · rw [hg]; exact h2.layout

example : (run (Gen.Grid.init true 0 7) [.save, .setLayout 1, .write 9, .save, .restore, .restore]).2 =
    [true, true, true, false, true, false] := by decide

end PygyroVerif.C04Gen
