/-
C10, tie by translation, part 2: the kernel `general_get_lagrange_vals` that fills the table of spline values `flux_advection` contracts with
the Lagrange coefficients.  `Generated/LagValsGen.lean` is REGENERATED on every run of `./check C10` from
pygyro/advection/accelerated_advection_steps.py (harness/translate_pure.py, target `lagvals`: `shifts: int[:]` is a function `ℕ → ℤ`,
`for j, s in enumerate(shifts)`, `idx = (i - s) % nz` is Lean's `%` on `ℤ` — the non-negative remainder, Python's value for `nz > 0` — used as an
index through `Int.toNat`; `new_q = empty_like(qVals)`; the whole-array assignment `new_q[:] = (qVals + thetaShifts[j]) % (2*pi)` is the
element-wise loop in closed form, under numpy's shape check; the spline evaluation `eval_spline_1d_scalar` is an UNINTERPRETED function `E`;
the parameter `eval_spline_1d_vector`, which the body never mentions, is not translated).

This file proves that the generated function computes what the hand-written model `FluxAdv.getLagrangeVals` (Model/FluxAdv.lean; the table
`allLagrangeVals` of `fluxStep` / `C10.flux_step_formula` is its fold over the rows) computes: for ALL row indices `i`, shift arrays of every
length, sizes, theta points, theta shifts, every `pi`, every function `E`, every previous content of `vals` and of the uninitialised `new_q`:
the call returns, and for every stencil position `j < len(shifts)` and theta index `k < len(qVals)`
    vals[(i - shifts[j]) mod nz, k, j] = E((qVals[k] + thetaShifts[j]) % (2*pi)),
(later stencil positions overwrite earlier ones that hit the same entry — they never do, the last index differs) and every other entry of
`vals` is untouched.  The model writes the whole theta line; the source only the `len(qVals)` entries of it: the theorem says so.
-/
import PygyroVerif.Generated.LagValsGen
import PygyroVerif.Props.C10

namespace PygyroVerif.C10Gen2
open PygyroVerif PygyroVerif.FieldLine PygyroVerif.FluxAdv
open PygyroVerif.Gen.LagVals PygyroVerif.Gen.LagVals.general_get_lagrange_vals_

/-- `V[idx, b, j] = g b` for `lo ≤ b < hi` -/
def lineUpd (V : ℕ → ℕ → ℕ → ℚ) (idx j lo hi : ℕ) (g : ℕ → ℚ) : ℕ → ℕ → ℕ → ℚ :=
  fun a b c => if a = idx ∧ lo ≤ b ∧ b < hi ∧ c = j then g b else V a b c

theorem lineUpd_empty (V : ℕ → ℕ → ℕ → ℚ) (idx j lo : ℕ) (g : ℕ → ℚ) : lineUpd V idx j lo lo g = V := by
  funext a b c
  unfold lineUpd
  rw [if_neg (by omega)]

theorem lineUpd_step (V : ℕ → ℕ → ℕ → ℚ) (idx j lo hi : ℕ) (g : ℕ → ℚ) (h : lo < hi) :
    lineUpd (fun a b c => if a = idx ∧ b = lo ∧ c = j then g lo else V a b c) idx j (lo + 1) hi g = lineUpd V idx j lo hi g := by
  funext a b c
  show (if a = idx ∧ lo + 1 ≤ b ∧ b < hi ∧ c = j then g b else (if a = idx ∧ b = lo ∧ c = j then g lo else V a b c))
    = (if a = idx ∧ lo ≤ b ∧ b < hi ∧ c = j then g b else V a b c)
  by_cases h1 : a = idx ∧ lo + 1 ≤ b ∧ b < hi ∧ c = j
  · rw [if_pos h1, if_pos ⟨h1.1, by omega, h1.2.2.1, h1.2.2.2⟩]
  · rw [if_neg h1]
    by_cases h2 : a = idx ∧ b = lo ∧ c = j
    · rw [if_pos h2, if_pos ⟨h2.1, by omega, by omega, h2.2.2⟩, h2.2.1]
    · rw [if_neg h2, if_neg]
      intro h3
      by_cases hb : b = lo
      · exact h2 ⟨h3.1, hb, h3.2.2.2⟩
      · exact h1 ⟨h3.1, by omega, h3.2.2.1, h3.2.2.2⟩

/-- the spline evaluation as the loop calls it: `eval_spline_1d_scalar(x, kts, deg, coeffs, 0)` -/
def evalAt (σ : St) (x : ℚ) : ℚ := σ.eval_spline_1d_scalar x σ.kts σ.kts_len σ.deg σ.coeffs σ.coeffs_len 0

/-- `for k, q in enumerate(new_q): vals[idx, k, j] = eval_spline_1d_scalar(q, …)` started at `k0` with `n` iterations left: the entries
    `vals[idx, k0 .. k0+n-1, j]` receive the spline at `new_q[k]`, nothing else changes (`new_q` is not written) -/
theorem loop2_eq (U : ℕ → ℚ) (F : ℕ) : ∀ (n k0 : ℕ) (σ : St),
    ∃ K Q, general_get_lagrange_vals_loop2 U F n k0 σ =
      .ok { σ with k := K, q := Q, vals := lineUpd σ.vals (Int.toNat σ.idx) σ.j k0 (k0 + n) (fun b => evalAt σ (σ.new_q b)) } := by
  intro n
  induction n with
  | zero =>
    intro k0 σ
    refine ⟨σ.k, σ.q, ?_⟩
    rw [Nat.add_zero, lineUpd_empty]
    rfl
  | succ n ih =>
    intro k0 σ
    let V1 : ℕ → ℕ → ℕ → ℚ := fun a b c => if a = Int.toNat σ.idx ∧ b = k0 ∧ c = σ.j then evalAt σ (σ.new_q k0) else σ.vals a b c
    let σ1 : St := { σ with k := k0, q := σ.new_q k0, vals := V1 }
    obtain ⟨K, Q, hrun⟩ := ih (k0 + 1) σ1
    refine ⟨K, Q, ?_⟩
    show general_get_lagrange_vals_loop2 U F n (k0 + 1) σ1 = _
    rw [hrun]
    have h := lineUpd_step σ.vals (Int.toNat σ.idx) σ.j k0 (k0 + (n + 1)) (fun b => evalAt σ (σ.new_q b)) (by omega)
    rw [← h, show k0 + (n + 1) = k0 + 1 + n by omega]
    rfl

/-- the theta point of stencil position `c` and theta index `b`: `(qVals[b] + thetaShifts[c]) % (2*pi)` -/
def pt (σ : St) (c b : ℕ) : ℚ := pyMod (σ.qVals b + σ.thetaShifts c) (2 * σ.pi)

/-- the row the stencil position `c` writes: `(i - shifts[c]) % nz` as an index -/
def rowOf (σ : St) (c : ℕ) : ℕ := Int.toNat (((σ.i : ℤ) - σ.shifts c) % (σ.nz : ℤ))

/-- `vals` after the stencil positions `j0 ≤ c < j0 + n` have been processed -/
def table (σ : St) (j0 n : ℕ) : ℕ → ℕ → ℕ → ℚ :=
  fun a b c => if b < σ.qVals_len ∧ j0 ≤ c ∧ c < j0 + n ∧ a = rowOf σ c then evalAt σ (pt σ c b) else σ.vals a b c

/-- `for j, s in enumerate(shifts):` started at `j0` with `n` iterations left, `new_q` having the length of `qVals` (numpy's shape check of the
    whole-array assignment passes in every iteration): `vals` becomes `table` -/
theorem loop1_eq (U : ℕ → ℚ) (F : ℕ) : ∀ (n j0 : ℕ) (σ : St), σ.new_q_len = σ.qVals_len →
    ∃ σ', general_get_lagrange_vals_loop1 U F n j0 σ = .ok σ' ∧ σ'.vals = table σ j0 n := by
  intro n
  induction n with
  | zero =>
    intro j0 σ _
    refine ⟨σ, rfl, ?_⟩
    funext a b c
    unfold table
    rw [if_neg (by omega)]
  | succ n ih =>
    intro j0 σ hlen
    let newq : ℕ → ℚ := fun k_ => if k_ < σ.new_q_len then
      pyMod (σ.qVals (if σ.qVals_len = 1 then 0 else k_) + σ.thetaShifts j0) (2 * σ.pi) else σ.new_q k_
    let σa : St := { σ with j := j0, s := σ.shifts j0, idx := ((σ.i : ℤ) - σ.shifts j0) % (σ.nz : ℤ), new_q := newq }
    obtain ⟨K, Q, hin⟩ := loop2_eq U F σ.new_q_len 0 σa
    let σ2 : St := { σa with k := K, q := Q, vals := lineUpd σ.vals (rowOf σ j0) j0 0 (0 + σ.new_q_len) (fun b => evalAt σ (newq b)) }
    obtain ⟨σ', hrun, hv⟩ := ih (j0 + 1) σ2 hlen
    refine ⟨σ', ?_, ?_⟩
    · have hc : σ.qVals_len = σ.new_q_len ∨ σ.qVals_len = 1 := Or.inl hlen.symm
      show (if σ.qVals_len = σ.new_q_len ∨ σ.qVals_len = 1 then
          (match general_get_lagrange_vals_loop2 U F σ.new_q_len 0 σa with
            | .ok σ => general_get_lagrange_vals_loop1 U F n (j0 + 1) σ
            | .done o => .done o)
        else Res.done (.raised "ValueError")) = _
      rw [if_pos hc, hin]
      exact hrun
    · rw [hv]
      funext a b c
      show (if b < σ.qVals_len ∧ j0 + 1 ≤ c ∧ c < j0 + 1 + n ∧ a = rowOf σ c then evalAt σ (pt σ c b)
        else lineUpd σ.vals (rowOf σ j0) j0 0 (0 + σ.new_q_len) (fun b => evalAt σ (newq b)) a b c) = _
      unfold table lineUpd
      have hnq : ∀ b, b < σ.qVals_len → newq b = pt σ j0 b := by
        intro b hb
        show (if b < σ.new_q_len then _ else _) = _
        rw [if_pos (by omega)]
        have : (if σ.qVals_len = 1 then 0 else b) = b := by
          split
          · omega
          · rfl
        rw [this]
        rfl
      by_cases h1 : b < σ.qVals_len ∧ j0 + 1 ≤ c ∧ c < j0 + 1 + n ∧ a = rowOf σ c
      · rw [if_pos h1, if_pos ⟨h1.1, by omega, by omega, h1.2.2.2⟩]
      · rw [if_neg h1]
        by_cases h2 : a = rowOf σ j0 ∧ 0 ≤ b ∧ b < 0 + σ.new_q_len ∧ c = j0
        · rw [if_pos h2]
          obtain ⟨ha, -, hb, hc⟩ := h2
          subst hc
          rw [if_pos ⟨by omega, le_refl _, by omega, ha⟩]
          show evalAt σ (newq b) = _
          rw [hnq b (by omega)]
        · rw [if_neg h2, if_neg]
          intro h3
          by_cases hc : c = j0
          · subst hc
            exact h2 ⟨h3.2.2.2, Nat.zero_le _, by omega, rfl⟩
          · exact h1 ⟨h3.1, by omega, by omega, h3.2.2.2⟩

/-- the spline of the current row as the model's `S`, the theta points as the model's `pts` -/
def splineOf (E : ℚ → (ℕ → ℚ) → ℕ → ℕ → (ℕ → ℚ) → ℕ → ℕ → ℚ) (kts : ℕ → ℚ) (klen deg : ℕ) (coeffs : ℕ → ℚ) (clen : ℕ) : ℕ → ℚ → ℚ :=
  fun _ x => E x kts klen deg coeffs clen 0
def thetaPts (pi : ℚ) (qVals thetaShifts : ℕ → ℚ) : ℕ → ℕ → ℚ := fun j q => pyMod (qVals q + thetaShifts j) (2 * pi)

/-- **the generated `general_get_lagrange_vals` computes the model's table** `FluxAdv.getLagrangeVals` on the `len(qVals)` theta indices the
    source loops over and touches nothing else: for every row `i`, every shift array (any integers, any length `nL`), every `nz`, theta
    points, theta shifts, `pi`, spline evaluation `E`, previous contents `vals0` of `vals` and `U` of the uninitialised `new_q`, every fuel -/
theorem gen_lagrange_vals_eq (U : ℕ → ℚ) (F : ℕ) (pi : ℚ) (i : ℕ) (sh : ℕ → ℤ) (nL : ℕ) (vals0 : ℕ → ℕ → ℕ → ℚ) (nz l1 l2 : ℕ)
    (qVals : ℕ → ℚ) (nq : ℕ) (thetaShifts : ℕ → ℚ) (tlen : ℕ) (kts : ℕ → ℚ) (klen deg : ℕ) (coeffs : ℕ → ℚ) (clen : ℕ)
    (E : ℚ → (ℕ → ℚ) → ℕ → ℕ → (ℕ → ℚ) → ℕ → ℕ → ℚ) :
    ∃ σ', run U F pi i sh nL vals0 nz l1 l2 qVals nq thetaShifts tlen kts klen deg coeffs clen E = .ret σ' ∧
      ∀ a q k, σ'.vals a q k =
        if q < nq then getLagrangeVals nz nL (splineOf E kts klen deg coeffs clen) (thetaPts pi qVals thetaShifts) sh i vals0 a q k
        else vals0 a q k := by
  let σ0 : St :=
    { pi := pi, i := i, shifts := sh, shifts_len := nL, vals := vals0, vals_len0 := nz, vals_len1 := l1, vals_len2 := l2,
      qVals := qVals, qVals_len := nq, thetaShifts := thetaShifts, thetaShifts_len := tlen, kts := kts, kts_len := klen, deg := deg,
      coeffs := coeffs, coeffs_len := clen, eval_spline_1d_scalar := E, nz := nz, new_q := U, new_q_len := nq }
  obtain ⟨σ', hrun, hv⟩ := loop1_eq U F nL 0 σ0 rfl
  refine ⟨σ', ?_, ?_⟩
  · show (match general_get_lagrange_vals_loop1 U F nL 0 σ0 with
      | .ok σ => Out.ret σ
      | .done o => o) = _
    rw [hrun]
  · intro a q k
    rw [hv, getLagrangeVals_apply]
    show (if q < nq ∧ 0 ≤ k ∧ k < 0 + nL ∧ a = Int.toNat (((i : ℤ) - sh k) % (nz : ℤ)) then
      E (pyMod (qVals q + thetaShifts k) (2 * pi)) kts klen deg coeffs clen 0 else vals0 a q k) = _
    by_cases hq : q < nq
    · rw [if_pos hq]
      by_cases h : k < nL ∧ a = pmod ((i : ℤ) - sh k) nz
      · rw [if_pos h, if_pos ⟨hq, Nat.zero_le _, by omega, h.2⟩]
        rfl
      · rw [if_neg h, if_neg]
        intro h'
        exact h ⟨by omega, h'.2.2.2⟩
    · rw [if_neg hq, if_neg (fun h' => hq h'.1)]

/-- **entry by entry**: for every stencil position `j < len(shifts)` and theta index `k < len(qVals)` the entry
    `vals[(i - shifts[j]) mod nz, k, j]` holds the spline at `(qVals[k] + thetaShifts[j]) % (2*pi)`; `(i - s) mod nz` is `FieldLine.pmod`,
    Python's `%` for `nz > 0` (a non-negative remainder also for `i - s < 0`) -/
theorem gen_lagrange_vals_entry (U : ℕ → ℚ) (F : ℕ) (pi : ℚ) (i : ℕ) (sh : ℕ → ℤ) (nL : ℕ) (vals0 : ℕ → ℕ → ℕ → ℚ) (nz l1 l2 : ℕ)
    (qVals : ℕ → ℚ) (nq : ℕ) (thetaShifts : ℕ → ℚ) (tlen : ℕ) (kts : ℕ → ℚ) (klen deg : ℕ) (coeffs : ℕ → ℚ) (clen : ℕ)
    (E : ℚ → (ℕ → ℚ) → ℕ → ℕ → (ℕ → ℚ) → ℕ → ℕ → ℚ) :
    ∃ σ', run U F pi i sh nL vals0 nz l1 l2 qVals nq thetaShifts tlen kts klen deg coeffs clen E = .ret σ' ∧
      (∀ j k, j < nL → k < nq →
        σ'.vals (pmod ((i : ℤ) - sh j) nz) k j = E (pyMod (qVals k + thetaShifts j) (2 * pi)) kts klen deg coeffs clen 0) ∧
      (∀ a k j, ¬ (k < nq ∧ j < nL ∧ a = pmod ((i : ℤ) - sh j) nz) → σ'.vals a k j = vals0 a k j) := by
  obtain ⟨σ', hrun, hv⟩ := gen_lagrange_vals_eq U F pi i sh nL vals0 nz l1 l2 qVals nq thetaShifts tlen kts klen deg coeffs clen E
  refine ⟨σ', hrun, ?_, ?_⟩
  · intro j k hj hk
    rw [hv, if_pos hk, getLagrangeVals_apply, if_pos ⟨hj, rfl⟩]
    rfl
  · intro a k j h
    rw [hv]
    by_cases hk : k < nq
    · rw [if_pos hk, getLagrangeVals_apply, if_neg (fun h' => h ⟨hk, h'.1, h'.2⟩)]
    · rw [if_neg hk]

/-- the index arithmetic on a negative difference: `(1 - 2) % 3 = 2`, `(0 - 5) % 3 = 1`, `(2 - (-4)) % 3 = 0` (Python gives the same) -/
example : [pmod ((1 : ℤ) - 2) 3, pmod ((0 : ℤ) - 5) 3, pmod ((2 : ℤ) - (-4)) 3] = [2, 1, 0] := by decide

/-! concrete instance: `nz = 3` rows, row `i = 1`, shifts `-1, 0, 2` (rows 2, 1, 2 = (1-2) mod 3), three theta points `0, 1/2, 5`, theta shifts
    `-1/4, 0, 1/3`, `pi := 3` (any rational will do), the "spline" `E x … = x² + deg`; `vals` holds `100·a + 10·q + k` before the call -/
def cSh : ℕ → ℤ := fun j => ([-1, 0, 2] : List ℤ).getD j 0
def cQ : ℕ → ℚ := fun q => ([0, 1 / 2, 5] : List ℚ).getD q 0
def cTh : ℕ → ℚ := fun j => ([-1 / 4, 0, 1 / 3] : List ℚ).getD j 0
def cVals0 : ℕ → ℕ → ℕ → ℚ := fun a q k => 100 * a + 10 * q + k
def cE : ℚ → (ℕ → ℚ) → ℕ → ℕ → (ℕ → ℚ) → ℕ → ℕ → ℚ := fun x _ _ deg _ _ _ => x * x + deg

example : ∃ σ', run (fun _ => 7) 0 3 1 cSh 3 cVals0 3 3 3 cQ 3 cTh 3 (fun _ => 0) 0 2 (fun _ => 0) 0 cE = .ret σ' ∧
    ∀ a q k, σ'.vals a q k = if q < 3 then getLagrangeVals 3 3 (splineOf cE (fun _ => 0) 0 2 (fun _ => 0) 0) (thetaPts 3 cQ cTh) cSh 1 cVals0 a q k
      else cVals0 a q k :=
  gen_lagrange_vals_eq (fun _ => 7) 0 3 1 cSh 3 cVals0 3 3 3 cQ 3 cTh 3 (fun _ => 0) 0 2 (fun _ => 0) 0 cE
/-- the generated code itself, evaluated: the whole 3×4×3 corner of `vals` after the call (theta index 3 is beyond `len(qVals)`), against the
    model's table and, for three entries, in numbers: `vals[2, 0, 0] = E((0 - 1/4) % 6) = (23/4)² + 2`, `vals[1, 2, 1] = E(5) = 27`, `vals[0, 1, 1]`
    untouched = 11 -/
example : (match run (fun _ => 7) 0 3 1 cSh 3 cVals0 3 3 3 cQ 3 cTh 3 (fun _ => 0) 0 2 (fun _ => 0) 0 cE with
    | .ret σ => (List.range 3).map fun a => (List.range 4).map fun q => (List.range 3).map fun k => σ.vals a q k
    | _ => []) =
    (List.range 3).map fun a => (List.range 4).map fun q => (List.range 3).map fun k =>
      if q < 3 then getLagrangeVals 3 3 (splineOf cE (fun _ => 0) 0 2 (fun _ => 0) 0) (thetaPts 3 cQ cTh) cSh 1 cVals0 a q k
      else cVals0 a q k := by decide +kernel
example : (match run (fun _ => 7) 0 3 1 cSh 3 cVals0 3 3 3 cQ 3 cTh 3 (fun _ => 0) 0 2 (fun _ => 0) 0 cE with
    | .ret σ => [σ.vals 2 0 0, σ.vals 1 2 1, σ.vals 0 1 1, σ.vals 2 1 2] | _ => []) = [561 / 16, 27, 11, 97 / 36] := by decide +kernel
/-- numpy's shape check: a `new_q` of another length than `qVals` cannot arise (`empty_like`), so the `ValueError` branch of the generated
    whole-array assignment is dead: the call returns for every input (first component of `gen_lagrange_vals_eq`) -/
example (U : ℕ → ℚ) (F : ℕ) (pi : ℚ) (i : ℕ) (sh : ℕ → ℤ) (nL : ℕ) (vals0 : ℕ → ℕ → ℕ → ℚ) (nz l1 l2 : ℕ) (qVals : ℕ → ℚ) (nq : ℕ)
    (thetaShifts : ℕ → ℚ) (tlen : ℕ) (kts : ℕ → ℚ) (klen deg : ℕ) (coeffs : ℕ → ℚ) (clen : ℕ) (E : ℚ → (ℕ → ℚ) → ℕ → ℕ → (ℕ → ℚ) → ℕ → ℕ → ℚ) :
    ∃ σ', run U F pi i sh nL vals0 nz l1 l2 qVals nq thetaShifts tlen kts klen deg coeffs clen E = .ret σ' :=
  (gen_lagrange_vals_eq U F pi i sh nL vals0 nz l1 l2 qVals nq thetaShifts tlen kts klen deg coeffs clen E).imp fun _ h => h.1

end PygyroVerif.C10Gen2
