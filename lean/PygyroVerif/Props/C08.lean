/-
C08 — Interpolants reproduce their data and all polynomials of the spline degree.
Property theorems only (helper lemmas: Lemmas/Interp.lean).  Model: Model/Interp.lean, Model/BSpline.lean.

The linear solvers are contracts: every theorem quantifies over *every* vector `sol` the solver may have returned with
`M sol = u` (the check measures the exact residual of the real solver's output on every case).
`M` is exactly what the model's `collocationMatrix` produces and the evaluation is `BSpline.evalSpline1D/2D`.
-/
import PygyroVerif.Model.Interp
import PygyroVerif.Lemmas.Interp
import Mathlib.Algebra.Order.Field.Rat
import Mathlib.Tactic.IntervalCases

namespace PygyroVerif.C08
open PygyroVerif PygyroVerif.BSpline PygyroVerif.Interp Finset

set_option linter.unusedSectionVars false

variable {K : Type*} [Field K] [LinearOrder K]

/-! ### periodic wrap -/

/-- **wrap_consistent.** After `compute_interpolant` on a periodic space (`p ≤ n`) the coefficient array carries the solver's
    values, `c[n+i] = c[i]` for `i < p`, nothing beyond `n+p` is touched, and *every* entry an evaluation can read
    (`k < n+p`) is the solution entry `k mod n` -/
theorem wrap_consistent (n p : ℕ) (hpn : p ≤ n) (sol c0 : ℕ → K) :
    let c := computeInterpolant1D true n p sol c0
    (∀ i, i < p → c (n + i) = c i) ∧ (∀ k, k < n → c k = sol k) ∧ (∀ k, n + p ≤ k → c k = c0 k) ∧
    (∀ k, k < n + p → c k = sol (k % n)) :=
  wrap_consistent' n p hpn sol c0

example : (computeInterpolant1D true 3 2 (fun k => ((k + 5 : ℕ) : ℚ)) (fun _ => 0)) 4 = 6 := by
  simp [computeInterpolant1D, wrapCoeffs, storeSolution]

/-- the array `compute_interpolant` leaves behind is wrapped (periodic) and is the solution on `[0,n)` (both cases) -/
theorem computeInterpolant1D_spec (periodic : Bool) (n p : ℕ) (hpn : periodic = true → p ≤ n) (sol c0 : ℕ → K) :
    Wrapped periodic n p (computeInterpolant1D periodic n p sol c0) ∧
    ∀ k, k < n → computeInterpolant1D periodic n p sol c0 k = sol k :=
  computeInterpolant1D_spec' periodic n p hpn sol c0

example : Wrapped true 3 2 (computeInterpolant1D true 3 2 Inst.sol (fun _ => 0)) :=
  (computeInterpolant1D_spec true 3 2 (fun _ => by decide) Inst.sol _).1

/-! ### 1-D -/

/-- index bookkeeping for one point: for *any* wrapped coefficient array the evaluation kernel returns
    `Σ_j M_ij c_j` with the row the collocation model produces for that point -/
theorem eval_eq_collocRow (S : Space K) (hadm : S.Admissible) (x : K) (row : ℕ → K)
    (hrow : collocRow S x = some row) (c : ℕ → K) (hw : Wrapped S.periodic S.nbasis S.degree c) :
    evalSpline1D S.t S.nk S.degree c x false = some (∑ j ∈ range S.nbasis, row j * c j) :=
  eval_eq_collocRow' S hadm x row hrow c hw

/-- **interp_reproduces_1d.** For every admissible space, every set of interpolation points, every data vector `u` and every
    vector `sol` with `M sol = u` (`M` = the model's collocation matrix at those points), the spline whose coefficients
    `compute_interpolant` stores (solution + periodic wrap) takes the value `u_i` at the `i`-th point -/
theorem interp_reproduces_1d (S : Space K) (hadm : S.Admissible) (xs : ℕ → K) (M : ℕ → ℕ → K)
    (hM : ∀ i, i < S.nbasis → collocationMatrix S xs i = some (M i))
    (u sol c0 : ℕ → K) (hsol : ∀ i, i < S.nbasis → matVec M S.nbasis sol i = u i) :
    ∀ i, i < S.nbasis →
      evalSpline1D S.t S.nk S.degree (computeInterpolant1D S.periodic S.nbasis S.degree sol c0) (xs i) false
        = some (u i) := by
  intro i hi
  have hspec := computeInterpolant1D_spec S.periodic S.nbasis S.degree
    (fun h => by have := hadm.2.2 h; simpa [Space.nbasis, h] using this) sol c0
  rw [eval_eq_collocRow S hadm (xs i) (M i) (hM i hi) _ hspec.1, ← hsol i hi]
  congr 1
  apply sum_congr rfl
  intro j hj
  rw [hspec.2 j (mem_range.mp hj)]

/-- a concrete periodic instance (`Interp.Inst`: degree 2, 3 cells, knots -2..5, Greville points 1/2, 3/2, 5/2, wrapped columns):
    the hypotheses are satisfiable, the matrix is not trivial (rows are cyclic shifts of 1/8, 3/4, 1/8) and the theorem yields
    a concrete value of the evaluation kernel on the wrapped coefficient array `[1,2,3,1,2]` -/
example : evalSpline1D Inst.S.t Inst.S.nk Inst.S.degree
    (computeInterpolant1D Inst.S.periodic Inst.S.nbasis Inst.S.degree Inst.sol (fun _ => 0)) (5/2) false = some (11/8) := by
  have := interp_reproduces_1d Inst.S Inst.hadm Inst.xs Inst.M Inst.hM Inst.u Inst.sol (fun _ => 0) Inst.hsol 2 (by decide)
  have h52 : Inst.xs 2 = 5/2 := by norm_num [Inst.xs]
  rw [h52] at this
  simpa [Inst.u] using this

example : evalSpline1D Inst.S.t Inst.S.nk Inst.S.degree (fun k => Inst.sol (k % 3)) (Inst.xs 1) false
    = some (∑ j ∈ range Inst.S.nbasis, Inst.M 1 j * Inst.sol (j % 3)) :=
  eval_eq_collocRow Inst.S Inst.hadm (Inst.xs 1) (Inst.M 1) (Inst.hM 1 (by decide)) _
    (fun _ i hi => by rw [Inst.hnb]; simp only [Inst.S] at hi; interval_cases i <;> rfl)

/-- **interp_reproduces_1d on the uniform-cubic fast path**: same statement with `cuCollocRow` / `cuEvalSpline1D` (closed-form cubic
    basis, `int(·)` = `trunc`), for interpolation points whose cell index `trunc((x-xmin)/dx)` lies in `[0, ncells]` -/
theorem interp_reproduces_1d_cu (trunc : K → ℤ) (xmin dx : K) (ncells : ℕ) (periodic : Bool) (hnc : 0 < ncells)
    (hper : periodic = true → 3 ≤ ncells) (xs : ℕ → K)
    (hxs : ∀ i, i < cuNb ncells periodic →
      0 ≤ trunc ((xs i - xmin) / dx) ∧ trunc ((xs i - xmin) / dx) ≤ ncells)
    (u sol c0 : ℕ → K)
    (hsol : ∀ i, i < cuNb ncells periodic →
      matVec (fun i => cuCollocRow trunc xmin dx ncells (cuNb ncells periodic) periodic (xs i)) (cuNb ncells periodic) sol i = u i) :
    ∀ i, i < cuNb ncells periodic →
      CubicUniform.cuEvalSpline1D trunc xmin dx (ncells : ℤ)
        (computeInterpolant1D periodic (cuNb ncells periodic) 3 sol c0) (xs i) false = u i := by
  intro i hi
  have hspec := computeInterpolant1D_spec periodic (cuNb ncells periodic) 3
    (fun h => by have := hper h; simpa [cuNb, h] using this) sol c0
  rw [cuEval_eq_collocRow trunc xmin dx (xs i) ncells periodic (hxs i hi).1 (hxs i hi).2 hnc hper _ hspec.1, ← hsol i hi]
  unfold matVec
  apply sum_congr rfl
  intro j hj
  rw [hspec.2 j (mem_range.mp hj)]

/-- instance: periodic, 3 unit cells on [0,3], points 0,1,2, constant data (rows sum to one) -/
example : CubicUniform.cuEvalSpline1D (fun q : ℚ => if q < 1 then 0 else if q < 2 then 1 else 2) 0 1 (3 : ℕ)
    (computeInterpolant1D true 3 3 (fun _ => 1) (fun _ => 0)) 1 false = 1 := by
  have := interp_reproduces_1d_cu (fun q : ℚ => if q < 1 then 0 else if q < 2 then 1 else 2) 0 1 3 true (by decide)
    (fun _ => by decide) (fun i => (i : ℚ)) (fun i hi => by
      have : i < 3 := by simpa [cuNb] using hi
      interval_cases i <;> norm_num)
    (fun _ => 1) (fun _ => 1) (fun _ => 0) (fun i hi => by
      have : i < 3 := by simpa [cuNb] using hi
      interval_cases i <;>
        norm_num [matVec, cuNb, cuCollocRow, CubicUniform.cuFindSpan, CubicUniform.cuBasisFuns, rowOf, colIdx, sum_range_succ,
          show Int.toNat 3 = 3 from rfl, show Int.toNat 4 = 4 from rfl, show Int.toNat 5 = 5 from rfl])
    1 (by decide)
  simpa [cuNb] using this

/-- linearity: complex data are interpolated component-wise (`K[i] = K × K` as a `K`-module): if `solRe`, `solIm` solve the
    real systems for the real and imaginary parts then every `K`-linear combination solves the combined system, in
    particular the pair (re, im) is the complex interpolant and it reproduces both parts of the data -/
theorem interp_complex_componentwise (S : Space K) (hadm : S.Admissible) (xs : ℕ → K) (M : ℕ → ℕ → K)
    (hM : ∀ i, i < S.nbasis → collocationMatrix S xs i = some (M i))
    (uRe uIm solRe solIm c0 : ℕ → K)
    (hRe : ∀ i, i < S.nbasis → matVec M S.nbasis solRe i = uRe i)
    (hIm : ∀ i, i < S.nbasis → matVec M S.nbasis solIm i = uIm i) (a b : K) :
    (∀ i, i < S.nbasis → matVec M S.nbasis (fun j => a * solRe j + b * solIm j) i = a * uRe i + b * uIm i) ∧
    (∀ i, i < S.nbasis →
      evalSpline1D S.t S.nk S.degree (computeInterpolant1D S.periodic S.nbasis S.degree solRe c0) (xs i) false = some (uRe i) ∧
      evalSpline1D S.t S.nk S.degree (computeInterpolant1D S.periodic S.nbasis S.degree solIm c0) (xs i) false = some (uIm i)) := by
  refine ⟨fun i hi => ?_, fun i hi => ⟨interp_reproduces_1d S hadm xs M hM uRe solRe c0 hRe i hi,
    interp_reproduces_1d S hadm xs M hM uIm solIm c0 hIm i hi⟩⟩
  rw [← hRe i hi, ← hIm i hi]
  simp only [matVec, mul_sum, ← sum_add_distrib]
  apply sum_congr rfl
  intro j _
  ring

/-- instance: the complex data `u + i·u` on `Interp.Inst` -/
example := interp_complex_componentwise Inst.S Inst.hadm Inst.xs Inst.M Inst.hM Inst.u Inst.u Inst.sol Inst.sol (fun _ => 0)
  Inst.hsol Inst.hsol 2 (-3)

/-! ### banded storage -/

/-- **banded_index_roundtrip.** `(i,j) ↦ (u+l+i-j, j)` is a bijection between the entries of an `n×n` matrix inside the band
    (`l` sub-, `u` super-diagonals) and the cells of `bmat` (`1+u+2l` rows) that hold a matrix entry; its inverse is
    `(r,j) ↦ (r+j-(u+l), j)`; the first `l` rows of `bmat` hold no entry (LAPACK's fill-in space) -/
theorem banded_index_roundtrip (n u l : ℕ) :
    (∀ i j, i < n → j < n → InBand u l i j →
        InStore n u l (bandRow u l i j) j ∧ bandInv u l (bandRow u l i j) j = i) ∧
    (∀ r j, InStore n u l r j →
        bandInv u l r j < n ∧ InBand u l (bandInv u l r j) j ∧ bandRow u l (bandInv u l r j) j = r) ∧
    (∀ i i' j, InBand u l i j → InBand u l i' j → bandRow u l i j = bandRow u l i' j → i = i') := by
  refine ⟨fun i j hi hj hb => ?_, fun r j hs => ?_, fun i i' j h h' e => ?_⟩
  · unfold InBand at hb; unfold InStore bandInv bandRow; omega
  · unfold InStore at hs; unfold InBand bandInv bandRow; omega
  · unfold InBand at h h'; unfold bandRow at e; omega

/-- what the factorisation is handed: `bmat[u+l+i-j, j] = M[i,j]` on the band, and every other cell of `bmat` is zero or a
    matrix entry outside the band -/
theorem bandedStore_entry (M : ℕ → ℕ → K) (n u l i j : ℕ) (hi : i < n) (hj : j < n) (hb : InBand u l i j) :
    bandedStore M n u l (bandRow u l i j) j = M i j := by
  have h := (banded_index_roundtrip n u l).1 i j hi hj hb
  unfold bandedStore
  have hs := h.1
  unfold InStore at hs
  rw [if_pos hs]
  have := h.2
  unfold bandInv at this
  rw [this]

example : bandedStore (fun i j => ((10 * i + j : ℕ) : ℚ)) 6 2 1 (bandRow 2 1 3 4) 4 = 34 := by
  rw [bandedStore_entry _ 6 2 1 3 4 (by decide) (by decide) (by unfold InBand; decide)]; norm_num

example : InBand 2 1 3 4 ∧ bandRow 2 1 3 4 = 2 ∧ bandInv 2 1 2 4 = 3 := by
  unfold InBand bandRow bandInv; decide

/-! ### 2-D -/

/-- **interp_reproduces_2d** (matrix level): with the first sweep solving `M₂ sol2[i1] = U[i1,:]` and the second sweep solving
    `M₁ sol1[i2] = (first-sweep coefficients)[:, i2]`, the coefficient array `W` left by the two sweeps and the wraps satisfies
    `M₁ W M₂ᵀ = U` -/
theorem interp_reproduces_2d (per1 : Bool) (n1 p1 : ℕ) (per2 : Bool) (n2 p2 : ℕ) (M1 M2 : ℕ → ℕ → K)
    (U sol2 sol1 w0 : ℕ → ℕ → K) (hp1 : per1 = true → p1 ≤ n1)
    (h2 : ∀ i1, i1 < n1 → ∀ i2, i2 < n2 → matVec M2 n2 (sol2 i1) i2 = U i1 i2)
    (h1 : ∀ i2, i2 < n2 → ∀ i1, i1 < n1 → matVec M1 n1 (sol1 i2) i1 = sweep1Data sol2 i2 i1) :
    ∀ i1, i1 < n1 → ∀ i2, i2 < n2 →
      ∑ j1 ∈ range n1, ∑ j2 ∈ range n2,
        M1 i1 j1 * interpolate2D per1 n1 p1 per2 n2 p2 sol2 sol1 w0 j1 j2 * M2 i2 j2 = U i1 i2 :=
  interp_reproduces_2d'' per1 n1 p1 per2 n2 p2 M1 M2 U sol2 sol1 _
    (fun j1 hj1 j2 hj2 => interpolate2D_inner per1 n1 p1 per2 n2 p2 sol2 sol1 w0 hp1 j1 j2 hj1 hj2) h2 h1

/-- **interp_reproduces_2d** (evaluation level): the tensor-product spline with the coefficient array left by
    `SplineInterpolator2D.compute_interpolant` takes the value `U[i1,i2]` at `(x1[i1], x2[i2])`, for all four
    clamped/periodic combinations -/
theorem interp_reproduces_2d_eval (S1 S2 : Space K) (h1adm : S1.Admissible) (h2adm : S2.Admissible)
    (x1 x2 : ℕ → K) (M1 M2 : ℕ → ℕ → K)
    (hM1 : ∀ i, i < S1.nbasis → collocationMatrix S1 x1 i = some (M1 i))
    (hM2 : ∀ i, i < S2.nbasis → collocationMatrix S2 x2 i = some (M2 i))
    (U sol2 sol1 w0 : ℕ → ℕ → K)
    (h2 : ∀ i1, i1 < S1.nbasis → ∀ i2, i2 < S2.nbasis → matVec M2 S2.nbasis (sol2 i1) i2 = U i1 i2)
    (h1 : ∀ i2, i2 < S2.nbasis → ∀ i1, i1 < S1.nbasis → matVec M1 S1.nbasis (sol1 i2) i1 = sweep1Data sol2 i2 i1) :
    ∀ i1, i1 < S1.nbasis → ∀ i2, i2 < S2.nbasis →
      evalSpline2D S1.t S1.nk S1.degree S2.t S2.nk S2.degree
        (interpolate2D S1.periodic S1.nbasis S1.degree S2.periodic S2.nbasis S2.degree sol2 sol1 w0)
        (x1 i1) (x2 i2) false false = some (U i1 i2) :=
  interp_reproduces_2d_eval' S1 S2 h1adm h2adm x1 x2 M1 M2 hM1 hM2 U sol2 sol1 w0 h2 h1

/-- rank-one instance on `Inst.S × Inst.S` (periodic × periodic, degree 2, both wraps active): `U = u ⊗ u` -/
example : evalSpline2D Inst.S.t Inst.S.nk Inst.S.degree Inst.S.t Inst.S.nk Inst.S.degree
    (interpolate2D true 3 2 true 3 2 Inst.sol2 Inst.sol1 (fun _ _ => 0)) (5/2) (1/2) false false = some (11/4) := by
  have := interp_reproduces_2d_eval Inst.S Inst.S Inst.hadm Inst.hadm Inst.xs Inst.xs Inst.M Inst.M Inst.hM Inst.hM
    Inst.U Inst.sol2 Inst.sol1 (fun _ _ => 0) Inst.h2 Inst.h1 2 (by decide) 0 (by decide)
  have e2 : Inst.xs 2 = 5/2 := by norm_num [Inst.xs]
  have e0 : Inst.xs 0 = 1/2 := by norm_num [Inst.xs]
  rw [e2, e0] at this
  rw [show (11/4 : ℚ) = Inst.U 2 0 by norm_num [Inst.U, Inst.u]]
  exact this

example := interp_reproduces_2d true 3 2 true 3 2 Inst.M Inst.M Inst.U Inst.sol2 Inst.sol1 (fun _ _ => 0) (fun _ => by decide)
  (by simpa [Inst.hnb] using Inst.h2) (by simpa [Inst.hnb] using Inst.h1)

/-! ### polynomial reproduction (partial) -/

/-- the full clause: on a clamped space the interpolant of the values of a polynomial `q` of degree `≤ p` is `q` on the whole
    domain.  It needs (a) unisolvence of the interpolation points (Schoenberg–Whitney) and (b) that `q` lies in the spline
    space (Marsden's identity); neither is proved here. -/
def poly_reproduction_statement (S : Space K) (xs : ℕ → K) (M : ℕ → ℕ → K) (q : K → K) : Prop :=
  S.periodic = false →
  (∀ i, i < S.nbasis → collocationMatrix S xs i = some (M i)) →
  (∃ a : ℕ → K, ∀ x, q x = ∑ k ∈ range (S.degree + 1), a k * x ^ k) →
  ∀ sol c0 : ℕ → K, (∀ i, i < S.nbasis → matVec M S.nbasis sol i = q (xs i)) →
    ∀ x, S.xmin ≤ x → x ≤ S.xmax →
      evalSpline1D S.t S.nk S.degree (computeInterpolant1D false S.nbasis S.degree sol c0) x false = some (q x)

/-- **poly_reproduction_partial.** Under the two stated hypotheses — `M` is injective on coefficient vectors and some coefficient
    vector `γ` represents `q` as a spline on the domain — the computed interpolant of the data `q(x_i)` equals `q` everywhere
    on the domain -/
theorem poly_reproduction_partial (S : Space K) (hadm : S.Admissible) (hper : S.periodic = false)
    (xs : ℕ → K) (M : ℕ → ℕ → K)
    (hM : ∀ i, i < S.nbasis → collocationMatrix S xs i = some (M i))
    (hinj : ∀ v : ℕ → K, (∀ i, i < S.nbasis → matVec M S.nbasis v i = 0) → ∀ j, j < S.nbasis → v j = 0)
    (q : K → K) (γ : ℕ → K) (dom : K → Prop)
    (hγ : ∀ x, dom x → evalSpline1D S.t S.nk S.degree γ x false = some (q x))
    (hxs : ∀ i, i < S.nbasis → dom (xs i))
    (sol c0 : ℕ → K) (hsol : ∀ i, i < S.nbasis → matVec M S.nbasis sol i = q (xs i)) :
    ∀ x, dom x →
      evalSpline1D S.t S.nk S.degree (computeInterpolant1D false S.nbasis S.degree sol c0) x false = some (q x) :=
  poly_reproduction_partial' S hadm hper xs M hM hinj q γ dom hγ hxs sol c0 hsol

/-- instance `Interp.Inst2` (degree 1, clamped, knots 0,0,1,2,2, `q(x) = 2x+1`, `γ = (1,3,5)`): the computed interpolant of the data
    `q(0), q(1), q(2)` takes the value `q(1/2) = 2` at the non-interpolation point `1/2` -/
example : evalSpline1D Inst2.S.t Inst2.S.nk Inst2.S.degree
    (computeInterpolant1D false Inst2.S.nbasis Inst2.S.degree Inst2.γ (fun _ => 0)) (1/2) false = some 2 := by
  have := poly_reproduction_partial Inst2.S Inst2.hadm rfl Inst2.xs Inst2.M Inst2.hM
    (fun v hv j hj => by
      rw [Inst2.hnb] at hv hj
      have := hv j hj
      rwa [Inst2.hmv v j hj] at this)
    Inst2.q Inst2.γ Inst2.dom Inst2.hγ
    (fun i hi => by
      rw [Inst2.hnb] at hi
      unfold Inst2.dom Inst2.xs
      interval_cases i <;> norm_num)
    Inst2.γ (fun _ => 0)
    (fun i hi => by
      rw [Inst2.hnb] at hi ⊢
      rw [Inst2.hmv _ i hi]
      simp [Inst2.γ, Inst2.q, Inst2.xs])
    (1/2) (Or.inr (Or.inl rfl))
  rw [this]
  norm_num [Inst2.q]

/-! ### the unpatched collocation matrix loses an entry for `ncells = degree` (witness of the old behaviour) -/

/-- degree 2, two cells, periodic, midpoint of a cell (`basis = [1/8, 3/4, 1/8]`, columns `0,1,0`): the assignment with a repeated
    column keeps `1/8` in column 0 where the repaired (accumulating) row has `1/4`; the row no longer sums to one -/
theorem lastWins_loses_entry :
    rowOfLastWins true 2 2 2 [(1/8 : ℚ), 3/4, 1/8] 0 = 1/8 ∧ rowOf true 2 2 2 [(1/8 : ℚ), 3/4, 1/8] 0 = 1/4 ∧
    rowOfLastWins true 2 2 2 [(1/8 : ℚ), 3/4, 1/8] 0 + rowOfLastWins true 2 2 2 [(1/8 : ℚ), 3/4, 1/8] 1 = 7/8 := by
  refine ⟨?_, ?_, ?_⟩ <;> norm_num [rowOfLastWins, rowOf, colIdx]

end PygyroVerif.C08
