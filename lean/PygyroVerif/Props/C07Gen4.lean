/-
C07, tie by translation, part 4: the VECTOR entry points `nu_eval_spline_1d_vector` (pygyro/splines/spline_eval_funcs.py) and
`cu_eval_spline_1d_vector` (pygyro/splines/cubic_uniform_spline_eval_funcs.py).  `Generated/EvalVectorGen.lean` is REGENERATED on every run
of `./check C07` (harness/translate_pure.py, target `evalvec`).  The two functions do not call the scalar evaluation: they DUPLICATE its
statements (span search, basis / derivative kernel, `y[i] = 0.0`, accumulation loop) inside `for i, xi in enumerate(x)`, once for
`der == 0` and once for `der == 1`, and they re-use ONE `basis` array for all points (the scalar function obtains a fresh one).

This file proves that the duplication is faithful: for every array `x` of every length, all knots / coefficients, `der ∈ {0, 1}`, every
content `U` of the uninitialised memory and every previous content `y0` of `y`: if the generated SCALAR evaluation
(`Generated/EvalSplineGen.lean` / `Generated/CubicUniformGen.lean`, tied to the models by Props/C07Gen2.lean / C07Gen3.lean) returns at
every `x[k]`, `k < len(x)`, then the generated vector function returns, `y[k]` is exactly the value the scalar function returns at
`x[k]` for every `k < len(x)`, and `y[k]` is untouched for `k ≥ len(x)`.  (Guard for the uniform-cubic one: `3 ≤ span` at every point,
i.e. no point left of the domain — negative indices are not modelled; same guard as `C07Gen3.gen_cu_eval_spline_1d_eq`.)
Corollaries tie the vector functions to the models (`BSpline.evalSpline1D`, `CubicUniform.cuEvalSpline1D`).
For `der ∉ {0, 1}` the vector functions leave `y` untouched (the scalar ones return a sum over the uninitialised `basis`).
-/
import PygyroVerif.Generated.EvalVectorGen
import PygyroVerif.Props.C07Gen2
import PygyroVerif.Props.C07Gen3

namespace PygyroVerif.C07Gen4
open PygyroVerif PygyroVerif.BSpline

/-! ## `nu_eval_spline_1d_vector` -/
section Nu
open PygyroVerif.Gen.BasisFuns PygyroVerif.Gen.EvalSpline PygyroVerif.Gen.EvalVectorNu
open PygyroVerif.Gen.EvalVectorNu.nu_eval_spline_1d_vector_

/-- the value both the scalar and the vector function compute at the point `x`, expressed with the GENERATED span search
    (0 when that search does not return: never used then) -/
def nuVal (U : ℕ → ℚ) (F : ℕ) (t : ℕ → ℚ) (nk degree : ℕ) (c : ℕ → ℚ) (der : Bool) (x : ℚ) : ℚ :=
  match nu_find_span_.run U F t nk degree x with
  | .ret τ => dotFrom c (τ.ret_ - degree) (basisOrDer t degree x τ.ret_ der)
  | _ => 0

/-- whenever the generated scalar evaluation returns, the generated span search returned and the value is `nuVal` -/
theorem scalar_ret (U : ℕ → ℚ) (F : ℕ) (t : ℕ → ℚ) (nk degree : ℕ) (c : ℕ → ℚ) (clen : ℕ) (x : ℚ) (der : Bool)
    (τs : nu_eval_spline_1d_scalar_.St)
    (h : nu_eval_spline_1d_scalar_.run U F x t nk degree c clen (if der then 1 else 0) = .ret τs) :
    (∃ τ, nu_find_span_.run U F t nk degree x = .ret τ) ∧ τs.ret_ = nuVal U F t nk degree c der x := by
  cases hfs : nu_find_span_.run U F t nk degree x with
  | raised e =>
    exfalso
    unfold nu_eval_spline_1d_scalar_.run at h
    simp only [hfs] at h
    cases h
  | outOfFuel =>
    exfalso
    unfold nu_eval_spline_1d_scalar_.run at h
    simp only [hfs] at h
    cases h
  | ret τ =>
    refine ⟨⟨τ, rfl⟩, ?_⟩
    have hv : nuVal U F t nk degree c der x = dotFrom c (τ.ret_ - degree) (basisOrDer t degree x τ.ret_ der) := by
      unfold nuVal
      rw [hfs]
    rw [hv]
    cases der with
    | false =>
      obtain ⟨β, hβ, hval, -⟩ := BasisFunsGen.run_eq U F t nk degree x τ.ret_ U (degree + 1)
      obtain ⟨σ', hrun, hret⟩ := C07Gen2.eval_tail U F
        { x := x, knots := t, knots_len := nk, degree := degree, coeffs := c, coeffs_len := clen, der := 0, span := τ.ret_,
          basis := β.values, basis_len := degree + 1 } false hval
      have h2 : nu_eval_spline_1d_scalar_.run U F x t nk degree c clen 0 = .ret σ' := by
        unfold nu_eval_spline_1d_scalar_.run
        simp only [hfs, hβ]
        exact hrun
      have h' : nu_eval_spline_1d_scalar_.run U F x t nk degree c clen 0 = .ret τs := h
      rw [h2] at h'
      rw [← Out.ret.inj h']
      exact hret
    | true =>
      obtain ⟨β, hβ, hval, -⟩ := EvalSplineGen.der_run_eq U F t nk degree x τ.ret_ U (degree + 1)
      obtain ⟨σ', hrun, hret⟩ := C07Gen2.eval_tail U F
        { x := x, knots := t, knots_len := nk, degree := degree, coeffs := c, coeffs_len := clen, der := 1, span := τ.ret_,
          basis := β.ders, basis_len := degree + 1 } true hval
      have h2 : nu_eval_spline_1d_scalar_.run U F x t nk degree c clen 1 = .ret σ' := by
        unfold nu_eval_spline_1d_scalar_.run
        simp only [hfs, hβ]
        exact hrun
      have h' : nu_eval_spline_1d_scalar_.run U F x t nk degree c clen 1 = .ret τs := h
      rw [h2] at h'
      rw [← Out.ret.inj h']
      exact hret

/-- the accumulated value in terms of the model's list, given that `basis[0..degree]` holds it -/
theorem sum_eq_dotFrom (c : ℕ → ℚ) (s degree : ℕ) (B : ℕ → ℚ) (L : List ℚ) (hL : L.length = degree + 1)
    (hB : ∀ k, k ≤ degree → B k = L.getD k 0) :
    (0 : ℚ) + ((List.range (degree + 1)).map (fun k => c (s + (0 + k)) * B (0 + k))).sum = dotFrom c s L := by
  rw [dotFrom_eq_sum, hL, zero_add]
  congr 1
  apply List.map_congr_left
  intro k hk
  rw [List.mem_range] at hk
  rw [Nat.zero_add, hB k (by omega)]

/-- `for j in range(degree+1): y[i] += coeffs[span-degree+j]*basis[j]` (the copy under `der == 0`) started at `j0` with `n` iterations
    left: only `y[σ.i]` changes -/
theorem nu_loop2_eq (U : ℕ → ℚ) (F : ℕ) : ∀ (n j0 : ℕ) (σ : St),
    ∃ J, nu_eval_spline_1d_vector_loop2 U F n j0 σ = .ok { σ with j := J, y := (fun k => if k = σ.i then
      σ.y σ.i + ((List.range n).map (fun k => σ.coeffs (σ.span - σ.degree + (j0 + k)) * σ.basis (j0 + k))).sum else σ.y k) } := by
  intro n
  induction n with
  | zero =>
    intro j0 σ
    refine ⟨σ.j, ?_⟩
    show Res.ok σ = _
    congr 1
    have : (fun k => if k = σ.i then
        σ.y σ.i + ((List.range 0).map (fun k => σ.coeffs (σ.span - σ.degree + (j0 + k)) * σ.basis (j0 + k))).sum else σ.y k) = σ.y := by
      funext k
      by_cases h : k = σ.i
      · rw [if_pos h, h]; simp
      · rw [if_neg h]
    rw [this]
  | succ n ih =>
    intro j0 σ
    let σ1 : St := { σ with j := j0, y := (fun k => if k = σ.i then
      σ.y σ.i + σ.coeffs (σ.span - σ.degree + j0) * σ.basis j0 else σ.y k) }
    obtain ⟨J, hrun⟩ := ih (j0 + 1) σ1
    refine ⟨J, ?_⟩
    show nu_eval_spline_1d_vector_loop2 U F n (j0 + 1) σ1 = _
    rw [hrun]
    congr 1
    show ({ σ1 with j := J, y := _ } : St) = { σ with j := J, y := _ }
    have : (fun k => if k = σ1.i then
          σ1.y σ1.i + ((List.range n).map (fun k => σ1.coeffs (σ1.span - σ1.degree + (j0 + 1 + k)) * σ1.basis (j0 + 1 + k))).sum
          else σ1.y k)
        = (fun k => if k = σ.i then
          σ.y σ.i + ((List.range (n + 1)).map (fun k => σ.coeffs (σ.span - σ.degree + (j0 + k)) * σ.basis (j0 + k))).sum
          else σ.y k) := by
      funext k
      show (if k = σ.i then
          (if σ.i = σ.i then σ.y σ.i + σ.coeffs (σ.span - σ.degree + j0) * σ.basis j0 else σ.y σ.i)
            + ((List.range n).map (fun k => σ.coeffs (σ.span - σ.degree + (j0 + 1 + k)) * σ.basis (j0 + 1 + k))).sum
          else (if k = σ.i then σ.y σ.i + σ.coeffs (σ.span - σ.degree + j0) * σ.basis j0 else σ.y k)) = _
      by_cases h : k = σ.i
      · rw [if_pos h, if_pos h, if_pos rfl, List.range_succ_eq_map]
        simp only [List.map_cons, List.sum_cons, List.map_map, Nat.add_zero]
        have : ((fun k => σ.coeffs (σ.span - σ.degree + (j0 + k)) * σ.basis (j0 + k)) ∘ Nat.succ)
            = (fun k => σ.coeffs (σ.span - σ.degree + (j0 + 1 + k)) * σ.basis (j0 + 1 + k)) := by
          funext k
          simp only [Function.comp, Nat.succ_eq_add_one]
          rw [show j0 + (k + 1) = j0 + 1 + k by omega]
        rw [this]
        ring
      · rw [if_neg h, if_neg h, if_neg h]
    rw [this]

/-- outer loop `for i, xi in enumerate(x)` under `der == 0`, started at `i` with `n` iterations left: whenever the span search returns at the
    points `x[i .. i+n)`, the loop ends normally, `y[i .. i+n)` receive `nuVal` at those points and no other entry of `y` changes — whatever
    the shared `basis` array holds on entry -/
theorem nu_loop1_eq (U : ℕ → ℚ) (F : ℕ) : ∀ (n i : ℕ) (σ : St),
    (∀ k, i ≤ k → k < i + n → ∃ τ, nu_find_span_.run U F σ.knots σ.knots_len σ.degree (σ.x k) = .ret τ) →
    ∃ σ', nu_eval_spline_1d_vector_loop1 U F n i σ = .ok σ' ∧
      ∀ k, σ'.y k = if i ≤ k ∧ k < i + n then nuVal U F σ.knots σ.knots_len σ.degree σ.coeffs false (σ.x k) else σ.y k := by
  intro n
  induction n with
  | zero =>
    intro i σ _
    exact ⟨σ, rfl, fun k => by rw [if_neg (by omega)]⟩
  | succ n ih =>
    intro i σ hfs
    obtain ⟨τ, hτ⟩ := hfs i (le_refl i) (by omega)
    obtain ⟨β, hβ, hval, -⟩ := BasisFunsGen.run_eq U F σ.knots σ.knots_len σ.degree (σ.x i) τ.ret_ σ.basis σ.basis_len
    -- the state when the accumulation loop starts
    let σ0 : St := { σ with y := (fun k => if k = i then (0 : ℚ) else σ.y k), basis := β.values, i := i, xi := σ.x i, span := τ.ret_ }
    obtain ⟨J, h2⟩ := nu_loop2_eq U F (σ0.degree + 1 - 0) 0 σ0
    -- the state after it
    let σ1 : St := { σ0 with j := J, y := (fun k => if k = σ0.i then
      σ0.y σ0.i + ((List.range (σ0.degree + 1 - 0)).map (fun k => σ0.coeffs (σ0.span - σ0.degree + (0 + k)) * σ0.basis (0 + k))).sum
      else σ0.y k) }
    obtain ⟨σ', hrun, hy⟩ := ih (i + 1) σ1 (fun k h1 h2 => hfs k (by omega) (by omega))
    have hstep : nu_eval_spline_1d_vector_loop1 U F (n + 1) i σ = nu_eval_spline_1d_vector_loop1 U F n (i + 1) σ1 := by
      rw [nu_eval_spline_1d_vector_loop1]
      simp only [hτ, hβ]
      rw [h2]
    refine ⟨σ', by rw [hstep, hrun], fun k => ?_⟩
    rw [hy k]
    show (if i + 1 ≤ k ∧ k < i + 1 + n then nuVal U F σ.knots σ.knots_len σ.degree σ.coeffs false (σ.x k)
      else (if k = i then
        (if i = i then (0 : ℚ) else σ.y i)
          + ((List.range (σ.degree + 1 - 0)).map (fun k => σ.coeffs (τ.ret_ - σ.degree + (0 + k)) * β.values (0 + k))).sum
        else (if k = i then (0 : ℚ) else σ.y k))) = _
    by_cases h1 : i + 1 ≤ k ∧ k < i + 1 + n
    · rw [if_pos h1, if_pos ⟨by omega, by omega⟩]
    · rw [if_neg h1]
      by_cases h2 : k = i
      · rw [if_pos h2, if_pos rfl, if_pos ⟨by omega, by omega⟩, h2, Nat.sub_zero]
        have hv : nuVal U F σ.knots σ.knots_len σ.degree σ.coeffs false (σ.x i)
            = dotFrom σ.coeffs (τ.ret_ - σ.degree) (basisOrDer σ.knots σ.degree (σ.x i) τ.ret_ false) := by
          unfold nuVal
          rw [hτ]
        rw [hv]
        exact sum_eq_dotFrom σ.coeffs (τ.ret_ - σ.degree) σ.degree β.values _ (basisOrDer_length _ _ _ _ _) hval
      · rw [if_neg h2, if_neg h2, if_neg (by omega)]

/-- `for j in range(degree+1): y[i] += coeffs[span-degree+j]*basis[j]` (the copy under `der == 1`) started at `j0` with `n` iterations
    left: only `y[σ.i]` changes -/
theorem nu_loop4_eq (U : ℕ → ℚ) (F : ℕ) : ∀ (n j0 : ℕ) (σ : St),
    ∃ J, nu_eval_spline_1d_vector_loop4 U F n j0 σ = .ok { σ with j := J, y := (fun k => if k = σ.i then
      σ.y σ.i + ((List.range n).map (fun k => σ.coeffs (σ.span - σ.degree + (j0 + k)) * σ.basis (j0 + k))).sum else σ.y k) } := by
  intro n
  induction n with
  | zero =>
    intro j0 σ
    refine ⟨σ.j, ?_⟩
    show Res.ok σ = _
    congr 1
    have : (fun k => if k = σ.i then
        σ.y σ.i + ((List.range 0).map (fun k => σ.coeffs (σ.span - σ.degree + (j0 + k)) * σ.basis (j0 + k))).sum else σ.y k) = σ.y := by
      funext k
      by_cases h : k = σ.i
      · rw [if_pos h, h]; simp
      · rw [if_neg h]
    rw [this]
  | succ n ih =>
    intro j0 σ
    let σ1 : St := { σ with j := j0, y := (fun k => if k = σ.i then
      σ.y σ.i + σ.coeffs (σ.span - σ.degree + j0) * σ.basis j0 else σ.y k) }
    obtain ⟨J, hrun⟩ := ih (j0 + 1) σ1
    refine ⟨J, ?_⟩
    show nu_eval_spline_1d_vector_loop4 U F n (j0 + 1) σ1 = _
    rw [hrun]
    congr 1
    show ({ σ1 with j := J, y := _ } : St) = { σ with j := J, y := _ }
    have : (fun k => if k = σ1.i then
          σ1.y σ1.i + ((List.range n).map (fun k => σ1.coeffs (σ1.span - σ1.degree + (j0 + 1 + k)) * σ1.basis (j0 + 1 + k))).sum
          else σ1.y k)
        = (fun k => if k = σ.i then
          σ.y σ.i + ((List.range (n + 1)).map (fun k => σ.coeffs (σ.span - σ.degree + (j0 + k)) * σ.basis (j0 + k))).sum
          else σ.y k) := by
      funext k
      show (if k = σ.i then
          (if σ.i = σ.i then σ.y σ.i + σ.coeffs (σ.span - σ.degree + j0) * σ.basis j0 else σ.y σ.i)
            + ((List.range n).map (fun k => σ.coeffs (σ.span - σ.degree + (j0 + 1 + k)) * σ.basis (j0 + 1 + k))).sum
          else (if k = σ.i then σ.y σ.i + σ.coeffs (σ.span - σ.degree + j0) * σ.basis j0 else σ.y k)) = _
      by_cases h : k = σ.i
      · rw [if_pos h, if_pos h, if_pos rfl, List.range_succ_eq_map]
        simp only [List.map_cons, List.sum_cons, List.map_map, Nat.add_zero]
        have : ((fun k => σ.coeffs (σ.span - σ.degree + (j0 + k)) * σ.basis (j0 + k)) ∘ Nat.succ)
            = (fun k => σ.coeffs (σ.span - σ.degree + (j0 + 1 + k)) * σ.basis (j0 + 1 + k)) := by
          funext k
          simp only [Function.comp, Nat.succ_eq_add_one]
          rw [show j0 + (k + 1) = j0 + 1 + k by omega]
        rw [this]
        ring
      · rw [if_neg h, if_neg h, if_neg h]
    rw [this]

/-- outer loop `for i, xi in enumerate(x)` under `der == 1`, started at `i` with `n` iterations left: whenever the span search returns at the
    points `x[i .. i+n)`, the loop ends normally, `y[i .. i+n)` receive `nuVal` at those points and no other entry of `y` changes — whatever
    the shared `basis` array holds on entry -/
theorem nu_loop3_eq (U : ℕ → ℚ) (F : ℕ) : ∀ (n i : ℕ) (σ : St),
    (∀ k, i ≤ k → k < i + n → ∃ τ, nu_find_span_.run U F σ.knots σ.knots_len σ.degree (σ.x k) = .ret τ) →
    ∃ σ', nu_eval_spline_1d_vector_loop3 U F n i σ = .ok σ' ∧
      ∀ k, σ'.y k = if i ≤ k ∧ k < i + n then nuVal U F σ.knots σ.knots_len σ.degree σ.coeffs true (σ.x k) else σ.y k := by
  intro n
  induction n with
  | zero =>
    intro i σ _
    exact ⟨σ, rfl, fun k => by rw [if_neg (by omega)]⟩
  | succ n ih =>
    intro i σ hfs
    obtain ⟨τ, hτ⟩ := hfs i (le_refl i) (by omega)
    obtain ⟨β, hβ, hval, -⟩ := EvalSplineGen.der_run_eq U F σ.knots σ.knots_len σ.degree (σ.x i) τ.ret_ σ.basis σ.basis_len
    -- the state when the accumulation loop starts
    let σ0 : St := { σ with y := (fun k => if k = i then (0 : ℚ) else σ.y k), basis := β.ders, i := i, xi := σ.x i, span := τ.ret_ }
    obtain ⟨J, h2⟩ := nu_loop4_eq U F (σ0.degree + 1 - 0) 0 σ0
    -- the state after it
    let σ1 : St := { σ0 with j := J, y := (fun k => if k = σ0.i then
      σ0.y σ0.i + ((List.range (σ0.degree + 1 - 0)).map (fun k => σ0.coeffs (σ0.span - σ0.degree + (0 + k)) * σ0.basis (0 + k))).sum
      else σ0.y k) }
    obtain ⟨σ', hrun, hy⟩ := ih (i + 1) σ1 (fun k h1 h2 => hfs k (by omega) (by omega))
    have hstep : nu_eval_spline_1d_vector_loop3 U F (n + 1) i σ = nu_eval_spline_1d_vector_loop3 U F n (i + 1) σ1 := by
      rw [nu_eval_spline_1d_vector_loop3]
      simp only [hτ, hβ]
      rw [h2]
    refine ⟨σ', by rw [hstep, hrun], fun k => ?_⟩
    rw [hy k]
    show (if i + 1 ≤ k ∧ k < i + 1 + n then nuVal U F σ.knots σ.knots_len σ.degree σ.coeffs true (σ.x k)
      else (if k = i then
        (if i = i then (0 : ℚ) else σ.y i)
          + ((List.range (σ.degree + 1 - 0)).map (fun k => σ.coeffs (τ.ret_ - σ.degree + (0 + k)) * β.ders (0 + k))).sum
        else (if k = i then (0 : ℚ) else σ.y k))) = _
    by_cases h1 : i + 1 ≤ k ∧ k < i + 1 + n
    · rw [if_pos h1, if_pos ⟨by omega, by omega⟩]
    · rw [if_neg h1]
      by_cases h2 : k = i
      · rw [if_pos h2, if_pos rfl, if_pos ⟨by omega, by omega⟩, h2, Nat.sub_zero]
        have hv : nuVal U F σ.knots σ.knots_len σ.degree σ.coeffs true (σ.x i)
            = dotFrom σ.coeffs (τ.ret_ - σ.degree) (basisOrDer σ.knots σ.degree (σ.x i) τ.ret_ true) := by
          unfold nuVal
          rw [hτ]
        rw [hv]
        exact sum_eq_dotFrom σ.coeffs (τ.ret_ - σ.degree) σ.degree β.ders _ (basisOrDer_length _ _ _ _ _) hval
      · rw [if_neg h2, if_neg h2, if_neg (by omega)]

/-- the whole call in terms of `nuVal`: whenever the span search returns at every point, the call returns, `y[k] = nuVal x[k]` for
    `k < len(x)`, the rest of `y` is untouched -/
theorem nu_run_eq (U : ℕ → ℚ) (F : ℕ) (x : ℕ → ℚ) (xlen : ℕ) (t : ℕ → ℚ) (nk degree : ℕ) (c : ℕ → ℚ) (clen : ℕ) (y0 : ℕ → ℚ) (ylen : ℕ)
    (der : Bool) (hfs : ∀ k, k < xlen → ∃ τ, nu_find_span_.run U F t nk degree (x k) = .ret τ) :
    ∃ σ', run U F x xlen t nk degree c clen y0 ylen (if der then 1 else 0) = .ret σ' ∧
      ∀ k, σ'.y k = if k < xlen then nuVal U F t nk degree c der (x k) else y0 k := by
  cases der with
  | false =>
    let σ0 : St := { x := x, x_len := xlen, knots := t, knots_len := nk, degree := degree, coeffs := c, coeffs_len := clen, y := y0,
                     y_len := ylen, der := 0, basis := U, basis_len := degree + 1 }
    obtain ⟨σ', hrun, hy⟩ := nu_loop1_eq U F xlen 0 σ0 (fun k _ h => hfs k (by omega))
    refine ⟨σ', ?_, fun k => ?_⟩
    · show (match nu_eval_spline_1d_vector_loop1 U F xlen 0 σ0 with
        | .ok σ => Out.ret σ
        | .done o => o) = _
      rw [hrun]
    · rw [hy k]
      show (if 0 ≤ k ∧ k < 0 + xlen then nuVal U F t nk degree c false (x k) else y0 k) = _
      by_cases h : k < xlen
      · rw [if_pos h, if_pos ⟨by omega, by omega⟩]
      · rw [if_neg h, if_neg (by omega)]
  | true =>
    let σ0 : St := { x := x, x_len := xlen, knots := t, knots_len := nk, degree := degree, coeffs := c, coeffs_len := clen, y := y0,
                     y_len := ylen, der := 1, basis := U, basis_len := degree + 1 }
    obtain ⟨σ', hrun, hy⟩ := nu_loop3_eq U F xlen 0 σ0 (fun k _ h => hfs k (by omega))
    refine ⟨σ', ?_, fun k => ?_⟩
    · show (match nu_eval_spline_1d_vector_loop3 U F xlen 0 σ0 with
        | .ok σ => Out.ret σ
        | .done o => o) = _
      rw [hrun]
    · rw [hy k]
      show (if 0 ≤ k ∧ k < 0 + xlen then nuVal U F t nk degree c true (x k) else y0 k) = _
      by_cases h : k < xlen
      · rw [if_pos h, if_pos ⟨by omega, by omega⟩]
      · rw [if_neg h, if_neg (by omega)]

/-- **the generated `nu_eval_spline_1d_vector` writes what the generated `nu_eval_spline_1d_scalar` returns**: for every array `x` of every
    length, knots, degree, coefficients, `der ∈ {0, 1}`, fuel, contents `U` of uninitialised memory and previous contents `y0` of `y`: if the
    scalar function returns at every `x[k]`, `k < len(x)`, the vector function returns, `y[k]` is the scalar function's result at `x[k]`
    for every `k < len(x)`, and `y[k]` is what it was for `k ≥ len(x)` -/
theorem gen_nu_eval_vector_eq (U : ℕ → ℚ) (F : ℕ) (x : ℕ → ℚ) (xlen : ℕ) (t : ℕ → ℚ) (nk degree : ℕ) (c : ℕ → ℚ) (clen : ℕ)
    (y0 : ℕ → ℚ) (ylen : ℕ) (der : Bool)
    (hs : ∀ k, k < xlen → ∃ τ, nu_eval_spline_1d_scalar_.run U F (x k) t nk degree c clen (if der then 1 else 0) = .ret τ) :
    ∃ σ', run U F x xlen t nk degree c clen y0 ylen (if der then 1 else 0) = .ret σ' ∧
      (∀ k, k < xlen → ∀ τ, nu_eval_spline_1d_scalar_.run U F (x k) t nk degree c clen (if der then 1 else 0) = .ret τ →
        σ'.y k = τ.ret_) ∧
      (∀ k, xlen ≤ k → σ'.y k = y0 k) := by
  obtain ⟨σ', hrun, hy⟩ := nu_run_eq U F x xlen t nk degree c clen y0 ylen der (fun k hk => by
    obtain ⟨τ, hτ⟩ := hs k hk
    exact (scalar_ret U F t nk degree c clen (x k) der τ hτ).1)
  refine ⟨σ', hrun, fun k hk τ hτ => ?_, fun k hk => ?_⟩
  · rw [hy k, if_pos hk, (scalar_ret U F t nk degree c clen (x k) der τ hτ).2]
  · rw [hy k, if_neg (by omega)]

/-- **on sorted knots with a non-degenerate domain the SOURCE's vector evaluation terminates and writes the model's values**:
    `y[k] = evalSpline1D … x[k]` for `k < len(x)`, the rest of `y` untouched -/
theorem gen_nu_eval_vector_total (U : ℕ → ℚ) (F : ℕ) (x : ℕ → ℚ) (xlen : ℕ) (t : ℕ → ℚ) (ht : Monotone t) (nk degree : ℕ) (c : ℕ → ℚ)
    (clen : ℕ) (y0 : ℕ → ℚ) (ylen : ℕ) (der : Bool) (hdom : t degree < t (nk - 1 - degree)) (hF : (nk - 1 - degree) - degree + 1 ≤ F) :
    ∃ σ', run U F x xlen t nk degree c clen y0 ylen (if der then 1 else 0) = .ret σ' ∧
      (∀ k, k < xlen → evalSpline1D t nk degree c (x k) der = some (σ'.y k)) ∧ (∀ k, xlen ≤ k → σ'.y k = y0 k) := by
  obtain ⟨σ', hrun, hin, hout⟩ := gen_nu_eval_vector_eq U F x xlen t nk degree c clen y0 ylen der (fun k _ => by
    obtain ⟨τ, hτ, -⟩ := C07Gen2.gen_eval_spline_1d_total U F t ht nk degree c clen (x k) der hdom hF
    exact ⟨τ, hτ⟩)
  refine ⟨σ', hrun, fun k hk => ?_, hout⟩
  obtain ⟨τ, hτ, hm⟩ := C07Gen2.gen_eval_spline_1d_total U F t ht nk degree c clen (x k) der hdom hF
  rw [hin k hk τ hτ]
  exact hm

/-- for `der ∉ {0, 1}` the vector function does nothing: `y` is returned as it was -/
theorem gen_nu_eval_vector_other_der (U : ℕ → ℚ) (F : ℕ) (x : ℕ → ℚ) (xlen : ℕ) (t : ℕ → ℚ) (nk degree : ℕ) (c : ℕ → ℚ) (clen : ℕ)
    (y0 : ℕ → ℚ) (ylen : ℕ) (der : ℕ) (hder : 2 ≤ der) :
    ∃ σ', run U F x xlen t nk degree c clen y0 ylen der = .ret σ' ∧ σ'.y = y0 := by
  refine ⟨{ x := x, x_len := xlen, knots := t, knots_len := nk, degree := degree, coeffs := c, coeffs_len := clen, y := y0,
            y_len := ylen, der := der, basis := U, basis_len := degree + 1 }, ?_, rfl⟩
  unfold run
  simp only
  rw [if_neg (by omega), if_neg (by omega)]

/-! concrete instance (the data of Props/C07Gen2.lean): cubic knots `0,0,0,0,1,2,4,4,4,4`, coefficients `1,-2,3,5,-1,2`, points
    `x = [5/2, 1/2, 3]` (and a fourth entry that must not be read), uninitialised memory holds 7, `y` holds 9 before the call -/
def cX : ℕ → ℚ := fun k => ([5 / 2, 1 / 2, 3, 1000] : List ℚ).getD k 0

example (c : ℕ → ℚ) (x : ℕ → ℚ) (der : Bool) : ∃ σ', run (fun _ => 7) 5 x 3 C07Gen2.qKnots 10 3 c 6 (fun _ => 9) 3 (if der then 1 else 0) = .ret σ' ∧
    (∀ k, k < 3 → evalSpline1D C07Gen2.qKnots 10 3 c (x k) der = some (σ'.y k)) ∧ (∀ k, 3 ≤ k → σ'.y k = 9) :=
  gen_nu_eval_vector_total (fun _ => 7) 5 x 3 C07Gen2.qKnots C07Gen2.qKnots_mono 10 3 c 6 (fun _ => 9) 3 der
    (by norm_num [C07Gen2.qKnots]) (by norm_num)
/-- the generated code itself, evaluated (`der = 0` and `der = 1`; /repo's floats: 2.703125, -0.1875, 1.4583…; -2.53125, 2.625, -2.125) -/
example : ([0, 1].map fun der => match run (fun _ => 7) 5 cX 3 C07Gen2.cKnots 10 3 C07Gen2.cCoeffs 6 (fun _ => 9) 3 der with
    | .ret σ => (List.range 5).map σ.y | _ => []) =
    [[173 / 64, -3 / 16, 35 / 24, 9, 9], [-81 / 32, 21 / 8, -17 / 8, 9, 9]] := by decide +kernel
/-- … and it is, entry by entry, what the generated SCALAR function returns at the three points -/
example : ([0, 1].map fun der => match run (fun _ => 7) 5 cX 3 C07Gen2.cKnots 10 3 C07Gen2.cCoeffs 6 (fun _ => 9) 3 der with
    | .ret σ => (List.range 3).map σ.y | _ => []) =
    ([0, 1].map fun der => (List.range 3).map fun k =>
      match nu_eval_spline_1d_scalar_.run (fun _ => 7) 5 (cX k) C07Gen2.cKnots 10 3 C07Gen2.cCoeffs 6 der with
      | .ret τ => τ.ret_ | _ => 0) := by decide +kernel

end Nu

/-! ## `cu_eval_spline_1d_vector` -/
section Cu
open PygyroVerif.CubicUniform
open PygyroVerif.Gen.CubicUniform PygyroVerif.Gen.EvalVectorCu
open PygyroVerif.Gen.EvalVectorCu.cu_eval_spline_1d_vector_

/-- the four accumulation steps `y += coeffs[span-3+j]*basis[j]`, with the index computed the way the generated code does
    (`Int.toNat`: for `span < 3` this is NOT Python's negative index, in the scalar and in the vector function alike) -/
def cuDot4 (c : ℕ → ℚ) (s : ℤ) (B : ℕ → ℚ) : ℚ :=
  ((List.range 4).map (fun k => c (Int.toNat (s - 3 + ((0 + k : ℕ) : ℤ))) * B (0 + k))).sum

theorem cuDot4_congr (c : ℕ → ℚ) (s : ℤ) (B B' : ℕ → ℚ) (h : ∀ j, j < 4 → B j = B' j) : cuDot4 c s B = cuDot4 c s B' := by
  unfold cuDot4
  congr 1
  apply List.map_congr_left
  intro k hk
  rw [List.mem_range] at hk
  rw [h (0 + k) (by omega)]

/-- the value both the scalar and the vector function compute at the point `x` -/
def cuVal (knots : ℕ → ℚ) (c : ℕ → ℚ) (der : Bool) (x : ℚ) : ℚ :=
  (0 : ℚ) + cuDot4 c (cuFindSpan pyInt (knots 0) (knots 2) x (pyInt (knots 3))).1
    (fun j => (cuBasisOrDer (cuFindSpan pyInt (knots 0) (knots 2) x (pyInt (knots 3))).2 (knots 2) der).getD j 0)

theorem getD_of_map_range4 (B : ℕ → ℚ) (L : List ℚ) (h : (List.range 4).map B = L) : ∀ j, j < 4 → B j = L.getD j 0 := by
  intro j hj
  rw [← h, getD_map_range', if_pos hj]

/-- the part of `cu_eval_spline_1d_scalar` after the basis array has been filled -/
theorem cu_scalar_tail (U : ℕ → ℚ) (F : ℕ) (σ : cu_eval_spline_1d_scalar_.St) :
    ∃ σ', (match cu_eval_spline_1d_scalar_.cu_eval_spline_1d_scalar_loop1 U F (4 - 0) 0 { σ with y := 0 } with
        | .ok σ => Out.ret { σ with ret_ := σ.y }
        | .done o => o) = .ret σ' ∧
      σ'.ret_ = (0 : ℚ) + cuDot4 σ.coeffs σ.span σ.basis := by
  refine ⟨_, rfl, ?_⟩
  show (0 : ℚ) + σ.coeffs (Int.toNat (σ.span - 3 + ((0 : ℕ) : ℤ))) * σ.basis 0
      + σ.coeffs (Int.toNat (σ.span - 3 + ((0 + 1 : ℕ) : ℤ))) * σ.basis (0 + 1)
      + σ.coeffs (Int.toNat (σ.span - 3 + ((0 + 1 + 1 : ℕ) : ℤ))) * σ.basis (0 + 1 + 1)
      + σ.coeffs (Int.toNat (σ.span - 3 + ((0 + 1 + 1 + 1 : ℕ) : ℤ))) * σ.basis (0 + 1 + 1 + 1) = _
  simp only [cuDot4, List.range_succ, List.range_zero, List.nil_append, List.cons_append, List.map_cons, List.map_nil,
    List.sum_cons, List.sum_nil]
  ring

/-- **the generated `cu_eval_spline_1d_scalar` always returns, and its result is `cuVal`** (no guard: both sides use the generated index) -/
theorem cu_scalar_eq (U : ℕ → ℚ) (F : ℕ) (x : ℚ) (knots : ℕ → ℚ) (klen : ℕ) (degree : ℤ) (c : ℕ → ℚ) (clen : ℕ) (der : Bool) :
    ∃ σ', cu_eval_spline_1d_scalar_.run U F x knots klen degree c clen (if der then 1 else 0) = .ret σ' ∧
      σ'.ret_ = cuVal knots c der x := by
  obtain ⟨τ, hτ, hpair⟩ := C07Gen3.gen_cu_find_span_eq U F (knots 0) (knots 1) (knots 2) x (pyInt (knots 3))
  have h0 : τ.ret0_ = (cuFindSpan pyInt (knots 0) (knots 2) x (pyInt (knots 3))).1 := congrArg Prod.fst hpair
  have h1 : τ.ret1_ = (cuFindSpan pyInt (knots 0) (knots 2) x (pyInt (knots 3))).2 := congrArg Prod.snd hpair
  unfold cuVal
  rw [← h0, ← h1]
  cases der with
  | false =>
    obtain ⟨β, hβ, hval, -⟩ := C07Gen3.gen_cu_basis_funs_eq U F τ.ret0_ τ.ret1_ U 4
    obtain ⟨σ', hrun, hret⟩ := cu_scalar_tail U F
      { x := x, knots := knots, knots_len := klen, degree := degree, coeffs := c, coeffs_len := clen, der := 0,
        xmin := knots 0, xmax := knots 1, dx := knots 2, f_ncells_x := knots 3, ncells_x := pyInt (knots 3),
        span := τ.ret0_, offset := τ.ret1_, basis := β.values, basis_len := 4 }
    refine ⟨σ', ?_, ?_⟩
    · show cu_eval_spline_1d_scalar_.run U F x knots klen degree c clen 0 = _
      unfold cu_eval_spline_1d_scalar_.run
      simp only [hτ, hβ]
      exact hrun
    · rw [hret]
      congr 1
      exact cuDot4_congr c τ.ret0_ _ _ (getD_of_map_range4 β.values (cuBasisOrDer τ.ret1_ (knots 2) false) hval)
  | true =>
    obtain ⟨β, hβ, hval, -⟩ := C07Gen3.gen_cu_basis_funs_1st_der_eq U F τ.ret0_ τ.ret1_ (knots 2) U 4
    obtain ⟨σ', hrun, hret⟩ := cu_scalar_tail U F
      { x := x, knots := knots, knots_len := klen, degree := degree, coeffs := c, coeffs_len := clen, der := 1,
        xmin := knots 0, xmax := knots 1, dx := knots 2, f_ncells_x := knots 3, ncells_x := pyInt (knots 3),
        span := τ.ret0_, offset := τ.ret1_, basis := β.ders, basis_len := 4 }
    refine ⟨σ', ?_, ?_⟩
    · show cu_eval_spline_1d_scalar_.run U F x knots klen degree c clen 1 = _
      unfold cu_eval_spline_1d_scalar_.run
      simp only [hτ, hβ]
      exact hrun
    · rw [hret]
      congr 1
      exact cuDot4_congr c τ.ret0_ _ _ (getD_of_map_range4 β.ders (cuBasisOrDer τ.ret1_ (knots 2) true) hval)

/-- `for j in range(4): y[i] += coeffs[span-3+j]*basis[j]` (the copy under `der == 0`) started at `j0` with `n` iterations left:
    only `y[σ.i]` changes -/
theorem cu_loop2_eq (U : ℕ → ℚ) (F : ℕ) : ∀ (n j0 : ℕ) (σ : St),
    ∃ J, cu_eval_spline_1d_vector_loop2 U F n j0 σ = .ok { σ with j := J, y := (fun k => if k = σ.i then
      σ.y σ.i + ((List.range n).map (fun k => σ.coeffs (Int.toNat (σ.span - 3 + ((j0 + k : ℕ) : ℤ))) * σ.basis (j0 + k))).sum
      else σ.y k) } := by
  intro n
  induction n with
  | zero =>
    intro j0 σ
    refine ⟨σ.j, ?_⟩
    show Res.ok σ = _
    congr 1
    have : (fun k => if k = σ.i then
        σ.y σ.i + ((List.range 0).map (fun k => σ.coeffs (Int.toNat (σ.span - 3 + ((j0 + k : ℕ) : ℤ))) * σ.basis (j0 + k))).sum
        else σ.y k) = σ.y := by
      funext k
      by_cases h : k = σ.i
      · rw [if_pos h, h]; simp
      · rw [if_neg h]
    rw [this]
  | succ n ih =>
    intro j0 σ
    let σ1 : St := { σ with j := j0, y := (fun k => if k = σ.i then
      σ.y σ.i + σ.coeffs (Int.toNat (σ.span - 3 + (j0 : ℤ))) * σ.basis j0 else σ.y k) }
    obtain ⟨J, hrun⟩ := ih (j0 + 1) σ1
    refine ⟨J, ?_⟩
    show cu_eval_spline_1d_vector_loop2 U F n (j0 + 1) σ1 = _
    rw [hrun]
    congr 1
    show ({ σ1 with j := J, y := _ } : St) = { σ with j := J, y := _ }
    have : (fun k => if k = σ1.i then
          σ1.y σ1.i + ((List.range n).map (fun k => σ1.coeffs (Int.toNat (σ1.span - 3 + ((j0 + 1 + k : ℕ) : ℤ))) * σ1.basis (j0 + 1 + k))).sum
          else σ1.y k)
        = (fun k => if k = σ.i then
          σ.y σ.i + ((List.range (n + 1)).map (fun k => σ.coeffs (Int.toNat (σ.span - 3 + ((j0 + k : ℕ) : ℤ))) * σ.basis (j0 + k))).sum
          else σ.y k) := by
      funext k
      show (if k = σ.i then
          (if σ.i = σ.i then σ.y σ.i + σ.coeffs (Int.toNat (σ.span - 3 + (j0 : ℤ))) * σ.basis j0 else σ.y σ.i)
            + ((List.range n).map (fun k => σ.coeffs (Int.toNat (σ.span - 3 + ((j0 + 1 + k : ℕ) : ℤ))) * σ.basis (j0 + 1 + k))).sum
          else (if k = σ.i then σ.y σ.i + σ.coeffs (Int.toNat (σ.span - 3 + (j0 : ℤ))) * σ.basis j0 else σ.y k)) = _
      by_cases h : k = σ.i
      · rw [if_pos h, if_pos h, if_pos rfl, List.range_succ_eq_map]
        simp only [List.map_cons, List.sum_cons, List.map_map, Nat.add_zero]
        have : ((fun k => σ.coeffs (Int.toNat (σ.span - 3 + ((j0 + k : ℕ) : ℤ))) * σ.basis (j0 + k)) ∘ Nat.succ)
            = (fun k => σ.coeffs (Int.toNat (σ.span - 3 + ((j0 + 1 + k : ℕ) : ℤ))) * σ.basis (j0 + 1 + k)) := by
          funext k
          simp only [Function.comp, Nat.succ_eq_add_one]
          rw [show j0 + (k + 1) = j0 + 1 + k by omega]
        rw [this]
        ring
      · rw [if_neg h, if_neg h, if_neg h]
    rw [this]

/-- outer loop `for i, xi in enumerate(x)` under `der == 0`, started at `i` with `n` iterations left: `y[i .. i+n)` receive `cuVal` at
    those points and no other entry of `y` changes — whatever the shared `basis` array holds on entry -/
theorem cu_loop1_eq (U : ℕ → ℚ) (F : ℕ) (knots : ℕ → ℚ) : ∀ (n i : ℕ) (σ : St),
    σ.xmin = knots 0 → σ.xmax = knots 1 → σ.dx = knots 2 → σ.ncells_x = pyInt (knots 3) →
    ∃ σ', cu_eval_spline_1d_vector_loop1 U F n i σ = .ok σ' ∧
      ∀ k, σ'.y k = if i ≤ k ∧ k < i + n then cuVal knots σ.coeffs false (σ.x k) else σ.y k := by
  intro n
  induction n with
  | zero =>
    intro i σ _ _ _ _
    exact ⟨σ, rfl, fun k => by rw [if_neg (by omega)]⟩
  | succ n ih =>
    intro i σ hmin hmax hdx hnc
    obtain ⟨τ, hτ, hpair⟩ := C07Gen3.gen_cu_find_span_eq U F σ.xmin σ.xmax σ.dx (σ.x i) σ.ncells_x
    obtain ⟨β, hβ, hval, -⟩ := C07Gen3.gen_cu_basis_funs_eq U F τ.ret0_ τ.ret1_ σ.basis σ.basis_len
    -- the state when the accumulation loop starts
    let σ0 : St := { σ with y := (fun k => if k = i then (0 : ℚ) else σ.y k), basis := β.values, i := i, xi := σ.x i, span := τ.ret0_, offset := τ.ret1_ }
    obtain ⟨J, h2⟩ := cu_loop2_eq U F (4 - 0) 0 σ0
    -- the state after it
    let σ1 : St := { σ0 with j := J, y := (fun k => if k = σ0.i then
      σ0.y σ0.i + ((List.range (4 - 0)).map (fun k => σ0.coeffs (Int.toNat (σ0.span - 3 + ((0 + k : ℕ) : ℤ))) * σ0.basis (0 + k))).sum
      else σ0.y k) }
    obtain ⟨σ', hrun, hy⟩ := ih (i + 1) σ1 hmin hmax hdx hnc
    have hstep : cu_eval_spline_1d_vector_loop1 U F (n + 1) i σ = cu_eval_spline_1d_vector_loop1 U F n (i + 1) σ1 := by
      rw [cu_eval_spline_1d_vector_loop1]
      simp only [hτ, hβ]
      rw [h2]
    refine ⟨σ', by rw [hstep, hrun], fun k => ?_⟩
    rw [hy k]
    show (if i + 1 ≤ k ∧ k < i + 1 + n then cuVal knots σ.coeffs false (σ.x k)
      else (if k = i then
        (if i = i then (0 : ℚ) else σ.y i)
          + ((List.range (4 - 0)).map (fun k => σ.coeffs (Int.toNat (τ.ret0_ - 3 + ((0 + k : ℕ) : ℤ))) * β.values (0 + k))).sum
        else (if k = i then (0 : ℚ) else σ.y k))) = _
    by_cases h1 : i + 1 ≤ k ∧ k < i + 1 + n
    · rw [if_pos h1, if_pos ⟨by omega, by omega⟩]
    · rw [if_neg h1]
      by_cases h2 : k = i
      · rw [if_pos h2, if_pos rfl, if_pos ⟨by omega, by omega⟩, h2]
        rw [hmin, hdx, hnc] at hpair
        have h0 : τ.ret0_ = (cuFindSpan pyInt (knots 0) (knots 2) (σ.x i) (pyInt (knots 3))).1 := congrArg Prod.fst hpair
        have h1 : τ.ret1_ = (cuFindSpan pyInt (knots 0) (knots 2) (σ.x i) (pyInt (knots 3))).2 := congrArg Prod.snd hpair
        unfold cuVal
        rw [← h0, ← h1]
        congr 1
        exact cuDot4_congr σ.coeffs τ.ret0_ _ _ (getD_of_map_range4 β.values (cuBasisOrDer τ.ret1_ (knots 2) false) hval)
      · rw [if_neg h2, if_neg h2, if_neg (by omega)]

/-- `for j in range(4): y[i] += coeffs[span-3+j]*basis[j]` (the copy under `der == 1`) started at `j0` with `n` iterations left:
    only `y[σ.i]` changes -/
theorem cu_loop4_eq (U : ℕ → ℚ) (F : ℕ) : ∀ (n j0 : ℕ) (σ : St),
    ∃ J, cu_eval_spline_1d_vector_loop4 U F n j0 σ = .ok { σ with j := J, y := (fun k => if k = σ.i then
      σ.y σ.i + ((List.range n).map (fun k => σ.coeffs (Int.toNat (σ.span - 3 + ((j0 + k : ℕ) : ℤ))) * σ.basis (j0 + k))).sum
      else σ.y k) } := by
  intro n
  induction n with
  | zero =>
    intro j0 σ
    refine ⟨σ.j, ?_⟩
    show Res.ok σ = _
    congr 1
    have : (fun k => if k = σ.i then
        σ.y σ.i + ((List.range 0).map (fun k => σ.coeffs (Int.toNat (σ.span - 3 + ((j0 + k : ℕ) : ℤ))) * σ.basis (j0 + k))).sum
        else σ.y k) = σ.y := by
      funext k
      by_cases h : k = σ.i
      · rw [if_pos h, h]; simp
      · rw [if_neg h]
    rw [this]
  | succ n ih =>
    intro j0 σ
    let σ1 : St := { σ with j := j0, y := (fun k => if k = σ.i then
      σ.y σ.i + σ.coeffs (Int.toNat (σ.span - 3 + (j0 : ℤ))) * σ.basis j0 else σ.y k) }
    obtain ⟨J, hrun⟩ := ih (j0 + 1) σ1
    refine ⟨J, ?_⟩
    show cu_eval_spline_1d_vector_loop4 U F n (j0 + 1) σ1 = _
    rw [hrun]
    congr 1
    show ({ σ1 with j := J, y := _ } : St) = { σ with j := J, y := _ }
    have : (fun k => if k = σ1.i then
          σ1.y σ1.i + ((List.range n).map (fun k => σ1.coeffs (Int.toNat (σ1.span - 3 + ((j0 + 1 + k : ℕ) : ℤ))) * σ1.basis (j0 + 1 + k))).sum
          else σ1.y k)
        = (fun k => if k = σ.i then
          σ.y σ.i + ((List.range (n + 1)).map (fun k => σ.coeffs (Int.toNat (σ.span - 3 + ((j0 + k : ℕ) : ℤ))) * σ.basis (j0 + k))).sum
          else σ.y k) := by
      funext k
      show (if k = σ.i then
          (if σ.i = σ.i then σ.y σ.i + σ.coeffs (Int.toNat (σ.span - 3 + (j0 : ℤ))) * σ.basis j0 else σ.y σ.i)
            + ((List.range n).map (fun k => σ.coeffs (Int.toNat (σ.span - 3 + ((j0 + 1 + k : ℕ) : ℤ))) * σ.basis (j0 + 1 + k))).sum
          else (if k = σ.i then σ.y σ.i + σ.coeffs (Int.toNat (σ.span - 3 + (j0 : ℤ))) * σ.basis j0 else σ.y k)) = _
      by_cases h : k = σ.i
      · rw [if_pos h, if_pos h, if_pos rfl, List.range_succ_eq_map]
        simp only [List.map_cons, List.sum_cons, List.map_map, Nat.add_zero]
        have : ((fun k => σ.coeffs (Int.toNat (σ.span - 3 + ((j0 + k : ℕ) : ℤ))) * σ.basis (j0 + k)) ∘ Nat.succ)
            = (fun k => σ.coeffs (Int.toNat (σ.span - 3 + ((j0 + 1 + k : ℕ) : ℤ))) * σ.basis (j0 + 1 + k)) := by
          funext k
          simp only [Function.comp, Nat.succ_eq_add_one]
          rw [show j0 + (k + 1) = j0 + 1 + k by omega]
        rw [this]
        ring
      · rw [if_neg h, if_neg h, if_neg h]
    rw [this]

/-- outer loop `for i, xi in enumerate(x)` under `der == 1`, started at `i` with `n` iterations left: `y[i .. i+n)` receive `cuVal` at
    those points and no other entry of `y` changes — whatever the shared `basis` array holds on entry -/
theorem cu_loop3_eq (U : ℕ → ℚ) (F : ℕ) (knots : ℕ → ℚ) : ∀ (n i : ℕ) (σ : St),
    σ.xmin = knots 0 → σ.xmax = knots 1 → σ.dx = knots 2 → σ.ncells_x = pyInt (knots 3) →
    ∃ σ', cu_eval_spline_1d_vector_loop3 U F n i σ = .ok σ' ∧
      ∀ k, σ'.y k = if i ≤ k ∧ k < i + n then cuVal knots σ.coeffs true (σ.x k) else σ.y k := by
  intro n
  induction n with
  | zero =>
    intro i σ _ _ _ _
    exact ⟨σ, rfl, fun k => by rw [if_neg (by omega)]⟩
  | succ n ih =>
    intro i σ hmin hmax hdx hnc
    obtain ⟨τ, hτ, hpair⟩ := C07Gen3.gen_cu_find_span_eq U F σ.xmin σ.xmax σ.dx (σ.x i) σ.ncells_x
    obtain ⟨β, hβ, hval, -⟩ := C07Gen3.gen_cu_basis_funs_1st_der_eq U F τ.ret0_ τ.ret1_ σ.dx σ.basis σ.basis_len
    -- the state when the accumulation loop starts
    let σ0 : St := { σ with y := (fun k => if k = i then (0 : ℚ) else σ.y k), basis := β.ders, i := i, xi := σ.x i, span := τ.ret0_, offset := τ.ret1_ }
    obtain ⟨J, h2⟩ := cu_loop4_eq U F (4 - 0) 0 σ0
    -- the state after it
    let σ1 : St := { σ0 with j := J, y := (fun k => if k = σ0.i then
      σ0.y σ0.i + ((List.range (4 - 0)).map (fun k => σ0.coeffs (Int.toNat (σ0.span - 3 + ((0 + k : ℕ) : ℤ))) * σ0.basis (0 + k))).sum
      else σ0.y k) }
    obtain ⟨σ', hrun, hy⟩ := ih (i + 1) σ1 hmin hmax hdx hnc
    have hstep : cu_eval_spline_1d_vector_loop3 U F (n + 1) i σ = cu_eval_spline_1d_vector_loop3 U F n (i + 1) σ1 := by
      rw [cu_eval_spline_1d_vector_loop3]
      simp only [hτ, hβ]
      rw [h2]
    refine ⟨σ', by rw [hstep, hrun], fun k => ?_⟩
    rw [hy k]
    show (if i + 1 ≤ k ∧ k < i + 1 + n then cuVal knots σ.coeffs true (σ.x k)
      else (if k = i then
        (if i = i then (0 : ℚ) else σ.y i)
          + ((List.range (4 - 0)).map (fun k => σ.coeffs (Int.toNat (τ.ret0_ - 3 + ((0 + k : ℕ) : ℤ))) * β.ders (0 + k))).sum
        else (if k = i then (0 : ℚ) else σ.y k))) = _
    by_cases h1 : i + 1 ≤ k ∧ k < i + 1 + n
    · rw [if_pos h1, if_pos ⟨by omega, by omega⟩]
    · rw [if_neg h1]
      by_cases h2 : k = i
      · rw [if_pos h2, if_pos rfl, if_pos ⟨by omega, by omega⟩, h2]
        rw [hmin, hdx, hnc] at hpair
        rw [hdx] at hval
        have h0 : τ.ret0_ = (cuFindSpan pyInt (knots 0) (knots 2) (σ.x i) (pyInt (knots 3))).1 := congrArg Prod.fst hpair
        have h1 : τ.ret1_ = (cuFindSpan pyInt (knots 0) (knots 2) (σ.x i) (pyInt (knots 3))).2 := congrArg Prod.snd hpair
        unfold cuVal
        rw [← h0, ← h1]
        congr 1
        exact cuDot4_congr σ.coeffs τ.ret0_ _ _ (getD_of_map_range4 β.ders (cuBasisOrDer τ.ret1_ (knots 2) true) hval)
      · rw [if_neg h2, if_neg h2, if_neg (by omega)]

/-- **the generated `cu_eval_spline_1d_vector` writes what the generated `cu_eval_spline_1d_scalar` returns**: for every array `x` of every
    length, every 4-array `knots = [xmin, xmax, dx, ncells]`, `degree`, coefficients, `der ∈ {0, 1}`, fuel, contents `U` of uninitialised memory
    and previous contents `y0` of `y`: the vector function returns, the scalar function returns at every `x[k]`, `y[k]` is the scalar
    function's result at `x[k]` for every `k < len(x)`, and `y[k]` is what it was for `k ≥ len(x)`.  No guard: for a point left of the domain
    (`span < 3`) both generated functions use the same `Int.toNat` index (Python would use a negative index there: not modelled) -/
theorem gen_cu_eval_vector_eq (U : ℕ → ℚ) (F : ℕ) (x : ℕ → ℚ) (xlen : ℕ) (knots : ℕ → ℚ) (klen : ℕ) (degree : ℤ) (c : ℕ → ℚ) (clen : ℕ)
    (y0 : ℕ → ℚ) (ylen : ℕ) (der : Bool) :
    ∃ σ', run U F x xlen knots klen degree c clen y0 ylen (if der then 1 else 0) = .ret σ' ∧
      (∀ k, k < xlen → ∃ τ, cu_eval_spline_1d_scalar_.run U F (x k) knots klen degree c clen (if der then 1 else 0) = .ret τ ∧
        σ'.y k = τ.ret_) ∧
      (∀ k, xlen ≤ k → σ'.y k = y0 k) := by
  cases der with
  | false =>
    let σ0 : St := { x := x, x_len := xlen, knots := knots, knots_len := klen, degree := degree, coeffs := c, coeffs_len := clen, y := y0,
                     y_len := ylen, der := 0, xmin := knots 0, xmax := knots 1, dx := knots 2, f_ncells_x := knots 3,
                     ncells_x := pyInt (knots 3), basis := U, basis_len := 4 }
    obtain ⟨σ', hrun, hy⟩ := cu_loop1_eq U F knots xlen 0 σ0 rfl rfl rfl rfl
    refine ⟨σ', ?_, fun k hk => ?_, fun k hk => ?_⟩
    · show (match cu_eval_spline_1d_vector_loop1 U F xlen 0 σ0 with
        | .ok σ => Out.ret σ
        | .done o => o) = _
      rw [hrun]
    · obtain ⟨τ, hτ, hv⟩ := cu_scalar_eq U F (x k) knots klen degree c clen false
      refine ⟨τ, hτ, ?_⟩
      rw [hy k, hv]
      show (if 0 ≤ k ∧ k < 0 + xlen then cuVal knots c false (x k) else y0 k) = _
      rw [if_pos ⟨by omega, by omega⟩]
    · rw [hy k]
      show (if 0 ≤ k ∧ k < 0 + xlen then cuVal knots c false (x k) else y0 k) = _
      rw [if_neg (by omega)]
  | true =>
    let σ0 : St := { x := x, x_len := xlen, knots := knots, knots_len := klen, degree := degree, coeffs := c, coeffs_len := clen, y := y0,
                     y_len := ylen, der := 1, xmin := knots 0, xmax := knots 1, dx := knots 2, f_ncells_x := knots 3,
                     ncells_x := pyInt (knots 3), basis := U, basis_len := 4 }
    obtain ⟨σ', hrun, hy⟩ := cu_loop3_eq U F knots xlen 0 σ0 rfl rfl rfl rfl
    refine ⟨σ', ?_, fun k hk => ?_, fun k hk => ?_⟩
    · show (match cu_eval_spline_1d_vector_loop3 U F xlen 0 σ0 with
        | .ok σ => Out.ret σ
        | .done o => o) = _
      rw [hrun]
    · obtain ⟨τ, hτ, hv⟩ := cu_scalar_eq U F (x k) knots klen degree c clen true
      refine ⟨τ, hτ, ?_⟩
      rw [hy k, hv]
      show (if 0 ≤ k ∧ k < 0 + xlen then cuVal knots c true (x k) else y0 k) = _
      rw [if_pos ⟨by omega, by omega⟩]
    · rw [hy k]
      show (if 0 ≤ k ∧ k < 0 + xlen then cuVal knots c true (x k) else y0 k) = _
      rw [if_neg (by omega)]

/-- **tie to the model**: where no point is left of the domain (`3 ≤ span` at every `x[k]`; the guard of `C07Gen3.gen_cu_eval_spline_1d_eq`)
    the SOURCE's uniform-cubic vector evaluation writes `cuEvalSpline1D … x[k]` into `y[k]`, `k < len(x)`, the rest of `y` untouched -/
theorem gen_cu_eval_vector_model (U : ℕ → ℚ) (F : ℕ) (x : ℕ → ℚ) (xlen : ℕ) (knots : ℕ → ℚ) (klen : ℕ) (degree : ℤ) (c : ℕ → ℚ) (clen : ℕ)
    (y0 : ℕ → ℚ) (ylen : ℕ) (der : Bool)
    (hs : ∀ k, k < xlen → 3 ≤ (cuFindSpan pyInt (knots 0) (knots 2) (x k) (pyInt (knots 3))).1) :
    ∃ σ', run U F x xlen knots klen degree c clen y0 ylen (if der then 1 else 0) = .ret σ' ∧
      (∀ k, k < xlen → σ'.y k = cuEvalSpline1D pyInt (knots 0) (knots 2) (pyInt (knots 3)) c (x k) der) ∧
      (∀ k, xlen ≤ k → σ'.y k = y0 k) := by
  obtain ⟨σ', hrun, hin, hout⟩ := gen_cu_eval_vector_eq U F x xlen knots klen degree c clen y0 ylen der
  refine ⟨σ', hrun, fun k hk => ?_, hout⟩
  obtain ⟨τ, hτ, hv⟩ := hin k hk
  obtain ⟨τ', hτ', hm⟩ := C07Gen3.gen_cu_eval_spline_1d_eq U F (x k) knots klen degree c clen der (hs k hk)
  rw [hτ] at hτ'
  rw [hv, Out.ret.inj hτ', hm]

/-- for `der ∉ {0, 1}` the vector function does nothing: `y` is returned as it was -/
theorem gen_cu_eval_vector_other_der (U : ℕ → ℚ) (F : ℕ) (x : ℕ → ℚ) (xlen : ℕ) (knots : ℕ → ℚ) (klen : ℕ) (degree : ℤ) (c : ℕ → ℚ)
    (clen : ℕ) (y0 : ℕ → ℚ) (ylen : ℕ) (der : ℤ) (h0 : der ≠ 0) (h1 : der ≠ 1) :
    ∃ σ', run U F x xlen knots klen degree c clen y0 ylen der = .ret σ' ∧ σ'.y = y0 := by
  refine ⟨{ x := x, x_len := xlen, knots := knots, knots_len := klen, degree := degree, coeffs := c, coeffs_len := clen, y := y0,
            y_len := ylen, der := der, xmin := knots 0, xmax := knots 1, dx := knots 2, f_ncells_x := knots 3,
            ncells_x := pyInt (knots 3), basis := U, basis_len := 4 }, ?_, rfl⟩
  unfold run
  simp only
  rw [if_neg h0, if_neg h1]

/-! concrete instance (the data of Props/C07Gen3.lean): `knots = [0, 2, 1/2, 4]`, coefficients `1,-2,3,5,-1,2,4`, points `x = [5/4, 1/4, 2]`
    (the last one is the right end point: `span == ncells` branch), uninitialised memory holds 7, `y` holds 9 before the call -/
def cXc : ℕ → ℚ := fun k => ([5 / 4, 1 / 4, 2, 1000] : List ℚ).getD k 0

example (der : Bool) : ∃ σ', run (fun _ => 7) 0 cXc 3 C07Gen3.cKnots 4 3 C07Gen3.cCoeffs 7 (fun _ => 9) 3 (if der then 1 else 0) = .ret σ' ∧
    (∀ k, k < 3 → ∃ τ, cu_eval_spline_1d_scalar_.run (fun _ => 7) 0 (cXc k) C07Gen3.cKnots 4 3 C07Gen3.cCoeffs 7 (if der then 1 else 0) = .ret τ ∧
      σ'.y k = τ.ret_) ∧ (∀ k, 3 ≤ k → σ'.y k = 9) :=
  gen_cu_eval_vector_eq (fun _ => 7) 0 cXc 3 C07Gen3.cKnots 4 3 C07Gen3.cCoeffs 7 (fun _ => 9) 3 der
theorem cSpans : ∀ k, k < 3 → 3 ≤ (cuFindSpan pyInt (C07Gen3.cKnots 0) (C07Gen3.cKnots 2) (cXc k) (pyInt (C07Gen3.cKnots 3))).1 := by
  decide +kernel
example (der : Bool) : ∃ σ', run (fun _ => 7) 0 cXc 3 C07Gen3.cKnots 4 3 C07Gen3.cCoeffs 7 (fun _ => 9) 3 (if der then 1 else 0) = .ret σ' ∧
    (∀ k, k < 3 → σ'.y k = cuEvalSpline1D pyInt (C07Gen3.cKnots 0) (C07Gen3.cKnots 2) (pyInt (C07Gen3.cKnots 3)) C07Gen3.cCoeffs (cXc k) der) ∧
    (∀ k, 3 ≤ k → σ'.y k = 9) :=
  gen_cu_eval_vector_model (fun _ => 7) 0 cXc 3 C07Gen3.cKnots 4 3 C07Gen3.cCoeffs 7 (fun _ => 9) 3 der cSpans
/-- the generated code itself, evaluated (`der = 0` and `der = 1`; /repo's floats: 2.0208…, 0.6041…, 1.8333…; -7.75, 7.25, 5.0) -/
example : ([0, 1].map fun der => match run (fun _ => 7) 0 cXc 3 C07Gen3.cKnots 4 3 C07Gen3.cCoeffs 7 (fun _ => 9) 3 der with
    | .ret σ => (List.range 5).map σ.y | _ => []) =
    [[97 / 48, 29 / 48, 11 / 6, 9, 9], [-31 / 4, 29 / 4, 5, 9, 9]] := by decide +kernel

end Cu

end PygyroVerif.C07Gen4
