/-
C14 — Elliptic solver returns the per-mode Galerkin solution of the radial equation.

Model: `PygyroVerif/Model/Poisson.lean` (transcription of `DiffEqSolver.__init__`, `solveEquation`, `_solveMode`,
`_solveModeFunc`).  Level "other": the decision logic (boundary slices, refusal, storage of the assembled bands,
buffer handling) and the algebra (symmetry, linearity, what each assembled entry is) are proved here; that the
quadrature sums are the integrals of the weak form for piecewise polynomials (exactness for manufactured
solutions) and the contracts of `leggauss`/`spsolve`/`compute_interpolant` are covered by the correspondence
check and its oracles.
-/
import PygyroVerif.Model.Poisson
import PygyroVerif.Lemmas.Poisson
import Mathlib.Algebra.Order.Field.Rat
import Mathlib.Tactic.Ring
import Mathlib.Tactic.Linarith
import Mathlib.Tactic.NormNum

namespace PygyroVerif.C14

open Finset PygyroVerif.Poisson PygyroVerif.PoissonLemmas

/-! ### boundary slices -/

theorem lNeumann_nonempty (c : BCConfig) (I : ℕ) (h : lNeumann c I = true) : c.lNeu.length ≠ 0 := by
  unfold lNeumann at h
  have hm : mVal c.N I ∈ c.lNeu := of_decide_eq_true h
  intro h0
  rw [List.length_eq_zero_iff] at h0
  rw [h0] at hm
  exact absurd hm (List.not_mem_nil)

theorem uNeumann_nonempty (c : BCConfig) (I : ℕ) (h : uNeumann c I = true) : c.uNeu.length ≠ 0 := by
  unfold uNeumann at h
  have hm : mVal c.N I ∈ c.uNeu := of_decide_eq_true h
  intro h0
  rw [List.length_eq_zero_iff] at h0
  rw [h0] at hm
  exact absurd hm (List.not_mem_nil)

/-- For every mode `I` and every Dirichlet/Neumann choice (any lists `lNeumannIdx`, `uNeumannIdx`, also with entries
    that are no mode numbers): the slice of the matrices (`_stiffness_range[I]`, relative to the already sliced
    `[start_range:end_range]` matrices) and the slice of the coefficient buffer (`_coeff_range[I]`) have equal
    length and address the same basis functions (`start_range + stiff index = coefficient index`), both lie inside
    their arrays, and the coefficients *outside* the slice are exactly index 0 for a lower Dirichlet mode and
    index `nbasis-1` for an upper Dirichlet mode. -/
theorem slices_consistent (c : BCConfig) (I : ℕ) (hnb : 2 ≤ c.nb) :
    (stiffRange c I).1 ≤ (stiffRange c I).2 ∧ (stiffRange c I).2 ≤ nUnknowns c ∧
    (coeffRange c I).1 ≤ (coeffRange c I).2 ∧ (coeffRange c I).2 ≤ c.nb ∧
    (stiffRange c I).2 - (stiffRange c I).1 = (coeffRange c I).2 - (coeffRange c I).1 ∧
    startRange c + (stiffRange c I).1 = (coeffRange c I).1 ∧
    startRange c + (stiffRange c I).2 = (coeffRange c I).2 ∧
    startRange c + nUnknowns c = endRange c ∧ endRange c ≤ c.nb ∧
    (coeffRange c I).1 = (if lNeumann c I then 0 else 1) ∧
    (coeffRange c I).2 = (if uNeumann c I then c.nb else c.nb - 1) := by
  have hl := lNeumann_nonempty c I
  have hu := uNeumann_nonempty c I
  unfold stiffRange coeffRange nUnknowns endRange startRange exclEnd
  dsimp only
  generalize lNeumann c I = L at *
  generalize uNeumann c I = U at *
  generalize c.lNeu.length = a at *
  generalize c.uNeu.length = b at *
  generalize c.nb = n at *
  cases L <;> cases U <;> simp only [Bool.false_eq_true, if_false, if_true, forall_const, false_implies] at hl hu ⊢ <;>
    split_ifs <;> refine ⟨?_, ?_, ?_, ?_, ?_, ?_, ?_, ?_, ?_, ?_, ?_⟩ <;> first | trivial | omega

/-- instance: the quasi-neutrality configuration (`lNeumannIdx=[0]`), 8 basis functions, 5 modes; mode 0 keeps
    coefficients 0..6, the other modes 1..6 -/
example : coeffRange (qnConfig 8 5) 0 = (0, 7) ∧ stiffRange (qnConfig 8 5) 0 = (0, 7) ∧
    coeffRange (qnConfig 8 5) 3 = (1, 7) ∧ stiffRange (qnConfig 8 5) 3 = (1, 7) ∧ startRange (qnConfig 8 5) = 0 := by
  decide

/-! ### refusal of ill-posed problems -/

/-- `funcIsNull` decides "the function vanishes at every evaluation point" -/
theorem funcIsNull_iff {K : Type*} [Field K] [DecidableEq K] (f : ℕ → ℕ → K) (ncells nq : ℕ) :
    funcIsNull f ncells nq = true ↔ ∀ c, c < ncells → ∀ q, q < nq → f c q = 0 := by
  unfold funcIsNull
  simp only [List.all_eq_true, List.mem_range, decide_eq_true_eq]

/-- The constructor raises `ValueError` **iff** some number `b` occurs in both Neumann lists and the reaction term of that
    mode, `rFactor − b²·ddThetaFactor`, vanishes at all quadrature points (`null b`). -/
theorem neumann_refusal_iff (c : BCConfig) (null : ℤ → Bool) :
    refuses c null = true ↔ ∃ b, b ∈ c.lNeu ∧ b ∈ c.uNeu ∧ null b = true := by
  unfold refuses poorlyDefined
  rw [bne_iff_ne, Ne, List.length_eq_zero_iff, List.filter_eq_nil_iff]
  constructor
  · intro h
    by_contra hne
    refine h (fun b hb hb2 => hne ⟨b, hb, ?_⟩)
    rw [Bool.and_eq_true] at hb2
    exact ⟨of_decide_eq_true hb2.1, hb2.2⟩
  · rintro ⟨b, hb, hb2, hn⟩ h
    exact h b hb (by rw [Bool.and_eq_true]; exact ⟨decide_eq_true hb2, hn⟩)

/-- Consequently an accepted solver has no mode that is Neumann at both ends unless the reaction term of THAT mode is present. -/
theorem accepted_has_no_pure_neumann_mode (c : BCConfig) (null : ℤ → Bool)
    (hacc : refuses c null = false) (I : ℕ) (hL : lNeumann c I = true) (hU : uNeumann c I = true) :
    null (mVal c.N I) = false := by
  cases hn : null (mVal c.N I)
  · rfl
  · exfalso
    have : refuses c null = true :=
      (neumann_refusal_iff c null).2 ⟨mVal c.N I, of_decide_eq_true hL, of_decide_eq_true hU, hn⟩
    rw [hacc] at this
    exact Bool.false_ne_true this

/-- **refusal = ill-posedness** (with `null b` the test of the code on the tables of `C` and `D` at the quadrature points): the
    constructor refuses iff for some `b` in both Neumann lists `C = b²·D` at every quadrature point — the discrete operator of
    that mode then annihilates the constants and nothing fixes them. -/
theorem refusal_iff_ill_posed {K : Type*} [Field K] [DecidableEq K] (c : BCConfig) (C D : ℕ → ℕ → K) (ncells nq : ℕ) :
    refuses c (fun b => funcIsNull (fun cc q => C cc q - (b : K) * (b : K) * D cc q) ncells nq) = true ↔
      ∃ b, b ∈ c.lNeu ∧ b ∈ c.uNeu ∧ ∀ cc, cc < ncells → ∀ q, q < nq → C cc q = (b : K) * (b : K) * D cc q := by
  rw [neumann_refusal_iff]
  constructor
  · rintro ⟨b, h1, h2, h3⟩
    exact ⟨b, h1, h2, fun cc hc q hq => sub_eq_zero.1 ((funcIsNull_iff _ ncells nq).1 h3 cc hc q hq)⟩
  · rintro ⟨b, h1, h2, h3⟩
    exact ⟨b, h1, h2, (funcIsNull_iff _ ncells nq).2 (fun cc hc q hq => sub_eq_zero.2 (h3 cc hc q hq))⟩

example : refuses { nb := 6, N := 4, lNeu := [0, 1], uNeu := [1] } (fun _ => true) = true ∧
    refuses { nb := 6, N := 4, lNeu := [0, 1], uNeu := [1] } (fun _ => false) = false ∧
    refuses { nb := 6, N := 4, lNeu := [0, 1], uNeu := [1] } (fun b => b == 0) = false ∧
    refuses { nb := 6, N := 4, lNeu := [0], uNeu := [1] } (fun _ => true) = false := by decide

/-- **the test before F33 was wrong in both directions** (`decide`): with `C = 4 D ≠ 0` the mode `m = 2`, Neumann at both ends, is
    ill-posed (`null 2`) yet `rFactor` is not null — accepted; with `C = 0`, `D ≠ 0` the mode `m = 1` is well-posed (only `null 0`)
    yet `rFactor` is null — refused.  The repaired test refuses the first and accepts the second. -/
theorem refusal_before_F33_wrong :
    refusesOld { nb := 6, N := 8, lNeu := [2], uNeu := [2] } false = false ∧
    refuses { nb := 6, N := 8, lNeu := [2], uNeu := [2] } (fun b => b == 2) = true ∧
    refusesOld { nb := 6, N := 8, lNeu := [1], uNeu := [1] } true = true ∧
    refuses { nb := 6, N := 8, lNeu := [1], uNeu := [1] } (fun b => b == 0) = false := by decide

/-! ### the assembled matrices -/

variable {K : Type*} [Field K]

theorem overlap_comm (d ncells i s : ℕ) : overlap d ncells i s = overlap d ncells s i := by
  unfold overlap; rw [max_comm, min_comm]

theorem quadSum_congr (Q : Quad K) (se : ℕ × ℕ) (g g' : ℕ → ℕ → K) (h : ∀ c q, g c q = g' c q) :
    quadSum Q se g = quadSum Q se g' := by
  have : g = g' := funext (fun c => funext (h c))
  rw [this]

/-- Every entry of the five assembled `nbasis × nbasis` matrices (`sparse.diags` of the diagonals filled by the
    loops :239-274, before slicing) is the Gauss–Legendre sum over the cells where the two basis functions overlap
    of the stated integrand, `r` = row = test function `ψ = B_r`, `c` = column = trial function `φ = B_c`:

    * mass      `E φ ψ r`,  k2PhiPsi `D φ ψ r`,  PhiPsi `C φ ψ r`   (factor `r` = the evaluation point `x`)
    * dPhidPsi  `(-A) φ' ψ' r  +  (-A) φ' ψ`   (second derivative integrated by parts: `(ψ r)' = ψ' r + ψ`)
    * dPhiPsi   `B φ' ψ r`

    and zero outside the band `|r - c| ≤ degree`. -/
theorem assembled_is_quadrature_weak_form (d nb : ℕ) (Q : Quad K) (co : Coefs K) (P dP : ℕ → ℕ → ℕ → K)
    (r c : ℕ) (hr : r < nb) (hc : c < nb) :
    let A := assemble d nb Q co P dP
    let ov := overlap d Q.ncells r c
    let band : Prop := ¬ (c + d < r ∨ r + d < c)
    (¬ band → A.mass r c = 0 ∧ A.k2 r c = 0 ∧ A.phiPsi r c = 0 ∧ A.dPhidPsi r c = 0 ∧ A.dPhiPsi r c = 0) ∧
    (band →
      A.mass r c = quadSum Q ov (fun e q => co.E e q * P c e q * P r e q * Q.x e q) ∧
      A.k2 r c = quadSum Q ov (fun e q => co.D e q * P c e q * P r e q * Q.x e q) ∧
      A.phiPsi r c = quadSum Q ov (fun e q => co.C e q * P c e q * P r e q * Q.x e q) ∧
      A.dPhidPsi r c = quadSum Q ov (fun e q => -(co.A e q) * dP c e q * dP r e q * Q.x e q)
                        + quadSum Q ov (fun e q => -(co.A e q) * dP c e q * P r e q) ∧
      A.dPhiPsi r c = quadSum Q ov (fun e q => co.B e q * dP c e q * P r e q * Q.x e q)) := by
  intro A ov band
  have hm := symDiag_entry d nb (massTerm d Q co P) r c hr hc
  have hk := symDiag_entry d nb (k2Term d Q co P) r c hr hc
  have hp := symDiag_entry d nb (phiPsiTerm d Q co P) r c hr hc
  have hd := fullDiag_entry d nb (dPhidPsiUp d Q co P dP) (dPhidPsiLo d Q co P dP) r c hr hc
  have he := fullDiag_entry d nb (dPhiPsiUp d Q co P dP) (dPhiPsiLo d Q co P dP) r c hr hc
  constructor
  · intro hnb
    have hb : c + d < r ∨ r + d < c := not_not.mp hnb
    simp only [A, assemble, hm, hk, hp, hd, he, if_pos hb, and_self]
  · intro hb
    have hb' : ¬ (c + d < r ∨ r + d < c) := hb
    simp only [A, assemble, hm, hk, hp, hd, he, if_neg hb']
    -- symmetric storage: the pair (min, max) is (r, c) or (c, r); the integrand is symmetric
    have hsym : ∀ (F : ℕ → ℕ → K),
        quadSum Q (overlap d Q.ncells (min r c) (max r c))
          (fun e q => F e q * P (max r c) e q * P (min r c) e q * Q.x e q) =
        quadSum Q ov (fun e q => F e q * P c e q * P r e q * Q.x e q) := by
      intro F
      rcases le_total r c with h | h
      · rw [min_eq_left h, max_eq_right h]
      · rw [min_eq_right h, max_eq_left h, overlap_comm]
        exact quadSum_congr Q _ _ _ (fun e q => by ring)
    refine ⟨hsym co.E, hsym co.D, hsym co.C, ?_, ?_⟩
    · by_cases hrc : r < c
      · rw [if_pos hrc]; rfl
      · rw [if_neg hrc]
        unfold dPhidPsiLo dPhidPsi0
        rw [overlap_comm d Q.ncells c r]
        congr 1
        · exact quadSum_congr Q _ _ _ (fun e q => by ring)
        · exact quadSum_congr Q _ _ _ (fun e q => by ring)
    · by_cases hrc : r < c
      · rw [if_pos hrc]; rfl
      · rw [if_neg hrc]
        unfold dPhiPsiLo
        rw [overlap_comm d Q.ncells c r]
        exact quadSum_congr Q _ _ _ (fun e q => by ring)

/-- the quadrature sum written as the double sum over the cells and the Gauss points -/
theorem quadSum_is_gauss_sum (Q : Quad K) (a n : ℕ) (g : ℕ → ℕ → K) :
    quadSum Q (a, a + n) g = ∑ e ∈ range n, ∑ q ∈ range Q.nq, Q.w q * Q.mult (a + e) * g (a + e) q :=
  quadSum_eq_sum Q a n g

/-- The mass matrix (and the two other matrices kept in reference-shared storage) is symmetric. -/
theorem mass_symmetric (d nb : ℕ) (Q : Quad K) (co : Coefs K) (P dP : ℕ → ℕ → ℕ → K)
    (r c : ℕ) (hr : r < nb) (hc : c < nb) :
    (assemble d nb Q co P dP).mass r c = (assemble d nb Q co P dP).mass c r ∧
    (assemble d nb Q co P dP).k2 r c = (assemble d nb Q co P dP).k2 c r ∧
    (assemble d nb Q co P dP).phiPsi r c = (assemble d nb Q co P dP).phiPsi c r := by
  simp only [assemble, symDiag_entry d nb _ r c hr hc, symDiag_entry d nb _ c r hc hr, min_comm c r, max_comm c r,
    or_comm (a := r + d < c)]
  exact ⟨trivial, trivial, trivial⟩

/-- concrete data at `ℚ` for the examples: 2 cells, degree 1, 2 Gauss points -/
def exQuad : Quad ℚ := { ncells := 2, nq := 2, w := fun _ => 1, mult := fun _ => 1 / 2, x := fun c q => (c : ℚ) + (q + 1) / 3 }
def exCo : Coefs ℚ := { A := fun _ _ => -1, B := fun _ _ => 1 / 3, C := fun c _ => c, D := fun _ _ => -2, E := fun _ _ => 1 }
def exP : ℕ → ℕ → ℕ → ℚ := fun j c q => if j = c then 1 - (q + 1 : ℚ) / 3 else if j = c + 1 then (q + 1 : ℚ) / 3 else 0
def exdP : ℕ → ℕ → ℕ → ℚ := fun j c _ => if j = c then -1 else if j = c + 1 then 1 else 0

example : (assemble 1 3 exQuad exCo exP exdP).dPhidPsi 1 0 =
    quadSum exQuad (overlap 1 2 1 0) (fun e q => -(exCo.A e q) * exdP 0 e q * exdP 1 e q * exQuad.x e q)
      + quadSum exQuad (overlap 1 2 1 0) (fun e q => -(exCo.A e q) * exdP 0 e q * exP 1 e q) :=
  ((assembled_is_quadrature_weak_form 1 3 exQuad exCo exP exdP 1 0 (by decide) (by decide)).2 (by decide)).2.2.2.1

/-! ### the per-mode solve -/

/-- Linearity in `rho`: a linear combination of solutions solves the system of the linear combination of the
    right-hand sides, and if the mode matrix has trivial kernel (well-posed mode) *every* solution the solver may
    return for the combined right-hand side is that linear combination. -/
theorem solve_linear_in_rho (A : Assembled K) (c : BCConfig) (I n : ℕ) (M : ℕ → ℕ → K)
    (rho1 rho2 x1 x2 : ℕ → K) (α β : K)
    (h1 : IsSol n M (modeRhs A c I rho1) x1) (h2 : IsSol n M (modeRhs A c I rho2) x2) :
    IsSol n M (modeRhs A c I (fun j => α * rho1 j + β * rho2 j)) (fun a => α * x1 a + β * x2 a) ∧
    ((∀ y, IsSol n M (fun _ => 0) y → ∀ a, a < n → y a = 0) →
      ∀ x, IsSol n M (modeRhs A c I (fun j => α * rho1 j + β * rho2 j)) x →
        ∀ a, a < n → x a = α * x1 a + β * x2 a) := by
  have hrhs : ∀ a, modeRhs A c I (fun j => α * rho1 j + β * rho2 j) a =
      α * modeRhs A c I rho1 a + β * modeRhs A c I rho2 a := by
    intro a
    simp only [modeRhs, list_range_map_sum, Finset.mul_sum, ← Finset.sum_add_distrib]
    exact Finset.sum_congr rfl (fun j _ => by ring)
  have hcomb : IsSol n M (modeRhs A c I (fun j => α * rho1 j + β * rho2 j)) (fun a => α * x1 a + β * x2 a) := by
    intro a ha
    rw [hrhs a, ← h1 a ha, ← h2 a ha]
    simp only [matVec_eq_sum, Finset.mul_sum, ← Finset.sum_add_distrib]
    exact Finset.sum_congr rfl (fun j _ => by ring)
  refine ⟨hcomb, fun hinj x hx a ha => ?_⟩
  have hdiff : IsSol n M (fun _ => 0) (fun a => x a - (α * x1 a + β * x2 a)) := by
    intro b hb
    have e1 := hx b hb
    have e2 := hcomb b hb
    simp only [matVec_eq_sum] at e1 e2 ⊢
    have : ∑ j ∈ range n, M b j * (x j - (α * x1 j + β * x2 j)) =
        ∑ j ∈ range n, M b j * x j - ∑ j ∈ range n, M b j * (α * x1 j + β * x2 j) := by
      rw [← Finset.sum_sub_distrib]; exact Finset.sum_congr rfl (fun j _ => by ring)
    rw [this, e1, e2, sub_self]
  have := hinj _ hdiff a ha
  exact sub_eq_zero.mp this

example : IsSol 2 (fun a b => if a = b then (2 : ℚ) else 0) (fun a => 2 * (a + 1)) (fun a => (a + 1 : ℚ)) := by
  intro a ha
  have : a = 0 ∨ a = 1 := by omega
  rcases this with rfl | rfl <;> norm_num [matVec, List.range_succ]

/-- The shared coefficient buffer after a solve: with `nbasis ≥ 2` and a coefficient slice of the form produced by
    `coeffRange`, its content is the solution inside the slice and **zero** outside, whatever it contained before
    (uninitialised memory, the previous `z`, or the previous mode with other boundary conditions). -/
theorem coeffs_buffer_history_free (c : BCConfig) (I : ℕ) (hnb : 2 ≤ c.nb) (buf : ℕ → K) (x : ℕ → K) (p : ℕ)
    (hp : p < c.nb) :
    coeffsAfter buf c.nb (coeffRange c I) x p =
      if (coeffRange c I).1 ≤ p ∧ p < (coeffRange c I).2 then x (p - (coeffRange c I).1) else 0 := by
  unfold coeffsAfter
  by_cases h : (coeffRange c I).1 ≤ p ∧ p < (coeffRange c I).2
  · rw [if_pos h, if_pos h]
  · rw [if_neg h, if_neg h]
    have h1 := (slices_consistent c I hnb).2.2.2.2.2.2.2.2.2
    have hp0 : p = 0 ∨ p = c.nb - 1 := by
      rcases h1 with ⟨e1, e2⟩
      rw [e1, e2] at h
      generalize c.nb = n at *
      generalize lNeumann c I = L at *
      generalize uNeumann c I = U at *
      cases L <;> cases U <;> simp only [Bool.false_eq_true, if_false, if_true] at h <;> omega
    rw [if_pos hp0]

/-- Modes (and axial positions) are treated independently: the values written to `phi[I, z, :]` are the spline
    evaluation of the zero-padded solution of the mode-`I` system for the slice `rho[I, z, :]`; nothing is carried
    over from earlier solves through the shared buffer `self._coeffs`. -/
theorem modes_independent (c : BCConfig) (I : ℕ) (hnb : 2 ≤ c.nb) (V : ℕ → ℕ → K) (buf buf' : ℕ → K)
    (x : ℕ → K) (i : ℕ) :
    evalAt c.nb V (coeffsAfter buf c.nb (coeffRange c I) x) i =
      evalAt c.nb V (coeffsAfter buf' c.nb (coeffRange c I) x) i := by
  simp only [evalAt_eq_sum]
  refine Finset.sum_congr rfl (fun j hj => ?_)
  rw [coeffs_buffer_history_free c I hnb buf x j (Finset.mem_range.mp hj),
    coeffs_buffer_history_free c I hnb buf' x j (Finset.mem_range.mp hj)]

example : evalAt 4 (fun i j => if i = j then (1 : ℚ) else 0) (coeffsAfter (fun _ => 7) 4 (coeffRange (qnConfig 4 3) 1) (fun a => a + 1)) 0
    = evalAt 4 (fun i j => if i = j then (1 : ℚ) else 0) (coeffsAfter (fun _ => -3) 4 (coeffRange (qnConfig 4 3) 1) (fun a => a + 1)) 0 :=
  modes_independent (qnConfig 4 3) 1 (by decide) _ _ _ _ 0

/-- A mode with a Dirichlet condition at the lower (upper) boundary gets the first (last) spline coefficient 0, and
    — the first (last) basis function of a clamped spline being the only one that does not vanish at the boundary
    node (`hV`) — the returned potential vanishes there. -/
theorem dirichlet_zero_at_boundary (c : BCConfig) (I : ℕ) (hnb : 2 ≤ c.nb) (V : ℕ → ℕ → K) (buf x : ℕ → K) :
    (lNeumann c I = false → coeffsAfter buf c.nb (coeffRange c I) x 0 = 0 ∧
      ((∀ j, j < c.nb → j ≠ 0 → V 0 j = 0) → evalAt c.nb V (coeffsAfter buf c.nb (coeffRange c I) x) 0 = 0)) ∧
    (uNeumann c I = false → coeffsAfter buf c.nb (coeffRange c I) x (c.nb - 1) = 0 ∧
      ((∀ j, j < c.nb → j ≠ c.nb - 1 → V (c.nb - 1) j = 0) →
        evalAt c.nb V (coeffsAfter buf c.nb (coeffRange c I) x) (c.nb - 1) = 0)) := by
  obtain ⟨_, _, _, _, _, _, _, _, _, e1, e2⟩ := slices_consistent c I hnb
  constructor
  · intro hL
    have h0 : coeffsAfter buf c.nb (coeffRange c I) x 0 = 0 := by
      rw [coeffs_buffer_history_free c I hnb buf x 0 (by omega), e1, hL]
      simp
    refine ⟨h0, fun hV => ?_⟩
    rw [evalAt_eq_sum]
    refine Finset.sum_eq_zero (fun j hj => ?_)
    by_cases hj0 : j = 0
    · rw [hj0, h0, zero_mul]
    · rw [hV j (Finset.mem_range.mp hj) hj0, mul_zero]
  · intro hU
    have h0 : coeffsAfter buf c.nb (coeffRange c I) x (c.nb - 1) = 0 := by
      rw [coeffs_buffer_history_free c I hnb buf x (c.nb - 1) (by omega), e2, hU]
      simp
    refine ⟨h0, fun hV => ?_⟩
    rw [evalAt_eq_sum]
    refine Finset.sum_eq_zero (fun j hj => ?_)
    by_cases hj0 : j = c.nb - 1
    · rw [hj0, h0, zero_mul]
    · rw [hV j (Finset.mem_range.mp hj) hj0, mul_zero]

/-- instance of `hV`: degree-1 splines at their Greville points (collocation = identity) -/
example : ∀ j, j < 4 → j ≠ 0 → (fun i j => if i = j then (1 : ℚ) else 0) 0 j = 0 := by
  intro j _ hj; simp [Ne.symm hj]

/-! ### function right-hand sides -/

/-- For `rhoFactor ≡ 1` (at the quadrature points) the right-hand side vector of `solveEquationForFunction` as the
    code computes it today (`rhoVecNoE`) is the one of the stated equation `… = E rho` (`rhoVec`); the two entry
    points then solve the same problem.  For any other `rhoFactor` they differ (negative witness below): the
    known finding `C14:function-rhs-ignores-rhoFactor`. -/
theorem function_rhs_agrees_when_rhoFactor_one (Q : Quad K) (co : Coefs K) (P : ℕ → ℕ → ℕ → K) (rhoAt : ℕ → ℕ → K)
    (hE : ∀ c q, co.E c q = 1) (j : ℕ) : rhoVec Q co P rhoAt j = rhoVecNoE Q P rhoAt j := by
  unfold rhoVec rhoVecNoE
  exact quadSum_congr Q _ _ _ (fun c q => by rw [hE c q, mul_one])

example : ∀ c q, exCo.E c q = 1 := fun _ _ => rfl

/-- negative witness: with `rhoFactor ≡ 2` the unrepaired right-hand side is half of the stated one -/
example : rhoVec exQuad { exCo with E := fun _ _ => 2 } exP (fun _ _ => 1) 0
    = 2 * rhoVecNoE exQuad exP (fun _ _ => 1) 0 ∧ rhoVecNoE exQuad exP (fun _ _ => 1) 0 ≠ 0 := by
  norm_num [rhoVec, rhoVecNoE, quadSum, exQuad, exP, List.range'_succ, List.range_succ, List.flatMap_cons]

end PygyroVerif.C14
