/-
C05 (continued) — the hypothesis of `C05.timestep_decomposition_independent` discharged for the modelled grid-level loops.

`Props/C15Extra.lean` proves: two decompositions whose grid-level operators ASSEMBLE TO THE SAME GLOBAL OPERATORS give runs
of the generated time loop that are refused at the same statement or end with the same global contents.
`Lemmas/WiringOps.lean` builds, from `Model/Wiring.lean` (the index expressions of `gridStep`, `getPerturbedRho`,
`solveEquation`, the initialiser, as compared with the real code by the C05 check), the operators of a process grid
`(p1, p2)` on global contents — split into the blocks of the layout, modelled loop on every rank with uninterpreted
kernels, assemble — and proves that they are the global operators.  Here:

  * `wiring_operators_independent`   : the operators of any two process grids are EQUAL;
  * `wiringAssembly`                 : each assembles (by the identity) to the global operators — the `Assembly` that
                                       `timestep_decomposition_independent` asks for;
  * `timestep_decomposition_independent_wiring` : the generated time loop run with the wiring operators of any two process
    grids gives the same outcome (refused at the same statement, or the same global contents) — one step, every prefix of
    a step, a whole run — with no hypothesis left about the operators; the kernels are arbitrary;
  * `timestep_wiring_serial`         : … and it is the outcome of the run with the global (serial) operators;
  * `unfixed_flux_decomposition_dependent`, `unfixed_vpar_decomposition_dependent` : with the index expressions before the
    fix: commits the assembled operators DO depend on the process grid (kernel-evaluated witnesses);
  * `row_slice_extent_depends_on_grid` : why the kernels of `getPerturbedRho` / `solveEquation` are per line.
Kept out of `PygyroVerif.lean` because it depends on the generated module.
-/
import PygyroVerif.Lemmas.WiringOps
import PygyroVerif.Props.C15Extra

namespace PygyroVerif.C05
open PygyroVerif PygyroVerif.WiringOps PygyroVerif.TimeStep PygyroVerif.Generated
open PygyroVerif.Ckpt (Stp Lay Stmt)

/-- the dimension orders of the three layouts of the distribution function used by `Lemmas/WiringOps.lean` are the ones the
    translator reads from `setups.py` (`layouts = {...}` of `setupCylindricalGrid` and of `setupFromFile`) -/
theorem layout_orders_from_source (e : Extents) (d : Decomp) :
    layoutsNew = [("flux_surface", (fluxLayout e d).ord), ("v_parallel", (vparLayout e d).ord),
      ("poloidal", (polLayout e d).ord)] ∧ layoutsFromFile = layoutsNew := ⟨rfl, rfl⟩

section
variable {α β γ Spl : Type}

/-- **The grid-level operators do not depend on the process grid.**  For every choice of the kernels (arbitrary functions
of the parameter indices the loop passes and of the local slice), every extents and any two process grids `(p1, p2)`,
`(p1', p2')` with at least one process per axis — in particular any two grids `compute_2d_process_grid` can return
(`Decomp.Admissible`) — the operators "split the global field into the blocks of the layout, run the modelled loop of
`FluxSurfaceAdvection.gridStep`, `ParallelGradient.parallel_gradient` per radius, `VParallelAdvection.gridStep`,
`PoloidalAdvection.gridStep`, `getPerturbedRho`, `getModes`, `solveEquation`, `findPotential` on every rank, assemble" are
the same maps on global contents.  Proof: each is the global operator (`wiringOps_eq_global`) because every call passes
the parameters of its slice's own global coordinates (`wiring_*`), every global slice index is owned by a rank
(`gridop_decomposition_independent`), and the axes inside a slice are not distributed. -/
theorem wiring_operators_independent (K : WKernels α β γ Spl) (e : Extents) (d₁ d₂ : Decomp) (h₁ : d₁.Pos) (h₂ : d₂.Pos) :
    wiringOps K e d₁ = wiringOps K e d₂ := by
  rw [wiringOps_eq_global K e d₁ h₁, wiringOps_eq_global K e d₂ h₂]

/-- … and so does the initial condition `setupCylindricalGrid` produces -/
theorem wiring_env_independent (K : WKernels α β γ Spl) (e : Extents) (d₁ d₂ : Decomp) (h₁ : d₁.Pos) (h₂ : d₂.Pos)
    (junkP junkR : FieldP β) (junkG : FieldG γ) (loaded : AGrid (FieldF α)) (bg : FieldF α) :
    wiringEnv K e d₁ junkP junkR junkG loaded bg = wiringEnv K e d₂ junkP junkR junkG loaded bg := by
  simp only [wiringEnv, initOp_eq K e d₁ h₁, initOp_eq K e d₂ h₂]

/-- instance of the hypotheses: the serial run and the 2 × 3 grid on 4 × 3 × 5 × 6 points are admissible -/
example : (⟨1, 1⟩ : Decomp).Admissible ⟨4, 3, 5, 6⟩ ∧ (⟨2, 3⟩ : Decomp).Admissible ⟨4, 3, 5, 6⟩ := by decide

/-- the operators of a process grid assemble — by the identity: they act on global contents — to the global operators:
    the hypothesis of `timestep_decomposition_independent`, now a theorem -/
def wiringAssembly (K : WKernels α β γ Spl) (e : Extents) (d : Decomp) (hd : d.Pos) :
    Assembly (wiringOps K e d) (globalOps K e) where
  asmF := id
  asmP := id
  asmR := id
  asmG := id
  relayoutF := fun _ _ _ => rfl
  relayoutP := fun _ _ _ => rfl
  relayoutR := fun _ _ _ => rfl
  saveF := fun _ => rfl
  restoreF := fun _ => rfl
  flux := fun x => fluxOp_eq K e d hd x
  grad := fun x => gradOp_eq K e d hd x
  vpar := fun dt x g => vparOp_eq K e d hd false dt x g
  pol := fun dt x p => polOp_eq K e d hd dt x p
  rhoOf := fun x => rhoOp_eq K e d hd x
  modes := fun x => lineOp_eq e d hd K.modes x
  solve := fun x => solveOp_eq K e d hd x
  potential := fun x => lineOp_eq e d hd K.potential x

end

section
variable {F P R G : Type}

/-- a state relation built from relations that imply equality is equality -/
theorem StateRel_eq {ρ : Rels F P R G F P R G} (hF : ∀ x y, ρ.rF x y → x = y) (hP : ∀ x y, ρ.rP x y → x = y)
    (hR : ∀ x y, ρ.rR x y → x = y) (hG : ∀ x y, ρ.rG x y → x = y) (s₁ s₂ : AState F P R G) (h : StateRel ρ s₁ s₂) :
    s₁ = s₂ := by
  obtain ⟨⟨f1, l1⟩, sv1, ⟨p1, lp1⟩, ⟨r1, lr1⟩, g1⟩ := s₁
  obtain ⟨⟨f2, l2⟩, sv2, ⟨p2, lp2⟩, ⟨r2, lr2⟩, g2⟩ := s₂
  obtain ⟨⟨hf, hfl⟩, hsv, ⟨hp, hpl⟩, ⟨hr, hrl⟩, hg⟩ := h
  simp only at hf hfl hsv hp hpl hr hrl hg
  have e1 := hF _ _ hf
  have e2 := hP _ _ hp
  have e3 := hR _ _ hr
  have e4 := hG _ _ hg
  subst e1 e2 e3 e4 hfl hpl hrl
  have e5 : sv1 = sv2 := by
    cases sv1 with
    | none => cases sv2 with
      | none => rfl
      | some b => exact hsv.elim
    | some a => cases sv2 with
      | none => exact hsv.elim
      | some b =>
        obtain ⟨a1, a2⟩ := a
        obtain ⟨b1, b2⟩ := b
        obtain ⟨h1, h2⟩ := hsv
        simp only at h1 h2
        rw [hF _ _ h1, h2]
  rw [e5]

/-- both refused, or both accepted with equal results: the outcomes are equal -/
theorem ORel_eq {ρ : Rels F P R G F P R G} (hF : ∀ x y, ρ.rF x y → x = y) (hP : ∀ x y, ρ.rP x y → x = y)
    (hR : ∀ x y, ρ.rR x y → x = y) (hG : ∀ x y, ρ.rG x y → x = y) (x y : Option (AState F P R G))
    (h : ORel (StateRel ρ) x y) : x = y := by
  cases x with
  | none => cases y with
    | none => rfl
    | some b => exact h.elim
  | some a => cases y with
    | none => exact h.elim
    | some b => rw [StateRel_eq hF hP hR hG a b h]

end

section
variable {α β γ Spl : Type}

/-- "assemble to the same global contents" between two process grids is equality of the global contents -/
theorem sameGlobal_wiring_eq (K : WKernels α β γ Spl) (e : Extents) (d₁ d₂ : Decomp) (h₁ : d₁.Pos) (h₂ : d₂.Pos)
    (x y : Option (AState (FieldF α) (FieldP β) (FieldP β) (FieldG γ)))
    (h : ORel (StateRel (sameGlobal (wiringAssembly K e d₁ h₁) (wiringAssembly K e d₂ h₂))) x y) : x = y :=
  ORel_eq (fun _ _ h => h) (fun _ _ h => h) (fun _ _ h => h) (fun _ _ h => h) x y h

/-- **The complete time step of the modelled grid-level loops does not depend on the process decomposition.**  Take any
kernels `K` (arbitrary functions of the parameter indices and the local slice), any extents, and any two process grids
with at least one process per axis (e.g. any two grids `compute_2d_process_grid` returns for two numbers of processes).
Run the driver *as generated from fullSimulation.py* with the operators of the first grid and with those of the second —
every grid-level operator being "split into the blocks of its layout, modelled loop on every rank, assemble", the layout
changes / save / restore the identity on global contents (C01 / C03 / C04) — from the same global state and the same
set-up data (checkpoint contents, uninitialised arrays; the initial condition may be the one the modelled initialiser
produces on the respective grid).  Then
  (1) one pass through the loop body, saving or not, has the same outcome: refused (`none`) in both, or accepted in both
      with the same layouts, the same save status and the same global `distribFunc`, saved copy, `phi`, `rho`, gradient
      table;
  (2) the same for every prefix of the body — so a refusal happens at the same statement;
  (3) the same for a whole run: set-up, any number of passes with any pattern of saving passes, wrap-up.
No hypothesis about the operators remains: the `Assembly` hypotheses of `timestep_decomposition_independent` are the
theorems `fluxOp_eq`, `gradOp_eq`, `vparOp_eq`, `polOp_eq`, `rhoOp_eq`, `lineOp_eq`, `solveOp_eq` of
`Lemmas/WiringOps.lean` (from C05 `wiring_*` and `gridop_decomposition_independent`). -/
theorem timestep_decomposition_independent_wiring (K : WKernels α β γ Spl) (e : Extents) (d₁ d₂ : Decomp)
    (h₁ : d₁.Pos) (h₂ : d₂.Pos) (junkP junkR : FieldP β) (junkG : FieldG γ) (loaded : AGrid (FieldF α)) (bg : FieldF α)
    (loadable : Bool) (saves : List Bool) (s : AState (FieldF α) (FieldP β) (FieldP β) (FieldG γ)) :
    -- (1) one time step
    (∀ t, execStmtsA (wiringOps K e d₁) (wiringEnv K e d₁ junkP junkR junkG loaded bg) loadable t s driver.body
        = execStmtsA (wiringOps K e d₂) (wiringEnv K e d₂ junkP junkR junkG loaded bg) loadable t s driver.body)
    -- (2) every prefix of the time step
    ∧ (∀ t n, execStmtsA (wiringOps K e d₁) (wiringEnv K e d₁ junkP junkR junkG loaded bg) loadable t s (driver.body.take n)
        = execStmtsA (wiringOps K e d₂) (wiringEnv K e d₂ junkP junkR junkG loaded bg) loadable t s (driver.body.take n))
    -- (3) the whole run
    ∧ runA (wiringOps K e d₁) (wiringEnv K e d₁ junkP junkR junkG loaded bg) loadable driver saves s
        = runA (wiringOps K e d₂) (wiringEnv K e d₂ junkP junkR junkG loaded bg) loadable driver saves s := by
  have hs : StateRel (sameGlobal (wiringAssembly K e d₁ h₁) (wiringAssembly K e d₂ h₂)) s s := by
    refine ⟨⟨rfl, rfl⟩, ?_, ⟨rfl, rfl⟩, ⟨rfl, rfl⟩, rfl⟩
    cases s.fsave with
    | none => exact True.intro
    | some g => exact ⟨rfl, rfl⟩
  have he : EnvRel (sameGlobal (wiringAssembly K e d₁ h₁) (wiringAssembly K e d₂ h₂))
      (wiringEnv K e d₁ junkP junkR junkG loaded bg) (wiringEnv K e d₂ junkP junkR junkG loaded bg) :=
    ⟨rfl, rfl, rfl, ⟨rfl, rfl⟩, by
      show initOp K e d₁ bg = initOp K e d₂ bg
      rw [initOp_eq K e d₁ h₁, initOp_eq K e d₂ h₂]⟩
  obtain ⟨hstep, hrun⟩ := timestep_decomposition_independent (wiringAssembly K e d₁ h₁) (wiringAssembly K e d₂ h₂)
    _ _ he loadable saves s s hs
  refine ⟨fun t => sameGlobal_wiring_eq K e d₁ d₂ h₁ h₂ _ _ (hstep t), fun t n => ?_,
    sameGlobal_wiring_eq K e d₁ d₂ h₁ h₂ _ _ hrun⟩
  exact sameGlobal_wiring_eq K e d₁ d₂ h₁ h₂ _ _
    (execStmtsA_rel (sameGlobal_opsRel (wiringAssembly K e d₁ h₁) (wiringAssembly K e d₂ h₂)) _ _ he loadable t
      (driver.body.take n) s s hs)

/-- **… and the common outcome is the one of the run with the global operators** (the kernels applied slice by slice to
the global fields, no process grid): every decomposition reproduces the serial result. -/
theorem timestep_wiring_serial (K : WKernels α β γ Spl) (e : Extents) (d : Decomp) (hd : d.Pos)
    (junkP junkR : FieldP β) (junkG : FieldG γ) (loaded : AGrid (FieldF α)) (bg : FieldF α)
    (loadable : Bool) (saves : List Bool) (s : AState (FieldF α) (FieldP β) (FieldP β) (FieldG γ)) :
    (∀ t, execStmtsA (wiringOps K e d) (wiringEnv K e d junkP junkR junkG loaded bg) loadable t s driver.body
        = execStmtsA (globalOps K e) ⟨junkP, junkR, junkG, loaded, initGlobal K e bg⟩ loadable t s driver.body)
    ∧ runA (wiringOps K e d) (wiringEnv K e d junkP junkR junkG loaded bg) loadable driver saves s
        = runA (globalOps K e) ⟨junkP, junkR, junkG, loaded, initGlobal K e bg⟩ loadable driver saves s := by
  have hE : wiringEnv K e d junkP junkR junkG loaded bg = ⟨junkP, junkR, junkG, loaded, initGlobal K e bg⟩ := by
    simp only [wiringEnv, initOp_eq K e d hd]
  rw [wiringOps_eq_global K e d hd, hE]
  exact ⟨fun _ => rfl, rfl⟩

/-- instance of the hypothesis: the grid `(2, 3)` has at least one process per axis -/
example : (⟨2, 3⟩ : Decomp).Pos := by decide

/-- **instance**: the serial run `(1, 1)` and the process grid `(2, 3)` on 4 × 3 × 5 × 6 points (both admissible), any
    kernels, a restarted run of three passes the second of which saves -/
example (K : WKernels α β γ Spl) (junkP junkR : FieldP β) (junkG : FieldG γ) (loaded : AGrid (FieldF α)) (bg : FieldF α)
    (s : AState (FieldF α) (FieldP β) (FieldP β) (FieldG γ)) :
    runA (wiringOps K ⟨4, 3, 5, 6⟩ ⟨1, 1⟩) (wiringEnv K ⟨4, 3, 5, 6⟩ ⟨1, 1⟩ junkP junkR junkG loaded bg) true driver
        [false, true, false] s
      = runA (wiringOps K ⟨4, 3, 5, 6⟩ ⟨2, 3⟩) (wiringEnv K ⟨4, 3, 5, 6⟩ ⟨2, 3⟩ junkP junkR junkG loaded bg) true driver
        [false, true, false] s :=
  (timestep_decomposition_independent_wiring K ⟨4, 3, 5, 6⟩ ⟨1, 1⟩ ⟨2, 3⟩
    (Decomp.Admissible.pos (e := ⟨4, 3, 5, 6⟩) (by decide)) (Decomp.Admissible.pos (e := ⟨4, 3, 5, 6⟩) (by decide))
    junkP junkR junkG loaded bg true [false, true, false] s).2.2

end

/-! ### the definitions compute, and the statement is sensitive to the index expressions -/

/-- toy kernels on natural numbers: every kernel adds (an encoding of) the parameters it is passed and the extents of the
    slice it receives to the value at the same point -/
def toyK : WKernels Nat Nat Nat Nat where
  flux := fun p a q z => a.val q z + 1000 * ix p 0 + 100 * ix p 1 + a.n0 + a.n1
  pargrad := fun p a z q => a.val z q + 7 * ix p 0 + a.n0
  vpar := fun _ p c a v => a.val v + c + 1000 * ix p 1 + 100 * ix p 2 + 10 * ix p 3 + a.n
  interp := fun p a => a.val 0 0 + ix p 0 + a.n1
  pol := fun _ p s a q r => a.val q r + s + 100 * ix p 0 + 10 * ix p 1
  rho := fun p a q => a.val q 0 + a.val q 1 + ix p 0
  modes := fun a q => a.val q + a.val 0 + a.n
  solve := fun p a r => a.val r + 5 * ix p 0 + a.n
  potential := fun a q => a.val q + a.val (a.n - 1)
  init := fun p q v => 1000 * ix p 0 + 100 * ix p 1 + 10 * q + v
  noGrad := 0
  noSpl := 0
  noVal := 0

def toyE : Extents := ⟨4, 3, 5, 6⟩
def toyF : FieldF Nat := fun r z q v => r + 2 * z + 3 * q + 5 * v
def toyP : FieldP Nat := fun r z q => 2 * r + z + 4 * q

/-- the operators of the grid `(2, 3)` are really executed (kernel evaluation of the loops, the block arithmetic and the
    assembly) and give, point by point, the values of the global operators -/
example :
    fluxOp toyK toyE ⟨2, 3⟩ true toyF 3 4 2 5 = fluxGlobal toyK toyE toyF 3 4 2 5
    ∧ fluxGlobal toyK toyE toyF 3 4 2 5 = toyF 3 4 2 5 + 3508
    ∧ vparOp toyK toyE ⟨2, 3⟩ true false .halfStep toyF (gradOp toyK toyE ⟨2, 3⟩ toyP) 3 4 2 5
        = vparGlobal toyK toyE .halfStep toyF (gradGlobal toyK toyE toyP) 3 4 2 5
    ∧ polOp toyK toyE ⟨2, 3⟩ .fullStep toyF toyP 3 4 2 5 = polGlobal toyK toyE .fullStep toyF toyP 3 4 2 5
    ∧ solveOp toyK toyE ⟨2, 3⟩ (lineOp toyE ⟨2, 3⟩ toyK.modes (rhoOp toyK toyE ⟨2, 3⟩ toyF)) 3 4 2
        = solveGlobal toyK toyE (lineGlobal toyE toyK.modes (rhoGlobal toyK toyE toyF)) 3 4 2
    ∧ initOp toyK toyE ⟨2, 3⟩ toyF 3 4 2 5 = 3425
    -- outside the extents nothing is written
    ∧ fluxOp toyK toyE ⟨2, 3⟩ true toyF 4 0 0 0 = toyF 4 0 0 0 := by decide +kernel

/-- **With the index expressions before the fix: commit e17f3f9 the flux-surface operator depends on the process grid**:
    the serial run advects the slice of radius index 3 with the tables of radius 0, the grid `(2, 1)` with those of radius
    2 (the first radius of the second rank) — finding F3. -/
theorem unfixed_flux_decomposition_dependent :
    fluxOp toyK toyE ⟨1, 1⟩ false toyF 3 0 0 0 ≠ fluxOp toyK toyE ⟨2, 1⟩ false toyF 3 0 0 0 := by decide +kernel

/-- **With the index expressions before the fix: commit aa36cd2 the v-parallel operator depends on the process grid**:
    on the grid `(1, 2)` the line at axial index 4 (local index 2 of the second rank, whose block starts at 2) is advected
    with the gradient of axial index 2 — finding F4. -/
theorem unfixed_vpar_decomposition_dependent :
    vparOp toyK toyE ⟨1, 1⟩ false true .halfStep toyF (fun _ z _ => z) 0 4 0 0
      ≠ vparOp toyK toyE ⟨1, 2⟩ false true .halfStep toyF (fun _ z _ => z) 0 4 0 0 := by decide +kernel

/-- … whereas with the current index expressions the same two evaluations agree -/
example :
    fluxOp toyK toyE ⟨1, 1⟩ true toyF 3 0 0 0 = fluxOp toyK toyE ⟨2, 1⟩ true toyF 3 0 0 0
    ∧ vparOp toyK toyE ⟨1, 1⟩ true true .halfStep toyF (fun _ z _ => z) 0 4 0 0
      = vparOp toyK toyE ⟨1, 2⟩ true true .halfStep toyF (fun _ z _ => z) 0 4 0 0 := by decide +kernel

/-- **Granularity of the uninterpreted kernels for `getPerturbedRho` and `solveEquation`.**  A `density.row` / `solve.mode`
    call of `Model/Wiring.lean` addresses a radius / a mode only; the array that one call hands to the compiled kernel
    contains the distributed axial direction, and its axial extent depends on the process grid (5 planes on `(1, 1)`, 2 on
    `(1, 2)` here).  A kernel that is an arbitrary function of that whole array could return this extent, so for these two
    operators "arbitrary kernel" means: arbitrary per `(r, z)` line resp. per `(mode, z)` radial line (`WKernels.rho`,
    `WKernels.solve`; `rhoRank`, `solveRank` run them over the rank's axial range) — which is how `get_perturbed_rho`
    (C16 `density_decomposition_independent`) and `_solveMode` (`for j, z in rho.getCoords(1)`) are written. -/
theorem row_slice_extent_depends_on_grid :
    Wiring.sh (vparLayout toyE ⟨1, 1⟩) [0, 0] 1 = 5 ∧ Wiring.sh (vparLayout toyE ⟨1, 2⟩) [0, 0] 1 = 2
    ∧ Wiring.sh (modeLayout toyE ⟨1, 1⟩) [0, 0] 1 = 5 ∧ Wiring.sh (modeLayout toyE ⟨1, 2⟩) [0, 0] 1 = 2 := by decide

/-! ### the generated pass on the wiring operators is really executed -/

def toyEnvW (d : Decomp) : Env (FieldF Nat) (FieldP Nat) (FieldP Nat) (FieldG Nat) :=
  wiringEnv toyK toyE d (fun _ _ _ => 1) (fun _ _ _ => 2) (fun _ _ _ => 3) ⟨toyF, .poloidal⟩ toyF

def toyS : AState (FieldF Nat) (FieldP Nat) (FieldP Nat) (FieldG Nat) :=
  ⟨⟨toyF, .v_parallel⟩, none, ⟨toyP, .v_parallel_2d⟩, ⟨toyP, .v_parallel_2d⟩, fun _ _ _ => 0⟩

/-- one pass of the generated loop body with the toy kernels, evaluated in the kernel through the modelled loops of all six
    ranks of the grid `(2, 3)` and of the single rank of `(1, 1)`: accepted, the same numbers at a sample point of
    `distribFunc` and of `phi` — and not the initial ones (42, 18) -/
example :
    (execStmtsA (wiringOps toyK toyE ⟨2, 3⟩) (toyEnvW ⟨2, 3⟩) false false toyS driver.body).map
        (fun s => (s.f.val 3 4 2 5, s.phi.val 3 4 2)) = some (167798, 1326322)
    ∧ (execStmtsA (wiringOps toyK toyE ⟨1, 1⟩) (toyEnvW ⟨1, 1⟩) false false toyS driver.body).map
        (fun s => (s.f.val 3 4 2 5, s.phi.val 3 4 2)) = some (167798, 1326322)
    ∧ (toyF 3 4 2 5, toyP 3 4 2) = (42, 18) := by decide +kernel

end PygyroVerif.C05

section audit
open PygyroVerif.C05
#print axioms wiring_operators_independent
#print axioms wiring_env_independent
#print axioms timestep_decomposition_independent_wiring
#print axioms timestep_wiring_serial
#print axioms unfixed_flux_decomposition_dependent
#print axioms unfixed_vpar_decomposition_dependent
#print axioms row_slice_extent_depends_on_grid
end audit
