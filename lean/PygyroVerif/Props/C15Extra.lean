/-
C15 (continued) — the unperturbed equilibrium is a fixed point of the complete time step; C05 (continued) — the
complete Strang-split time step does not depend on the process decomposition.

Every statement is about `Generated.driver`, the script that harness/translate_driver.py extracts from fullSimulation.py
on every run (`Generated/TimeLoop.lean`): the theorems are re-checked against what the source says *now*.  The calls of
the script are interpreted as abstract operators on global contents (`TimeStep.execCallA`, the interpreter of
`Lemmas/TimeStep.lean`; at the free term algebra it is C18's `execCallS`).  Kept out of `PygyroVerif.lean` because it
depends on the generated module.
-/
import PygyroVerif.Lemmas.TimeStep
import PygyroVerif.Lemmas.TimeStepKernels
import PygyroVerif.Generated.TimeLoop

namespace PygyroVerif.C15
open PygyroVerif.Ckpt PygyroVerif.TimeStep PygyroVerif.Generated

/-! ### what the Boolean run of the generated script gives (kernel-evaluated on whatever the translator produced) -/

/-- one pass of the generated loop body on flags, saving or not, restart or fresh run: accepted, and it ends in the
    loop-head flags (with `rho` and the gradient table known to vanish in addition) -/
theorem body_flags (loadable t : Bool) (lay : Lay) :
    ∃ b', execStmtsA boolOps (flagEnv false false lay) loadable t headFlags driver.body = some b' ∧ flagLe headFlags b' = true := by
  cases loadable <;> cases t <;> exact ⟨_, rfl, rfl⟩

/-- the part before the loop on flags, from *any* flags (the set-up overwrites everything): accepted, ends in the
    loop-head flags; `loadable`: restart from a checkpoint stored in layout `lay` (one of the three standard ones), else
    fresh start -/
theorem pre_flags (loadable : Bool) (lay : Lay) (hlay : loadable = true → layoutOk .distribFunc lay = true)
    (b : AState Bool Bool Bool Bool) :
    ∃ b', execStmtsA boolOps (flagEnv loadable (!loadable) lay) loadable true b driver.pre = some b'
      ∧ flagLe headFlags b' = true := by
  cases loadable with
  | false => exact ⟨_, rfl, rfl⟩
  | true => cases lay <;> first | exact ⟨_, rfl, rfl⟩ | exact absurd (hlay rfl) (by decide)

/-- the part after the loop on flags -/
theorem post_flags (loadable : Bool) (lay : Lay) :
    ∃ b', execStmtsA boolOps (flagEnv false false lay) loadable true headFlags driver.post = some b'
      ∧ flagLe headFlags b' = true := by
  cases loadable <;> exact ⟨_, rfl, rfl⟩

/-! ### a concrete instance of the contracts (used for the non-vacuity examples) -/

/-- toy operators on integers: "equilibrium" = 7, the advections add (multiples of) their field input, the density
    subtracts the equilibrium, the solver chain is linear -/
def toyOps : Operators Int Int Int Int where
  relayoutF := fun _ _ x => x
  relayoutP := fun _ _ x => x
  relayoutR := fun _ _ x => x
  saveF := fun x => x
  restoreF := fun x => x
  flux := fun x => x
  grad := fun p => 3 * p
  vpar := fun d x g => match d with | .halfStep => x + g | .fullStep => x + 2 * g
  pol := fun d x p => match d with | .halfStep => x + 5 * p | .fullStep => x + 10 * p
  rhoOf := fun x => x - 7
  modes := fun r => 2 * r
  solve := fun r => -r
  potential := fun p => 4 * p

def toyPreds : Preds Int Int Int Int := ⟨(· = 7), (· = 0), (· = 0), (· = 0)⟩

theorem toy_contracts : EquilibriumContracts toyOps toyPreds := by
  refine ⟨?_, ?_, ?_, ?_, ?_, ?_, ?_, ?_, ?_, ?_, ?_, ?_, ?_⟩ <;> simp only [toyOps, toyPreds]
  · intro _ _ f h; exact h
  · intro _ _ f h; exact h
  · intro _ _ f h; exact h
  · intro f h; exact h
  · intro f h; exact h
  · intro f h; exact h
  · intro p h; subst h; rfl
  · intro d f g hf hg; subst hf; subst hg; cases d <;> rfl
  · intro d f p hf hp; subst hf; subst hp; cases d <;> rfl
  · intro f h; subst h; rfl
  · intro r h; subst h; rfl
  · intro r h; subst h; rfl
  · intro p h; subst h; rfl

def toyEnv : Env Int Int Int Int := { junkP := 11, junkR := 12, junkG := 13, loaded := ⟨7, .poloidal⟩, fresh := 7 }

/-- a state at the equilibrium, with arbitrary `rho` and gradient table -/
def toyState : AState Int Int Int Int := ⟨⟨7, .v_parallel⟩, none, ⟨0, .v_parallel_2d⟩, ⟨99, .v_parallel_2d⟩, 55⟩

theorem toyState_atEquilibrium : AtEquilibrium toyPreds toyState := ⟨rfl, rfl, rfl, rfl, rfl, rfl⟩

/-! ### the theorems -/

section
variable {F P R G : Type}

/-- **The unperturbed equilibrium is a fixed point of the complete time step.**  Let the operators behind the calls of
the driver (`o`) satisfy the operator identities `EquilibriumContracts` (C10–C16 for the kernels, C01/C03/C04 for the
layout changes and save/restore).  If `distribFunc` holds the equilibrium and `phi` is zero at the head of the loop —
whatever `rho` and `parGradVals` contain — then one pass through the loop body *as generated from fullSimulation.py* (a
saving pass or not, in a fresh or a restarted run) raises no assertion and ends with `distribFunc` = the equilibrium and
`phi` = 0 again, in the layouts the next pass expects. -/
theorem equilibrium_fixed_point (o : Operators F P R G) (π : Preds F P R G) (hc : EquilibriumContracts o π)
    (e : Env F P R G) (loadable takeSaves : Bool) (s : AState F P R G) (hs : AtEquilibrium π s) :
    ∃ s', execStmtsA o e loadable takeSaves s driver.body = some s' ∧ AtEquilibrium π s' := by
  obtain ⟨b', hb', hle⟩ := body_flags loadable takeSaves e.loaded.lay
  obtain ⟨s', h1, h2⟩ := stmts_sound hc e false false (fun h => Bool.noConfusion h) (fun h => Bool.noConfusion h)
    loadable takeSaves driver.body headFlags b' hb' s ((atEquilibrium_iff π s).1 hs)
  exact ⟨s', h1, (atEquilibrium_iff π s').2 (StateRel_weaken π headFlags b' hle s' h2)⟩

/-- instance of the hypotheses: the toy operators satisfy the contracts, `toyState` is at the equilibrium -/
example : ∃ s', execStmtsA toyOps toyEnv false true toyState driver.body = some s' ∧ AtEquilibrium toyPreds s' :=
  equilibrium_fixed_point toyOps toyPreds toy_contracts toyEnv false true toyState toyState_atEquilibrium

/-- … hence of any number of time steps: every sequence of passes (`saves` says which of them write checkpoints) from the
equilibrium state is accepted and ends in the equilibrium state. -/
theorem equilibrium_fixed_point_passes (o : Operators F P R G) (π : Preds F P R G) (hc : EquilibriumContracts o π)
    (e : Env F P R G) (loadable : Bool) (saves : List Bool) (s : AState F P R G) (hs : AtEquilibrium π s) :
    ∃ s', passesA o e loadable driver.body saves s = some s' ∧ AtEquilibrium π s' := by
  obtain ⟨s', h1, h2⟩ := passes_sound hc e loadable driver.body headFlags
    (fun t => body_flags loadable t e.loaded.lay) saves s ((atEquilibrium_iff π s).1 hs)
  exact ⟨s', h1, (atEquilibrium_iff π s').2 h2⟩

example : ∃ s', passesA toyOps toyEnv true driver.body [false, false, true, false] toyState = some s'
    ∧ AtEquilibrium toyPreds s' :=
  equilibrium_fixed_point_passes toyOps toyPreds toy_contracts toyEnv true _ toyState toyState_atEquilibrium

/-- **The initial potential of the equilibrium is zero**: the part of the driver before the loop — started in *any* state,
with arbitrary contents of the freshly allocated `phi`, `rho`, `parGradVals` — from a checkpoint holding the equilibrium
(in any of the three standard layouts) or from `setupCylindricalGrid` producing it, raises nothing and reaches the
equilibrium state: the density, its modes, the solved modes and the potential are computed and `phi` = 0. -/
theorem equilibrium_initial_potential (o : Operators F P R G) (π : Preds F P R G) (hc : EquilibriumContracts o π)
    (e : Env F P R G) (loadable : Bool) (hlay : loadable = true → layoutOk .distribFunc e.loaded.lay = true)
    (hl : loadable = true → π.IsEq e.loaded.val) (hf : loadable = false → π.IsEq e.fresh) (s : AState F P R G) :
    ∃ s', execStmtsA o e loadable true s driver.pre = some s' ∧ AtEquilibrium π s' := by
  obtain ⟨b', hb', hle⟩ := pre_flags loadable e.loaded.lay hlay (unknownFlags s)
  obtain ⟨s', h1, h2⟩ := stmts_sound hc e loadable (!loadable) hl (fun h => hf (by simpa using h))
    loadable true driver.pre (unknownFlags s) b' hb' s (unknownFlags_rel π s)
  exact ⟨s', h1, (atEquilibrium_iff π s').2 (StateRel_weaken π headFlags b' hle s' h2)⟩

/-- instance of the hypotheses: a restart from a checkpoint stored in layout `poloidal` that holds the toy equilibrium -/
example : ∃ s', execStmtsA toyOps toyEnv true true ⟨⟨1, .flux_surface⟩, some ⟨2, .poloidal⟩, ⟨3, .poloidal⟩, ⟨4, .mode_solve⟩, 5⟩
    driver.pre = some s' ∧ AtEquilibrium toyPreds s' :=
  equilibrium_initial_potential toyOps toyPreds toy_contracts toyEnv true (fun _ => by decide) (fun _ => rfl)
    (fun h => Bool.noConfusion h) _

/-- **A whole run of the driver started on the equilibrium stays on it**: set-up (including the computation of the initial
potential), any number of time steps, wrap-up. -/
theorem equilibrium_fixed_point_run (o : Operators F P R G) (π : Preds F P R G) (hc : EquilibriumContracts o π)
    (e : Env F P R G) (loadable : Bool) (hlay : loadable = true → layoutOk .distribFunc e.loaded.lay = true)
    (hl : loadable = true → π.IsEq e.loaded.val) (hf : loadable = false → π.IsEq e.fresh) (saves : List Bool)
    (s : AState F P R G) :
    ∃ s', runA o e loadable driver saves s = some s' ∧ AtEquilibrium π s' := by
  obtain ⟨s₁, h1, hs₁⟩ := equilibrium_initial_potential o π hc e loadable hlay hl hf s
  obtain ⟨s₂, h2, hs₂⟩ := equilibrium_fixed_point_passes o π hc e loadable saves s₁ hs₁
  obtain ⟨b', hb', hle⟩ := post_flags loadable e.loaded.lay
  obtain ⟨s₃, h3, hs₃⟩ := stmts_sound hc e false false (fun h => Bool.noConfusion h) (fun h => Bool.noConfusion h)
    loadable true driver.post headFlags b' hb' s₂ ((atEquilibrium_iff π s₂).1 hs₂)
  exact ⟨s₃, by simp only [runA, h1, h2, h3], (atEquilibrium_iff π s₃).2 (StateRel_weaken π headFlags b' hle s₃ hs₃)⟩

/-- a fresh run (`setupCylindricalGrid` produces the toy equilibrium) of two passes -/
example : ∃ s', runA toyOps toyEnv false driver [true, false] toyState = some s' ∧ AtEquilibrium toyPreds s' :=
  equilibrium_fixed_point_run toyOps toyPreds toy_contracts toyEnv false (fun h => Bool.noConfusion h)
    (fun h => Bool.noConfusion h) (fun _ => rfl) _ _

end

/-! ### the same for the operators built from the kernel models -/

/-- **The equilibrium is a fixed point of the complete time step of the kernel models.**  `Kn.ops` are the operators built
in `Lemmas/TimeStepKernels.lean` from `FluxAdv.fluxStep`, `ParGrad.parallelGradient`, `VParAdv.step`, `PolAdv.explStep`,
`Density.getPerturbedRhoLocal`, the discrete Fourier transform and the per-mode solve of `Model/Poisson.lean`; for them the
operator identities are *theorems* (`Kernels.contracts`, from C10 `flux_preserves_constants`, C13 `pargrad_constants_zero`,
C11 `vpar_zero_shift_identity`, C12 `pol_constant_potential_identity`, C16 `density_zero_for_equilibrium`, C15
`pipeline_zero_for_equilibrium`).  What remains assumed is `KernelContracts`: the third-party solves (interpolants
reproduce their data / map zero to zero, `spsolve` solves a well-posed system, the finite-difference weights solve the
moment system), ordered node arrays, and that layout changes, save and restore deliver the same global array (C01/C03/C04).
Then a whole run of the generated driver that is started on the equilibrium — from a checkpoint or from
`setupCylindricalGrid`, any number of steps — raises nothing and ends with `f = f_eq` at every grid point and `phi = 0`. -/
theorem equilibrium_fixed_point_kernels {N : ℕ} [NeZero N] (Kn : Kernels N) (h : KernelContracts Kn)
    (e : Env DistF (CGrid N) (CGrid N) GradT) (loadable : Bool)
    (hlay : loadable = true → layoutOk .distribFunc e.loaded.lay = true)
    (hl : loadable = true → Kn.preds.IsEq e.loaded.val) (hf : loadable = false → Kn.preds.IsEq e.fresh)
    (saves : List Bool) (s : AState DistF (CGrid N) (CGrid N) GradT) :
    ∃ s', runA Kn.ops e loadable driver saves s = some s'
      ∧ (∀ r z θ v, r < Kn.nr → z < Kn.nz → θ < N → v < Kn.nv → s'.f.val r z θ v = Kn.fEq r v)
      ∧ (∀ r z k, r < Kn.nr → z < Kn.nz → s'.phi.val r z k = 0)
      ∧ s'.f.lay = .v_parallel ∧ s'.fsave = none ∧ s'.phi.lay = .v_parallel_2d := by
  obtain ⟨s', h1, h2⟩ := equilibrium_fixed_point_run Kn.ops Kn.preds (Kn.contracts h) e loadable hlay hl hf saves s
  exact ⟨s', h1, h2.f_eq, h2.phi_zero, h2.f_lay, h2.no_save, h2.phi_lay⟩

/-- … and one time step from the equilibrium state, whatever `rho` and the gradient table contain -/
theorem equilibrium_fixed_point_kernels_step {N : ℕ} [NeZero N] (Kn : Kernels N) (h : KernelContracts Kn)
    (e : Env DistF (CGrid N) (CGrid N) GradT) (loadable takeSaves : Bool)
    (s : AState DistF (CGrid N) (CGrid N) GradT) (hs : AtEquilibrium Kn.preds s) :
    ∃ s', execStmtsA Kn.ops e loadable takeSaves s driver.body = some s' ∧ AtEquilibrium Kn.preds s' :=
  equilibrium_fixed_point Kn.ops Kn.preds (Kn.contracts h) e loadable takeSaves s hs

/-- instance of the hypotheses: the demo grid of `Lemmas/TimeStepKernels.lean` (2×3×2×2 points, nearest-node
    interpolators, identity mode matrices) satisfies `KernelContracts`; its equilibrium table is `r + 10 v` -/
example : ∃ s', runA demoKernels.ops ⟨fun _ _ _ => 1, fun _ _ _ => 2, fun _ _ _ => 3, ⟨demoFeq, .flux_surface⟩, demoFeq⟩ true
      driver [false, true] ⟨⟨fun _ _ _ _ => 4, .poloidal⟩, none, ⟨fun _ _ _ => 5, .poloidal⟩, ⟨fun _ _ _ => 6, .mode_solve⟩,
        fun _ _ _ => 7⟩ = some s'
    ∧ (∀ r z θ v, r < 2 → z < 3 → θ < 2 → v < 2 → s'.f.val r z θ v = (r : ℝ) + 10 * v)
    ∧ (∀ r z k, r < 2 → z < 3 → s'.phi.val r z k = 0) := by
  obtain ⟨s', h1, h2, h3, _⟩ := equilibrium_fixed_point_kernels demoKernels demoKernels_contracts
    ⟨fun _ _ _ => 1, fun _ _ _ => 2, fun _ _ _ => 3, ⟨demoFeq, .flux_surface⟩, demoFeq⟩ true (fun _ => by decide)
    (fun _ _ _ _ _ _ _ _ _ => rfl) (fun h => Bool.noConfusion h) [false, true]
    ⟨⟨fun _ _ _ _ => 4, .poloidal⟩, none, ⟨fun _ _ _ => 5, .poloidal⟩, ⟨fun _ _ _ => 6, .mode_solve⟩, fun _ _ _ => 7⟩
  exact ⟨s', h1, h2, h3⟩

/-! ### the generated pass is really executed, and what the check is sensitive to -/

/-- the generated pass really is executed: from the equilibrium (7, φ = 0) it returns (7, 0); from the perturbed
    distribution 8 it does not return 8 -/
example :
    (execStmtsA toyOps toyEnv false true ⟨⟨7, .v_parallel⟩, none, ⟨0, .v_parallel_2d⟩, ⟨99, .v_parallel_2d⟩, 55⟩ driver.body).map
        (fun s => (s.f.val, s.phi.val)) = some (7, 0)
    ∧ (execStmtsA toyOps toyEnv false true ⟨⟨8, .v_parallel⟩, none, ⟨0, .v_parallel_2d⟩, ⟨99, .v_parallel_2d⟩, 55⟩ driver.body).map
        (fun s => (s.f.val, s.phi.val)) ≠ some (8, 0) := by decide

/-- a restarted run of three passes on the toy instance -/
example : (runA toyOps toyEnv true driver [false, true, false] ⟨⟨1, .flux_surface⟩, some ⟨2, .poloidal⟩, ⟨3, .poloidal⟩, ⟨4, .mode_solve⟩, 5⟩).map
    (fun s => (s.f.val, s.phi.val)) = some (7, 0) := by decide

/-- what the Boolean run is sensitive to: a pass that used the stored gradient table *before* any `gridStep` has filled
    it (`gridStepKeepGradient` first) loses the equilibrium flag — unknown gradient values advect `f` -/
example : (execStmtsA boolOps (flagEnv false false .v_parallel) false false headFlags
    [.s (.call (.vParStepKeep .distribFunc .halfStep))]).map (fun b => b.f.val) = some false := by decide

/-- … and a pass that forgets `restoreGridValues` is refused at the next `saveGridValues` -/
example : execStmtsA boolOps (flagEnv false false .v_parallel) false false headFlags
    [.s (.call (.setLayout .distribFunc .flux_surface)), .s (.call (.saveGridValues .distribFunc)),
     .s (.call (.saveGridValues .distribFunc))] = none := by decide

/-! ### the interpreter used above is the one C18 reasons with -/

/-- at the free term algebra (`termOps`: every operator builds a term; layout changes, save and restore keep it) the
interpretation of the generated script by `execStmtsA` is the symbolic interpreter `Ckpt.execStmtsS` of
`Model/Checkpoint.lean` — the loop body is C18's `passSim`, the set-up part C18's `setupSim`: same accept / refuse
decisions, same data flow.  So the operator composition whose fixed point `equilibrium_fixed_point` is about is the one
C18 `pass_is_function_of_f` describes (`stepOf`). -/
theorem interpreter_agrees_with_symbolic (junk : Nat → Term) (loaded : SGrid) (fresh : Term) (loadable b : Bool) (s : Sim) :
    execStmtsA termOps (envOfS junk loaded fresh) loadable b (ofSim s) driver.body
      = (execStmtsS junk loaded fresh loadable b s driver.body).map ofSim
    ∧ execStmtsA termOps (envOfS junk loaded fresh) loadable true (ofSim s) driver.pre
      = (execStmtsS junk loaded fresh loadable true s driver.pre).map ofSim :=
  ⟨execStmtsA_termOps _ _ _ _ _ _ s, execStmtsA_termOps _ _ _ _ _ _ s⟩

/-- the symbolic pass from a loop-head state is accepted and changes the term of `distribFunc` -/
example : ((execStmtsS (fun _ => .unit) ⟨.unit, .v_parallel⟩ .unit true false
    ⟨⟨.sym 0, .v_parallel⟩, none, ⟨.sym 1, .v_parallel_2d⟩, ⟨.sym 2, .v_parallel_2d⟩, .sym 3, []⟩ driver.body).map
      (fun s => decide (s.f.field = .sym 0))) = some false := by decide

end PygyroVerif.C15

/-! ## C05: the complete time step does not depend on the process decomposition -/

namespace PygyroVerif.C05
open PygyroVerif.Ckpt PygyroVerif.TimeStep PygyroVerif.Generated

section
variable {F₁ P₁ R₁ G₁ F₂ P₂ R₂ G₂ FG PG RG GG : Type}

/-- how the distributed contents of one process decomposition assemble to global contents, and the statement that every
grid-level operator of that decomposition computes, after assembly, the global operator `og`:
C05 `gridop_decomposition_independent` with `wiring_flux`, `wiring_vpar`, `wiring_pargrad`, `wiring_poloidal`,
`wiring_density`, `wiring_solve` for the kernels' loops (the value at a global index is `kern (T g) (F g)` whatever the
number of ranks), C16 `density_decomposition_independent`, C01 `route_transpose_correct_*` / C03 `gather_correct`,
`scatter_correct` for the layout changes (global field unchanged: `og.relayout… = id` there), C04 for save / restore. -/
structure Assembly (o : Operators F₁ P₁ R₁ G₁) (og : Operators FG PG RG GG) where
  asmF : F₁ → FG
  asmP : P₁ → PG
  asmR : R₁ → RG
  asmG : G₁ → GG
  relayoutF : ∀ a b x, asmF (o.relayoutF a b x) = og.relayoutF a b (asmF x)
  relayoutP : ∀ a b x, asmP (o.relayoutP a b x) = og.relayoutP a b (asmP x)
  relayoutR : ∀ a b x, asmR (o.relayoutR a b x) = og.relayoutR a b (asmR x)
  saveF : ∀ x, asmF (o.saveF x) = og.saveF (asmF x)
  restoreF : ∀ x, asmF (o.restoreF x) = og.restoreF (asmF x)
  flux : ∀ x, asmF (o.flux x) = og.flux (asmF x)
  grad : ∀ x, asmG (o.grad x) = og.grad (asmP x)
  vpar : ∀ d x g, asmF (o.vpar d x g) = og.vpar d (asmF x) (asmG g)
  pol : ∀ d x p, asmF (o.pol d x p) = og.pol d (asmF x) (asmP p)
  rhoOf : ∀ x, asmR (o.rhoOf x) = og.rhoOf (asmF x)
  modes : ∀ x, asmR (o.modes x) = og.modes (asmR x)
  solve : ∀ x, asmP (o.solve x) = og.solve (asmR x)
  potential : ∀ x, asmP (o.potential x) = og.potential (asmP x)

/-- "assemble to the same global contents" -/
def sameGlobal {o₁ : Operators F₁ P₁ R₁ G₁} {o₂ : Operators F₂ P₂ R₂ G₂} {og : Operators FG PG RG GG}
    (A₁ : Assembly o₁ og) (A₂ : Assembly o₂ og) : Rels F₁ P₁ R₁ G₁ F₂ P₂ R₂ G₂ where
  rF := fun x y => A₁.asmF x = A₂.asmF y
  rP := fun x y => A₁.asmP x = A₂.asmP y
  rR := fun x y => A₁.asmR x = A₂.asmR y
  rG := fun x y => A₁.asmG x = A₂.asmG y

theorem sameGlobal_opsRel {o₁ : Operators F₁ P₁ R₁ G₁} {o₂ : Operators F₂ P₂ R₂ G₂} {og : Operators FG PG RG GG}
    (A₁ : Assembly o₁ og) (A₂ : Assembly o₂ og) : OpsRel o₁ o₂ (sameGlobal A₁ A₂) where
  relayoutF := fun a b x y (h : A₁.asmF x = A₂.asmF y) => by
    show A₁.asmF _ = A₂.asmF _; rw [A₁.relayoutF, A₂.relayoutF, h]
  relayoutP := fun a b x y (h : A₁.asmP x = A₂.asmP y) => by
    show A₁.asmP _ = A₂.asmP _; rw [A₁.relayoutP, A₂.relayoutP, h]
  relayoutR := fun a b x y (h : A₁.asmR x = A₂.asmR y) => by
    show A₁.asmR _ = A₂.asmR _; rw [A₁.relayoutR, A₂.relayoutR, h]
  saveF := fun x y (h : A₁.asmF x = A₂.asmF y) => by show A₁.asmF _ = A₂.asmF _; rw [A₁.saveF, A₂.saveF, h]
  restoreF := fun x y (h : A₁.asmF x = A₂.asmF y) => by show A₁.asmF _ = A₂.asmF _; rw [A₁.restoreF, A₂.restoreF, h]
  flux := fun x y (h : A₁.asmF x = A₂.asmF y) => by show A₁.asmF _ = A₂.asmF _; rw [A₁.flux, A₂.flux, h]
  grad := fun x y (h : A₁.asmP x = A₂.asmP y) => by show A₁.asmG _ = A₂.asmG _; rw [A₁.grad, A₂.grad, h]
  vpar := fun d x y g k (h : A₁.asmF x = A₂.asmF y) (hg : A₁.asmG g = A₂.asmG k) => by
    show A₁.asmF _ = A₂.asmF _; rw [A₁.vpar, A₂.vpar, h, hg]
  pol := fun d x y p q (h : A₁.asmF x = A₂.asmF y) (hp : A₁.asmP p = A₂.asmP q) => by
    show A₁.asmF _ = A₂.asmF _; rw [A₁.pol, A₂.pol, h, hp]
  rhoOf := fun x y (h : A₁.asmF x = A₂.asmF y) => by show A₁.asmR _ = A₂.asmR _; rw [A₁.rhoOf, A₂.rhoOf, h]
  modes := fun x y (h : A₁.asmR x = A₂.asmR y) => by show A₁.asmR _ = A₂.asmR _; rw [A₁.modes, A₂.modes, h]
  solve := fun x y (h : A₁.asmR x = A₂.asmR y) => by show A₁.asmP _ = A₂.asmP _; rw [A₁.solve, A₂.solve, h]
  potential := fun x y (h : A₁.asmP x = A₂.asmP y) => by
    show A₁.asmP _ = A₂.asmP _; rw [A₁.potential, A₂.potential, h]

/-- **The complete Strang-split time step — and the whole run — is independent of the process decomposition.**  Take two
process decompositions whose grid-level operators both assemble to the same global operators (`Assembly`: that is what
C05's `gridop_decomposition_independent` / `wiring_*`, C01, C03, C04 and C16 establish operator by operator).  Start both
runs of the driver *as generated from fullSimulation.py* on states that assemble to the same global contents (same
layouts, same save status), with set-up data (checkpoint, initial condition, uninitialised arrays) that assemble to the
same contents.  Then either both runs raise at the same statement, or both complete, in the same layouts and with
contents that assemble to the same global `distribFunc`, saved copy, `phi`, `rho` and gradient table — for any number of
time steps and any pattern of saving passes.  (The proof is the abstraction theorem `execStmtsA_rel`, by structural
recursion over the statement lists; it uses nothing about the particular script.) -/
theorem timestep_decomposition_independent {o₁ : Operators F₁ P₁ R₁ G₁} {o₂ : Operators F₂ P₂ R₂ G₂}
    {og : Operators FG PG RG GG} (A₁ : Assembly o₁ og) (A₂ : Assembly o₂ og)
    (e₁ : Env F₁ P₁ R₁ G₁) (e₂ : Env F₂ P₂ R₂ G₂) (he : EnvRel (sameGlobal A₁ A₂) e₁ e₂) (loadable : Bool)
    (saves : List Bool) (s₁ : AState F₁ P₁ R₁ G₁) (s₂ : AState F₂ P₂ R₂ G₂) (hs : StateRel (sameGlobal A₁ A₂) s₁ s₂) :
    -- one time step
    (∀ t, ORel (StateRel (sameGlobal A₁ A₂)) (execStmtsA o₁ e₁ loadable t s₁ driver.body)
      (execStmtsA o₂ e₂ loadable t s₂ driver.body))
    -- the whole run
    ∧ ORel (StateRel (sameGlobal A₁ A₂)) (runA o₁ e₁ loadable driver saves s₁) (runA o₂ e₂ loadable driver saves s₂) :=
  ⟨fun t => execStmtsA_rel (sameGlobal_opsRel A₁ A₂) e₁ e₂ he loadable t driver.body s₁ s₂ hs,
   runA_rel (sameGlobal_opsRel A₁ A₂) e₁ e₂ he loadable driver saves s₁ s₂ hs⟩

end

/-- instance of the hypotheses: "distributed" contents = pairs (two halves), assembled by addition; every operator acts
    on the sum -/
def pairOps : Operators (Int × Int) (Int × Int) (Int × Int) (Int × Int) where
  relayoutF := fun _ _ x => (x.2, x.1)
  relayoutP := fun _ _ x => x
  relayoutR := fun _ _ x => (x.1 + x.2, 0)
  saveF := fun x => x
  restoreF := fun x => x
  flux := fun x => (x.1 + 1, x.2)
  grad := fun p => (3 * (p.1 + p.2), 0)
  vpar := fun _ x g => (x.1 + g.1, x.2 + g.2)
  pol := fun _ x p => (x.1 + x.2 + 5 * (p.1 + p.2), 0)
  rhoOf := fun x => (x.1 - 7, x.2)
  modes := fun r => (2 * r.1, 2 * r.2)
  solve := fun r => (0, -(r.1 + r.2))
  potential := fun p => (4 * p.1, 4 * p.2)

def sumOps : Operators Int Int Int Int where
  relayoutF := fun _ _ x => x
  relayoutP := fun _ _ x => x
  relayoutR := fun _ _ x => x
  saveF := fun x => x
  restoreF := fun x => x
  flux := fun x => x + 1
  grad := fun p => 3 * p
  vpar := fun _ x g => x + g
  pol := fun _ x p => x + 5 * p
  rhoOf := fun x => x - 7
  modes := fun r => 2 * r
  solve := fun r => -r
  potential := fun p => 4 * p

def pairAssembly : Assembly pairOps sumOps where
  asmF := fun x => x.1 + x.2
  asmP := fun x => x.1 + x.2
  asmR := fun x => x.1 + x.2
  asmG := fun x => x.1 + x.2
  relayoutF := fun _ _ x => by simp only [pairOps, sumOps]; omega
  relayoutP := fun _ _ x => rfl
  relayoutR := fun _ _ x => by simp only [pairOps, sumOps]; omega
  saveF := fun x => rfl
  restoreF := fun x => rfl
  flux := fun x => by simp only [pairOps, sumOps]; omega
  grad := fun x => by simp only [pairOps, sumOps]; omega
  vpar := fun _ x g => by simp only [pairOps, sumOps]; omega
  pol := fun _ x p => by simp only [pairOps, sumOps]; omega
  rhoOf := fun x => by simp only [pairOps, sumOps]; omega
  modes := fun x => by simp only [pairOps, sumOps]; omega
  solve := fun x => by simp only [pairOps, sumOps]; omega
  potential := fun x => by simp only [pairOps, sumOps]; omega

/-- the serial run assembles by the identity -/
def idAssembly {F P R G : Type} (og : Operators F P R G) : Assembly og og where
  asmF := id
  asmP := id
  asmR := id
  asmG := id
  relayoutF := fun _ _ _ => rfl
  relayoutP := fun _ _ _ => rfl
  relayoutR := fun _ _ _ => rfl
  saveF := fun _ => rfl
  restoreF := fun _ => rfl
  flux := fun _ => rfl
  grad := fun _ => rfl
  vpar := fun _ _ _ => rfl
  pol := fun _ _ _ => rfl
  rhoOf := fun _ => rfl
  modes := fun _ => rfl
  solve := fun _ => rfl
  potential := fun _ => rfl

def pairEnv : Env (Int × Int) (Int × Int) (Int × Int) (Int × Int) := ⟨(1, 2), (3, 4), (5, 6), ⟨(3, 4), .poloidal⟩, (3, 4)⟩
def sumEnv : Env Int Int Int Int := ⟨3, 7, 11, ⟨7, .poloidal⟩, 7⟩
def pairState : AState (Int × Int) (Int × Int) (Int × Int) (Int × Int) :=
  ⟨⟨(3, 5), .v_parallel⟩, none, ⟨(1, 1), .v_parallel_2d⟩, ⟨(0, 9), .v_parallel_2d⟩, (2, 2)⟩
def sumState : AState Int Int Int Int := ⟨⟨8, .v_parallel⟩, none, ⟨2, .v_parallel_2d⟩, ⟨9, .v_parallel_2d⟩, 4⟩

theorem pair_sum_env : EnvRel (sameGlobal pairAssembly (idAssembly sumOps)) pairEnv sumEnv :=
  ⟨(rfl : (1 + 2 : Int) = 3), (rfl : (3 + 4 : Int) = 7), (rfl : (5 + 6 : Int) = 11), ⟨(rfl : (3 + 4 : Int) = 7), rfl⟩,
    (rfl : (3 + 4 : Int) = 7)⟩

theorem pair_sum_state : StateRel (sameGlobal pairAssembly (idAssembly sumOps)) pairState sumState :=
  ⟨⟨(rfl : (3 + 5 : Int) = 8), rfl⟩, True.intro, ⟨(rfl : (1 + 1 : Int) = 2), rfl⟩, ⟨(rfl : (0 + 9 : Int) = 9), rfl⟩,
    (rfl : (2 + 2 : Int) = 4)⟩

/-- instance of the hypotheses: the split operators and the serial operators both assemble to `sumOps`; the two runs start
    on states / set-up data with the same sums -/
example : ORel (StateRel (sameGlobal pairAssembly (idAssembly sumOps)))
    (runA pairOps pairEnv false driver [false, true] pairState) (runA sumOps sumEnv false driver [false, true] sumState) :=
  (timestep_decomposition_independent pairAssembly (idAssembly sumOps) pairEnv sumEnv pair_sum_env false [false, true]
    pairState sumState pair_sum_state).2

/-- … and the two runs are really executed: two passes of the generated script on the split and on the serial instance
    end with the same global `distribFunc` (which is not the initial one) -/
example :
    (passesA pairOps pairEnv false driver.body [false, true] pairState).map (fun s => s.f.val.1 + s.f.val.2)
      = (passesA sumOps sumEnv false driver.body [false, true] sumState).map (fun s => s.f.val)
    ∧ (passesA sumOps sumEnv false driver.body [false, true] sumState).map (fun s => s.f.val) ≠ some 8 := by decide

end PygyroVerif.C05
