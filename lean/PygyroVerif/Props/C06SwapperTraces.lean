/-
C06 (traces, swapper) — the hypothesis of the deadlock-freedom theorems of Props/C06.lean, proved for ALL configurations
of a `LayoutSwapper` whose constructor succeeds: the per-rank sequences of collective calls that Model/Traces.lean
predicts for `LayoutSwapper.transpose` (pygyro/model/layout.py:1212-1553; `swapperTrace`, compared with the recorded traces
of the real code on every run) are the projections of ONE global event list over the world ranks, and the members of every
event issue the same call.  This extends Props/C06Traces.lean (one `LayoutHandler` on its own Cartesian communicator) to
several handlers built on `Sub` communicators of ONE Cartesian communicator of the world.  Property theorems only; helper
lemmas: Lemmas/SwapperTraceMatch.lean.

Setting.  `S : Swapper`; the world is the Cartesian grid `S.dims` (`Create_cart(self._nprocs[max_idx])`), world rank `r`
(`r < prodL S.dims`) has world coordinates `coordsOf S.dims r` (`rank_coords_bijection`).  Handler `h` uses the world axes
`S.commAxes h = some axes` (the constructor's choice loop; `none` = its `assert len(res) > 0` fails), its process grid is
`S.handlerNprocs h`, and world rank `r` has the handler coordinates `(S.topo h).coords r = axes.map (world coordinate)`.
The communicator of handler axis `a` is the `Sub` that keeps world axis `axes[a]`, called `sub{axes[a]}`; two world ranks
are members of the same instance of `sub{ax}` iff their world coordinates agree off `ax` (`AgreeOff ax`): the instances
are indexed by the world coordinates on all OTHER world axes.

The only hypothesis is that the choice loop succeeded (`CommOK S`: `commAxes h ≠ none` for the handlers that exist); all
facts about the chosen axes are then theorems (`swapper_comm_axes_wellformed`).

Results.
  0. `swapper_comm_axes_wellformed`     `commAxes h = some axes` ⇒ no axis twice, axes inside the world topology, one per
                                        entry of the handler's `nprocs`, and `nprocs[a]` = size of world axis `axes[a]`
  1. `crossTrace_members_agree`         gather step between handlers: members of one instance of `sub{ax}` predict the same
                                        `Allgather` (same name, send count; recv = send · size of the communicator)
  2. `swapper_handler_coords_agree`     handler steps inside a swapper: members of one instance of `sub{axes[a0]}` have
                                        handler coordinates that differ on handler axis `a0` only
     `swapper_handler_step_members_agree`   hence predict the same `Alltoall` (with `directTrace_members_agree`)
  3. `swapper_traces_projection`        the explicit global event list (per transpose, per route step, one event per
                                        instance of the step's communicator) projects on every world rank to its
                                        `swapperTrace`, for any sequence of transposes and any route maps
     `swapper_events_are_instances`     its events are complete instances whose members all predict the event's call
  4. `swapper_transposes_never_deadlock`    with Props/C06.lean: some event is always enabled, every schedule completes
                                        all programs after exactly `E.length` completions
  No member disagreement was found: the model's swapper traces are consistent on every accepted swapper (the early exit
  is the rank-independent test of the repaired code, F16b; for the old exit see `C06.swapper_early_exit_inconsistent`).
-/
import PygyroVerif.Lemmas.SwapperTraceMatch
import PygyroVerif.Props.C06Traces
import PygyroVerif.Props.C03

namespace PygyroVerif.C06
open PygyroVerif PygyroVerif.Handler PygyroVerif.Traces PygyroVerif.TraceMatch PygyroVerif.Coll
open PygyroVerif.SwapperTraceMatch

/-! ### example swapper -/

/-- pygyro's driver swapper (fullSimulation.py: handlers on the 2-D grid, on its first and on its second axis) for an
    (r, θ, z) = 4×6×5 grid on a 2×3 process grid.  Global layout numbers: 0 v_parallel_2d, 1 mode_solve (handler 0, world
    axes [0,1]), 2 v_parallel_1d (handler 1, world axis [0]), 3 poloidal (handler 2, world axis [1]). -/
def trSwapper : Swapper := C03.driverSwapper 2 3 [4, 6, 5]

/-- the route map of the swapper's constructor and those of its handlers -/
def trSwapperRoutes : RouteMap := (trSwapper.routes [0, 1, 2, 3]).1
def trHandlerRoutes : Nat → RouteMap := fun h => ((trSwapper.handler h).routes [0, 1]).1

/-! ### 0. what the constructor guarantees about the communicators -/

/-- **the chosen communicators are well formed**: if the constructor's choice loop succeeds for handler `h`
    (`S.commAxes h = some axes`) then no world axis is chosen twice, every chosen axis is an axis of the world topology,
    there is one per entry of the handler's `nprocs`, and the `a`-th entry of the handler's `nprocs` is the extent of the
    chosen world axis, i.e. the size of the communicator `sub{axes[a]}` (the loop only picks an available sub-communicator
    with exactly `n` processes).  `AxesOK` is decidable. -/
theorem swapper_comm_axes_wellformed (S : Swapper) (h : Nat) (axes : List Nat) (hax : S.commAxes h = some axes) :
    axes.Nodup ∧ (∀ x ∈ axes, x < S.dims.length) ∧ axes.length = (S.handlerNprocs h).length ∧
    (∀ a, a < axes.length → (S.handlerNprocs h).getD a 1 = S.dims.getD (axes.getD a 0) 1) ∧
    S.handlerNprocs h = axes.map (fun x => S.dims.getD x 1) := by
  have hok := axesOK_of_commAxes S h axes hax
  refine ⟨hok.nodup, hok.lt, hok.len, hok.procs, ?_⟩
  apply List.ext_getElem
  · rw [List.length_map, hok.len]
  · intro a h1 h2
    have ha : a < axes.length := by rw [hok.len]; exact h1
    have := hok.procs a ha
    simp only [List.getD_eq_getElem?_getD, List.getElem?_eq_getElem h1, List.getElem?_eq_getElem ha,
      Option.getD_some] at this
    rw [List.getElem_map, this]
    simp [List.getD_eq_getElem?_getD]

/-- the choice loop succeeds for the driver's swapper on every process grid `p0 × p1` (`C03.driver_comm_axes`): the
    hypothesis `CommOK` of the theorems below holds for it -/
theorem driver_commOK (p0 p1 : Nat) (ext : List Nat) : CommOK (C03.driverSwapper p0 p1 ext) := by
  apply commOK_of_lt
  intro h hh
  obtain ⟨h0, h1, h2⟩ := C03.driver_comm_axes p0 p1 ext
  have : h < 3 := hh
  have : h = 0 ∨ h = 1 ∨ h = 2 := by omega
  rcases this with rfl | rfl | rfl
  · rw [h0]; rfl
  · rw [h1]; rfl
  · rw [h2]; rfl

example : trSwapper.dims = [2, 3] ∧ trSwapper.commAxes 0 = some [0, 1] ∧ trSwapper.commAxes 1 = some [0] ∧
    trSwapper.commAxes 2 = some [1] ∧ AxesOK trSwapper 0 [0, 1] ∧ AxesOK trSwapper 1 [0] ∧ AxesOK trSwapper 2 [1] ∧
    trSwapper.handlerNprocs 2 = [3] := by
  decide +kernel

/-! ### 1. gather steps between handlers: members of one communicator instance issue the same call -/

/-- **members agree, gather step** (`_transpose` / `_transpose_source_intact`, branch `dest_ndims < source_ndims`).
    For the direct step `kS → kD` between layouts of different handlers: the step communicates iff the destination's
    handler is LESS distributed than the source's (`crossComm`; scatter and equal-distribution steps are local:
    `crossTrace = []` on every rank).  If it does, it is one `Allgather` on the `Sub` communicator of world axis
    `crossAxis = axes[crossIdx]`, a genuine axis of the source handler and of the world; two world ranks whose world
    coordinates differ on that axis only — two members of one instance of `sub{crossAxis}` — predict the SAME call: same
    communicator name, same send count (`crossCount`, the source block padded along the gathered axis, which does not
    depend on the coordinate along it) and receive count = send count × size of the communicator (`S.dims[crossAxis]`),
    the `Allgather` contract.  No well-formedness of the layouts and no no-empty-block hypothesis is needed. -/
theorem crossTrace_members_agree (S : Swapper) (kS kD : Nat) (axes : List Nat)
    (hax : S.commAxes (S.locate kS).1 = some axes) (r r' : Nat)
    (hcc : AgreeOff (crossAxis S kS kD) (coordsOf S.dims r) (coordsOf S.dims r')) :
    crossTrace S r kS kD = crossTrace S r' kS kD ∧
    (¬ crossComm S kS kD → crossTrace S r kS kD = []) ∧
    (∀ call ∈ crossTrace S r kS kD,
      crossComm S kS kD ∧ call.comm = s!"sub{crossAxis S kS kD}" ∧ call.op = "Allgather" ∧
      call.send = crossCount S r kS kD ∧ crossCount S r kS kD = crossCount S r' kS kD ∧
      call.recv = call.send * S.dims.getD (crossAxis S kS kD) 1 ∧
      crossIdx S kS kD < axes.length ∧ crossAxis S kS kD = axes.getD (crossIdx S kS kD) 0 ∧
      crossAxis S kS kD < S.dims.length) := by
  rw [crossTrace_eq, crossTrace_eq]
  by_cases hs : crossComm S kS kD
  · rw [if_pos hs, if_pos hs]
    refine ⟨by rw [crossCall_agree S kS kD axes hax hs hcc], fun hn => absurd hs hn, ?_⟩
    intro call hcall
    rw [List.mem_singleton] at hcall
    subst hcall
    refine ⟨hs, rfl, rfl, rfl, crossCount_agree S kS kD axes hax hs hcc, ?_, crossIdx_lt S kS kD axes hax hs,
      crossAxis_eq S kS kD axes hax, crossAxis_lt S kS kD axes hax hs⟩
    rw [← crossProcs_eq S kS kD axes hax hs]
    rfl
  · rw [if_neg hs, if_neg hs]
    exact ⟨rfl, fun _ => rfl, fun call hcall => by cases hcall⟩

/-- `v_parallel_2d → v_parallel_1d` of `trSwapper` gathers along world axis 1: the three ranks 0, 1, 2 = (0, ·) form one
    instance of `sub1` and all pass 24 elements and receive 3 · 24; the scatter `poloidal → v_parallel_2d` is local -/
example : crossComm trSwapper 0 2 ∧ crossAxis trSwapper 0 2 = 1 ∧
    coordsOf trSwapper.dims 0 = [0, 0] ∧ coordsOf trSwapper.dims 2 = [0, 2] ∧
    crossTrace trSwapper 0 0 2 = [{ comm := "sub1", op := "Allgather", send := 24, recv := 72 }] ∧
    crossTrace trSwapper 2 0 2 = [{ comm := "sub1", op := "Allgather", send := 24, recv := 72 }] ∧
    ¬ crossComm trSwapper 3 0 ∧ crossTrace trSwapper 0 3 0 = [] := by
  decide +kernel

/-! ### 2. handler steps inside a swapper -/

/-- **world instance ⇒ handler instance**: handler `h` of a swapper sees world rank `r` at the handler coordinates
    `(S.topo h).coords r` = its world coordinates on the handler's world axes; these lie inside the handler's process
    grid, and two world ranks whose world coordinates differ on world axis `axes[a0]` only — two members of one
    instance of the communicator `sub{axes[a0]}` of handler axis `a0` — have handler coordinates that differ on handler
    axis `a0` only (because no world axis is used twice).  Hence everything proved for a `LayoutHandler` about members
    of a `Sub` instance (`directTrace_members_agree`) applies to the handlers of a swapper. -/
theorem swapper_handler_coords_agree (S : Swapper) (h : Nat) (axes : List Nat) (hax : S.commAxes h = some axes)
    (a0 : Nat) (ha0 : a0 < axes.length) (r r' : Nat)
    (hcc : AgreeOff (axes.getD a0 0) (coordsOf S.dims r) (coordsOf S.dims r')) :
    AgreeOff a0 ((S.topo h).coords r) ((S.topo h).coords r') ∧
    (r < prodL S.dims → DS.CoordsOK (S.handler h).nprocs ((S.topo h).coords r)) ∧
    (S.handler h).nprocs.getD a0 1 = S.dims.getD (axes.getD a0 0) 1 :=
  ⟨topo_coords_agreeOff S h axes hax a0 ha0 hcc, fun hr => topo_coords_ok S h axes hax r hr,
    (axesOK_of_commAxes S h axes hax).procs a0 ha0⟩

/-- **members agree, handler step inside a swapper**: for a communicating direct step `i → j` of handler `h`, the step's
    handler axis `a0 = stepAxis` is one of the handler's axes, its communicator is `sub{axes[a0]}` on a genuine world
    axis whose extent is the handler's `nprocs[a0]`, and two world ranks in the same instance of that communicator
    predict the same `Alltoall` (same name, same count). -/
theorem swapper_handler_step_members_agree (S : Swapper) (h : Nat) (axes : List Nat) (hax : S.commAxes h = some axes)
    (i j : Nat) (hs : stepComm (S.handler h) i j) (r r' : Nat)
    (hcc : AgreeOff (axes.getD (stepAxis (S.handler h) i j) 0) (coordsOf S.dims r) (coordsOf S.dims r')) :
    stepAxis (S.handler h) i j < axes.length ∧ axes.getD (stepAxis (S.handler h) i j) 0 < S.dims.length ∧
    subName S h (stepAxis (S.handler h) i j) = s!"sub{axes.getD (stepAxis (S.handler h) i j) 0}" ∧
    (S.handler h).nprocs.getD (stepAxis (S.handler h) i j) 1 =
      S.dims.getD (axes.getD (stepAxis (S.handler h) i j) 0) 1 ∧
    AgreeOff (stepAxis (S.handler h) i j) ((S.topo h).coords r) ((S.topo h).coords r') ∧
    directTrace (S.handler h) ((S.topo h).coords r) (subName S h) i j =
      directTrace (S.handler h) ((S.topo h).coords r') (subName S h) i j ∧
    directTrace (S.handler h) ((S.topo h).coords r) (subName S h) i j =
      [directCall (S.handler h) ((S.topo h).coords r) (subName S h) i j] := by
  have ha := stepAxis_lt_axes S h axes hax i j hs
  have hagree := topo_coords_agreeOff S h axes hax _ ha hcc
  refine ⟨ha, (axesOK_of_commAxes S h axes hax).lt _ (getD_mem _ _ _ ha), ?_,
    (axesOK_of_commAxes S h axes hax).procs _ ha, hagree,
    (directTrace_members_agree (S.handler h) (subName S h) i j _ _ hagree).1, ?_⟩
  · unfold subName; rw [hax, Option.getD_some]
  · rw [directTrace_eq, if_pos hs]

/-- `v_parallel_2d → mode_solve` inside handler 0 of `trSwapper` exchanges on handler axis 0 = world axis 0: world ranks
    1 = (0,1) and 4 = (1,1) are the two members of one instance of `sub0` and pass 24 elements each -/
example : stepComm (trSwapper.handler 0) 0 1 ∧ stepAxis (trSwapper.handler 0) 0 1 = 0 ∧
    (trSwapper.topo 0).coords 1 = [0, 1] ∧ (trSwapper.topo 0).coords 4 = [1, 1] ∧
    (trSwapper.topo 2).coords 4 = [1] ∧
    directTrace (trSwapper.handler 0) ((trSwapper.topo 0).coords 1) (subName trSwapper 0) 0 1 =
      [{ comm := "sub0", op := "Alltoall", send := 24, recv := 24 }] ∧
    directTrace (trSwapper.handler 0) ((trSwapper.topo 0).coords 4) (subName trSwapper 0) 0 1 =
      [{ comm := "sub0", op := "Alltoall", send := 24, recv := 24 }] := by
  decide +kernel

/-! ### 3. the traces are the projections of one global event list -/

/-- **projection**.  For any swapper whose constructor's choice of communicators succeeds, any route maps (of the swapper
    and of its handlers) and any sequence `seq` of calls `transpose(source = p.1, dest = p.2)` (global layout numbers), let
    `G = swapperSeqEvents S rm hrm seq` be the explicit global list: for each transpose in order (none if some grid is
    empty), for each step of it in order — the direct steps of the handler's route if source and destination belong to
    one handler; otherwise for each hop of the swapper's route the direct steps of a handler transpose or the one gather
    step — one event per instance of the `Sub` communicator of the step's world axis (members = the world ranks of the
    instance, i.e. one event per choice of the world coordinates on all other axes; call = their common `Alltoall` /
    `Allgather`; local steps contribute nothing).  Then for every world rank `r` the events of `G` that contain `r`
    carry, in order, exactly the calls that the model predicts for `r` — in the abstract machine of
    Model/Collectives.lean: the program of `r` (projection of `toEvents tagOf G` on `r`), read through the events' calls
    resp. their opaque tags, IS the predicted trace. -/
theorem swapper_traces_projection (S : Swapper) (hC : CommOK S) (rm : RouteMap) (hrm : Nat → RouteMap)
    (seq : List (Nat × Nat)) (tagOf : Call → Nat) (r : Nat) (hr : r < prodL S.dims) :
    let G := swapperSeqEvents S rm hrm seq
    let E := toEvents tagOf G
    let trace := seq.flatMap (fun p => swapperTrace S rm hrm r p.1 p.2)
    proj G r = trace ∧ (program E r).map (callAt G) = trace ∧
    (program E r).map (fun i => (E.getD i ⟨[], tagOf noCall⟩).tag) = trace.map tagOf := by
  intro G E trace
  have hp : proj G r = trace := proj_swapperSeqEvents S hC rm hrm seq r hr
  refine ⟨hp, ?_, ?_⟩
  · rw [← hp]; exact program_toEvents tagOf G r
  · rw [← hp]; exact program_tags tagOf G r

/-- a single `transpose(kS → kD)` -/
theorem swapper_trace_projection_single (S : Swapper) (hC : CommOK S) (rm : RouteMap) (hrm : Nat → RouteMap)
    (kS kD : Nat) (tagOf : Call → Nat) (r : Nat) (hr : r < prodL S.dims) :
    (program (toEvents tagOf (swapperEvents S rm hrm kS kD)) r).map (callAt (swapperEvents S rm hrm kS kD)) =
      swapperTrace S rm hrm r kS kD := by
  rw [program_toEvents]
  exact proj_swapperEvents S hC rm hrm kS kD r hr

/-- `poloidal → v_parallel_1d` of `trSwapper` is routed via `v_parallel_2d`: a local scatter, then the gather on `sub1`
    (2 instances of 3 ranks); `mode_solve → poloidal` is one gather on `sub0` (3 instances of 2 ranks) -/
example : trSwapperRoutes.r 3 2 = [0, 2] ∧ trSwapperRoutes.r 1 3 = [3] ∧
    (swapperEvents trSwapper trSwapperRoutes trHandlerRoutes 3 2).map (·.1) = [[0, 1, 2], [3, 4, 5]] ∧
    (swapperEvents trSwapper trSwapperRoutes trHandlerRoutes 1 3).map (·.1) = [[0, 3], [1, 4], [2, 5]] ∧
    swapperTrace trSwapper trSwapperRoutes trHandlerRoutes 4 3 2 =
      [{ comm := "sub1", op := "Allgather", send := 24, recv := 72 }] := by
  decide +kernel

/-- **the events are communicator instances whose members agree**: every event of a swapper transpose belongs to one of
    its steps `some (ax, f)` (a collective on the `Sub` communicator of world axis `ax`, `f r` the call of world rank
    `r`) and is the complete instance of `sub{ax}` through some world rank `r0` (`instMembers`: the `S.dims[ax]` ranks
    obtained from `r0` by varying the world coordinate on axis `ax`); each member is a rank of the world, differs from
    `r0` on axis `ax` only and predicts for this step exactly the one call attached to the event. -/
theorem swapper_events_are_instances (S : Swapper) (hC : CommOK S) (rm : RouteMap) (hrm : Nat → RouteMap) (kS kD : Nat)
    (g : GEvent) (hg : g ∈ swapperEvents S rm hrm kS kD) :
    ∃ ax f, some (ax, f) ∈ swapperW S rm hrm kS kD ∧ ax < S.dims.length ∧
      ∃ r0, r0 < prodL S.dims ∧ g.1 = instMembers S.dims ax (coordsOf S.dims r0) ∧
        ∀ r ∈ g.1, r < prodL S.dims ∧ AgreeOff ax (coordsOf S.dims r0) (coordsOf S.dims r) ∧
          wTrace r (some (ax, f)) = [g.2] :=
  swapperEvents_spec S hC rm hrm kS kD g hg

example : instMembers trSwapper.dims 0 (coordsOf trSwapper.dims 1) = [1, 4] ∧
    instMembers trSwapper.dims 1 (coordsOf trSwapper.dims 4) = [3, 4, 5] := by decide +kernel

/-! ### 4. no swapper transpose can deadlock -/

/-- **no deadlock in `LayoutSwapper.transpose`** (current code), for every swapper whose constructor's choice of
    communicators succeeds, all route maps, process grids, extents (over-decomposed or not) and every sequence of
    transposes: the model programs of all world ranks are the projections of the one event list `E` (3.), hence
    (Props/C06.lean) in every state in which some rank has not finished some collective can complete, whatever the
    arrival order of the ranks; every schedule has at most `E.length` steps, and when nothing more can complete every
    call of every rank's predicted trace has completed. -/
theorem swapper_transposes_never_deadlock (S : Swapper) (hC : CommOK S) (rm : RouteMap) (hrm : Nat → RouteMap)
    (seq : List (Nat × Nat)) (tagOf : Call → Nat) :
    let G := swapperSeqEvents S rm hrm seq
    let E := toEvents tagOf G
    (∀ r, r < prodL S.dims →
      (program E r).map (callAt G) = seq.flatMap (fun p => swapperTrace S rm hrm r p.1 p.2)) ∧
    (∀ done, (∃ i, i < E.length ∧ done i = false) → ∃ i, Enabled E done i) ∧
    (∀ s, ValidSchedule E (fun _ => false) s → s.length ≤ E.length ∧
      ((¬ ∃ i, Enabled E (runSchedule (fun _ => false) s) i) →
        s.length = E.length ∧ ∀ r i, i ∈ program E r → runSchedule (fun _ => false) s i = true)) := by
  intro G E
  exact ⟨fun r hr => (swapper_traces_projection S hC rm hrm seq tagOf r hr).2.1,
    (machine_never_deadlocks E).1, (machine_never_deadlocks E).2⟩

/-- the driver's swapper on any process grid `p0 × p1` with any extents satisfies the hypothesis -/
example (p0 p1 : Nat) (ext : List Nat) (rm : RouteMap) (hrm : Nat → RouteMap) (seq : List (Nat × Nat))
    (tagOf : Call → Nat) (r : Nat) (hr : r < p0 * p1) :
    (program (toEvents tagOf (swapperSeqEvents (C03.driverSwapper p0 p1 ext) rm hrm seq)) r).map
        (callAt (swapperSeqEvents (C03.driverSwapper p0 p1 ext) rm hrm seq)) =
      seq.flatMap (fun p => swapperTrace (C03.driverSwapper p0 p1 ext) rm hrm r p.1 p.2) := by
  refine (swapper_transposes_never_deadlock _ (driver_commOK p0 p1 ext) rm hrm seq tagOf).1 r ?_
  rw [C03.driver_dims]
  simpa [prodL] using hr

/-- the walk v_parallel_2d → mode_solve → poloidal → v_parallel_1d → v_parallel_1d on `trSwapper` (2×3 grid): 3 `Alltoall`
    events on `sub0`, 3 `Allgather` events on `sub0`, then (via v_parallel_2d, the scatter is local) 2 `Allgather` events
    on `sub1`, nothing for the last one; rank 4 = (1,1) takes part in events 1, 4, 7; at the start both members of event 1
    are blocked in it -/
example : let G := swapperSeqEvents trSwapper trSwapperRoutes trHandlerRoutes [(0, 1), (1, 3), (3, 2), (2, 2)]
    let E := toEvents (fun c => c.send) G
    E.length = 8 ∧ G.map (·.1) = [[0, 3], [1, 4], [2, 5], [0, 3], [1, 4], [2, 5], [0, 1, 2], [3, 4, 5]] ∧
    G.map (·.2.comm) = ["sub0", "sub0", "sub0", "sub0", "sub0", "sub0", "sub1", "sub1"] ∧
    program E 4 = [1, 4, 7] ∧ (∀ r ∈ [1, 4], head E (fun _ => false) r = some 1) ∧
    [(0, 1), (1, 3), (3, 2), (2, 2)].flatMap (fun p => swapperTrace trSwapper trSwapperRoutes trHandlerRoutes 4 p.1 p.2) =
      [{ comm := "sub0", op := "Alltoall", send := 24, recv := 24 },
       { comm := "sub0", op := "Allgather", send := 24, recv := 48 },
       { comm := "sub1", op := "Allgather", send := 24, recv := 72 }] := by
  decide +kernel

/-- the route maps of the handlers of `overSwapper` -/
def overHandlerRoutes : Nat → RouteMap := fun h => ((overSwapper.handler h).routes [0, 1]).1

def overWalk : List (Nat × Nat) := [(0, 1), (1, 3), (3, 2), (0, 2)]

/-- over-decomposition: in `overSwapper` (Props/C06Traces.lean: r and z over-decomposed on the 2×2 grid; world rank 0 owns
    nothing, its `_buffer_size` is 0) every rank takes part in every communicating step of the walk v_parallel_2d →
    mode_solve → poloidal → v_parallel_1d, v_parallel_2d → v_parallel_1d — with count 0 in the instances that own nothing:
    the members of each instance agree (rank 0 shares `sub0` with rank 2 and `sub1` with rank 1, all counts 0), which is
    what the rank-independent early exit of the repaired code (F16b) needs. -/
example : let G := swapperSeqEvents overSwapper (overSwapper.routes [0, 1, 2, 3]).1 overHandlerRoutes overWalk
    CommOK overSwapper ∧ overSwapper.bufferSize 0 = 0 ∧
    G.map (·.1) = [[0, 2], [1, 3], [0, 2], [1, 3], [0, 1], [2, 3], [0, 1], [2, 3]] ∧
    G.map (·.2.send) = [0, 2, 0, 1, 0, 2, 0, 2] ∧ G.map (·.2.recv) = [0, 2, 0, 2, 0, 4, 0, 4] ∧
    program (toEvents (fun c => c.send) G) 0 = [0, 2, 4, 6] := by
  have hc : ∀ h, h < overSwapper.nprocsRaw.length → (overSwapper.commAxes h).isSome = true := by decide +kernel
  refine ⟨commOK_of_lt _ hc, ?_⟩
  decide +kernel

end PygyroVerif.C06
