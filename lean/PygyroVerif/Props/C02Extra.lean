/-
C02 (extra) — clause "arrays of exactly the advertised buffer size are large enough for every layout's block".
Property theorems only (helper lemmas: Lemmas/BufferSize.lean).  Model: `Handler.bufferSize` (Model/Handler.lean,
transcription of the buffer computation of `LayoutHandler.__init__`, pygyro/model/layout.py:431-462) and `Layout.size`
(Model/Layout.lean).  `c` is the tuple of the rank's coordinates in the process grid; no theorem below needs the
coordinates to be in range.
-/
import PygyroVerif.Lemmas.BufferSize

namespace PygyroVerif.C02
open PygyroVerif PygyroVerif.Handler PygyroVerif.BufferSize

/-- three layouts of a 4×5×6 array on a 2×3 process grid: 0–1 and 0–2 are direct connections, 1–2 is not -/
def exHandler : Handler :=
  { nprocs := [2, 3], ext := [4, 5, 6], names := ["a", "b", "c"], orders := [[0, 1, 2], [0, 2, 1], [2, 1, 0]] }

/-- **A1** `self._buffer_size` starts as the size of the first layout's block and is never lowered: the advertised
    buffer size is at least the first layout's block, on every rank. -/
theorem bufferSize_ge_first (h : Handler) (c : List Nat) : h.bufferSize c ≥ (h.layoutAt 0).size c :=
  bufferSize_ge_init h c

example : exHandler.bufferSize [1, 2] = 24 ∧ (exHandler.layoutAt 0).size [1, 2] = 24 := by decide +kernel

/-- **A1, monotonicity of the fold**: the running value of `self._buffer_size` after `m` iterations of the outer
    loop (`runBs h c m`; `runBs h c nLayouts` is the final `bufferSize`) never decreases. -/
theorem bufferSize_running_mono (h : Handler) (c : List Nat) (m m' : Nat) (hm : m ≤ m') :
    runBs h c m ≤ runBs h c m' ∧ runBs h c h.nLayouts = h.bufferSize c :=
  ⟨runBs_mono h c hm, runBs_final h c⟩

example : runBs exHandler [0, 0] 1 = 12 ∧ runBs exHandler [0, 0] 2 = 24 ∧ runBs exHandler [0, 0] 3 = 24 := by
  decide +kernel

/-- **A2** for every pair of layouts `i < n'` that `compatible` accepts, the final buffer size is at least the
    `buffsize` the constructor computes for that pair (`pairBs h c n' i`, Lemmas/BufferSize.lean: the term the model
    compares with the running maximum; `bufferSize_eq` shows that `Handler.bufferSize` is literally the nested fold of
    these terms). -/
theorem bufferSize_ge_pair (h : Handler) (c : List Nat) (n' i : Nat) (hi : i < n') (hn : n' < h.nLayouts)
    (hc : compatible h.nprocs (h.layoutAt n').ord (h.layoutAt i).ord = true) :
    h.bufferSize c ≥ pairBs h c n' i :=
  bufferSize_ge_pairBs h c n' i hi hn hc

example : compatible exHandler.nprocs (exHandler.layoutAt 2).ord (exHandler.layoutAt 0).ord = true ∧
    pairBs exHandler [0, 0] 1 0 = 24 ∧ pairBs exHandler [0, 0] 2 0 = 12 ∧ exHandler.bufferSize [0, 0] = 24 := by decide +kernel

/-- **A3** the later layout `n'` of every compatible pair fits: the exchanged block (local extent at the swapped
    process axis `a0` replaced by the maximal block extent, the full extent `n_B` at `a1` replaced by `maxBlock n_B p`,
    times the `p` ranks of the sub-communicator) is at least the layout's own block.  Needs only that the earlier layout
    has at least as many dimensions as there are process axes (otherwise `l2.max_block_shape[a0]` does not exist). -/
theorem bufferSize_ge_later (h : Handler) (c : List Nat) (n' i : Nat) (hi : i < n') (hn : n' < h.nLayouts)
    (hc : compatible h.nprocs (h.layoutAt n').ord (h.layoutAt i).ord = true)
    (hnd : h.nprocs.length ≤ (h.layoutAt i).ndims) :
    h.bufferSize c ≥ (h.layoutAt n').size c :=
  Nat.le_trans (size_le_pairBs_later h c n' i hnd) (bufferSize_ge_pairBs h c n' i hi hn hc)

example : exHandler.nprocs.length ≤ (exHandler.layoutAt 0).ndims ∧
    (exHandler.layoutAt 2).size [1, 2] = 24 ∧ (exHandler.layoutAt 1).size [0, 0] = 20 ∧
    exHandler.bufferSize [1, 2] = 24 ∧ exHandler.bufferSize [0, 0] = 24 := by decide +kernel

/-- **A3'** the earlier layout `i` of every compatible pair fits as well, for a well-formed handler (every
    `dims_order` a permutation of `range(ndims)`, at most `ndims` process axes, process counts ≥ 1): outside the two
    swapped dimensions both layouts hold the same local extent of every dimension, so the products differ only in the
    two swapped factors. -/
theorem bufferSize_ge_earlier (h : Handler) (hw : WellFormed h) (c : List Nat) (n' i : Nat) (hi : i < n')
    (hn : n' < h.nLayouts) (hc : compatible h.nprocs (h.layoutAt n').ord (h.layoutAt i).ord = true) :
    h.bufferSize c ≥ (h.layoutAt i).size c :=
  Nat.le_trans (size_le_pairBs_earlier h hw c n' i hn (by omega) hc) (bufferSize_ge_pairBs h c n' i hi hn hc)

theorem exHandler_wellFormed : WellFormed exHandler := by
  refine ⟨?_, by decide, by decide⟩
  intro i hi
  have : i = 0 ∨ i = 1 ∨ i = 2 := by
    have : i < 3 := hi
    omega
  rcases this with rfl | rfl | rfl <;> decide

/-- **A4** `bufferSize_ge_size`: in a well-formed handler every layout that is the first one or has at least one direct
    connection fits, on every rank, in an array of exactly the advertised buffer size. -/
theorem bufferSize_ge_size (h : Handler) (hw : WellFormed h) (c : List Nat)
    (hconn : ∀ i, 0 < i → i < h.nLayouts → h.connections.getD i [] ≠ []) :
    ∀ i, i < h.nLayouts → (h.layoutAt i).size c ≤ h.bufferSize c :=
  fun i hi => size_le_bufferSize h hw c i hi (fun h0 => hconn i h0 hi)

example : ∀ i, 0 < i → i < exHandler.nLayouts → exHandler.connections.getD i [] ≠ [] := by
  intro i h0 hi
  have : i = 1 ∨ i = 2 := by
    have : i < 3 := hi
    omega
  rcases this with rfl | rfl <;> decide

/-- **A4 for accepted handlers**: if the constructor accepts the layout set (`_makeConnectionMap` reports all layouts
    connected — for any iteration order `order` of Python's set of names), every layout's block fits in the advertised
    buffer size on every rank. -/
theorem bufferSize_ge_size_of_accepted (h : Handler) (hw : WellFormed h) (order : List Nat)
    (hfull : (h.routes order).2 = true) (c : List Nat) :
    ∀ i, i < h.nLayouts → (h.layoutAt i).size c ≤ h.bufferSize c :=
  bufferSize_ge_size h hw c (fun i h0 hi => connections_ne_nil_of_accepted h order hfull i h0 hi)

example : (exHandler.routes [0, 1, 2]).2 = true := by decide +kernel

/-- the hypothesis of A3 cannot be dropped: a (malformed) earlier layout with fewer dimensions than process axes makes
    the pair's `buffsize` 0 although the later layout's block is not empty -/
example : let h : Handler := { nprocs := [2, 2], ext := [4, 4], names := ["a", "b"], orders := [[0], [0, 1]] }
    compatible h.nprocs (h.layoutAt 1).ord (h.layoutAt 0).ord = true ∧ pairBs h [0, 0] 1 0 = 0 ∧
    (h.layoutAt 1).size [0, 0] = 4 := by decide +kernel

end PygyroVerif.C02
