/-
C20 — Process-grid selection returns a valid factorisation or reports none exists.
Property theorems only (helper lemmas: Lemmas/ProcGrid.lean).  Model: Model/ProcGrid.lean
(pygyro/model/process_grid.py, both functions; standard layouts of pygyro/initialisation/setups.py;
`LayoutHandler.compatible` of pygyro/model/layout.py).  Admissible inputs: maxima and process count ≥ 1.
-/
import PygyroVerif.Model.ProcGrid
import PygyroVerif.Lemmas.ProcGrid
import PygyroVerif.Model.Layout
import PygyroVerif.Props.C02

namespace PygyroVerif.C20
open PygyroVerif PygyroVerif.ProcGrid

/-- **The search always terminates**: with loop fuel `F ≥ max_proc1 + 2` none of the four loops runs out of
    fuel (in particular the branch `new_n2 > max_proc2` of the second search, in which the Python loop would
    spin for ever, is unreachable), and the outcome is the same for every such `F`. -/
theorem procgrid_terminates (m1 m2 s : Nat) (hm1 : 1 ≤ m1) (hs : 1 ≤ s) :
    procGridFromMax m1 m2 s ≠ .outOfFuel ∧
    ∀ F, m1 + 2 ≤ F → runWith F m1 m2 s = procGridFromMax m1 m2 s := by
  have h := (runWith_spec (m2 := m2) hs hm1 (Nat.le_refl (m1 + 2))).1
  exact ⟨h, fun F hF => runWith_mono hF rfl h⟩

example : procGridFromMax 8 8 6 = .grid 2 3 ∧ runWith 50 8 8 6 = .grid 2 3 := by decide

/-- **A returned grid is a valid factorisation**: `n1 * n2 = size`, `n1 ≤ max_proc1`, `n2 ≤ max_proc2`. -/
theorem procgrid_valid (m1 m2 s n1 n2 : Nat) (hm1 : 1 ≤ m1) (hs : 1 ≤ s)
    (h : procGridFromMax m1 m2 s = .grid n1 n2) : n1 * n2 = s ∧ n1 ≤ m1 ∧ n2 ≤ m2 :=
  (runWith_spec hs hm1 (Nat.le_refl (m1 + 2))).2.1 n1 n2 h

-- 5 does not divide 12: from (4,3) the second search meets the non-divisor candidate `new_n1 = max_proc1 = 5`
-- (new_n2 = 12 // 5 = 2 ≤ 3) and must not return (5, 2)
example : procGridFromMax 5 3 12 = .grid 4 3 := by decide

/-- The delicate point of the second search, made explicit: from a valid current grid `(n1, n2)` the candidate
    `new_n1 = max_proc1`, `new_n2 = size // max_proc1` (the only candidate that need not divide the size) is
    never accepted, because its exact ratio is not smaller than the current one … -/
theorem nondivisor_never_accepted (m1 m2 s n1 n2 : Nat) (hs : 1 ≤ s)
    (hv : n1 * n2 = s ∧ n1 ≤ m1 ∧ n2 ≤ m2) (hlt : n1 < m1) :
    ¬ (ratioNum m1 m2 m1 (s / m1) * ratioDen m1 m2 n1 n2 < ratioNum m1 m2 n1 n2 * ratioDen m1 m2 m1 (s / m1)) :=
  cand_max1_not_better hv (Nat.le_of_lt (div_lt_of_lt hs hv.1 hlt))

/-- … and strictly larger when `max_proc1` does not divide the size, so the binary64 comparison of the code
    agrees with the exact one unless the two ratios coincide to rounding error. -/
theorem nondivisor_strictly_worse (m1 m2 s n1 n2 : Nat) (hs : 1 ≤ s)
    (hv : n1 * n2 = s ∧ n1 ≤ m1 ∧ n2 ≤ m2) (hlt : n1 < m1) (hnd : s % m1 ≠ 0) :
    ratioNum m1 m2 n1 n2 * ratioDen m1 m2 m1 (s / m1) < ratioNum m1 m2 m1 (s / m1) * ratioDen m1 m2 n1 n2 :=
  ProcGrid.nondivisor_strictly_worse hs hv hlt hnd

example : (4 * 3 = 12 ∧ 4 ≤ 5 ∧ 3 ≤ 3) ∧ 4 < 5 ∧ 12 % 5 ≠ 0 := by decide

/-- **`RuntimeError` exactly when no factorisation exists.** -/
theorem procgrid_error_iff (m1 m2 s : Nat) (hm1 : 1 ≤ m1) (hs : 1 ≤ s) :
    procGridFromMax m1 m2 s = .noGrid ↔ ¬ ∃ n1 n2, n1 * n2 = s ∧ n1 ≤ m1 ∧ n2 ≤ m2 := by
  obtain ⟨h0, h1, h2⟩ := runWith_spec (m2 := m2) hs hm1 (Nat.le_refl (m1 + 2))
  constructor
  · rintro h ⟨a, b, hv⟩
    exact h2 h a b hv
  · intro hno
    cases hr : procGridFromMax m1 m2 s with
    | grid a b => exact absurd ⟨a, b, h1 a b hr⟩ hno
    | noGrid => rfl
    | outOfFuel => exact absurd hr h0

/-- the same, seen from the other side: a grid is returned exactly when a factorisation exists -/
theorem procgrid_returns_iff (m1 m2 s : Nat) (hm1 : 1 ≤ m1) (hs : 1 ≤ s) :
    (∃ n1 n2, procGridFromMax m1 m2 s = .grid n1 n2) ↔ ∃ n1 n2, n1 * n2 = s ∧ n1 ≤ m1 ∧ n2 ≤ m2 := by
  constructor
  · rintro ⟨a, b, h⟩; exact ⟨a, b, procgrid_valid m1 m2 s a b hm1 hs h⟩
  · intro hex
    cases hr : procGridFromMax m1 m2 s with
    | grid a b => exact ⟨a, b, rfl⟩
    | noGrid => exact absurd hex ((procgrid_error_iff m1 m2 s hm1 hs).1 hr)
    | outOfFuel => exact absurd hr (procgrid_terminates m1 m2 s hm1 hs).1

example : procGridFromMax 5 1 6 = .noGrid ∧ procGridFromMax 2 2 5 = .noGrid ∧ procGridFromMax 3 3 16 = .noGrid := by
  decide

/-! ### the standard layouts on the returned grid -/

/-- every block of the layout `ord` over the process grid `(n1, n2)` has at least one point in every dimension -/
def BlocksNonEmpty (n1 n2 : Nat) (ord npts : List Nat) : Prop :=
  ∀ c1 c2, c1 < n1 → c2 < n2 → ∀ x ∈ (Layout.make [n1, n2] ord npts).shape [c1, c2], 1 ≤ x

/-- two layouts are linked in the handler's connection graph by a path of at most two direct connections -/
def Linked (nprocs a b : List Nat) : Prop :=
  a = b ∨ compatible nprocs a b = true ∨
    ∃ c ∈ standardLayouts, compatible nprocs a c = true ∧ compatible nprocs c b = true

theorem compatible_flux_vpar (n1 n2 : Nat) :
    compatible [n1, n2] fluxSurface vParallel = true ∧ compatible [n1, n2] vParallel fluxSurface = true := by
  by_cases h : 1 < n2 <;> simp [compatible, fluxSurface, vParallel, List.range_succ, List.filter, h]

theorem compatible_vpar_pol (n1 n2 : Nat) :
    compatible [n1, n2] vParallel poloidal = true ∧ compatible [n1, n2] poloidal vParallel = true := by
  by_cases h : 1 < n1 <;> simp [compatible, poloidal, vParallel, List.range_succ, List.filter, h]

/-- non-emptiness needs exactly `n1 ≤ min(npts[0], npts[3])`, `n2 ≤ min(npts[2], npts[3])`: the maxima that
    `compute_2d_process_grid` passes on -/
theorem blocks_nonempty_of_bounds (n1 n2 p0 p1 p2 p3 : Nat) (ord : List Nat) (hord : ord ∈ standardLayouts)
    (h0 : 1 ≤ p0) (h1 : 1 ≤ p1) (h2 : 1 ≤ p2) (h3 : 1 ≤ p3) (hn1 : 1 ≤ n1) (hn2 : 1 ≤ n2)
    (hm1 : n1 ≤ min p0 p3) (hm2 : n2 ≤ min p2 p3) : BlocksNonEmpty n1 n2 ord [p0, p1, p2, p3] := by
  have a0 : n1 ≤ p0 := Nat.le_trans hm1 (Nat.min_le_left _ _)
  have a3 : n1 ≤ p3 := Nat.le_trans hm1 (Nat.min_le_right _ _)
  have b2 : n2 ≤ p2 := Nat.le_trans hm2 (Nat.min_le_left _ _)
  have b3 : n2 ≤ p3 := Nat.le_trans hm2 (Nat.min_le_right _ _)
  have one : ∀ n k, 1 ≤ n → 1 ≤ blockStart n 1 (k+1) - blockStart n 1 k := fun n k hn =>
    C02.blockLen_pos n 1 k (Nat.le_refl 1) hn
  have d1 : ∀ n k, n1 ≤ n → 1 ≤ blockStart n n1 (k+1) - blockStart n n1 k := fun n k hn =>
    C02.blockLen_pos n n1 k hn1 hn
  have d2 : ∀ n k, n2 ≤ n → 1 ≤ blockStart n n2 (k+1) - blockStart n n2 k := fun n k hn =>
    C02.blockLen_pos n n2 k hn2 hn
  intro c1 c2 _ _ x hx
  simp only [standardLayouts, List.mem_cons, List.not_mem_nil, or_false] at hord
  rcases hord with rfl | rfl | rfl <;>
    simp [Layout.shape, Layout.make, padTo, Layout.ndims, Layout.endAt, Layout.startAt, Layout.extAt,
      Layout.procsAt, fluxSurface, vParallel, poloidal, List.range_succ] at hx <;>
    rcases hx with rfl | rfl | rfl | rfl <;>
    first | exact d1 _ _ ‹_› | exact d2 _ _ ‹_› | exact one _ _ ‹_›

/-- **The standard layouts can be built and connected on the returned grid.**  For extents `npts ≥ 1` and a
    process count `size ≥ 1`, if `compute_2d_process_grid(npts, size)` returns `(n1, n2)` then
    (a) `n1·n2 = size`, so the Cartesian grid uses every process;
    (b) in each of `flux_surface [0,3,1,2]`, `v_parallel [0,2,1,3]`, `poloidal [3,2,1,0]` distributed over
        `(n1, n2)` every process owns at least one point in every dimension;
    (c) consecutive layouts are directly connected (`LayoutHandler.compatible`) in both directions, hence
    (d) any two standard layouts are linked, i.e. the connection graph is connected
        (`_makeConnectionMap` returns `True`; no "Not all layouts could not be connected"). -/
theorem standard_layouts_buildable (p0 p1 p2 p3 s n1 n2 : Nat)
    (h0 : 1 ≤ p0) (h1 : 1 ≤ p1) (h2 : 1 ≤ p2) (h3 : 1 ≤ p3) (hs : 1 ≤ s)
    (h : procGrid [p0, p1, p2, p3] s = .grid n1 n2) :
    n1 * n2 = s ∧
    (∀ ord ∈ standardLayouts, BlocksNonEmpty n1 n2 ord [p0, p1, p2, p3]) ∧
    (compatible [n1, n2] fluxSurface vParallel = true ∧ compatible [n1, n2] vParallel poloidal = true) ∧
    (∀ a ∈ standardLayouts, ∀ b ∈ standardLayouts, Linked [n1, n2] a b) := by
  have hm1 : 1 ≤ min p0 p3 := Nat.le_min.2 ⟨h0, h3⟩
  have hv : n1 * n2 = s ∧ n1 ≤ min p0 p3 ∧ n2 ≤ min p2 p3 :=
    procgrid_valid (min p0 p3) (min p2 p3) s n1 n2 hm1 hs h
  have hn1 : 1 ≤ n1 := (valid_pos hs hv).1
  have hn2 : 1 ≤ n2 := (valid_pos hs hv).2.1
  have c1 := compatible_flux_vpar n1 n2
  have c2 := compatible_vpar_pol n1 n2
  refine ⟨hv.1, ?_, ⟨c1.1, c2.1⟩, ?_⟩
  · intro ord hord
    exact blocks_nonempty_of_bounds n1 n2 p0 p1 p2 p3 ord hord h0 h1 h2 h3 hn1 hn2 hv.2.1 hv.2.2
  · have hv' : vParallel ∈ standardLayouts := by simp [standardLayouts]
    intro a ha b hb
    simp only [standardLayouts, List.mem_cons, List.not_mem_nil, or_false] at ha hb
    rcases ha with rfl | rfl | rfl <;> rcases hb with rfl | rfl | rfl
    · exact Or.inl rfl
    · exact Or.inr (Or.inl c1.1)
    · exact Or.inr (Or.inr ⟨vParallel, hv', c1.1, c2.1⟩)
    · exact Or.inr (Or.inl c1.2)
    · exact Or.inl rfl
    · exact Or.inr (Or.inl c2.1)
    · exact Or.inr (Or.inr ⟨vParallel, hv', c2.2, c1.2⟩)
    · exact Or.inr (Or.inl c2.2)
    · exact Or.inl rfl

-- tests/test_process_setup.py style instance: npts = [10, 20, 10, 10] on 6 processes
example : procGrid [10, 20, 10, 10] 6 = .grid 2 3 := by decide
-- flux_surface and poloidal are *not* directly connected on that grid: the path through v_parallel is needed
example : compatible [2, 3] fluxSurface poloidal = false := by decide

end PygyroVerif.C20
