/-
C03 — Redistribution across differently distributed layout groups preserves data: the **bridge** between the abstract
gather / scatter argument of `Props/C03.lean` and the EXECUTABLE model `Swapper.crossStep` / `Swapper.transposeRoles`
(Model/Swapper.lean; numpy views of Model/NDView.lean), which is compared with the real code on every run.
Property theorems only; helper lemmas are in `Lemmas/CrossStep*.lean`.

Vocabulary
  * `CS.SwapperOK S` — decidable well-formedness of the constructor's arguments: the choice of communicators succeeds
    (`CommOK`), every `dims_order` is a permutation of the dimensions, no handler has more process axes than dimensions,
    every process count is ≥ 1.  There is NO hypothesis relating process counts to extents: ranks owning empty blocks
    (over-decomposed configurations) and extents of 0 are covered.
  * `CS.HoldsLayout S G k arrs` = `DS.HoldsWorld (S.topo h) (S.layoutOf k) G arrs` (h the handler of layout `k`): on every
    WORLD rank the flat buffer holds, in C order of the local shape, the block of the global field `G` that layout `k`
    assigns to that rank's coordinates in handler `h`.  Replicas hold identical data by construction.
  * `CS.crossNeed S kS kD rank` — cells the step needs in the destination / scratch buffers; `DS.WorldOK`, `CS.WorldEq`.

Theorems
  1. `crossStep_scatter_correct`   destination handler MORE distributed (local slice of the replicated data)
  2. `crossStep_gather_correct`    destination handler LESS distributed (Allgather of padded blocks + unpack),
     `crossStep_replicas_identical`
  3. `crossStep_equal_correct`     equal numbers of distributed directions (local axis permutation)
  4. `crossStep_correct`, `crossStep_satisfies_contract`, `swapStep_satisfies_contract`,
     `swapperRoute_correct_nobuf/_buf` (routes mixing handler steps and cross steps),
     `bufferSize_suffices_cross`, `swapperTranspose_correct` (the executable `transposeRoles`)
  5. `scatter_after_gather_roundtrip`
-/
import PygyroVerif.Lemmas.CrossStepTranspose
import PygyroVerif.Props.C03
import Mathlib.Tactic.IntervalCases

namespace PygyroVerif.C03
open PygyroVerif PygyroVerif.Handler PygyroVerif.Swapper PygyroVerif.DS PygyroVerif.CS PygyroVerif.Route
open PygyroVerif.RouteValid

variable {α : Type} [Inhabited α]

/-! ### 0. well-formed swappers: concrete instances -/

/-- the grouping of fullSimulation.py on a 2 × 3 process grid is well formed — also when a dimension has fewer points
    than processes (extent 1 split over 2 processes: world ranks 3, 4, 5 own empty blocks of `v_parallel_2d`) -/
example : SwapperOK (driverSwapper 2 3 [4, 6, 5]) ∧ SwapperOK (driverSwapper 2 3 [1, 2, 5]) ∧
    SwapperOK (driverSwapper 2 1 [4, 6, 5]) := by
  refine ⟨by decide +kernel, by decide +kernel, by decide +kernel⟩

/-- layouts 0 `v_parallel_2d`, 1 `mode_solve` (handler 0, 2-D), 2 `v_parallel_1d` (handler 1), 3 `poloidal` (handler 2):
    `2 — 0` and `3 — 1` are accepted pairs of different handlers; the 2-D handler is the more distributed one -/
example :
    let S := driverSwapper 2 3 [1, 2, 5]
    (S.locate 2).1 ≠ (S.locate 0).1 ∧ S.compatibleLayout 2 0 = true ∧
    nDistributed (S.handlerNprocs (S.locate 0).1) > nDistributed (S.handlerNprocs (S.locate 2).1) ∧
    (S.locate 3).1 ≠ (S.locate 1).1 ∧ S.compatibleLayout 3 1 = true := by decide +kernel

/-- the field `G(i0, i1, i2) = 100·i0 + 10·i1 + i2` -/
def exField : List Nat → Int := fun g => 100 * g.getD 0 0 + 10 * g.getD 1 0 + g.getD 2 0

/-! ### 1. scatter -/

/-- **Destination handler more distributed** (`_transpose` / `_transpose_source_intact`, layout.py scatter branch:
    `dest[:] = source[..., start:start+len, ...].transpose(...)` on every rank).  For every well-formed swapper and every
    pair of layouts of DIFFERENT handlers accepted by `_compatibleLayout` (in either argument order) whose destination
    handler has more distributed directions: if role `x` holds the global field `G` in layout `kS` on every world rank
    and the buffers of role `y` can take the destination blocks, the executable step raises nothing, role `y` holds `G`
    in layout `kD` on every world rank, NO other role changes (the source is intact with or without buffer) and no buffer
    changes its length. -/
theorem crossStep_scatter_correct (S : Swapper) (hS : SwapperOK S) (kS kD : Nat) (hkS : kS < S.allNames.length)
    (hkD : kD < S.allNames.length) (hh : (S.locate kS).1 ≠ (S.locate kD).1)
    (hacc : S.compatibleLayout kS kD = true ∨ S.compatibleLayout kD kS = true)
    (hgt : nDistributed (S.handlerNprocs (S.locate kD).1) > nDistributed (S.handlerNprocs (S.locate kS).1))
    (x y z : Nat) (w : World α) (G : List Nat → α) (hxy : x ≠ y) (hy : y < w.size)
    (hyn : prodL S.dims ≤ (w.getD y #[]).size)
    (hsz : ∀ rank, rank < prodL S.dims →
      ((S.layoutOf kD).shape ((S.topo (S.locate kD).1).coords rank)).prod ≤ (World.get w y rank).size)
    (hsrc : HoldsLayout S G kS (w.getD x #[])) :
    ∃ w', crossStep S kS kD x y z w = .ok w' ∧ HoldsLayout S G kD (w'.getD y #[]) ∧
      (∀ r, r ≠ y → w'.getD r #[] = w.getD r #[]) ∧ w'.size = w.size ∧
      (w'.getD y #[]).size = (w.getD y #[]).size ∧
      (∀ rank, (World.get w' y rank).size = (World.get w y rank).size) :=
  crossStep_scatter_world S hS kS kD hkS hkD hh hacc hgt x y z w G hxy hy hyn hsz hsrc

/-- an instance of the hypotheses (over-decomposed: extent 1 over 2 processes): `v_parallel_1d → v_parallel_2d` without
    buffer on the memory state `fieldWorld` whose `source` holds the field `exField` -/
example :
    let S := driverSwapper 2 3 [1, 2, 5]
    let w := fieldWorld S 2 exField (fun _ => 40)
    (2 : Nat) < S.allNames.length ∧ (0 : Nat) < S.allNames.length ∧ (S.locate 2).1 ≠ (S.locate 0).1 ∧
    S.compatibleLayout 2 0 = true ∧
    nDistributed (S.handlerNprocs (S.locate 0).1) > nDistributed (S.handlerNprocs (S.locate 2).1) ∧
    (1 : Nat) < w.size ∧ prodL S.dims ≤ (w.getD 1 #[]).size ∧
    (∀ rank, rank < prodL S.dims →
      ((S.layoutOf 0).shape ((S.topo (S.locate 0).1).coords rank)).prod ≤ (World.get w 1 rank).size) ∧
    HoldsLayout S exField 2 (w.getD 0 #[]) := by
  intro S w
  have hw : WorldEq 3 (prodL S.dims) (fun _ => 40) w := fieldWorld_eq S 2 exField (fun _ => 40)
  refine ⟨by decide +kernel, by decide +kernel, by decide +kernel, by decide +kernel, by decide +kernel,
    by have := hw.1; omega, by rw [(hw.2 1 (by decide)).1], ?_, ?_⟩
  · intro rank hr
    rw [(hw.2 1 (by decide)).2 rank hr]
    revert rank; decide +kernel
  · exact fieldWorld_holds S 2 exField (fun _ => 40) (by decide +kernel)


/-! ### 2. gather -/

/-- **Destination handler less distributed** (`_transpose` when `z = x`: Allgather into `dest`, unpack into `source`,
    `dest[:] = source[:]`; `_transpose_source_intact` otherwise: Allgather into `buf`, unpack into `dest`).  For every
    well-formed swapper and every accepted pair of layouts of different handlers whose destination handler has fewer
    distributed directions: if role `x` holds `G` in layout `kS` on every world rank and the buffers of roles `y`, `z`
    have `crossNeed` cells (the destination block and the `p` padded blocks), the executable step raises nothing (the
    Allgather counts fit, every reshape and every numpy assignment is legal), role `y` holds `G` in layout `kD` on every
    world rank, roles other than `y`, `z` are untouched — with a spare buffer (`z ≠ x`) the source is intact — and no
    buffer changes its length. -/
theorem crossStep_gather_correct (S : Swapper) (hS : SwapperOK S) (kS kD : Nat) (hkS : kS < S.allNames.length)
    (hkD : kD < S.allNames.length) (hh : (S.locate kS).1 ≠ (S.locate kD).1)
    (hacc : S.compatibleLayout kS kD = true ∨ S.compatibleLayout kD kS = true)
    (hlt : nDistributed (S.handlerNprocs (S.locate kD).1) < nDistributed (S.handlerNprocs (S.locate kS).1))
    (x y z : Nat) (w : World α) (G : List Nat → α) (hyx : y ≠ x) (hyz : y ≠ z) (hy : y < w.size) (hz : z < w.size)
    (hyn : (w.getD y #[]).size = prodL S.dims) (hzn : (w.getD z #[]).size = prodL S.dims)
    (hszy : ∀ rank, rank < prodL S.dims → crossNeed S kS kD rank ≤ (World.get w y rank).size)
    (hszz : ∀ rank, rank < prodL S.dims → crossNeed S kS kD rank ≤ (World.get w z rank).size)
    (hsrc : HoldsLayout S G kS (w.getD x #[])) :
    ∃ w', crossStep S kS kD x y z w = .ok w' ∧ HoldsLayout S G kD (w'.getD y #[]) ∧
      (∀ r, r ≠ y → r ≠ z → w'.getD r #[] = w.getD r #[]) ∧ w'.size = w.size ∧
      (∀ role, (w'.getD role #[]).size = (w.getD role #[]).size) ∧
      (∀ role rank, (World.get w' role rank).size = (World.get w role rank).size) :=
  crossStep_gather_world S hS kS kD hkS hkD hh hacc hlt x y z w G hyx hyz hy hz hyn hzn hszy hszz hsrc

/-- an instance of the hypotheses: `v_parallel_2d → v_parallel_1d` of the over-decomposed grouping WITHOUT spare buffer
    (`z = x`: Allgather into `dest`, unpack into `source`, copy); buffers of 40 cells cover `crossNeed` on all six ranks -/
example :
    let S := driverSwapper 2 3 [1, 2, 5]
    S.compatibleLayout 2 0 = true ∧
    nDistributed (S.handlerNprocs (S.locate 2).1) < nDistributed (S.handlerNprocs (S.locate 0).1) ∧
    (∀ rank, rank < prodL S.dims → crossNeed S 0 2 rank ≤ 40) ∧
    WorldEq 3 (prodL S.dims) (fun _ => 40) (fieldWorld S 0 exField (fun _ => 40)) ∧
    HoldsLayout S exField 0 ((fieldWorld S 0 exField (fun _ => 40)).getD 0 #[]) := by
  intro S
  exact ⟨by decide +kernel, by decide +kernel, by decide +kernel, fieldWorld_eq S 0 exField (fun _ => 40),
    fieldWorld_holds S 0 exField (fun _ => 40) (by decide +kernel)⟩


omit [Inhabited α] in
/-- **All replicas hold identical data**: whenever the per-rank buffers hold a field in layout `k`, two world ranks with
    the same coordinates in the layout's handler (they differ only along process directions over which the layout is
    replicated) hold the same block, cell by cell.  In particular this is so for the destination of
    `crossStep_gather_correct`. -/
theorem crossStep_replicas_identical (S : Swapper) (k : Nat) (G : List Nat → α) (arrs : Array (Array α))
    (h : HoldsLayout S G k arrs) (r r' : Nat) (hr : r < prodL S.dims) (hr' : r' < prodL S.dims)
    (hc : (S.topo (S.locate k).1).coords r = (S.topo (S.locate k).1).coords r') :
    ∀ idx, CopyBox.InBox idx ((S.layoutOf k).shape ((S.topo (S.locate k).1).coords r)) →
      (arrs.getD r #[])[Addr.ravel idx ((S.layoutOf k).shape ((S.topo (S.locate k).1).coords r))]? =
      (arrs.getD r' #[])[Addr.ravel idx ((S.layoutOf k).shape ((S.topo (S.locate k).1).coords r))]? := by
  have h1 := h r hr
  have h2 := h r' hr'
  rw [← hc] at h2
  exact holdsBlock_unique _ _ G _ _ h1 h2

/-- world ranks 0 and 1 of the 2 × 3 grid have the same coordinates in the radial group (communicator 0) -/
example : ((driverSwapper 2 3 [4, 6, 5]).topo 1).coords 0 = ((driverSwapper 2 3 [4, 6, 5]).topo 1).coords 1 := by
  decide +kernel

/-! ### 3. equal numbers of distributed directions -/

/-- **Equal numbers of distributed directions** (first branch of `_transpose`: a local axis permutation; this includes
    handlers whose numbers of process axes differ by an axis with a single process).  Only role `y` changes. -/
theorem crossStep_equal_correct (S : Swapper) (hS : SwapperOK S) (kS kD : Nat) (hkS : kS < S.allNames.length)
    (hkD : kD < S.allNames.length) (hh : (S.locate kS).1 ≠ (S.locate kD).1)
    (hacc : S.compatibleLayout kS kD = true ∨ S.compatibleLayout kD kS = true)
    (heq : nDistributed (S.handlerNprocs (S.locate kD).1) = nDistributed (S.handlerNprocs (S.locate kS).1))
    (x y z : Nat) (w : World α) (G : List Nat → α) (hxy : x ≠ y) (hy : y < w.size)
    (hyn : prodL S.dims ≤ (w.getD y #[]).size)
    (hsz : ∀ rank, rank < prodL S.dims →
      ((S.layoutOf kD).shape ((S.topo (S.locate kD).1).coords rank)).prod ≤ (World.get w y rank).size)
    (hsrc : HoldsLayout S G kS (w.getD x #[])) :
    ∃ w', crossStep S kS kD x y z w = .ok w' ∧ HoldsLayout S G kD (w'.getD y #[]) ∧
      (∀ r, r ≠ y → w'.getD r #[] = w.getD r #[]) ∧ w'.size = w.size ∧
      (w'.getD y #[]).size = (w.getD y #[]).size ∧
      (∀ rank, (World.get w' y rank).size = (World.get w y rank).size) :=
  crossStep_equal_world S hS kS kD hkS hkD hh hacc heq x y z w G hxy hy hyn hsz hsrc

/-- with a single process in the second direction the 2-D group and the radial group have equally many distributed
    directions although they have different numbers of process axes -/
example :
    let S := driverSwapper 2 1 [4, 6, 5]
    (S.locate 2).1 ≠ (S.locate 0).1 ∧ S.compatibleLayout 2 0 = true ∧
    nDistributed (S.handlerNprocs (S.locate 0).1) = nDistributed (S.handlerNprocs (S.locate 2).1) := by decide +kernel

/-! ### 4. any accepted pair; the step contract; routes -/

/-- **One direct step between layouts of different handlers, executable model, every accepted pair** (the three cases
    together). -/
theorem crossStep_correct (S : Swapper) (hS : SwapperOK S) (kS kD : Nat) (hkS : kS < S.allNames.length)
    (hkD : kD < S.allNames.length) (hh : (S.locate kS).1 ≠ (S.locate kD).1)
    (hacc : S.compatibleLayout kS kD = true ∨ S.compatibleLayout kD kS = true)
    (x y z : Nat) (w : World α) (G : List Nat → α) (hyx : y ≠ x) (hyz : y ≠ z) (hy : y < w.size) (hz : z < w.size)
    (hyn : (w.getD y #[]).size = prodL S.dims) (hzn : (w.getD z #[]).size = prodL S.dims)
    (hszy : ∀ rank, rank < prodL S.dims → crossNeed S kS kD rank ≤ (World.get w y rank).size)
    (hszz : ∀ rank, rank < prodL S.dims → crossNeed S kS kD rank ≤ (World.get w z rank).size)
    (hsrc : HoldsLayout S G kS (w.getD x #[])) :
    ∃ w', crossStep S kS kD x y z w = .ok w' ∧ HoldsLayout S G kD (w'.getD y #[]) ∧
      (∀ r, r ≠ y → r ≠ z → w'.getD r #[] = w.getD r #[]) ∧ w'.size = w.size ∧
      (∀ role, (w'.getD role #[]).size = (w.getD role #[]).size) ∧
      (∀ role rank, (World.get w' role rank).size = (World.get w role rank).size) :=
  crossStep_world S hS kS kD hkS hkD hh hacc x y z w G hyx hyz hy hz hyn hzn hszy hszz hsrc

/-- `poloidal → mode_solve` (scatter along the first communicator) and back (gather) are accepted pairs of different
    handlers of the over-decomposed grouping, and 40 cells cover `crossNeed` in both directions -/
example :
    let S := driverSwapper 2 3 [1, 2, 5]
    (S.locate 3).1 ≠ (S.locate 1).1 ∧ S.compatibleLayout 3 1 = true ∧
    (∀ rank, rank < prodL S.dims → crossNeed S 3 1 rank ≤ 40 ∧ crossNeed S 1 3 rank ≤ 40) := by decide +kernel


/-- **The executable cross step satisfies the step contract** of `Lemmas/Route.lean` restricted to the roles that exist
    (`DS.StepOKR`, as `C01.directStep_satisfies_contract`), for `P k arrs := HoldsLayout S G k arrs`, connections
    `CrossConn` = accepted pairs of different handlers whose `crossNeed` the buffers cover, invariant `WorldOK`. -/
theorem crossStep_satisfies_contract (nr : Nat) (S : Swapper) (hS : SwapperOK S) (B : Nat → Nat) (G : List Nat → α) :
    StepOKR nr (crossStep S) (HoldsLayout S G) (CrossConn S B) (WorldOK nr (prodL S.dims) B) :=
  crossStep_stepOK nr S hS B G

/-- `v_parallel_1d — v_parallel_2d` and `poloidal — mode_solve` are `CrossConn` connections for buffers of 72 cells (the
    constructor's `bufferSize` for extents (4, 6, 5) on 2 × 3 processes), and `fieldWorld` is a `WorldOK` memory state -/
example :
    let S := driverSwapper 2 3 [4, 6, 5]
    CrossConn S (fun _ => 72) 2 0 ∧ CrossConn S (fun _ => 72) 0 2 ∧ CrossConn S (fun _ => 72) 3 1 ∧
    WorldOK 3 (prodL S.dims) (fun _ => 72) (fieldWorld S 2 exField (fun _ => 72)) := by
  intro S
  refine ⟨⟨by decide +kernel, by decide +kernel, by decide +kernel, Or.inl (by decide +kernel), by decide +kernel⟩,
    ⟨by decide +kernel, by decide +kernel, by decide +kernel, Or.inr (by decide +kernel), by decide +kernel⟩,
    ⟨by decide +kernel, by decide +kernel, by decide +kernel, Or.inl (by decide +kernel), by decide +kernel⟩,
    (fieldWorld_eq S 2 exField (fun _ => 72)).ok (by decide)⟩


/-- **… and so does the swapper's direct step between ANY two directly connected layouts** (`swapStep`: the handler's
    `directStepT` on the handler's communicators inside one handler, `crossStep` between two handlers). -/
theorem swapStep_satisfies_contract (nr : Nat) (S : Swapper) (hS : SwapperOK S) (B : Nat → Nat) (G : List Nat → α) :
    StepOKR nr (swapStep S) (HoldsLayout S G) (SwapConn S B) (WorldOK nr (prodL S.dims) B) :=
  swapStep_stepOK nr S hS B G

/-- **Routes that mix handler steps and cross steps, no spare buffer** (`_transposeRedirect`: odd and even lengths, the
    final `dest[:] = source` included). -/
theorem swapperRoute_correct_nobuf (S : Swapper) (hS : SwapperOK S) (B : Nat → Nat) (G : List Nat → α)
    (steps : List Nat) (kS : Nat) (w : World α) (hw : WorldOK 2 (prodL S.dims) B w) (hne : steps ≠ [])
    (hpath : IsPath (SwapConn S B) kS steps) (hsrc : HoldsLayout S G kS (w.getD 0 #[])) :
    ∃ w', followRoute (swapStep S) (prodL S.dims) steps kS false w = .ok w' ∧
      HoldsLayout S G (lastOf kS steps) (w'.getD 1 #[]) :=
  swapRoute_nobuf S hS B G steps kS w hw hne hpath hsrc

/-- **… with a spare buffer** (`_transposeRedirect_source_intact`): the source is left untouched. -/
theorem swapperRoute_correct_buf (S : Swapper) (hS : SwapperOK S) (B : Nat → Nat) (G : List Nat → α)
    (steps : List Nat) (kS : Nat) (w : World α) (hw : WorldOK 3 (prodL S.dims) B w) (hne : steps ≠ [])
    (hpath : IsPath (SwapConn S B) kS steps) (hsrc : HoldsLayout S G kS (w.getD 0 #[])) :
    ∃ w', followRoute (swapStep S) (prodL S.dims) steps kS true w = .ok w' ∧
      HoldsLayout S G (lastOf kS steps) (w'.getD 1 #[]) ∧ w'.getD 0 #[] = w.getD 0 #[] :=
  swapRoute_buf S hS B G steps kS w hw hne hpath hsrc


/-- the stored route `v_parallel_1d → v_parallel_2d → mode_solve` (a cross step, then a handler step) is a path of
    `SwapConn` connections for buffers of 72 cells -/
example : IsPath (SwapConn (driverSwapper 2 3 [4, 6, 5]) (fun _ => 72)) 2 [0, 1] ∧ lastOf 2 [0, 1] = 1 := by
  refine ⟨⟨Or.inr ⟨by decide +kernel, by decide +kernel, by decide +kernel, Or.inl (by decide +kernel), by decide +kernel⟩,
    Or.inl ⟨by decide +kernel, ⟨by decide +kernel, by decide +kernel, ?_⟩⟩, trivial⟩, rfl⟩
  intro rank hr
  have hr' : rank < 6 := hr
  interval_cases rank <;> decide +kernel


/-! ### 4b. the executable `LayoutSwapper.transpose` -/

/-- **`bufferSize` suffices for cross steps** (layout.py:1046-1126, with the repair of F16): for an accepted swapper
    (`Accepted`: the constructor of the swapper and those of its handlers found all their layouts connected) every
    direct connection between layouts of different handlers needs, on every world rank, no more cells than the
    constructor's `bufferSize` — the destination block and, for a gather, the `p` padded blocks of the `Allgather`. -/
theorem bufferSize_suffices_cross (S : Swapper) (order : List Nat) (ordH : Nat → List Nat) (hA : Accepted S order ordH)
    (a b : Nat) (ha : a < S.allNames.length) (hab : Adj S.connections a b) (hh : (S.locate a).1 ≠ (S.locate b).1)
    (rank : Nat) (hr : rank < prodL S.dims) : crossNeed S a b rank ≤ S.bufferSize rank :=
  (crossConn_of_adj S order ordH hA a b ha hab hh).2.2.2.2 rank hr

/-- `v_parallel_1d — v_parallel_2d` is a direct connection between different handlers -/
example : Adj (driverSwapper 2 3 [1, 2, 5]).connections 2 0 ∧
    ((driverSwapper 2 3 [1, 2, 5]).locate 2).1 ≠ ((driverSwapper 2 3 [1, 2, 5]).locate 0).1 := by decide +kernel


/-- the grouping of fullSimulation.py on 2 × 3 processes is accepted, also in the over-decomposed configuration -/
example : Accepted (driverSwapper 2 3 [4, 6, 5]) [0, 1, 2, 3] (fun _ => [0, 1]) ∧
    Accepted (driverSwapper 2 3 [1, 2, 5]) [0, 1, 2, 3] (fun _ => [0, 1]) :=
  ⟨⟨by decide +kernel, by decide +kernel, by decide +kernel, by decide +kernel, by decide +kernel⟩,
   ⟨by decide +kernel, by decide +kernel, by decide +kernel, by decide +kernel, by decide +kernel⟩⟩

/-- **C03 for the executable model**: `LayoutSwapper.transpose(source, dest, layout_source, layout_dest[, buf])`
    (`Swapper.transposeRoles` with roles 0 `source`, 1 `dest`, 2 `buf`; layout.py:1212-1278, every recursion level) of an
    accepted swapper, for every pair of DIFFERENT layouts (same handler or not), every tie-break order of the route
    constructions, with and without spare buffer, any recursion fuel ≥ 2.  If `source` holds `G` in the source layout on
    every world rank and every buffer has exactly `bufferSize` cells (what `Grid.__init__` allocates and `transpose`
    asserts), the call raises nothing — the asserts of the swapper and of the handlers pass, every reshape, numpy
    assignment, `Alltoall` and `Allgather` is legal —, `dest` holds `G` in the destination layout on every world rank,
    and with a spare buffer `source` is unchanged.  The stored route may mix handler steps and cross steps.
    `hlay` (`DS.LayoutOK`: in particular no more processes than points along a distributed dimension) is what the
    handler theorems of `Props/C01Extra.lean` need; the cross steps need no such hypothesis. -/
theorem swapperTranspose_correct (S : Swapper) (order : List Nat) (ordH : Nat → List Nat) (hA : Accepted S order ordH)
    (hlay : ∀ h, h < S.groups.length → ∀ i, i < (S.handler h).names.length →
      LayoutOK (S.handlerNprocs h) ((S.ordersOf h).getD i []) S.ext)
    (useBuf : Bool) (fuel : Nat) (hfuel : 2 ≤ fuel) (w : World α) (G : List Nat → α) (kS kD : Nat)
    (hkS : kS < S.allNames.length) (hkD : kD < S.allNames.length) (hne : kS ≠ kD)
    (hw : WorldEq (if useBuf then 3 else 2) (prodL S.dims) S.bufferSize w)
    (hsrc : HoldsLayout S G kS (w.getD 0 #[])) :
    ∃ w', transposeRoles S (S.routes order).1 (fun h => ((S.handler h).routes (ordH h)).1) fuel kS kD useBuf 0 1 2 w
        = .ok w' ∧
      HoldsLayout S G kD (w'.getD 1 #[]) ∧ (useBuf = true → w'.getD 0 #[] = w.getD 0 #[]) := by
  obtain ⟨f, rfl⟩ := Nat.exists_eq_add_of_le' hfuel
  exact transposeRoles_correct S order ordH hA hlay (by omega) useBuf f w G kS kD hkS hkD hne hw hsrc

/-- non-vacuity: all hypotheses of `swapperTranspose_correct` hold together for the grouping of fullSimulation.py on
    2 × 3 processes, `v_parallel_1d → mode_solve` with spare buffer; the stored route is `v_parallel_1d →
    v_parallel_2d → mode_solve`: a scatter (cross step) followed by an `Alltoall` step inside the 2-D handler -/
example :
    let S := driverSwapper 2 3 [4, 6, 5]
    ((S.routes [0, 1, 2, 3]).1.r 2 1 = [0, 1]) ∧
    ∃ w', transposeRoles S (S.routes [0, 1, 2, 3]).1 (fun h => ((S.handler h).routes [0, 1]).1) 2 2 1 true 0 1 2
        (fieldWorld S 2 exField S.bufferSize) = .ok w' ∧
      HoldsLayout S exField 1 (w'.getD 1 #[]) ∧
      (true = true → w'.getD 0 #[] = (fieldWorld S 2 exField S.bufferSize).getD 0 #[]) := by
  intro S
  have hA : Accepted S [0, 1, 2, 3] (fun _ => [0, 1]) :=
    ⟨by decide +kernel, by decide +kernel, by decide +kernel, by decide +kernel, by decide +kernel⟩
  refine ⟨by decide +kernel, ?_⟩
  exact swapperTranspose_correct S [0, 1, 2, 3] (fun _ => [0, 1]) hA (by decide +kernel) true 2 (Nat.le_refl _) _ exField 2 1
    (by decide +kernel) (by decide +kernel) (by decide) (fieldWorld_eq S 2 exField S.bufferSize)
    (fieldWorld_holds S 2 exField S.bufferSize
      (fun r _ => block_le_bufferSize S [0, 1, 2, 3] (fun _ => [0, 1]) hA 2 (by decide +kernel) r))

/-! ### 5. there and back -/

/-- **Moving to a (more) replicated layout and back reproduces the original blocks.**  `kS` is a layout of the more
    distributed handler, `kD` of the less distributed one.  Gather `kS → kD` (roles `x → y`, scratch `z`), then scatter
    `kD → kS` (roles `y → x2`): role `x2` holds `G` in layout `kS` again, i.e. on every world rank every cell of the block
    equals the cell of the original source block. -/
theorem scatter_after_gather_roundtrip (S : Swapper) (hS : SwapperOK S) (kS kD : Nat) (hkS : kS < S.allNames.length)
    (hkD : kD < S.allNames.length) (hh : (S.locate kS).1 ≠ (S.locate kD).1)
    (hacc : S.compatibleLayout kS kD = true ∨ S.compatibleLayout kD kS = true)
    (hlt : nDistributed (S.handlerNprocs (S.locate kD).1) < nDistributed (S.handlerNprocs (S.locate kS).1))
    (x y z x2 z2 : Nat) (w : World α) (G : List Nat → α) (hyx : y ≠ x) (hyz : y ≠ z) (hy : y < w.size) (hz : z < w.size)
    (hx2y : x2 ≠ y) (hx2 : x2 < w.size)
    (hyn : (w.getD y #[]).size = prodL S.dims) (hzn : (w.getD z #[]).size = prodL S.dims)
    (hx2n : (w.getD x2 #[]).size = prodL S.dims)
    (hszy : ∀ rank, rank < prodL S.dims → crossNeed S kS kD rank ≤ (World.get w y rank).size)
    (hszz : ∀ rank, rank < prodL S.dims → crossNeed S kS kD rank ≤ (World.get w z rank).size)
    (hszx2 : ∀ rank, rank < prodL S.dims →
      ((S.layoutOf kS).shape ((S.topo (S.locate kS).1).coords rank)).prod ≤ (World.get w x2 rank).size)
    (hsrc : HoldsLayout S G kS (w.getD x #[])) :
    ∃ w1 w2, crossStep S kS kD x y z w = .ok w1 ∧ crossStep S kD kS y x2 z2 w1 = .ok w2 ∧
      HoldsLayout S G kD (w1.getD y #[]) ∧ HoldsLayout S G kS (w2.getD x2 #[]) ∧
      ∀ rank, rank < prodL S.dims → ∀ idx,
        CopyBox.InBox idx ((S.layoutOf kS).shape ((S.topo (S.locate kS).1).coords rank)) →
        (World.get w2 x2 rank)[Addr.ravel idx ((S.layoutOf kS).shape ((S.topo (S.locate kS).1).coords rank))]? =
        (World.get w x rank)[Addr.ravel idx ((S.layoutOf kS).shape ((S.topo (S.locate kS).1).coords rank))]? := by
  obtain ⟨w1, h1, h2, _, h4, h5, h6⟩ := crossStep_gather_world S hS kS kD hkS hkD hh hacc hlt x y z w G hyx hyz hy hz hyn
    hzn hszy hszz hsrc
  obtain ⟨w2, g1, g2, _⟩ := crossStep_scatter_world S hS kD kS hkD hkS (fun e => hh e.symm) hacc.symm hlt y x2 z2 w1 G
    (Ne.symm hx2y) (by rw [h4]; exact hx2) (by rw [h5 x2, hx2n])
    (fun rank hr => by rw [h6 x2 rank]; exact hszx2 rank hr) h2
  refine ⟨w1, w2, h1, g1, h2, g2, ?_⟩
  intro rank hr idx hidx
  exact holdsBlock_unique _ _ G _ _ (g2 rank hr) (hsrc rank hr) idx hidx

/-! ### non-vacuity: the hypotheses hold together -/

/-- all hypotheses of `scatter_after_gather_roundtrip` hold together for the over-decomposed grouping of
    fullSimulation.py on 2 × 3 processes with extents (1, 2, 5) (world ranks 3–5 own empty blocks of `v_parallel_2d`),
    `v_parallel_2d → v_parallel_1d → v_parallel_2d`, roles 0 → 1 (buffer 2) → 2: the theorem yields the result without
    evaluating the model -/
example :
    let S := driverSwapper 2 3 [1, 2, 5]
    let w := fieldWorld S 0 exField (fun _ => 40)
    ∃ w1 w2, crossStep S 0 2 0 1 2 w = .ok w1 ∧ crossStep S 2 0 1 2 0 w1 = .ok w2 ∧
      HoldsLayout S exField 2 (w1.getD 1 #[]) ∧ HoldsLayout S exField 0 (w2.getD 2 #[]) ∧
      ∀ rank, rank < prodL S.dims → ∀ idx,
        CopyBox.InBox idx ((S.layoutOf 0).shape ((S.topo (S.locate 0).1).coords rank)) →
        (World.get w2 2 rank)[Addr.ravel idx ((S.layoutOf 0).shape ((S.topo (S.locate 0).1).coords rank))]? =
        (World.get w 0 rank)[Addr.ravel idx ((S.layoutOf 0).shape ((S.topo (S.locate 0).1).coords rank))]? := by
  intro S w
  have hw : WorldEq 3 (prodL S.dims) (fun _ => 40) w := fieldWorld_eq S 0 exField (fun _ => 40)
  have hsz : ∀ role, role < 3 → ∀ rank, rank < prodL S.dims → (World.get w role rank).size = 40 :=
    fun role hr rank hrk => (hw.2 role hr).2 rank hrk
  have hneed : ∀ rank, rank < prodL S.dims → crossNeed S 0 2 rank ≤ 40 := by decide +kernel
  have hblk : ∀ rank, rank < prodL S.dims →
      ((S.layoutOf 0).shape ((S.topo (S.locate 0).1).coords rank)).prod ≤ 40 := by decide +kernel
  exact scatter_after_gather_roundtrip S (by decide +kernel) 0 2 (by decide +kernel) (by decide +kernel) (by decide +kernel)
    (Or.inr (by decide +kernel)) (by decide +kernel) 0 1 2 2 0 w exField (by decide) (by decide)
    (by have := hw.1; omega) (by have := hw.1; omega) (by decide) (by have := hw.1; omega)
    (hw.2 1 (by decide)).1 (hw.2 2 (by decide)).1 (hw.2 2 (by decide)).1
    (fun rank hr => by rw [hsz 1 (by decide) rank hr]; exact hneed rank hr)
    (fun rank hr => by rw [hsz 2 (by decide) rank hr]; exact hneed rank hr)
    (fun rank hr => by rw [hsz 2 (by decide) rank hr]; exact hblk rank hr)
    (fieldWorld_holds S 0 exField (fun _ => 40) hblk)

end PygyroVerif.C03
