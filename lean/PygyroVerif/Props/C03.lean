/-
C03 — Redistribution across differently distributed layout groups preserves data.  Property theorems only.
Model: Model/Swapper.lean.

  1. the gather step (Allgather of padded blocks + per-rank unpack) and the scatter step (local slice), abstract
     dimension-indexed form, any rank of the array / extents / process count: `gather_correct`
     (incl. "all replicas identical"), `scatter_correct`, `scatter_after_gather`
  2. decision logic of the constructor for the grouping the simulation builds, for EVERY P0, P1 ≥ 1
     (equal extents and extents of 1 included): `driver_comm_axes`
  3. `compatible_unsound_equal_axes`: kernel-evaluated witness of finding F9 (acceptance does not imply that the data
     can be moved when two handlers have equally many process axes)
  4. chains of steps: the route-following theorems of C01 (`C01.route_transpose_correct_*`) are stated over an arbitrary
     step contract and apply verbatim to the swapper's steps.
-/
import PygyroVerif.Model.Swapper
import PygyroVerif.Lemmas.TransposeCore
import PygyroVerif.Lemmas.RouteValid

namespace PygyroVerif.C03
open PygyroVerif PygyroVerif.Addr

/-! ### 1. gather / scatter, abstract form

Dimension `A` (extent `nA`) is split `p` ways in the distributed layout and whole in the gathered layout; every
other dimension `d` has local extent `shO d` and start `stO d` in both. -/
section GatherScatter
variable {α : Type}
variable (nA p : Nat) (A : Nat) (shO stO : Nat → Nat) (ordS ordG : List Nat)

/-- local shape of rank `q` in the distributed layout -/
def shDist (q : Nat) : Nat → Nat := fun d => if d = A then blockLen nA p q else shO d
/-- local shape in the gathered (replicated along that process axis) layout -/
def shGath : Nat → Nat := fun d => if d = A then nA else shO d
def globDist (q : Nat) (w : Nat → Nat) : Nat → Nat := fun d => if d = A then blockStart nA p q + w A else stO d + w d
def globGath (v : Nat → Nat) : Nat → Nat := fun d => if d = A then v A else stO d + v d

/-- **gather**: if every distributed block holds `G`, the Allgather delivers block `q` (padded to `bs` cells) into
    chunk `q` of every member, and the unpack loop copies chunk `q` to the slab `[start q, start q + len q)` of the
    gathered block, then every member `r` holds `G` on the whole gathered block — in particular all replicas are
    identical (the right-hand side does not depend on `r`). -/
theorem gather_correct (hp : 0 < p) (hAS : A ∈ ordS) (hperm : ∀ d, d ∈ ordS ↔ d ∈ ordG)
    (G : (Nat → Nat) → α) (hG : ∀ f g : Nat → Nat, (∀ d ∈ ordS, f d = g d) → G f = G g)
    (src rcv dst : Nat → Nat → α) (bs : Nat)
    (hbs : ∀ q, q < p → (ordS.map (shDist nA p A shO q)).prod ≤ bs)
    (hsrc : ∀ q, q < p → ∀ w, InBoxD ordS w (shDist nA p A shO q) →
        src q (ravelD ordS w (shDist nA p A shO q)) = G (globDist nA p A stO q w))
    (hgather : ∀ q r off, q < p → r < p → off < bs → rcv r (q * bs + off) = src q off)
    (hunpack : ∀ q r, q < p → r < p → ∀ u, InBoxD ordS u (shDist nA p A shO q) →
        dst r (ravelD ordG (Function.update u A (blockStart nA p q + u A)) (shGath nA A shO))
          = rcv r (q * bs + ravelD ordS u (shDist nA p A shO q))) :
    ∀ r, r < p → ∀ v, InBoxD ordG v (shGath nA A shO) →
      dst r (ravelD ordG v (shGath nA A shO)) = G (globGath A stO v) := by
  intro r hr v hv
  have hAG : A ∈ ordG := (hperm A).mp hAS
  have hvA : v A < nA := by have := hv A hAG; simpa [shGath] using this
  obtain ⟨q, hq, hq1, hq2⟩ := owner_exists nA p hp (v A) hvA
  set u : Nat → Nat := Function.update v A (v A - blockStart nA p q) with hu
  have huA : u A = v A - blockStart nA p q := by simp [hu]
  have hu_ne : ∀ d, d ≠ A → u d = v d := fun d hd => by simp [hu, Function.update_of_ne hd]
  have hbox : InBoxD ordS u (shDist nA p A shO q) := by
    intro d hd
    have hdG : d ∈ ordG := (hperm d).mp hd
    by_cases hdA : d = A
    · subst hdA; simp only [shDist, if_true, huA, blockLen]; omega
    · have := hv d hdG
      rw [hu_ne d hdA]; simpa [shDist, shGath, hdA] using this
  have hv_eq : ∀ d ∈ ordG, v d = (Function.update u A (blockStart nA p q + u A)) d := by
    intro d _
    by_cases hdA : d = A
    · subst hdA; simp [huA]; omega
    · simp [Function.update_of_ne hdA, hu_ne d hdA]
  rw [ravelD_congr ordG v _ _ _ hv_eq (fun _ _ => rfl), hunpack q r hq hr u hbox]
  have hoff := Nat.lt_of_lt_of_le (ravelD_lt ordS u _ hbox) (hbs q hq)
  rw [hgather q r _ hq hr hoff, hsrc q hq u hbox]
  apply hG
  intro d _
  by_cases hdA : d = A
  · subst hdA; simp only [globDist, globGath, if_true, huA]; omega
  · simp only [globDist, globGath, hdA, if_false, hu_ne d hdA]

/-- **scatter**: every rank takes the slice `[start r, start r + len r)` of the gathered block it already holds. -/
theorem scatter_correct (hAG : A ∈ ordG) (hperm : ∀ d, d ∈ ordS ↔ d ∈ ordG)
    (G : (Nat → Nat) → α) (hG : ∀ f g : Nat → Nat, (∀ d ∈ ordS, f d = g d) → G f = G g)
    (src dst : Nat → Nat → α)
    (hsrc : ∀ r, r < p → ∀ v, InBoxD ordG v (shGath nA A shO) →
        src r (ravelD ordG v (shGath nA A shO)) = G (globGath A stO v))
    (hslice : ∀ r, r < p → ∀ u, InBoxD ordS u (shDist nA p A shO r) →
        dst r (ravelD ordS u (shDist nA p A shO r))
          = src r (ravelD ordG (Function.update u A (blockStart nA p r + u A)) (shGath nA A shO)))
    (hp : 0 < p) :
    ∀ r, r < p → ∀ u, InBoxD ordS u (shDist nA p A shO r) →
      dst r (ravelD ordS u (shDist nA p A shO r)) = G (globDist nA p A stO r u) := by
  intro r hr u hu
  rw [hslice r hr u hu]
  have hbox : InBoxD ordG (Function.update u A (blockStart nA p r + u A)) (shGath nA A shO) := by
    intro d hd
    have hdS : d ∈ ordS := (hperm d).mpr hd
    by_cases hdA : d = A
    · subst hdA
      have := hu d hdS
      simp only [shDist, if_true, blockLen] at this
      simp only [shGath, if_true, Function.update_self]
      have hm := blockStart_le_n nA p (r+1) hp (by omega)
      have := blockStart_le_succ nA p r hp
      omega
    · have := hu d hdS
      simpa [shGath, shDist, hdA, Function.update_of_ne hdA] using this
  rw [hsrc r hr _ hbox]
  apply hG
  intro d _
  by_cases hdA : d = A
  · subst hdA; simp [globDist, globGath]
  · simp [globDist, globGath, hdA, Function.update_of_ne hdA]

end GatherScatter

/-! ### 2. the grouping the simulation builds -/

/-- `LayoutSwapper(comm, [layout_poisson, layout_vpar, layout_poloidal], [nprocs, nprocs[0], nprocs[1]], …)` of
    fullSimulation.py:118-130 -/
def driverSwapper (P0 P1 : Nat) (ext : List Nat) : Swapper :=
  { groups := [[("v_parallel_2d", [0, 2, 1]), ("mode_solve", [1, 2, 0])], [("v_parallel_1d", [0, 2, 1])], [("poloidal", [2, 1, 0])]],
    nprocsRaw := [[P0, P1], [P0], [P1]], ext := ext }

theorem driver_maxIdx (P0 P1 : Nat) (ext : List Nat) : (driverSwapper P0 P1 ext).maxIdx = 0 := by
  have h : Swapper.nDistributed [P0, P1] ≤ 2 := by
    simp only [Swapper.nDistributed, List.length_cons, List.length_nil]; omega
  have e1 : max (Swapper.nDistributed [P0]) 1 = 1 := by
    simp only [Swapper.nDistributed, List.length_cons, List.length_nil]; omega
  have e2 : max (Swapper.nDistributed [P1]) 1 = 1 := by
    simp only [Swapper.nDistributed, List.length_cons, List.length_nil]; omega
  have hnd : (driverSwapper P0 P1 ext).nDims = [max (Swapper.nDistributed [P0, P1]) 1, 1, 1] := by
    simp only [Swapper.nDims, driverSwapper, List.map_cons, List.map_nil, e1, e2]
  unfold Swapper.maxIdx Swapper.sortOrder
  rw [hnd]
  generalize Swapper.nDistributed [P0, P1] = k at h
  have hk : k = 0 ∨ k = 1 ∨ k = 2 := by omega
  rcases hk with rfl | rfl | rfl <;> decide

theorem driver_dims (P0 P1 : Nat) (ext : List Nat) : (driverSwapper P0 P1 ext).dims = [P0, P1] := by
  unfold Swapper.dims
  rw [driver_maxIdx]
  simp [Swapper.nprocsPadded, Swapper.maxDims, driverSwapper, padTo]

theorem driver_orders (P0 P1 : Nat) (ext : List Nat) :
    (driverSwapper P0 P1 ext).ordersOf 0 = [[0, 2, 1], [1, 2, 0]] ∧
    (driverSwapper P0 P1 ext).ordersOf 1 = [[0, 2, 1]] ∧
    (driverSwapper P0 P1 ext).ordersOf 2 = [[2, 1, 0]] := by
  simp [Swapper.ordersOf, driverSwapper]

/-- the radial group (`n = P0`, first direction, layouts ordered `[0,2,1]`) gets process axis 0 whatever `P0`, `P1` -/
theorem choose_radial (P0 P1 : Nat) :
    Swapper.chooseAxis [some P0, some P1] [[0, 2, 1], [1, 2, 0]] [[0, 2, 1]] 0 P0 = some 0 := by
  by_cases h : P1 = P0
  · subst h
    simp [Swapper.chooseAxis, List.range_succ]
  · have h' : ¬ P0 = P1 := fun e => h e.symm
    simp [Swapper.chooseAxis, h, h']

/-- the poloidal group (`n = P1`, layout ordered `[2,1,0]`) gets process axis 1 whatever `P0`, `P1` -/
theorem choose_axial (P0 P1 : Nat) :
    Swapper.chooseAxis [some P0, some P1] [[0, 2, 1], [1, 2, 0]] [[2, 1, 0]] 0 P1 = some 1 := by
  by_cases h : P1 = P0
  · subst h
    simp [Swapper.chooseAxis, List.range_succ]
  · have h' : ¬ P0 = P1 := fun e => h e.symm
    have hb : (P0 == P1) = false := by simpa using h'
    simp [Swapper.chooseAxis, h, h', List.idxOf, List.findIdx_cons, hb]

/-- For every process grid `P0 × P1` (equal extents and extents of 1 included) the constructor gives the radially
    distributed group the first and the other 1-D group the second sub-communicator of the 2-D topology. -/
theorem driver_comm_axes (P0 P1 : Nat) (ext : List Nat) :
    (driverSwapper P0 P1 ext).commAxes 0 = some [0, 1] ∧
    (driverSwapper P0 P1 ext).commAxes 1 = some [0] ∧
    (driverSwapper P0 P1 ext).commAxes 2 = some [1] := by
  have hm := driver_maxIdx P0 P1 ext
  have hd := driver_dims P0 P1 ext
  obtain ⟨ho0, ho1, ho2⟩ := driver_orders P0 P1 ext
  refine ⟨?_, ?_, ?_⟩
  · unfold Swapper.commAxes
    rw [hm]
    simp [Swapper.maxDims, driverSwapper]
    decide
  · unfold Swapper.commAxes Swapper.chooseAxes
    rw [hm, hd, ho0, ho1]
    have hraw : (driverSwapper P0 P1 ext).nprocsRaw.getD 1 [] = [P0] := by simp [driverSwapper]
    rw [hraw]
    simp [Swapper.chooseStep, choose_radial]
  · unfold Swapper.commAxes Swapper.chooseAxes
    rw [hm, hd, ho0, ho2]
    have hraw : (driverSwapper P0 P1 ext).nprocsRaw.getD 2 [] = [P1] := by simp [driverSwapper]
    rw [hraw]
    simp [Swapper.chooseStep, choose_axial]

/-! ### 2b. chains of steps -/

/-- for every grouping the constructor accepts, every stored route between two different layouts of the swapper is a
    non-empty path of direct connections (pairs accepted by `_compatibleLayout`) ending at the destination — whatever
    the iteration order of the set of unvisited names.  Each hop is then an equal / scatter / gather step or a handler
    transpose, and `C01.route_transpose_correct_*` (stated for an arbitrary step contract) carries the field along. -/
theorem swapper_route_valid (S : Swapper) (order : List Nat) (hn : S.allNames.length ≠ 1)
    (hfull : (S.routes order).2 = true) :
    ∀ a b, a < S.allNames.length → b < S.allNames.length → a ≠ b →
      RouteValid.ValidPath S.connections a b ((S.routes order).1.r a b) ∧
      ((S.routes order).1.r a b).length = (S.routes order).1.d a b := by
  have hc : RouteValid.ConnOK S.connections S.allNames.length := by
    unfold Swapper.connections
    exact RouteValid.connectionsOf_ok _ _
  exact RouteValid.routes_valid_of_connected S.allNames S.connections order hc hn hfull

/-! ### 3. finding F9 -/

/-- two handlers with equally many process axes (the same communicators) that distribute different dimensions -/
def f9Swapper : Swapper :=
  { groups := [[("A", [0, 1])], [("B", [1, 0])]], nprocsRaw := [[2, 1], [2, 1]], ext := [2, 2] }

def f9World : Handler.World Int :=
  #[#[#[0, 1, -1, -1], #[2, 3, -1, -1]], #[Array.replicate 4 (-2), Array.replicate 4 (-2)],
    #[Array.replicate 4 (-3), Array.replicate 4 (-3)]]

/-- before the repair, `_compatibleLayout` accepted the pair, yet the direct step between the two layouts is refused
    (numpy "could not broadcast"): acceptance did not imply that the data can be moved … -/
theorem compatible_unsound_equal_axes :
    Swapper.compatibleLayoutF false f9Swapper 1 0 = true ∧
    (Swapper.crossStep f9Swapper 0 1 0 1 0 f9World).toBool = false := by
  decide +kernel

/-- … the repaired `_compatibleLayout` rejects it (the constructor then reports the layouts as not connected) -/
theorem compatible_repaired_equal_axes : f9Swapper.compatibleLayout 1 0 = false := by
  decide +kernel

/-- **soundness of the repaired equal-axis-count branch**: if two layouts of different handlers with equally many
    process axes are accepted as directly connected, every communicator of size > 1 distributes the same dimension
    in both — which is exactly when the purely local transposition of `_transpose` (:1291-1303) is right. -/
theorem compatible_sound_equal_axes (S : Swapper) (k1 k2 : Nat)
    (hh : (S.locate k1).1 ≠ (S.locate k2).1)
    (hn : (S.handlerNprocs (S.locate k1).1).length = (S.handlerNprocs (S.locate k2).1).length)
    (hacc : S.compatibleLayout k1 k2 = true) :
    ∀ j, j < ((S.commAxes (S.locate k2).1).getD []).length →
      let c := ((S.commAxes (S.locate k2).1).getD []).getD j 0
      S.dims.getD c 1 = 1 ∨
      ((S.ordersOf (S.locate k1).1).getD (S.locate k1).2 []).getD (((S.commAxes (S.locate k1).1).getD []).idxOf c) 0
        = ((S.ordersOf (S.locate k2).1).getD (S.locate k2).2 []).getD j 0 := by
  intro j hj
  unfold Swapper.compatibleLayout Swapper.compatibleLayoutF at hacc
  simp only [hh, ↓reduceIte, hn, Nat.sub_self, Nat.lt_irrefl, gt_iff_lt, Nat.not_lt_zero, Bool.not_true,
    Bool.false_or, Bool.and_eq_true, List.all_eq_true, List.mem_range, Bool.or_eq_true, decide_eq_true_eq] at hacc
  exact hacc.2 j hj

end PygyroVerif.C03
