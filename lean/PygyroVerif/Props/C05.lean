/-
C05 — Simulation results do not depend on the process decomposition.  Property theorems only.
Model: Model/Wiring.lean (which index expressions the grid-level loops pass to the kernels).

  * `wiring_*`      : every kernel call receives the parameters of the slice's own global coordinates, for every
                      layout, process grid and rank (the clause "each operator applies to every local slice the physical
                      parameters of that slice's own global coordinates");
  * `gridop_decomposition_independent` : consequently the global field assembled from all ranks after a grid-level operator is
                      `kern (T g) (F g)` at every global index `g`, whatever the number of ranks — the serial result;
  * `flux_wiring_defect`, `vpar_wiring_defect` : the index expressions before the fix: commits e17f3f9 / aa36cd2 violate this.
The kernels themselves are arbitrary (their correctness is C10–C16); collectives of layout changes are C01/C03/C06.
-/
import PygyroVerif.Model.Wiring
import PygyroVerif.Lemmas.Blocks
import PygyroVerif.Props.C02

namespace PygyroVerif.C05
open PygyroVerif PygyroVerif.Wiring

theorem wiring_flux (L : Layout) (c : List Nat) :
    ∀ call ∈ fluxGridStep true L c, call.params = call.slice := by
  intro call h
  simp only [fluxGridStep, List.mem_flatMap, List.mem_map, List.mem_range] at h
  obtain ⟨i, _, j, _, rfl⟩ := h
  simp

/-- v-parallel step: radius, axial index into the all-z gradient table, θ index and radius value are those of the
    slice, provided the potential block starts at the same radius as the distribution block (both split r over the
    same sub-communicator: `C03.driver_comm_axes`) and θ is not distributed -/
theorem wiring_vpar (kg : Bool) (L : Layout) (c : List Nat) (Lp : Layout) (cp : List Nat)
    (hphi : Lp.startAt cp 0 = L.startAt c 0) (hth : L.startAt c 2 = 0) :
    ∀ call ∈ vparGridStep true kg L c Lp cp, call.op = "vpar.step" →
      call.params = call.slice ++ [call.slice.getD 0 0] := by
  intro call h hop
  simp only [vparGridStep, List.mem_flatMap, List.mem_append, List.mem_map, List.mem_range] at h
  obtain ⟨i, _, h⟩ := h
  rcases h with h | h
  · cases kg <;> simp at h
    subst h; simp at hop
  · obtain ⟨j, _, k, _, rfl⟩ := h
    simp [hphi, hth]

/-- the parallel gradient of radius `i` is computed from the potential slice of that same radius -/
theorem wiring_pargrad (L : Layout) (c : List Nat) (Lp : Layout) (cp : List Nat) :
    ∀ call ∈ vparGridStep true false L c Lp cp, call.op = "pargrad" → call.params = call.slice := by
  intro call h hop
  simp only [vparGridStep, List.mem_flatMap, List.mem_append, List.mem_map, List.mem_range] at h
  obtain ⟨i, _, h⟩ := h
  rcases h with h | h
  · simp at h; subst h; rfl
  · obtain ⟨j, _, k, _, rfl⟩ := h
    simp at hop

theorem wiring_poloidal (L : Layout) (c : List Nat) (Lp : Layout) (cp : List Nat)
    (hphi : Lp.startAt cp 0 = L.startAt c 1) :
    ∀ call ∈ polGridStep L c Lp cp, call.params = call.slice := by
  intro call h
  simp only [polGridStep, List.mem_append, List.mem_flatMap, List.mem_map, List.mem_range] at h
  rcases h with ⟨j, _, rfl⟩ | ⟨i, _, j, _, rfl⟩
  · rfl
  · simp [hphi]

theorem zipIdx_globalIdxVals (L : Layout) (c : List Nat) (p : Nat × Nat)
    (h : p ∈ (L.globalIdxVals c 0).zipIdx) : p.1 = L.startAt c 0 + p.2 := by
  obtain ⟨a, k⟩ := p
  have hk := List.mem_zipIdx h
  simp only [Layout.globalIdxVals] at hk
  simp only [Nat.zero_le, Nat.zero_add, List.length_map, List.length_range, List.getElem_map,
    List.getElem_range, Nat.sub_zero, true_and] at hk
  obtain ⟨_, hk⟩ := hk
  simp only; omega

/-- density: the equilibrium row is the one of the slice's own global radius -/
theorem wiring_density (L : Layout) (c : List Nat) : ∀ call ∈ densityRows L c, call.params = call.slice := by
  intro call h
  simp only [densityRows, List.mem_map] at h
  obtain ⟨p, hp, rfl⟩ := h
  simp [zipIdx_globalIdxVals L c p hp]

/-- elliptic solve: every local mode is solved with the operator of its own global mode number -/
theorem wiring_solve (L : Layout) (c : List Nat) : ∀ call ∈ solveModes L c, call.params = call.slice := by
  intro call h
  simp only [solveModes, List.mem_map] at h
  obtain ⟨p, hp, rfl⟩ := h
  simp [zipIdx_globalIdxVals L c p hp]

theorem wiring_init (L : Layout) (c : List Nat) : ∀ call ∈ initialise L c, call.params = call.slice := by
  intro call h
  simp only [initialise, List.mem_flatMap, List.mem_map, List.mem_range] at h
  obtain ⟨i, _, j, _, rfl⟩ := h
  rfl

/-- **decomposition independence of a grid-level operator**: with correct wiring (`pidx = id`), for every extent
    `n`, every number of ranks `p ≥ 1` and every global index `g`, exactly one rank owns `g` and what it computes
    there is `kern (T g) (F g)` — independent of `p`, in particular equal to the serial (`p = 1`) result. -/
theorem gridop_decomposition_independent {β σ : Type} [Inhabited σ] (n p : Nat) (hp : 0 < p)
    (T : Nat → β) (kern : β → σ → σ) (F : Nat → σ) (g : Nat) (hg : g < n) :
    ∃! ki : Nat × Nat, ki.1 < p ∧ ki.2 < blockLen n p ki.1 ∧ blockStart n p ki.1 + ki.2 = g ∧
      (localRun n p ki.1 T kern F id).getD ki.2 default = kern (T g) (F g) := by
  obtain ⟨⟨k, i⟩, ⟨hk, hi, he⟩, huniq⟩ := C02.axis_local_global_bijective n p hp g hg
  simp only at hk hi he
  refine ⟨(k, i), ⟨hk, hi, he, ?_⟩, ?_⟩
  · simp [localRun, hi, he]
  · rintro ⟨k', i'⟩ ⟨h1, h2, h3, _⟩
    exact huniq (k', i') ⟨h1, h2, h3⟩

/-- serial reference: on one rank the operator computes `kern (T g) (F g)` at every `g` -/
theorem serial_run {β σ : Type} [Inhabited σ] (n : Nat) (T : Nat → β) (kern : β → σ → σ) (F : Nat → σ)
    (g : Nat) (hg : g < n) : (localRun n 1 0 T kern F id).getD g default = kern (T g) (F g) := by
  have h0 : blockStart n 1 0 = 0 := by simp [blockStart]
  have h1 : blockLen n 1 0 = n := by simp [blockLen, blockStart, Nat.mod_one]
  simp [localRun, h0, h1, hg]

/-! the defects repaired by the fix: commits (index expressions of the original code) -/

def wL : Layout := Layout.make [2, 2] [0, 3, 1, 2] [4, 4, 4, 4]
def wV : Layout := Layout.make [2, 2] [0, 2, 1, 3] [4, 4, 4, 4]
def wP : Layout := Layout.make [2] [0, 2, 1] [4, 4, 4]

/-- `gridStep` passed no radial index: on a rank whose radial block has more than one point, a slice is advected
    with the tables of another radius -/
theorem flux_wiring_defect : ∃ call ∈ fluxGridStep false wL [0, 0], call.params ≠ call.slice := by decide

/-- the gradient table was read at the local z index: on a rank whose z block does not start at 0 a line is
    advected with the gradient of another axial position -/
theorem vpar_wiring_defect :
    ∃ call ∈ vparGridStep false true wV [0, 1] wP [0], call.params ≠ call.slice ++ [call.slice.getD 0 0] := by decide

/-- non-vacuity of `wiring_vpar`'s hypotheses on the same instance -/
example : wP.startAt [0] 0 = wV.startAt [0, 1] 0 ∧ wV.startAt [0, 1] 2 = 0 := by decide

end PygyroVerif.C05
