/-
C06, tie by translation (translator round 6a): `Generated/RoutesGen.lean` is REGENERATED on every run of `./check C06` from
`LayoutManager._makeConnectionMap` (pygyro/model/layout.py:241-329) by harness/translate_routes.py — a shallow embedding, statement
by statement (dicts with their keys, lists of pairs, the set `unvisitedNodes` with the explicit iteration order `order`, `while`
with fuel, `continue`, Python's `min`/`max` with `ValueError` on an empty argument).  This file proves that the generated function
computes what the hand-written model `Handler.routeMap` (Model/Handler.lean) computes — the model the theorems
`route_deterministic`, `route_canonical` (Props/C06Extra.lean) are about — so that those theorems hold of what the source says *now*.
If the source changes, either the translator refuses or these proofs stop checking; `./check C06` then reports a broken proof
obligation.

What the call leaves behind is compared in the form `Outcome`: the returned flag, and `self._route_map` as the list of its items in
key order (`items2`), `none` when the attribute was never assigned.

Guards (each is what the source really does; the model `routeMap` is total and differs there):
  * one layout: the source returns `True` at once and never assigns `self._route_map` (`gen_single`); `routeMap` gives an empty table.
    (`transpose` never reads the attribute then: source and destination are the same layout.)
  * no layout: `max()` of an empty sequence, `ValueError` (`gen_empty`); `routeMap` says "connected".
  * `KeysOK conn n` — every listed connection is one of the layouts and no layout lists itself: otherwise the source raises
    `KeyError` at `self._route_map[name][stepTo].append(stepTo)`; lookups of absent keys are not modelled by the translation.
    Without it the VALUES at the entries `a ≠ b` still coincide whenever the generated function returns (`gen_routes_val_eq`).
  * `∀ x < n, x ∈ order`: the iteration order lists every member of the set; fuel `F ≥ n` (each `while` round removes one node,
    one more test ends the loop).
-/
import PygyroVerif.Lemmas.RoutesGen
import PygyroVerif.Props.C06Extra

namespace PygyroVerif.C06Gen
open PygyroVerif PygyroVerif.Handler PygyroVerif.RouteValid PygyroVerif.RouteDet PygyroVerif.RouteAgree
open PygyroVerif.RoutesGen PygyroVerif.Gen.Routes

/-- what a call leaves behind, in a comparable form -/
inductive Outcome where
  | ret (v : Bool) (table : Option (List (Nat × List (Nat × List Nat))))
  | raised (exc : String)
  | outOfFuel
deriving DecidableEq, Repr

/-- `[(a, list(row.items())) for a, row in D.items()]` -/
def items2 (D : Dict (Dict (List Nat))) : List (Nat × List (Nat × List Nat)) :=
  D.keys.map (fun a => (a, (D.val a).keys.map (fun b => (b, (D.val a).val b))))

def canon : Out → Outcome
  | .ret v none => .ret v none
  | .ret v (some D) => .ret v (some (items2 D))
  | .raised e => .raised e
  | .outOfFuel => .outOfFuel

/-- the items of the model's route table: every layout, then every other layout, in dict order -/
def modelTable (names : List String) (conn : List (List Nat)) (order : List Nat) : List (Nat × List (Nat × List Nat)) :=
  (List.range names.length).map (fun a =>
    (a, ((List.range names.length).filter (· ≠ a)).map (fun b => (b, (routeMap names conn order).1.r a b))))

/-- the `return` statement, on the state reached after the loop over the sources -/
def finalOf (n : Nat) (σ : St) : Out :=
  match maxKey? σ.distanceMap.values (fun x => maxNat? x.values) with
  | none => .raised "ValueError"
  | some m1 =>
    match maxNat? m1.values with
    | none => .raised "ValueError"
    | some m3 => .ret (decide (m3 ≠ n + 1)) (some σ.self_route_map)

/-- the generated function, more than one layout: the loops end (no `ValueError` from `min`, enough fuel) in a state whose two
    dicts hold, at every entry `a ≠ b`, what the model holds; their keys are those of the first loop nest when `KeysOK` -/
theorem gen_core (names : List String) (conn : List (List Nat)) (order : List Nat) (F : Nat)
    (hn : names.length ≠ 1) (ho : ∀ x, x < names.length → x ∈ order) (hF : names.length ≤ F) :
    ∃ σf : St, makeConnectionMap names conn order F = finalOf names.length σf ∧
      Agree names.length (absM σf) (routeMap names conn order).1 ∧
      (KeysOK conn names.length → GoodKeys names.length σf) := by
  -- the state after the first loop nest and the two `dict(...)` assignments
  let σ1 : St := (keysOf names).foldl (body_name1 names conn order) { { ({} : St) with MyMap := [] } with distanceMap_pairs := [] }
  let σ3 : St := { { σ1 with self_route_map := Dict.ofPairs σ1.MyMap } with distanceMap := Dict.ofPairs σ1.distanceMap_pairs }
  let σ4 : St := (keysOf names).foldl (body_name names conn order) σ3
  have hmk : makeConnectionMap names conn order F =
      match forRes (body_source names conn order F) (keysOf names) σ4 with
      | .done o => o
      | .ok σ => finalOf names.length σ := by
    unfold makeConnectionMap
    rw [if_neg hn]
    rfl
  obtain ⟨e1, e2⟩ := name1_fold names conn order (keysOf names) { { ({} : St) with MyMap := [] } with distanceMap_pairs := [] }
  have hr : σ3.self_route_map = Dict.ofPairs ((List.range names.length).map (fun a => (a, routeRow names.length a))) := by
    show Dict.ofPairs σ1.MyMap = _
    rw [show σ1.MyMap = _ from e1]; rfl
  have hd : σ3.distanceMap = Dict.ofPairs ((List.range names.length).map (fun a => (a, distRow names.length a))) := by
    show Dict.ofPairs σ1.distanceMap_pairs = _
    rw [show σ1.distanceMap_pairs = _ from e2]; rfl
  obtain ⟨rk, rv⟩ := routeInit_spec names.length
  obtain ⟨dk, dv⟩ := distInit_spec names.length
  have hg3 : GoodKeys names.length σ3 := ⟨by rw [hd]; exact dk, by rw [hr]; exact rk⟩
  have ha3 : Agree names.length (absM σ3) { dist := fun _ _ => names.length + 1, route := fun _ _ => [] } := by
    intro a b ha hb hab
    simp only [absM, RouteMap.d, RouteMap.r]
    rw [hd, hr]
    exact ⟨dv a b ha hb hab, rv a b⟩
  have ha4 : absM σ4 = initFrom conn names.length (absM σ3) := known_fold_abs names conn order (keysOf names) σ3
  obtain ⟨σf, hf, haf⟩ := source_fold_abs names conn order F hF ho (keysOf names) σ4 (fun s hs => by simpa [keysOf] using hs)
  refine ⟨σf, by rw [hmk, hf], ?_, ?_⟩
  · have hmodel : (routeMap names conn order).1 =
        relaxAll names conn order names.length (initFrom conn names.length { dist := fun _ _ => names.length + 1, route := fun _ _ => [] }) := by
      unfold routeMap
      simp only [hn, ↓reduceIte]
      rfl
    rw [hmodel, haf, ha4]
    exact relaxAll_agree names conn order names.length _ _ (initFrom_agree conn names.length _ _ ha3)
  · intro hk
    have hg4 : GoodKeys names.length σ4 :=
      known_fold_keys names conn order names.length hk (keysOf names) σ3 (fun a ha => by simpa [keysOf] using ha) hg3
    exact source_fold_keys names conn order F (keysOf names) σ4 σf (fun s hs => by simpa [keysOf] using hs) hg4 hf

/-- **gen_routes_eq**: for at least two layouts, every connection table that keeps the source from raising `KeyError`, every
    iteration order of the set that lists all layouts and fuel `F ≥ n`: the translation of `_makeConnectionMap` returns the
    model's connected / unconnected flag and leaves in `self._route_map` exactly the model's route table (same keys in the same
    order, same routes). -/
theorem gen_routes_eq (names : List String) (conn : List (List Nat)) (order : List Nat) (F : Nat)
    (hn : 2 ≤ names.length) (hk : KeysOK conn names.length) (ho : ∀ x, x < names.length → x ∈ order)
    (hF : names.length ≤ F) :
    canon (makeConnectionMap names conn order F) =
      .ret (routeMap names conn order).2 (some (modelTable names conn order)) := by
  obtain ⟨σf, hrun, hag, hkeys⟩ := gen_core names conn order F (by omega) ho hF
  obtain ⟨gd, gr⟩ := hkeys hk
  obtain ⟨x, hx1, hx2⟩ := final_max names.length hn σf.distanceMap gd (absM σf) (fun _ _ => rfl)
  rw [hrun]
  unfold finalOf
  rw [hx1]
  simp only
  rw [hx2]
  simp only [canon]
  congr 1
  · -- the flag
    rw [maxDist_agree names.length _ _ hag]
    unfold routeMap
    have hn1 : names.length ≠ 1 := by omega
    simp only [hn1, ↓reduceIte]
  · -- the table
    congr 1
    unfold items2 modelTable
    rw [gr.1]
    apply List.map_congr_left
    intro a ha
    have ha' : a < names.length := by simpa using ha
    rw [gr.2 a ha']
    congr 1
    apply List.map_congr_left
    intro b hb
    obtain ⟨hb1, hb2⟩ := List.mem_filter.mp hb
    have := (hag a b ha' (by simpa using hb1) (Ne.symm (by simpa using hb2))).2
    simp only [absM, RouteMap.r, Dict.get2] at this
    rw [this]
    rfl

/-- **gen_routes_val_eq**: for EVERY connection table (also one on which the source would raise `KeyError`): whenever the
    translation returns, the route it stores for two different layouts is the model's. -/
theorem gen_routes_val_eq (names : List String) (conn : List (List Nat)) (order : List Nat) (F : Nat)
    (hn : names.length ≠ 1) (ho : ∀ x, x < names.length → x ∈ order) (hF : names.length ≤ F)
    (v : Bool) (D : Dict (Dict (List Nat))) (hret : makeConnectionMap names conn order F = .ret v (some D)) :
    ∀ a b, a < names.length → b < names.length → a ≠ b → D.get2 a b = (routeMap names conn order).1.r a b := by
  obtain ⟨σf, hrun, hag, _⟩ := gen_core names conn order F hn ho hF
  rw [hrun] at hret
  unfold finalOf at hret
  have hD : D = σf.self_route_map := by
    split at hret
    · cases hret
    · split at hret
      · cases hret
      · cases hret; rfl
  intro a b ha hb hab
  rw [hD]
  exact (hag a b ha hb hab).2

/-- **gen_routes_deterministic**: what the translation of `_makeConnectionMap` returns and stores does not depend on the
    iteration order of the set `unvisitedNodes` (nor on the fuel, once sufficient): every rank, whatever its interpreter's
    string-hash seed, ends with the same flag and the same `self._route_map`.  (`route_deterministic` of Props/C06Extra.lean
    carried over to the generated function.) -/
theorem gen_routes_deterministic (names : List String) (hnd : names.Nodup) (conn : List (List Nat))
    (hc : ConnOK conn names.length) (hn : 2 ≤ names.length) (order₁ order₂ : List Nat)
    (h₁ : order₁.Perm (List.range names.length)) (h₂ : order₂.Perm (List.range names.length))
    (F₁ F₂ : Nat) (hF₁ : names.length ≤ F₁) (hF₂ : names.length ≤ F₂) :
    canon (makeConnectionMap names conn order₁ F₁) = canon (makeConnectionMap names conn order₂ F₂) := by
  have hk : KeysOK conn names.length := by
    intro a ha b hb
    exact ⟨(hc.sym a b ha hb).1, fun e => hc.irr a (e ▸ hb)⟩
  rw [gen_routes_eq names conn order₁ F₁ hn hk (mem_of_perm_range _ _ h₁) hF₁,
    gen_routes_eq names conn order₂ F₂ hn hk (mem_of_perm_range _ _ h₂) hF₂]
  obtain ⟨hr, hflag⟩ := C06.route_deterministic names hnd conn hc order₁ order₂ h₁ h₂
  rw [hflag]
  congr 2
  unfold modelTable
  apply List.map_congr_left
  intro a ha
  congr 1
  apply List.map_congr_left
  intro b hb
  rw [(hr a b (by simpa using ha) (by simpa using (List.mem_filter.mp hb).1)).1]

/-- **gen_single** (guard): with one layout the source returns `True` at once; `self._route_map` is never assigned. -/
theorem gen_single (names : List String) (conn : List (List Nat)) (order : List Nat) (F : Nat)
    (hn : names.length = 1) : canon (makeConnectionMap names conn order F) = .ret true none := by
  unfold makeConnectionMap
  rw [if_pos hn]
  rfl

/-- **gen_empty** (guard): with no layout the source raises `ValueError` (`max()` of an empty sequence). -/
theorem gen_empty (conn : List (List Nat)) (order : List Nat) (F : Nat) :
    canon (makeConnectionMap [] conn order F) = .raised "ValueError" := rfl

/-! ### concrete instances, cross-checked against the real function (/venv/bin/python, `PYTHONHASHSEED` 0, 1, 7) -/

/-- three layouts in a chain (names whose alphabetical order differs from the dict order), two iteration orders -/
example : canon (makeConnectionMap ["v_parallel", "poloidal", "flux_surface"] [[1], [0, 2], [1]] [0, 1, 2] 3) =
    .ret true (some [(0, [(1, [1]), (2, [1, 2])]), (1, [(0, [0]), (2, [2])]), (2, [(0, [1, 0]), (1, [1])])]) := by decide +kernel
example : canon (makeConnectionMap ["v_parallel", "poloidal", "flux_surface"] [[1], [0, 2], [1]] [2, 0, 1] 5) =
    .ret true (some [(0, [(1, [1]), (2, [1, 2])]), (1, [(0, [0]), (2, [2])]), (2, [(0, [1, 0]), (1, [1])])]) := by decide +kernel

/-- the 4-cycle `a — c — d — b — a` (dict order a, c, b, d): two equally long routes between `a` and `d`; the one through `b`
    is stored (`["b", "d"] < ["c", "d"]`), whatever node `min` returns first -/
example : canon (makeConnectionMap ["a", "c", "b", "d"] [[1, 2], [0, 3], [0, 3], [1, 2]] [0, 1, 2, 3] 4) =
    .ret true (some [(0, [(1, [1]), (2, [2]), (3, [2, 3])]), (1, [(0, [0]), (2, [0, 2]), (3, [3])]),
      (2, [(0, [0]), (1, [0, 1]), (3, [3])]), (3, [(0, [2, 0]), (1, [1]), (2, [2])])]) := by decide +kernel
example : canon (makeConnectionMap ["a", "c", "b", "d"] [[1, 2], [0, 3], [0, 3], [1, 2]] [3, 1, 2, 0] 4) =
    .ret true (some [(0, [(1, [1]), (2, [2]), (3, [2, 3])]), (1, [(0, [0]), (2, [0, 2]), (3, [3])]),
      (2, [(0, [0]), (1, [0, 1]), (3, [3])]), (3, [(0, [2, 0]), (1, [1]), (2, [2])])]) := by decide +kernel
/-- one unit of fuel less than layouts: the model artefact, not a result -/
example : canon (makeConnectionMap ["a", "c", "b", "d"] [[1, 2], [0, 3], [0, 3], [1, 2]] [0, 1, 2, 3] 3) = .outOfFuel := by
  decide +kernel

/-- an unconnected layout: the flag is `False`, the routes to and from it stay empty -/
example : canon (makeConnectionMap ["p", "q", "r"] [[1], [0], []] [0, 1, 2] 3) =
    .ret false (some [(0, [(1, [1]), (2, [])]), (1, [(0, [0]), (2, [])]), (2, [(0, []), (1, [])])]) := by decide +kernel

/-- the hypotheses of `gen_routes_deterministic` on the 4-cycle -/
example : canon (makeConnectionMap ["a", "c", "b", "d"] (connectionsOf 4 (fun hi lo => (hi, lo) ∈ [(1, 0), (2, 0), (3, 1), (3, 2)])) [0, 1, 2, 3] 4) =
    canon (makeConnectionMap ["a", "c", "b", "d"] (connectionsOf 4 (fun hi lo => (hi, lo) ∈ [(1, 0), (2, 0), (3, 1), (3, 2)])) [3, 1, 2, 0] 9) :=
  gen_routes_deterministic ["a", "c", "b", "d"] (by decide) _ (connectionsOf_ok _ _) (by decide) [0, 1, 2, 3] [3, 1, 2, 0]
    (by decide) (by decide) 4 9 (by decide) (by decide)

end PygyroVerif.C06Gen
