/-
C11 — V-parallel advection evaluates the interpolant at v − c·dt; boundary rule holds.

Model: `Model/VParAdv.lean` (`VParallelAdvection.step`, `general_v_parallel_advection_eval_step`).
`S` is the interpolant of the old nodal values (contract of `compute_interpolant`; the correspondence check feeds the
real interpolator's coefficients to `splineEval`).  `vMin = pts 0`, `vMax = pts (n-1)` as in `step`.
The grid-level clause ("for each (r,z,theta) line the gradient at that same global position") is C05's
`vpar_gridstep_wiring`; the harness of this property re-checks it on real grids.
-/
import Mathlib.Algebra.Order.Field.Rat
import Mathlib.Tactic.NormNum
import PygyroVerif.Lemmas.Advection

namespace PygyroVerif.C11

open PygyroVerif.VParAdv PygyroVerif.Advection

variable {K : Type*} [Field K] [LinearOrder K]

/-- Every node whose foot `v_i − c·dt` lies in `[vMin, vMax]` receives the interpolant at the foot — in all three
    boundary modes and for every fuel (the wrap loops do not run). -/
theorem vpar_step_formula (S : K → K) (edge : Edge) (pts : ℕ → K) (n : ℕ) (dt c r : K) (fuel : ℕ)
    (i : ℕ) (hi : i < n) (hlo : pts 0 ≤ pts i - c * dt) (hhi : pts i - c * dt ≤ pts (n - 1)) :
    (step S edge pts n dt c r fuel)[i]? = some (some (.num (S (pts i - c * dt)))) := by
  have h1 : ¬ pts i - c * dt < pts 0 := not_lt.mpr hlo
  have h2 : ¬ pts i - c * dt > pts (n - 1) := not_lt.mpr hhi
  simp only [step, List.getElem?_map, List.getElem?_range hi, Option.map_some]
  cases edge
  · simp [evalNode, h1, h2]
  · simp [evalNode, h1, h2]
  · simp [evalNode, periodicImage, wrapUp_of_not_lt h1, wrapDown_of_not_gt h2]

example : (step (fun x : ℚ => 2 * x) .periodic (fun i => (i : ℚ)) 4 1 (1 / 2) 3 0)[1]? =
    some (some (.num (2 * ((1 : ℕ) - 1 / 2 * 1)))) :=
  vpar_step_formula _ _ _ 4 1 (1 / 2) 3 0 1 (by norm_num) (by norm_num) (by norm_num)

/-- A foot outside `[vMin, vMax]` receives: the tag `FEQ r foot` (mode 'fEq'); `0` (mode 'null'); the interpolant at
    a point `w ∈ [vMin, vMax]` that differs from the foot by an integer number of widths `vMax − vMin` (mode
    'periodic', as soon as the fuel covers the distance — see `vpar_wrap_terminates`). -/
theorem vpar_boundary_rule [IsStrictOrderedRing K] (S : K → K) (vMin vMax r v : K) (hw : vMin < vMax)
    (hout : v < vMin ∨ v > vMax) :
    (∀ fuel, evalNode S .fEq vMin vMax r fuel v = some (.feq r v)) ∧
    (∀ fuel, evalNode S .null vMin vMax r fuel v = some (.num 0)) ∧
    (∀ N : ℕ, vMin - v ≤ N * (vMax - vMin) → v - vMax ≤ N * (vMax - vMin) → ∀ fuel, N ≤ fuel →
      ∃ w, evalNode S .periodic vMin vMax r fuel v = some (.num (S w)) ∧ vMin ≤ w ∧ w ≤ vMax ∧
        ∃ k : ℤ, w = v + k * (vMax - vMin)) := by
  refine ⟨fun _ => by simp [evalNode, hout], fun _ => by simp [evalNode, hout], ?_⟩
  intro N h1 h2 fuel hf
  obtain ⟨w, e, lo, hi, hk, _⟩ := periodicImage_spec hw N v h1 h2
  exact ⟨w, by simp [evalNode, periodicImage_fuel_le N v w e fuel hf], lo, hi, hk⟩

example : ∃ w : ℚ, evalNode (fun x : ℚ => x) .periodic 0 3 1 5 (-7) = some (.num w) ∧ 0 ≤ w ∧ w ≤ 3 := by
  obtain ⟨_, _, h⟩ := vpar_boundary_rule (fun x : ℚ => x) 0 3 1 (-7) (by norm_num) (Or.inl (by norm_num))
  obtain ⟨w, e, lo, hi, _⟩ := h 3 (by norm_num) (by norm_num) 5 (by norm_num)
  exact ⟨w, e, lo, hi⟩

/-- Termination of the two `while` loops of the periodic mode: for `vMin < vMax` (and an Archimedean field, e.g. ℚ or
    the reals) some finite number of iterations suffices for every foot, and the result does not depend on the fuel. -/
theorem vpar_wrap_terminates [IsStrictOrderedRing K] [Archimedean K] (vMin vMax : K) (hw : vMin < vMax) (v : K) :
    ∃ (N : ℕ) (w : K), vMin ≤ w ∧ w ≤ vMax ∧ ∀ fuel, N ≤ fuel → periodicImage vMin vMax fuel v = some w := by
  have hd : 0 < vMax - vMin := sub_pos.mpr hw
  obtain ⟨n1, hn1⟩ := exists_nat_ge ((vMin - v) / (vMax - vMin))
  obtain ⟨n2, hn2⟩ := exists_nat_ge ((v - vMax) / (vMax - vMin))
  have h1 : vMin - v ≤ (max n1 n2 : ℕ) * (vMax - vMin) := by
    rw [div_le_iff₀ hd] at hn1
    have : (n1 : K) ≤ (max n1 n2 : ℕ) := by exact_mod_cast le_max_left n1 n2
    nlinarith
  have h2 : v - vMax ≤ (max n1 n2 : ℕ) * (vMax - vMin) := by
    rw [div_le_iff₀ hd] at hn2
    have : (n2 : K) ≤ (max n1 n2 : ℕ) := by exact_mod_cast le_max_right n1 n2
    nlinarith
  obtain ⟨w, e, lo, hi, _⟩ := periodicImage_spec hw _ v h1 h2
  exact ⟨max n1 n2, w, lo, hi, fun fuel hf => periodicImage_fuel_le _ v w e fuel hf⟩

example : ∃ (N : ℕ) (w : ℚ), (-4 : ℚ) ≤ w ∧ w ≤ 4 ∧ ∀ fuel, N ≤ fuel → periodicImage (-4) 4 fuel 1000 = some w :=
  vpar_wrap_terminates (-4) 4 (by norm_num) 1000

/-- A zero shift reproduces the data: if `c·dt = 0`, the nodes lie between the first and the last one, and the
    interpolant reproduces the nodal values (C08 `interp_reproduces_1d`), the step leaves `f` unchanged. -/
theorem vpar_zero_shift_identity (S : K → K) (edge : Edge) (pts f : ℕ → K) (n : ℕ) (dt c r : K) (fuel : ℕ)
    (h0 : c * dt = 0) (hpts : ∀ i, i < n → pts 0 ≤ pts i ∧ pts i ≤ pts (n - 1))
    (hS : ∀ i, i < n → S (pts i) = f i) :
    step S edge pts n dt c r fuel = (List.range n).map (fun i => some (.num (f i))) := by
  apply List.ext_getElem?
  intro i
  by_cases hi : i < n
  · have h := vpar_step_formula S edge pts n dt c r fuel i hi (by rw [h0, sub_zero]; exact (hpts i hi).1)
      (by rw [h0, sub_zero]; exact (hpts i hi).2)
    rw [h, h0, sub_zero, hS i hi]
    simp [List.getElem?_range hi]
  · have hi' : n ≤ i := not_lt.mp hi
    simp [step, hi']

example : step (fun x : ℚ => x * x) .fEq (fun i => (i : ℚ)) 3 0 5 1 0 =
    (List.range 3).map (fun i => some (.num (((i : ℚ)) * i))) :=
  vpar_zero_shift_identity _ _ _ (fun i => (i : ℚ) * i) 3 0 5 1 0 (by norm_num)
    (fun i hi => ⟨by positivity, by
      have : (i : ℚ) ≤ 2 := by exact_mod_cast Nat.le_of_lt_succ hi
      simpa using this⟩) (fun i _ => rfl)

/-- Inside the domain the step is linear in the data (through the spline coefficients, which depend linearly on the
    data by the interpolation contract): the value for the coefficient vector `a·c₁ + c₂` is `a·value₁ + value₂`. -/
theorem vpar_linear_inside (t : ℕ → K) (nk degree : ℕ) (c1 c2 : ℕ → K) (a : K) (edge : Edge) (pts : ℕ → K) (n : ℕ)
    (dt c r : K) (fuel : ℕ) (i : ℕ) (hi : i < n) (hlo : pts 0 ≤ pts i - c * dt)
    (hhi : pts i - c * dt ≤ pts (n - 1)) :
    (step (splineEval t nk degree (fun j => a * c1 j + c2 j)) edge pts n dt c r fuel)[i]? =
      some (some (.num (a * splineEval t nk degree c1 (pts i - c * dt) +
        splineEval t nk degree c2 (pts i - c * dt)))) := by
  rw [vpar_step_formula _ edge pts n dt c r fuel i hi hlo hhi, splineEval_linear]

example : (step (splineEval (fun i => (i : ℚ)) 4 1 (fun j => 2 * (j : ℚ) + 1)) .null (fun i => (i : ℚ) + 1) 2 1 0 0 0)[0]? =
    some (some (.num (2 * splineEval (fun i => (i : ℚ)) 4 1 (fun j => (j : ℚ)) (((0 : ℕ) : ℚ) + 1 - 0 * 1) +
      splineEval (fun i => (i : ℚ)) 4 1 (fun _ => 1) (((0 : ℕ) : ℚ) + 1 - 0 * 1)))) :=
  vpar_linear_inside _ 4 1 (fun j => (j : ℚ)) (fun _ => 1) 2 .null _ 2 1 0 0 0 0 (by norm_num) (by norm_num)
    (by norm_num)

end PygyroVerif.C11
