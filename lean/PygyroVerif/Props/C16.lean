/-
C16 — Density is the exact velocity integral of the interpolated distribution.

Model: `PygyroVerif/Model/Density.lean` (transcription of `get_perturbed_rho`, `get_rho`,
`DensityFinder.getPerturbedRho`, `DensityFinder.getRho`).
-/
import PygyroVerif.Model.Density
import PygyroVerif.Lemmas.Poisson
import Mathlib.Algebra.Order.Field.Rat
import Mathlib.Tactic.NormNum

namespace PygyroVerif.C16

open Finset PygyroVerif.Density PygyroVerif.PoissonLemmas

variable {K : Type*} [Field K]

/-- the value at the global point `(R, Z, k)` that the property states: the quadrature sum of
    `f - f_eq` with the equilibrium row of the point's *own global* radius -/
def pertSpec (q : ℕ → K) (nc : ℕ) (fEq : ℕ → ℕ → K) (F : ℕ → ℕ → ℕ → ℕ → K) (R Z k : ℕ) : K :=
  ∑ l ∈ range nc, q l * (F R Z k l - fEq R l)

def rhoSpec (q : ℕ → K) (nc : ℕ) (F : ℕ → ℕ → ℕ → ℕ → K) (R Z k : ℕ) : K :=
  ∑ l ∈ range nc, q l * F R Z k l

/-- The loops of `get_perturbed_rho` / `get_rho`, called the way `DensityFinder` calls them on a rank whose
    block starts at `(rStart, zStart)`, store at local `(i,j,k)` the quadrature sum of the global point
    `(rStart+i, zStart+j, k)`; the equilibrium row is the one of the **global** radial index `rStart+i`. -/
theorem density_is_quadrature (q : ℕ → K) (nc : ℕ) (fEq : ℕ → ℕ → K) (F : ℕ → ℕ → ℕ → ℕ → K)
    (rStart zStart i j k : ℕ) :
    getPerturbedRhoLocal q nc fEq F rStart zStart i j k = pertSpec q nc fEq F (rStart + i) (zStart + j) k ∧
    getRhoLocal q nc F rStart zStart i j k = rhoSpec q nc F (rStart + i) (zStart + j) k := by
  constructor
  · simp only [getPerturbedRhoLocal, getPerturbedRhoKernel, pertLoop, feqRows, localBlock, pertSpec]
    exact foldl_range_add _ nc
  · simp only [getRhoLocal, getRhoKernel, rhoLoop, localBlock, rhoSpec]
    exact foldl_range_add _ nc

/-- example data at `ℚ` -/
def exQ : ℕ → ℚ := fun l => (l + 1 : ℚ) / 2
def exFeq : ℕ → ℕ → ℚ := fun r l => (r + l : ℚ)
def exF : ℕ → ℕ → ℕ → ℕ → ℚ := fun r z k l => (r * z + k + l : ℚ)
def exG : ℕ → ℕ → ℕ → ℕ → ℚ := fun r z k l => (r + 2 * z + k * l : ℚ)

example : getPerturbedRhoLocal exQ 2 exFeq exF 1 2 0 1 1 = pertSpec exQ 2 exFeq exF 1 3 1 :=
  (density_is_quadrature _ _ _ _ 1 2 0 1 1).1

/-- The value at a global point does not depend on how `r` and `z` are split over processes: two ranks
    (of possibly different decompositions) that address the same global `(R,Z,k)` obtain the same number,
    and it is the serial one (`rStart = zStart = 0`). -/
theorem density_decomposition_independent (q : ℕ → K) (nc : ℕ) (fEq : ℕ → ℕ → K) (F : ℕ → ℕ → ℕ → ℕ → K)
    (rs zs i j rs' zs' i' j' k : ℕ) (hr : rs + i = rs' + i') (hz : zs + j = zs' + j') :
    getPerturbedRhoLocal q nc fEq F rs zs i j k = getPerturbedRhoLocal q nc fEq F rs' zs' i' j' k ∧
    getRhoLocal q nc F rs zs i j k = getRhoLocal q nc F rs' zs' i' j' k ∧
    getPerturbedRhoLocal q nc fEq F rs zs i j k = getPerturbedRhoLocal q nc fEq F 0 0 (rs + i) (zs + j) k := by
  simp only [(density_is_quadrature q nc fEq F _ _ _ _ k).1, (density_is_quadrature q nc fEq F _ _ _ _ k).2,
    hr, hz, Nat.zero_add, and_self]

example : (2 : ℕ) + 1 = 0 + 3 ∧ (4 : ℕ) + 0 = 1 + 3 := by decide

/-- `getRho` is linear in the distribution function. -/
theorem density_linear (q : ℕ → K) (nc : ℕ) (F G : ℕ → ℕ → ℕ → ℕ → K) (a b : K) (rs zs i j k : ℕ) :
    getRhoLocal q nc (fun r z t l => a * F r z t l + b * G r z t l) rs zs i j k =
      a * getRhoLocal q nc F rs zs i j k + b * getRhoLocal q nc G rs zs i j k := by
  simp only [(density_is_quadrature q nc (fun _ _ => 0) _ rs zs i j k).2, rhoSpec, Finset.mul_sum,
    ← Finset.sum_add_distrib]
  exact Finset.sum_congr rfl (fun l _ => by ring)

/-- The perturbed density is the density of `f` minus the density of the equilibrium (affine in `f`;
    differences of perturbed densities are linear in the difference of the distributions). -/
theorem density_perturbed_affine (q : ℕ → K) (nc : ℕ) (fEq : ℕ → ℕ → K) (F : ℕ → ℕ → ℕ → ℕ → K)
    (rs zs i j k : ℕ) :
    getPerturbedRhoLocal q nc fEq F rs zs i j k =
      getRhoLocal q nc F rs zs i j k - getRhoLocal q nc (fun r _ _ l => fEq r l) rs zs i j k := by
  simp only [(density_is_quadrature q nc fEq _ rs zs i j k).1, (density_is_quadrature q nc fEq _ rs zs i j k).2,
    pertSpec, rhoSpec, ← Finset.sum_sub_distrib]
  exact Finset.sum_congr rfl (fun l _ => by ring)

example : getRhoLocal exQ 3 (fun r z t l => 2 * exF r z t l + 3 * exG r z t l) 1 1 0 0 1 =
    2 * getRhoLocal exQ 3 exF 1 1 0 0 1 + 3 * getRhoLocal exQ 3 exG 1 1 0 0 1 :=
  density_linear _ _ _ _ 2 3 1 1 0 0 1

/-- The perturbed density of the unperturbed equilibrium is exactly zero, on every rank. -/
theorem density_zero_for_equilibrium (q : ℕ → K) (nc : ℕ) (fEq : ℕ → ℕ → K) (F : ℕ → ℕ → ℕ → ℕ → K)
    (hF : ∀ r z t l, l < nc → F r z t l = fEq r l) (rs zs i j k : ℕ) :
    getPerturbedRhoLocal q nc fEq F rs zs i j k = 0 := by
  rw [(density_is_quadrature q nc fEq F rs zs i j k).1, pertSpec]
  exact Finset.sum_eq_zero (fun l hl => by rw [hF _ _ _ _ (Finset.mem_range.mp hl), sub_self, mul_zero])

example : ∀ r z t l : ℕ, l < 4 → (fun r _ _ l => exFeq r l) r z t l = exFeq r l :=
  fun _ _ _ _ _ => rfl

/-- Exactness in the spline space.  `M i j = B_j(v_i)` is the collocation matrix at the `v` nodes and
    `I j = ∫ B_j`.  If the quadrature coefficients satisfy `Mᵀ w = I` (contract of
    `get_quadrature_coefficients`, property C09) then for the coefficients `c` of *the* interpolating spline of
    the line `F(R,Z,k,·)` (`M c = u`) the density loop returns `Σ_j I_j c_j`, the exact integral of that
    spline; the perturbed density returns the exact integral of the interpolant of `f - f_eq(R,·)`. -/
theorem density_exact_in_spline_space (n : ℕ) (M : ℕ → ℕ → K) (w I : ℕ → K)
    (hw : ∀ j, j < n → ∑ i ∈ range n, M i j * w i = I j)
    (fEq : ℕ → ℕ → K) (F : ℕ → ℕ → ℕ → ℕ → K) (rs zs i j k : ℕ)
    (c ceq : ℕ → K)
    (hc : ∀ l, l < n → ∑ m ∈ range n, M l m * c m = F (rs + i) (zs + j) k l)
    (hceq : ∀ l, l < n → ∑ m ∈ range n, M l m * ceq m = fEq (rs + i) l) :
    getRhoLocal w n F rs zs i j k = ∑ m ∈ range n, I m * c m ∧
    getPerturbedRhoLocal w n fEq F rs zs i j k = ∑ m ∈ range n, I m * (c m - ceq m) := by
  constructor
  · rw [(density_is_quadrature w n fEq F rs zs i j k).2, rhoSpec]
    exact quad_duality n M w I c _ hw hc
  · rw [(density_is_quadrature w n fEq F rs zs i j k).1, pertSpec]
    refine quad_duality n M w I (fun m => c m - ceq m) _ hw (fun l hl => ?_)
    rw [← hc l hl, ← hceq l hl, ← Finset.sum_sub_distrib]
    exact Finset.sum_congr rfl (fun m _ => by ring)

/-- concrete instance of the hypotheses: degree-1 collocation (identity) on two nodes, `w = I`, `c = u` -/
example : let M : ℕ → ℕ → ℚ := fun i j => if i = j then 1 else 0
    let w : ℕ → ℚ := fun _ => 1/2
    (∀ j, j < 2 → ∑ i ∈ range 2, M i j * w i = w j) := by
  intro M w j hj
  have h : j = 0 ∨ j = 1 := by omega
  rcases h with rfl | rfl <;> simp [M, w]

/-- negative witness (the defect class the property is about): looking the equilibrium row up by the
    *local* radial index gives a different number on a rank whose block does not start at radius 0 -/
example : getPerturbedRhoKernel (fun _ => (1 : ℚ)) 1 (fun r _ => (r : ℚ)) (localBlock (fun r _ _ _ => (r : ℚ)) 1 0) 0 0 0
    ≠ getPerturbedRhoLocal (fun _ => (1 : ℚ)) 1 (fun r _ => (r : ℚ)) (fun r _ _ _ => (r : ℚ)) 1 0 0 0 0 := by
  simp [getPerturbedRhoLocal, getPerturbedRhoKernel, pertLoop, feqRows, localBlock]

end PygyroVerif.C16
