/-
Driver for the layout-handler model (C01, also used by C02/C06).  Core Lean only.
-/
import PygyroVerif.DriverUtil
import PygyroVerif.Model.Handler

open Lean PygyroVerif PygyroVerif.DriverUtil PygyroVerif.Handler

def handlerOf (j : Json) : R Handler := do
  let np ← fNatList j "nprocs"
  let ext ← fNatList j "ext"
  let names ← fList strOf j "names"
  let orders ← fList natList j "orders"
  pure { nprocs := np, ext := ext, names := names, orders := orders }

/-- global flat index (C order over `ext`) of a global multi-index -/
def flatG (ext g : List Nat) : Nat := (View.mk 0 ext (cStrides ext)).addr g

/-- all multi-indices of a box in row-major order -/
def boxIdx : List Nat → List (List Nat)
  | [] => [[]]
  | n :: ns => (List.range n).flatMap (fun i => (boxIdx ns).map (fun r => i :: r))

/-- the block of the global array G[g] = flatG g + salt that rank `c` holds in layout `L` -/
def blockOf (L : Layout) (c : List Nat) (salt : Int) : List Int :=
  (boxIdx (L.shape c)).map (fun idx => (flatG L.ext (L.toGlobal c idx) : Int) + salt)

def fillPrefix (a : Array Int) (vals : List Int) : Array Int :=
  (vals.zipIdx).foldl (fun acc (p : Int × Nat) => acc.setIfInBounds p.2 p.1) a

def jRoute (h : Handler) (l : List Nat) : Json := jList (fun i => Json.str (h.names.getD i "?")) l

def handle (j : Json) : R Json := do
  let op ← fStr j "op"
  match op with
  | "handler" =>
    let h ← handlerOf j
    let tie ← fNatList j "tie"
    let (rm, full) := h.routes tie
    let n := h.nLayouts
    let routes := (List.range n).map (fun a => (List.range n).map (fun b => if a = b then Json.null else jRoute h (rm.r a b)))
    pure <| obj [("connections", jList (jRoute h) h.connections),
                 ("buffer", jNats ((List.range h.nRanks).map (fun r => h.bufferSize (coordsOf h.nprocs r)))),
                 ("coords", jList jNats ((List.range h.nRanks).map (coordsOf h.nprocs))),
                 ("connected", toJson full),
                 ("routes", Json.arr (routes.map (fun r => Json.arr r.toArray)).toArray)]
  | "transpose" =>
    let h ← handlerOf j
    let tie ← fNatList j "tie"
    let src ← fStr j "src"; let dst ← fStr j "dst"
    let useBuf ← fBool j "buf"; let fixed ← fBool j "fixed"
    let extra ← fNat j "extra"      -- buffers have bufferSize + extra elements
    let salt ← fInt j "salt"
    let (rm, full) := h.routes tie
    if !full then return obj [("refused", Json.str "runtime-error: not connected")]
    let some iS := h.indexOf src | throw "unknown source layout"
    let some iD := h.indexOf dst | throw "unknown dest layout"
    let n := h.nRanks
    let mk := fun (fillv : Int) => (List.range n).map (fun r => Array.replicate (h.bufferSize (coordsOf h.nprocs r) + extra) fillv)
    let srcs := (List.range n).map (fun r =>
      let c := coordsOf h.nprocs r
      fillPrefix (Array.replicate (h.bufferSize c + extra) (-1)) (blockOf (h.layoutAt iS) c salt))
    let w : World Int := #[srcs.toArray, (mk (-2)).toArray, (mk (-3)).toArray]
    match transposeWorld fixed h rm iS iD useBuf w with
    | .error e => pure <| obj [("refused", Json.str e)]
    | .ok w' =>
      let outD := (List.range n).map (fun r => ((w'.get 1 r).toList.take ((h.layoutAt iD).size (coordsOf h.nprocs r))))
      let outS := (List.range n).map (fun r => ((w'.get 0 r).toList.take ((h.layoutAt iS).size (coordsOf h.nprocs r))))
      let expD := (List.range n).map (fun r => blockOf (h.layoutAt iD) (coordsOf h.nprocs r) salt)
      pure <| obj [("dest", jList jInts outD), ("source", jList jInts outS),
                   ("holds", toJson (outD == expD)), ("route", jRoute h (rm.r iS iD))]
  | _ => throw s!"unknown op {op}"

def main : IO Unit := serve handle
