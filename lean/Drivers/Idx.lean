/-
Driver for the core-Lean index / state models (no Mathlib below this file).
Run: `lake env lean --run Drivers/Idx.lean`, one JSON request per line.
-/
import PygyroVerif.DriverUtil
import PygyroVerif.Model.Blocks
import PygyroVerif.Model.Layout

open Lean PygyroVerif PygyroVerif.DriverUtil

def layoutOf (j : Json) : R Layout := do
  let np ← fNatList j "nprocs"
  let ord ← fNatList j "ord"
  let ext ← fNatList j "ext"
  pure (Layout.make np ord ext)

def handle (j : Json) : R Json := do
  let op ← fStr j "op"
  match op with
  | "split" =>
    let n ← fNat j "n"; let p ← fNat j "p"
    pure <| obj [("starts", jNats (mpiStarts n p)), ("lengths", jNats (mpiLengths n p)),
                 ("max", jNat (maxBlock n p)), ("last", jNat (blockStart n p p))]
  | "layout" =>
    let L ← layoutOf j
    let c ← fNatList j "coords"
    pure <| obj [("starts", jNats (L.starts c)), ("ends", jNats (L.ends c)), ("shape", jNats (L.shape c)),
                 ("max_shape", jNats L.maxShape), ("full_shape", jNats L.fullShape),
                 ("size", jNat (L.size c)), ("max_size", jNat L.maxSize), ("inv", jNats L.invOrd),
                 ("nprocs", jNats L.nprocs),
                 ("mpi_starts", jList jNats ((List.range L.ndims).map L.mpiStartsAt)),
                 ("mpi_lengths", jList jNats ((List.range L.ndims).map L.mpiLengthsAt))]
  | "accessors" =>
    let L ← layoutOf j
    let c ← fNatList j "coords"
    let idx ← fNatList j "idx"
    pure <| obj [("global", jNats (L.toGlobal c idx)),
                 ("idxvals", jList jNats ((List.range L.ndims).map (L.globalIdxVals c))),
                 ("eta", jList jNats ((List.range L.ndims).map (L.etaIdx c)))]
  | _ => throw s!"unknown op {op}"

def main : IO Unit := serve handle
