/-
Driver for the diagnostics model (C17) at K := ℚ and for the checkpoint / restart bookkeeping models (C18).
`lake env lean --run Drivers/C17.lean`, one JSON request per line; rationals are "num/den" strings.

C17 ops
  diag    {ord, ps, r, q, z, v, re, im, kinds:[…], coords:[[…]…]}   re/im: the global field, flat, physical C order
          -> {local:[[value per kind] per coords], serial:[per kind], npts:[points per coords]}
  minmax  {nd, ext, ord, ps, vals, sel:[[ax,fix]…], coords}            vals: global real field, flat, physical C order
          -> {min:[per coords: "q"|null(+inf)], max:[… null(-inf)], rmin, rmax, gmin, gmax, lmin:[…|"raise"], lmax}
  slot    {t:{int|float}, dt:{int|float}, saveStep} -> {slot: int|null}
  weights {x:[…]} -> {w:[…]}
C18 ops
  roundtrip {ext, ord, psW, psR, coordsR}  -> {blocks:[[flat global offsets read by each reader]]}
  names     {times:[…]}                    -> {names:[…], latest: string|null, parsed: int|null, by_numeric: int|null}
-/
import PygyroVerif.DriverUtil
import PygyroVerif.Model.Diagnostics
-- import PygyroVerif.Model.Checkpoint
import Mathlib.Algebra.Order.Field.Rat

open Lean PygyroVerif PygyroVerif.DriverUtil PygyroVerif.Diag

def fnR (l : List Rat) : ℕ → Rat := let a := l.toArray; fun i => a.getD i 0

/-- C-order flat offset of a physical index in an array of extents `ext` -/
def ravelIdx : List ℕ → List ℕ → ℕ
  | i :: is, _ :: ns => i * ns.foldl (· * ·) 1 + ravelIdx is ns
  | _, _ => 0

def kindOf (s : String) : R Kind :=
  match s with
  | "l2" => pure .l2
  | "l1" => pure .l1
  | "nPart" => pure .nPart
  | "ke" => pure .ke
  | _ => throw s!"unknown kind {s}"

def gridsOf (j : Json) : R (Grids Rat) := do
  let r ← fRatList j "r"
  let q ← fRatList j "q"
  let z ← fRatList j "z"
  let v ← fRatList j "v"
  pure { r := fnR r, q := fnR q, z := fnR z, v := fnR v, nr := r.length, nq := q.length, nz := z.length, nv := v.length }

def jTop : WithTop Rat → Json
  | none => Json.null
  | some x => jRat x

def jBot : WithBot Rat → Json
  | none => Json.null
  | some x => jRat x

def selOf (j : Json) : R (List (ℕ × ℕ)) := do
  let l ← fList natList j "sel"
  l.mapM fun p => match p with
    | [a, b] => pure (a, b)
    | _ => throw "sel entries are [axis, fixValue]"

def pyNumOf (j : Json) : R PyNum := do
  match j.getObjVal? "int" with
  | .ok v => pure (.int (← intOf v))
  | .error _ => pure (.float (← fRat j "float"))

def handleC17 (op : String) (j : Json) : R Json := do
  match op with
  | "diag" =>
    let ord ← fNatList j "ord"
    let ps ← fNatList j "ps"
    let e ← gridsOf j
    let re := fnR (← fRatList j "re")
    let im := fnR (← fRatList j "im")
    let kinds ← (← fList strOf j "kinds").mapM kindOf
    let coords ← fList natList j "coords"
    let nd := ord.length
    let ext := e.ext nd
    let G : List ℕ → Rat × Rat := fun idx => let o := ravelIdx idx ext; (re o, im o)
    let loc := coords.map fun c => kinds.map fun k => localDiag k ord ps c e G
    let ser := kinds.map fun k => serialQuad k nd e G
    let npts := coords.map fun c => (boxA (localAxes ext ord ps c)).length
    pure <| obj [("local", jList jRats loc), ("serial", jRats ser), ("npts", jNats npts)]
  | "minmax" =>
    let nd ← fNat j "nd"
    let ext ← fNatList j "ext"
    let ord ← fNatList j "ord"
    let ps ← fNatList j "ps"
    let vals := fnR (← fRatList j "vals")
    let sel ← selOf j
    let coords ← fList natList j "coords"
    let G : List ℕ → Rat := fun idx => vals (ravelIdx idx ext)
    let mins := coords.map fun c => minContribution nd (localAxes ext ord ps c) sel G
    let maxs := coords.map fun c => maxContribution nd (localAxes ext ord ps c) sel G
    let gax := applySel (globalAxes ext (List.range nd)) sel
    let lmin := coords.map fun c => match localMin nd (localAxes ext ord ps c) G with
      | none => Json.str "raise"
      | some m => jTop m
    let lmax := coords.map fun c => match localMax nd (localAxes ext ord ps c) G with
      | none => Json.str "raise"
      | some m => jBot m
    pure <| obj [("min", Json.arr (mins.map jTop).toArray), ("max", Json.arr (maxs.map jBot).toArray),
                 ("rmin", jTop (reduceAll min ⊤ mins)), ("rmax", jBot (reduceAll max ⊥ maxs)),
                 ("gmin", jTop (blockFold min ⊤ (fun (x : Rat) => (x : WithTop Rat)) nd gax G)),
                 ("gmax", jBot (blockFold max ⊥ (fun (x : Rat) => (x : WithBot Rat)) nd gax G)),
                 ("lmin", Json.arr lmin.toArray), ("lmax", Json.arr lmax.toArray)]
  | "slot" =>
    let t ← pyNumOf (← field j "t")
    let dt ← pyNumOf (← field j "dt")
    let s ← fInt j "saveStep"
    pure <| obj [("slot", match collectSlot t dt s with | some i => jInt i | none => Json.null)]
  | "weights" =>
    let x ← fRatList j "x"
    pure <| obj [("w", jRats ((List.range x.length).map (trapMult (fnR x) x.length)))]
  | _ => throw s!"unknown op {op}"

def handle (j : Json) : R Json := do
  let op ← fStr j "op"
  match op with
  | _ => handleC17 op j

def main : IO Unit := serve handle
