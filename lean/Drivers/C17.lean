/-
Driver for the diagnostics model (C17) at K := ℚ and for the checkpoint / restart bookkeeping models (C18).
`lake env lean --run Drivers/C17.lean`, one JSON request per line; rationals are "num/den" strings.

C17 ops
  diag    {ord, ps, r, q, z, v, re, im, kinds:[…], coords:[[…]…]}   re/im: the global field, flat, physical C order
          -> {local:[[value per kind] per coords], serial:[per kind], npts:[points per coords]}
  minmax  {nd, ext, ord, ps, vals, sel:[[ax,fix]…], coords}            vals: global real field, flat, physical C order
          -> {min:[per coords: "q"|null(+inf)], max:[… null(-inf)], rmin, rmax, gmin, gmax, lmin:[…|"raise"], lmax}
  slot    {t:{int|float}, dt:{int|float}, saveStep} -> {slot: int|null}
  weights {x:[…]} -> {w:[…]}
C18 ops
  roundtrip {dimsW:[[n,p]…], dimsR:[[n,p']…], order:[[c…]…], readers:[[c'…]…]}
            -> {blocks:[[what each reader gets, C order: global flat offset | null (never written)]], shapes:[[…]]}
  names     {folder, conv, times:[…]} -> {names:[…], latest: string|null, time: int|null}
            latest = first name of maximal parsed time (latestByTime, fix F10), time = the time parsed from it
  loop      {program:{pre,cond,body,post} (TimeLoop.json), saveStep, tEnd, dt, loadable, fileTime, clock:[bool…], fuel}
            -> {t, ti, tN, nLoops, startPrint, crashed, events:[["ckpt",isPhi,t] | ["collect",t] | ["reduce"] | ["lines",lo,hi]]}
  constants {data:[[key, null | [dep…]]…]}  (file order; null = literal, list = string expression over these keys)
  constants_rp {data:[[key, null | [dep…], int]…], defaults:[[key,int]…]}  (the parser with the setters of rMin / rMax and the final assignment of rp)
            -> {ok: bool, sweeps: [[keys resolved in sweep 1], …]}
-/
import PygyroVerif.DriverUtil
import PygyroVerif.Model.Diagnostics
import PygyroVerif.Model.Checkpoint
import Mathlib.Algebra.Order.Field.Rat

open Lean PygyroVerif PygyroVerif.DriverUtil PygyroVerif.Diag

def fnR (l : List Rat) : ℕ → Rat := let a := l.toArray; fun i => a.getD i 0

/-- C-order flat offset of a physical index in an array of extents `ext` -/
def ravelIdx : List ℕ → List ℕ → ℕ
  | i :: is, _ :: ns => i * ns.foldl (· * ·) 1 + ravelIdx is ns
  | _, _ => 0

def kindOf (s : String) : R Kind :=
  match s with
  | "l2" => pure .l2
  | "l1" => pure .l1
  | "nPart" => pure .nPart
  | "ke" => pure .ke
  | _ => throw s!"unknown kind {s}"

def gridsOf (j : Json) : R (Grids Rat) := do
  let r ← fRatList j "r"
  let q ← fRatList j "q"
  let z ← fRatList j "z"
  let v ← fRatList j "v"
  pure { r := fnR r, q := fnR q, z := fnR z, v := fnR v, nr := r.length, nq := q.length, nz := z.length, nv := v.length }

def jTop : WithTop Rat → Json
  | none => Json.null
  | some x => jRat x

def jBot : WithBot Rat → Json
  | none => Json.null
  | some x => jRat x

def selOf (j : Json) : R (List (ℕ × ℕ)) := do
  let l ← fList natList j "sel"
  l.mapM fun p => match p with
    | [a, b] => pure (a, b)
    | _ => throw "sel entries are [axis, fixValue]"

def pyNumOf (j : Json) : R PyNum := do
  match j.getObjVal? "int" with
  | .ok v => pure (.int (← intOf v))
  | .error _ => pure (.float (← fRat j "float"))

def handleC17 (op : String) (j : Json) : R Json := do
  match op with
  | "diag" =>
    let ord ← fNatList j "ord"
    let ps ← fNatList j "ps"
    let e ← gridsOf j
    let re := fnR (← fRatList j "re")
    let im := fnR (← fRatList j "im")
    let kinds ← (← fList strOf j "kinds").mapM kindOf
    let coords ← fList natList j "coords"
    let nd := ord.length
    let ext := e.ext nd
    let G : List ℕ → Rat × Rat := fun idx => let o := ravelIdx idx ext; (re o, im o)
    let loc := coords.map fun c => kinds.map fun k => localDiag k ord ps c e G
    let ser := kinds.map fun k => serialQuad k nd e G
    let npts := coords.map fun c => (boxA (localAxes ext ord ps c)).length
    pure <| obj [("local", jList jRats loc), ("serial", jRats ser), ("npts", jNats npts)]
  | "minmax" =>
    let nd ← fNat j "nd"
    let ext ← fNatList j "ext"
    let ord ← fNatList j "ord"
    let ps ← fNatList j "ps"
    let vals := fnR (← fRatList j "vals")
    let sel ← selOf j
    let coords ← fList natList j "coords"
    let G : List ℕ → Rat := fun idx => vals (ravelIdx idx ext)
    let mins := coords.map fun c => minContribution nd (localAxes ext ord ps c) sel G
    let maxs := coords.map fun c => maxContribution nd (localAxes ext ord ps c) sel G
    let gax := applySel (globalAxes ext (List.range nd)) sel
    let lmin := coords.map fun c => match localMin nd (localAxes ext ord ps c) G with
      | none => Json.str "raise"
      | some m => jTop m
    let lmax := coords.map fun c => match localMax nd (localAxes ext ord ps c) G with
      | none => Json.str "raise"
      | some m => jBot m
    pure <| obj [("min", Json.arr (mins.map jTop).toArray), ("max", Json.arr (maxs.map jBot).toArray),
                 ("rmin", jTop (reduceAll min ⊤ mins)), ("rmax", jBot (reduceAll max ⊥ maxs)),
                 ("gmin", jTop (blockFold min ⊤ (fun (x : Rat) => (x : WithTop Rat)) nd gax G)),
                 ("gmax", jBot (blockFold max ⊥ (fun (x : Rat) => (x : WithBot Rat)) nd gax G)),
                 ("lmin", Json.arr lmin.toArray), ("lmax", Json.arr lmax.toArray)]
  | "slot" =>
    let t ← pyNumOf (← field j "t")
    let dt ← pyNumOf (← field j "dt")
    let s ← fInt j "saveStep"
    pure <| obj [("slot", match collectSlot t dt s with | some i => jInt i | none => Json.null)]
  | "weights" =>
    let x ← fRatList j "x"
    pure <| obj [("w", jRats ((List.range x.length).map (trapMult (fnR x) x.length)))]
  | _ => throw s!"unknown op {op}"

/-! ### C18 -/

open PygyroVerif.Ckpt

def pairList (j : Json) (k : String) : R (List (Nat × Nat)) := do
  let l ← fList natList j k
  l.mapM fun p => match p with
    | [a, b] => pure (a, b)
    | _ => throw s!"{k}: entries are pairs"

/-- all local indices of a block, C order -/
def boxIdx : List Nat → List (List Nat)
  | [] => [[]]
  | n :: ns => (List.range n).flatMap fun i => (boxIdx ns).map (i :: ·)

def varOf (s : String) : R Var :=
  match s with
  | "t" => pure .t | "ti" => pure .ti | "tN" => pure .tN | "nLoops" => pure .nLoops | "startPrint" => pure .startPrint
  | "saveStep" => pure .saveStep | "saveStepCut" => pure .saveStepCut | "tEnd" => pure .tEnd | "dt" => pure .dt
  | _ => throw s!"unknown variable {s}"

partial def exprOf (j : Json) : R Ckpt.Expr := do
  let a ← arrOf j
  let k ← strOf (a.getD 0 Json.null)
  match k with
  | "var" => pure (.var (← varOf (← strOf (a.getD 1 Json.null))))
  | "lit" => pure (.lit (← intOf (a.getD 1 Json.null)))
  | _ =>
    let x ← exprOf (a.getD 1 Json.null)
    let y ← exprOf (a.getD 2 Json.null)
    match k with
    | "add" => pure (.add x y) | "sub" => pure (.sub x y) | "mul" => pure (.mul x y)
    | "fdiv" => pure (.fdiv x y) | "fmod" => pure (.fmod x y) | "min" => pure (.min x y) | "max" => pure (.max x y)
    | _ => throw s!"unknown expression {k}"

partial def condOf (j : Json) : R Cond := do
  let a ← arrOf j
  let k ← strOf (a.getD 0 Json.null)
  match k with
  | "loadable" => pure .loadable
  | "notLoadable" => pure .notLoadable
  | "timeForLoop" => pure .timeForLoop
  | "and" => pure (.and (← condOf (a.getD 1 Json.null)) (← condOf (a.getD 2 Json.null)))
  | "lt" => pure (.lt (← exprOf (a.getD 1 Json.null)) (← exprOf (a.getD 2 Json.null)))
  | "eq" => pure (.eq (← exprOf (a.getD 1 Json.null)) (← exprOf (a.getD 2 Json.null)))
  | "ne" => pure (.ne (← exprOf (a.getD 1 Json.null)) (← exprOf (a.getD 2 Json.null)))
  | _ => throw s!"unknown condition {k}"

def objOf (j : Json) : R Obj := do
  match (← strOf j) with
  | "distribFunc" => pure .distribFunc | "phi" => pure .phi | "rho" => pure .rho
  | s => throw s!"unknown object {s}"

def layOf (j : Json) : R Lay := do
  match (← strOf j) with
  | "flux_surface" => pure .flux_surface | "v_parallel" => pure .v_parallel | "poloidal" => pure .poloidal
  | "v_parallel_2d" => pure .v_parallel_2d | "mode_solve" => pure .mode_solve | "v_parallel_1d" => pure .v_parallel_1d
  | s => throw s!"unknown layout {s}"

def stpOf (j : Json) : R Stp := do
  match (← strOf j) with
  | "halfStep" => pure .halfStep | "fullStep" => pure .fullStep
  | s => throw s!"unknown step {s}"

def callOf (j : Json) : R Call := do
  let a ← arrOf j
  let k ← strOf (a.getD 0 Json.null)
  let x := a.getD 1 Json.null
  let y := a.getD 2 Json.null
  let z := a.getD 3 Json.null
  match k with
  | "setLayout" => pure (.setLayout (← objOf x) (← layOf y))
  | "saveGridValues" => pure (.saveGridValues (← objOf x))
  | "restoreGridValues" => pure (.restoreGridValues (← objOf x))
  | "fluxStep" => pure (.fluxStep (← objOf x))
  | "vParStep" => pure (.vParStep (← objOf x) (← objOf y) (← stpOf z))
  | "vParStepKeep" => pure (.vParStepKeep (← objOf x) (← stpOf y))
  | "polStep" => pure (.polStep (← objOf x) (← objOf y) (← stpOf z))
  | "perturbedRho" => pure (.perturbedRho (← objOf x) (← objOf y))
  | "getModes" => pure (.getModes (← objOf x))
  | "solveEquation" => pure (.solveEquation (← objOf x) (← objOf y))
  | "findPotential" => pure (.findPotential (← objOf x))
  | "collect" => pure (.collect (← objOf x) (← objOf y))
  | "reduce" => pure .reduce
  | "writeH5" => pure (.writeH5 (← objOf x) (← boolOf y))
  | _ => throw s!"unknown call {k}"

def simpleOf (j : Json) : R Simple := do
  let a ← arrOf j
  let k ← strOf (a.getD 0 Json.null)
  match k with
  | "assign" => pure (.assign (← varOf (← strOf (a.getD 1 Json.null))) (← exprOf (a.getD 2 Json.null)))
  | "call" => pure (.call (← callOf (a.getD 1 Json.null)))
  | "printLines" => pure (.printLines (← exprOf (a.getD 1 Json.null)) (← exprOf (a.getD 2 Json.null)))
  | "divBy" => pure (.divBy (← exprOf (a.getD 1 Json.null)))
  | "pollTime" => pure .pollTime
  | "setupFromFile" => pure .setupFromFile
  | "setupNew" => pure .setupNew
  | "allocPhi" => pure .allocPhi
  | "allocRho" => pure .allocRho
  | "allocParGradVals" => pure .allocParGradVals
  | _ => throw s!"unknown statement {k}"

def stmtOf (j : Json) : R Stmt := do
  let a ← arrOf j
  let k ← strOf (a.getD 0 Json.null)
  match k with
  | "s" => pure (.s (← simpleOf (a.getD 1 Json.null)))
  | "ifc" => pure (.ifc (← condOf (a.getD 1 Json.null)) (← listOf simpleOf (a.getD 2 Json.null)))
  | _ => throw s!"unknown statement {k}"

def programOf (j : Json) : R Program := do
  pure { pre := ← fList stmtOf j "pre", cond := ← condOf (← field j "cond"),
         body := ← fList stmtOf j "body", post := ← fList stmtOf j "post" }

def jEvent : Event → Json
  | .ckpt p t => Json.arr #[Json.str "ckpt", Json.bool p, jInt t]
  | .collect t => Json.arr #[Json.str "collect", jInt t]
  | .reduce => Json.arr #[Json.str "reduce"]
  | .lines lo hi => Json.arr #[Json.str "lines", jInt lo, jInt hi]

def handleC18 (op : String) (j : Json) : R Json := do
  match op with
  | "roundtrip" =>
    let dimsW ← pairList j "dimsW"
    let dimsR ← pairList j "dimsR"
    let order ← fList natList j "order"
    let readers ← fList natList j "readers"
    let ext := dimsW.map (·.1)
    let G : List Nat → Nat := fun x => ravelIdx x ext
    let st := writeAll G dimsW order (fun _ => none)
    let blocks := readers.map fun c =>
      let blk := blockOf dimsR c
      (boxIdx (blk.map (·.2))).map fun i => jOptNat (readBlock st blk i)
    pure <| obj [("blocks", Json.arr (blocks.map (fun b => Json.arr b.toArray)).toArray),
                 ("shapes", jList jNats (readers.map fun c => (blockOf dimsR c).map (·.2)))]
  | "names" =>
    let folder := codes (← fStr j "folder")
    let conv := codes (← fStr j "conv")
    let times ← fNatList j "times"
    let names := times.map (fileName folder conv)
    let (lat, tm) : Json × Json := match restartChoice names, latestByTime names with
      | some (f, t), _ => (Json.str (uncodes f), jNat t)
      | none, some f => (Json.str (uncodes f), Json.null)
      | none, none => (Json.null, Json.null)
    pure <| obj [("names", Json.arr (names.map (fun n => Json.str (uncodes n))).toArray), ("latest", lat), ("time", tm)]
  | "loop" =>
    let p ← programOf (← field j "program")
    let clock ← fList boolOf j "clock"
    let s0 : CState := { t := 0, ti := 0, tN := 0, nLoops := 0, startPrint := 0, saveStep := ← fInt j "saveStep",
                         saveStepCut := 0, tEnd := ← fInt j "tEnd", dt := ← fInt j "dt", loadable := ← fBool j "loadable",
                         timeForLoop := true, clock := clock, fileTime := ← fInt j "fileTime", events := [], crashed := false }
    let s := runC p (← fNat j "fuel") s0
    pure <| obj [("t", jInt s.t), ("ti", jInt s.ti), ("tN", jInt s.tN), ("nLoops", jInt s.nLoops),
                 ("startPrint", jInt s.startPrint), ("crashed", Json.bool s.crashed),
                 ("events", Json.arr (s.events.map jEvent).toArray)]
  | "constants" =>
    let arr ← arrOf (← field j "data")
    let data ← arr.toList.mapM fun e => do
      let a ← arrOf e
      let k ← strOf (a.getD 0 Json.null)
      match a.getD 1 Json.null with
      | Json.null => pure (k, PVal.lit (0 : Nat))
      | d => do
        let deps ← listOf strOf d
        pure (k, PVal.expr deps (fun _ => (0 : Nat)))
    -- replay the sweeps, recording which keys are resolved in which sweep
    let rec go (fuel : Nat) (data : List (String × PVal Nat)) (env : String → Option Nat) (acc : List (List String)) :
        Bool × List (List String) :=
      match fuel, data with
      | _, [] => (true, acc)
      | 0, _ => (false, acc)
      | fuel + 1, data =>
        let (env', unmatched) := sweep data.reverse env []
        let done := (data.map (·.1)).filter (fun k => !(unmatched.map (·.1)).contains k)
        if unmatched.length < data.length then go fuel unmatched env' (acc ++ [done]) else (false, acc ++ [done])
    let (ok, sw) := go (data.length + 1) data (fun _ => none) []
    let ok2 := (getConstants (data.length + 1) data (fun _ => none)).isSome
    pure <| obj [("ok", Json.bool (ok && ok2)), ("sweeps", Json.arr (sw.map (fun l => Json.arr (l.map Json.str).toArray)).toArray)]
  | "first_free" =>
    -- setupSave without a folder name: the index of the folder it creates, given the indices of the existing simulation_<i> directories
    let ex ← fNatList j "existing"
    pure <| obj [("index", match firstFree (fun i => ex.contains i) (ex.length + 2 + ex.foldl max 0) 0 with | some k => toJson k | none => Json.null)]
  | "constants_rp" =>
    -- literal values are integers (the harness scales dyadic values so that the middle of two of them is an integer);
    -- an expression is the sum of the constants it names plus an integer
    let arr ← arrOf (← field j "data")
    let data ← arr.toList.mapM fun e => do
      let a ← arrOf e
      let k ← strOf (a.getD 0 Json.null)
      let c ← intOf (a.getD 2 Json.null)
      match a.getD 1 Json.null with
      | Json.null => pure (k, PVal.lit c)
      | d => do
        let deps ← listOf strOf d
        pure (k, PVal.expr deps (fun env => deps.foldl (fun acc x => acc + (env x).getD 0) c))
    let mid : Int → Int → Int := fun a b => (a + b) / 2
    let dflt ← (← arrOf (← field j "defaults")).toList.mapM fun e => do
      let a ← arrOf e
      pure ((← strOf (a.getD 0 Json.null)), (← intOf (a.getD 1 Json.null)))
    let show_ (r : Option (String → Option Int)) : Json := match r with
      | none => Json.null
      | some env => obj (data.map (·.1) ++ dflt.map (·.1) ++ ["rp"] |>.eraseDups |>.map fun k => (k, match env k with | some v => jInt v | none => Json.null))
    pure <| obj [("fixed", show_ (getConstantsRp mid dflt (data.length + 1) data)),
                 ("f25", show_ (getConstantsF25 mid dflt (data.length + 1) data)),
                 ("old", show_ (getConstantsOld mid dflt (data.length + 1) data))]
  | _ => throw s!"unknown op {op}"

def handle (j : Json) : R Json := do
  let op ← fStr j "op"
  match op with
  | "roundtrip" | "names" | "constants" | "constants_rp" | "first_free" | "loop" => handleC18 op j
  | _ => handleC17 op j

def main : IO Unit := serve handle
