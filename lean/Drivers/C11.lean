/-
Driver for the advection models of C11 (v-parallel) and C12 (poloidal) at K := ℚ.
`lake env lean --run Drivers/C11.lean`, JSON lines.

  {"op":"vpar", "spline":{…}, "coeffs":[…], "pts":[…], "dt":…, "c":…, "r":…, "edge":0|1|2, "fuel":n}
  {"op":"pol",  "phi":{"s1":{…},"s2":{…},"coeffs":[[…]]}, "f":{…same…}, "qPts":[…], "rPts":[…], "dt","B0","v","nul",
                "period","half","scheme":"expl"|"impl","tol","fuel","bits","argbits"}   (bits = 0: exact iteration)
  a 1-D spline space {…} is {"degree":d,"knots":[…]}  (general path)  or  {"degree":3,"cu":true,"xmin":…,"dx":…,"ncells":n}
-/
import PygyroVerif.DriverUtil
import PygyroVerif.Model.BSpline
import PygyroVerif.Model.VParAdv
import PygyroVerif.Model.PolAdv
import Mathlib.Algebra.Order.Field.Rat
import Mathlib.Data.Rat.Floor

open Lean PygyroVerif PygyroVerif.DriverUtil PygyroVerif.BSpline PygyroVerif.VParAdv PygyroVerif.PolAdv

def fn (l : List Rat) : ℕ → Rat := let a := l.toArray; fun i => a.getD i 0

def fn2 (l : List (List Rat)) : ℕ → ℕ → Rat :=
  let a := (l.map List.toArray).toArray
  fun i j => (a.getD i #[]).getD j 0

def jOptRat : Option Rat → Json
  | some q => jRat q
  | none => Json.null

/-- knot vector and degree of a 1-D spline space description -/
def spaceOf (j : Json) : R (List Rat × ℕ) := do
  let d ← fNat j "degree"
  match j.getObjVal? "cu" with
  | .ok _ =>
    let xmin ← fRat j "xmin"; let dx ← fRat j "dx"; let nc ← fNat j "ncells"
    pure ((List.range (nc + 7)).map (fun i => cuKnot xmin dx i), d)
  | .error _ =>
    let kn ← fRatList j "knots"
    pure (kn, d)

def jVal : Val Rat → List (String × Json)
  | .num x => [("tag", Json.str "num"), ("val", jRat x)]
  | .feq r v => [("tag", Json.str "feq"), ("r", jRat r), ("v", jRat v)]

/-- evaluator of a 2-D spline; `ab ≠ 0`: the arguments are first rounded down to multiples of 2^-ab (keeps the rationals
    small; the perturbation is 2^(53-ab) times smaller than the rounding of a double of magnitude 1) -/
def spline2Of (j : Json) (der1 der2 : Bool) (ab : ℕ) : R (Rat → Rat → Rat) := do
  let (k1, d1) ← spaceOf (← field j "s1")
  let (k2, d2) ← spaceOf (← field j "s2")
  let c ← fList ratList j "coeffs"
  let t1 := fn k1; let t2 := fn k2; let cc := fn2 c
  let g : Rat → Rat := if ab = 0 then id else round2 ab
  pure (fun x y => spline2D t1 k1.length d1 t2 k2.length d2 cc der1 der2 (g x) (g y))

def handle (j : Json) : R Json := do
  let op ← fStr j "op"
  match op with
  | "vpar" =>
    let (kn, d) ← spaceOf (← field j "spline")
    let c ← fRatList j "coeffs"; let pts ← fRatList j "pts"
    let dt ← fRat j "dt"; let cc ← fRat j "c"; let r ← fRat j "r"
    let e ← fNat j "edge"; let fuel ← fNat j "fuel"
    let edge := if e = 0 then Edge.fEq else if e = 1 then Edge.null else Edge.periodic
    let t := fn kn; let cf := fn c; let p := fn pts; let n := pts.length
    let S := splineEval t kn.length d cf
    let vals := step S edge p n dt cc r fuel
    let out := (List.range n).map (fun i =>
      let foot := p i - cc * dt
      let at_ := evalPoint edge (p 0) (p (n - 1)) fuel foot
      let v := match vals.getD i none with
        | some v => jVal v
        | none => [("tag", Json.str "none")]
      let extra := match at_ with
        | some w => [("abs0", jRat (absEval t kn.length d cf w false)),
                     ("spanok", Json.bool (findSpan t kn.length d w).isSome)]
        | none => []
      obj (v ++ [("foot", jRat foot), ("at", jOptRat at_)] ++ extra))
    pure <| obj [("nodes", Json.arr out.toArray)]
  | "pol" =>
    let phi ← field j "phi"; let f ← field j "f"
    let ab ← fNat j "argbits"
    let drPhi ← spline2Of phi false true ab
    let dqPhi ← spline2Of phi true false ab
    let fhat ← spline2Of f false false ab
    let qPts ← fRatList j "qPts"; let rPts ← fRatList j "rPts"
    let dt ← fRat j "dt"; let B0 ← fRat j "B0"; let v ← fRat j "v"; let nul ← fBool j "nul"
    let period ← fRat j "period"; let half ← fRat j "half"
    let scheme ← fStr j "scheme"
    let E : Evals Rat := { drPhi := drPhi, dqPhi := dqPhi, fhat := fhat, wrap := pmod period }
    let q := fn qPts; let r := fn rPts; let nq := qPts.length; let nr := rPts.length
    let P := mkParams dt B0 v r nr nul
    let nodes := nodeList q r nq nr
    match scheme with
    | "expl" =>
      let out := nodes.map (fun n =>
        let k1 := predictor E P n.1 n.2
        let foot := explFoot E P n.1 n.2
        obj (jVal (finalVal E P foot) ++ [("footq", jRat foot.1), ("footr", jRat foot.2), ("predr", jRat k1.2)]))
      pure <| obj [("nodes", Json.arr out.toArray)]
    | "impl" =>
      let tol ← fRat j "tol"; let fuel ← fNat j "fuel"; let bits ← fNat j "bits"
      let rnd : Rat → Rat := if bits = 0 then id else round2 bits
      let initr := nodes.map (fun n => (implInit E P n.1 n.2).2)
      match implStep E P period half tol rnd fuel q r nq nr with
      | none => pure <| obj [("converged", Json.bool false), ("initr", jRats initr)]
      | some (vals, feet, cnt, norms) =>
        let out := (vals.zip feet).map (fun vf =>
          obj (jVal vf.1 ++ [("footq", jRat vf.2.1), ("footr", jRat vf.2.2)]))
        pure <| obj [("converged", Json.bool true), ("nodes", Json.arr out.toArray), ("sweeps", jNat cnt),
                     ("norms", jRats norms), ("initr", jRats initr)]
    | _ => throw s!"unknown scheme {scheme}"
  | _ => throw s!"unknown op {op}"

def main : IO Unit := serve handle
