/- Driver for the Grid buffer-rotation state machine (C04).  Core Lean only. -/
import PygyroVerif.DriverUtil
import PygyroVerif.Model.GridSM

open Lean PygyroVerif.DriverUtil PygyroVerif.GridSM

def opOf (j : Json) : R Op := do
  let k ← fStr j "k"
  match k with
  | "set" => pure (.setLayout (← fNat j "l"))
  | "write" => pure (.write (← fNat j "v"))
  | "save" => pure .save
  | "restore" => pure .restore
  | "free" => pure .free
  | _ => throw s!"unknown op kind {k}"

def jCell : Cell → Json
  | .garbage => Json.null
  | .holds f l => obj [("field", jNat f), ("layout", jNat l)]

def jState (s : GState) (ok : Bool) : Json :=
  obj [("ok", toJson ok), ("idx", jNats [s.dataIdx, s.buffIdx, s.saveIdx]), ("current", jNat s.current),
       ("notSaved", toJson s.notSaved), ("data", jCell (cellAt s s.dataIdx)),
       ("save", if s.notSaved then Json.null else jCell (cellAt s s.saveIdx))]

def trace (s : GState) : List Op → List Json
  | [] => []
  | op :: ops => match step s op with
    | some s' => jState s' true :: trace s' ops
    | none => jState s false :: trace s ops

def handle (j : Json) : R Json := do
  let op ← fStr j "op"
  match op with
  | "grid_run" =>
    let hasSave ← fBool j "hasSave"; let l0 ← fNat j "layout"; let f0 ← fNat j "field"
    let ops ← fList opOf j "ops"
    pure <| obj [("trace", Json.arr (trace (init hasSave l0 f0) ops).toArray)]
  | _ => throw s!"unknown op {op}"

def main : IO Unit := serve handle
