/-
Driver for the flux-surface advection (C10) and parallel gradient (C13) models at K := ℚ.
`lake env lean --run Drivers/C10.lean`, one JSON request per line (see PygyroVerif/DriverUtil.lean).

ops
  flux_setup  {z, dz, zDist, nL}                                   -> {shifts, coeffs, centre_lo, centre_hi}
  flux_step   {nz, nq, nL, knots, degree, coefs[nz][*], pts[nL][nq], shifts[nL], lcoeffs[nL]}
                                                                   -> {out[nq][nz]}      (the literal two loops)
  field_sum   same inputs + {n}                                    -> {out[nq][nz]}      (closed form, `fieldSum`)
  fd_setup    {order}                                              -> {shifts, fwd, bkwd}
  regimes     {nz, order}                                          -> {rows[nz][order+1]} (null = IndexError)
  moments     {order, weights}                                     -> {residual[order+1]} (Σ_j s_j^i c_j − δ_{i1})
  pargrad     {nz, nq, order, knots, degree, coefs[nz][*], pts[order+1][nq], weights, bz, dz}
                                                                   -> {der[nz][nq]} or {der: null}
-/
import PygyroVerif.DriverUtil
import PygyroVerif.Model.FluxAdv
import PygyroVerif.Model.ParGrad
import Mathlib.Algebra.Order.Field.Rat
import Mathlib.Data.Rat.Floor

open Lean PygyroVerif PygyroVerif.DriverUtil PygyroVerif.FieldLine PygyroVerif.FluxAdv PygyroVerif.ParGrad

def fn (l : List Rat) : ℕ → Rat := let a := l.toArray; fun i => a.getD i 0
def fnInt (l : List Int) : ℕ → ℤ := let a := l.toArray; fun i => a.getD i 0
def fn2 (l : List (List Rat)) : ℕ → ℕ → Rat :=
  let a := (l.map (fun r => r.toArray)).toArray
  fun i j => (a.getD i #[]).getD j 0

/-- rows of theta-splines: `S i x` with the coefficient vector the real interpolator produced for row `i` -/
def rowsOf (kn : List Rat) (deg : ℕ) (coefs : List (List Rat)) : ℕ → Rat → Rat :=
  let t := fn kn
  let nk := kn.length
  let rows := (coefs.map fn).toArray
  fun i x => splineFn t nk deg (rows.getD i (fun _ => 0)) x

def handle (j : Json) : R Json := do
  let op ← fStr j "op"
  match op with
  | "flux_setup" =>
    let z ← fRat j "z"; let dz ← fRat j "dz"; let zDist ← fRat j "zDist"; let nL ← fNat j "nL"
    if dz = 0 then throw "dz = 0"
    let sh := shifts zDist dz nL
    let c := lagrangeCoeffs z dz zDist nL sh
    pure <| obj [("shifts", jInts ((List.range nL).map sh)), ("coeffs", jRats ((List.range nL).map c)),
                 ("centre_lo", jRat (zPts z dz sh (centre nL))), ("centre_hi", jRat (zPts z dz sh (centre nL + 1)))]
  | "flux_step" | "field_sum" =>
    let nz ← fNat j "nz"; let nq ← fNat j "nq"; let nL ← fNat j "nL"
    let kn ← fRatList j "knots"; let deg ← fNat j "degree"
    let coefs ← fList ratList j "coefs"; let pts ← fList ratList j "pts"
    let sh ← fIntList j "shifts"; let lc ← fRatList j "lcoeffs"
    if coefs.length ≠ nz ∨ pts.length ≠ nL ∨ sh.length ≠ nL ∨ lc.length ≠ nL then throw "shape mismatch"
    let S := rowsOf kn deg coefs
    let P := fn2 pts
    let out : ℕ → ℕ → Rat :=
      if op = "flux_step" then fluxStep nz nL S P (fnInt sh) (fn lc) (fun _ _ _ => 987654321)
      else fun q i => fieldSum nz nL S P (fnInt sh) (fn lc) i q
    pure <| obj [("out", jList jRats ((List.range nq).map (fun q => (List.range nz).map (fun i => out q i))))]
  | "fd_setup" =>
    let order ← fNat j "order"
    pure <| obj [("shifts", jInts ((List.range (order + 1)).map (fdShift order))),
                 ("fwd", jNat (fwdSteps order)), ("bkwd", jNat (bkwdSteps order))]
  | "regimes" =>
    let nz ← fNat j "nz"; let order ← fNat j "order"
    pure <| obj [("rows", jList (jList jOptNat) ((List.range nz).map (fun i =>
      (List.range (order + 1)).map (fun k => regimeRow nz order i (fdShift order k)))))]
  | "moments" =>
    let order ← fNat j "order"; let w ← fRatList j "weights"
    let c := fn w
    pure <| obj [("residual", jRats ((List.range (order + 1)).map (fun i =>
      sumRange (order + 1) (fun k => ((fdShift order k : ℤ) : Rat) ^ i * c k) - (if i = 1 then 1 else 0))))]
  | "pargrad" =>
    let nz ← fNat j "nz"; let nq ← fNat j "nq"; let order ← fNat j "order"
    let kn ← fRatList j "knots"; let deg ← fNat j "degree"
    let coefs ← fList ratList j "coefs"; let pts ← fList ratList j "pts"
    let w ← fRatList j "weights"; let bz ← fRat j "bz"; let dz ← fRat j "dz"
    if coefs.length ≠ nz ∨ pts.length ≠ order + 1 ∨ w.length ≠ order + 1 then throw "shape mismatch"
    match parallelGradient nz order (rowsOf kn deg coefs) (fn2 pts) (fn w) bz dz with
    | none => pure <| obj [("der", Json.null)]
    | some d => pure <| obj [("der", jList jRats ((List.range nz).map (fun a => (List.range nq).map (fun q => d a q))))]
  | _ => throw s!"unknown op {op}"

def main : IO Unit := serve handle
