/-
Driver for the B-spline models at K := ℚ.  `lake env lean --run Drivers/C07.lean`

ops (all rationals as "num/den" strings)
  find_span    {knots, degree, x}                              -> {span}
  basis        {knots, degree, x, span, der}                   -> {values, abs}
  eval1d       {knots, degree, coeffs, xs, der}                -> {ys, scales, spans}
  eval2d       {knots1, deg1, knots2, deg2, coeffs[[..]], xs, ys, der1, der2, mode: "cross"|"zip"} -> {zs, scales}
  cu_find_span {xmin, dx, x, ncells}                           -> {span, offset}
  cu_basis     {offset, dx, der}                               -> {values, abs}
  cu_eval1d    {xmin, dx, ncells, coeffs, xs, der}             -> {ys, scales, spans, offsets}
  cu_eval2d    {xmin, dx, ncx, ymin, dy, ncy, coeffs[[..]], xs, ys, der1, der2, mode} -> {zs, scales}

`abs`/`scales` are running condition numbers for the float comparison: the same sums with every term replaced by
its absolute value (for derivatives: `|saved_{j-1}| + |saved_j|` instead of `saved_{j-1} - saved_j`).
-/
import PygyroVerif.DriverUtil
import PygyroVerif.Model.BSpline
import PygyroVerif.Model.CubicUniform
import Mathlib.Algebra.Order.Field.Rat

open Lean PygyroVerif PygyroVerif.DriverUtil PygyroVerif.BSpline PygyroVerif.CubicUniform

def fn (l : List Rat) : ℕ → Rat := let a := l.toArray; fun i => a.getD i 0

def fn2 (l : List (List Rat)) : ℕ → ℕ → Rat :=
  let a := (l.map List.toArray).toArray
  fun i j => (a.getD i #[]).getD j 0

def jOptRat : Option Rat → Json
  | some q => jRat q
  | none => Json.null

def jInt' (z : Int) : Json := toJson z

/-- Python's `int(q)`: truncation toward zero -/
def truncRat (q : Rat) : Int := Int.tdiv q.num q.den

def absR (q : Rat) : Rat := if q < 0 then -q else q

/-- `|values[j]|`, or for derivatives `|saved_{j-1}| + |saved_j|` -/
def absBasis (t : ℕ → Rat) (degree : ℕ) (x : Rat) (span : ℕ) (der : Bool) : List Rat :=
  if der then
    let values := basisFuns t (degree - 1) x span
    (List.range (degree + 1)).map (fun j =>
      (if j = 0 then 0 else absR (derSaved t degree span values (j - 1))) +
      (if j < degree then absR (derSaved t degree span values j) else 0))
  else (basisFuns t degree x span).map absR

def cuAbsBasis (offset dx : Rat) (der : Bool) : List Rat :=
  let b := absR (1 - offset)
  let o := absR offset
  if der then
    let coeff := absR ((1/2) / dx)
    [coeff * b * b, coeff * (1 + 2 * b + 3 * b * b), coeff * (1 + 2 * o + 3 * o * o), coeff * o * o]
  else
    let tmp := (1/2) * (1 + b * o)
    [b * b * b / 6, 1/6 + b * tmp, 1/6 + o * tmp, o * o * o / 6]

def absFn (c : ℕ → Rat) : ℕ → Rat := fun i => absR (c i)

/-- tensor contraction `Σ_i (Σ_j c[r0+i, c0+j]·b2[j])·b1[i]` (same shape as the models) -/
def tensor (c : ℕ → ℕ → Rat) (r0 c0 : ℕ) (b1 b2 : List Rat) : Rat :=
  b1.zipIdx.foldl (fun z (bi : Rat × ℕ) => z + dotFrom (c (r0 + bi.2)) c0 b2 * bi.1) 0

def scale2d (t1 : ℕ → Rat) (nk1 d1 : ℕ) (t2 : ℕ → Rat) (nk2 d2 : ℕ) (c : ℕ → ℕ → Rat)
    (x y : Rat) (der1 der2 : Bool) : Option Rat :=
  match findSpan t1 nk1 d1 x, findSpan t2 nk2 d2 y with
  | some s1, some s2 =>
    some (tensor (fun i j => absR (c i j)) (s1 - d1) (s2 - d2) (absBasis t1 d1 x s1 der1) (absBasis t2 d2 y s2 der2))
  | _, _ => none

def cuScale2d (xmin dx : Rat) (ncx : Int) (ymin dy : Rat) (ncy : Int) (c : ℕ → ℕ → Rat)
    (x y : Rat) (der1 der2 : Bool) : Rat :=
  let so1 := cuFindSpan truncRat xmin dx x ncx
  let so2 := cuFindSpan truncRat ymin dy y ncy
  tensor (fun i j => absR (c i j)) (so1.1 - 3).toNat (so2.1 - 3).toNat
    (cuAbsBasis so1.2 dx der1) (cuAbsBasis so2.2 dy der2)

def ratListList (j : Json) : R (List (List Rat)) := listOf ratList j

def handle (j : Json) : R Json := do
  let op ← fStr j "op"
  match op with
  | "find_span" =>
    let kn ← fRatList j "knots"; let d ← fNat j "degree"; let x ← fRat j "x"
    pure <| obj [("span", jOptNat (findSpan (fn kn) kn.length d x))]
  | "basis" =>
    let kn ← fRatList j "knots"; let d ← fNat j "degree"; let x ← fRat j "x"
    let span ← fNat j "span"; let der ← fBool j "der"
    pure <| obj [("values", jRats (basisOrDer (fn kn) d x span der)),
                 ("abs", jRats (absBasis (fn kn) d x span der))]
  | "eval1d" =>
    let kn ← fRatList j "knots"; let d ← fNat j "degree"; let c ← fRatList j "coeffs"
    let xs ← fRatList j "xs"; let der ← fBool j "der"
    let t := fn kn; let cf := fn c; let nk := kn.length
    let spans := xs.map (fun x => findSpan t nk d x)
    let scales := xs.map (fun x => (findSpan t nk d x).map (fun s => dotFrom (absFn cf) (s - d) (absBasis t d x s der)))
    pure <| obj [("ys", jList jOptRat (xs.map (fun x => evalSpline1D t nk d cf x der))),
                 ("scales", jList jOptRat scales), ("spans", jList jOptNat spans)]
  | "eval2d" =>
    let kn1 ← fRatList j "knots1"; let d1 ← fNat j "deg1"
    let kn2 ← fRatList j "knots2"; let d2 ← fNat j "deg2"
    let c ← ratListList (← field j "coeffs")
    let xs ← fRatList j "xs"; let ys ← fRatList j "ys"
    let der1 ← fBool j "der1"; let der2 ← fBool j "der2"; let mode ← fStr j "mode"
    let t1 := fn kn1; let t2 := fn kn2; let cf := fn2 c
    let ev := fun x y => evalSpline2D t1 kn1.length d1 t2 kn2.length d2 cf x y der1 der2
    let sc := fun x y => scale2d t1 kn1.length d1 t2 kn2.length d2 cf x y der1 der2
    if mode == "cross" then
      pure <| obj [("zs", jList (fun x => jList jOptRat (ys.map (ev x))) xs),
                   ("scales", jList (fun x => jList jOptRat (ys.map (sc x))) xs)]
    else
      pure <| obj [("zs", jList jOptRat ((xs.zip ys).map (fun p => ev p.1 p.2))),
                   ("scales", jList jOptRat ((xs.zip ys).map (fun p => sc p.1 p.2)))]
  | "cu_find_span" =>
    let xmin ← fRat j "xmin"; let dx ← fRat j "dx"; let x ← fRat j "x"; let nc ← fInt j "ncells"
    let so := cuFindSpan truncRat xmin dx x nc
    pure <| obj [("span", jInt' so.1), ("offset", jRat so.2)]
  | "cu_basis" =>
    let o ← fRat j "offset"; let dx ← fRat j "dx"; let der ← fBool j "der"
    pure <| obj [("values", jRats (cuBasisOrDer o dx der)), ("abs", jRats (cuAbsBasis o dx der))]
  | "cu_eval1d" =>
    let xmin ← fRat j "xmin"; let dx ← fRat j "dx"; let nc ← fInt j "ncells"
    let c ← fRatList j "coeffs"; let xs ← fRatList j "xs"; let der ← fBool j "der"
    let cf := fn c
    let sos := xs.map (fun x => cuFindSpan truncRat xmin dx x nc)
    pure <| obj [("ys", jRats (xs.map (fun x => cuEvalSpline1D truncRat xmin dx nc cf x der))),
                 ("scales", jRats (sos.map (fun so => dotFrom (absFn cf) (so.1 - 3).toNat (cuAbsBasis so.2 dx der)))),
                 ("spans", jList jInt' (sos.map (·.1))), ("offsets", jRats (sos.map (·.2)))]
  | "cu_eval2d" =>
    let xmin ← fRat j "xmin"; let dx ← fRat j "dx"; let ncx ← fInt j "ncx"
    let ymin ← fRat j "ymin"; let dy ← fRat j "dy"; let ncy ← fInt j "ncy"
    let c ← ratListList (← field j "coeffs")
    let xs ← fRatList j "xs"; let ys ← fRatList j "ys"
    let der1 ← fBool j "der1"; let der2 ← fBool j "der2"; let mode ← fStr j "mode"
    let cf := fn2 c
    let ev := fun x y => cuEvalSpline2D truncRat xmin dx ncx ymin dy ncy cf x y der1 der2
    let sc := fun x y => cuScale2d xmin dx ncx ymin dy ncy cf x y der1 der2
    if mode == "cross" then
      pure <| obj [("zs", jList (fun x => jRats (ys.map (ev x))) xs),
                   ("scales", jList (fun x => jRats (ys.map (sc x))) xs)]
    else
      pure <| obj [("zs", jRats ((xs.zip ys).map (fun p => ev p.1 p.2))),
                   ("scales", jRats ((xs.zip ys).map (fun p => sc p.1 p.2)))]
  | _ => throw s!"unknown op {op}"

def main : IO Unit := serve handle
