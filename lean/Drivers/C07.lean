/-
Driver for the B-spline models at K := ℚ.  `lake env lean --run Drivers/C07.lean`
-/
import PygyroVerif.DriverUtil
import PygyroVerif.Model.BSpline
import Mathlib.Algebra.Order.Field.Rat

open Lean PygyroVerif PygyroVerif.DriverUtil PygyroVerif.BSpline

def fn (l : List Rat) : ℕ → Rat := let a := l.toArray; fun i => a.getD i 0

def jOptRat : Option Rat → Json
  | some q => jRat q
  | none => Json.null

def handle (j : Json) : R Json := do
  let op ← fStr j "op"
  match op with
  | "find_span" =>
    let kn ← fRatList j "knots"; let d ← fNat j "degree"; let x ← fRat j "x"
    pure <| obj [("span", jOptNat (findSpan (fn kn) kn.length d x))]
  | "basis" =>
    let kn ← fRatList j "knots"; let d ← fNat j "degree"; let x ← fRat j "x"
    let span ← fNat j "span"; let der ← fBool j "der"
    pure <| obj [("values", jRats (basisOrDer (fn kn) d x span der))]
  | "eval1d" =>
    let kn ← fRatList j "knots"; let d ← fNat j "degree"; let c ← fRatList j "coeffs"
    let xs ← fRatList j "xs"; let der ← fBool j "der"
    pure <| obj [("ys", jList jOptRat (xs.map (fun x => evalSpline1D (fn kn) kn.length d (fn c) x der)))]
  | _ => throw s!"unknown op {op}"

def main : IO Unit := serve handle
