/- Driver for the LayoutSwapper model (C03, also C06).  Core Lean only. -/
import PygyroVerif.DriverUtil
import PygyroVerif.Model.Swapper

open Lean PygyroVerif PygyroVerif.DriverUtil PygyroVerif.Handler PygyroVerif.Swapper

def groupOf (j : Json) : R (List (String × List Nat)) := do
  let names ← fList strOf j "names"
  let orders ← fList natList j "orders"
  pure (names.zip orders)

def swapperOf (j : Json) : R Swapper := do
  let groups ← fList groupOf j "groups"
  let np ← fList natList j "nprocs"
  let ext ← fNatList j "ext"
  pure { groups := groups, nprocsRaw := np, ext := ext }

def flatG (ext g : List Nat) : Nat := (View.mk 0 ext (cStrides ext)).addr g

def boxIdx : List Nat → List (List Nat)
  | [] => [[]]
  | n :: ns => (List.range n).flatMap (fun i => (boxIdx ns).map (fun r => i :: r))

def blockOf (L : Layout) (c : List Nat) (salt : Int) : List Int :=
  (boxIdx (L.shape c)).map (fun idx => (flatG L.ext (L.toGlobal c idx) : Int) + salt)

def fillPrefix (a : Array Int) (vals : List Int) : Array Int :=
  (vals.zipIdx).foldl (fun acc (p : Int × Nat) => acc.setIfInBounds p.2 p.1) a

/-- what the constructor does: `ok` or the refusal kind -/
def construct (S : Swapper) (tie : List Nat) : Except String Unit := do
  if S.groups.length ≠ S.nprocsRaw.length then throw "runtime-error: layout sets vs nprocs"
  let tot := prodL (S.nprocsRaw.getD S.maxIdx [])
  for n in S.nprocsRaw do
    if tot % prodL n ≠ 0 then throw "assert: totProcs % prod(n)"
  for i in S.sortOrder do
    if (S.commAxes i).isNone then throw "assert: no communicator"
    let h := S.handler i
    let (_, full) := h.routes (List.range h.nLayouts)
    if !full then throw "runtime-error: handler not connected"
  let (_, full) := S.routes tie
  if !full then throw "runtime-error: swapper not connected"

def idxOfName (S : Swapper) (name : String) : R Nat :=
  let i := S.allNames.idxOf name
  if i < S.allNames.length then pure i else throw s!"unknown layout {name}"

def handle (j : Json) : R Json := do
  let op ← fStr j "op"
  match op with
  | "swapper" =>
    let S ← swapperOf j
    let tie ← fNatList j "tie"
    match construct S tie with
    | .error e => pure <| obj [("refused", Json.str e)]
    | .ok _ =>
      let (rm, _) := S.routes tie
      let n := S.allNames.length
      let nm := fun (l : List Nat) => jList (fun i => Json.str (S.allNames.getD i "?")) l
      let routes := (List.range n).map (fun a => Json.arr ((List.range n).map (fun b => if a = b then Json.null else nm (rm.r a b))).toArray)
      pure <| obj [("comm_axes", jList (fun i => jNats ((S.commAxes i).getD [])) (List.range S.groups.length)),
                   ("dims", jNats S.dims),
                   ("connections", jList nm S.connections),
                   ("buffer", jNats ((List.range (prodL S.dims)).map S.bufferSize)),
                   ("routes", Json.arr routes.toArray)]
  | "walk" =>
    let S ← swapperOf j
    let tie ← fNatList j "tie"
    let start ← fStr j "start"
    let salt ← fInt j "salt"
    let steps ← fList (fun s => do pure ((← fStr s "dst"), (← fBool s "buf"))) j "steps"
    match construct S tie with
    | .error e => pure <| obj [("refused", Json.str e)]
    | .ok _ =>
      let (rm, _) := S.routes tie
      let hrm := fun i => ((S.handler i).routes (List.range (S.handler i).nLayouts)).1
      let n := prodL S.dims
      let k0 ← idxOfName S start
      let mkRole := fun (fillv : Int) => ((List.range n).map (fun r => Array.replicate (S.bufferSize r) fillv)).toArray
      let data0 := ((List.range n).map (fun r =>
        let (h, _) := S.locate k0
        fillPrefix (Array.replicate (S.bufferSize r) (-1)) (blockOf (S.layoutOf k0) ((S.topo h).coords r) salt))).toArray
      let w0 : World Int := #[data0, mkRole (-2), mkRole (-3)]
      let rec go (steps : List (String × Bool)) (kCur dataR otherR : Nat) (w : World Int) (acc : List Json) : R (List Json) :=
        match steps with
        | [] => pure acc.reverse
        | (dst, ub) :: rest => do
          let kD ← idxOfName S dst
          match transposeRoles S rm hrm 3 kCur kD ub dataR otherR 2 w with
          | .error e => pure ((obj [("refused", Json.str e)]) :: acc).reverse
          | .ok w' =>
            let (hD, _) := S.locate kD
            let (hS, _) := S.locate kCur
            let outD := (List.range n).map (fun r => (w'.get otherR r).toList.take ((S.layoutOf kD).size ((S.topo hD).coords r)))
            let outS := (List.range n).map (fun r => (w'.get dataR r).toList.take ((S.layoutOf kCur).size ((S.topo hS).coords r)))
            let expD := (List.range n).map (fun r => blockOf (S.layoutOf kD) ((S.topo hD).coords r) salt)
            go rest kD otherR dataR w' ((obj [("dest", jList jInts outD), ("source", jList jInts outS), ("holds", toJson (outD == expD))]) :: acc)
      let out ← go steps k0 0 1 w0 []
      pure <| obj [("steps", Json.arr out.toArray)]
  | _ => throw s!"unknown op {op}"

def main : IO Unit := serve handle
