/-
Driver for the density / elliptic solver / quasi-neutrality models (C14, C15, C16) at K := ℚ.
`lake env lean --run Drivers/C14.lean`
-/
import PygyroVerif.DriverUtil
import PygyroVerif.Model.Density
import PygyroVerif.Model.Poisson
import Mathlib.Algebra.Order.Field.Rat

open Lean PygyroVerif PygyroVerif.DriverUtil

def fn1 (l : List Rat) : ℕ → Rat := let a := l.toArray; fun i => a.getD i 0
def fn2 (l : List (List Rat)) : ℕ → ℕ → Rat :=
  let a := (l.map List.toArray).toArray; fun i j => (a.getD i #[]).getD j 0
def fn4 (l : List (List (List (List Rat)))) : ℕ → ℕ → ℕ → ℕ → Rat :=
  let a := (l.map (fun x => (x.map (fun y => (y.map List.toArray).toArray)).toArray)).toArray
  fun i j k m => (((a.getD i #[]).getD j #[]).getD k #[]).getD m 0

def rat2 (j : Json) : R (List (List Rat)) := listOf ratList j
def rat4 (j : Json) : R (List (List (List (List Rat)))) := listOf (listOf rat2) j

def handleDensity (j : Json) : R Json := do
  let q ← fRatList j "q"
  let feq ← rat2 (← field j "feq")
  let blk ← rat4 (← field j "block")
  let rstart ← fNat j "rstart"
  let pert ← fBool j "perturbed"
  let nc := q.length
  let qf := fn1 q
  let fe := fn2 feq
  -- the harness sends the block the rank owns; its own offset inside the global field is (rstart, ·):
  -- F (rstart+i) (zstart+j) = block i j, realised with zstart = 0 and a shifted accessor
  let b := fn4 blk
  let F : ℕ → ℕ → ℕ → ℕ → Rat := fun r z k l => b (r - rstart) z k l
  let nr := blk.length
  let nz := (blk.headD []).length
  let nt := ((blk.headD []).headD []).length
  let val (i jj k : ℕ) : Rat :=
    if pert then Density.getPerturbedRhoLocal qf nc fe F rstart 0 i jj k
    else Density.getRhoLocal qf nc F rstart 0 i jj k
  let sc (i jj k : ℕ) : Rat :=
    if pert then Density.pertScale qf (Density.localBlock F rstart 0 i jj k) (Density.feqRows fe rstart i) nc
    else Density.rhoScale qf (Density.localBlock F rstart 0 i jj k) nc
  let cube (f : ℕ → ℕ → ℕ → Rat) : Json :=
    jList (fun i => jList (fun jj => jList (fun k => jRat (f i jj k)) (List.range nt)) (List.range nz)) (List.range nr)
  pure <| obj [("rho", cube val), ("scale", cube sc)]

/-! ### C14 / C15 -/
open PygyroVerif.Poisson

def tab2 (l : List (List Rat)) : ℕ → ℕ → Rat := fn2 l
def abs2 (f : ℕ → ℕ → Rat) : ℕ → ℕ → Rat := fun a b => |f a b|

/-- materialise a function of three indices (sharing: each value is computed once) -/
def memo3 (n1 n2 n3 : ℕ) (f : ℕ → ℕ → ℕ → Rat) : ℕ → ℕ → ℕ → Rat :=
  let a := Array.ofFn (n := n1) (fun i => Array.ofFn (n := n2) (fun j => Array.ofFn (n := n3) (fun k => f i.1 j.1 k.1)))
  fun i j k => (((a.getD i #[]).getD j #[]).getD k 0)

def memo2 (n1 n2 : ℕ) (f : ℕ → ℕ → Rat) : ℕ → ℕ → Rat :=
  let a := Array.ofFn (n := n1) (fun i => Array.ofFn (n := n2) (fun j => f i.1 j.1))
  fun i j => ((a.getD i #[]).getD j 0)

/-- `Poisson.assemble` with the rows of the diagonal storage computed once each
    (same primitives `symRow`/`fullRow`/`aliasIdx`/`diagsEntry`, composed exactly as in `Poisson.assemble`) -/
def assembleShared (d nb : ℕ) (Q : Quad Rat) (co : Coefs Rat) (P dP : ℕ → ℕ → ℕ → Rat) : Assembled Rat :=
  let sym (term : ℕ → ℕ → Rat) : ℕ → ℕ → Rat :=
    let rows := memo2 nb (d + 1) (fun i => symRow d nb term i)
    memo2 nb nb (diagsEntry d (fun li i => rows i (aliasIdx d li)))
  let full (up lo : ℕ → ℕ → Rat) : ℕ → ℕ → Rat :=
    let rows := memo2 nb (2 * d + 1) (fun i => fullRow d nb up lo i)
    memo2 nb nb (diagsEntry d (fun li i => rows i li))
  { mass := sym (massTerm d Q co P), k2 := sym (k2Term d Q co P), phiPsi := sym (phiPsiTerm d Q co P),
    dPhidPsi := full (dPhidPsiUp d Q co P dP) (dPhidPsiLo d Q co P dP),
    dPhiPsi := full (dPhiPsiUp d Q co P dP) (dPhiPsiLo d Q co P dP) }

def jMat (n m : ℕ) (f : ℕ → ℕ → Rat) : Json :=
  jList (fun a => jList (fun b => jRat (f a b)) (List.range m)) (List.range n)
def jVec (n : ℕ) (f : ℕ → Rat) : Json := jList (fun a => jRat (f a)) (List.range n)
def jPair (p : ℕ × ℕ) : Json := jNats [p.1, p.2]

def cfgOf (j : Json) (nb : ℕ) : R BCConfig := do
  let N ← fNat j "N"; let l ← fIntList j "lneu"; let u ← fIntList j "uneu"
  pure { nb := nb, N := N, lNeu := l, uNeu := u }

/-- integer / decision part only -/
def handleSlices (j : Json) : R Json := do
  let nb ← fNat j "nb"
  let c ← cfgOf j nb
  let cnull ← fBool j "cnull"
  let modes := (List.range c.N).map (fun I => obj [
    ("m", jInt (mVal c.N I)), ("m2", jInt (m2Int c.N I)),
    ("lneu", toJson (lNeumann c I)), ("uneu", toJson (uNeumann c I)),
    ("coeff_range", jPair (coeffRange c I)), ("stiff_range", jPair (stiffRange c I)), ("size", jNat (modeSize c I))])
  pure <| obj [("start_range", jNat (startRange c)), ("end_range", jNat (endRange c)), ("n_unknowns", jNat (nUnknowns c)),
    ("poorly", jInts (poorlyDefined c)), ("refuses", toJson (refuses c cnull)), ("modes", Json.arr modes.toArray)]

def handleSolver (j : Json) : R Json := do
  let kn ← fRatList j "knots"; let d ← fNat j "degree"; let ncells ← fNat j "ncells"
  let nb := ncells + d
  let w ← fRatList j "weights"; let mult ← fRat j "mult"
  let xs ← rat2 (← field j "evalpts")
  let nq := w.length
  let A ← rat2 (← field j "A"); let B ← rat2 (← field j "B"); let C ← rat2 (← field j "C")
  let D ← rat2 (← field j "D"); let E ← rat2 (← field j "E")
  let t := fn1 kn; let nk := kn.length
  let X := tab2 xs
  -- basis tables through the evaluation-kernel model
  let ok := (List.range nb).all (fun jj => (List.range ncells).all (fun c => (List.range nq).all (fun q =>
    (unitSplineVal t nk d jj (X c q) false).isSome)))
  if !ok then throw "span search failed"
  let P := memo3 nb ncells nq (fun jj c q => (unitSplineVal t nk d jj (X c q) false).getD 0)
  let dP := memo3 nb ncells nq (fun jj c q => (unitSplineVal t nk d jj (X c q) true).getD 0)
  let Q : Quad Rat := { ncells := ncells, nq := nq, w := fn1 w, mult := mult, x := X }
  let co : Coefs Rat := { A := tab2 A, B := tab2 B, C := tab2 C, D := tab2 D, E := tab2 E }
  let asm := assembleShared d nb Q co P dP
  -- Σ|terms| of every entry: the same assembly on absolute values (A ↦ -|A| because the model negates A)
  let Qa : Quad Rat := { Q with w := fun q => |Q.w q|, mult := |mult|, x := abs2 X }
  let coa : Coefs Rat := { A := fun c q => -|co.A c q|, B := abs2 co.B, C := abs2 co.C, D := abs2 co.D, E := abs2 co.E }
  let Pa := memo3 nb ncells nq (fun jj c q => |P jj c q|)
  let dPa := memo3 nb ncells nq (fun jj c q => |dP jj c q|)
  let asa := assembleShared d nb Qa coa Pa dPa
  let mats (a : Assembled Rat) : Json := obj [("mass", jMat nb nb a.mass), ("k2", jMat nb nb a.k2),
    ("phipsi", jMat nb nb a.phiPsi), ("dphidpsi", jMat nb nb a.dPhidPsi), ("dphipsi", jMat nb nb a.dPhiPsi)]
  let cnull := funcIsNull co.C ncells nq
  let mut out : List (String × Json) := [("matrices", mats asm), ("abs", mats asa), ("cnull", toJson cnull)]
  match j.getObjVal? "N" with
  | .error _ => pure (obj out)
  | .ok _ =>
    let qn := (j.getObjVal? "electrons").toOption
    let c ← match qn with
      | some _ => do let N ← fNat j "N"; pure (qnConfig nb N)
      | none => cfgOf j nb
    let s := startRange c
    -- QN: the m = 0 matrix
    let stiff0 ← match qn with
      | none => pure none
      | some e => do
        let es ← strOf e
        let el ← if es == "kinetic" then pure Electrons.kinetic else do
          let chi ← fInt j "chi"; pure (Electrons.adiabatic chi)
        pure (some (qnStiffness0 el asm s, qnStiffness0 el asa s))
    out := out ++ [("refuses", toJson (refuses c cnull)), ("start_range", jNat s), ("n_unknowns", jNat (nUnknowns c))]
    match stiff0 with
    | some (none, _) => pure (obj (out ++ [("chi_refused", toJson true)]))
    | _ =>
    let nodes ← fRatList j "nodes"
    let V := memo2 nodes.length nb (fun i jj => (unitSplineVal t nk d jj (nodes.getD i 0) false).getD 0)
    let queries ← fList pure j "queries"
    let mut qs : Array Json := #[]
    for qj in queries do
      let I ← fNat qj "I"
      let n := modeSize c I
      let cr := coeffRange c I
      let (M, Ma) : (ℕ → ℕ → Rat) × (ℕ → ℕ → Rat) := match stiff0 with
        | some (some s0, some s0a) =>
            (qnModeMatrix s0 asm c I,
             -- Σ|terms| of the mode matrix: |stiffness| + m²|k2|  (for m = 0 the χ-selected one)
             if m2Int c.N I = 0 then s0a
             else fun a b => sliceSq (fun a b => stiffnessMatrix asa s a b + m2 c.N I * sliceSq asa.k2 s a b) (stiffRange c I).1 a b)
        | _ => (modeMatrix asm c I,
             fun a b => sliceSq (fun a b => stiffnessMatrix asa s a b + m2 c.N I * sliceSq asa.k2 s a b) (stiffRange c I).1 a b)
      let xhat ← fRatList qj "xhat"          -- all nb coefficients recovered from the returned phi slice
      let phi ← fRatList qj "phi"            -- the returned phi slice (values at the nodes)
      let xf := fn1 xhat
      let x : ℕ → Rat := fun a => xf (cr.1 + a)
      let (b, bs) ← match (qj.getObjVal? "rho_c").toOption with
        | some rc => do
          let rcl ← ratList rc
          let rho ← fRatList qj "rho"
          let rcf := fn1 rcl
          let interp := (List.range nodes.length).map (fun i => evalAt nb V rcf i - rho.getD i 0)
          if interp.any (· != 0) then throw "interpolation contract M c = u violated by the supplied rho coefficients"
          pure (modeRhs asm c I rcf, modeRhs asa c I (fun jj => |rcf jj|))
        | none => do
          let ra ← rat2 (← field qj "rho_at")
          pure (modeRhsFunc Q P (tab2 ra) c I, modeRhsFunc Qa Pa (abs2 (tab2 ra)) c I)
      let evalres := (List.range nodes.length).map (fun i => evalAt nb V xf i - phi.getD i 0)
      let res : ℕ → Rat := fun a => matVec n M x a - b a
      let sc : ℕ → Rat := fun a => matVec n Ma (fun jj => |x jj|) a + bs a
      let outside := (List.range nb).filter (fun p => !(cr.1 ≤ p ∧ p < cr.2))
      qs := qs.push (obj [("I", jNat I), ("size", jNat n), ("coeff_range", jPair cr), ("stiff_range", jPair (stiffRange c I)),
        ("m2", jInt (m2Int c.N I)),
        ("matrix", jMat n n M), ("rhs", jVec n b), ("residual", jVec n res), ("scale", jVec n sc),
        ("eval_residual", jRats evalres), ("outside", jList (fun p => jRat (xf p)) outside),
        ("after_buffer", jVec nb (coeffsAfter (fun _ => 99) nb cr x))])
    pure (obj (out ++ [("queries", Json.arr qs)]))

def handle (j : Json) : R Json := do
  let op ← fStr j "op"
  match op with
  | "density" => handleDensity j
  | "slices" => handleSlices j
  | "solver" => handleSolver j
  | _ => throw s!"unknown op {op}"

def main : IO Unit := serve handle
