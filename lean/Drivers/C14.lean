/-
Driver for the density / elliptic solver / quasi-neutrality models (C14, C15, C16) at K := ℚ.
`lake env lean --run Drivers/C14.lean`
-/
import PygyroVerif.DriverUtil
import PygyroVerif.Model.Density
import Mathlib.Algebra.Order.Field.Rat

open Lean PygyroVerif PygyroVerif.DriverUtil

def fn1 (l : List Rat) : ℕ → Rat := let a := l.toArray; fun i => a.getD i 0
def fn2 (l : List (List Rat)) : ℕ → ℕ → Rat :=
  let a := (l.map List.toArray).toArray; fun i j => (a.getD i #[]).getD j 0
def fn4 (l : List (List (List (List Rat)))) : ℕ → ℕ → ℕ → ℕ → Rat :=
  let a := (l.map (fun x => (x.map (fun y => (y.map List.toArray).toArray)).toArray)).toArray
  fun i j k m => (((a.getD i #[]).getD j #[]).getD k #[]).getD m 0

def rat2 (j : Json) : R (List (List Rat)) := listOf ratList j
def rat4 (j : Json) : R (List (List (List (List Rat)))) := listOf (listOf rat2) j

def handleDensity (j : Json) : R Json := do
  let q ← fRatList j "q"
  let feq ← rat2 (← field j "feq")
  let blk ← rat4 (← field j "block")
  let rstart ← fNat j "rstart"
  let pert ← fBool j "perturbed"
  let nc := q.length
  let qf := fn1 q
  let fe := fn2 feq
  -- the harness sends the block the rank owns; its own offset inside the global field is (rstart, ·):
  -- F (rstart+i) (zstart+j) = block i j, realised with zstart = 0 and a shifted accessor
  let b := fn4 blk
  let F : ℕ → ℕ → ℕ → ℕ → Rat := fun r z k l => b (r - rstart) z k l
  let nr := blk.length
  let nz := (blk.headD []).length
  let nt := ((blk.headD []).headD []).length
  let val (i jj k : ℕ) : Rat :=
    if pert then Density.getPerturbedRhoLocal qf nc fe F rstart 0 i jj k
    else Density.getRhoLocal qf nc F rstart 0 i jj k
  let sc (i jj k : ℕ) : Rat :=
    if pert then Density.pertScale qf (Density.localBlock F rstart 0 i jj k) (Density.feqRows fe rstart i) nc
    else Density.rhoScale qf (Density.localBlock F rstart 0 i jj k) nc
  let cube (f : ℕ → ℕ → ℕ → Rat) : Json :=
    jList (fun i => jList (fun jj => jList (fun k => jRat (f i jj k)) (List.range nt)) (List.range nz)) (List.range nr)
  pure <| obj [("rho", cube val), ("scale", cube sc)]

def handle (j : Json) : R Json := do
  let op ← fStr j "op"
  match op with
  | "density" => handleDensity j
  | _ => throw s!"unknown op {op}"

def main : IO Unit := serve handle
