/-
Driver for the density / elliptic solver / quasi-neutrality models (C14, C15, C16) at K := ℚ.
`lake env lean --run Drivers/C14.lean`

Tables are materialised as `Array`s bound by `let` inside the handlers (a `def` returning a closure would be
eta-expanded by the compiler and recompute its table on every call).
-/
import PygyroVerif.DriverUtil
import PygyroVerif.Model.Density
import PygyroVerif.Model.Poisson
import Mathlib.Algebra.Order.Field.Rat

open Lean PygyroVerif PygyroVerif.DriverUtil

abbrev A1 := Array Rat
abbrev A2 := Array (Array Rat)
abbrev A3 := Array (Array (Array Rat))
abbrev A4 := Array (Array (Array (Array Rat)))

def get1 (a : A1) (i : ℕ) : Rat := a.getD i 0
def get2 (a : A2) (i j : ℕ) : Rat := (a.getD i #[]).getD j 0
def get3 (a : A3) (i j k : ℕ) : Rat := ((a.getD i #[]).getD j #[]).getD k 0
def get4 (a : A4) (i j k l : ℕ) : Rat := (((a.getD i #[]).getD j #[]).getD k #[]).getD l 0

def mk1 (n : ℕ) (f : ℕ → Rat) : A1 := Array.ofFn (n := n) (fun i => f i.1)
def mk2 (n m : ℕ) (f : ℕ → ℕ → Rat) : A2 := Array.ofFn (n := n) (fun i => mk1 m (f i.1))
def mk3 (n m p : ℕ) (f : ℕ → ℕ → ℕ → Rat) : A3 := Array.ofFn (n := n) (fun i => mk2 m p (f i.1))

def rat2 (j : Json) : R A2 := do pure ((← listOf ratList j).map List.toArray).toArray
def rat4 (j : Json) : R A4 := do
  let l ← listOf (listOf (listOf ratList)) j
  pure (l.map (fun x => (x.map (fun y => (y.map List.toArray).toArray)).toArray)).toArray

def jA1 (a : A1) : Json := Json.arr (a.map jRat)
def jA2 (a : A2) : Json := Json.arr (a.map jA1)

/-! ### C16 -/

def handleDensity (j : Json) : R Json := do
  let q ← fRatList j "q"
  let feq ← rat2 (← field j "feq")
  let blk ← rat4 (← field j "block")
  let rstart ← fNat j "rstart"
  let pert ← fBool j "perturbed"
  let nc := q.length
  let qa := q.toArray
  let qf : ℕ → Rat := get1 qa
  let fe : ℕ → ℕ → Rat := get2 feq
  -- the harness sends the block the rank owns; its offset inside the global field is (rstart, ·):
  -- F (rstart+i) (zstart+j) = block i j, realised with zstart = 0 and a shifted accessor
  let F : ℕ → ℕ → ℕ → ℕ → Rat := fun r z k l => get4 blk (r - rstart) z k l
  let nr := blk.size
  let nz := (blk.getD 0 #[]).size
  let nt := ((blk.getD 0 #[]).getD 0 #[]).size
  let val (i jj k : ℕ) : Rat :=
    if pert then Density.getPerturbedRhoLocal qf nc fe F rstart 0 i jj k
    else Density.getRhoLocal qf nc F rstart 0 i jj k
  let sc (i jj k : ℕ) : Rat :=
    if pert then Density.pertScale qf (Density.localBlock F rstart 0 i jj k) (Density.feqRows fe rstart i) nc
    else Density.rhoScale qf (Density.localBlock F rstart 0 i jj k) nc
  let cube (f : ℕ → ℕ → ℕ → Rat) : Json :=
    jList (fun i => jList (fun jj => jList (fun k => jRat (f i jj k)) (List.range nt)) (List.range nz)) (List.range nr)
  pure <| obj [("rho", cube val), ("scale", cube sc)]

/-! ### C14 / C15 -/
open PygyroVerif.Poisson

def jPair (p : ℕ × ℕ) : Json := jNats [p.1, p.2]

def cfgOf (j : Json) (nb : ℕ) : R BCConfig := do
  let N ← fNat j "N"; let l ← fIntList j "lneu"; let u ← fIntList j "uneu"
  pure { nb := nb, N := N, lNeu := l, uNeu := u }

/-- integer / decision part only -/
def handleSlices (j : Json) : R Json := do
  let nb ← fNat j "nb"
  let c ← cfgOf j nb
  -- the numbers b for which the harness found `rFactor - b*b*ddThetaFactor` null at every quadrature point
  let nulls ← fIntList j "nulls"
  let cnull : Int → Bool := fun b => nulls.contains b
  let modes := (List.range c.N).map (fun I => obj [
    ("m", jInt (mVal c.N I)), ("m2", jInt (m2Int c.N I)),
    ("lneu", toJson (lNeumann c I)), ("uneu", toJson (uNeumann c I)),
    ("coeff_range", jPair (coeffRange c I)), ("stiff_range", jPair (stiffRange c I)), ("size", jNat (modeSize c I))])
  pure <| obj [("start_range", jNat (startRange c)), ("end_range", jNat (endRange c)), ("n_unknowns", jNat (nUnknowns c)),
    ("poorly", jInts (poorlyDefined c cnull)), ("refuses", toJson (refuses c cnull)), ("modes", Json.arr modes.toArray)]

/-- the five matrices as arrays: `Poisson.assemble`'s definition (`diagsEntry` of `symDiag`/`fullDiag`), with each
    row of the diagonal storage (`symRow`/`fullRow`, lists) computed once -/
def symMat (d nb : ℕ) (term : ℕ → ℕ → Rat) : A2 :=
  let rows : Array (List Rat) := Array.ofFn (n := nb) (fun i => symRow d nb term i.1)
  mk2 nb nb (diagsEntry d (fun li i => (rows.getD i []).getD (aliasIdx d li) 0))

def fullMat (d nb : ℕ) (up lo : ℕ → ℕ → Rat) : A2 :=
  let rows : Array (List Rat) := Array.ofFn (n := nb) (fun i => fullRow d nb up lo i.1)
  mk2 nb nb (diagsEntry d (fun li i => (rows.getD i []).getD li 0))

structure Mats where
  mass : A2
  k2 : A2
  phiPsi : A2
  dPhidPsi : A2
  dPhiPsi : A2

def assembleArrays (d nb : ℕ) (Q : Quad Rat) (co : Coefs Rat) (P dP : ℕ → ℕ → ℕ → Rat) : Mats :=
  { mass := symMat d nb (massTerm d Q co P), k2 := symMat d nb (k2Term d Q co P),
    phiPsi := symMat d nb (phiPsiTerm d Q co P),
    dPhidPsi := fullMat d nb (dPhidPsiUp d Q co P dP) (dPhidPsiLo d Q co P dP),
    dPhiPsi := fullMat d nb (dPhiPsiUp d Q co P dP) (dPhiPsiLo d Q co P dP) }

def Mats.toAssembled (m : Mats) : Assembled Rat :=
  { mass := get2 m.mass, k2 := get2 m.k2, phiPsi := get2 m.phiPsi, dPhidPsi := get2 m.dPhidPsi, dPhiPsi := get2 m.dPhiPsi }

def Mats.json (m : Mats) : Json := obj [("mass", jA2 m.mass), ("k2", jA2 m.k2), ("phipsi", jA2 m.phiPsi),
  ("dphidpsi", jA2 m.dPhidPsi), ("dphipsi", jA2 m.dPhiPsi)]

def absA2 (a : A2) : A2 := a.map (fun r => r.map (fun v => |v|))
def absA3 (a : A3) : A3 := a.map absA2

def handleSolver (j : Json) : R Json := do
  let kn ← fRatList j "knots"; let d ← fNat j "degree"; let ncells ← fNat j "ncells"
  let nb := ncells + d
  let w ← fRatList j "weights"; let mult ← fRatList j "mult"   -- `multFactor[c]`, one per cell (fix F17)
  let xs ← rat2 (← field j "evalpts")
  let nq := w.length
  let tA ← rat2 (← field j "A"); let tB ← rat2 (← field j "B"); let tC ← rat2 (← field j "C")
  let tD ← rat2 (← field j "D"); let tE ← rat2 (← field j "E")
  let kna := kn.toArray
  let t : ℕ → Rat := get1 kna
  let nk := kn.length
  let X : ℕ → ℕ → Rat := get2 xs
  -- basis tables through the evaluation-kernel model
  let Po : Array (Array (Array (Option Rat))) := Array.ofFn (n := nb) (fun jj => Array.ofFn (n := ncells) (fun c =>
    Array.ofFn (n := nq) (fun q => unitSplineVal t nk d jj.1 (X c.1 q.1) false)))
  if Po.any (fun a => a.any (fun b => b.any Option.isNone)) then throw "span search failed"
  let Pa : A3 := Po.map (fun a => a.map (fun b => b.map (fun o => o.getD 0)))
  let dPa : A3 := mk3 nb ncells nq (fun jj c q => (unitSplineVal t nk d jj (X c q) true).getD 0)
  let P : ℕ → ℕ → ℕ → Rat := get3 Pa
  let dP : ℕ → ℕ → ℕ → Rat := get3 dPa
  let wa := w.toArray
  if mult.length != ncells then throw "mult: one value per cell expected"
  let ma := mult.toArray
  let Q : Quad Rat := { ncells := ncells, nq := nq, w := get1 wa, mult := get1 ma, x := X }
  let co : Coefs Rat := { A := get2 tA, B := get2 tB, C := get2 tC, D := get2 tD, E := get2 tE }
  let ms := assembleArrays d nb Q co P dP
  let asm := ms.toAssembled
  -- Σ|terms| of every entry: the same assembly on absolute values (A ↦ -|A| because the model negates A)
  let waa := wa.map (fun v => |v|)
  let xsa := absA2 xs
  let maa := ma.map (fun v => |v|)
  let Qa : Quad Rat := { ncells := ncells, nq := nq, w := get1 waa, mult := get1 maa, x := get2 xsa }
  let nAa : A2 := tA.map (fun r => r.map (fun v => -|v|))
  let aB := absA2 tB; let aC := absA2 tC; let aD := absA2 tD; let aE := absA2 tE
  let coa : Coefs Rat := { A := get2 nAa, B := get2 aB, C := get2 aC, D := get2 aD, E := get2 aE }
  -- scale of a derivative value: B_j' = d (N_j/(t_{j+d}-t_j) - N_{j+1}/(t_{j+d+1}-t_{j+1})) with the degree d-1 functions N: the
  -- floating-point value carries the rounding of BOTH terms, also where they cancel (a basis function at its maximum): the
  -- tolerance scale is d (|N_j|/(..) + |N_{j+1}|/(..)) >= |B_j'|, not |B_j'| itself
  let lowVal : ℕ → ℕ → ℕ → Rat := fun jj c q =>
    if d ≤ 1 then 1 else |(unitSplineVal t nk (d - 1) jj (X c q) false).getD 1|
  let invLen : ℕ → ℕ → Rat := fun a b => if t b - t a = 0 then 0 else 1 / (t b - t a)
  let condD : ℕ → ℕ → ℕ → Rat := fun jj c q =>
    (d : Rat) * (lowVal jj c q * invLen jj (jj + d) + lowVal (jj + 1) c q * invLen (jj + 1) (jj + d + 1))
  let Pab := absA3 Pa
  let dPab : A3 := mk3 nb ncells nq (fun jj c q => max |get3 dPa jj c q| (condD jj c q))
  let msa := assembleArrays d nb Qa coa (get3 Pab) (get3 dPab)
  let asa := msa.toAssembled
  let cnull : Int → Bool := fun b => funcIsNull (fun cc q => co.C cc q - (b : Rat) * (b : Rat) * co.D cc q) ncells nq
  let mut out : List (String × Json) := [("matrices", ms.json), ("abs", msa.json), ("cnull", toJson (cnull 0))]
  match j.getObjVal? "N" with
  | .error _ => pure (obj out)
  | .ok _ =>
    let qn := (j.getObjVal? "electrons").toOption
    let c ← match qn with
      | some _ => do let N ← fNat j "N"; pure (qnConfig nb N)
      | none => cfgOf j nb
    let s := startRange c
    -- QN: the m = 0 matrix
    let stiff0 ← match qn with
      | none => pure none
      | some e => do
        let es ← strOf e
        let el ← if es == "kinetic" then pure Electrons.kinetic else do
          let chi ← fInt j "chi"; pure (Electrons.adiabatic chi)
        pure (some (qnStiffness0 el asm s, qnStiffness0 el asa s))
    out := out ++ [("refuses", toJson (refuses c cnull)), ("start_range", jNat s), ("n_unknowns", jNat (nUnknowns c))]
    match stiff0 with
    | some (none, _) => pure (obj (out ++ [("chi_refused", toJson true)]))
    | _ =>
    let nodes ← fRatList j "nodes"
    let nn := nodes.length
    let nodesA := nodes.toArray
    let Va : A2 := mk2 nn nb (fun i jj => (unitSplineVal t nk d jj (get1 nodesA i) false).getD 0)
    let V : ℕ → ℕ → Rat := get2 Va
    let queries ← fList pure j "queries"
    let mut qs : Array Json := #[]
    for qj in queries do
      let I ← fNat qj "I"
      let n := modeSize c I
      let cr := coeffRange c I
      let absMode : ℕ → ℕ → Rat := fun a b =>
        sliceSq (fun a b => stiffnessMatrix asa s a b + m2 c.N I * sliceSq asa.k2 s a b) (stiffRange c I).1 a b
      let (Mf, Maf) : (ℕ → ℕ → Rat) × (ℕ → ℕ → Rat) := match stiff0 with
        | some (some s0, some s0a) => (qnModeMatrix s0 asm c I, if m2Int c.N I = 0 then s0a else absMode)
        | _ => (modeMatrix asm c I, absMode)
      let Marr := mk2 n n Mf
      let Maarr := mk2 n n Maf
      let xhat ← fRatList qj "xhat"          -- all nb coefficients recovered from the returned phi slice
      let phi ← fRatList qj "phi"            -- the returned phi slice (values at the nodes)
      let xa := xhat.toArray
      let xf : ℕ → Rat := get1 xa
      let x : ℕ → Rat := fun a => xf (cr.1 + a)
      let phia := phi.toArray
      let (b, bs) ← match (qj.getObjVal? "rho_c").toOption with
        | some rc => do
          let rcl ← ratList rc
          let rho ← fRatList qj "rho"
          let rca := rcl.toArray
          let rcaa := rca.map (fun v => |v|)
          let rhoa := rho.toArray
          let interp := (List.range nn).map (fun i => evalAt nb V (get1 rca) i - get1 rhoa i)
          if interp.any (· != 0) then throw "interpolation contract M c = u violated by the supplied rho coefficients"
          pure (mk1 n (modeRhs asm c I (get1 rca)), mk1 n (modeRhs asa c I (get1 rcaa)))
        | none => do
          let ra ← rat2 (← field qj "rho_at")
          let raa := absA2 ra
          let noE := ((qj.getObjVal? "no_e").toOption.bind (fun v => v.getBool?.toOption)).getD false
          if noE then
            pure (mk1 n (modeRhsFunc (rhoVecNoE Q P (get2 ra)) c I), mk1 n (modeRhsFunc (rhoVecNoE Qa (get3 Pab) (get2 raa)) c I))
          else
            pure (mk1 n (modeRhsFunc (rhoVec Q co P (get2 ra)) c I), mk1 n (modeRhsFunc (rhoVec Qa coa (get3 Pab) (get2 raa)) c I))
      let evalres := (List.range nn).map (fun i => evalAt nb V xf i - get1 phia i)
      let res := mk1 n (fun a => matVec n (get2 Marr) x a - get1 b a)
      let rowabs := mk1 n (fun a => matVec n (get2 Maarr) (fun _ => 1) a)
      let outside := (List.range nb).filter (fun p => !(cr.1 ≤ p ∧ p < cr.2))
      qs := qs.push (obj [("I", jNat I), ("size", jNat n), ("coeff_range", jPair cr), ("stiff_range", jPair (stiffRange c I)),
        ("m2", jInt (m2Int c.N I)),
        ("matrix", jA2 Marr), ("matrix_abs", jA2 Maarr), ("rhs", jA1 b), ("rhs_abs", jA1 bs), ("residual", jA1 res),
        ("rowabs", jA1 rowabs),
        ("eval_residual", jRats evalres), ("outside", jList (fun p => jRat (xf p)) outside),
        ("after_buffer", jA1 (mk1 nb (coeffsAfter (fun _ => 99) nb cr x)))])
    pure (obj (out ++ [("queries", Json.arr qs)]))

def handle (j : Json) : R Json := do
  let op ← fStr j "op"
  match op with
  | "density" => handleDensity j
  | "slices" => handleSlices j
  | "solver" => handleSolver j
  | _ => throw s!"unknown op {op}"

def main : IO Unit := serve handle
