/-
Driver for the interpolation / quadrature models (C08, C09) at K := ℚ.  `lake env lean --run Drivers/C08.lean`

A space is described by
  {"kind":"nu","knots":[…],"degree":p,"periodic":b}            general path
  {"kind":"cu","xmin":…,"xmax":…,"dx":…,"ncells":n,"periodic":b}  uniform-cubic path
-/
import PygyroVerif.DriverUtil
import PygyroVerif.Model.Interp
import Mathlib.Algebra.Order.Field.Rat
import Mathlib.Data.Rat.Floor

open Lean PygyroVerif PygyroVerif.DriverUtil PygyroVerif.BSpline PygyroVerif.CubicUniform PygyroVerif.Interp

def fn (l : List Rat) : ℕ → Rat := let a := l.toArray; fun i => a.getD i 0
def fn2 (l : List (List Rat)) : ℕ → ℕ → Rat :=
  let a := (l.map (fun r => r.toArray)).toArray; fun i j => (a.getD i #[]).getD j 0

def jOptRat : Option Rat → Json
  | some q => jRat q
  | none => Json.null
def jOptRats (l : List (Option Rat)) : Json := jList jOptRat l

def ratFloor (q : Rat) : ℤ := Rat.floor q
/-- Python `int(q)`: truncation toward zero -/
def ratTrunc (q : Rat) : ℤ := if 0 ≤ q then Rat.floor q else - Rat.floor (-q)

/-- everything the ops need to know about one 1-D space -/
structure Sp where
  cu : Bool
  degree : ℕ
  periodic : Bool
  nb : ℕ
  ncoeffs : ℕ
  row : Rat → Option (ℕ → Rat)            -- collocation row (repaired)
  rowOld : Rat → Option (ℕ → Rat)         -- collocation row of the unpatched code (last assignment wins)
  eval : (ℕ → Rat) → Rat → Option Rat     -- spline value
  point : ℕ → Rat                         -- model interpolation points
  integ : ℕ → Option Rat                  -- BSplines.integrals (repaired)
  integOld : ℕ → Option Rat               -- BSplines.integrals of the unpatched code
  hyp : Rat → Bool                        -- the point satisfies the hypothesis of interp_reproduces_1d(_cu)

def getSpace (j : Json) : R Sp := do
  let kind ← fStr j "kind"
  let per ← fBool j "periodic"
  match kind with
  | "nu" =>
    let kn ← fRatList j "knots"; let d ← fNat j "degree"
    let S : Space Rat := { t := fn kn, nk := kn.length, degree := d, periodic := per }
    pure { cu := false, degree := d, periodic := per, nb := S.nbasis, ncoeffs := S.ncoeffs,
           row := collocRow S,
           rowOld := fun x => (findSpan S.t S.nk d x).map
             (fun span => rowOfLastWins per S.nbasis d span (basisFuns S.t d x span)),
           eval := fun c x => evalSpline1D S.t S.nk d c x false,
           point := greville ratFloor S,
           integ := integralsGeneral S, integOld := integralsGeneralOld S,
           hyp := fun x => (findSpan S.t S.nk d x).isSome }
  | "cu" =>
    let xmin ← fRat j "xmin"; let xmax ← fRat j "xmax"; let dx ← fRat j "dx"; let nc ← fNat j "ncells"
    let nb := cuNb nc per
    let oldI : Option (ℕ → Rat) := cuIntegralsClampedOld xmin dx nc
    pure { cu := true, degree := 3, periodic := per, nb := nb, ncoeffs := nc + 3,
           row := fun x => some (cuCollocRow ratTrunc xmin dx nc nb per x),
           rowOld := fun x =>
             let so := cuFindSpan ratTrunc xmin dx x (nc : ℤ)
             some (rowOfLastWins per nb 3 so.1.toNat (cuBasisFuns so.2)),
           eval := fun c x => some (cuEvalSpline1D ratTrunc xmin dx (nc : ℤ) c x false),
           point := cuPoints xmin xmax dx nc per,
           integ := cuIntegrals xmin dx nc per,
           integOld := if per then cuIntegrals xmin dx nc per
                       else fun k => if k < nc + 3 then oldI.map (fun f => f k) else none,
           hyp := fun x => decide (0 ≤ ratTrunc ((x - xmin) / dx)) && decide (ratTrunc ((x - xmin) / dx) ≤ (nc : ℤ)) }
  | _ => throw s!"unknown space kind {kind}"

/-- rows of the matrix at the given points as arrays (none if a span search fails) -/
def matrixOf (row : Rat → Option (ℕ → Rat)) (nb : ℕ) (xs : List Rat) : Option (List (List Rat)) :=
  xs.mapM (fun x => (row x).map (fun r => (List.range nb).map r))

def jMat (m : List (List Rat)) : Json := jList jRats m

def handle (j : Json) : R Json := do
  let op ← fStr j "op"
  match op with
  | "make_knots" =>
    let br ← fRatList j "breaks"; let d ← fNat j "degree"; let per ← fBool j "periodic"
    pure <| obj [("knots", jRats ((List.range (br.length + 2 * d)).map (makeKnots (fn br) br.length d per)))]
  | "points" =>
    let sp ← getSpace (← field j "space")
    pure <| obj [("nb", jNat sp.nb), ("points", jRats ((List.range sp.nb).map sp.point))]
  | "interp1d" =>
    -- xgrid: the real interpolation points; u: data; sol: what the real solver returned (nb values)
    let sp ← getSpace (← field j "space")
    let xs ← fRatList j "xgrid"; let u ← fRatList j "u"; let sol ← fRatList j "sol"
    match matrixOf sp.row sp.nb xs, matrixOf sp.rowOld sp.nb xs with
    | some m, some mOld =>
      let M := fn2 m
      let c := computeInterpolant1D sp.periodic sp.nb sp.degree (fn sol) (fun _ => 0)
      let idx := List.range sp.nb
      let lu := bandwidths M sp.nb
      pure <| obj [("matrix", jMat m), ("old_differs", Json.bool (m != mOld)),
        ("residual", jRats (idx.map (fun i => matVec M sp.nb (fn sol) i - (fn u) i))),
        ("scale", jRats (idx.map (fun i => absRow M sp.nb (fn sol) i))),
        ("coeffs", jRats ((List.range sp.ncoeffs).map c)),
        ("values", jOptRats (xs.map (sp.eval c))),
        ("l", jNat lu.1), ("u", jNat lu.2), ("hyp", Json.bool (xs.all sp.hyp))]
    | _, _ => pure <| obj [("matrix", Json.null)]
  | "banded" =>
    let m ← fList ratList j "matrix"; let u ← fNat j "u"; let l ← fNat j "l"
    let n := m.length
    pure <| obj [("bmat", jMat ((List.range (1 + u + 2 * l)).map
      (fun r => (List.range n).map (bandedStore (fn2 m) n u l r))))]
  | "eval" =>
    let sp ← getSpace (← field j "space")
    let c ← fRatList j "coeffs"; let xs ← fRatList j "xs"
    pure <| obj [("values", jOptRats (xs.map (sp.eval (fn c))))]
  | "interp2d" =>
    let s1 ← getSpace (← field j "space1"); let s2 ← getSpace (← field j "space2")
    let x1 ← fRatList j "xgrid1"; let x2 ← fRatList j "xgrid2"
    let U ← fList ratList j "u"; let sol2 ← fList ratList j "sol2"; let sol1 ← fList ratList j "sol1"
    match matrixOf s1.row s1.nb x1, matrixOf s2.row s2.nb x2 with
    | some m1, some m2 =>
      let M1 := fn2 m1; let M2 := fn2 m2
      let i1s := List.range s1.nb; let i2s := List.range s2.nb
      let W := interpolate2D s1.periodic s1.nb s1.degree s2.periodic s2.nb s2.degree (fn2 sol2) (fn2 sol1) (fun _ _ => 0)
      let Wl := (List.range s1.ncoeffs).map (fun k1 => (List.range s2.ncoeffs).map (W k1))
      let Wa := fn2 Wl
      -- tensor evaluation through the 1-D kernels: S(x1_i, x2_j) = eval1(k1 ↦ eval2(W[k1,:], x2_j), x1_i)
      let vals := x1.map (fun a => x2.map (fun b =>
        let inner := (List.range s1.ncoeffs).map (fun k1 => (s2.eval (Wa k1) b).getD 0)
        s1.eval (fn inner) a))
      pure <| obj [
        ("res2", jMat (i1s.map (fun i1 => i2s.map (fun i2 => matVec M2 s2.nb ((fn2 sol2) i1) i2 - (fn2 U) i1 i2)))),
        ("scale2", jMat (i1s.map (fun i1 => i2s.map (fun i2 => absRow M2 s2.nb ((fn2 sol2) i1) i2)))),
        ("res1", jMat (i2s.map (fun i2 => i1s.map (fun i1 =>
            matVec M1 s1.nb ((fn2 sol1) i2) i1 - sweep1Data (fn2 sol2) i2 i1)))),
        ("scale1", jMat (i2s.map (fun i2 => i1s.map (fun i1 => absRow M1 s1.nb ((fn2 sol1) i2) i1)))),
        -- M₁ W M₂ᵀ - U (statement of interp_reproduces_2d) and its scale |M₁||W||M₂ᵀ|
        ("resU", jMat (i1s.map (fun i1 => i2s.map (fun i2 =>
            matVec M1 s1.nb (fun j1 => matVec M2 s2.nb (Wa j1) i2) i1 - (fn2 U) i1 i2)))),
        ("scaleU", jMat (i1s.map (fun i1 => i2s.map (fun i2 =>
            absRow M1 s1.nb (fun j1 => absRow M2 s2.nb (Wa j1) i2) i1)))),
        ("coeffs", jMat Wl),
        ("values", jList jOptRats vals)]
    | _, _ => pure <| obj [("coeffs", Json.null)]
  | "quad" =>
    -- w: the real quadrature coefficients; u, sol: data and the real solver's coefficients for it
    let sp ← getSpace (← field j "space")
    let xs ← fRatList j "xgrid"; let w ← fRatList j "w"; let u ← fRatList j "u"; let sol ← fRatList j "sol"
    let ks := List.range sp.ncoeffs
    let integ := ks.map sp.integ
    let integOld := ks.map sp.integOld
    match matrixOf sp.row sp.nb xs, integ.mapM id with
    | some m, some il =>
      let M := fn2 m
      let bq := basisQuads sp.periodic sp.nb sp.degree (fn il)
      let idx := List.range sp.nb
      pure <| obj [("integrals", jRats il), ("integrals_old", jOptRats integOld),
        ("bq", jRats (idx.map bq)),
        ("qres", jRats (idx.map (fun jj => matTVec M sp.nb (fn w) jj - bq jj))),
        ("qscale", jRats (idx.map (fun jj => matTVec (fun a b => |M a b|) sp.nb (fun a => |(fn w) a|) jj))),
        ("wu", jRat (dot sp.nb (fn w) (fn u))),
        ("wu_scale", jRat (dot sp.nb (fun a => |(fn w) a|) (fun a => |(fn u) a|))),
        ("Ic", jRat (dot sp.nb bq (fn sol))),
        ("Ic_scale", jRat (dot sp.nb (fun a => |bq a|) (fun a => |(fn sol) a|))),
        ("wsum", jRat (dot sp.nb (fn w) (fun _ => 1))),
        ("bqsum", jRat (dot sp.nb bq (fun _ => 1)))]
    | _, _ => pure <| obj [("integrals", Json.null), ("integrals_opt", jOptRats integ)]
  | _ => throw s!"unknown op {op}"

def main : IO Unit := serve handle
