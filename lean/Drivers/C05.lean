/- Driver for the wiring model (C05).  Core Lean only. -/
import PygyroVerif.DriverUtil
import PygyroVerif.Model.Wiring

open Lean PygyroVerif PygyroVerif.DriverUtil PygyroVerif.Wiring

def layoutOf (j : Json) : R Layout := do
  pure (Layout.make (← fNatList j "nprocs") (← fNatList j "ord") (← fNatList j "ext"))

def jCall (c : Call) : Json := Json.arr #[Json.str c.op, jNats c.slice, jNats c.params]

def handle (j : Json) : R Json := do
  let op ← fStr j "op"
  let fixed := (j.getObjValAs? Bool "fixed").toOption.getD true
  match op with
  | "flux" =>
    let L ← layoutOf (← field j "layout"); let c ← fNatList j "coords"
    pure <| obj [("calls", jList jCall (fluxGridStep fixed L c))]
  | "vpar" =>
    let L ← layoutOf (← field j "layout"); let c ← fNatList j "coords"
    let Lp ← layoutOf (← field j "phi_layout"); let cp ← fNatList j "phi_coords"
    let kg ← fBool j "keep"
    pure <| obj [("calls", jList jCall (vparGridStep fixed kg L c Lp cp))]
  | "pol" =>
    let L ← layoutOf (← field j "layout"); let c ← fNatList j "coords"
    let Lp ← layoutOf (← field j "phi_layout"); let cp ← fNatList j "phi_coords"
    pure <| obj [("calls", jList jCall (polGridStep L c Lp cp))]
  | "density" =>
    let L ← layoutOf (← field j "layout"); let c ← fNatList j "coords"
    pure <| obj [("calls", jList jCall (densityRows L c))]
  | "solve" =>
    let L ← layoutOf (← field j "layout"); let c ← fNatList j "coords"
    pure <| obj [("calls", jList jCall (solveModes L c))]
  | _ => throw s!"unknown op {op}"

def main : IO Unit := serve handle
