/- Driver for C06: collective traces of handler / swapper operations and route maps under different tie-break orders.  Core Lean only. -/
import PygyroVerif.DriverUtil
import PygyroVerif.Model.Traces

open Lean PygyroVerif PygyroVerif.DriverUtil PygyroVerif.Handler PygyroVerif.Traces

def handlerOf (j : Json) : R Handler := do
  pure { nprocs := (← fNatList j "nprocs"), ext := (← fNatList j "ext"), names := (← fList strOf j "names"),
         orders := (← fList natList j "orders") }

def groupOf (j : Json) : R (List (String × List Nat)) := do
  pure ((← fList strOf j "names").zip (← fList natList j "orders"))

def swapperOf (j : Json) : R Swapper := do
  pure { groups := (← fList groupOf j "groups"), nprocsRaw := (← fList natList j "nprocs"), ext := (← fNatList j "ext") }

def jCall (c : Call) : Json := Json.arr #[Json.str c.comm, Json.str c.op, jNat c.send, jNat c.recv]

def jRouteMap (names : List String) (rm : RouteMap) : Json :=
  let n := names.length
  Json.arr ((List.range n).map (fun a => Json.arr ((List.range n).map (fun b =>
    if a = b then Json.null else jList (fun i => Json.str (names.getD i "?")) (rm.r a b))).toArray)).toArray

def handle (j : Json) : R Json := do
  let op ← fStr j "op"
  match op with
  | "handler_trace" =>
    let h ← handlerOf j
    let tie ← fNatList j "tie"
    let pairs ← fList (fun p => do pure ((← fStr p "src"), (← fStr p "dst"))) j "pairs"
    let (rm, _) := h.routes tie
    let n := h.nRanks
    let per := (List.range n).map (fun r =>
      let c := coordsOf h.nprocs r
      let calls := pairs.flatMap (fun (p : String × String) =>
        handlerTrace h rm c (fun a => s!"sub{a}") (h.names.idxOf p.1) (h.names.idxOf p.2))
      jList jCall (constructTrace h.nprocs.length ++ calls))
    pure <| obj [("traces", Json.arr per.toArray)]
  | "swapper_trace" =>
    let S ← swapperOf j
    let tie ← fNatList j "tie"
    let pairs ← fList (fun p => do pure ((← fStr p "src"), (← fStr p "dst"))) j "pairs"
    let (rm, _) := S.routes tie
    let hrm := fun i => ((S.handler i).routes (List.range (S.handler i).nLayouts)).1
    let n := prodL S.dims
    let per := (List.range n).map (fun r =>
      let calls := pairs.flatMap (fun (p : String × String) =>
        swapperTrace S rm hrm r (S.allNames.idxOf p.1) (S.allNames.idxOf p.2))
      jList jCall (constructTrace S.maxDims ++ calls))
    pure <| obj [("traces", Json.arr per.toArray)]
  | "routes" =>
    -- route map for a connection graph under several tie-break orders
    let names ← fList strOf j "names"
    let conn ← fList natList j "conn"
    let ties ← fList natList j "ties"
    let maps := ties.map (fun t => jRouteMap names (routeMap names conn t).1)
    pure <| obj [("maps", Json.arr maps.toArray)]
  | "checkpoint_trace" =>
    -- the collectives of Grid.writeH5Dataset with their arguments (the same on every member)
    let n ← fNatList j "nglobal"
    let ord ← fNatList j "ord"
    let file ← fStr j "file"
    let tr := checkpointTrace true n [] ord file
    pure <| obj [("trace", Json.arr (tr.map (fun c => obj [("op", Json.str c.op), ("name", Json.str c.name), ("shape", jList (fun x => toJson x) c.shape)])).toArray)]
  | _ => throw s!"unknown op {op}"

def main : IO Unit := serve handle
