/-
Driver for the C20 model (process-grid selection).  Core Lean only.
Run: `lake env lean --run Drivers/C20.lean`, one JSON request per line.

  {"op":"frommax","m1":..,"m2":..,"s":..}          -> {"kind":"grid","n1":..,"n2":..} | {"kind":"error"} | {"kind":"fuel"}
  {"op":"grid","npts":[..4..],"s":..}               -> same
  {"op":"box","m1":..,"M2":..,"S":..}               -> {"codes":[...]}  for m2 = 1..M2 (outer), s = 1..S (inner):
                                                       n1*2^20 + n2 for a grid, 0 for error, 1 for out-of-fuel
  {"op":"standard","npts":[..],"n1":..,"n2":..}     -> per standard layout the minimal block length over all process
                                                       coordinates in each of the 4 axes, and the `compatible` matrix
-/
import PygyroVerif.DriverUtil
import PygyroVerif.Model.Blocks
import PygyroVerif.Model.Layout
import PygyroVerif.Model.ProcGrid

open Lean PygyroVerif PygyroVerif.DriverUtil PygyroVerif.ProcGrid

def outcomeJson : Outcome → Json
  | .grid a b => obj [("kind", Json.str "grid"), ("n1", jNat a), ("n2", jNat b)]
  | .noGrid => obj [("kind", Json.str "error")]
  | .outOfFuel => obj [("kind", Json.str "fuel")]

def outcomeCode : Outcome → Nat
  | .grid a b => a * 1048576 + b
  | .noGrid => 0
  | .outOfFuel => 1

/-- minimal block length of axis `i` of layout `L` over the process coordinates of that axis -/
def minLenAt (L : Layout) (i : Nat) : Nat :=
  let n := L.extAt i
  let p := L.procsAt i
  ((List.range p).map (blockLen n p)).foldl min n

def handle (j : Json) : R Json := do
  let op ← fStr j "op"
  match op with
  | "frommax" =>
    let m1 ← fNat j "m1"; let m2 ← fNat j "m2"; let s ← fNat j "s"
    pure (outcomeJson (procGridFromMax m1 m2 s))
  | "grid" =>
    let npts ← fNatList j "npts"; let s ← fNat j "s"
    pure (outcomeJson (procGrid npts s))
  | "box" =>
    let m1 ← fNat j "m1"; let M2 ← fNat j "M2"; let S ← fNat j "S"
    let codes := (List.range M2).flatMap (fun a => (List.range S).map (fun b =>
      outcomeCode (procGridFromMax m1 (a + 1) (b + 1))))
    pure <| obj [("codes", jNats codes)]
  | "standard" =>
    let npts ← fNatList j "npts"; let n1 ← fNat j "n1"; let n2 ← fNat j "n2"
    let lays := standardLayouts.map (fun o => Layout.make [n1, n2] o npts)
    pure <| obj [("orders", jList jNats standardLayouts),
                 ("minlen", jList (fun L => jNats ((List.range 4).map (minLenAt L))) lays),
                 ("compatible", jList (fun a => jList (fun b => Json.bool (compatible [n1, n2] a b)) standardLayouts)
                    standardLayouts)]
  | _ => throw s!"unknown op {op}"

def main : IO Unit := serve handle
