#!/usr/bin/env python3
"""Regenerates /verif/MANIFEST.json from the table below (single source of truth for what is claimed)."""
import json
import os

HERE = os.path.dirname(os.path.dirname(os.path.abspath(__file__)))
NOTE_COMMON = ('Trusted: Lean 4.33 kernel + axioms propext/Classical.choice/Quot.sound (audited every run by #print axioms; '
               'no sorry/native_decide/bv_decide/own axioms: grep every run); the hand-written Lean model is tied to /repo only by '
               'the correspondence check of the run (differential testing, generator-bounded); simulated mpi4py (threads + baton '
               'scheduler) replaces the absent MPI library; CPython/numpy semantics.')

# id -> (level, technique, text, note, design_ref)
CLAIMS = {
    'C02': ('proof', 'Lean 4 theorems on a hand-written model + exact correspondence with the real Layout/Grid objects',
            'Theorems for all n, p>=1, k (blockStart_last, blockLen_bounds, blocks_tile, lengths_sum, maxBlock_is_upper/attained, '
            'axis_local_global_bijective, accessor specs) about the model of Layout.__init__ and the Grid accessors; the model is run '
            'against the real classes on an exhaustive (n,p) box and random layouts/grids on every simulated rank, exactly.',
            NOTE_COMMON, 'DESIGN.md 4/C02'),
}
CLAIMS['C01'] = ('proof', 'Lean 4 theorems (address arithmetic, abstract pack/Alltoall/unpack step, route-following buffer rotation proved for the model function) + exact correspondence of an executable numpy-view-level model with the real LayoutHandler on simulated ranks',
    'Theorems for all ranks of the array / extents / process counts / route lengths: addresses_in_bounds, addresses_injective, block_concatenation, '
    'direct_step_correct (padded uneven blocks included), route_transpose_correct_nobuf/_buf (odd and even routes, source intact with a spare buffer) '
    'about Model/Handler.lean; transpose_defect_a1_zero is the kernel-evaluated witness of the defect repaired by fix: c48bf2a. The executable model '
    '(statement-by-statement transcription with strided views, Alltoall on all ranks) is compared exactly with the real code: connections, bufferSize, '
    'route map, every destination block, source intactness, refusals. Props/C01Extra.lean proves the bridge: the EXECUTABLE directStep (views, padded blocks, both '
    'rearrange branches) satisfies the step contract for every well-formed handler and accepted pair (directStep_correct, directStep_satisfies_contract), and '
    'transposeWorld_correct(_bufferSize) is the end-to-end statement for the executable transpose; bufferSize_suffices.',
    NOTE_COMMON, 'DESIGN.md 4/C01')
CLAIMS['C04'] = ('proof', 'Lean 4 refinement theorem (induction over operation histories) on a state-machine model of Grid + exact correspondence with real Grid objects',
    'grid_refines_spec: for every history of set-layout/write/save/restore/free (any length) the buffer-index state machine of grid.py refuses exactly '
    'what a single global array with an optional saved copy refuses, and the data block always holds the spec field in the spec layout; a held save is never '
    'scratch/destination of a transpose nor overwritten (step_refines, init_related, history_behaves_like_global_array). The model is compared after every '
    'operation with real Grid objects over LayoutHandler and over the driver\'s LayoutSwapper on 1-6 simulated ranks (refusal, currentLayout, index triple, '
    'notSaved, visible field).', NOTE_COMMON + ' The transpose contract (C01/C03) enters as the meaning of LayoutManager.transpose.', 'DESIGN.md 4/C04')
CLAIMS['C03'] = ('proof', 'Lean 4 theorems (abstract gather/scatter steps, constructor decision logic for the simulation grouping for all P0,P1, soundness of the repaired compatibility test) + exact correspondence of an executable LayoutSwapper model with the real code on simulated ranks',
    'gather_correct (Allgather of padded blocks + unpack => every member holds the field, replicas identical), scatter_correct, driver_comm_axes (for EVERY P0,P1>=1 '
    'the driver grouping gets communicators [0,1],[0],[1], equal extents and 1 included), compatible_sound_equal_axes (repaired code) and the kernel-evaluated witness '
    'compatible_unsound_equal_axes of the defect repaired by the fix: commit; chains of steps are covered by C01.route_transpose_correct_* (stated over an arbitrary step). '
    'The executable model (constructor, communicator choice, _compatibleLayout, getAxes, bufferSize, equal/scatter/gather steps, redirects) is compared exactly with the real '
    'LayoutSwapper on random groupings and walks: constructor outcome, buffer sizes, route map, every destination block after every step, source intactness.',
    NOTE_COMMON, 'DESIGN.md 4/C03')
CLAIMS['C06'] = ('proof', 'Lean 4 theorems about an abstract machine of blocking matched collectives (progress, persistence, termination for every schedule) + per-configuration validation of its hypothesis on the real code under a schedulable simulated MPI + exact model traces',
    'progress / no_deadlock / enabled_disjoint / enabled_persist / fire_remaining / schedule_terminates: if the per-rank programs are projections of one global event list, '
    'no arrival order can block and every schedule completes all events. The hypothesis is established per configuration on the real code: one complete run yields the event '
    'list, every rank trace must be its projection and must be identical under other scheduler policies (and all choice sequences of depth 5 on <=3 ranks); operation/root/'
    'count/datatype agreement is checked at every rendezvous. Model/Traces.lean predicts each rank\'s (communicator, operation, counts) for handler/swapper construction and '
    'all transposes: compared exactly. Route choice: real _makeConnectionMap in interpreters with different PYTHONHASHSEED, compared with each other, with the model under '
    'several tie-break orders, and with a BFS shortest-path oracle. Also run: grid reductions/figure blocks with a plot-only rank, and the real driver for one step.',
    NOTE_COMMON + ' Real MPI semantics (blocking collectives matched per communicator in program order) are assumed; route determinism is a theorem (C06Extra.route_deterministic / route_canonical, for distinct layout names), additionally run under different PYTHONHASHSEED.', 'DESIGN.md 4/C06')
CLAIMS['C05'] = ('proof', 'Lean 4 theorems on a model of the grid-level loops (which index expressions reach the kernels) + exact wiring-trace correspondence on the real operators + end-to-end serial-vs-parallel oracle',
    'wiring_flux / wiring_vpar / wiring_pargrad / wiring_poloidal / wiring_density / wiring_solve / wiring_init: for every layout, process grid and rank each kernel call gets the '
    'parameters of its slice\'s own global coordinates; gridop_decomposition_independent: hence the assembled global result equals kern(T g)(F g) for every number of ranks (kernel '
    'arbitrary), serial_run; flux_wiring_defect / vpar_wiring_defect: the pre-fix index expressions violate it. The real operators run on forced process grids with wrapped kernels; '
    'every call (global slice, global parameter indices) is compared exactly with the model call list. Independent oracle: initial distribution, each operator on random fields and two '
    'full driver steps on every listed process grid vs the serial run (bit-identity recorded, rounding-level agreement required).',
    NOTE_COMMON + ' Kernels are uninterpreted in the theorems; layout changes enter through C01/C03; arrival orders through C06.', 'DESIGN.md 4/C05')
CLAIMS['C10'] = ('proof', 'Lean 4 theorems over an arbitrary ordered field on a transcription of the flux-surface step + exact-rational correspondence with the real FluxSurfaceAdvection.step',
    'flux_step_formula (the two loops compute sum_k c_k S_{(i+s_k) mod nz}(pts)), stencil_centred, lagrange_weights_are_basis (both np.where branches = Mathlib Lagrange.basis), '
    'lagrange_weights_sum_one, lagrange_on_node, flux_preserves_constants, flux_linear(_coeffs), flux_commutes_z_shift, flux_exact_shift; spline interpolation of the theta rows and '
    'b_z / iota arithmetic are contract inputs measured each run. The model runs at Q on the floats the code used and is compared entry-wise (64 eps x condition scale); independent '
    'numpy/scipy oracle of the stated formula and its algebraic consequences on the real code.', NOTE_COMMON, 'DESIGN.md 4/C10')
CLAIMS['C13'] = ('proof', 'Lean 4 theorems over an arbitrary field on a transcription of ParallelGradient.parallel_gradient + exact-rational correspondence',
    'pargrad_regimes_eq_mod (all three index regimes address row (i-s) mod nz, numpy negative wrap included), pargrad_three_loops_eq_one, pargrad_formula, pargrad_refused_iff, '
    'pargrad_linear(_coeffs), weights_sum_zero, pargrad_constants_zero, pargrad_fieldline_constant_zero, pargrad_commutes_z_shift, stencil_symmetric_even_order, stencil_odd_order, '
    'fd_exact_for_polynomials_partial, fd_truncation_bound; the analytic convergence clause stays a stated-only def (fd_converges_with_order_statement) and is measured as a test. '
    'FD weights from numpy.linalg.solve enter as the moment-system contract whose residual is measured exactly.', NOTE_COMMON, 'DESIGN.md 4/C13')

CLAIMS['C07'] = ('proof', 'Lean 4 theorems over an arbitrary ordered field on transcriptions of the general and uniform-cubic spline kernels + exact-rational correspondence with every entry point',
    '23 theorems: findSpan_some_correct (the binary search terminates within its fuel and returns the containing cell), findSpan_unique, basis_sum_one, basis_nonneg, ders_sum_zero, '
    'basisFuns_eq_coxDeBoor, evalSpline1D_eq_dot/_eq_sum/_right_end (value = sum c_i N_{i,p}(x) on the closed domain), entrypoints, evalSpline2D_eq_tensor, cubic_eq_general, '
    'cuFindSpan_correct, cubic_same_cell, cubic_path_eq_general_path(_2d), ders_is_derivative (degree-lowering output = formal derivative of the cell polynomial in K[X]), '
    'evalSpline1D_der_is_derivative, periodic_shift, periodic_ends_equal. The array/vector/cross/in-place entry points (hand-duplicated loops in the code) are tied to the scalar kernels by '
    'the correspondence, not by theorems. Model at Q vs Spline1D/2D.eval, eval_vector, BSplines[i], all raw nu_*/cu_* kernels, all (der1,der2), breakpoints, ends, one ulp inside; '
    'independent oracle scipy.interpolate.BSpline + identities.', NOTE_COMMON, 'DESIGN.md 4/C07')
CLAIMS['C08'] = ('proof', 'Lean 4 theorems (index bookkeeping of collocation, periodic wrap, banded storage, two-sweep 2-D solve) under the linear-solver contract + exact-rational residual/value correspondence',
    'wrap_consistent, computeInterpolant1D_spec, eval_eq_collocRow, interp_reproduces_1d(_cu), interp_complex_componentwise, banded_index_roundtrip, bandedStore_entry, '
    'interp_reproduces_2d(_eval); poly_reproduction_partial only under stated unisolvence (full clause kept as poly_reproduction_statement and decided by the exact-Q model + Fraction oracle = test); '
    'lastWins_loses_entry is the witness of the defect repaired by fix: b4f719e. LAPACK/SuperLU output is fed to the model, which returns exact residuals (bound CN*eps*sum|M||c|, CN=16384, observed max ratio 73).',
    NOTE_COMMON + ' Third-party solvers (dgbtrf/dgbtrs, splu) are contracts whose residual is measured on every run.', 'DESIGN.md 4/C08')
CLAIMS['C09'] = ('proof', 'Lean 4 theorems (quadrature duality, adjoint of the periodic wrap, sums, circulance on uniform periodic knots) + exact-rational correspondence of integrals and weights with independent piecewise integration',
    'quad_duality, basisQuads_adjoint_of_wrap, quad_integrates_interpolant, weights_sum_domain(_model), collocation_rows_sum_one, fullIntegral_eq, periodic_full_integral, periodic_full_sum, '
    'uniform_periodic_equal_weights_partial/_model, uniform_periodic_collocation_circulant, witnesses old_mirror_wrong / old_cubic_few_cells_wrong of the defects repaired by fix: f2e708d, 51c4328. '
    'Not proved (stated-only defs): integrals_antiderivative_statement, uniform_periodic_equal_weights_statement — covered by exact-Q agreement with independent cell-polynomial integration (test).',
    NOTE_COMMON, 'DESIGN.md 4/C09')
CLAIMS['C11'] = ('proof', 'Lean 4 theorems on a transcription of v_parallel_advection_eval_step (three boundary modes, wrap loops with termination) + exact-rational correspondence',
    'vpar_step_formula, vpar_boundary_rule (FEQ r foot / 0 / interpolant at the periodic image inside [vMin,vMax]), vpar_wrap_terminates, vpar_zero_shift_identity, vpar_linear_inside; equilibrium values '
    'are tagged in the model and compared with the real f_eq; grid-level wiring clause is C05. Exact family: feet exactly on vMin/vMax/nodes and +-1 ulp.', NOTE_COMMON, 'DESIGN.md 4/C11')
CLAIMS['C12'] = ('proof', 'Lean 4 theorems on a transcription of both time schemes over abstract evaluators (decision logic, algebra, the analytic clauses under an explicit Lipschitz hypothesis) + exact-rational correspondence + independent numerical oracle',
    'Props/C12.lean: pol_heun_formula, pol_boundary_rule, pol_impl_feet_in_domain, pol_constant_potential_identity, pol_rigid_rotation, pol_impl_fixed_point_stops, pol_impl_terminates_partial. Props/C12Extra.lean (12, + Lemmas/PolOrder, PolOrderModel): the two '
    'analytic clauses - heun_vs_trapezoid_third_order (|foot_E - foot_I| <= L^2 M |dt|^3 / 4 for an L-Lipschitz drift bounded by M, any sign of dt, any real normed space), heun_vs_converged_iteration / heun_vs_every_iterate (the same for the iterate the stop rule returns: '
    '+ q tol/(1-q), resp. L^2 M |dt|^3/(4(1-q)) for every iterate from the second on, q = |dt| L / 2), trapezoid_iteration_contracts / _terminates(_node) (explicit iteration count), trapezoid_fixed_point_exists (Banach); tied to the model: model_iteration_eq '
    '(the model\'s sweep, theta modulo included, is the trapezoid map), model_heun_eq, pol_impl_terminates_of_contraction (for q < 1 the MODEL\'s implicit step returns for some fuel, clipping and modulo included, over any Archimedean field), pol_expl_impl_third_order. '
    'The hypotheses (Lipschitz drift, periodic evaluators) are about the abstract evaluators, not proved for the splines; without contraction the real while loop need not end (no iteration cap: observation). The correspondence runs both schemes at Q on the floats of the code; '
    'the independent oracle is a vectorised numpy implementation with scipy splines (dt-scaling of the difference measured: order 2.9-3.2).',
    NOTE_COMMON + ' The implicit model takes fuel and rounds carried iterates to 2^-80 (exact rationals grow exponentially).', 'DESIGN.md 4/C12')
CLAIMS['C17'] = ('proof', 'Lean 4 theorems (local weights are slices of the global ones, sum over ranks in any order = serial quadrature, replicated layouts, closed forms for f=1, min/max of blocks, slot index) + exact-rational correspondence',
    '19 theorems incl. local_weights_are_global_slices, local_axes_are_layout_ranges, sum_over_ranks_eq_global (List.Perm), sum_over_ranks_replicated, trapezoid_volume_of_one(_3d,_ke), min_max_of_blocks, '
    'extrema_of_local_extrema, collect_slot(_floor,_injective_in_window,_refuses_float). Real diagnostics and DiagnosticCollector.reduce on all process grids <= 6-8 ranks, three reduce orders, random complex fields.',
    NOTE_COMMON, 'DESIGN.md 4/C17')
CLAIMS['C18'] = ('proof', 'Lean 4 theorems on a store model and on a loop program REGENERATED from fullSimulation.py on every run (translator) + correspondence with real HDF5 files and real driver runs',
    'write_read_roundtrip (any writer/reader partitions), latest_selected / restart_choice / restart_time_parsed (selection by parsed time as repaired by fix cf9d895: NO bound on the times, any folder and convention name; latestLex_wrong_beyond_six_digits describes the selection by name before the fix, finding F10), latest_first_of_ties, selection_fails_iff, padded_lex_order, loop bookkeeping on the generated script '
    '(pre/body/post_counters, run_closed_form, no_zero_division, final_state_checkpointed, loop_split for every saveStep>=1), data flow (pass_is_function_of_f, restart_equals_continue), '
    'constants_print_parse_roundtrip, constants_order_independent_partial. harness/translate_driver.py (ast) regenerates lean/PygyroVerif/Generated/TimeLoop.lean from the working tree before the build and refuses '
    'unknown source shapes (=> proof obligation broken). Oracles: bitwise HDF5 round trips p->p\' ranks, restart selection, constants round trip with permuted keys, driver N then M vs N+M.',
    NOTE_COMMON + ' HDF5 = array store and the translator (about 700 lines of Python over ast) are trusted.', 'DESIGN.md 4/C18')
CLAIMS['C19'] = ('translation_validation', 'differential execution of every exported kernel: interpreted reference vs pythran copies (as Python), numba copies (stub numba), and (thorough) the pyccel+gfortran build of a scratch copy; line coverage of the reference measured',
    'No Lean theorem decides this property: there is no formal semantics of pyccel+gfortran. The reference semantics of the kernels are the models proved in C07/C10-C12/C16; this check validates the translations: '
    '38 functions + 16 specialised variants, outputs and in-place updates within 1e-12 of the magnitude of the summed terms (bit-equality recorded), function-name and parameter-name parity, build success (thorough). '
    'Known finding F11 (numba initialiser lacks 5 functions) is listed in KNOWN_FINDINGS.json.',
    'pyccel/gfortran tool chain of this machine; numba/pythran compilers are not installed (copies run as Python).', 'DESIGN.md 4/C19')
CLAIMS['C20'] = ('proof', 'Lean 4 theorems on a transcription of both process-grid functions (loops with fuel + proof that the fuel suffices) + exhaustive-box correspondence',
    'procgrid_terminates, procgrid_valid, nondivisor_never_accepted, nondivisor_strictly_worse, procgrid_error_iff, procgrid_returns_iff, blocks_nonempty_of_bounds, compatible_flux_vpar, compatible_vpar_pol, '
    'standard_layouts_buildable. Exhaustive box max1,max2<=30,size<=64 (thorough 60/60/128) + random to 1e6 vs the real functions (exact) and a brute-force divisor oracle; real setupCylindricalGrid builds on <= 8 ranks.',
    NOTE_COMMON + ' Float vs exact ratio comparisons can differ only on exact ties (proved: nondivisor_strictly_worse).', 'DESIGN.md 4/C20')

CLAIMS['C14'] = ('proof', 'Lean 4 theorems on a model of the assembly and the per-mode solve (every clause of the statement is a theorem; the Gauss-Legendre rule and the sparse solver enter as stated contracts) + exact-rational correspondence of all assembled matrices and residuals + independent manufactured-solution oracle',
    'Props/C14.lean (16): slices_consistent, assembled_is_quadrature_weak_form (every stored entry is the quadrature of the stated weak form, boundary rows/columns removed for Dirichlet ends), quadSum_is_gauss_sum, mass_symmetric, '
    'solve_linear_in_rho, coeffs_buffer_history_free, modes_independent, dirichlet_zero_at_boundary, neumann_refusal_iff / funcIsNull_iff / accepted_has_no_pure_neumann_mode (ValueError exactly for pure Neumann with C = 0), '
    'function_rhs_agrees_when_rhoFactor_one. Props/C14Extra.lean (24): the exactness clause - manufactured_exact(_algebraic,_discrete,_splines,_kernels): if the reference rule is exact to the constructor degree (RefExact: a stated '
    'contract on numpy leggauss, not proved - Mathlib has no Gauss-Legendre theory) and phi* in the spline space satisfies the strong form at the quadrature points and the natural condition at a Neumann end, then the '
    'assembled system holds for phi* and, the mode matrix having trivial kernel, ANY solve returns phi*; quadExact_of_reference_rule for arbitrary breaks (its proof exposed finding F17: one half-width for all cells; repaired by fix '
    'b54f0ae, the behaviour before the fix is old_single_multFactor_not_exact with a kernel-checked witness). The correspondence runs the model at Q on the code\'s own floats (uniform and graded radial breaks) and compares every '
    'matrix entry and the exact residual of every solve; the manufactured-solution oracle (dense scipy + leggauss) is independent of the model.',
    NOTE_COMMON + ' Contracts: leggauss(n) is exact to degree 2n-1 (stated as RefExact), spsolve/splu/banded LU return a solution of the system they are given (residual measured exactly every run).', 'DESIGN.md 4/C14')
CLAIMS['C15'] = ('proof', 'Lean 4 theorems (DFT round trip via Mathlib ZMod.dft, mode numbers, chi selection, per-mode operator, reality, equilibrium fixed point of the time loop REGENERATED from fullSimulation.py) + correspondence of the full pipeline on simulated ranks with an independent dense per-mode solve',
    'Props/C15.lean: dft_roundtrip, dft_formulas (getModes / findPotential are mutually inverse DFTs), mvals_alias, mval_zero_iff, mval_injective, m2_symmetric, chi_selects_stiffness, mode_operator_formula, '
    'pipeline_zero_for_equilibrium, star_dft_of_real, star_invDFT_of_herm, potential_real_for_real_density (operators with L(-k) = L(k)). Props/C15Extra.lean: equilibrium_fixed_point(_passes,_run,_kernels) and '
    'equilibrium_initial_potential about the loop body regenerated from the driver on every run: (f_eq, phi = 0) is kept by pre, one pass, any number of passes and post; the eight kernel contracts are instantiated from the theorems of '
    'C10-C13/C15/C16, the five layout/save/restore contracts are those of C01/C03/C04 on global arrays. The three electron models (chi 0 / 1 / kinetic), custom profile functions and non-default profile constants are run through the real '
    'pipeline on every process grid and compared with the model and with a dense per-mode solve. FFTPACK = DFT is a contract checked against a dense DFT every run.',
    NOTE_COMMON + ' Contracts: numpy.fft = DFT, spsolve, interpolation reproduces nodal data (C08), the elliptic solve of C14.', 'DESIGN.md 4/C15')
CLAIMS['C16'] = ('proof', 'Lean 4 theorems on a transcription of get_rho/get_perturbed_rho as DensityFinder calls them + exact-rational correspondence on all process grids',
    'density_is_quadrature (equilibrium row taken at the GLOBAL radial index; a negative example shows the local-index variant differs), density_decomposition_independent, density_linear, density_perturbed_affine, '
    'density_zero_for_equilibrium, density_exact_in_spline_space (from the quadrature duality). Oracle: exact Fraction integral of the exact v-interpolant minus f_eq at the slice\'s own global radius; identical assembled result for every decomposition.',
    NOTE_COMMON, 'DESIGN.md 4/C16')
PENDING = {
}
ALL = ['C%02d' % i for i in range(1, 21)]


ADDENDA = {
    'C02': ' Props/C02Extra.lean: bufferSize_ge_size(_of_accepted) etc. - every block of every layout of an accepted handler fits the advertised buffer on every rank. Tie by TRANSLATION as well: harness/translate_pure.py regenerates Generated/BlocksGen.lean from the block-arithmetic loop of Layout.__init__ on every run (refuses anything outside its subset) and Props/C02Gen.lean proves the generated definitions equal the model (gen_*_eq) and restates the partition facts on them.',
    'C03': ' Over-decomposed groupings are part of the correspondence since the repairs F16a/F16b. Props/C03Bridge.lean (2900 lines of lemmas): the EXECUTABLE crossStep (scatter / gather with padded Allgather and per-rank unpack / equal) is correct for every well-formed swapper and accepted pair (crossStep_correct, crossStep_replicas_identical, crossStep_satisfies_contract), routes mixing handler and cross steps (swapperRoute_correct_*), swapperTranspose_correct for the executable transpose, scatter_after_gather_roundtrip. Props/C03Extra.lean: compatible_sound_differ_by_one, unmatched_dimension_not_distributed, commAxes_length/nodup - soundness of the differ-by-one branch of _compatibleLayout/getAxes.',
    'C04': ' Tie by TRANSLATION as well: harness/translate_pure.py regenerates Generated/GridGen.lean from Grid.setLayout / saveGridValues / freeGridSave / restoreGridValues (statements in source order, over a state that also records which layout self._layout is and what self._f views) on every run and Props/C04Gen.lean proves gen_step_eq / gen_run_eq (generated state machine = model on every reachable state, view invariant kept) and source_history_behaves_like_global_array.',
    'C01': ' Since the repair of F15 over-decomposed configurations (ranks owning empty blocks) are part of the correspondence.',
    'C20': ' Tie by TRANSLATION as well: harness/translate_pure.py regenerates Generated/ProcGridGen.lean (both functions of process_grid.py, every while loop a fuel-recursive function over the record of all locals, / in exact rationals) on every run and Props/C20Gen.lean proves gen_from_max_eq / gen_procGridFromMax_eq / gen_procGrid_eq (generated = model for all inputs with max_proc1, size >= 1 and every sufficient fuel) and gen_procgrid_spec (termination, validity, RuntimeError iff no factorisation, stated on the generated function).',
    'C07': ' Tie by TRANSLATION for the binary search: harness/translate_pure.py regenerates Generated/FindSpanGen.lean from nu_find_span on every run and Props/C07Gen.lean proves gen_find_span_eq / gen_find_span_correct (the generated span search returns what the model returns; terminates and finds the containing cell on sorted knots); targets basisfuns / eval1d regenerate nu_basis_funs, nu_basis_funs_1st_der and nu_eval_spline_1d_scalar and Props/C07Gen2.lean proves gen_basis_funs_eq, gen_basis_funs_1st_der_eq, gen_eval_spline_1d_eq/_total (generated kernels = model for every knot vector, degree and point); target cueval regenerates the cubic-uniform kernels (cu_find_span with int() as truncation toward zero, cu_basis_funs, cu_basis_funs_1st_der, cu_eval_spline_1d_scalar) and Props/C07Gen3.lean proves gen_cu_*_eq and gen_cu_eval_eq_general_path (generated fast path = general-path model on the uniform knots, inside the domain); target evalvec regenerates the 1-D vector entry points and Props/C07Gen4.lean proves gen_nu_eval_vector_eq/_total and gen_cu_eval_vector_eq/_model (y[k] = the scalar evaluation at x[k], nothing beyond); target eval2d regenerates the 2-D scalar evaluators and Props/C07Gen5.lean proves gen_eval_spline_2d_eq/_model/_total and gen_cu_eval_spline_2d_eq / gen_cu_eval_2d_eq_general_path (tensor-product sum over the 2-D coefficient window, all four derivative combinations); targets cross2d / vec2d regenerate the table and point-list 2-D entry points and Props/C07Gen6.lean, C07Gen7.lean prove gen_nu_cross_*, gen_cu_cross_*, gen_nu_vec_*, gen_cu_vec_* (every entry = the scalar evaluation at its own point, nothing else written).',
    'C10': ' Tie by TRANSLATION for the kernel: translate_pure.py --only flux regenerates Generated/FluxGen.lean from flux_advection (2-D/3-D arrays, augmented assignment) and Props/C10Gen.lean proves gen_flux_advection_eq / _sum / gen_flux_step_formula (generated triple loop = model = closed form, other entries untouched); target lagvals regenerates get_lagrange_vals and Props/C10Gen2.lean proves gen_lagrange_vals_eq / gen_lagrange_vals_entry (vals[(i - s_j) mod nz, k, j] = E((q_k + thetaShift_j) mod 2pi), nothing else written).',
    'C11': ' Tie by TRANSLATION: translate_pure.py --only vpar regenerates Generated/VParGen.lean from general_v_parallel_advection_eval_step (three boundary modes, enumerate, two while loops with fuel, f_eq and the spline evaluation as uninterpreted functions) and Props/C11Gen.lean proves gen_vpar_eq (generated = model boundary rule, nothing else written), gen_vpar_fEq_null, gen_vpar_other_bound, gen_vpar_periodic_total / _terminates (fuel N+1 is exactly the model\'s).',
    'C16': ' Tie by TRANSLATION: translate_pure.py --only density regenerates Generated/DensityGen.lean from get_rho / get_perturbed_rho (poisson_tools.py; real instance of the TypeVar) and Props/C16Gen.lean proves gen_get_rho_eq / gen_get_perturbed_rho_eq (every entry inside the box = the model kernel, entries outside untouched, previous content irrelevant) and gen_density_is_quadrature.',
    'C12': ' Tie by TRANSLATION for the explicit scheme: translate_pure.py --only polexpl regenerates Generated/PolExplGen.lean from general_poloidal_advection_step_expl (spline evaluations and f_eq as uninterpreted functions, float % as a - b*floor(a/b), pi a parameter) and Props/C12Gen.lean proves gen_pol_expl_eq (every node gets what the model\'s explicit step prescribes; contract: the cross-evaluation tables equal the scalar evaluator at the nodes) and gen_pol_expl_heun_inside; target polimpl regenerates general_poloidal_advection_step_impl and Props/C12Gen2.lean proves gen_impl_sweep_eq, gen_impl_while_eq and gen_pol_impl_eq (whenever the model\'s implicit step returns with fuel N the generated function returns the same field with N+1 loop tests; termination not claimed); Props/C12Gen3.lean discharges the table contract of both ties with the generated eval_spline_2d_cross (gen_pol_expl_eq_nu/_cu, gen_pol_impl_eq_nu/_cu); Props/C12NonTerm.lean: pol_impl_need_not_terminate (known finding F28).',
    'C13': ' Props/C13Extra.lean: fd_converges_with_order (the analytic clause, via Taylor with Lagrange remainder), fd_error_explicit, fd_converges_uniformly, pargrad_converges_with_order.',
    'C18': ' Props/C18Extra.lean: constants_order_independent (full clause), constants_success_iff_resolvable, constants_run_is_solution. Props/C18Rp.lean: the parser with the setters of rMin / rMax and set_defaults (constants_rp_explicit, constants_rp_derived, constants_rp_order_independent, constants_print_parse_roundtrip_rp, old_parser_rp_depends_on_order).',
    'C06': ' Props/C06Traces.lean: handler_traces_projection (for EVERY handler, route map and sequence of transposes the predicted per-rank traces are the projections of one explicit event list), directTrace_members_agree, early_exit_consistent, handler_transposes_never_deadlock; Props/C06SwapperTraces.lean: the same for the LayoutSwapper (swapper_traces_projection, crossTrace_members_agree, swapper_transposes_never_deadlock) under CommOK (the constructor chose its communicators; proved for the driver swapper). early_exit_old_inconsistent / swapper_early_exit_inconsistent are the kernel-checked witnesses of the defects F15 / F16b found by this proof attempt and repaired in /repo. Props/C06Extra.lean: route_deterministic (any two iteration orders give the same routes/distances/connectedness for distinct names), route_canonical (graph distance, lexicographically least shortest path), route_nodup_needed. Tie by TRANSLATION for the route search: harness/translate_routes.py regenerates Generated/RoutesGen.lean from LayoutManager._makeConnectionMap (dicts with their keys, the iteration order of the set as a universally quantified parameter) and Props/C06Gen.lean proves gen_routes_eq (generated = Handler.routeMap: same flag, same keys, same routes, for every connection table, every order, fuel >= n), gen_routes_val_eq and gen_routes_deterministic (flag and route map do not depend on the iteration order of the set, i.e. on the string-hash seed). Props/C06Traces.lean also has the collectives of a checkpoint (checkpoint_trace_rank_independent, checkpoint_trace_old_plot_rank_differs: finding F30).',
    'C05': ' C05.timestep_decomposition_independent (Props/C15Extra.lean, over the loop body REGENERATED from fullSimulation.py): runs on two decompositions whose grid-level operators assemble to the same global operators agree, for a step and for a whole run. Props/C05Extra.lean: wiring_operators_independent derives that hypothesis from the wiring theorems, giving timestep_decomposition_independent_wiring / timestep_wiring_serial with only kernels and layout contracts as parameters. Tie by TRANSLATION for the initialisation functions: translate_pure.py --only initfuncs regenerates Generated/InitFuncsGen.lean from initialiser_funcs.py (exp, tanh, cos, sqrt, pi uninterpreted) and Props/C05Gen.lean proves the closed formulas (n0, Ti, Te, perturbation, f_eq, init_f) and gen_init_f_flux_eq / gen_init_f_pol_eq / gen_init_f_vpar_eq / gen_feq_vector_eq (every entry of the filled array is the scalar function at that entry\'s OWN coordinates, nothing else written). Tie by TRANSLATION for the grid-level loops: harness/translate_gridops.py regenerates Generated/GridOpsGen.lean from the gridStep methods of advection.py, DensityFinder, the two solveEquation loops and the three initialise_* (Grid accessors mapped to Model/GridApi.lean) and Props/C05Gen2.lean proves that the generated call lists are those of Model/Wiring.lean (gen_flux_eq, gen_vpar_eq, gen_pol_eq, gen_density_eq, gen_solve_eq, gen_init_eq) and hence gen_wiring_*: every slice is processed with the parameters of its own global indices; 65 decide examples recorded from the real methods.',
    'C08': ' Props/C08Extra.lean: marsden_identity, polynomial_in_spline_space, greville_reproduces_identity, poly_reproduction (full clause; injectivity of the collocation matrix is the one explicit hypothesis).',
    'C09': ' Props/C09Extra.lean: integrals_antiderivative (full clause for sorted knots with simple interior knots), periodic_tail_antiderivative, interior_integral_full, uniform_periodic_equal_weights_low_degree (degrees 1-6 unconditional; >=7 under unisolvence).',
}
for _k, _v in ADDENDA.items():
    _c = CLAIMS[_k]
    CLAIMS[_k] = (_c[0], _c[1], _c[2] + _v, _c[3], _c[4])


def main():
    checks = []
    for pid in ALL:
        if pid not in CLAIMS:
            continue
        level, tech, text, note, ref = CLAIMS[pid]
        checks.append({
            'property_id': pid,
            'quick_cmd': './check %s --tier quick' % pid,
            'thorough_cmd': './check %s --tier thorough' % pid,
            'evidence_file': 'evidence/%s.json' % pid,
            'replay_cmd_template': './check %s --replay {path}' % pid,
            'engine': 'lean4-proof+correspondence',
            'level_claimed': {'category': level, 'text': text, 'design_ref': ref},
            'level_note': note,
            'technique': tech,
        })
    na = [{'property_id': pid, 'reason': PENDING.get(pid, 'check not built yet (work in progress, see DESIGN.md section 7 for the order of work); not claimed until its Lean model, theorems and correspondence check are committed')}
          for pid in ALL if pid not in CLAIMS]
    man = {
        'version': 1,
        'setup_cmd': 'sh tools/setup.sh',
        'hooks': {
            'guard': 'PYGYRO_VERIF',
            'enable': 'no source hooks are needed: the harness substitutes mpi4py / wraps h5py.File from outside (sys.path), so /repo is used as it is',
            'baseline_off_cmd': 'cd /repo && /venv/bin/python -m pytest -ra -q -p no:cacheprovider --timeout=900 --continue-on-collection-errors',
            'source_commits': [],
            'add_only': True,
        },
        'engines': [{
            'name': 'lean4-proof+correspondence', 'path': 'lean/ + harness/',
            'serves_properties': [c['property_id'] for c in checks],
            'kind_free_text': 'Lean 4 model + theorems (lake build, #print axioms audit), JSON-lines model driver, Python correspondence harness running the real code of /repo (simulated MPI), model-independent oracles for the failing-input search',
        }],
        'checks': checks,
        'not_applicable': na,
        'notes': 'See DESIGN.md. Known findings and fixed defects: KNOWN_FINDINGS.json. Seeded breakages: seeded/.',
    }
    json.dump(man, open(os.path.join(HERE, 'MANIFEST.json'), 'w'), indent=1)
    print('claimed', [c['property_id'] for c in checks])


main()
