#!/bin/sh
# tools/robust_eval.sh <seeded dir> <seed>: applies the seeded change in a scratch worktree of /repo and runs the FIRST check of its
# caught_by list with VERIF_SEED=<seed> (no Lean build); prints one line "<id> <check> seed=<seed> caught|MISSED|error"
D="$(cd "$1" && pwd)"; SEED="$2"
ID="$(basename "$D")"
C="$(python3 -c "import json,sys;print(json.load(open('$D/meta.json'))['caught_by'][0])")"
WT="$(mktemp -d /tmp/rbwt.XXXXXX)"; rmdir "$WT"
git -C /repo worktree add -q "$WT" HEAD || { echo "$ID $C seed=$SEED error-worktree"; exit 0; }
if git -C "$WT" apply "$D/patch.diff" 2>/dev/null; then
  OUT="$(cd /verif && VERIF_SEED=$SEED VERIF_EVIDENCE_DIR="$WT/.ev" VERIF_REPLAY_DIR="$WT/.rp" PYGYRO_REPO="$WT" timeout 900 ./check "$C" --no-build 2>&1 | tail -3)"
  case "$OUT" in
    *VIOLATION*) R=caught;;
    *"ok $C"*) R=MISSED;;
    *) R="error:$(echo "$OUT" | tail -1 | cut -c1-80)";;
  esac
else
  R=error-apply
fi
git -C /repo worktree remove --force "$WT" >/dev/null 2>&1
echo "$ID $C seed=$SEED $R"
