#!/usr/bin/env python3
"""tools/make_mut_brief.py <round tag> <property id> : writes /tmp/mut_brief<round>_<id>.md and /tmp/prop_<id>.txt for a further round of
seeded changes (the agent gets the property text, the rules in /tmp/mut_brief.md and one-line summaries of ideas already used; nothing
from /verif)."""
import glob, json, os, sys
rnd, pid = sys.argv[1:3]
here = os.path.dirname(os.path.dirname(os.path.abspath(__file__)))
for l in open(os.path.join(here, 'properties.jsonl')):
    d = json.loads(l)
    if d['id'] == pid:
        open('/tmp/prop_%s.txt' % pid, 'w').write(json.dumps(d, indent=1))
used = []
for m in sorted(glob.glob(os.path.join(here, 'seeded', pid + '-*', 'meta.json'))):
    used.append('  - ' + json.load(open(m)).get('summary', '')[:260].replace('\n', ' '))
head = open(os.path.join(here, 'tools', 'mut_brief_further.md')).read()
if not os.path.exists('/tmp/mut_brief.md'):
    open('/tmp/mut_brief.md', 'w').write(open(os.path.join(here, 'tools', 'mut_brief.md')).read())
open('/tmp/mut_brief%s_%s.md' % (rnd, pid), 'w').write(head + 'Already used (one line each):\n' + '\n'.join(used) + '\n')
print(pid, len(used))
