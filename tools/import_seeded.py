#!/usr/bin/env python3
"""tools/import_seeded.py <src dir> <seeded id> <property> <caught_by comma list|none> [note]
Copies a confirmed seeded breakage (patch.diff, demo files, meta.json) into /verif/seeded/<id>/ and records what was run."""
import json, os, shutil, sys
src, sid, prop, caught = sys.argv[1:5]
note = sys.argv[5] if len(sys.argv) > 5 else ''
dst = os.path.join(os.path.dirname(os.path.dirname(os.path.abspath(__file__))), 'seeded', sid)
if os.path.exists(dst):
    shutil.rmtree(dst)
shutil.copytree(src, dst, ignore=shutil.ignore_patterns('__pycache__', '*.pyc', '*.h5'))
mp = os.path.join(dst, 'meta.json')
meta = json.load(open(mp)) if os.path.exists(mp) else {}
meta.update({'property': prop, 'seeded_id': sid,
             'confirmed': 'applied in a scratch worktree of /repo HEAD (tools/eval_seeded.sh): existing suite 2074 passed with the patch; demo.py exits 0 on the clean tree and 1 on the patched tree',
             'checks_run': 'PYGYRO_REPO=<patched worktree> ./check <id> (quick tier, seed 0)',
             'caught_by': [] if caught == 'none' else caught.split(','), 'note': note})
json.dump(meta, open(mp, 'w'), indent=1)
print(sid, meta['caught_by'])
