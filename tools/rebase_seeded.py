#!/usr/bin/env python3
"""tools/rebase_seeded.py <seeded dir> ...: when a fix: commit in /repo touched lines next to a seeded change, its patch.diff no longer
applies to HEAD.  For each given directory: find the newest ancestor of HEAD at which patch.diff applies, apply it there, and 3-way merge
every touched file with HEAD (git merge-file).  Without conflicts the new diff against HEAD replaces patch.diff (the old one is kept as
patch.orig_<commit>.diff); with conflicts the directory is reported and left alone."""
import os, shutil, subprocess, sys, tempfile
REPO = '/repo'


def sh(cmd, cwd=None, inp=None):
    return subprocess.run(cmd, shell=True, cwd=cwd, input=inp, capture_output=True, text=True)


def main():
    commits = sh('git rev-list --first-parent -n 40 HEAD', REPO).stdout.split()
    for d in sys.argv[1:]:
        d = os.path.abspath(d)
        patch = os.path.join(d, 'patch.diff')
        if sh('git apply --check %s' % patch, REPO).returncode == 0:
            print('applies', d)
            continue
        base = None
        wt = tempfile.mkdtemp(prefix='rbs')
        os.rmdir(wt)
        for c in commits[1:]:
            sh('git worktree remove --force %s' % wt, REPO)
            sh('git worktree add -q --detach %s %s' % (wt, c), REPO)
            if sh('git apply --check %s' % patch, wt).returncode == 0:
                base = c
                break
        if base is None:
            print('NO-BASE', d)
            sh('git worktree remove --force %s' % wt, REPO)
            continue
        sh('git apply %s' % patch, wt)
        files = sh('git diff --name-only', wt).stdout.split() + sh('git ls-files --others --exclude-standard', wt).stdout.split()
        head = tempfile.mkdtemp(prefix='rbh')
        os.rmdir(head)
        sh('git worktree add -q --detach %s HEAD' % head, REPO)
        conflict = False
        for f in files:
            mut = os.path.join(wt, f)
            cur = os.path.join(head, f)
            b = sh('git show %s:%s' % (base, f), REPO)
            if b.returncode != 0 or not os.path.exists(cur):
                shutil.copy(mut, cur)          # file added by the patch
                sh('git add -N %s' % f, head)
                continue
            bf = tempfile.NamedTemporaryFile('w', delete=False, suffix='.base')
            bf.write(b.stdout)
            bf.close()
            r = sh('git merge-file -p %s %s %s' % (mut, bf.name, cur))
            os.unlink(bf.name)
            if r.returncode != 0:
                conflict = True
                break
            open(cur, 'w').write(r.stdout)
        if conflict:
            print('CONFLICT', d)
        else:
            new = sh('git diff', head).stdout
            if not new.strip():
                print('EMPTY', d)
            else:
                keep = os.path.join(d, 'patch.orig_%s.diff' % base[:7])
                if not os.path.exists(keep):
                    shutil.copy(patch, keep)
                open(patch, 'w').write(new)
                print('rebased', d, 'from', base[:7])
        sh('git worktree remove --force %s' % wt, REPO)
        sh('git worktree remove --force %s' % head, REPO)


main()
