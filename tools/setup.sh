#!/bin/sh
# MANIFEST.setup_cmd: build the Lean library from the files on disk (offline).  The generated module(s) of the translator are
# produced first.  A module that does not compile must not keep the other properties' modules from being built: every check
# re-builds its own target (`lake build PygyroVerif.Props.<ID>`) and reports a broken proof obligation itself.
HERE="$(cd "$(dirname "$0")/.." && pwd)"
cd "$HERE" || exit 1
if [ -f harness/translate_driver.py ]; then
  /venv/bin/python harness/translate_driver.py >/dev/null 2>&1 || python3 harness/translate_driver.py >/dev/null 2>&1 || echo "translator failed (C18 will report it)"
fi
if [ -f harness/translate_pure.py ]; then
  /venv/bin/python harness/translate_pure.py --quiet >/dev/null 2>&1 || python3 harness/translate_pure.py --quiet >/dev/null 2>&1 || echo "translate_pure refused (C02/C20 will report it)"
fi
[ -f harness/translate_routes.py ] && { /venv/bin/python harness/translate_routes.py --quiet >/dev/null 2>&1 || python3 harness/translate_routes.py --quiet >/dev/null 2>&1 || echo "translate_routes refused (C06 will report it)"; }
[ -f harness/translate_gridops.py ] && { /venv/bin/python harness/translate_gridops.py --quiet >/dev/null 2>&1 || python3 harness/translate_gridops.py --quiet >/dev/null 2>&1 || echo "translate_gridops refused (C05 will report it)"; }
cd lean || exit 1
LOG="$(mktemp)"
# the root lists the models, lemma files and the Props files that need no generated module; the others (…Extra, …Gen, …Driver,
# …Traces, C18) are built one by one below so that each check finds its target compiled
if lake build >"$LOG" 2>&1; then echo "lake build ok"; else tail -5 "$LOG"; fi
rm -f "$LOG"
for f in PygyroVerif/Props/C*.lean; do
  m="PygyroVerif.Props.$(basename "$f" .lean)"
  lake build "$m" >/dev/null 2>&1 || echo "FAILED $m"
done
exit 0
