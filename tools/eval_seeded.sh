#!/bin/sh
# tools/eval_seeded.sh <dir with patch.diff demo.py meta.json> <check id ...>
# Confirms a seeded breakage (applies in a scratch worktree of /repo, existing tests still pass, demo fails with / passes
# without the patch) and runs the given checks against the patched tree (PYGYRO_REPO), printing one line per check.
set -u
D="$(cd "$1" && pwd)"; shift
WT="$(mktemp -d /tmp/seedwt.XXXXXX)"; rmdir "$WT"
git -C /repo worktree add -q "$WT" HEAD || exit 2
trap 'git -C /repo worktree remove --force "$WT" >/dev/null 2>&1' EXIT
( cd "$D" && /venv/bin/python demo.py "$WT" >/dev/null 2>&1 ); CLEAN=$?
git -C "$WT" apply "$D/patch.diff" || { echo "APPLY-FAILED"; exit 2; }
if [ "${SKIP_TESTS:-0}" = 1 ]; then TESTS="skipped"; else
TESTS="$(cd "$WT" && /venv/bin/python -m pytest -q -p no:cacheprovider --timeout=900 --continue-on-collection-errors 2>&1 | tail -1)"; fi
( cd "$D" && /venv/bin/python demo.py "$WT" >/dev/null 2>&1 ); PATCHED=$?
echo "demo clean=$CLEAN patched=$PATCHED tests: $TESTS"
for C in "$@"; do
  OUT="$(cd /verif && VERIF_EVIDENCE_DIR="$WT/.verif_evidence" VERIF_REPLAY_DIR="$WT/.verif_replays" PYGYRO_REPO="$WT" ./check "$C" ${NOBUILD---no-build} ${EXTRA_ARGS:-} 2>&1 | grep -E 'VIOLATION|^ok|^FAIL|HARNESS' | tr '\n' ' ')"
  echo "check $C: $OUT"
done
# the checks regenerate lean/PygyroVerif/Generated/* from the tree under test: put back what /repo says
/venv/bin/python /verif/harness/translate_driver.py --repo /repo --quiet >/dev/null 2>&1
/venv/bin/python /verif/harness/translate_pure.py --repo /repo --quiet >/dev/null 2>&1
/venv/bin/python /verif/harness/translate_routes.py --repo /repo --quiet >/dev/null 2>&1
/venv/bin/python /verif/harness/translate_gridops.py --repo /repo --quiet >/dev/null 2>&1
