#!/usr/bin/env python3
"""tools/validate_evidence.py (run with python3-vt: needs jsonschema): MANIFEST.json and every evidence file validate against the
schemas in /root/.vp, and each evidence file's level equals the category claimed in the manifest."""
import json, os, sys
import jsonschema
here = os.path.dirname(os.path.dirname(os.path.abspath(__file__)))
m = json.load(open(os.path.join(here, 'MANIFEST.json')))
jsonschema.validate(m, json.load(open('/root/.vp/MANIFEST.schema.json')))
sch = json.load(open('/root/.vp/EVIDENCE.schema.json'))
bad = 0
for c in m['checks']:
    pid = c['property_id']
    try:
        e = json.load(open(os.path.join(here, 'evidence', pid + '.json')))
        jsonschema.validate(e, sch)
        if e['level'] != c['level_claimed']['category']:
            raise ValueError('level %s but manifest claims %s' % (e['level'], c['level_claimed']['category']))
    except Exception as ex:  # noqa: BLE001
        bad += 1
        print(pid, 'PROBLEM:', str(ex)[:200])
print('evidence files checked: %d, problems: %d' % (len(m['checks']), bad))
sys.exit(1 if bad else 0)
