#!/usr/bin/env python3
"""tools/design_rows.py <seeded id> ...: prints the DESIGN.md section-10 table rows for the given seeded changes (summary cut to 170
characters, checks that report it, note)."""
import json, os, sys
here = os.path.dirname(os.path.dirname(os.path.abspath(__file__)))
for sid in sys.argv[1:]:
    m = json.load(open(os.path.join(here, 'seeded', sid, 'meta.json')))
    s = ' '.join(m.get('summary', '').split()).replace('|', '\\|')
    s = s[:170] + ('…' if len(s) > 170 else '')
    c = ', '.join(m.get('caught_by') or ['none'])
    note = m.get('note') or ''
    print('| %s | %s | %s%s |' % (sid, s, c, (' — ' + note.replace('|', '\\|')) if note else ''))
