#!/usr/bin/env python3
"""validate MANIFEST.json and every evidence file against the schemas in /root/.vp (run with python3-vt)"""
import json, sys, glob, jsonschema
man = json.load(open('/verif/MANIFEST.json'))
jsonschema.validate(man, json.load(open('/root/.vp/MANIFEST.schema.json')))
es = json.load(open('/root/.vp/EVIDENCE.schema.json'))
bad = 0
for c in man['checks']:
    f = '/verif/' + c['evidence_file']
    try:
        ev = json.load(open(f))
        jsonschema.validate(ev, es)
        assert ev['level'] == c['level_claimed']['category'], (ev['level'], c['level_claimed']['category'])
        if ev['level'] == 'proof':
            assert ev['coverage']['obligations'] == ev['coverage']['discharged'] >= 1, 'obligations/discharged'
        print('ok ', c['property_id'], ev['tier'], ev['level'], 'viol', ev.get('violations'), 'theorems', ev['coverage'].get('discharged'))
    except Exception as e:
        bad += 1
        print('BAD', c['property_id'], str(e)[:200])
ids = {c['property_id'] for c in man['checks']} | {n['property_id'] for n in man.get('not_applicable', [])}
assert ids == {'C%02d' % i for i in range(1, 21)}, ids
sys.exit(1 if bad else 0)
