#!/bin/sh
# Regenerate the git-ignored Lean sources (lean/PygyroVerif/Generated/*.lean) from the working tree of /repo.
# Must run before anything that builds PygyroVerif.Props.C18 (`./check C18` does it itself as its first step).
# Standard library Python only.  A refusal of the translator is reported but does not fail the set-up:
# `./check C18` reports it as a broken proof obligation.
HERE="$(cd "$(dirname "$0")" && pwd)"
PY=/venv/bin/python
[ -x "$PY" ] || PY=/usr/bin/python3
"$PY" "$HERE/../harness/translate_driver.py" --repo "${PYGYRO_REPO:-/repo}" || echo "gen_lean.sh: translator refused (see above); ./check C18 will report it"
if [ "$1" = "--build" ]; then
  cd "$HERE/../lean" && lake build PygyroVerif.Props.C18
fi
exit 0
